/-
  Shortest text output (`prec < 0`) in the formats `e E f g G` read back through `Parse` (C11, second part).

  1. the characters written: `sciText` (scientific) or `fixText` (fixed point) of the shortest digit string;
  2. the fixed-point layout of the shortest digits in closed form, and as a `Lit10` (`fixLit`);
  3. `textLit x c`: the literal written by `append x c (-1)`, its digits and value;
  4. the round trip through `parse` for every such literal (`parse_exact_litM`).
-/
import Proofs.Scan2
import Proofs.Format

namespace Decimal

/-! ## 1. The characters written with the shortest precision -/

theorem minPrec_pos_of_canon (x : Dec) (hf : x.form = .finite) (hM : 0 < x.mant)
    (hc : ndigits x.mant = 19 * x.len) : 0 < minPrec x := by
  rw [← ndigits_oddPart x hf hc]; exact ndigits_pos (oddPart_pos hM)

theorem shortestDigits_length (x : Dec) (hf : x.form = .finite) (hM : 0 < x.mant)
    (hc : ndigits x.mant = 19 * x.len) : (natDigits (oddPart x.mant)).length = minPrec x := by
  rw [natDigits_length (oddPart_pos hM), ndigits_oddPart x hf hc]

/-- `%e` / `%E`, shortest: all `minPrec x` digits, scientific. -/
theorem append_sci_shortest (x : Dec) (hf : x.form = .finite) (hM : 0 < x.mant)
    (hc : ndigits x.mant = 19 * x.len) (c : Char) (hce : c = 'e' ∨ c = 'E') (p : Int) (hp : p < 0) :
    append x c p = signChars x ++ sciText (natDigits (oddPart x.mant)) c (x.exp - 1) := by
  have hefg : isEFG c = true := by rcases hce with rfl | rfl <;> rfl
  have he : (c == 'e' || c == 'E') = true := by rcases hce with rfl | rfl <;> rfl
  have hinf : x.form ≠ .inf := by rw [hf]; decide
  have hpos := minPrec_pos_of_canon x hf hM hc
  rw [append_unfold x c p hinf hefg, appendRound_shortest x c p hp]
  simp only [he, if_true]
  obtain ⟨t1, _⟩ := fmtE_sci x c ((minPrec x : Int) - 1) hf hM hc (by omega) (by omega)
  have e0 : ((minPrec x : Int) - 1).toNat + 1 - minPrec x = 0 := by omega
  rw [e0, Nat.pow_zero, Nat.mul_one] at t1
  rw [t1]

/-- `%f`, shortest: all `minPrec x` digits, fixed point, `max (minPrec x − exp) 0` of them after the point. -/
theorem append_fix_shortest (x : Dec) (hf : x.form = .finite) (hM : 0 < x.mant)
    (hc : ndigits x.mant = 19 * x.len) (p : Int) (hp : p < 0) :
    append x 'f' p = signChars x ++
      fixText (natDigits (oddPart x.mant)) x.exp (max ((minPrec x : Int) - x.exp) 0) := by
  have hinf : x.form ≠ .inf := by rw [hf]; decide
  rw [append_unfold x 'f' p hinf rfl, appendRound_shortest x 'f' p hp]
  have he : ('f' == 'e' || 'f' == 'E') = false := rfl
  have hf' : ('f' == 'f') = true := rfl
  simp only [he, hf', Bool.false_eq_true, if_false, if_true]
  rw [fmtF_fix x _ hf hM hc, ex0_finite x hf]

/-- `%g` / `%G`, shortest: scientific iff the exponent `X = exp − 1` of the first digit is `< −4` or `≥ 6`
    (then exactly the `%e` / `%E` text), otherwise exactly the `%f` text. -/
theorem append_g_shortest_eq (x : Dec) (hf : x.form = .finite) (hM : 0 < x.mant)
    (hc : ndigits x.mant = 19 * x.len) (c : Char) (hcg : c = 'g' ∨ c = 'G') (p : Int) (hp : p < 0) :
    append x c p = if x.exp - 1 < -4 ∨ x.exp - 1 ≥ 6 then append x (if c = 'g' then 'e' else 'E') p
      else append x 'f' p := by
  rw [append_g_shortest x hf hM hc c hcg p hp]
  have hlen := shortestDigits_length x hf hM hc
  unfold gText gUsesE
  rw [hlen]
  have hmax : max ((if (minPrec x : Int) > x.exp then (minPrec x : Int) else (minPrec x : Int)) - x.exp) 0
      = max ((minPrec x : Int) - x.exp) 0 := by split <;> rfl
  rw [hmax]
  by_cases hcond : x.exp - 1 < -4 ∨ x.exp - 1 ≥ 6
  · have : (decide (x.exp - 1 < -4) || decide (x.exp - 1 ≥ 6)) = true := by
      simp only [Bool.or_eq_true, decide_eq_true_eq]; exact hcond
    rw [if_pos hcond, if_pos this]
    rcases hcg with rfl | rfl
    · exact (append_sci_shortest x hf hM hc 'e' (Or.inl rfl) p hp).symm
    · exact (append_sci_shortest x hf hM hc 'E' (Or.inr rfl) p hp).symm
  · have : ¬ (decide (x.exp - 1 < -4) || decide (x.exp - 1 ≥ 6)) = true := by
      simp only [Bool.or_eq_true, decide_eq_true_eq]; exact hcond
    rw [if_neg hcond, if_neg this]
    exact (append_fix_shortest x hf hM hc p hp).symm

/-! ## 2. The fixed-point layout of the shortest digit string, in closed form -/

theorem getD_drop_g (l : List Char) (k i : Nat) (d : Char) : (l.drop k).getD i d = l.getD (k + i) d := by
  rw [List.getD_eq_getElem?_getD, List.getD_eq_getElem?_getD, List.getElem?_drop]

/-- the fraction digits at positions `e … |O|−1` when `e ≤ 0`: `−e` zeros, then all the digits. -/
theorem fracDigits_nonpos (O : List Char) (k : Nat) :
    (List.range (k + O.length)).map (fun (i : Nat) => digitAtPos O (-(k : Int) + (i : Int))) =
      List.replicate k '0' ++ O := by
  rw [List.range_add, List.map_append, List.map_map]
  congr 1
  · have hrep : List.replicate k '0' = (List.range k).map (fun _ => '0') := by
      rw [List.map_const', List.length_range]
    rw [hrep]
    apply List.map_congr_left
    intro i hi
    have := List.mem_range.mp hi
    unfold digitAtPos
    rw [if_neg (by omega)]
  · have hfun : ((fun (i : Nat) => digitAtPos O (-(k : Int) + (i : Int))) ∘ fun x => k + x) =
        fun i => O.getD i '0' := by
      funext i
      simp only [Function.comp]
      unfold digitAtPos
      have h0 : (0 : Int) ≤ -(k : Int) + ((k + i : Nat) : Int) := by omega
      have h1 : (-(k : Int) + ((k + i : Nat) : Int)).toNat = i := by omega
      rw [if_pos h0, h1]
    rw [hfun, range_map_getD, List.take_of_length_le (Nat.le_refl _), Nat.sub_self]
    simp

/-- the fraction digits at positions `k … |O|−1` when `0 < k < |O|`: the digits from the `k`-th on. -/
theorem fracDigits_pos (O : List Char) (k : Nat) :
    (List.range (O.length - k)).map (fun (i : Nat) => digitAtPos O ((k : Int) + (i : Int))) = O.drop k := by
  have hfun : (fun (i : Nat) => digitAtPos O ((k : Int) + (i : Int))) = fun i => (O.drop k).getD i '0' := by
    funext i
    unfold digitAtPos
    have h0 : (0 : Int) ≤ (k : Int) + (i : Int) := by omega
    have h1 : ((k : Int) + (i : Int)).toNat = k + i := by omega
    rw [if_pos h0, h1, getD_drop_g]
  rw [hfun, range_map_getD]
  have hl : (O.drop k).length = O.length - k := List.length_drop
  rw [List.take_of_length_le (by omega), hl, Nat.sub_self]
  simp

/-- **The `%f` layout of a digit string `O` read as `0.O × 10^e`, with just enough fraction digits**:
    integer part = the first `e` digits, padded with zeros when `e > |O|` (`0` when `e ≤ 0`);
    fraction (present iff `e < |O|`) = `−e` zeros when `e < 0`, then the digits from the `e`-th on. -/
theorem fixText_shortest (O : List Char) (e : Int) :
    fixText O e (max ((O.length : Int) - e) 0) =
      (if e > 0 then O.take e.toNat ++ List.replicate (e.toNat - O.length) '0' else ['0']) ++
      (if (O.length : Int) - e > 0 then '.' :: (List.replicate (-e).toNat '0' ++ O.drop e.toNat) else []) := by
  unfold fixText
  congr 1
  · split
    · rw [range_map_getD]
    · rfl
  · by_cases hp : (O.length : Int) - e > 0
    · have hmax : max ((O.length : Int) - e) 0 = (O.length : Int) - e := by omega
      rw [hmax, if_pos hp, if_pos hp]
      congr 1
      by_cases he : e ≤ 0
      · obtain ⟨k, rfl⟩ : ∃ k : Nat, e = -(k : Int) := ⟨(-e).toNat, by omega⟩
        have h1 : ((O.length : Int) - -(k : Int)).toNat = k + O.length := by omega
        have h2 : (- -(k : Int)).toNat = k := by omega
        have h3 : (-(k : Int)).toNat = 0 := by omega
        rw [h1, h2, h3, List.drop_zero]
        exact fracDigits_nonpos O k
      · obtain ⟨k, rfl⟩ : ∃ k : Nat, e = (k : Int) := ⟨e.toNat, by omega⟩
        have h1 : ((O.length : Int) - (k : Int)).toNat = O.length - k := by omega
        have h2 : (-(k : Int)).toNat = 0 := by omega
        rw [h1, h2, Int.toNat_natCast, List.replicate_zero, List.nil_append]
        exact fracDigits_pos O k
    · have hmax : max ((O.length : Int) - e) 0 = 0 := by omega
      rw [hmax, if_neg hp]
      rfl

/-! ## 3. The fixed-point literal -/

/-- The literal `[-]ddd[.ddd]` (no exponent part) that the shortest `%f` layout writes for the digits of `C`
    read as `0.C × 10^e`. -/
def fixLit (neg : Bool) (C : Nat) (e : Int) : Lit10 :=
  let ds := decDigits C
  { neg := if neg then some true else none,
    ip := if e > 0 then ds.take e.toNat ++ List.replicate (e.toNat - ds.length) 0 else [0],
    fp := if (ds.length : Int) - e > 0 then some (List.replicate (-e).toNat 0 ++ ds.drop e.toNat) else none,
    ex := none }

theorem bytesOf_take (ds : List Nat) (k : Nat) : bytesOf (ds.take k) = (bytesOf ds).take k := by
  simp [bytesOf, List.map_take]

theorem bytesOf_drop (ds : List Nat) (k : Nat) : bytesOf (ds.drop k) = (bytesOf ds).drop k := by
  simp [bytesOf, List.map_drop]

theorem bytesOf_replicate_zero (k : Nat) : bytesOf (List.replicate k 0) = List.replicate k 48 := by
  simp [bytesOf]

theorem natDigits_length_eq (C : Nat) : (natDigits C).length = (decDigits C).length := by
  rw [natDigits_eq, decDigits, List.length_map]

/-- The bytes of the shortest fixed-point text are the rendering of `fixLit`. -/
theorem fixText_bytes (neg : Bool) (C : Nat) (e : Int) :
    ((if neg then ['-'] else []) ++
        fixText (natDigits C) e (max (((natDigits C).length : Int) - e) 0)).map Char.toNat
      = (fixLit neg C e).render := by
  have hb := natDigits_bytes C
  have hl := natDigits_length_eq C
  rw [fixText_shortest, hl]
  unfold fixLit
  simp only [Lit10.render, renderMant, renderExp, List.append_nil]
  rw [List.map_append, List.map_append]
  have hz : Char.toNat '0' = 48 := rfl
  have hdt : Char.toNat '.' = 46 := rfl
  have hmi : Char.toNat '-' = 45 := rfl
  congr 1
  · cases neg <;> rfl
  · congr 1
    · split
      · rw [List.map_append, List.map_take, hb, List.map_replicate, hz, bytesOf_append, bytesOf_take,
          bytesOf_replicate_zero]
      · rfl
    · split
      · simp only [List.map_cons, List.map_append, List.map_replicate, List.map_drop, hb, hz, hdt,
          bytesOf_append, bytesOf_drop, bytesOf_replicate_zero]
      · rfl

/-! ### the digits of `fixLit` -/

theorem ofDigits_replicate_zero (k : Nat) : ofDigits (List.replicate k 0) = 0 := by
  induction k with
  | zero => rfl
  | succ k ih => rw [List.replicate_succ, ofDigits_cons, ih]; simp

theorem isDigits_replicate_zero (k : Nat) : IsDigits (List.replicate k 0) := by
  intro d hd
  rw [(List.mem_replicate.mp hd).2]; omega

/-- number of layout zeros before the digits: `0.` and `−e` zeros when `e ≤ 0`. -/
def fixLead (e : Int) : Nat := if e ≤ 0 then 1 + (-e).toNat else 0

/-- number of layout zeros after the digits: `e − n` when the value is an integer with trailing zeros. -/
def fixTrail (n : Nat) (e : Int) : Nat := (e - (n : Int)).toNat

/-- **The digit string of `fixLit`** is the digits of `C` between `fixLead` zeros and `fixTrail` zeros. -/
theorem fixLit_digits (neg : Bool) (C : Nat) (e : Int) :
    (fixLit neg C e).ip ++ (fixLit neg C e).frac =
      List.replicate (fixLead e) 0 ++ decDigits C ++ List.replicate (fixTrail (decDigits C).length e) 0 := by
  have hne := decDigits_ne_nil C
  have hpos : 0 < (decDigits C).length := List.length_pos_iff.mpr hne
  unfold fixLit Lit10.frac fixLead fixTrail
  simp only
  generalize decDigits C = ds at hpos
  by_cases h1 : e ≤ 0
  · have h2 : ¬ e > 0 := by omega
    have h3 : (ds.length : Int) - e > 0 := by omega
    have h4 : (e - (ds.length : Int)).toNat = 0 := by omega
    have h5 : e.toNat = 0 := by omega
    simp only [h1, h2, h3, if_true, if_false, h4, h5, Option.getD_some, List.drop_zero,
      List.replicate_zero, List.append_nil]
    rw [Nat.add_comm, List.replicate_succ]
    rfl
  · have h2 : e > 0 := by omega
    simp only [h1, h2, if_true, if_false, List.replicate_zero, List.nil_append]
    by_cases h3 : (ds.length : Int) - e > 0
    · have h4 : (e - (ds.length : Int)).toNat = 0 := by omega
      have h5 : e.toNat - ds.length = 0 := by omega
      have h6 : (-e).toNat = 0 := by omega
      simp only [h3, if_true, h4, h5, h6, Option.getD_some, List.replicate_zero, List.append_nil,
        List.nil_append, List.take_append_drop]
    · have h4 : (e - (ds.length : Int)).toNat = e.toNat - ds.length := by omega
      simp only [h3, if_false, h4, Option.getD_none, List.append_nil]
      rw [List.take_of_length_le (by omega)]

theorem ofDigits_padded (ds : List Nat) (a b : Nat) :
    ofDigits (List.replicate a 0 ++ ds ++ List.replicate b 0) = ofDigits ds * 10 ^ b := by
  rw [ofDigits_append, ofDigits_append, ofDigits_replicate_zero, ofDigits_replicate_zero, List.length_replicate]
  simp

theorem fixLit_coef (neg : Bool) (C : Nat) (e : Int) :
    (fixLit neg C e).coef = C * 10 ^ fixTrail (decDigits C).length e := by
  rw [Lit10.coef, fixLit_digits, ofDigits_padded, ofDigits_decDigits]

theorem fixLit_sign (neg : Bool) (C : Nat) (e : Int) : (fixLit neg C e).sign = neg := by
  simp only [Lit10.sign, fixLit]
  cases neg <;> rfl

theorem fixLit_ex (neg : Bool) (C : Nat) (e : Int) : (fixLit neg C e).ex = none := rfl

/-- the literal denotes `C × 10^(e − n)`, `n` the number of digits of `C`: the written coefficient is
    `C × 10^trail` and its exponent `(e − n) − trail`. -/
theorem fixLit_exp10 (neg : Bool) (C : Nat) (e : Int) :
    (fixLit neg C e).exp10 = e - ((decDigits C).length : Int) - (fixTrail (decDigits C).length e : Int) := by
  have hpos : 0 < (decDigits C).length := List.length_pos_iff.mpr (decDigits_ne_nil C)
  unfold Lit10.exp10 Lit10.frac fixLit fixTrail
  simp only [expVal]
  generalize decDigits C = ds at hpos
  by_cases h3 : (ds.length : Int) - e > 0
  · simp only [h3, if_true, Option.getD_some, List.length_append, List.length_replicate, List.length_drop]
    omega
  · simp only [h3, if_false, Option.getD_none, List.length_nil]
    omega

theorem fixLit_wf (neg : Bool) (C : Nat) (e : Int) : (fixLit neg C e).WF := by
  have hds := decDigits_isDigits C
  have hdig := fixLit_digits neg C e
  have hall : IsDigits ((fixLit neg C e).ip ++ (fixLit neg C e).frac) := by
    rw [hdig, IsDigits_append, IsDigits_append]
    exact ⟨⟨isDigits_replicate_zero _, hds⟩, isDigits_replicate_zero _⟩
  refine ⟨(IsDigits_append.mp hall).1, (IsDigits_append.mp hall).2, ?_, trivial⟩
  rw [hdig]
  intro h
  have := congrArg List.length h
  have hpos : 0 < (decDigits C).length := List.length_pos_iff.mpr (decDigits_ne_nil C)
  simp only [List.length_append, List.length_nil] at this
  omega

/-! ### the first digit -/

theorem decDigits_head_pos {C : Nat} (hC : 0 < C) : ∃ d tl, decDigits C = d :: tl ∧ d ≠ 0 := by
  cases hd : decDigits C with
  | nil => exact absurd hd (decDigits_ne_nil C)
  | cons d tl =>
    refine ⟨d, tl, rfl, ?_⟩
    rintro rfl
    have hlen := decDigits_length hC
    have hval := ofDigits_decDigits C
    have hdig := decDigits_isDigits C
    rw [hd] at hlen hval hdig
    rw [ofDigits_cons, Nat.zero_mul, Nat.zero_add] at hval
    have hlt := ofDigits_lt tl (IsDigits_cons.mp hdig).2
    rw [hval] at hlt
    have := pow_le_of_ndigits hC
    rw [← hlen, List.length_cons, Nat.add_sub_cancel] at this
    omega

/-- **No spurious leading zero**: the integer part of the fixed-point literal is the single digit `0`, or
    starts with a non-zero digit (so base 0 never sees a `0` followed by another digit). -/
theorem fixLit_ip_head (neg : Bool) (C : Nat) (e : Int) (hC : 0 < C) :
    (fixLit neg C e).ip = [0] ∨ ∃ d tl, (fixLit neg C e).ip = d :: tl ∧ d ≠ 0 := by
  obtain ⟨d, tl, hd, hne⟩ := decDigits_head_pos hC
  unfold fixLit
  simp only
  by_cases h : e > 0
  · right
    rw [if_pos h, hd]
    obtain ⟨k, hk⟩ : ∃ k, e.toNat = k + 1 := ⟨e.toNat - 1, by omega⟩
    rw [hk, List.take_succ_cons, List.cons_append]
    exact ⟨d, _, rfl, hne⟩
  · left; rw [if_neg h]

/-! ## 4. The scientific literal with either marker -/

set_option linter.unusedSimpArgs false in
/-- The bytes of `[-]d[.ddd]c±XX` are the rendering of `sciLit` with the marker byte of `c`. -/
theorem sciText_bytesM (neg : Bool) (C : Nat) (e : Int) (c : Char) :
    ((if neg then ['-'] else []) ++ sciText (natDigits C) c e).map Char.toNat =
      (sciLit neg C e).renderM c.toNat := by
  have hb := natDigits_bytes C
  have hl : (natDigits C).length = (decDigits C).length := natDigits_length_eq C
  unfold sciLit sciText
  simp only [Lit10.renderM, Lit10.bodyM, renderMant, renderExpM]
  cases hm : natDigits C with
  | nil =>
    have := decDigits_ne_nil C
    rw [hm] at hl
    exact absurd (List.length_eq_zero_iff.mp hl.symm) this
  | cons f rest =>
    cases hd : decDigits C with
    | nil => exact absurd hd (decDigits_ne_nil _)
    | cons d0 tl =>
      rw [hm, hd, List.map_cons, bytesOf_cons] at hb
      injection hb with hb1 hb2
      rw [hm, hd] at hl
      simp only [List.length_cons] at hl
      have hnd := natDigits_bytes e.natAbs
      have hz : Char.toNat '0' = 48 := rfl
      have hmi : Char.toNat '-' = 45 := rfl
      have hpl : Char.toNat '+' = 43 := rfl
      have hdt : Char.toNat '.' = 46 := rfl
      have hlt : (1 < rest.length + 1) = (1 < tl.length + 1) := by rw [hl]
      cases neg <;> by_cases hq : 1 < tl.length + 1 <;> by_cases hE : e < 0 <;>
        by_cases hk : e.natAbs < 10 <;>
        simp [hlt, hq, hE, hk, signBytes, bytesOf_cons, bytesOf_append, bytesOf_nil, hnd, hb1, hb2, hz, hmi, hpl, hdt]

theorem shortestLit_eq_sciLit (x : Dec) : shortestLit x = sciLit x.neg (oddPart x.mant) (x.exp - 1) := rfl

theorem sciLit_ip_head (neg : Bool) (C : Nat) (e : Int) (hC : 0 < C) :
    ∃ d, (sciLit neg C e).ip = [d] ∧ d ≠ 0 := by
  obtain ⟨d, tl, hd, hne⟩ := decDigits_head_pos hC
  refine ⟨d, ?_, hne⟩
  unfold sciLit
  simp only [hd, List.headD_cons]

/-! ## 5. Reading an exact literal back -/

/-- `d` is the finite Decimal `x` read back into the receiver `z`: same sign, exponent and mantissa
    fraction (`0.mant`, compared at a common length), accuracy Exact, the receiver's precision (34 when
    that is 0) and mode. -/
def ReadBack (z x d : Dec) : Prop :=
  d.form = .finite ∧ d.neg = x.neg ∧ d.acc = Exact ∧ d.exp = x.exp ∧
    d.mant * 10 ^ (19 * x.len) = x.mant * 10 ^ (19 * d.len) ∧
    d.prec = (if z.prec = 0 then 34 else z.prec) ∧ d.mode = z.mode

/-- **Round trip, general form.** A well-formed literal (marker `e` or `E`) with `x`'s sign whose written
    coefficient is the shortest coefficient of `x` followed by `a` zeros and whose exponent makes up for
    them — i.e. which denotes exactly `x` — is parsed back (base 10 or 0) into a receiver of precision at
    least `minPrec x` as `x`, Exact. -/
theorem parse_exact_litM (z x : Dec) (m : Nat) (hm : IsExpMarker m) (l : Lit10) (hwf : l.WF) (a : Nat)
    (base : Nat) (hbase : base = 10 ∨ base = 0)
    (hf : x.form = .finite) (hM : 0 < x.mant) (hc : ndigits x.mant = 19 * x.len)
    (hlo : MinExp ≤ x.exp) (hhi : x.exp ≤ MaxExp)
    (hp : minPrec x ≤ (if z.prec = 0 then 34 else z.prec))
    (hsg : l.sign = x.neg) (hcoef : l.coef = oddPart x.mant * 10 ^ a)
    (hk : l.exp10 = x.exp - (minPrec x : Int) - (a : Int)) :
    ∃ d, parse z (l.renderM m) base = .ok (d, 10) ∧ ReadBack z x d := by
  have hcp := oddPart_pos hM
  have hnd := ndigits_oddPart x hf hc
  have hndc : ndigits l.coef = minPrec x + a := by rw [hcoef, ndigits_mul_pow hcp, hnd]
  have he10 : (ndigits l.coef : Int) + l.exp10 = x.exp := by rw [hndc, hk]; omega
  have hpl := parse_litM z m hm l hwf base hbase
  have hc0 : l.coef ≠ 0 := by
    rw [hcoef]; exact Nat.pos_iff_ne_zero.mp (Nat.mul_pos hcp (pow_pos10 a))
  have hr : ¬ ((ndigits l.coef : Int) + l.exp10 < MinExp ∨ (ndigits l.coef : Int) + l.exp10 > MaxExp) := by
    rw [he10]; omega
  simp only [hc0, hr, if_false] at hpl
  refine ⟨_, hpl, ?_⟩
  have hp1 : 1 ≤ (if z.prec = 0 then 34 else z.prec) := by split <;> omega
  obtain ⟨hag, hprec, hmode, hneg⟩ :=
    setNormAndRound_eq_roundInt { z with neg := l.sign, prec := if z.prec = 0 then 34 else z.prec }
      l.coef l.exp10 false (Nat.pos_of_ne_zero hc0) hp1 (by intro h; cases h)
  simp only at hag hprec hmode hneg
  generalize setNormAndRound { z with neg := l.sign, prec := if z.prec = 0 then 34 else z.prec }
      l.coef l.exp10 false = d at *
  -- the specification side: trailing zeros do not matter, the coefficient fits, the result is exact
  have hri : Spec.roundInt z.mode (if z.prec = 0 then 34 else z.prec) l.sign l.coef l.exp10 false =
      { form := .finite, neg := x.neg,
        coef := oddPart x.mant * 10 ^ ((if z.prec = 0 then 34 else z.prec) - minPrec x),
        exp := x.exp, acc := Exact } := by
    rw [hcoef, hk, roundInt_scale _ _ _ _ _ _ a hcp (by intro h; cases h)]
    unfold Spec.roundInt
    have he : ((ndigits (oddPart x.mant) : Nat) : Int) + (x.exp - (minPrec x : Int)) = x.exp := by
      rw [hnd]; omega
    simp only [he]
    rw [hnd, hsg]
    rw [if_neg (by omega), if_pos hp, if_neg (by omega)]
  rw [hri] at hag
  unfold Spec.agrees at hag
  simp only [Bool.and_eq_true, beq_iff_eq, Bool.or_eq_true, bne_iff_ne, ne_eq] at hag
  obtain ⟨⟨⟨h1, h2⟩, h3⟩, h4⟩ := hag
  rcases h4 with h4 | ⟨h4, h5⟩
  · exact absurd h1 h4
  refine ⟨h1, h2, h3, h4, ?_, hprec, hmode⟩
  have hdr : ndigits (oddPart x.mant * 10 ^ ((if z.prec = 0 then 34 else z.prec) - minPrec x)) =
      (if z.prec = 0 then 34 else z.prec) := by
    rw [ndigits_mul_pow hcp, hnd]; omega
  rw [hdr, DW_eq] at h5
  have htz := (trailingZeros_spec hM).1
  have hmp := minPrec_finite_g x hf
  have hle : trailingZeros x.mant ≤ 19 * x.len := by
    have := ndigits_div_pow x.mant (trailingZeros x.mant)
    have h0 := ndigits_pos hcp
    unfold oddPart at h0
    omega
  have := pow_align d.mant (oddPart x.mant) (if z.prec = 0 then 34 else z.prec) (d.len * 19) (minPrec x)
    (trailingZeros x.mant) h5 hp
  have e19 : minPrec x + trailingZeros x.mant = 19 * x.len := by omega
  rw [e19] at this
  rw [this, Nat.mul_comm 19 d.len]
  congr 1

/-! ## 6. The literal written by `append x c (-1)`, uniformly in `c ∈ {e, E, f, g, G}` -/

/-- The five formats with a shortest form. -/
def IsTextFmt (c : Char) : Prop := c = 'e' ∨ c = 'E' ∨ c = 'f' ∨ c = 'g' ∨ c = 'G'

/-- The shortest text of `x` in format `c` uses the scientific layout: always for `e E`, never for `f`,
    and for `g G` iff the exponent `x.exp − 1` of the first digit is `< −4` or `≥ 6` (strconv's rule with
    `eprec = 6`). -/
def UsesSci (x : Dec) (c : Char) : Prop :=
  c = 'e' ∨ c = 'E' ∨ ((c = 'g' ∨ c = 'G') ∧ (x.exp - 1 < -4 ∨ x.exp - 1 ≥ 6))

instance (x : Dec) (c : Char) : Decidable (UsesSci x c) := by unfold UsesSci; infer_instance

/-- The exponent marker byte written by format `c`: `E` for `E G`, `e` otherwise. -/
def markerByte (c : Char) : Nat := if c = 'E' ∨ c = 'G' then 69 else 101

theorem markerByte_isMarker (c : Char) : IsExpMarker (markerByte c) := by
  unfold markerByte IsExpMarker; split <;> simp

/-- **The literal written by the shortest text**: `d[.ddd]e±XX` (`shortestLit`) in the scientific layout,
    `ddd[.ddd]` (`fixLit`) in the fixed-point layout. -/
def textLit (x : Dec) (c : Char) : Lit10 :=
  if UsesSci x c then shortestLit x else fixLit x.neg (oddPart x.mant) x.exp

/-- layout zeros before / after the `minPrec x` significant digits. -/
def textLead (x : Dec) (c : Char) : Nat := if UsesSci x c then 0 else fixLead x.exp
def textTrail (x : Dec) (c : Char) : Nat := if UsesSci x c then 0 else fixTrail (minPrec x) x.exp

theorem signChars_eq (x : Dec) : signChars x = if x.neg then ['-'] else [] := rfl

theorem text_bytes_sci (x : Dec) (hf : x.form = .finite) (hM : 0 < x.mant)
    (hc : ndigits x.mant = 19 * x.len) (c : Char) (hce : c = 'e' ∨ c = 'E') (p : Int) (hp : p < 0) :
    (append x c p).map Char.toNat = (shortestLit x).renderM c.toNat := by
  rw [append_sci_shortest x hf hM hc c hce p hp, signChars_eq, sciText_bytesM, shortestLit_eq_sciLit]

theorem text_bytes_fix (x : Dec) (hf : x.form = .finite) (hM : 0 < x.mant)
    (hc : ndigits x.mant = 19 * x.len) (p : Int) (hp : p < 0) :
    (append x 'f' p).map Char.toNat = (fixLit x.neg (oddPart x.mant) x.exp).render := by
  rw [append_fix_shortest x hf hM hc p hp, signChars_eq, ← shortestDigits_length x hf hM hc, fixText_bytes]

theorem usesSci_e (x : Dec) : UsesSci x 'e' := Or.inl rfl
theorem usesSci_E (x : Dec) : UsesSci x 'E' := Or.inr (Or.inl rfl)
theorem not_usesSci_f (x : Dec) : ¬ UsesSci x 'f' := by
  unfold UsesSci; simp
theorem usesSci_g (x : Dec) (c : Char) (hcg : c = 'g' ∨ c = 'G') :
    UsesSci x c ↔ (x.exp - 1 < -4 ∨ x.exp - 1 ≥ 6) := by
  unfold UsesSci
  rcases hcg with rfl | rfl <;> simp

/-- **The bytes of the shortest text are the rendering of `textLit`** with the format's marker. -/
theorem text_bytes (x : Dec) (hf : x.form = .finite) (hM : 0 < x.mant)
    (hc : ndigits x.mant = 19 * x.len) (c : Char) (hfmt : IsTextFmt c) (p : Int) (hp : p < 0) :
    (append x c p).map Char.toNat = (textLit x c).renderM (markerByte c) := by
  have hfix : ∀ m, (fixLit x.neg (oddPart x.mant) x.exp).renderM m =
      (fixLit x.neg (oddPart x.mant) x.exp).render := fun m => Lit10.renderM_noExp m _ rfl
  rcases hfmt with rfl | rfl | rfl | hcg
  · rw [text_bytes_sci x hf hM hc 'e' (Or.inl rfl) p hp]
    unfold textLit; rw [if_pos (usesSci_e x)]; rfl
  · rw [text_bytes_sci x hf hM hc 'E' (Or.inr rfl) p hp]
    unfold textLit; rw [if_pos (usesSci_E x)]; rfl
  · rw [text_bytes_fix x hf hM hc p hp]
    unfold textLit; rw [if_neg (not_usesSci_f x), hfix]
  · rw [append_g_shortest_eq x hf hM hc c hcg p hp]
    unfold textLit
    by_cases hcond : x.exp - 1 < -4 ∨ x.exp - 1 ≥ 6
    · rw [if_pos hcond, if_pos ((usesSci_g x c hcg).mpr hcond)]
      rcases hcg with rfl | rfl
      · exact text_bytes_sci x hf hM hc 'e' (Or.inl rfl) p hp
      · exact text_bytes_sci x hf hM hc 'E' (Or.inr rfl) p hp
    · rw [if_neg hcond, if_neg (fun h => hcond ((usesSci_g x c hcg).mp h)), hfix]
      exact text_bytes_fix x hf hM hc p hp

theorem decDigits_oddPart_length (x : Dec) (hf : x.form = .finite) (hM : 0 < x.mant)
    (hc : ndigits x.mant = 19 * x.len) : (decDigits (oddPart x.mant)).length = minPrec x := by
  rw [decDigits_length (oddPart_pos hM), ndigits_oddPart x hf hc]

/-- **The digit string of the literal**: the `minPrec x` digits of the mantissa without its trailing zeros,
    between `textLead` and `textTrail` layout zeros (both 0 in the scientific layout). -/
theorem textLit_digits (x : Dec) (hf : x.form = .finite) (hM : 0 < x.mant)
    (hc : ndigits x.mant = 19 * x.len) (c : Char) :
    (textLit x c).ip ++ (textLit x c).frac =
      List.replicate (textLead x c) 0 ++ decDigits (oddPart x.mant) ++ List.replicate (textTrail x c) 0 := by
  unfold textLit textLead textTrail
  by_cases h : UsesSci x c
  · simp only [h, if_true, List.replicate_zero, List.nil_append, List.append_nil]
    exact shortestLit_digits x
  · simp only [h, if_false]
    rw [fixLit_digits, decDigits_oddPart_length x hf hM hc]

theorem textLit_sign (x : Dec) (c : Char) : (textLit x c).sign = x.neg := by
  unfold textLit; split
  · exact shortestLit_sign x
  · exact fixLit_sign _ _ _

theorem textLit_coef (x : Dec) (hf : x.form = .finite) (hM : 0 < x.mant)
    (hc : ndigits x.mant = 19 * x.len) (c : Char) :
    (textLit x c).coef = oddPart x.mant * 10 ^ textTrail x c := by
  unfold textLit textTrail; split
  · rw [shortestLit_coef]; simp
  · rw [fixLit_coef, decDigits_oddPart_length x hf hM hc]

theorem textLit_exp10 (x : Dec) (hf : x.form = .finite) (hM : 0 < x.mant)
    (hc : ndigits x.mant = 19 * x.len) (c : Char) :
    (textLit x c).exp10 = x.exp - (minPrec x : Int) - (textTrail x c : Int) := by
  unfold textLit textTrail; split
  · rw [shortestLit_exp10 x hf hM hc]; simp
  · rw [fixLit_exp10, decDigits_oddPart_length x hf hM hc]

/-- The literal is well formed. The exponent range is needed for the scientific layout only (the written
    exponent must fit an int64; any `|x.exp| < 2^62` would do). -/
theorem textLit_wf (x : Dec) (c : Char) (hr : UsesSci x c → MinExp ≤ x.exp ∧ x.exp ≤ MaxExp) :
    (textLit x c).WF := by
  unfold textLit; split
  · rename_i h
    exact shortestLit_wf x (hr h).1 (hr h).2
  · exact fixLit_wf _ _ _

/-- The integer part is the single digit `0` (fixed-point layout of a value below 1) or starts with a
    non-zero digit. -/
theorem textLit_ip_head (x : Dec) (hM : 0 < x.mant) (c : Char) :
    (textLit x c).ip = [0] ∨ ∃ d tl, (textLit x c).ip = d :: tl ∧ d ≠ 0 := by
  unfold textLit; split
  · obtain ⟨d, h1, h2⟩ := sciLit_ip_head x.neg (oddPart x.mant) (x.exp - 1) (oddPart_pos hM)
    exact Or.inr ⟨d, [], by rw [shortestLit_eq_sciLit, h1], h2⟩
  · exact fixLit_ip_head _ _ _ (oddPart_pos hM)

/-- the last of the significant digits is not 0. -/
theorem decDigits_getLast (C : Nat) : (decDigits C).getLast? = some (C % 10) := by
  by_cases h : C < 10
  · rw [decDigits_lt_ten h, Nat.mod_eq_of_lt h]; rfl
  · rw [decDigits_ge_ten (by omega)]; simp

/-- **Round trip** for the five formats. -/
theorem parse_text_shortest (z x : Dec) (c : Char) (hfmt : IsTextFmt c) (p : Int) (hp : p < 0)
    (base : Nat) (hbase : base = 10 ∨ base = 0)
    (hf : x.form = .finite) (hM : 0 < x.mant) (hc : ndigits x.mant = 19 * x.len)
    (hlo : MinExp ≤ x.exp) (hhi : x.exp ≤ MaxExp)
    (hprec : minPrec x ≤ (if z.prec = 0 then 34 else z.prec)) :
    ∃ d, parse z ((append x c p).map Char.toNat) base = .ok (d, 10) ∧ ReadBack z x d := by
  rw [text_bytes x hf hM hc c hfmt p hp]
  exact parse_exact_litM z x (markerByte c) (markerByte_isMarker c) (textLit x c)
    (textLit_wf x c (fun _ => ⟨hlo, hhi⟩)) (textTrail x c) base hbase hf hM hc hlo hhi hprec
    (textLit_sign x c) (textLit_coef x hf hM hc c) (textLit_exp10 x hf hM hc c)

/-! ## 7. Zeros and infinities -/

/-- The literal written for a zero: `0`, or `0e+00` / `0E+00` in the formats `e` / `E`. -/
def zeroLit (x : Dec) (c : Char) : Lit10 :=
  { neg := if x.neg then some true else none, ip := [0], fp := none,
    ex := if c = 'e' ∨ c = 'E' then some (some false, [0, 0]) else none }

theorem zeroLit_wf (x : Dec) (c : Char) : (zeroLit x c).WF := by
  refine ⟨?_, ?_, ?_, ?_⟩
  · intro d hd; simp [zeroLit] at hd; omega
  · intro d hd; simp [zeroLit, Lit10.frac] at hd
  · simp [zeroLit]
  unfold zeroLit
  simp only
  split
  · unfold ExpOk; decide
  · trivial

theorem zeroLit_coef (x : Dec) (c : Char) : (zeroLit x c).coef = 0 := rfl

theorem zeroLit_sign (x : Dec) (c : Char) : (zeroLit x c).sign = x.neg := by
  simp only [Lit10.sign, zeroLit]; cases x.neg <;> rfl

/-- The shortest text of `±0`: `[-]0e+00`, `[-]0E+00`, `[-]0`, `[-]0`, `[-]0`. -/
theorem append_zero_shortest (x : Dec) (hz : x.form = .zero) (p : Int) (hp : p < 0) :
    append x 'e' p = signChars x ++ "0e+00".toList ∧ append x 'E' p = signChars x ++ "0E+00".toList ∧
    append x 'f' p = signChars x ++ ['0'] ∧ append x 'g' p = signChars x ++ ['0'] ∧
    append x 'G' p = signChars x ++ ['0'] := by
  have h0 : ¬ p > 0 := by omega
  refine ⟨?_, ?_, ?_, append_zero_g x 'g' p hz (Or.inl rfl), append_zero_g x 'G' p hz (Or.inr rfl)⟩
  · rw [append_zero_e x 'e' p hz (Or.inl rfl), if_neg h0]; rfl
  · rw [append_zero_e x 'E' p hz (Or.inr rfl), if_neg h0]; rfl
  · rw [append_zero_f x p hz, if_neg h0]; rfl

theorem text_bytes_zero (x : Dec) (hz : x.form = .zero) (c : Char) (hfmt : IsTextFmt c) (p : Int) (hp : p < 0) :
    (append x c p).map Char.toNat = (zeroLit x c).renderM (markerByte c) := by
  obtain ⟨h1, h2, h3, h4, h5⟩ := append_zero_shortest x hz p hp
  rcases hfmt with rfl | rfl | rfl | rfl | rfl
  · rw [h1, signChars_eq]; unfold zeroLit; cases x.neg <;> rfl
  · rw [h2, signChars_eq]; unfold zeroLit; cases x.neg <;> rfl
  · rw [h3, signChars_eq]; unfold zeroLit; cases x.neg <;> rfl
  · rw [h4, signChars_eq]; unfold zeroLit; cases x.neg <;> rfl
  · rw [h5, signChars_eq]; unfold zeroLit; cases x.neg <;> rfl

/-- **±0 round-trips**: a zero of the same sign, Exact, with the receiver's precision (34 when 0). -/
theorem parse_text_zero (z x : Dec) (hz : x.form = .zero) (c : Char) (hfmt : IsTextFmt c) (p : Int) (hp : p < 0)
    (base : Nat) (hbase : base = 10 ∨ base = 0) :
    parse z ((append x c p).map Char.toNat) base =
      .ok ({ z with neg := x.neg, prec := if z.prec = 0 then 34 else z.prec, acc := Exact, form := .zero }, 10) := by
  rw [text_bytes_zero x hz c hfmt p hp, parse_litM z _ (markerByte_isMarker c) _ (zeroLit_wf x c) base hbase]
  simp only [zeroLit_coef, if_true, zeroLit_sign]

/-- The six spellings of an infinity `Parse` accepts, in any base. -/
theorem parse_inf_spellings (z : Dec) (base : Nat) :
    parse z ("Inf".toList.map Char.toNat) base = .ok (setInf z false, 0) ∧
    parse z ("inf".toList.map Char.toNat) base = .ok (setInf z false, 0) ∧
    parse z ("+Inf".toList.map Char.toNat) base = .ok (setInf z false, 0) ∧
    parse z ("+inf".toList.map Char.toNat) base = .ok (setInf z false, 0) ∧
    parse z ("-Inf".toList.map Char.toNat) base = .ok (setInf z true, 0) ∧
    parse z ("-inf".toList.map Char.toNat) base = .ok (setInf z true, 0) := by
  refine ⟨?_, ?_, ?_, ?_, ?_, ?_⟩ <;> rfl

/-- **±Inf round-trips** (every format and precision, every base): the text is `+Inf` / `-Inf` and
    `Parse` returns `z.SetInf(sign)`. -/
theorem parse_text_inf (z x : Dec) (hinf : x.form = .inf) (c : Char) (p : Int) (base : Nat) :
    parse z ((append x c p).map Char.toNat) base = .ok (setInf z x.neg, 0) := by
  rw [append_inf x c p hinf]
  obtain ⟨_, _, h3, _, h5, _⟩ := parse_inf_spellings z base
  cases x.neg
  · exact h3
  · exact h5

/-! ## 8. The significant digits; leftover bytes -/

/-- `sig` is the string of significant digits of `x`: exactly `minPrec x` decimal digits, the first and the
    last of them non-zero, which read as a number give `x`'s mantissa without its trailing zeros. -/
def IsSigDigits (x : Dec) (sig : List Nat) : Prop :=
  IsDigits sig ∧ sig.length = minPrec x ∧ (∃ d tl, sig = d :: tl ∧ d ≠ 0) ∧ (∃ ini d, sig = ini ++ [d] ∧ d ≠ 0) ∧
    ofDigits sig * 10 ^ (19 * x.len - minPrec x) = x.mant

theorem decDigits_last {C : Nat} (hC : C % 10 ≠ 0) : ∃ ini d, decDigits C = ini ++ [d] ∧ d ≠ 0 := by
  by_cases h : C < 10
  · exact ⟨[], C, by rw [decDigits_lt_ten h]; rfl, by omega⟩
  · exact ⟨decDigits (C / 10), C % 10, decDigits_ge_ten (by omega), hC⟩

theorem sigDigits_spec (x : Dec) (hf : x.form = .finite) (hM : 0 < x.mant)
    (hc : ndigits x.mant = 19 * x.len) : IsSigDigits x (decDigits (oddPart x.mant)) := by
  have hcp := oddPart_pos hM
  refine ⟨decDigits_isDigits _, decDigits_oddPart_length x hf hM hc, decDigits_head_pos hcp,
    decDigits_last (trailingZeros_spec hM).2, ?_⟩
  rw [ofDigits_decDigits]
  have h1 := (trailingZeros_spec hM).1
  have h2 := minPrec_finite_g x hf
  have h3 := ndigits_oddPart x hf hc
  have h4 := ndigits_pos hcp
  have h5 := ndigits_div_pow x.mant (trailingZeros x.mant)
  unfold oddPart at h3 h4 ⊢
  have : 19 * x.len - minPrec x = trailingZeros x.mant := by omega
  rw [this]; exact h1

/-- **The whole text must be consumed**: the shortest text of a finite `x` followed by anything that does
    not continue the number (`TailOk`: e.g. a space, a letter other than an exponent marker after a
    fixed-point text, a second `.`) is rejected with `trailing`. -/
theorem parse_text_trailing (z x : Dec) (c : Char) (hfmt : IsTextFmt c) (p : Int) (hp : p < 0)
    (base : Nat) (hbase : base = 10 ∨ base = 0) (rest : List Nat) (hrest : rest ≠ [])
    (hf : x.form = .finite) (hM : 0 < x.mant) (hc : ndigits x.mant = 19 * x.len)
    (hlo : MinExp ≤ x.exp) (hhi : x.exp ≤ MaxExp)
    (hend : TailOk (decide (base = 0)) (textLit x c) rest) (hpl : NoPrefixLetterHead rest) :
    parse z ((append x c p).map Char.toNat ++ rest) base = .error .trailing := by
  have hwf := textLit_wf x c (fun _ => ⟨hlo, hhi⟩)
  rw [text_bytes x hf hM hc c hfmt p hp]
  apply parse_trailingM z _ (markerByte_isMarker c) _ hwf base rest hrest _ hend
  · right
    have hcp := oddPart_pos hM
    have hnd := ndigits_oddPart x hf hc
    rw [textLit_coef x hf hM hc c, textLit_exp10 x hf hM hc c, ndigits_mul_pow hcp, hnd]
    constructor <;> omega
  · rcases hbase with h | h
    · exact Or.inl h
    · exact Or.inr ⟨h, hwf.noBasePrefixM_rest _ (markerByte_isMarker c) rest hpl⟩

end Decimal
