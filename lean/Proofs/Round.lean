/-
  The L1 model of `round` / `setExpAndRound` / `setNormAndRound` computes the integer
  specification `Spec.roundInt`.

  Structure of the proof
    1. arithmetic of the word-aligned cut, the truncation `x - x % lsd`, the carry out of the
       top word (`overflow_iff`, `overflow_mant`);
    2. the model's decisions (inexact?, increment?) in terms of the discarded remainder
       (`inexact_eq`, `inc_eq`);
    3. `round` and `roundInt` brought to a common shape (`roundShape`, `roundIntTail`,
       `agrees_shape`), giving `round_agrees_long` / `round_agrees_short` for a normalised
       mantissa of `19·len` digits;
    4. `roundInt` is invariant under `N ↦ N·10^s, k ↦ k − s` (`roundInt_scale`), which undoes
       the `dnorm` shift;
    5. `setNormAndRound_eq_roundInt`.

  The statement of the main theorem was first evaluated (`#eval`, 1 781 820 instances: 154
  mantissas of 1–43 digits incl. all-nines / tie / near-tie patterns, precisions 1–45, all six
  modes, both signs, both sticky values, 19 exponents around 0 and around both range limits):
  no mismatch, so it is proved exactly as requested, with no additional hypothesis.
-/
import Proofs.Basic
import DecimalModel.Spec.RoundInt
import Mathlib.Tactic.IntervalCases

namespace Decimal
open Spec

theorem ten_pow_pos (k : Nat) : 0 < 10 ^ k := Nat.pow_pos (by omega)

/-! ### 1. Cut, truncation, carry -/

/-- Truncation to a multiple of `L`. -/
theorem sub_mod_eq (a L : Nat) : a - a % L = (a / L) * L := by
  have h := Nat.div_add_mod a L
  rw [Nat.mul_comm] at h
  omega

/-- Truncation after adding one unit `L`. -/
theorem add_sub_mod_eq (a L : Nat) (hL : 0 < L) : (a + L) - (a + L) % L = (a / L + 1) * L := by
  rw [sub_mod_eq, Nat.add_div_right a hL]

/-- The word-aligned cut `M1` of the model, as a power-of-ten quotient. -/
theorem cut_eq (Mn m n : Nat) (hnm : n ≤ m) :
    (if m > n then Mn / B ^ (m - n) else Mn) = Mn / 10 ^ (19 * (m - n)) := by
  split
  · rw [B_pow]
  · have : m - n = 0 := by omega
    simp [this]

theorem cut_div (Mn m n p : Nat) (hnm : n ≤ m) (hp : p ≤ n * 19) :
    Mn / 10 ^ (19 * (m - n)) / 10 ^ (n * 19 - p) = Mn / 10 ^ (m * 19 - p) := by
  rw [Nat.div_div_eq_div_mul, ← Nat.pow_add]
  congr 2
  have : n * 19 ≤ m * 19 := Nat.mul_le_mul_right _ hnm
  rw [Nat.mul_sub]
  omega

theorem digitAt_cut (M1 ntz : Nat) : digitAt M1 ntz % 2 = (M1 / 10 ^ ntz) % 2 := by
  unfold digitAt
  omega

/-- Mantissa overflow of the model ⇔ the incremented coefficient reaches `10^p`. -/
theorem overflow_iff (M1 L P lo : Nat) (hL : 0 < L) (hlo : lo = M1 / L) (hlt : lo < P) :
    (M1 + L) / (P * L) ≠ 0 ↔ lo + 1 = P := by
  have hPL : 0 < P * L := Nat.mul_pos (by omega) hL
  have hdm := Nat.div_add_mod M1 L
  have hml := Nat.mod_lt M1 hL
  rw [← hlo] at hdm
  rw [Ne, Nat.div_eq_zero_iff_lt hPL]
  constructor
  · intro h
    by_contra hne
    have h2 : lo + 2 ≤ P := by omega
    have := Nat.mul_le_mul_right L h2
    rw [Nat.add_mul] at this
    rw [Nat.mul_comm] at hdm
    omega
  · intro h
    subst h
    rw [Nat.add_mul, Nat.mul_comm] 
    omega

/-- The mantissa written by the overflow branch. -/
theorem overflow_mant (M1 L P Q lo n : Nat) (hL : 0 < L) (hlo : lo = M1 / L) (hP : lo + 1 = P)
    (hBn : B ^ n = P * L) (hB1 : (B / 10) * B ^ (n - 1) = Q * L) :
    let s := M1 + L
    let M2 := (s % B ^ n) % B ^ (n - 1) + (B / 10) * B ^ (n - 1)
    M2 - M2 % L = Q * L := by
  intro s M2
  have hdm := Nat.div_add_mod M1 L
  have hml := Nat.mod_lt M1 hL
  rw [← hlo] at hdm
  have hs : s = M1 % L + P * L := by
    show M1 + L = _
    rw [← hP, Nat.add_mul, Nat.mul_comm lo L]; omega
  have hPL : L ≤ P * L := Nat.le_mul_of_pos_left L (by omega)
  have h1 : s % B ^ n = M1 % L := by
    rw [hBn, hs, Nat.add_mod_right, Nat.mod_eq_of_lt (by omega)]
  have h2 : (M1 % L) % B ^ (n - 1) < L := Nat.lt_of_le_of_lt (Nat.mod_le _ _) hml
  show (s % B ^ n) % B ^ (n - 1) + (B / 10) * B ^ (n - 1)
      - ((s % B ^ n) % B ^ (n - 1) + (B / 10) * B ^ (n - 1)) % L = Q * L
  rw [h1, hB1, Nat.add_mul_mod_self_right, Nat.mod_eq_of_lt h2]
  omega

/-! ### 2. Decisions -/

theorem digitAt_lt (M i : Nat) : digitAt M i < 10 := Nat.mod_lt _ (by omega)

theorem rem_split (Mn r : Nat) : Mn % 10 ^ (r + 1) = Mn % 10 ^ r + 10 ^ r * digitAt Mn r := by
  rw [Nat.pow_succ, Nat.mod_mul]; rfl

/-- The model's final sticky bit. -/
def sbitF (mode : Mode) (Mn r : Nat) (sb : Bool) : Bool :=
  if !sb && (digitAt Mn r == 0 || mode == .ToNearestEven) then stickyBelow Mn r else sb

theorem inexact_eq (mode : Mode) (Mn r : Nat) (sb : Bool) :
    (digitAt Mn r != 0 || sbitF mode Mn r sb) = !(Mn % 10 ^ (r + 1) == 0 && !sb) := by
  rw [rem_split]
  unfold sbitF stickyBelow
  have hH := ten_pow_pos r
  generalize digitAt Mn r = d
  generalize Mn % 10 ^ r = low
  generalize 10 ^ r = H at hH
  have hH' : H ≠ 0 := by omega
  rw [Bool.eq_iff_iff]
  cases sb <;> by_cases hd : d = 0 <;> by_cases hl : low = 0 <;> simp [hd, hl, hH']

theorem inc_eq (mode : Mode) (neg : Bool) (Mn r lo : Nat) (sb : Bool) :
    roundInc mode neg (digitAt Mn r) (sbitF mode Mn r sb) (lo % 2 == 1)
      = incrInt mode neg lo (Mn % 10 ^ (r + 1)) (r + 1) sb := by
  have hd := digitAt_lt Mn r
  have hl : Mn % 10 ^ r < 10 ^ r := Nat.mod_lt _ (ten_pow_pos r)
  rw [rem_split]
  unfold sbitF stickyBelow roundInc incrInt
  simp only [Nat.add_sub_cancel]
  generalize digitAt Mn r = d at hd
  generalize Mn % 10 ^ r = low at hl
  generalize 10 ^ r = H at hl
  cases mode <;> simp only []
  · -- ToNearestEven
    rw [Bool.eq_iff_iff]
    simp only [Bool.or_eq_true, Bool.and_eq_true, decide_eq_true_eq, beq_iff_eq, Bool.not_eq_true']
    generalize (lo % 2 = 1) = par
    by_cases hp : par <;> cases sb <;>
      simp only [hp, Bool.false_eq_true, Bool.true_eq_false, if_true, if_false, or_true,
        or_false, and_true, and_false, bne_iff_ne, ne_eq] <;>
      interval_cases d <;> omega
  · -- ToNearestAway
    rw [Bool.eq_iff_iff]
    simp only [decide_eq_true_eq]
    interval_cases d <;> omega

/-! ### 3. Common shape of `round` and `roundInt` -/

/-- The shape of the model's `round` on a finite value, with abstract components. -/
def roundShape (neg : Bool) (exp : Int) (prec : Nat) (mode : Mode) (n : Nat)
    (X I O : Bool) (mInf mOvf mInc mTrunc : Nat) : Dec :=
  if X then
    if I then
      if O then
        if exp ≥ MaxExp then ⟨.inf, neg, mInf, n, exp, prec, mode, makeAcc (I != neg)⟩
        else ⟨.finite, neg, mOvf, n, exp + 1, prec, mode, makeAcc (I != neg)⟩
      else ⟨.finite, neg, mInc, n, exp, prec, mode, makeAcc (I != neg)⟩
    else ⟨.finite, neg, mTrunc, n, exp, prec, mode, makeAcc (I != neg)⟩
  else ⟨.finite, neg, mTrunc, n, exp, prec, mode, Exact⟩

/-- The tail of `roundInt` once the truncated coefficient, exactness and increment are known. -/
def roundIntTail (p : Nat) (neg : Bool) (lo : Nat) (e : Int) (E I : Bool) : SRes :=
  let inc := !E && I
  let c := if inc then lo + 1 else lo
  let (c, e) := if c == 10 ^ p then (10 ^ (p - 1), e + 1) else (c, e)
  let acc := if E then Exact else makeAcc (inc != neg)
  if e > MaxExp then { form := .inf, neg := neg, acc := makeAcc (!neg) }
  else { form := .finite, neg := neg, coef := c, exp := e, acc := acc }

theorem agrees_shape (neg : Bool) (exp : Int) (p : Nat) (mode : Mode) (n : Nat) (E I : Bool)
    (lo L mInf : Nat) (hp : 1 ≤ p) (hlo1 : 10 ^ (p - 1) ≤ lo) (hlo2 : lo < 10 ^ p)
    (hpn : p ≤ n * 19) (hL : L = 10 ^ (n * 19 - p)) (hmax : exp ≤ MaxExp) :
    agrees (roundShape neg exp p mode n (!E) I (decide (lo + 1 = 10 ^ p)) mInf
        (10 ^ (p - 1) * L) ((lo + 1) * L) (lo * L)) (roundIntTail p neg lo exp E I) = true := by
  have hnd_lo : ndigits lo = p := ndigits_eq_of_coef hlo1 hlo2
  have hnd_pow : ndigits (10 ^ (p - 1)) = p := by rw [ndigits_pow]; omega
  have hz : p - n * 19 = 0 := by omega
  have hne : (lo == 10 ^ p) = false := by simp; omega
  have hmax' : ¬ (exp > MaxExp) := by omega
  subst hL
  cases E
  · cases I
    · simp [roundShape, roundIntTail, agrees, hne, hmax', DW_eq, hnd_lo, hz]
    · by_cases ho : lo + 1 = 10 ^ p
      · by_cases he : exp ≥ MaxExp
        · have : exp + 1 > MaxExp := by omega
          simp [roundShape, roundIntTail, agrees, ho, he, this]
        · have : ¬ (exp + 1 > MaxExp) := by omega
          simp [roundShape, roundIntTail, agrees, ho, he, this, DW_eq, hnd_pow, hz]
      · have hnd1 : ndigits (lo + 1) = p := ndigits_eq_of_coef (by omega) (by omega)
        simp [roundShape, roundIntTail, agrees, ho, hmax', DW_eq, hnd1, hz]
  · simp [roundShape, roundIntTail, agrees, hne, hmax', DW_eq, hnd_lo, hz]

theorem round_eq_shape (neg : Bool) (mant len : Nat) (exp : Int) (prec : Nat) (mode : Mode)
    (acc : Acc) (sb : Bool) (hgt : prec < len * 19) :
    round ⟨.finite, neg, mant, len, exp, prec, mode, acc⟩ sb =
      let r := len * 19 - prec - 1
      let n := (prec + 18) / 19
      let M1 := if len > n then mant / B ^ (len - n) else mant
      let L := 10 ^ (n * 19 - prec)
      let s := M1 + L
      let M2 := (s % B ^ n) % B ^ (n - 1) + (B / 10) * B ^ (n - 1)
      roundShape neg exp prec mode n
        (digitAt mant r != 0 || sbitF mode mant r sb)
        (roundInc mode neg (digitAt mant r) (sbitF mode mant r sb) (digitAt M1 (n * 19 - prec) % 2 == 1))
        (s / B ^ n != 0) (s % B ^ n) (M2 - M2 % L) (s - s % L) (M1 - M1 % L) := by
  have h1 : ¬ (len * 19 ≤ prec) := by omega
  simp only [round, roundShape, sbitF, DW_eq, bne_self_eq_false, Bool.false_eq_true, if_false, h1]
  rfl

theorem roundInt_eq_tail (mode : Mode) (p : Nat) (neg : Bool) (N : Nat) (k : Int) (sb : Bool)
    (hmin : ¬ ((ndigits N : Int) + k < MinExp)) (hgt : p < ndigits N) :
    roundInt mode p neg N k sb =
      let r := ndigits N - p
      roundIntTail p neg (N / 10 ^ r) ((ndigits N : Int) + k)
        (N % 10 ^ r == 0 && !sb) (incrInt mode neg (N / 10 ^ r) (N % 10 ^ r) r sb) := by
  have h1 : ¬ (ndigits N ≤ p) := by omega
  simp only [roundInt, roundIntTail, hmin, h1, if_false]


theorem inexact_eq' (mode : Mode) (Mn R : Nat) (sb : Bool) (hR : 0 < R) :
    (digitAt Mn (R - 1) != 0 || sbitF mode Mn (R - 1) sb) = !(Mn % 10 ^ R == 0 && !sb) := by
  obtain ⟨r, rfl⟩ : ∃ r, R = r + 1 := ⟨R - 1, by omega⟩
  exact inexact_eq mode Mn r sb

theorem inc_eq' (mode : Mode) (neg : Bool) (Mn R lo : Nat) (sb : Bool) (hR : 0 < R) :
    roundInc mode neg (digitAt Mn (R - 1)) (sbitF mode Mn (R - 1) sb) (lo % 2 == 1)
      = incrInt mode neg lo (Mn % 10 ^ R) R sb := by
  obtain ⟨r, rfl⟩ : ∃ r, R = r + 1 := ⟨R - 1, by omega⟩
  exact inc_eq mode neg Mn r lo sb

/-- `round` on a normalised finite value whose mantissa is longer than the precision. -/
theorem round_agrees_long (neg : Bool) (mant len : Nat) (exp : Int) (prec : Nat) (mode : Mode)
    (acc : Acc) (sb : Bool) (hp : 1 ≤ prec) (hgt : prec < len * 19)
    (hnd : ndigits mant = len * 19) (hmin : MinExp ≤ exp) (hmax : exp ≤ MaxExp) :
    agrees (round ⟨.finite, neg, mant, len, exp, prec, mode, acc⟩ sb)
      (roundInt mode prec neg mant (exp - (len * 19 : Nat)) sb) = true := by
  have he : ((ndigits mant : Nat) : Int) + (exp - (len * 19 : Nat)) = exp := by rw [hnd]; omega
  rw [round_eq_shape _ _ _ _ _ _ _ _ hgt, roundInt_eq_tail _ _ _ _ _ _ (by rw [he]; omega) (by omega)]
  have he' : ((len * 19 : Nat) : Int) + (exp - (len * 19 : Nat)) = exp := by omega
  simp only [hnd, he']
  -- abbreviations
  have hn1 : prec ≤ (prec + 18) / 19 * 19 := by omega
  have hn2 : (prec + 18) / 19 ≤ len := by omega
  have hR : 0 < len * 19 - prec := by omega
  generalize hn : (prec + 18) / 19 = n at *
  generalize hRR : len * 19 - prec = R at *
  have hmpos : 0 < mant := by
    rcases Nat.eq_zero_or_pos mant with h | h
    · rw [h, ndigits_zero] at hnd; omega
    · exact h
  have hlo_nd : ndigits (mant / 10 ^ R) = prec := by rw [ndigits_div_pow, hnd]; omega
  have hlo_pos : 0 < mant / 10 ^ R := by
    rcases Nat.eq_zero_or_pos (mant / 10 ^ R) with h | h
    · rw [h, ndigits_zero] at hlo_nd; omega
    · exact h
  have hlo1 : 10 ^ (prec - 1) ≤ mant / 10 ^ R := by
    have := pow_le_of_ndigits hlo_pos; rwa [hlo_nd] at this
  have hlo2 : mant / 10 ^ R < 10 ^ prec := by
    have := ndigits_lt_pow (mant / 10 ^ R); rwa [hlo_nd] at this
  have hL := ten_pow_pos (n * 19 - prec)
  rw [cut_eq mant len n hn2]
  have hlo : mant / 10 ^ (19 * (len - n)) / 10 ^ (n * 19 - prec) = mant / 10 ^ R := by
    rw [cut_div mant len n prec hn2 hn1, hRR]
  have hBn : B ^ n = 10 ^ prec * 10 ^ (n * 19 - prec) := by
    rw [B_pow, ← Nat.pow_add]; congr 1; omega
  have hB1 : (B / 10) * B ^ (n - 1) = 10 ^ (prec - 1) * 10 ^ (n * 19 - prec) := by
    have : B / 10 = 10 ^ 18 := by decide
    rw [this, B_pow, ← Nat.pow_add, ← Nat.pow_add]; congr 1; omega
  rw [inexact_eq' mode mant R sb hR, digitAt_cut, hlo, inc_eq' mode neg mant R _ sb hR]
  rw [sub_mod_eq (mant / 10 ^ (19 * (len - n))), add_sub_mod_eq _ _ hL, hlo]
  have hO : ((mant / 10 ^ (19 * (len - n)) + 10 ^ (n * 19 - prec)) / B ^ n != 0)
      = decide (mant / 10 ^ R + 1 = 10 ^ prec) := by
    rw [Bool.eq_iff_iff, bne_iff_ne, decide_eq_true_eq, hBn]
    exact overflow_iff _ _ _ _ hL hlo.symm hlo2
  rw [hO]
  by_cases ho : mant / 10 ^ R + 1 = 10 ^ prec
  · have := overflow_mant _ _ _ _ _ n hL hlo.symm ho hBn hB1
    simp only at this
    rw [this]
    exact agrees_shape neg exp prec mode n _ _ _ _ _ hp hlo1 hlo2 hn1 rfl hmax
  · have h := agrees_shape neg exp prec mode n (mant % 10 ^ R == 0 && !sb)
      (incrInt mode neg (mant / 10 ^ R) (mant % 10 ^ R) R sb) (mant / 10 ^ R) _
      ((mant / 10 ^ (19 * (len - n)) + 10 ^ (n * 19 - prec)) % B ^ n) hp hlo1 hlo2 hn1 rfl hmax
    simp only [ho, decide_false] at h ⊢
    unfold roundShape at h ⊢
    simpa using h


/-- `round` on a value whose mantissa already fits the precision only resets the accuracy. -/
theorem round_short (neg : Bool) (mant len : Nat) (exp : Int) (prec : Nat) (mode : Mode)
    (acc : Acc) (sb : Bool) (hle : len * 19 ≤ prec) :
    round ⟨.finite, neg, mant, len, exp, prec, mode, acc⟩ sb
      = ⟨.finite, neg, mant, len, exp, prec, mode, Exact⟩ := by
  simp [round, DW_eq, hle]

theorem round_agrees_short (neg : Bool) (mant len : Nat) (exp : Int) (prec : Nat) (mode : Mode)
    (acc : Acc) (sb : Bool) (hle : len * 19 ≤ prec) (hpos : 0 < mant)
    (hnd : ndigits mant = len * 19) (hmin : MinExp ≤ exp) (hmax : exp ≤ MaxExp) :
    agrees (round ⟨.finite, neg, mant, len, exp, prec, mode, acc⟩ sb)
      (roundInt mode prec neg mant (exp - (len * 19 : Nat)) sb) = true := by
  have h1 : ¬ (exp < MinExp) := by omega
  have h2 : ¬ (exp > MaxExp) := by omega
  have h3 : ndigits (mant * 10 ^ (prec - len * 19)) = prec := by
    rw [ndigits_mul_pow hpos, hnd]; omega
  have h4 : len * 19 - prec = 0 := by omega
  rw [round_short _ _ _ _ _ _ _ _ hle]
  simp [roundInt, agrees, hnd, h1, h2, hle, h3, h4, DW_eq]

theorem round_fields (z : Dec) (sb : Bool) :
    (round z sb).prec = z.prec ∧ (round z sb).mode = z.mode ∧ (round z sb).neg = z.neg := by
  unfold round
  simp only
  repeat' split
  all_goals simp

/-! ### 4. Scale invariance of `roundInt` -/

theorem incrInt_scale (mode : Mode) (neg : Bool) (lo rem r s : Nat) (sb : Bool) (hr : 1 ≤ r) :
    incrInt mode neg lo (rem * 10 ^ s) (r + s) sb = incrInt mode neg lo rem r sb := by
  have hs := ten_pow_pos s
  have hpow : 5 * 10 ^ (r + s - 1) = (5 * 10 ^ (r - 1)) * 10 ^ s := by
    rw [Nat.mul_assoc, ← Nat.pow_add]; congr 2; omega
  unfold incrInt
  simp only [hpow]
  generalize 5 * 10 ^ (r - 1) = half
  generalize 10 ^ s = S at hs
  have h1 : rem * S > half * S ↔ rem > half := Nat.mul_lt_mul_right hs
  have h2 : rem * S ≥ half * S ↔ rem ≥ half := Nat.mul_le_mul_right_iff hs
  have h3 : (rem * S == half * S) = (rem == half) := by
    rw [Bool.eq_iff_iff, beq_iff_eq, beq_iff_eq]
    exact Nat.mul_right_cancel_iff hs
  cases mode <;> simp only [h1, h2, h3]

theorem roundInt_scale (mode : Mode) (p : Nat) (neg : Bool) (N : Nat) (k : Int) (sb : Bool)
    (s : Nat) (hN : 0 < N) (hsb : sb = true → p + 1 ≤ ndigits N) :
    roundInt mode p neg (N * 10 ^ s) (k - s) sb = roundInt mode p neg N k sb := by
  have hs := ten_pow_pos s
  have hnd : ndigits (N * 10 ^ s) = ndigits N + s := ndigits_mul_pow hN s
  have he : ((ndigits N + s : Nat) : Int) + (k - s) = (ndigits N : Int) + k := by omega
  by_cases hmin : (ndigits N : Int) + k < MinExp
  · simp [roundInt, hnd, hmin]
  by_cases h1 : ndigits N + s ≤ p
  · -- both fit
    have h2 : ndigits N ≤ p := by omega
    have h3 : N * 10 ^ s * 10 ^ (p - (ndigits N + s)) = N * 10 ^ (p - ndigits N) := by
      rw [Nat.mul_assoc, ← Nat.pow_add]; congr 2; omega
    simp only [roundInt, hnd, he, hmin, h1, h2, h3, if_true, if_false]
  by_cases h2 : ndigits N ≤ p
  · -- the scaled coefficient is cut, but only zeros are discarded
    have hsb' : sb = false := by
      cases sb
      · rfl
      · have := hsb rfl; omega
    subst hsb'
    have hsplit : N * 10 ^ s = N * 10 ^ (p - ndigits N) * 10 ^ (ndigits N + s - p) := by
      rw [Nat.mul_assoc, ← Nat.pow_add]; congr 2; omega
    have hr := ten_pow_pos (ndigits N + s - p)
    have hlo : N * 10 ^ s / 10 ^ (ndigits N + s - p) = N * 10 ^ (p - ndigits N) := by
      rw [hsplit, Nat.mul_div_cancel _ hr]
    have hrem : N * 10 ^ s % 10 ^ (ndigits N + s - p) = 0 := by
      rw [hsplit, Nat.mul_mod_left]
    have hlt : N * 10 ^ (p - ndigits N) < 10 ^ p := by
      have : 10 ^ p = 10 ^ ndigits N * 10 ^ (p - ndigits N) := by
        rw [← Nat.pow_add]; congr 1; omega
      rw [this]
      exact Nat.mul_lt_mul_of_pos_right (ndigits_lt_pow N) (ten_pow_pos _)
    have hne : (N * 10 ^ (p - ndigits N) == 10 ^ p) = false := by
      simp; omega
    simp [roundInt, hnd, hmin, h1, h2, hlo, hrem, hne]
  · -- both are cut at the same place
    have hr : 1 ≤ ndigits N - p := by omega
    have hrr : ndigits N + s - p = (ndigits N - p) + s := by omega
    have hlo : N * 10 ^ s / 10 ^ (ndigits N - p + s) = N / 10 ^ (ndigits N - p) := by
      rw [Nat.pow_add, Nat.mul_div_mul_right _ _ hs]
    have hrem : N * 10 ^ s % 10 ^ (ndigits N - p + s) = N % 10 ^ (ndigits N - p) * 10 ^ s := by
      rw [Nat.pow_add, Nat.mul_mod_mul_right]
    have hz : (N % 10 ^ (ndigits N - p) * 10 ^ s == 0) = (N % 10 ^ (ndigits N - p) == 0) := by
      rw [Bool.eq_iff_iff, beq_iff_eq, beq_iff_eq, Nat.mul_eq_zero]
      omega
    simp only [roundInt, hnd, he, hmin, h1, h2, hrr, hlo, hrem, hz, incrInt_scale _ _ _ _ _ _ _ hr,
      if_false]

/-! ### 5. `setExpAndRound`, `setNormAndRound` -/

/-- When the magnitude's exponent already exceeds `MaxExp`, `roundInt` is an infinity. -/
theorem roundInt_inf (mode : Mode) (p : Nat) (neg : Bool) (N : Nat) (k : Int) (sb : Bool)
    (hbig : (ndigits N : Int) + k > MaxExp) :
    roundInt mode p neg N k sb = { form := .inf, neg := neg, acc := makeAcc (!neg) } := by
  have hMM : MinExp < MaxExp := by decide
  have hmin : ¬ ((ndigits N : Int) + k < MinExp) := by omega
  have hbig1 : (ndigits N : Int) + k + 1 > MaxExp := by omega
  unfold roundInt
  simp only [hmin, hbig, if_true, if_false]
  split
  · rfl
  · split <;> simp only [gt_iff_lt] <;> split <;> simp

theorem roundInt_zero (mode : Mode) (p : Nat) (neg : Bool) (N : Nat) (k : Int) (sb : Bool)
    (hsmall : (ndigits N : Int) + k < MinExp) :
    roundInt mode p neg N k sb = { form := .zero, neg := neg, acc := makeAcc neg } := by
  simp [roundInt, hsmall]

theorem setNormAndRound_eq_roundInt (z : Dec) (M : Nat) (e : Int) (sb : Bool)
    (hM : 0 < M) (hp : 1 ≤ z.prec) (hsb : sb = true → z.prec + 1 ≤ ndigits M) :
    let z' := setNormAndRound z M e sb
    Spec.agrees z' (Spec.roundInt z.mode z.prec z.neg M e sb) = true
      ∧ z'.prec = z.prec ∧ z'.mode = z.mode ∧ z'.neg = z.neg := by
  obtain ⟨form, neg, mant, len, exp, prec, mode, acc⟩ := z
  simp only at hp hsb ⊢
  have hs := ndigits_add_dnormShift M
  have hndn := ndigits_dnorm hM
  generalize hsd : dnormShift M (nwords M) = s at *
  generalize hmd : nwords M = m at *
  have hE : e + ((m * DW : Nat) : Int) - (s : Int) = (ndigits M : Int) + e := by
    rw [DW_eq]; omega
  unfold setNormAndRound
  simp only [hsd, hmd, hE]
  unfold setExpAndRound
  simp only
  by_cases hmin : (ndigits M : Int) + e < MinExp
  · simp [hmin, roundInt_zero _ _ _ _ _ _ hmin, agrees]
  by_cases hmax : (ndigits M : Int) + e > MaxExp
  · simp [hmin, hmax, roundInt_inf _ _ _ _ _ _ hmax, agrees]
  simp only [hmin, hmax, if_false]
  refine ⟨?_, round_fields _ _⟩
  have hk : (ndigits M : Int) + e - ((m * 19 : Nat) : Int) = e - (s : Int) := by omega
  rw [← roundInt_scale mode prec neg M e sb s hM hsb, ← hk]
  by_cases hle : m * 19 ≤ prec
  · exact round_agrees_short _ _ _ _ _ _ _ _ hle (Nat.mul_pos hM (ten_pow_pos s)) hndn
      (by omega) (by omega)
  · exact round_agrees_long _ _ _ _ _ _ _ _ hp (by omega) hndn (by omega) (by omega)

end Decimal
