/-
  Helper lemmas for C09: the internal routines never change `prec` or `mode`.
  Core Lean only.
-/
import DecimalModel.Arith

namespace Decimal

@[simp] theorem round_prec (z : Dec) (s : Bool) : (round z s).prec = z.prec := by
  simp only [round]
  repeat' split
  all_goals rfl

@[simp] theorem round_mode (z : Dec) (s : Bool) : (round z s).mode = z.mode := by
  simp only [round]
  repeat' split
  all_goals rfl

@[simp] theorem setExpAndRound_prec (z : Dec) (e : Int) (s : Bool) :
    (setExpAndRound z e s).prec = z.prec := by
  unfold setExpAndRound
  split
  · rfl
  · split
    · rfl
    · rw [round_prec]

@[simp] theorem setExpAndRound_mode (z : Dec) (e : Int) (s : Bool) :
    (setExpAndRound z e s).mode = z.mode := by
  unfold setExpAndRound
  split
  · rfl
  · split
    · rfl
    · rw [round_mode]

@[simp] theorem setNormAndRound_prec (z : Dec) (M : Nat) (e : Int) (s : Bool) :
    (setNormAndRound z M e s).prec = z.prec := by
  simp only [setNormAndRound, setExpAndRound_prec]

@[simp] theorem setNormAndRound_mode (z : Dec) (M : Nat) (e : Int) (s : Bool) :
    (setNormAndRound z M e s).mode = z.mode := by
  simp only [setNormAndRound, setExpAndRound_mode]

@[simp] theorem uadd_prec (z x y : Dec) : (uadd z x y).prec = z.prec := by
  simp only [uadd]; repeat' split
  all_goals simp only [setNormAndRound_prec]

@[simp] theorem uadd_mode (z x y : Dec) : (uadd z x y).mode = z.mode := by
  simp only [uadd]; repeat' split
  all_goals simp only [setNormAndRound_mode]

@[simp] theorem usub_prec (z x y : Dec) : (usub z x y).prec = z.prec := by
  simp only [usub]; repeat' split
  all_goals first | rfl | simp only [setNormAndRound_prec]

@[simp] theorem usub_mode (z x y : Dec) : (usub z x y).mode = z.mode := by
  simp only [usub]; repeat' split
  all_goals first | rfl | simp only [setNormAndRound_mode]

@[simp] theorem umul_prec (z x y : Dec) : (umul z x y).prec = z.prec := by
  simp only [umul, setNormAndRound_prec]

@[simp] theorem umul_mode (z x y : Dec) : (umul z x y).mode = z.mode := by
  simp only [umul, setNormAndRound_mode]

@[simp] theorem uquo_prec (z x y : Dec) : (uquo z x y).prec = z.prec := by
  simp only [uquo, setNormAndRound_prec]

@[simp] theorem uquo_mode (z x y : Dec) : (uquo z x y).mode = z.mode := by
  simp only [uquo, setNormAndRound_mode]

@[simp] theorem zeroSignFix_prec (z : Dec) : (zeroSignFix z).prec = z.prec := by
  unfold zeroSignFix; split <;> rfl

@[simp] theorem zeroSignFix_mode (z : Dec) : (zeroSignFix z).mode = z.mode := by
  unfold zeroSignFix; split <;> rfl

theorem set_mode (z x : Dec) (same : Bool) : (set z x same).mode = z.mode := by
  simp only [set]; repeat' split
  all_goals first | rfl | simp only [round_mode]

theorem set_prec (z x : Dec) (same : Bool) :
    (set z x same).prec = if same = false ∧ z.prec = 0 then x.prec else z.prec := by
  cases same <;> simp only [set]
  · by_cases h : z.prec = 0
    · simp [h]
      split <;> simp
    · simp [h]
      repeat' split
      all_goals first | rfl | simp [round_prec]
  · simp

/-! ### `umax` -/

theorem umax_eq_zero {a b : Nat} : umax a b = 0 ↔ a = 0 ∧ b = 0 := by
  unfold umax; split <;> omega

theorem umax_zero_left (b : Nat) : umax 0 b = b := by
  unfold umax; split <;> omega

theorem umax_zero_right (a : Nat) : umax a 0 = a := by
  unfold umax; split <;> omega

/-- The attribute prologue shared by Add/Sub/Mul/Quo/FMA: a zero precision is replaced. -/
def prologue (z : Dec) (p : Nat) : Dec := if z.prec == 0 then { z with prec := p } else z

theorem prologue_prec (z : Dec) (p : Nat) :
    (prologue z p).prec = if z.prec = 0 then p else z.prec := by
  unfold prologue; by_cases h : z.prec = 0 <;> simp [h]

theorem prologue_mode (z : Dec) (p : Nat) : (prologue z p).mode = z.mode := by
  unfold prologue; split <;> rfl

/-! ### The public operations -/

theorem add_mode (z x y : Dec) (sx sy : Bool) : (add z x y sx sy).1.mode = z.mode := by
  simp only [add]
  repeat' split
  all_goals simp [set_mode]

theorem sub_mode (z x y : Dec) (sx sy : Bool) : (sub z x y sx sy).1.mode = z.mode := by
  simp only [sub]
  repeat' split
  all_goals simp [set_mode]

theorem mul_mode (z x y : Dec) (sx sy : Bool) : (mul z x y sx sy).1.mode = z.mode := by
  simp only [mul]
  repeat' split
  all_goals simp

theorem quo_mode (z x y : Dec) (sx sy : Bool) : (quo z x y sx sy).1.mode = z.mode := by
  simp only [quo]
  repeat' split
  all_goals simp

theorem add_prec (z x y : Dec) (sx sy : Bool) :
    (add z x y sx sy).1.prec = if z.prec = 0 then umax x.prec y.prec else z.prec := by
  simp only [add]
  by_cases h : z.prec = 0
  · simp only [h, beq_self_eq_true, if_true]
    repeat' split
    all_goals simp [set_prec, umax_eq_zero]
    all_goals (intro hs hx hy; simp [opnd, hs, hx, hy, umax_zero_left])
  · simp only [h, beq_iff_eq, if_false]
    repeat' split
    all_goals simp [set_prec, h]
theorem sub_prec (z x y : Dec) (sx sy : Bool) :
    (sub z x y sx sy).1.prec = if z.prec = 0 then umax x.prec y.prec else z.prec := by
  simp only [sub]
  by_cases h : z.prec = 0
  · simp only [h, beq_self_eq_true, if_true]
    repeat' split
    all_goals simp [set_prec, umax_eq_zero]
    all_goals (intro hs hx hy; simp [opnd, hs, hx, hy, umax_zero_left])
  · simp only [h, beq_iff_eq, if_false]
    repeat' split
    all_goals simp [set_prec, h]
theorem mul_prec (z x y : Dec) (sx sy : Bool) :
    (mul z x y sx sy).1.prec = if z.prec = 0 then umax x.prec y.prec else z.prec := by
  simp only [mul]
  by_cases h : z.prec = 0
  · simp only [h, beq_self_eq_true, if_true]
    repeat' split
    all_goals simp
  · simp only [h, beq_iff_eq, if_false]
    repeat' split
    all_goals simp
theorem quo_prec (z x y : Dec) (sx sy : Bool) :
    (quo z x y sx sy).1.prec = if z.prec = 0 then umax x.prec y.prec else z.prec := by
  simp only [quo]
  by_cases h : z.prec = 0
  · simp only [h, beq_self_eq_true, if_true]
    repeat' split
    all_goals simp
  · simp only [h, beq_iff_eq, if_false]
    repeat' split
    all_goals simp
theorem fma_mode (z x y u : Dec) (sx sy su : Bool) : (fma z x y u sx sy su).1.mode = z.mode := by
  simp only [fma]
  repeat' split
  all_goals simp [mul_mode, add_mode]

theorem fma_prec (z x y u : Dec) (sx sy su : Bool) :
    (fma z x y u sx sy su).1.prec =
      if z.prec = 0 then umax (umax x.prec y.prec) u.prec else z.prec := by
  simp only [fma]
  by_cases h : z.prec = 0
  · simp only [h, beq_self_eq_true, if_true]
    repeat' split
    all_goals simp [mul_prec, add_prec, umax_eq_zero]
    all_goals (intro hx hy hu; cases sx <;> cases sy <;> cases su <;> simp [opnd, hx, hy, hu, umax_zero_left])
  · simp only [h, beq_iff_eq, if_false]
    repeat' split
    all_goals simp [mul_prec, add_prec, h]
theorem neg_mode (z x : Dec) (same : Bool) : (neg z x same).mode = z.mode := by
  simp [neg, set_mode]
theorem neg_prec (z x : Dec) (same : Bool) :
    (neg z x same).prec = if same = false ∧ z.prec = 0 then x.prec else z.prec := by
  simp only [neg, set_prec]
theorem abs_mode (z x : Dec) (same : Bool) : (abs z x same).mode = z.mode := by
  simp [abs, set_mode]
theorem abs_prec (z x : Dec) (same : Bool) :
    (abs z x same).prec = if same = false ∧ z.prec = 0 then x.prec else z.prec := by
  simp only [abs, set_prec]

theorem copy_prec (z x : Dec) (same : Bool) :
    (copy z x same).prec = if same then z.prec else x.prec := by
  cases same <;> simp only [copy] <;> repeat' split
  all_goals simp
theorem copy_mode (z x : Dec) (same : Bool) :
    (copy z x same).mode = if same then z.mode else x.mode := by
  cases same <;> simp only [copy] <;> repeat' split
  all_goals simp

theorem setPrec_mode (z : Dec) (p : Nat) : (setPrec z p).mode = z.mode := by
  simp only [setPrec]; repeat' split
  all_goals simp
theorem setPrec_prec (z : Dec) (p : Nat) :
    (setPrec z p).prec = if p = 0 then 0 else if p > MaxPrec then MaxPrec else p := by
  simp only [setPrec]
  by_cases hp : p = 0
  · simp only [hp, beq_self_eq_true, if_true]; split <;> simp
  · simp only [hp, beq_iff_eq, if_false]
    repeat' split
    all_goals simp
theorem setMode_mode (z : Dec) (m : Mode) : (setMode z m).mode = m := rfl
theorem setMode_prec (z : Dec) (m : Mode) : (setMode z m).prec = z.prec := rfl
theorem setInf_mode (z : Dec) (s : Bool) : (setInf z s).mode = z.mode := rfl
theorem setInf_prec (z : Dec) (s : Bool) : (setInf z s).prec = z.prec := rfl

theorem setBits64_mode (z : Dec) (n : Bool) (x : Nat) (e : Int) :
    (setBits64 z n x e).mode = z.mode := by
  simp only [setBits64]; repeat' split
  all_goals simp
theorem setBits64_prec (z : Dec) (n : Bool) (x : Nat) (e : Int) :
    (setBits64 z n x e).prec = if z.prec = 0 then DefaultPrec else z.prec := by
  simp only [setBits64]
  by_cases h : z.prec = 0
  · simp only [h]; split <;> simp
  · simp only [h, beq_iff_eq, if_false]; split <;> simp

theorem setBitsExp_mode (z : Dec) (M r : Nat) (e : Int) : (setBitsExp z M r e).mode = z.mode := by
  simp only [setBitsExp]; split <;> simp
theorem setBitsExp_prec (z : Dec) (M r : Nat) (e : Int) : (setBitsExp z M r e).prec = z.prec := by
  simp only [setBitsExp]; split <;> simp

theorem setInt_mode (z : Dec) (x : Int) : (setInt z x).mode = z.mode := by
  simp only [setInt]; repeat' split
  all_goals simp
theorem setInt_prec_nonzero (z : Dec) (x : Int) (h : z.prec ≠ 0) : (setInt z x).prec = z.prec := by
  simp only [setInt]; repeat' split
  all_goals simp_all
theorem setInt_prec_zero (z : Dec) (x : Int) (h : z.prec = 0) :
    (setInt z x).prec =
      if x = 0 then DefaultPrec
      else umax (if ndigits x.natAbs > MaxPrec then MaxPrec else ndigits x.natAbs) DefaultPrec := by
  simp only [setInt]
  by_cases hx : x = 0
  · simp [hx, h]
  · simp [hx, h]

theorem setMantExp_prec (z m : Dec) (e : Int) (same : Bool) :
    (setMantExp z m e same).prec = if same then z.prec else m.prec := by
  simp only [setMantExp]; split <;> simp [copy_prec]
theorem setMantExp_mode (z m : Dec) (e : Int) (same : Bool) :
    (setMantExp z m e same).mode = if same then z.mode else m.mode := by
  simp only [setMantExp]; split <;> simp [copy_mode]
theorem mantExp_prec (x m : Dec) (same : Bool) :
    (mantExp x m same).2.prec = if same then m.prec else x.prec := by
  simp only [mantExp]; split <;> simp [copy_prec]
theorem mantExp_mode (x m : Dec) (same : Bool) :
    (mantExp x m same).2.mode = if same then m.mode else x.mode := by
  simp only [mantExp]; split <;> simp [copy_mode]
end Decimal
