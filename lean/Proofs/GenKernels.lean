/-
  The unsigned kernels of decimal.go — `uadd`, `usub`, `umul`, `uquo` — REGENERATED from the source
  (`DecimalModel/Gen/Facts.lean`: exponent arithmetic in wrapping int64, branch selection, shift and
  extension amounts, the exponent and sticky bit handed to `setExpAndRound`, and the sequence of mantissa
  statements as a trace of (code, integer arguments)) tied to the word-level model `DecimalModel/L0Decimal.lean`.

  For each kernel:
  * `<k>_gen`   what the generated function returns, in closed form, for all arguments in the range of the
                Go types (int32 exponents, slice lengths below 2^40);
  * `<k>G`      the kernel re-assembled from the generated function: the trace is EXECUTED statement by
                statement by an interpreter over the L0 operations (`shl add sub mul sqr div`), with the
                two mantissa variables of the Go code (`z.mant` and the temporary `t` / `xadj`, `r`);
  * `<k>_eq`    `W.<k> = <k>G` for every value of the aliasing tests `same(z.mant, x.mant)`,
                `same(z.mant, y.mant)`, `x == y` — in value semantics the temporaries change nothing.

  A changed comparison, a swapped operand of a shift, `ex = ey` dropped, a wrong sticky bit, another
  exponent formula or a reordered mantissa statement in the Go source changes the generated definition
  and breaks a theorem here. Core Lean only.
-/
import DecimalModel.L0Decimal
import DecimalModel.Gen.Facts
import Proofs.DecOps
import Proofs.Mul
import Proofs.GenTables

namespace Decimal.GenKernels

open Decimal Decimal.W Decimal.L0
open Decimal.Gen.Facts (wrapI64)

theorem wrapI64_id (a : Int) (h1 : -9223372036854775808 ≤ a) (h2 : a ≤ 9223372036854775807) :
    wrapI64 a = a := by
  unfold wrapI64; omega

/-- range of an `int32` field -/
def I32 (e : Int) : Prop := -2147483648 ≤ e ∧ e ≤ 2147483647

/-- a slice length that fits in memory -/
def Len (n : Nat) : Prop := n < 1099511627776

theorem c_DW_eq : (Decimal.Gen.c_DW : Nat) = 19 := rfl

/-! ### uadd -/

/-- the two mantissa variables the statements of `uadd` / `usub` work on -/
structure MS where
  zm : List Nat
  t : List Nat

/-- one mantissa statement of `uadd` (codes: see the doc comment of `Gen.Facts.uadd`) -/
def stepAdd (x y : List Nat) (s : MS) (op : Nat × List Int) : MS :=
  match op with
  | (1, [a]) => { s with t := L0.shl y a.toNat }          -- t := dec(nil).shl(y.mant, uint(ey-ex))
  | (2, []) => { s with zm := L0.add x s.t }              -- z.mant = z.mant.add(x.mant, t)
  | (3, [a]) => { s with zm := L0.shl y a.toNat }         -- z.mant = z.mant.shl(y.mant, uint(ey-ex))
  | (4, []) => { s with zm := L0.add x s.zm }             -- z.mant = z.mant.add(x.mant, z.mant)
  | (5, []) => { s with zm := L0.add x y }                -- z.mant = z.mant.add(x.mant, y.mant)
  | (6, [a]) => { s with t := L0.shl x a.toNat }          -- t := dec(nil).shl(x.mant, uint(ex-ey))
  | (7, []) => { s with zm := L0.add s.t y }              -- z.mant = z.mant.add(t, y.mant)
  | (8, [a]) => { s with zm := L0.shl x a.toNat }         -- z.mant = z.mant.shl(x.mant, uint(ex-ey))
  | (9, []) => { s with zm := L0.add s.zm y }             -- z.mant = z.mant.add(z.mant, y.mant)
  | _ => s

/-- the closed form of the generated `uadd` -/
theorem uadd_gen (xExp yExp : Int) (lenX lenY lenZ : Nat) (sameZX sameZY : Bool) (dn : Int)
    (hx : I32 xExp) (hy : I32 yExp) (hlx : Len lenX) (hly : Len lenY) (hlz : Len lenZ)
    (hdn : 0 ≤ dn ∧ dn ≤ 19) :
    let ex : Int := xExp - lenX * 19
    let ey : Int := yExp - lenY * 19
    Gen.Facts.uadd xExp lenX yExp lenY sameZX sameZY lenZ dn =
      { outcome := 0, tail := 1, arg := min ex ey + lenZ * 19 - dn, arg2 := 0,
        mtrace :=
          if ex < ey then (if sameZX then [(1, [ey - ex]), (2, [])] else [(3, [ey - ex]), (4, [])])
          else if ex > ey then (if sameZY then [(6, [ex - ey]), (7, [])] else [(8, [ex - ey]), (9, [])])
          else [(5, [])] } := by
  intro ex ey
  obtain ⟨hx1, hx2⟩ := hx
  obtain ⟨hy1, hy2⟩ := hy
  unfold Len at hlx hly hlz
  have hwx : wrapI64 ((lenX : Int) * 19) = lenX * 19 := wrapI64_id _ (by omega) (by omega)
  have hwy : wrapI64 ((lenY : Int) * 19) = lenY * 19 := wrapI64_id _ (by omega) (by omega)
  have hwz : wrapI64 ((lenZ : Int) * 19) = lenZ * 19 := wrapI64_id _ (by omega) (by omega)
  have hex : wrapI64 (xExp - lenX * 19) = ex := wrapI64_id _ (by omega) (by omega)
  have hey : wrapI64 (yExp - lenY * 19) = ey := wrapI64_id _ (by omega) (by omega)
  have hd1 : wrapI64 (ey - ex) = ey - ex := wrapI64_id _ (by omega) (by omega)
  have hd2 : wrapI64 (ex - ey) = ex - ey := wrapI64_id _ (by omega) (by omega)
  have ha1 : wrapI64 (wrapI64 (ex + lenZ * 19) - dn) = ex + lenZ * 19 - dn := by
    rw [wrapI64_id (ex + lenZ * 19) (by omega) (by omega)]; exact wrapI64_id _ (by omega) (by omega)
  have ha2 : wrapI64 (wrapI64 (ey + lenZ * 19) - dn) = ey + lenZ * 19 - dn := by
    rw [wrapI64_id (ey + lenZ * 19) (by omega) (by omega)]; exact wrapI64_id _ (by omega) (by omega)
  unfold Gen.Facts.uadd
  simp only [hwx, hwy, hwz, hex, hey, hd1, hd2, ha1, ha2, List.nil_append, List.cons_append]
  by_cases h1 : ex < ey
  · have hm : min ex ey = ex := by omega
    have ht : ((ey - ex) % 18446744073709551616).toNat = (ey - ex).toNat := by omega
    have ht' : max (ey - ex) 0 = ey - ex := by omega
    cases sameZX <;> simp [h1, hm, ht, ht']
  · by_cases h2 : ex > ey
    · have hm : min ex ey = ey := by omega
      have ht : ((ex - ey) % 18446744073709551616).toNat = (ex - ey).toNat := by omega
      have ht' : max (ex - ey) 0 = ex - ey := by omega
      cases sameZY <;> simp [h1, h2, hm, ht, ht']
    · have hm : min ex ey = ex := by omega
      simp [h1, h2, hm]

/-- `uadd` re-assembled from the generated function: trace executed over the L0 operations. -/
def uaddG (z x y : WDec) (sameZX sameZY : Bool) : Except String WDec :=
  let g0 := Gen.Facts.uadd x.exp x.mant.length y.exp y.mant.length sameZX sameZY ((0 : Nat) : Int) 0
  let mant := (g0.mtrace.foldl (stepAdd x.mant y.mant) ⟨z.mant, []⟩).zm
  match W.dnorm mant with
  | .error e => .error e
  | .ok (m', s) =>
    let g := Gen.Facts.uadd x.exp x.mant.length y.exp y.mant.length sameZX sameZY mant.length s
    if g.tail = 1 then W.setExpAndRound { z with mant := m' } g.arg g.arg2.toNat else .error "no tail call"

/-- the mantissa `W.uadd` computes -/
def uaddMant (x y : WDec) : List Nat :=
  let ex : Int := x.exp - (x.mant.length : Int) * 19
  let ey : Int := y.exp - (y.mant.length : Int) * 19
  if ex < ey then L0.add x.mant (L0.shl y.mant (ey - ex).toNat)
  else if ex > ey then L0.add (L0.shl x.mant (ex - ey).toNat) y.mant
  else L0.add x.mant y.mant

/-- **uadd_eq.** The word-level model of `uadd` IS the regenerated kernel, whatever the aliasing tests say. -/
theorem uadd_eq (z x y : WDec) (sameZX sameZY : Bool)
    (hx : I32 x.exp) (hy : I32 y.exp) (hlx : Len x.mant.length) (hly : Len y.mant.length)
    (hlz : Len (uaddMant x y).length)
    (hs : ∀ m' s, W.dnorm (uaddMant x y) = .ok (m', s) → s ≤ 19) :
    W.uadd z x y = uaddG z x y sameZX sameZY := by
  have hmant : ((Gen.Facts.uadd x.exp x.mant.length y.exp y.mant.length sameZX sameZY ((0 : Nat) : Int) 0).mtrace.foldl
      (stepAdd x.mant y.mant) ⟨z.mant, []⟩).zm = uaddMant x y := by
    rw [uadd_gen x.exp y.exp x.mant.length y.mant.length 0 sameZX sameZY 0 hx hy hlx hly (by unfold Len; omega) (by omega)]
    unfold uaddMant
    simp only []
    by_cases h1 : x.exp - (x.mant.length : Int) * 19 < y.exp - (y.mant.length : Int) * 19
    · cases sameZX <;> simp [h1, stepAdd]
    · by_cases h2 : x.exp - (x.mant.length : Int) * 19 > y.exp - (y.mant.length : Int) * 19
      · cases sameZY <;> simp [h1, h2, stepAdd]
      · simp [h1, h2, stepAdd]
  have hW : W.uadd z x y = dnormAndRound { z with mant := uaddMant x y }
      (min (x.exp - (x.mant.length : Int) * 19) (y.exp - (y.mant.length : Int) * 19) + ((uaddMant x y).length : Int) * 19) 0 := by
    unfold W.uadd uaddMant
    simp only [c_DW_eq]
    by_cases h1 : x.exp - (x.mant.length : Int) * 19 < y.exp - (y.mant.length : Int) * 19
    · have hm : min (x.exp - (x.mant.length : Int) * 19) (y.exp - (y.mant.length : Int) * 19) = x.exp - (x.mant.length : Int) * 19 := by omega
      simp [h1, hm]
    · by_cases h2 : x.exp - (x.mant.length : Int) * 19 > y.exp - (y.mant.length : Int) * 19
      · have hm : min (x.exp - (x.mant.length : Int) * 19) (y.exp - (y.mant.length : Int) * 19) = y.exp - (y.mant.length : Int) * 19 := by omega
        simp [h1, h2, hm]
      · have hm : min (x.exp - (x.mant.length : Int) * 19) (y.exp - (y.mant.length : Int) * 19) = x.exp - (x.mant.length : Int) * 19 := by omega
        simp [h1, h2, hm]
  rw [hW]
  unfold uaddG dnormAndRound
  simp only [hmant]
  cases hd : W.dnorm (uaddMant x y) with
  | error e => rfl
  | ok r =>
    obtain ⟨m', s⟩ := r
    have hs' := hs m' s hd
    simp only []
    rw [uadd_gen x.exp y.exp x.mant.length y.mant.length (uaddMant x y).length sameZX sameZY s hx hy hlx hly hlz (by omega)]
    simp

/-! ### usub -/

/-- the mantissa variables of `usub`: `dec.sub` can fail ("underflow"), which ends the kernel -/
structure MSub where
  zm : Except String (List Nat)
  t : List Nat

/-- one mantissa statement of `usub` (codes: see the doc comment of `Gen.Facts.usub`) -/
def stepSub (x y : List Nat) (s : MSub) (op : Nat × List Int) : MSub :=
  match op with
  | (1, [a]) => { s with t := L0.shl y a.toNat }                     -- t := dec(nil).shl(y.mant, uint(ey-ex))
  | (2, []) => { s with zm := L0.sub x s.t }                         -- z.mant = t.sub(x.mant, t)
  | (3, [a]) => { s with zm := .ok (L0.shl y a.toNat) }              -- z.mant = z.mant.shl(y.mant, uint(ey-ex))
  | (4, []) => { s with zm := s.zm.bind (fun m => L0.sub x m) }      -- z.mant = z.mant.sub(x.mant, z.mant)
  | (5, []) => { s with zm := L0.sub x y }                           -- z.mant = z.mant.sub(x.mant, y.mant)
  | (6, [a]) => { s with t := L0.shl x a.toNat }                     -- t := dec(nil).shl(x.mant, uint(ex-ey))
  | (7, []) => { s with zm := L0.sub s.t y }                         -- z.mant = t.sub(t, y.mant)
  | (8, [a]) => { s with zm := .ok (L0.shl x a.toNat) }              -- z.mant = z.mant.shl(x.mant, uint(ex-ey))
  | (9, []) => { s with zm := s.zm.bind (fun m => L0.sub m y) }      -- z.mant = z.mant.sub(z.mant, y.mant)
  | _ => s

theorem usub_gen (xExp yExp : Int) (lenX lenY lenZ : Nat) (sameZX sameZY : Bool) (dn : Int)
    (zAcc : Int) (zForm : Nat) (zNeg : Bool)
    (hx : I32 xExp) (hy : I32 yExp) (hlx : Len lenX) (hly : Len lenY) (hlz : Len lenZ)
    (hdn : 0 ≤ dn ∧ dn ≤ 19) :
    let ex : Int := xExp - lenX * 19
    let ey : Int := yExp - lenY * 19
    Gen.Facts.usub xExp lenX yExp lenY sameZX sameZY lenZ dn zAcc zForm zNeg =
      { outcome := 0, tail := if lenZ = 0 then 0 else 1,
        arg := if lenZ = 0 then 0 else min ex ey + lenZ * 19 - dn, arg2 := 0,
        mtrace :=
          if ex < ey then (if sameZX then [(1, [ey - ex]), (2, [])] else [(3, [ey - ex]), (4, [])])
          else if ex > ey then (if sameZY then [(6, [ex - ey]), (7, [])] else [(8, [ex - ey]), (9, [])])
          else [(5, [])],
        zAcc := if lenZ = 0 then 0 else zAcc, zForm := if lenZ = 0 then 0 else zForm,
        zNeg := if lenZ = 0 then false else zNeg } := by
  intro ex ey
  obtain ⟨hx1, hx2⟩ := hx
  obtain ⟨hy1, hy2⟩ := hy
  unfold Len at hlx hly hlz
  have hwx : wrapI64 ((lenX : Int) * 19) = lenX * 19 := wrapI64_id _ (by omega) (by omega)
  have hwy : wrapI64 ((lenY : Int) * 19) = lenY * 19 := wrapI64_id _ (by omega) (by omega)
  have hwz : wrapI64 ((lenZ : Int) * 19) = lenZ * 19 := wrapI64_id _ (by omega) (by omega)
  have hex : wrapI64 (xExp - lenX * 19) = ex := wrapI64_id _ (by omega) (by omega)
  have hey : wrapI64 (yExp - lenY * 19) = ey := wrapI64_id _ (by omega) (by omega)
  have hd1 : wrapI64 (ey - ex) = ey - ex := wrapI64_id _ (by omega) (by omega)
  have hd2 : wrapI64 (ex - ey) = ex - ey := wrapI64_id _ (by omega) (by omega)
  have ha1 : wrapI64 (wrapI64 (ex + lenZ * 19) - dn) = ex + lenZ * 19 - dn := by
    rw [wrapI64_id (ex + lenZ * 19) (by omega) (by omega)]; exact wrapI64_id _ (by omega) (by omega)
  have ha2 : wrapI64 (wrapI64 (ey + lenZ * 19) - dn) = ey + lenZ * 19 - dn := by
    rw [wrapI64_id (ey + lenZ * 19) (by omega) (by omega)]; exact wrapI64_id _ (by omega) (by omega)
  have hz : ((lenZ : Int) = 0) ↔ lenZ = 0 := by omega
  unfold Gen.Facts.usub
  simp only [hwx, hwy, hwz, hex, hey, hd1, hd2, ha1, ha2, List.nil_append, List.cons_append]
  by_cases h0 : lenZ = 0
  · by_cases h1 : ex < ey
    · have ht : ((ey - ex) % 18446744073709551616).toNat = (ey - ex).toNat := by omega
      have ht' : max (ey - ex) 0 = ey - ex := by omega
      cases sameZX <;> simp [h0, h1, ht, ht']
    · by_cases h2 : ex > ey
      · have ht : ((ex - ey) % 18446744073709551616).toNat = (ex - ey).toNat := by omega
        have ht' : max (ex - ey) 0 = ex - ey := by omega
        cases sameZY <;> simp [h0, h1, h2, ht, ht']
      · simp [h0, h1, h2]
  · have h0' : ¬ ((lenZ : Int) = 0) := by omega
    by_cases h1 : ex < ey
    · have hm : min ex ey = ex := by omega
      have ht : ((ey - ex) % 18446744073709551616).toNat = (ey - ex).toNat := by omega
      have ht' : max (ey - ex) 0 = ey - ex := by omega
      cases sameZX <;> simp [h0, h1, hm, ht, ht']
    · by_cases h2 : ex > ey
      · have hm : min ex ey = ey := by omega
        have ht : ((ex - ey) % 18446744073709551616).toNat = (ex - ey).toNat := by omega
        have ht' : max (ex - ey) 0 = ex - ey := by omega
        cases sameZY <;> simp [h0, h1, h2, hm, ht, ht']
      · have hm : min ex ey = ex := by omega
        simp [h0, h1, h2, hm]

/-- decoding of a form code -/
def formOf (n : Nat) : Form := (Form.ofNat? n).getD .zero

/-- `usub` re-assembled from the generated function. -/
def usubG (z x y : WDec) (sameZX sameZY : Bool) : Except String WDec :=
  let gen := fun (lenZ : Nat) (dn : Int) =>
    Gen.Facts.usub x.exp x.mant.length y.exp y.mant.length sameZX sameZY lenZ dn z.acc z.form.toNat z.neg
  match ((gen 0 0).mtrace.foldl (stepSub x.mant y.mant) ⟨.ok z.mant, []⟩).zm with
  | .error e => .error e
  | .ok mant =>
    let g0 := gen mant.length 0
    if g0.tail = 0 then
      -- `return` after the cancellation test: no kernel call
      .ok { z with mant := mant, acc := g0.zAcc, form := formOf g0.zForm, neg := g0.zNeg }
    else
      match W.dnorm mant with
      | .error e => .error e
      | .ok (m', s) =>
        let g := gen mant.length s
        W.setExpAndRound { z with mant := m', acc := g.zAcc, form := formOf g.zForm, neg := g.zNeg } g.arg g.arg2.toNat

/-- the mantissa `W.usub` computes -/
def usubMant (x y : WDec) : Except String (List Nat) :=
  let ex : Int := x.exp - (x.mant.length : Int) * 19
  let ey : Int := y.exp - (y.mant.length : Int) * 19
  if ex < ey then L0.sub x.mant (L0.shl y.mant (ey - ex).toNat)
  else if ex > ey then L0.sub (L0.shl x.mant (ex - ey).toNat) y.mant
  else L0.sub x.mant y.mant

@[simp] theorem formOf_toNat (f : Form) : formOf f.toNat = f := by cases f <;> rfl

/-- **usub_eq.** -/
theorem usub_eq (z x y : WDec) (sameZX sameZY : Bool)
    (hx : I32 x.exp) (hy : I32 y.exp) (hlx : Len x.mant.length) (hly : Len y.mant.length)
    (hlz : ∀ m, usubMant x y = .ok m → Len m.length)
    (hs : ∀ m m' s, usubMant x y = .ok m → W.dnorm m = .ok (m', s) → s ≤ 19) :
    W.usub z x y = usubG z x y sameZX sameZY := by
  have hmant : ((Gen.Facts.usub x.exp x.mant.length y.exp y.mant.length sameZX sameZY ((0 : Nat) : Int) 0
      z.acc z.form.toNat z.neg).mtrace.foldl (stepSub x.mant y.mant) ⟨.ok z.mant, []⟩).zm = usubMant x y := by
    rw [usub_gen x.exp y.exp x.mant.length y.mant.length 0 sameZX sameZY 0 _ _ _ hx hy hlx hly (by unfold Len; omega) (by omega)]
    unfold usubMant
    simp only []
    by_cases h1 : x.exp - (x.mant.length : Int) * 19 < y.exp - (y.mant.length : Int) * 19
    · cases sameZX <;> simp [h1, stepSub, Except.bind]
    · by_cases h2 : x.exp - (x.mant.length : Int) * 19 > y.exp - (y.mant.length : Int) * 19
      · cases sameZY <;> simp [h1, h2, stepSub, Except.bind]
      · simp [h1, h2, stepSub]
  have hW : W.usub z x y =
      (match usubMant x y with
       | .error e => .error e
       | .ok mant =>
         if mant.length = 0 then .ok { z with mant := mant, acc := Exact, form := .zero, neg := false }
         else dnormAndRound { z with mant := mant }
           (min (x.exp - (x.mant.length : Int) * 19) (y.exp - (y.mant.length : Int) * 19) + (mant.length : Int) * 19) 0) := by
    unfold W.usub usubMant
    simp only [c_DW_eq]
    by_cases h1 : x.exp - (x.mant.length : Int) * 19 < y.exp - (y.mant.length : Int) * 19
    · have hm : min (x.exp - (x.mant.length : Int) * 19) (y.exp - (y.mant.length : Int) * 19) = x.exp - (x.mant.length : Int) * 19 := by omega
      simp [h1, hm]
      generalize L0.sub _ _ = r
      cases r <;> rfl
    · by_cases h2 : x.exp - (x.mant.length : Int) * 19 > y.exp - (y.mant.length : Int) * 19
      · have hm : min (x.exp - (x.mant.length : Int) * 19) (y.exp - (y.mant.length : Int) * 19) = y.exp - (y.mant.length : Int) * 19 := by omega
        simp [h1, h2, hm]
        generalize L0.sub _ _ = r
        cases r <;> rfl
      · have hm : min (x.exp - (x.mant.length : Int) * 19) (y.exp - (y.mant.length : Int) * 19) = x.exp - (x.mant.length : Int) * 19 := by omega
        simp [h1, h2, hm]
        generalize L0.sub _ _ = r
        cases r <;> rfl
  rw [hW]
  unfold usubG dnormAndRound
  simp only [hmant]
  cases hm : usubMant x y with
  | error e => rfl
  | ok mant =>
    have hlz' := hlz mant hm
    simp only []
    rw [usub_gen x.exp y.exp x.mant.length y.mant.length mant.length sameZX sameZY 0 _ _ _ hx hy hlx hly hlz' (by omega)]
    by_cases h0 : mant.length = 0
    · simp [h0, Exact, formOf, Form.ofNat?]
    · simp only [h0, if_false]
      cases hd : W.dnorm mant with
      | error e => simp
      | ok r =>
        obtain ⟨m', s⟩ := r
        have hs' := hs mant m' s hm hd
        simp only []
        rw [usub_gen x.exp y.exp x.mant.length y.mant.length mant.length sameZX sameZY s _ _ _ hx hy hlx hly hlz' (by omega)]
        simp [h0]

/-! ### umul -/

/-- one mantissa statement of `umul` -/
def stepMul (t : Thr) (x y : List Nat) (zm : List Nat) (op : Nat × List Int) : List Nat :=
  match op with
  | (1, []) => L0.sqr t.bsqr t.ksqr t.kmul x.length x                -- z.mant = z.mant.sqr(x.mant)
  | (2, []) => L0.mul t.kmul (x.length + y.length + 1) x y           -- z.mant = z.mant.mul(x.mant, y.mant)
  | _ => zm

theorem umul_gen (xExp yExp : Int) (xIsY : Bool) (dn : Int) (hx : I32 xExp) (hy : I32 yExp) (hdn : 0 ≤ dn ∧ dn ≤ 19) :
    Gen.Facts.umul xExp yExp xIsY dn =
      { outcome := 0, tail := 1, arg := xExp + yExp - dn, arg2 := 0, mtrace := if xIsY then [(1, [])] else [(2, [])] } := by
  obtain ⟨hx1, hx2⟩ := hx
  obtain ⟨hy1, hy2⟩ := hy
  have h1 : wrapI64 (xExp + yExp) = xExp + yExp := wrapI64_id _ (by omega) (by omega)
  have h2 : wrapI64 (xExp + yExp - dn) = xExp + yExp - dn := wrapI64_id _ (by omega) (by omega)
  unfold Gen.Facts.umul
  cases xIsY <;> simp [h1, h2]

def umulG (z x y : WDec) (xIsY : Bool) (t : Thr) : Except String WDec :=
  let g0 := Gen.Facts.umul x.exp y.exp xIsY 0
  let mant := g0.mtrace.foldl (stepMul t x.mant y.mant) z.mant
  match W.dnorm mant with
  | .error e => .error e
  | .ok (m', s) =>
    let g := Gen.Facts.umul x.exp y.exp xIsY s
    if g.tail = 1 then W.setExpAndRound { z with mant := m' } g.arg g.arg2.toNat else .error "no tail call"

/-- **umul_eq.** (`xIsY` is the pointer test `x == y` that selects squaring) -/
theorem umul_eq (z x y : WDec) (xIsY : Bool) (t : Thr) (hx : I32 x.exp) (hy : I32 y.exp)
    (hs : ∀ m' s, W.dnorm (if xIsY then L0.sqr t.bsqr t.ksqr t.kmul x.mant.length x.mant
        else L0.mul t.kmul (x.mant.length + y.mant.length + 1) x.mant y.mant) = .ok (m', s) → s ≤ 19) :
    W.umul z x y xIsY t = umulG z x y xIsY t := by
  unfold W.umul umulG dnormAndRound
  rw [umul_gen x.exp y.exp xIsY 0 hx hy (by omega)]
  cases xIsY
  · simp only [Bool.false_eq_true, if_false, List.foldl, stepMul]
    cases hd : W.dnorm (L0.mul t.kmul (x.mant.length + y.mant.length + 1) x.mant y.mant) with
    | error e => rfl
    | ok r =>
      obtain ⟨m', s⟩ := r
      simp only []
      rw [umul_gen x.exp y.exp false s hx hy (by have := hs m' s (by simpa using hd); omega)]
      simp
  · simp only [if_true, List.foldl, stepMul]
    cases hd : W.dnorm (L0.sqr t.bsqr t.ksqr t.kmul x.mant.length x.mant) with
    | error e => rfl
    | ok r =>
      obtain ⟨m', s⟩ := r
      simp only []
      rw [umul_gen x.exp y.exp true s hx hy (by have := hs m' s (by simpa using hd); omega)]
      simp

/-! ### uquo -/

/-- the mantissa variables of `uquo`: the adjusted dividend, the quotient (`dec.div` can fail), the remainder -/
structure MQ where
  xadj : List Nat
  zm : Except String (List Nat)
  r : List Nat

/-- `copy(dst[d:], src)` -/
def copyAt (dst : List Nat) (d : Nat) (src : List Nat) : List Nat :=
  dst.take d ++ src.take (dst.length - d) ++ dst.drop (d + src.length)

/-- one mantissa statement of `uquo` (codes: see the doc comment of `Gen.Facts.uquo`) -/
def stepQuo (t : Thr) (x y : List Nat) (s : MQ) (op : Nat × List Int) : MQ :=
  match op with
  | (1, []) => { s with xadj := x }                                   -- xadj := x.mant
  | (2, [n]) => { s with xadj := zeros n.toNat }                      -- xadj = make(dec, len(x.mant)+d)
  | (3, [d]) => { s with xadj := copyAt s.xadj d.toNat x }            -- copy(xadj[d:], x.mant)
  | (4, []) => { s with r := [] }                                     -- var r dec
  | (5, []) =>                                                        -- z.mant, r = z.mant.div(nil, xadj, y.mant)
    match divFull t.drec t.kmul s.xadj y with
    | .error e => { s with zm := .error e }
    | .ok (q, r) => { s with zm := .ok q, r := r }
  | _ => s

theorem uquo_gen (zPrec : Nat) (xExp yExp : Int) (lenX lenY lenXadj lenZ lenR : Nat) (dn : Int)
    (hp : zPrec < 4294967296) (hx : I32 xExp) (hy : I32 yExp) (hlx : Len lenX) (hly : Len lenY)
    (hla : Len lenXadj) (hlz : Len lenZ) (hdn : 0 ≤ dn ∧ dn ≤ 19) :
    let d : Int := ((zPrec / 19 : Nat) : Int) + 1 - lenX + lenY
    Gen.Facts.uquo zPrec xExp lenX yExp lenY lenXadj lenZ lenR dn =
      { outcome := 0, tail := 1,
        arg := xExp - yExp - ((lenXadj : Int) - lenY - lenZ) * 19 - dn,
        arg2 := if lenR > 0 then 1 else 0,
        mtrace := if d > 0 then [(1, []), (2, [lenX + d]), (3, [d]), (4, []), (5, [])] else [(1, []), (4, []), (5, [])] } := by
  intro d
  obtain ⟨hx1, hx2⟩ := hx
  obtain ⟨hy1, hy2⟩ := hy
  unfold Len at hlx hly hla hlz
  have hq : (zPrec / 19 : Nat) < 4294967296 := by omega
  have hn : wrapI64 (((zPrec / 19 : Nat) : Int) + 1) = ((zPrec / 19 : Nat) : Int) + 1 := wrapI64_id _ (by omega) (by omega)
  have hd : wrapI64 (wrapI64 (((zPrec / 19 : Nat) : Int) + 1 - lenX) + lenY) = d := by
    rw [wrapI64_id (((zPrec / 19 : Nat) : Int) + 1 - lenX) (by omega) (by omega)]; exact wrapI64_id _ (by omega) (by omega)
  have hxd : wrapI64 ((lenX : Int) + d) = lenX + d := wrapI64_id _ (by omega) (by omega)
  have hd' : wrapI64 ((lenXadj : Int) - lenY) = lenXadj - lenY := wrapI64_id _ (by omega) (by omega)
  have he : wrapI64 (wrapI64 (xExp - yExp) - wrapI64 (wrapI64 ((lenXadj : Int) - lenY - lenZ) * 19)) =
      xExp - yExp - ((lenXadj : Int) - lenY - lenZ) * 19 := by
    rw [wrapI64_id (xExp - yExp) (by omega) (by omega), wrapI64_id ((lenXadj : Int) - lenY - lenZ) (by omega) (by omega),
      wrapI64_id (((lenXadj : Int) - lenY - lenZ) * 19) (by omega) (by omega)]
    exact wrapI64_id _ (by omega) (by omega)
  have hea : wrapI64 (xExp - yExp - ((lenXadj : Int) - lenY - lenZ) * 19 - dn) =
      xExp - yExp - ((lenXadj : Int) - lenY - lenZ) * 19 - dn := wrapI64_id _ (by omega) (by omega)
  have hr : ((lenR : Int) > 0) ↔ lenR > 0 := by omega
  unfold Gen.Facts.uquo
  simp only [Int.ofNat_eq_coe, hn, hd, hxd, hd', he, hea, List.nil_append, List.cons_append]
  by_cases h1 : d > 0 <;> by_cases h2 : lenR > 0 <;> simp [h1, h2, hr]

/-- `uquo` re-assembled from the generated function. -/
def uquoG (z x y : WDec) (t : Thr) : Except String WDec :=
  let gen := fun (lenXadj lenZ lenR : Nat) (dn : Int) =>
    Gen.Facts.uquo z.prec x.exp x.mant.length y.exp y.mant.length lenXadj lenZ lenR dn
  let st := (gen 0 0 0 0).mtrace.foldl (stepQuo t x.mant y.mant) ⟨[], .ok z.mant, []⟩
  match st.zm with
  | .error e => .error e
  | .ok q =>
    match W.dnorm q with
    | .error e => .error e
    | .ok (m', s) =>
      let g := gen st.xadj.length q.length st.r.length s
      if g.tail = 1 then W.setExpAndRound { z with mant := m' } g.arg g.arg2.toNat else .error "no tail call"

/-- the adjusted dividend of `W.uquo` -/
def xadjOf (z x y : WDec) : List Nat :=
  let d : Int := ((z.prec / 19 : Nat) : Int) + 1 - (x.mant.length : Int) + (y.mant.length : Int)
  if d > 0 then zeros d.toNat ++ x.mant else x.mant

theorem copyAt_make (x : List Nat) (d : Nat) : copyAt (zeros (x.length + d)) d x = zeros d ++ x := by
  unfold copyAt zeros
  have h1 : (List.replicate (x.length + d) 0).length - d = x.length := by simp
  rw [h1]
  simp [List.take_replicate, List.drop_replicate]
  omega

theorem uquo_W (z x y : WDec) (t : Thr) :
    W.uquo z x y t =
      (match divFull t.drec t.kmul (xadjOf z x y) y.mant with
       | .error e => .error e
       | .ok (q, r) =>
         dnormAndRound { z with mant := q }
           (x.exp - y.exp - (((xadjOf z x y).length : Int) - (y.mant.length : Int) - (q.length : Int)) * 19)
           (if r.length > 0 then 1 else 0)) := by
  unfold W.uquo xadjOf
  simp only [c_DW_eq]
  rfl

/-- **uquo_eq.** -/
theorem uquo_eq (z x y : WDec) (t : Thr) (hp : z.prec < 4294967296) (hx : I32 x.exp) (hy : I32 y.exp)
    (hlx : Len x.mant.length) (hly : Len y.mant.length) (hla : Len (xadjOf z x y).length)
    (hlq : ∀ q r, divFull t.drec t.kmul (xadjOf z x y) y.mant = .ok (q, r) → Len q.length)
    (hs : ∀ q r m' s, divFull t.drec t.kmul (xadjOf z x y) y.mant = .ok (q, r) → W.dnorm q = .ok (m', s) → s ≤ 19) :
    W.uquo z x y t = uquoG z x y t := by
  have hst : (Gen.Facts.uquo z.prec x.exp x.mant.length y.exp y.mant.length ((0 : Nat) : Int) ((0 : Nat) : Int) ((0 : Nat) : Int) 0).mtrace.foldl
      (stepQuo t x.mant y.mant) ⟨[], .ok z.mant, []⟩ =
      (match divFull t.drec t.kmul (xadjOf z x y) y.mant with
       | .error e => ⟨xadjOf z x y, .error e, []⟩
       | .ok (q, r) => ⟨xadjOf z x y, .ok q, r⟩) := by
    rw [uquo_gen z.prec x.exp y.exp x.mant.length y.mant.length 0 0 0 0 hp hx hy hlx hly (by unfold Len; omega) (by unfold Len; omega) (by omega)]
    unfold xadjOf
    simp only []
    by_cases h1 : ((z.prec / 19 : Nat) : Int) + 1 - (x.mant.length : Int) + (y.mant.length : Int) > 0
    · have hd : ((x.mant.length : Int) + (((z.prec / 19 : Nat) : Int) + 1 - (x.mant.length : Int) + (y.mant.length : Int))).toNat =
          x.mant.length + (((z.prec / 19 : Nat) : Int) + 1 - (x.mant.length : Int) + (y.mant.length : Int)).toNat := by omega
      simp only [h1, if_true, List.foldl, stepQuo, hd, copyAt_make]
    · simp only [h1, if_false, List.foldl, stepQuo]
  rw [uquo_W]
  unfold uquoG dnormAndRound
  simp only [hst]
  cases hdv : divFull t.drec t.kmul (xadjOf z x y) y.mant with
  | error e => rfl
  | ok qr =>
    obtain ⟨q, r⟩ := qr
    have hlq' := hlq q r hdv
    simp only []
    cases hd : W.dnorm q with
    | error e => rfl
    | ok ms =>
      obtain ⟨m', s⟩ := ms
      have hs' := hs q r m' s hdv hd
      simp only []
      rw [uquo_gen z.prec x.exp y.exp x.mant.length y.mant.length (xadjOf z x y).length q.length r.length s hp hx hy hlx hly hla hlq' (by omega)]
      by_cases hr : r.length > 0 <;> simp [hr]

/-! ### the hypotheses are met by every well-formed operand -/

/-- `dnorm` of a mantissa whose words are below the base shifts by at most 19 digits. -/
theorem dnorm_shift_le (m m' : List Nat) (s : Nat) (hw : L0.WF m) (h : W.dnorm m = .ok (m', s)) : s ≤ 19 := by
  unfold W.dnorm at h
  split at h
  · cases h
  · rename_i hne
    have hlt : m.getD (m.length - 1) 0 < 10000000000000000000 := by
      have hi : m.length - 1 < m.length := by omega
      have : m.getD (m.length - 1) 0 = m[m.length - 1] := by simp [List.getD, hi]
      rw [this]
      exact hw _ (List.getElem_mem hi)
    have hsp := Decimal.Gen.nlz10_spec _ hlt
    simp only [] at h
    split at h <;> (injection h with h; injection h with _ h2; omega)

/-- **uadd_eq_wf.** For operands with words below the base (every operand the library builds), int32 exponents
    and slices that fit in memory, the word-level model of `uadd` is the regenerated kernel. -/
theorem uadd_eq_wf (z x y : WDec) (sameZX sameZY : Bool)
    (hx : I32 x.exp) (hy : I32 y.exp) (hwx : L0.WF x.mant) (hwy : L0.WF y.mant)
    (hlx : Len x.mant.length) (hly : Len y.mant.length) (hlz : Len (uaddMant x y).length) :
    W.uadd z x y = uaddG z x y sameZX sameZY := by
  refine uadd_eq z x y sameZX sameZY hx hy hlx hly hlz (fun m' s h => dnorm_shift_le _ m' s ?_ h)
  unfold uaddMant
  simp only []
  split
  · exact (L0.add_spec _ _ hwx (L0.shl_spec _ _ hwy).2.1).2.1
  · split
    · exact (L0.add_spec _ _ (L0.shl_spec _ _ hwx).2.1 hwy).2.1
    · exact (L0.add_spec _ _ hwx hwy).2.1

/-- **umul_eq_wf.** For operands with words below the base and thresholds ≥ 1 the hypothesis of `umul_eq` holds
    (the product / square has words below the base: `mul_spec`, `sqr_spec`). -/
theorem umul_eq_wf (z x y : WDec) (xIsY : Bool) (t : Thr) (hx : I32 x.exp) (hy : I32 y.exp)
    (hwx : L0.WF x.mant) (hwy : L0.WF y.mant) (hk : 1 ≤ t.kmul) (hks : 1 ≤ t.ksqr) :
    W.umul z x y xIsY t = umulG z x y xIsY t := by
  refine umul_eq z x y xIsY t hx hy (fun m' s h => dnorm_shift_le _ m' s ?_ h)
  cases xIsY
  · simp only [Bool.false_eq_true, if_false]
    exact (L0.mul_spec t.kmul hk _ x.mant y.mant hwx hwy (by omega)).2.1
  · simp only [if_true]
    exact (L0.sqr_spec t.bsqr t.ksqr t.kmul hks hk _ x.mant hwx (Nat.le_refl _)).2.1

end Decimal.GenKernels
