/-
  Completeness of the literal grammar: every input accepted by `Parse` (base argument 0, 2, 8, 10 or
  16) is one of the six infinity spellings or the rendering of a `LitB` that is well-formed for the
  base argument (`parse_ok_is_literal`). With `parse_litB` (Proofs/ScanBase2.lean) this characterises
  the accepted language exactly.
-/
import Proofs.ScanInv

namespace Decimal

/-! ### the mantissa -/

/-- Inverse of `scanMantCore` from an initial state `{ prev := pv0 }`. -/
theorem scanMantCore_inv (b : Nat) (hb : b ≤ 63) (sep : Bool) (pv0 : Nat) (hpv : pv0 ≠ 95) (s : List Nat)
    (M b' : Nat) (fcount : Int) (rest : List Nat)
    (h : scanMantCore b sep s { prev := pv0 } = .ok (M, b', fcount, rest)) :
    ∃ (ip : UDigits) (fp : Option UDigits),
      s = renderMantU ip fp ++ rest ∧ M = valB b (ip.bytes ++ (fp.getD []).bytes) ∧ b' = b ∧
      fcount = fcountU ip fp ∧ IsDigitsB b ip.bytes ∧ IsDigitsB b (fp.getD []).bytes ∧
      ip ++ fp.getD [] ≠ [] ∧ (sep = false → ip.Plain ∧ (fp.getD []).Plain) ∧ (pv0 ≠ 48 → ip.HeadPlain) ∧
      (fp.getD []).HeadPlain ∧ MantEndB b sep fp.isSome rest := by
  unfold scanMantCore at h
  generalize hsd : scanDigits b sep s { prev := pv0 } = r at h
  obtain ⟨st, rest'⟩ := r
  simp only at h
  by_cases hc : st.count = 0
  · rw [if_pos hc] at h; cases h
  rw [if_neg hc] at h
  by_cases hi : (st.invalSep || st.prev == 95) = true
  · rw [if_pos hi] at h; cases h
  rw [if_neg hi] at h
  simp only [Except.ok.injEq, Prod.mk.injEq] at h
  obtain ⟨hM, hb', hf, hr⟩ := h
  have hi' : st.invalSep = false ∧ (st.prev == 95) = false := by
    cases h1 : st.invalSep <;> cases h2 : (st.prev == 95) <;> simp_all
  have hst : (scanDigits b sep s { prev := pv0 }).1 = st := by rw [hsd]
  have hrs : (scanDigits b sep s { prev := pv0 }).2 = rest' := by rw [hsd]
  obtain ⟨ip, fp, pend, consumed, e1, e2, t, so⟩ :=
    scanDigits_inv b hb sep pv0 s { prev := pv0 } [] none false (Tracks.init b sep pv0) (by rw [hst]; exact hi'.1)
  rw [hst] at t so
  rw [hrs] at e1 so
  have hpend : pend = false := by
    cases hp : pend with
    | false => rfl
    | true =>
      have := t.prev
      rw [hp] at this
      simp only [if_true] at this
      rw [this] at hi'
      simp at hi'
  subst hpend
  simp only [renderMantU, renderU, Bool.false_eq_true, if_false, List.append_nil, List.nil_append] at e2
  subst hr
  refine ⟨ip, fp, ?_, ?_, hb'.symm, ?_, t.dip, t.dfp, ?_, ?_, t.hip, t.hfp, ?_⟩
  · rw [e1, e2]; rfl
  · rw [← hM, t.val]
  · rw [← hf, t.dp, t.count]
    cases fp with
    | none => simp [fcountU]
    | some f => simp [fcountU]; omega
  · intro h0
    apply hc
    rw [t.count]
    have := congrArg List.length h0
    simpa using this
  · intro hs; exact ⟨(t.plain hs).1, (t.plain hs).2.1⟩
  · cases rest' with
    | nil => trivial
    | cons ch r =>
      obtain ⟨s1, s2, s3⟩ := so
      rw [t.fracOk] at s1
      refine ⟨s3, fun hc => ?_, fun hc => ?_⟩
      · cases hs : sep with
        | false => rfl
        | true => exact absurd ⟨hc, hs⟩ s2
      · cases hf : fp with
        | some f => rfl
        | none => rw [hf] at s1; exact absurd ⟨hc, rfl⟩ s1

/-- every input either starts with a base prefix or shows none. -/
theorem prefix_or_not (s : List Nat) :
    (∃ c b r, s = 48 :: c :: r ∧ prefixBase c = some b) ∨ NoBasePrefix s := by
  match s with
  | [] => right; intro c r h; cases h
  | [x] => right; intro c r h; cases h
  | x :: c :: r =>
    by_cases hx : x = 48
    · subst hx
      cases hp : prefixBase c with
      | some b => exact Or.inl ⟨c, b, r, rfl, hp⟩
      | none =>
        right
        intro c' r' h
        simp only [List.cons.injEq, true_and] at h
        obtain ⟨rfl, _⟩ := h
        unfold prefixBase at hp
        refine ⟨?_, ?_, ?_, ?_, ?_, ?_⟩ <;> rintro rfl <;> simp at hp
    · right
      intro c' r' h
      simp only [List.cons.injEq] at h
      exact absurd h.1 hx

/-- Inverse of `scanMant`. -/
theorem scanMant_inv (base : Nat) (hbase : base = 0 ∨ base = 2 ∨ base = 8 ∨ base = 10 ∨ base = 16)
    (s : List Nat) (M b : Nat) (fcount : Int) (rest : List Nat)
    (h : scanMant base s = .ok (M, b, fcount, rest)) :
    ∃ (pfx : Option Nat) (ip : UDigits) (fp : Option UDigits),
      s = renderPfx pfx ++ (renderMantU ip fp ++ rest) ∧
      ((base = b ∧ pfx = none ∧ (base = 2 ∨ base = 8 ∨ base = 10 ∨ base = 16)) ∨ (base = 0 ∧ PfxOk pfx b)) ∧
      M = valB b (ip.bytes ++ (fp.getD []).bytes) ∧ fcount = fcountU ip fp ∧
      IsDigitsB b ip.bytes ∧ IsDigitsB b (fp.getD []).bytes ∧ ip ++ fp.getD [] ≠ [] ∧
      (base ≠ 0 → ip.Plain ∧ (fp.getD []).Plain) ∧ (pfx = none → ip.HeadPlain) ∧ (fp.getD []).HeadPlain ∧
      MantEndB b (decide (base = 0)) fp.isSome rest := by
  by_cases h0 : base = 0
  · subst h0
    rcases prefix_or_not s with ⟨c, b0, r, hs, hp⟩ | hnp
    · subst hs
      rw [scanMant_prefix c b0 hp] at h
      have hb4 := prefixBase_mem hp
      obtain ⟨ip, fp, e, hM, hb', hf, d1, d2, hne, _, _, hh, hstop⟩ :=
        scanMantCore_inv b0 (by omega) true 48 (by omega) r M b fcount rest h
      subst hb'
      refine ⟨some c, ip, fp, by rw [e]; rfl, Or.inr ⟨rfl, hp⟩, hM, hf, d1, d2, hne, fun h => absurd rfl h,
        (fun h => by cases h), hh, by simpa using hstop⟩
    · rw [scanMant_zero s hnp] at h
      obtain ⟨ip, fp, e, hM, hb', hf, d1, d2, hne, _, hi, hh, hstop⟩ :=
        scanMantCore_inv 10 (by omega) true 46 (by omega) s M b fcount rest h
      subst hb'
      refine ⟨none, ip, fp, by rw [e]; rfl, Or.inr ⟨rfl, rfl⟩, hM, hf, d1, d2, hne, fun h => absurd rfl h,
        fun _ => hi (by omega), hh, by simpa using hstop⟩
  · rw [scanMant_base base h0] at h
    have hb63 : base ≤ 63 := by omega
    obtain ⟨ip, fp, e, hM, hb', hf, d1, d2, hne, hpl, hi, hh, hstop⟩ :=
      scanMantCore_inv base hb63 false 46 (by omega) s M b fcount rest h
    subst hb'
    refine ⟨none, ip, fp, by rw [e]; rfl, Or.inl ⟨rfl, rfl, by omega⟩, hM, hf, d1, d2, hne, fun _ => hpl rfl,
      fun _ => hi (by omega), hh, by simpa [h0] using hstop⟩

/-! ### the exponent -/

theorem scanExpDigits_inval_mono (sep : Bool) :
    ∀ (s : List Nat) (v : Nat) (has : Bool) (prev : Nat), (scanExpDigits sep s (v, has, prev, true)).1.2.2.2 = true := by
  intro s
  induction s with
  | nil => intro v has prev; rfl
  | cons ch r ih =>
    intro v has prev
    rw [scanExpDigits]
    split
    · exact ih _ _ _
    · split
      · simpa using ih v has 95
      · rfl

structure TracksE (sep : Bool) (st : Nat × Bool × Nat × Bool) (ds : UDigits) (pend : Bool) : Prop where
  inval : st.2.2.2 = false
  val : st.1 = valB 10 ds.bytes
  has : st.2.1 = !ds.isEmpty
  prev : st.2.2.1 = if pend then 95 else if ds = [] then 46 else 48
  dig : IsDigitsB 10 ds.bytes
  plain : sep = false → ds.Plain ∧ pend = false
  head : ds.HeadPlain
  pendOk : pend = true → ds ≠ []

theorem TracksE.init (sep : Bool) : TracksE sep (0, false, 46, false) [] false :=
  ⟨rfl, rfl, rfl, rfl, IsDigitsB_nil 10, fun _ => ⟨UDigits.Plain_nil, rfl⟩, trivial, fun h => by cases h⟩

/-- Inverse of the exponent digit loop. -/
theorem scanExpDigits_inv (sep : Bool) :
    ∀ (s : List Nat) (st : Nat × Bool × Nat × Bool) (ds : UDigits) (pend : Bool),
      TracksE sep st ds pend → (scanExpDigits sep s st).1.2.2.2 = false →
      ∃ (ds' : UDigits) (pend' : Bool) (consumed : List Nat),
        s = consumed ++ (scanExpDigits sep s st).2 ∧
        renderU ds ++ (if pend then [95] else []) ++ consumed = renderU ds' ++ (if pend' then [95] else []) ∧
        TracksE sep (scanExpDigits sep s st).1 ds' pend' ∧ ExpEnd sep (scanExpDigits sep s st).2 := by
  intro s
  induction s with
  | nil =>
    intro st ds pend ht _
    exact ⟨ds, pend, [], rfl, by simp, ht, trivial⟩
  | cons ch rest ih =>
    intro st ds pend ht hfin
    obtain ⟨v, has, prev, inval⟩ := st
    have hinv : inval = false := ht.inval
    subst hinv
    rw [scanExpDigits] at hfin ⊢
    by_cases h1 : chr '0' ≤ ch ∧ ch ≤ chr '9'
    · rw [if_pos h1] at hfin ⊢
      rw [chr_0, chr_9] at h1
      have hdv : digitVal ch < 10 := digitVal_lt10.mpr h1
      have hpf : pend = false ∨ ds ≠ [] := by
        cases hp : pend with
        | false => exact Or.inl rfl
        | true => exact Or.inr (ht.pendOk hp)
      have ht1 : TracksE sep (v * 10 + (ch - chr '0'), true, 48, false) (ds ++ [(pend, ch)]) false := by
        refine ⟨rfl, ?_, ?_, ?_, ?_, ?_, ?_, fun h => by cases h⟩
        · show v * 10 + (ch - chr '0') = _
          have hv : v = valB 10 ds.bytes := ht.val
          rw [UDigits.bytes_append, show UDigits.bytes [(pend, ch)] = [ch] from rfl, valB_append_single,
            digitVal_dec hdv, chr_0, hv]
        · show true = _
          cases ds <;> simp
        · show (48 : Nat) = _
          simp
        · rw [UDigits.bytes_append]
          exact IsDigitsB_append_single ht.dig hdv
        · intro h
          obtain ⟨p1, p2⟩ := ht.plain h
          subst p2
          exact ⟨UDigits.Plain_append_single p1, rfl⟩
        · apply UDigits.HeadPlain_append_single ht.head
          intro hnil
          rcases hpf with h | h
          · exact h
          · exact absurd hnil h
      obtain ⟨ds', pend', consumed, e1, e2, t', so⟩ := ih _ _ false ht1 hfin
      refine ⟨ds', pend', ch :: consumed, by rw [List.cons_append, ← e1], ?_, t', so⟩
      rw [← e2, renderU_append_single]
      cases pend <;> simp
    · rw [if_neg h1] at hfin ⊢
      by_cases h2 : ch = chr '_' ∧ sep = true
      · rw [if_pos h2] at hfin ⊢
        obtain ⟨hch, hsp⟩ := h2
        rw [chr_us] at hch
        subst hch
        subst hsp
        have hinv1 : (false || prev != 48) = false := by
          cases hx : (false || prev != 48) with
          | false => rfl
          | true =>
            have := scanExpDigits_inval_mono true rest v has 95
            rw [hx] at hfin
            rw [this] at hfin; cases hfin
        have hp48 : prev = 48 := by simpa using hinv1
        have hpend : pend = false := by
          cases hp : pend with
          | false => rfl
          | true =>
            have := ht.prev
            rw [hp] at this
            simp only [if_true] at this
            omega
        subst hpend
        have hne : ds ≠ [] := by
          intro hnil
          have := ht.prev
          rw [hnil] at this
          simp at this
          omega
        have ht1 : TracksE true (v, has, 95, false || prev != 48) ds true :=
          ⟨hinv1, ht.val, ht.has, rfl, ht.dig, (fun h => by cases h), ht.head, fun _ => hne⟩
        obtain ⟨ds', pend', consumed, e1, e2, t', so⟩ := ih _ ds true ht1 hfin
        refine ⟨ds', pend', 95 :: consumed, by rw [List.cons_append, ← e1], ?_, t', so⟩
        rw [← e2]
        simp
      · rw [if_neg h2] at hfin ⊢
        refine ⟨ds, pend, [], rfl, by simp, ht, ?_⟩
        rw [chr_0, chr_9] at h1
        rw [chr_us] at h2
        refine ⟨h1, fun hc => ?_⟩
        cases hs : sep with
        | false => rfl
        | true => exact absurd ⟨hc, hs⟩ h2

/-- Inverse of `scanExpTail`. -/
theorem scanExpTail_inv (sepOk : Bool) (eb : Nat) (neg : Bool) (body : List Nat) (e : Int) (eb' : Nat)
    (rest : List Nat) (h : scanExpTail sepOk eb neg body = .ok (e, eb', rest)) :
    ∃ ds : UDigits, body = renderU ds ++ rest ∧ eb' = eb ∧ IsDigitsB 10 ds.bytes ∧ ds ≠ [] ∧ ds.HeadPlain ∧
      (sepOk = false → ds.Plain) ∧
      (if neg then valB 10 ds.bytes ≤ 9223372036854775808 else valB 10 ds.bytes ≤ 9223372036854775807) ∧
      e = (if neg then -(valB 10 ds.bytes : Int) else (valB 10 ds.bytes : Int)) ∧ ExpEnd sepOk rest := by
  unfold scanExpTail at h
  generalize hsd : scanExpDigits sepOk body (0, false, 46, false) = r at h
  obtain ⟨⟨v, has, prev, inval⟩, rest'⟩ := r
  simp only at h
  by_cases hh : (!has) = true
  · rw [if_pos hh] at h; cases h
  rw [if_neg hh] at h
  by_cases hr : (!neg ∧ v > 9223372036854775807) ∨ (neg ∧ v > 9223372036854775808)
  · rw [if_pos hr] at h; cases h
  rw [if_neg hr] at h
  by_cases hi : (inval || prev == 95) = true
  · rw [if_pos hi] at h; cases h
  rw [if_neg hi] at h
  simp only [Except.ok.injEq, Prod.mk.injEq] at h
  obtain ⟨he, heb, hrest⟩ := h
  have hi' : inval = false ∧ (prev == 95) = false := by
    cases h1 : inval <;> cases h2 : (prev == 95) <;> simp_all
  have hst : (scanExpDigits sepOk body (0, false, 46, false)).1 = (v, has, prev, inval) := by rw [hsd]
  have hrs : (scanExpDigits sepOk body (0, false, 46, false)).2 = rest' := by rw [hsd]
  obtain ⟨ds, pend, consumed, e1, e2, t, so⟩ :=
    scanExpDigits_inv sepOk body (0, false, 46, false) [] false (TracksE.init sepOk) (by rw [hst]; exact hi'.1)
  rw [hst] at t
  rw [hrs] at e1 so
  have hpend : pend = false := by
    cases hp : pend with
    | false => rfl
    | true =>
      have := t.prev
      rw [hp] at this
      simp only [if_true] at this
      have h95 : prev = 95 := this
      rw [h95] at hi'
      simp at hi'
  subst hpend
  simp only [renderU, Bool.false_eq_true, if_false, List.append_nil, List.nil_append] at e2
  subst hrest
  have hv : v = valB 10 ds.bytes := t.val
  have hne : ds ≠ [] := by
    intro hnil
    have hhas : has = !ds.isEmpty := t.has
    rw [hnil] at hhas
    simp at hhas
    rw [hhas] at hh
    simp at hh
  refine ⟨ds, by rw [e1, e2], heb.symm, t.dig, hne, t.head, fun hs => (t.plain hs).1, ?_, ?_, so⟩
  · rw [← hv]
    cases neg
    · simp only [Bool.false_eq_true, if_false]
      simp at hr
      omega
    · simp only [if_true]
      simp at hr
      omega
  · rw [← he, hv]

theorem markerBase_none {m : Nat} (h : markerBase m = none) : m ≠ 101 ∧ m ≠ 69 ∧ m ≠ 112 ∧ m ≠ 80 := by
  unfold markerBase at h
  refine ⟨?_, ?_, ?_, ?_⟩ <;> rintro rfl <;> simp at h

/-- split an optional sign off the front of an input. -/
theorem sign_split (s : List Nat) :
    ∃ (sg : Option Bool) (body : List Nat), s = signBytes sg ++ body ∧ (sg = none → NoSignHead body) := by
  cases s with
  | nil => exact ⟨none, [], rfl, fun _ => trivial⟩
  | cons c r =>
    by_cases h1 : c = 45
    · subst h1; exact ⟨some true, r, rfl, fun h => by cases h⟩
    · by_cases h2 : c = 43
      · subst h2; exact ⟨some false, r, rfl, fun h => by cases h⟩
      · exact ⟨none, c :: r, rfl, fun _ => ⟨h1, h2⟩⟩

/-- Inverse of `scanExponent`. -/
theorem scanExponent_inv (sepOk : Bool) (s : List Nat) (e : Int) (eb : Nat) (rest : List Nat)
    (h : scanExponent sepOk s = .ok (e, eb, rest)) :
    (s = rest ∧ NoExpHead s ∧ e = 0 ∧ eb = 10) ∨
    (∃ (m : Nat) (sg : Option Bool) (ds : UDigits),
      s = m :: (signBytes sg ++ (renderU ds ++ rest)) ∧ markerBase m = some eb ∧
      IsDigitsB 10 ds.bytes ∧ ds ≠ [] ∧ ds.HeadPlain ∧ (sepOk = false → ds.Plain) ∧
      (if signVal sg then valB 10 ds.bytes ≤ 9223372036854775808 else valB 10 ds.bytes ≤ 9223372036854775807) ∧
      e = (if signVal sg then -(valB 10 ds.bytes : Int) else (valB 10 ds.bytes : Int)) ∧ ExpEnd sepOk rest) := by
  cases s with
  | nil =>
    left
    have : scanExponent sepOk [] = .ok (0, 10, []) := rfl
    rw [this] at h
    simp only [Except.ok.injEq, Prod.mk.injEq] at h
    exact ⟨h.2.2, trivial, h.1.symm, h.2.1.symm⟩
  | cons m r =>
    cases hm : markerBase m with
    | none =>
      left
      have hn := markerBase_none hm
      rw [scanExponent_none sepOk (m :: r) hn] at h
      simp only [Except.ok.injEq, Prod.mk.injEq] at h
      exact ⟨h.2.2, hn, h.1.symm, h.2.1.symm⟩
    | some eb0 =>
      right
      obtain ⟨sg, body, hs, hsg⟩ := sign_split r
      rw [hs, scanExponent_marker sepOk m eb0 hm sg body hsg] at h
      obtain ⟨ds, hb, heb, hd, hne, hh, hpl, hrange, he, hend⟩ := scanExpTail_inv sepOk eb0 (signVal sg) body e eb rest h
      subst heb
      exact ⟨m, sg, ds, by rw [hs, hb], hm, hd, hne, hh, hpl, hrange, he, hend⟩

/-! ### `parse` -/

theorem scanBody_ok_inv (z : Dec) (neg : Bool) (body : List Nat) (base : Nat) (d : Dec) (b' : Nat) (s3 : List Nat)
    (h : scanBody z neg body base = .ok (d, b', s3)) :
    ∃ (M : Nat) (fcount : Int) (s2 : List Nat) (exp : Int) (ebase : Nat),
      scanMant base body = .ok (M, b', fcount, s2) ∧
      scanExponent (decide (base = 0)) s2 = .ok (exp, ebase, s3) := by
  cases hm : scanMant base body with
  | error e => rw [scanBody_mant_err z neg body base e hm] at h; cases h
  | ok r =>
    obtain ⟨M, b, fcount, s2⟩ := r
    cases he : scanExponent (decide (base = 0)) s2 with
    | error e => rw [scanBody_exp_err z neg body base e M b fcount s2 hm he] at h; cases h
    | ok r2 =>
      obtain ⟨exp, ebase, s3'⟩ := r2
      rw [scanBody_of_scans z neg body base M b fcount s2 exp ebase s3' hm he] at h
      generalize scanTail z neg M _ _ = t at h
      cases t with
      | error e => cases h
      | ok d' =>
        simp only [withBase, Except.ok.injEq, Prod.mk.injEq] at h
        obtain ⟨_, hb, hs⟩ := h
        subst hb; subst hs
        exact ⟨M, fcount, s2, exp, ebase, rfl, he⟩

theorem finishScan_ok_inv {r : Except ScanErr (Dec × Nat × List Nat)} {d : Dec} {b : Nat}
    (h : finishScan r = .ok (d, b)) : r = .ok (d, b, []) := by
  cases r with
  | error e => cases h
  | ok x =>
    obtain ⟨d', b', rest⟩ := x
    unfold finishScan at h
    cases rest with
    | nil => simp at h; rw [h.1, h.2]
    | cons c r => simp at h

/-- **Completeness of the grammar.** Whatever `Parse` accepts with a base argument 0, 2, 8, 10 or 16 is
    one of the six infinity spellings or the rendering of a literal that is well-formed for that base
    argument. -/
theorem parse_ok_is_literal (z : Dec) (s : List Nat) (base : Nat) (d : Dec) (b' : Nat)
    (hbase : base = 0 ∨ base = 2 ∨ base = 8 ∨ base = 10 ∨ base = 16)
    (h : parse z s base = .ok (d, b')) :
    IsInfStr s ∨ ∃ l : LitB, l.WF base ∧ l.render = s ∧ l.b = b' := by
  by_cases hinf : IsInfStr s
  · exact Or.inl hinf
  right
  rw [parse_eq_scanDec z s base hinf] at h
  have hsd := finishScan_ok_inv h
  have hne : s ≠ [] := by
    rintro rfl
    rw [scanDec_nil] at hsd; cases hsd
  obtain ⟨sg, body, hs, hsg⟩ := sign_split s
  have hsg' : sg = none → body ≠ [] ∧ NoSignHead body := by
    intro hn
    refine ⟨?_, hsg hn⟩
    rintro rfl
    rw [hn] at hs
    exact hne (by simpa [signBytes] using hs)
  rw [hs, scanDec_sign z sg body base hsg'] at hsd
  obtain ⟨M, fcount, s2, exp, ebase, hm, he⟩ := scanBody_ok_inv z _ body base d b' [] hsd
  obtain ⟨pfx, ip, fp, hbody, hbo, hM, hf, d1, d2, hdig, hpl, hhi, hhf, hstop⟩ :=
    scanMant_inv base hbase body M b' fcount s2 hm
  have hb4 : b' = 2 ∨ b' = 8 ∨ b' = 10 ∨ b' = 16 := by
    rcases hbo with ⟨hb, _, h4⟩ | ⟨_, hp⟩
    · rw [← hb]; exact h4
    · cases pfx with
      | none => exact Or.inr (Or.inr (Or.inl hp))
      | some c =>
        rcases prefixBase_mem hp with h | h | h
        · exact Or.inl h
        · exact Or.inr (Or.inl h)
        · exact Or.inr (Or.inr (Or.inr h))
  rcases scanExponent_inv _ s2 exp ebase [] he with ⟨hs2, _, _, _⟩ | ⟨m, esg, ds, hs2, hmb, hd, hdne, hdh, hdp, hrange, _, _⟩
  · -- no exponent part
    refine ⟨{ neg := sg, b := b', pfx := pfx, ip := ip, fp := fp, ex := none }, ?_, ?_, rfl⟩
    · exact ⟨hbo, d1, d2, hdig, trivial, fun h0 => ⟨(hpl h0).1, (hpl h0).2, UDigits.Plain_nil⟩, hhi, hhf⟩
    · show signBytes sg ++ (renderPfx pfx ++ (renderMantU ip fp ++ renderExpB none)) = s
      rw [hs, hbody, hs2]; rfl
  · -- marker, sign, digits
    have hmk : m = 112 ∨ m = 80 ∨ ((m = 101 ∨ m = 69) ∧ b' ≠ 16) := by
      rw [hs2] at hstop
      have hdv : digitVal m ≥ b' := hstop.1
      unfold markerBase at hmb
      by_cases h1 : m = 101 ∨ m = 69
      · refine Or.inr (Or.inr ⟨h1, ?_⟩)
        intro h16
        rw [h16] at hdv
        rcases h1 with rfl | rfl <;> revert hdv <;> decide
      · rw [if_neg h1] at hmb
        by_cases h2 : m = 112 ∨ m = 80
        · rcases h2 with h | h
          · exact Or.inl h
          · exact Or.inr (Or.inl h)
        · rw [if_neg h2] at hmb; cases hmb
    refine ⟨{ neg := sg, b := b', pfx := pfx, ip := ip, fp := fp, ex := some (m, esg, ds) }, ?_, ?_, rfl⟩
    · refine ⟨hbo, d1, d2, hdig, ⟨hmk, hd, hdne, hdh, hrange⟩, fun h0 => ⟨(hpl h0).1, (hpl h0).2, ?_⟩, hhi, hhf⟩
      exact hdp (by simpa using h0)
    · show signBytes sg ++ (renderPfx pfx ++ (renderMantU ip fp ++ renderExpB (some (m, esg, ds)))) = s
      rw [hs, hbody, hs2]
      simp [renderExpB]

end Decimal
