/-
  The number scanner on structured base-10 literals whose exponent marker is `e` OR `E`
  (extension of Proofs/Scan.lean, whose `Lit10.render` always writes a lower-case `e`).

  `Lit10.renderM m l` renders the literal `l` with the marker byte `m`; `m = 101` ('e') gives back
  `Lit10.render`. For `m ∈ {101, 69}` the scanner theorems `scanExponent_lit`, `scanBody_lit`,
  `scanDec_lit`, `parse_lit` hold verbatim (`…M` versions below): the marker does not change the value.
-/
import Proofs.Scan

namespace Decimal

/-- An exponent marker of a decimal exponent: `e` (101) or `E` (69). -/
def IsExpMarker (m : Nat) : Prop := m = 101 ∨ m = 69

theorem isExpMarker_e : IsExpMarker 101 := Or.inl rfl
theorem isExpMarker_E : IsExpMarker 69 := Or.inr rfl

def renderExpM (m : Nat) : Option (Option Bool × List Nat) → List Nat
  | none => []
  | some (sg, ds) => m :: (signBytes sg ++ bytesOf ds)

/-- the body (everything after the sign) of a literal rendered with the marker `m`. -/
def Lit10.bodyM (m : Nat) (l : Lit10) : List Nat := renderMant l.ip l.fp ++ renderExpM m l.ex

/-- The bytes of a literal written with the exponent marker `m`. -/
def Lit10.renderM (m : Nat) (l : Lit10) : List Nat := signBytes l.neg ++ l.bodyM m

theorem renderExpM_e (ex : Option (Option Bool × List Nat)) : renderExpM 101 ex = renderExp ex := by
  cases ex with
  | none => rfl
  | some e => rfl

theorem Lit10.renderM_e (l : Lit10) : l.renderM 101 = l.render := by
  unfold Lit10.renderM Lit10.bodyM Lit10.render; rw [renderExpM_e]

/-- without an exponent part the marker is irrelevant. -/
theorem Lit10.renderM_noExp (m : Nat) (l : Lit10) (h : l.ex = none) : l.renderM m = l.render := by
  unfold Lit10.renderM Lit10.bodyM Lit10.render renderExpM renderExp; rw [h]

theorem Lit10.renderM_eq (m : Nat) (l : Lit10) : l.renderM m = signBytes l.neg ++ l.bodyM m := rfl

/-! ### `scanExponent` -/

theorem scanExponent_m (sepOk : Bool) (m : Nat) (hm : IsExpMarker m) (sg : Option Bool) (body : List Nat)
    (h : sg = none → NoSignHead body) :
    scanExponent sepOk (m :: (signBytes sg ++ body)) = scanExpTail sepOk 10 (signVal sg) body := by
  rcases hm with rfl | rfl
  · exact scanExponent_e sepOk sg body h
  · unfold scanExponent scanExpTail
    simp only [chr_e, chr_E, or_true, if_true, chr_minus, chr_plus]
    match sg, h with
    | some true, _ => simp [signBytes, signVal]
    | some false, _ => simp [signBytes, signVal]
    | none, h =>
      have h := h rfl
      cases body with
      | nil => rfl
      | cons c r =>
        obtain ⟨h1, h2⟩ := h
        simp [signBytes, signVal, h1, h2]

theorem scanExponent_litM (sepOk : Bool) (m : Nat) (hm : IsExpMarker m) (ex : Option (Option Bool × List Nat))
    (rest : List Nat) (hex : ExpOk ex) (hend : ExpTailOk sepOk ex rest) :
    scanExponent sepOk (renderExpM m ex ++ rest) = .ok (expVal ex, 10, rest) := by
  match ex, hex, hend with
  | none, _, hend => exact scanExponent_none sepOk rest hend
  | some (sg, ds), ⟨hd, hne, hr⟩, hend =>
    simp only [renderExpM, List.cons_append, List.append_assoc]
    rw [scanExponent_m sepOk m hm sg _ (fun _ => NoSignHead_bytes ds rest hd hne),
      scanExpTail_digits sepOk 10 _ ds rest hd hne hend]
    cases hs : signVal sg <;> simp only [hs] at hr <;> simp [expVal, hs] <;> simp at hr <;> omega

/-! ### `scanBody`, `scanDec`, `parse` -/

theorem digitVal_marker {m : Nat} (hm : IsExpMarker m) : digitVal m ≥ 10 := by
  rcases hm with rfl | rfl <;> decide

/-- **The scanner on a literal written with `e` or `E`** (after the sign; base 10, or base 0 without a
    base prefix). -/
theorem scanBody_litM (z : Dec) (neg : Bool) (m : Nat) (hm : IsExpMarker m) (l : Lit10) (hwf : l.WF)
    (base : Nat) (rest : List Nat)
    (hbase : base = 10 ∨ (base = 0 ∧ NoBasePrefix (l.bodyM m ++ rest)))
    (hend : TailOk (decide (base = 0)) l rest) :
    scanBody z neg (l.bodyM m ++ rest) base =
      (let p := if z.prec = 0 then 34 else z.prec
       let e10 : Int := (ndigits l.coef : Int) + l.exp10
       if l.coef = 0 then .ok ({ z with neg := neg, prec := p, acc := Exact, form := .zero }, 10, rest)
       else if e10 < MinExp ∨ e10 > MaxExp then .error .expOverflow
       else .ok (setNormAndRound { z with neg := neg, prec := p } l.coef l.exp10 false, 10, rest)) := by
  obtain ⟨hip, hfp, hne, hex⟩ := hwf
  have hbody : l.bodyM m ++ rest = renderMant l.ip l.fp ++ (renderExpM m l.ex ++ rest) := by
    rw [Lit10.bodyM, List.append_assoc]
  have hmd := digitVal_marker hm
  have hm9 : m ≠ 95 ∧ m ≠ 46 := by rcases hm with rfl | rfl <;> omega
  -- mantissa
  have hmend : MantEnd (decide (base = 0)) l.fp.isSome (renderExpM m l.ex ++ rest) := by
    unfold TailOk at hend
    cases hx : l.ex with
    | none => rw [hx] at hend; simpa [renderExpM] using hend.1
    | some e =>
      obtain ⟨sg, ds⟩ := e
      simp only [renderExpM, List.cons_append, MantEnd]
      exact ⟨hmd, fun h => absurd h hm9.1, fun h => absurd h hm9.2⟩
  have hm' : scanMant base (l.bodyM m ++ rest) =
      .ok (l.coef, 10, fcountOf l.ip l.fp, renderExpM m l.ex ++ rest) := by
    have hcore := scanMantCore_mant (decide (base = 0)) l.ip l.fp (renderExpM m l.ex ++ rest) hip hfp hne hmend
    rcases hbase with hb | ⟨hb, hnp⟩
    · subst hb
      rw [scanMant_base 10 (by omega), hbody]
      exact hcore
    · subst hb
      rw [scanMant_zero _ hnp, hbody]
      exact hcore
  -- exponent
  have he : scanExponent (decide (base = 0)) (renderExpM m l.ex ++ rest) = .ok (expVal l.ex, 10, rest) := by
    apply scanExponent_litM _ m hm _ _ hex
    unfold TailOk at hend
    cases hx : l.ex with
    | none => rw [hx] at hend; exact hend.2
    | some e => rw [hx] at hend; exact hend
  unfold scanBody
  rw [hm']
  simp only [he]
  have hd := d_of_fcount l.ip l.fp
  simp only [hd, if_true]
  have he10 : (ndigits l.coef : Int) + -(((l.fp.getD []).length : Nat) : Int) + expVal l.ex
      = (ndigits l.coef : Int) + l.exp10 := by
    unfold Lit10.exp10 Lit10.frac; omega
  rw [he10]
  by_cases hc : l.coef = 0
  · simp [hc, DefaultPrec]
  · simp only [hc, if_false]
    by_cases hr : (ndigits l.coef : Int) + l.exp10 < MinExp ∨ (ndigits l.coef : Int) + l.exp10 > MaxExp
    · simp only [hr, if_true]
    · simp only [hr, if_false]
      have h2 : (if (10 : Nat) = 2 then (-(((l.fp.getD []).length : Nat) : Int)) else
          if (10 : Nat) = 8 then -(((l.fp.getD []).length : Nat) : Int) * 3 else
          if (10 : Nat) = 16 then -(((l.fp.getD []).length : Nat) : Int) * 4 else 0) + (if (10 : Nat) = 2 then expVal l.ex else 0) = 0 := by
        simp
      simp only [h2, if_true]
      have := round_scan_eq z neg (if z.prec = 0 then 34 else z.prec) l.coef ((ndigits l.coef : Int) + l.exp10)
        (by omega) (by omega)
      have hk : (ndigits l.coef : Int) + l.exp10 - (ndigits l.coef : Int) = l.exp10 := by omega
      rw [hk] at this
      rw [← this]
      simp [DefaultPrec]

theorem Lit10.WF.mem_bodyM {l : Lit10} (hwf : l.WF) (m : Nat) {b : Nat} (hb : b ∈ l.bodyM m) : b ≤ 57 ∨ b = m := by
  obtain ⟨hip, hfp, _, hex⟩ := hwf
  simp only [Lit10.bodyM, List.mem_append] at hb
  rcases hb with hb | hb
  · exact Or.inl (mem_renderMant hip hfp hb)
  · cases hx : l.ex with
    | none => rw [hx] at hb; simp [renderExpM] at hb
    | some e =>
      obtain ⟨sg, ds⟩ := e
      rw [hx] at hb hex
      simp only [renderExpM, List.mem_cons, List.mem_append] at hb
      rcases hb with hb | hb | hb
      · exact Or.inr hb
      · have := mem_signBytes hb; omega
      · exact Or.inl (mem_bytesOf hex.1 hb).2

theorem Lit10.WF.bodyM_head {l : Lit10} (hwf : l.WF) (m : Nat) (rest : List Nat) :
    l.bodyM m ++ rest ≠ [] ∧ NoSignHead (l.bodyM m ++ rest) := by
  have := mant_head l.ip l.fp (renderExpM m l.ex ++ rest) hwf.ip hwf.digits
  rw [← List.append_assoc] at this
  exact this

theorem Lit10.WF.not_infM {l : Lit10} (hwf : l.WF) (m : Nat) (rest : List Nat) :
    ¬ IsInfStr (l.renderM m ++ rest) := by
  have := not_inf_mant l.neg l.ip l.fp (renderExpM m l.ex ++ rest) hwf.ip hwf.fp hwf.digits
  rw [Lit10.renderM_eq, Lit10.bodyM, List.append_assoc, List.append_assoc]
  exact this

theorem Lit10.WF.noBasePrefixM {l : Lit10} (hwf : l.WF) (m : Nat) (hm : IsExpMarker m) :
    NoBasePrefix (l.bodyM m ++ []) := by
  intro c rest h
  rw [List.append_nil] at h
  have : c ∈ l.bodyM m := by rw [h]; simp
  have := hwf.mem_bodyM m this
  rcases hm with rfl | rfl <;> omega

/-- `scanDec` on a literal (marker `e` or `E`) followed by `rest`. -/
theorem scanDec_litM (z : Dec) (m : Nat) (hm : IsExpMarker m) (l : Lit10) (hwf : l.WF) (base : Nat)
    (rest : List Nat)
    (hbase : base = 10 ∨ (base = 0 ∧ NoBasePrefix (l.bodyM m ++ rest)))
    (hend : TailOk (decide (base = 0)) l rest) :
    scanDec z (l.renderM m ++ rest) base =
      (let p := if z.prec = 0 then 34 else z.prec
       let e10 : Int := (ndigits l.coef : Int) + l.exp10
       if l.coef = 0 then .ok ({ z with neg := l.sign, prec := p, acc := Exact, form := .zero }, 10, rest)
       else if e10 < MinExp ∨ e10 > MaxExp then .error .expOverflow
       else .ok (setNormAndRound { z with neg := l.sign, prec := p } l.coef l.exp10 false, 10, rest)) := by
  rw [Lit10.renderM_eq, List.append_assoc, scanDec_sign z l.neg _ base (fun _ => hwf.bodyM_head m rest),
    scanBody_litM z _ m hm l hwf base rest hbase hend]
  rfl

/-- **`Parse` on a literal written with `e` or `E`**, operational form. -/
theorem parse_litM (z : Dec) (m : Nat) (hm : IsExpMarker m) (l : Lit10) (hwf : l.WF) (base : Nat)
    (hbase : base = 10 ∨ base = 0) :
    parse z (l.renderM m) base =
      (let p := if z.prec = 0 then 34 else z.prec
       let e10 : Int := (ndigits l.coef : Int) + l.exp10
       if l.coef = 0 then .ok ({ z with neg := l.sign, prec := p, acc := Exact, form := .zero }, 10)
       else if e10 < MinExp ∨ e10 > MaxExp then .error .expOverflow
       else .ok (setNormAndRound { z with neg := l.sign, prec := p } l.coef l.exp10 false, 10)) := by
  have hinf := hwf.not_infM m []
  rw [List.append_nil] at hinf
  have hb : base = 10 ∨ (base = 0 ∧ NoBasePrefix (l.bodyM m ++ [])) := by
    rcases hbase with h | h
    · exact Or.inl h
    · exact Or.inr ⟨h, hwf.noBasePrefixM m hm⟩
  have := scanDec_litM z m hm l hwf base [] hb (TailOk_nil _ l)
  rw [List.append_nil] at this
  rw [parse_eq_scanDec z _ base hinf, this]
  simp only []
  by_cases hc : l.coef = 0
  · simp [hc, finishScan]
  · by_cases hr : (ndigits l.coef : Int) + l.exp10 < MinExp ∨ (ndigits l.coef : Int) + l.exp10 > MaxExp
    · simp [hc, hr, finishScan]
    · simp [hc, hr, finishScan]

/-- bytes left over after a complete literal written with `e` or `E`. -/
theorem parse_trailingM (z : Dec) (m : Nat) (hm : IsExpMarker m) (l : Lit10) (hwf : l.WF) (base : Nat)
    (rest : List Nat) (hrest : rest ≠ [])
    (hbase : base = 10 ∨ (base = 0 ∧ NoBasePrefix (l.bodyM m ++ rest)))
    (hend : TailOk (decide (base = 0)) l rest)
    (hrange : l.coef = 0 ∨ (MinExp ≤ (ndigits l.coef : Int) + l.exp10 ∧ (ndigits l.coef : Int) + l.exp10 ≤ MaxExp)) :
    parse z (l.renderM m ++ rest) base = .error .trailing := by
  rw [parse_eq_scanDec z _ base (hwf.not_infM m rest), scanDec_litM z m hm l hwf base rest hbase hend]
  have hre : rest.isEmpty = false := by cases rest <;> simp_all
  simp only []
  rcases hrange with hc | ⟨h1, h2⟩
  · simp [hc, finishScan, hre]
  · by_cases hc : l.coef = 0
    · simp [hc, finishScan, hre]
    · have hr : ¬ ((ndigits l.coef : Int) + l.exp10 < MinExp ∨ (ndigits l.coef : Int) + l.exp10 > MaxExp) := by omega
      simp [hc, hr, finishScan, hre]

/-- an `E` marker without digits: `"1E"`, `"1E+"`, `"1.5E-x"`, … (base 10 and base 0). -/
theorem parse_exp_noDigitsM (z : Dec) (m : Nat) (hm : IsExpMarker m) (sg esg : Option Bool) (ip : List Nat)
    (fp : Option (List Nat)) (rest : List Nat) (base : Nat) (hbase : base = 10 ∨ base = 0)
    (hip : IsDigits ip) (hfp : IsDigits (fp.getD [])) (hne : ip ++ fp.getD [] ≠ [])
    (hend : ExpEnd (decide (base = 0)) rest) (hsg : esg = none → NoSignHead rest) :
    parse z (signBytes sg ++ (renderMant ip fp ++ m :: (signBytes esg ++ rest))) base = .error .noDigits := by
  have hmd := digitVal_marker hm
  have hm9 : m ≠ 95 ∧ m ≠ 46 := by rcases hm with rfl | rfl <;> omega
  have hnp : NoPrefixLetterHead (m :: (signBytes esg ++ rest)) := by
    rcases hm with rfl | rfl <;> simp [NoPrefixLetterHead]
  rw [parse_sign_body z sg _ base (fun _ => mant_head ip fp _ hip hne) (not_inf_mant sg ip fp _ hip hfp hne),
    scanBody_exp_err z _ _ base .noDigits _ _ _ _
      (scanMant_mant base ip fp (m :: _) hip hfp hne
        ⟨hmd, fun h => absurd h hm9.1, fun h => absurd h hm9.2⟩
        (by rcases hbase with h | h
            · exact Or.inl h
            · exact Or.inr ⟨h, hnp⟩))]
  · rfl
  · rw [scanExponent_m _ m hm esg rest hsg, scanExpTail_noDigits _ _ _ _ hend]

/-- base 0: no base prefix is seen in a literal followed by `rest`, provided `rest` does not start with one
    of the prefix letters `b B o O x X` (which matters only when the literal is a single digit). -/
theorem Lit10.WF.noBasePrefixM_rest {l : Lit10} (hwf : l.WF) (m : Nat) (hm : IsExpMarker m) (rest : List Nat)
    (hrest : NoPrefixLetterHead rest) : NoBasePrefix (l.bodyM m ++ rest) := by
  intro c r h
  have hne := (hwf.bodyM_head m []).1
  rw [List.append_nil] at hne
  cases hb : l.bodyM m with
  | nil => exact absurd hb hne
  | cons b0 t =>
    rw [hb] at h
    simp only [List.cons_append, List.cons.injEq] at h
    obtain ⟨_, h⟩ := h
    cases t with
    | nil =>
      simp only [List.nil_append] at h
      rw [h] at hrest
      exact hrest
    | cons b1 t' =>
      simp only [List.cons_append, List.cons.injEq] at h
      have hmem : b1 ∈ l.bodyM m := by rw [hb]; simp
      have := hwf.mem_bodyM m hmem
      rcases hm with rfl | rfl <;> omega

end Decimal
