/-
  The float64 size estimates of `SetInt` and `decToNat` (DecimalModel/Radix.lean): general part.

  * `roundF64_ge`: round-to-nearest loses at most a relative 2^-53: `2^53·roundF64 P ≥ (2^53−1)·P`;
  * `setIntWords_lower`: `aA·bits ≤ 19·setIntWords bits·2^107`, `decToNatWords_lower`:
    `aD·digits < 64·decToNatWords digits·2^104` — linear minorants of the two estimates;
  * `pow_le_pow_of_cert`: from ONE certified inequality `a^Q ≤ b^P` and `P·x ≤ y·Q` follows
    `a^x ≤ b^y` (used with the continued-fraction convergents of log10 2:
    `2^6107016 ≤ 10^1838395` and `10^1936274 ≤ 2^6432163`, both checked by the kernel);
  * `allRange`: a conjunction over `2^d` consecutive arguments by binary splitting, which the kernel
    evaluates in 2^14 chunks (Proofs/RadixEstA.lean, Proofs/RadixEstD.lean).
-/
import DecimalModel.Radix
import Proofs.Vec
import Mathlib.Tactic.Ring
import Mathlib.Tactic.Linarith

set_option linter.unusedVariables false
namespace Decimal.L0
open Decimal Decimal.Gen

/-! ### rounding to 53 bits -/

theorem roundF64_ge (P : Nat) : (2 ^ 53 - 1) * P ≤ 2 ^ 53 * roundF64 P := by
  unfold roundF64
  by_cases h : P < 2 ^ 53
  · rw [if_pos h]; exact Nat.mul_le_mul_right _ (by omega)
  · rw [if_neg h]
    have hP0 : P ≠ 0 := by
      intro h0; rw [h0] at h; exact h (Nat.pow_pos (by omega))
    have hlo := Nat.log2_self_le hP0
    have hhi := @Nat.lt_log2_self P
    -- log2 P ≥ 53
    have hl : 53 ≤ Nat.log2 P := by
      by_contra hc
      have : Nat.log2 P + 1 ≤ 53 := by omega
      have := Nat.pow_le_pow_right (n := 2) (by omega) this
      omega
    obtain ⟨k, hk⟩ : ∃ k, Nat.log2 P + 1 - 53 = k + 1 := ⟨Nat.log2 P - 53, by omega⟩
    simp only [hk, Nat.add_sub_cancel]
    have hlk : Nat.log2 P = k + 53 := by omega
    rw [hlk] at hlo
    -- 2^k · 2^53 ≤ P
    have hpk : 2 ^ k * 2 ^ 53 ≤ P := by rw [← Nat.pow_add]; exact hlo
    have hk1 : (2 : Nat) ^ (k + 1) = 2 * 2 ^ k := by rw [Nat.pow_succ, Nat.mul_comm]
    have hdm : 2 ^ (k + 1) * (P / 2 ^ (k + 1)) + P % 2 ^ (k + 1) = P := Nat.div_add_mod _ _
    have hrlt : P % 2 ^ (k + 1) < 2 ^ (k + 1) := Nat.mod_lt _ (Nat.pow_pos (by omega))
    generalize P / 2 ^ (k + 1) = q at *
    generalize P % 2 ^ (k + 1) = r at *
    rw [hk1] at hdm hrlt ⊢
    generalize (2 : Nat) ^ k = T at *
    have h53 : (2 : Nat) ^ 53 = 9007199254740992 := by norm_num
    rw [h53] at hpk h ⊢
    split
    · -- rounded up: (q+1)·2T ≥ P
      have : P ≤ (q + 1) * (2 * T) := by nlinarith
      have h2 : 9007199254740992 * P ≤ 9007199254740992 * ((q + 1) * (2 * T)) := Nat.mul_le_mul_left _ this
      have h3 : (9007199254740992 - 1) * P ≤ 9007199254740992 * P := Nat.mul_le_mul_right _ (by omega)
      omega
    · rename_i hc
      have hr : r ≤ T := by
        by_contra hr
        exact hc (Or.inl (by omega))
      -- q·2T = P − r ≥ P − T, and T·2^53 ≤ P
      have e : q * (2 * T) = P - r := by
        have : q * (2 * T) = 2 * T * q := Nat.mul_comm _ _
        omega
      rw [e]
      have : (9007199254740992 - 1) * P = 9007199254740992 * P - P := by
        rw [Nat.sub_mul, Nat.one_mul]
      rw [this, Nat.mul_sub]
      have : 9007199254740992 * r ≤ 9007199254740992 * T := Nat.mul_le_mul_left _ hr
      have hrP : r ≤ P := by omega
      have : 9007199254740992 * r ≤ 9007199254740992 * P := Nat.mul_le_mul_left _ hrP
      omega

/-! ### the two estimates: linear minorants -/

/-- `log10_2·(1 − 2^-53)` as a fraction `aA / 2^107`. -/
def aA : Nat := 48844909400338818231334523143681
def bA : Nat := 162259276829213363391578010288128
/-- `log2_10·(1 − 2^-53)` as a fraction `aD / 2^104`. -/
def aD : Nat := 67376706294383724727225352084623
def bD : Nat := 20282409603651670423947251286016

theorem aA_eq : aA = log10_2_m * (2 ^ 53 - 1) := by norm_num [aA, log10_2_m]
theorem bA_eq : bA = 2 ^ 54 * 2 ^ 53 := by norm_num [bA]
theorem aD_eq : aD = log2_10_m * (2 ^ 53 - 1) := by norm_num [aD, log2_10_m]
theorem bD_eq : bD = 2 ^ 51 * 2 ^ 53 := by norm_num [bD]

theorem setIntPrec_lower (bits : Nat) : aA * bits ≤ setIntPrec bits * bA := by
  have h := roundF64_ge (bits * log10_2_m)
  unfold setIntPrec
  simp only [log10_2_e]
  generalize roundF64 (bits * log10_2_m) = R at *
  -- R ≤ ⌈R / 2^54⌉ · 2^54
  have h1 : R ≤ (R + (2 ^ 54 - 1)) / 2 ^ 54 * 2 ^ 54 := by
    have := Nat.div_add_mod (R + (2 ^ 54 - 1)) (2 ^ 54)
    have := Nat.mod_lt (R + (2 ^ 54 - 1)) (show 0 < 2 ^ 54 by norm_num)
    have e : (R + (2 ^ 54 - 1)) / 2 ^ 54 * 2 ^ 54 = 2 ^ 54 * ((R + (2 ^ 54 - 1)) / 2 ^ 54) := Nat.mul_comm _ _
    omega
  generalize (R + (2 ^ 54 - 1)) / 2 ^ 54 = c at *
  rw [aA_eq, bA_eq]
  calc log10_2_m * (2 ^ 53 - 1) * bits = (2 ^ 53 - 1) * (bits * log10_2_m) := by ring
    _ ≤ 2 ^ 53 * R := h
    _ ≤ 2 ^ 53 * (c * 2 ^ 54) := Nat.mul_le_mul_left _ h1
    _ = c * (2 ^ 54 * 2 ^ 53) := by ring

theorem setIntWords_lower (bits : Nat) : aA * bits ≤ 19 * setIntWords bits * bA := by
  have h := setIntPrec_lower bits
  unfold setIntWords
  have hc : c_DW = 19 := rfl
  rw [hc]
  have h1 : setIntPrec bits ≤ 19 * ((setIntPrec bits + (19 - 1)) / 19) := by omega
  exact Nat.le_trans h (Nat.mul_le_mul_right _ h1)

theorem decToNatWords_lower (d : Nat) : aD * d < 64 * decToNatWords d * bD := by
  have h := roundF64_ge (d * log2_10_m)
  unfold decToNatWords decToNatBits
  simp only [log2_10_e]
  generalize roundF64 (d * log2_10_m) = R at *
  have h1 : R < 64 * ((R / 2 ^ 51 + 64) / 64) * 2 ^ 51 := by
    have h2 : R / 2 ^ 51 + 1 ≤ 64 * ((R / 2 ^ 51 + 64) / 64) := by omega
    have h3 : R < (R / 2 ^ 51 + 1) * 2 ^ 51 := by
      have := Nat.div_add_mod R (2 ^ 51)
      have := Nat.mod_lt R (show 0 < 2 ^ 51 by norm_num)
      have e : (R / 2 ^ 51 + 1) * 2 ^ 51 = 2 ^ 51 * (R / 2 ^ 51) + 2 ^ 51 := by ring
      omega
    exact Nat.lt_of_lt_of_le h3 (Nat.mul_le_mul_right _ h2)
  generalize 64 * ((R / 2 ^ 51 + 64) / 64) = c at *
  rw [aD_eq, bD_eq]
  calc log2_10_m * (2 ^ 53 - 1) * d = (2 ^ 53 - 1) * (d * log2_10_m) := by ring
    _ ≤ 2 ^ 53 * R := h
    _ < 2 ^ 53 * (c * 2 ^ 51) := Nat.mul_lt_mul_of_pos_left h1 (by norm_num)
    _ = c * (2 ^ 51 * 2 ^ 53) := by ring

/-! ### one certified power inequality gives all the others -/

theorem pow_le_pow_of_cert (a b P Q x y : Nat) (hc : a ^ Q ≤ b ^ P) (hQ : 0 < Q) (hb : 1 ≤ b)
    (h : P * x ≤ y * Q) : a ^ x ≤ b ^ y := by
  rw [← Nat.pow_le_pow_iff_left (n := Q) (by omega)]
  calc (a ^ x) ^ Q = (a ^ Q) ^ x := by rw [← Nat.pow_mul, ← Nat.pow_mul, Nat.mul_comm]
    _ ≤ (b ^ P) ^ x := Nat.pow_le_pow_left hc x
    _ = b ^ (P * x) := by rw [← Nat.pow_mul]
    _ ≤ b ^ (y * Q) := Nat.pow_le_pow_right hb h
    _ = (b ^ y) ^ Q := by rw [Nat.pow_mul]

/-- `2^6107016 ≤ 10^1838395` (1838395/6107016 is a convergent of log10 2 from above). -/
theorem cert_2_10 : 2 ^ 6107016 ≤ 10 ^ 1838395 := by decide +kernel

/-- `10^1936274 ≤ 2^6432163` (1936274/6432163 is a convergent of log10 2 from below). -/
theorem cert_10_2 : 10 ^ 1936274 ≤ 2 ^ 6432163 := by decide +kernel

/-! ### conjunction over a range, by binary splitting -/

def allRange (f : Nat → Bool) (d : Nat) : Nat → Bool :=
  Nat.rec (motive := fun _ => Nat → Bool) (fun lo => f lo)
    (fun d ih lo => (ih lo).and (ih (lo + 2 ^ d))) d

theorem allRange_zero (f : Nat → Bool) (lo : Nat) : allRange f 0 lo = f lo := rfl
theorem allRange_succ (f : Nat → Bool) (d lo : Nat) :
    allRange f (d + 1) lo = ((allRange f d lo).and (allRange f d (lo + 2 ^ d))) := rfl

theorem allRange_spec (f : Nat → Bool) (d lo : Nat) (h : allRange f d lo = true) (k : Nat)
    (h1 : lo ≤ k) (h2 : k < lo + 2 ^ d) : f k = true := by
  induction d generalizing lo with
  | zero =>
    rw [allRange_zero] at h
    have : k = lo := by simp at h2; omega
    rw [this]; exact h
  | succ d ih =>
    rw [allRange_succ, Bool.and_eq_true] at h
    rw [Nat.pow_succ] at h2
    by_cases hk : k < lo + 2 ^ d
    · exact ih lo h.1 h1 hk
    · exact ih (lo + 2 ^ d) h.2 (by omega) (by omega)

/-- the check for `SetInt`: every bit length whose estimate is `k` words has `2^bits ≤ 10^(19k)`. -/
def chkA (k : Nat) : Bool :=
  Nat.ble (1838395 * (19 * k * 162259276829213363391578010288128 / 48844909400338818231334523143681))
    (19 * k * 6107016)

/-- the check for `decToNat`: every digit count whose estimate is `k` words has `10^d ≤ 2^(64k)`. -/
def chkD (k : Nat) : Bool :=
  Nat.ble (6432163 * ((64 * k * 20282409603651670423947251286016 - 1) / 67376706294383724727225352084623))
    (64 * k * 1936274)

theorem chkA_use (bits : Nat) (h : chkA (setIntWords bits) = true) :
    2 ^ bits ≤ 10 ^ (19 * setIntWords bits) := by
  have hl := setIntWords_lower bits
  generalize setIntWords bits = n at *
  unfold chkA at h
  have h := Nat.le_of_ble_eq_true h
  have hb : bits ≤ 19 * n * 162259276829213363391578010288128 / 48844909400338818231334523143681 := by
    rw [Nat.le_div_iff_mul_le (by norm_num)]
    rw [aA, bA] at hl
    rw [Nat.mul_comm]; exact hl
  apply pow_le_pow_of_cert 2 10 1838395 6107016 bits (19 * n) cert_2_10 (by norm_num) (by norm_num)
  exact Nat.le_trans (Nat.mul_le_mul_left _ hb) h

theorem chkD_use (d : Nat) (h : chkD (decToNatWords d) = true) :
    10 ^ d ≤ 2 ^ (64 * decToNatWords d) := by
  have hl := decToNatWords_lower d
  generalize decToNatWords d = n at *
  unfold chkD at h
  have h := Nat.le_of_ble_eq_true h
  have hb : d ≤ (64 * n * 20282409603651670423947251286016 - 1) / 67376706294383724727225352084623 := by
    rw [Nat.le_div_iff_mul_le (by norm_num)]
    rw [aD, bD] at hl
    rw [Nat.mul_comm]; omega
  apply pow_le_pow_of_cert 10 2 6432163 1936274 d (64 * n) cert_10_2 (by norm_num) (by norm_num)
  exact Nat.le_trans (Nat.mul_le_mul_left _ hb) h

end Decimal.L0
