/-
  Helper lemmas for C08: every reachable Decimal is canonical (`Dec.Canonical`, Program.lean).
  Core Lean only (on top of Proofs/Basic, Proofs/Round, Proofs/Alias).
-/
import Proofs.Basic
import Proofs.Round
import Proofs.Alias
import Proofs.Cmp
import DecimalModel.Program

namespace Decimal
open Spec

theorem roundShape_noovf (neg : Bool) (exp : Int) (prec : Nat) (mode : Mode) (n : Nat) (X I : Bool)
    (a a' b b' c d : Nat) :
    roundShape neg exp prec mode n X I false a b c d = roundShape neg exp prec mode n X I false a' b' c d := by
  cases X <;> cases I <;> rfl

/-- `round` on a normalised mantissa longer than the precision, with the written mantissas in
    closed form (`lo` = the `prec` leading digits, `L` = the weight of the last kept digit). -/
theorem round_long_shape (neg : Bool) (mant len : Nat) (exp : Int) (prec : Nat) (mode : Mode)
    (acc : Acc) (sb : Bool) (hp : 1 ≤ prec) (hgt : prec < len * 19) (hnd : ndigits mant = len * 19) :
    ∃ (X I : Bool) (mInf : Nat),
      round ⟨.finite, neg, mant, len, exp, prec, mode, acc⟩ sb =
        roundShape neg exp prec mode ((prec + 18) / 19) X I
          (decide (mant / 10 ^ (len * 19 - prec) + 1 = 10 ^ prec)) mInf
          (10 ^ (prec - 1) * 10 ^ ((prec + 18) / 19 * 19 - prec))
          ((mant / 10 ^ (len * 19 - prec) + 1) * 10 ^ ((prec + 18) / 19 * 19 - prec))
          (mant / 10 ^ (len * 19 - prec) * 10 ^ ((prec + 18) / 19 * 19 - prec)) ∧
      10 ^ (prec - 1) ≤ mant / 10 ^ (len * 19 - prec) ∧ mant / 10 ^ (len * 19 - prec) < 10 ^ prec := by
  rw [round_eq_shape _ _ _ _ _ _ _ _ hgt]
  simp only
  have hn1 : prec ≤ (prec + 18) / 19 * 19 := by omega
  have hn2 : (prec + 18) / 19 ≤ len := by omega
  have hR : 0 < len * 19 - prec := by omega
  generalize hn : (prec + 18) / 19 = n at *
  generalize hRR : len * 19 - prec = R at *
  have hmpos : 0 < mant := by
    rcases Nat.eq_zero_or_pos mant with h | h
    · rw [h, ndigits_zero] at hnd; omega
    · exact h
  have hlo_nd : ndigits (mant / 10 ^ R) = prec := by rw [ndigits_div_pow, hnd]; omega
  have hlo_pos : 0 < mant / 10 ^ R := by
    rcases Nat.eq_zero_or_pos (mant / 10 ^ R) with h | h
    · rw [h, ndigits_zero] at hlo_nd; omega
    · exact h
  have hlo1 : 10 ^ (prec - 1) ≤ mant / 10 ^ R := by
    have := pow_le_of_ndigits hlo_pos; rwa [hlo_nd] at this
  have hlo2 : mant / 10 ^ R < 10 ^ prec := by
    have := ndigits_lt_pow (mant / 10 ^ R); rwa [hlo_nd] at this
  have hL := ten_pow_pos (n * 19 - prec)
  rw [cut_eq mant len n hn2]
  have hlo : mant / 10 ^ (19 * (len - n)) / 10 ^ (n * 19 - prec) = mant / 10 ^ R := by
    rw [cut_div mant len n prec hn2 hn1, hRR]
  have hBn : B ^ n = 10 ^ prec * 10 ^ (n * 19 - prec) := by
    rw [B_pow, ← Nat.pow_add]; congr 1; omega
  have hB1 : (B / 10) * B ^ (n - 1) = 10 ^ (prec - 1) * 10 ^ (n * 19 - prec) := by
    have : B / 10 = 10 ^ 18 := by decide
    rw [this, B_pow, ← Nat.pow_add, ← Nat.pow_add]; congr 1; omega
  rw [sub_mod_eq (mant / 10 ^ (19 * (len - n))), add_sub_mod_eq _ _ hL, hlo]
  have hO : ((mant / 10 ^ (19 * (len - n)) + 10 ^ (n * 19 - prec)) / B ^ n != 0)
      = decide (mant / 10 ^ R + 1 = 10 ^ prec) := by
    rw [Bool.eq_iff_iff, bne_iff_ne, decide_eq_true_eq, hBn]
    exact overflow_iff _ _ _ _ hL hlo.symm hlo2
  rw [hO]
  refine ⟨(digitAt mant (R - 1) != 0 || sbitF mode mant (R - 1) sb),
    (roundInc mode neg (digitAt mant (R - 1)) (sbitF mode mant (R - 1) sb)
      (digitAt (mant / 10 ^ (19 * (len - n))) (n * 19 - prec) % 2 == 1)),
    ((mant / 10 ^ (19 * (len - n)) + 10 ^ (n * 19 - prec)) % B ^ n), ?_, hlo1, hlo2⟩
  by_cases ho : mant / 10 ^ R + 1 = 10 ^ prec
  · have := overflow_mant _ _ _ _ _ n hL hlo.symm ho hBn hB1
    simp only at this
    rw [this]
  · simp only [ho, decide_false]
    exact roundShape_noovf _ _ _ _ _ _ _ _ _ _ _ _ _


def accOK (a : Acc) : Prop := a = -1 ∨ a = 0 ∨ a = 1

theorem accOK_makeAcc (b : Bool) : accOK (makeAcc b) := by
  cases b
  · exact Or.inl rfl
  · exact Or.inr (Or.inr rfl)
theorem accOK_exact : accOK Exact := Or.inr (Or.inl rfl)

/-- A finite state whose mantissa is a `prec`-digit coefficient `c` followed by zeros. -/
theorem canonical_coef (neg : Bool) (c n : Nat) (exp : Int) (prec : Nat) (mode : Mode) (acc : Acc)
    (hc1 : 10 ^ (prec - 1) ≤ c) (hc2 : c < 10 ^ prec) (hpn : prec ≤ n * 19) (hp1 : 1 ≤ prec)
    (hp2 : prec ≤ MaxPrec) (he1 : MinExp ≤ exp) (he2 : exp ≤ MaxExp) (ha : accOK acc) :
    Dec.Canonical ⟨.finite, neg, c * 10 ^ (n * 19 - prec), n, exp, prec, mode, acc⟩ := by
  have hcpos : 0 < c := Nat.lt_of_lt_of_le (ten_pow_pos _) hc1
  refine ⟨hp2, ha, fun _ => ⟨?_, ?_, he1, he2, hp1, Or.inr ?_⟩⟩
  · show 1 ≤ n
    omega
  · show ndigits (c * 10 ^ (n * 19 - prec)) = n * DW
    rw [ndigits_mul_pow hcpos, ndigits_eq_of_coef hc1 hc2, DW_eq]; omega
  · show c * 10 ^ (n * 19 - prec) % 10 ^ (n * DW - prec) = 0
    rw [DW_eq, Nat.mul_mod_left]

theorem round_canonical (z : Dec) (sb : Bool) (hf : z.form = .finite) (hl : 1 ≤ z.len)
    (hnd : ndigits z.mant = z.len * 19) (hp1 : 1 ≤ z.prec) (hp2 : z.prec ≤ MaxPrec)
    (he1 : MinExp ≤ z.exp) (he2 : z.exp ≤ MaxExp) : (round z sb).Canonical := by
  obtain ⟨form, neg, mant, len, exp, prec, mode, acc⟩ := z
  simp only at hf hl hnd hp1 hp2 he1 he2
  subst hf
  by_cases hle : len * 19 ≤ prec
  · rw [round_short _ _ _ _ _ _ _ _ hle]
    exact ⟨hp2, accOK_exact, fun _ => ⟨hl, by rw [DW_eq]; exact hnd, he1, he2, hp1, Or.inl (by rw [DW_eq]; exact hle)⟩⟩
  · obtain ⟨X, I, mInf, heq, hlo1, hlo2⟩ :=
      round_long_shape neg mant len exp prec mode acc sb hp1 (by omega) hnd
    rw [heq]
    have hpn : prec ≤ (prec + 18) / 19 * 19 := by omega
    generalize (prec + 18) / 19 = n at *
    generalize mant / 10 ^ (len * 19 - prec) = lo at *
    have hpow : 10 ^ (prec - 1) < 10 ^ prec := Nat.pow_lt_pow_right (by omega) (by omega)
    unfold roundShape
    cases X <;> cases I <;> simp only [Bool.false_eq_true, if_false, if_true]
    · exact canonical_coef _ _ _ _ _ _ _ hlo1 hlo2 hpn hp1 hp2 he1 he2 accOK_exact
    · exact canonical_coef _ _ _ _ _ _ _ hlo1 hlo2 hpn hp1 hp2 he1 he2 accOK_exact
    · exact canonical_coef _ _ _ _ _ _ _ hlo1 hlo2 hpn hp1 hp2 he1 he2 (accOK_makeAcc _)
    · by_cases ho : lo + 1 = 10 ^ prec
      · simp only [ho, decide_true, if_true]
        by_cases hm : exp ≥ MaxExp
        · rw [if_pos hm]
          exact ⟨hp2, accOK_makeAcc _, fun h => by cases h⟩
        · rw [if_neg hm]
          exact canonical_coef _ _ _ _ _ _ _ (Nat.le_refl _) hpow hpn hp1 hp2 (by omega) (by omega)
            (accOK_makeAcc _)
      · simp only [ho, decide_false, Bool.false_eq_true, if_false]
        exact canonical_coef _ _ _ _ _ _ _ (by omega) (by omega) hpn hp1 hp2 he1 he2 (accOK_makeAcc _)


theorem canonical_nonfinite {z : Dec} (hp : z.prec ≤ MaxPrec) (ha : accOK z.acc) (hf : z.form ≠ .finite) :
    z.Canonical := ⟨hp, ha, fun h => absurd h hf⟩

theorem MaxPrec_eq : MaxPrec = 4294967295 := rfl
theorem MinExp_eq : MinExp = -2147483648 := rfl
theorem MaxExp_eq : MaxExp = 2147483647 := rfl

theorem setExpAndRound_canonical (z : Dec) (e : Int) (sb : Bool) (hl : 1 ≤ z.len)
    (hnd : ndigits z.mant = z.len * 19) (hp1 : 1 ≤ z.prec) (hp2 : z.prec ≤ MaxPrec) :
    (setExpAndRound z e sb).Canonical := by
  unfold setExpAndRound
  split
  · exact canonical_nonfinite hp2 (accOK_makeAcc _) (by simp)
  · split
    · exact canonical_nonfinite hp2 (accOK_makeAcc _) (by simp)
    · exact round_canonical _ _ rfl hl hnd hp1 hp2 (by simp only; omega) (by simp only; omega)

theorem setNormAndRound_canonical (z : Dec) (M : Nat) (e : Int) (sb : Bool) (hM : 0 < M)
    (hp1 : 1 ≤ z.prec) (hp2 : z.prec ≤ MaxPrec) : (setNormAndRound z M e sb).Canonical := by
  unfold setNormAndRound
  exact setExpAndRound_canonical _ _ _ (nwords_pos hM) (ndigits_dnorm hM) hp1 hp2

/-- The value fields a finite canonical Decimal offers to an operation reading it. -/
theorem Dec.Canonical.fin {x : Dec} (h : x.Canonical) (hf : x.form = .finite) :
    1 ≤ x.len ∧ ndigits x.mant = x.len * 19 ∧ MinExp ≤ x.exp ∧ x.exp ≤ MaxExp ∧ 1 ≤ x.prec ∧
      x.prec ≤ MaxPrec ∧ 0 < x.mant ∧
      (x.len * 19 ≤ x.prec ∨ x.mant % 10 ^ (x.len * 19 - x.prec) = 0) := by
  obtain ⟨h1, -, h3⟩ := h
  obtain ⟨a, b, c, d, e, f⟩ := h3 hf
  rw [DW_eq] at b f
  refine ⟨a, b, c, d, e, h1, ?_, f⟩
  rcases Nat.eq_zero_or_pos x.mant with h | h
  · rw [h, ndigits_zero] at b; omega
  · exact h

theorem umax_le {a b m : Nat} (ha : a ≤ m) (hb : b ≤ m) : umax a b ≤ m := by
  unfold umax; split <;> assumption
theorem le_umax_left (a b : Nat) : a ≤ umax a b := by unfold umax; split <;> omega
theorem le_umax_right (a b : Nat) : b ≤ umax a b := by unfold umax; split <;> omega

theorem prologue_prec_le {z : Dec} {P : Nat} (hz : z.prec ≤ MaxPrec) (hP : P ≤ MaxPrec) :
    (prologue z P).prec ≤ MaxPrec := by
  rw [prologue_prec]; split <;> assumption

theorem prologue_prec_pos {z : Dec} {P : Nat} (hP : 1 ≤ P) : 1 ≤ (prologue z P).prec := by
  rw [prologue_prec]; split <;> omega

/-- Trailing-zero condition is monotone in the precision. -/
theorem trailing_mono {mant len p q : Nat} (hpq : p ≤ q)
    (h : len * 19 ≤ p ∨ mant % 10 ^ (len * 19 - p) = 0) :
    len * 19 ≤ q ∨ mant % 10 ^ (len * 19 - q) = 0 := by
  rcases h with h | h
  · exact Or.inl (by omega)
  · by_cases hq : len * 19 ≤ q
    · exact Or.inl hq
    · refine Or.inr ?_
      have hd : 10 ^ (len * 19 - q) ∣ 10 ^ (len * 19 - p) := Nat.pow_dvd_pow 10 (by omega)
      exact Nat.mod_eq_zero_of_dvd (Nat.dvd_trans hd (Nat.dvd_of_mod_eq_zero h))


theorem setBody_finite (z x : Dec) (hf : x.form = .finite) :
    setBody z x = ⟨.finite, x.neg, x.mant, x.len, x.exp, z.prec, z.mode, Exact⟩ := by
  simp [setBody, hf]

theorem setBody_nonfinite (z x : Dec) (hf : x.form ≠ .finite) :
    setBody z x = { z with acc := Exact, form := x.form, neg := x.neg } := by
  simp [setBody, hf]

theorem set_canonical (z x : Dec) (hz : z.prec ≤ MaxPrec) (hx : x.Canonical) :
    (set z x false).Canonical := by
  rw [set_eq_body]
  by_cases hf : x.form = .finite
  · obtain ⟨a, b, c, d, e, f, g, h⟩ := hx.fin hf
    rw [setBody_finite z x hf]
    simp only
    by_cases h0 : z.prec = 0
    · simp only [h0, beq_self_eq_true, if_true]
      exact ⟨f, accOK_exact, fun _ => ⟨a, by rw [DW_eq]; exact b, c, d, e, by rw [DW_eq]; exact h⟩⟩
    · simp only [beq_iff_eq, h0, if_false]
      split
      · exact round_canonical _ _ rfl a b (by show 1 ≤ z.prec; omega) hz c d
      · next hlt =>
        have hlt' : ¬ z.prec < x.prec := hlt
        exact ⟨hz, accOK_exact, fun _ => ⟨a, by rw [DW_eq]; exact b, c, d, by show 1 ≤ z.prec; omega,
          by rw [DW_eq]; exact trailing_mono (show x.prec ≤ z.prec by omega) h⟩⟩
  · rw [setBody_nonfinite z x hf]
    simp only
    split
    · exact canonical_nonfinite hx.1 accOK_exact hf
    · split
      · rw [round_nonfinite _ _ (show ({ z with acc := Exact, form := x.form, neg := x.neg } : Dec).form ≠ .finite from hf)]
        exact canonical_nonfinite hz accOK_exact hf
      · exact canonical_nonfinite hz accOK_exact hf

theorem canonical_set_acc {z : Dec} (a : Acc) (ha : accOK a) (hz : z.Canonical) :
    Dec.Canonical { z with acc := a } := ⟨hz.1, ha, hz.2.2⟩

theorem canonical_set_neg {z : Dec} (n : Bool) (hz : z.Canonical) :
    Dec.Canonical { z with neg := n } := ⟨hz.1, hz.2.1, hz.2.2⟩

theorem set_canonical' (z x : Dec) (same : Bool) (hz : z.Canonical)
    (hx : x.Canonical) : (set z x same).Canonical := by
  cases same
  · exact set_canonical z x hz.1 hx
  · simp only [set, if_true]
    exact canonical_set_acc _ accOK_exact hz

theorem neg_canonical (z x : Dec) (same : Bool) (hz : z.Canonical)
    (hx : x.Canonical) : (neg z x same).Canonical :=
  canonical_set_neg _ (set_canonical' z x same hz hx)

theorem abs_canonical (z x : Dec) (same : Bool) (hz : z.Canonical)
    (hx : x.Canonical) : (abs z x same).Canonical :=
  canonical_set_neg _ (set_canonical' z x same hz hx)


theorem uadd_canonical (z x y : Dec) (hx : 0 < x.mant) (hp1 : 1 ≤ z.prec) (hp2 : z.prec ≤ MaxPrec) :
    (uadd z x y).Canonical := by
  simp only [uadd]
  split
  · exact setNormAndRound_canonical _ _ _ _ (Nat.add_pos_left hx _) hp1 hp2
  · split
    · exact setNormAndRound_canonical _ _ _ _ (Nat.add_pos_left (Nat.mul_pos hx (ten_pow_pos _)) _) hp1 hp2
    · exact setNormAndRound_canonical _ _ _ _ (Nat.add_pos_left hx _) hp1 hp2

theorem usub_canonical (z x y : Dec) (hp1 : 1 ≤ z.prec) (hp2 : z.prec ≤ MaxPrec) :
    (usub z x y).Canonical := by
  have key : ∀ P : Nat × Int,
      (if (P.1 == 0) = true then ({ z with acc := Exact, form := .zero, neg := false } : Dec)
        else setNormAndRound z P.1 P.2 false).Canonical := by
    intro P
    split
    · exact canonical_nonfinite hp2 accOK_exact (by simp)
    · next h =>
      refine setNormAndRound_canonical _ _ _ _ ?_ hp1 hp2
      simp only [beq_iff_eq] at h
      omega
  simp only [usub]
  exact key _

theorem umul_canonical (z x y : Dec) (hx : 0 < x.mant) (hy : 0 < y.mant) (hp1 : 1 ≤ z.prec)
    (hp2 : z.prec ≤ MaxPrec) : (umul z x y).Canonical := by
  unfold umul
  exact setNormAndRound_canonical _ _ _ _ (Nat.mul_pos hx hy) hp1 hp2

/-- The quotient of `uquo` is never zero: the dividend is extended to at least one more word
    than the divisor. -/
theorem uquo_adj_ge (n xm xl ym yl : Nat) (d : Int) (hn : 1 ≤ n) (hd : d = (n : Int) - xl + yl)
    (hxl : 1 ≤ xl) (hx : 10 ^ (19 * xl - 1) ≤ xm) (hy : ym < 10 ^ (19 * yl)) :
    ym ≤ (if d > 0 then (xm * B ^ d.toNat, xl + d.toNat) else (xm, xl)).1 := by
  split
  · next hd0 =>
    show ym ≤ xm * B ^ d.toNat
    have e : d.toNat + xl = n + yl := by omega
    rw [B_pow]
    calc ym ≤ 10 ^ (19 * yl) := Nat.le_of_lt hy
      _ ≤ 10 ^ ((19 * xl - 1) + 19 * d.toNat) := Nat.pow_le_pow_right (by omega) (by omega)
      _ = 10 ^ (19 * xl - 1) * 10 ^ (19 * d.toNat) := Nat.pow_add _ _ _
      _ ≤ xm * 10 ^ (19 * d.toNat) := Nat.mul_le_mul_right _ hx
  · next hd0 =>
    show ym ≤ xm
    calc ym ≤ 10 ^ (19 * yl) := Nat.le_of_lt hy
      _ ≤ 10 ^ (19 * xl - 1) := Nat.pow_le_pow_right (by omega) (by omega)
      _ ≤ xm := hx

theorem pow_le_of_canon {x : Dec} (_hl : 1 ≤ x.len) (hnd : ndigits x.mant = x.len * 19) (hpos : 0 < x.mant) :
    10 ^ (19 * x.len - 1) ≤ x.mant ∧ x.mant < 10 ^ (19 * x.len) := by
  have h1 := pow_le_of_ndigits hpos
  have h2 := ndigits_lt_pow x.mant
  rw [hnd] at h1 h2
  rw [Nat.mul_comm] at h1 h2
  exact ⟨h1, h2⟩

theorem uquo_canonical (z x y : Dec) (hxl : 1 ≤ x.len) (hxn : ndigits x.mant = x.len * 19)
    (hxp : 0 < x.mant) (hyl : 1 ≤ y.len) (hyn : ndigits y.mant = y.len * 19) (hyp : 0 < y.mant)
    (hp1 : 1 ≤ z.prec) (hp2 : z.prec ≤ MaxPrec) : (uquo z x y).Canonical := by
  have hge := uquo_adj_ge (z.prec / DW + 1) x.mant x.len y.mant y.len _ (Nat.le_add_left _ _) rfl hxl
    (pow_le_of_canon hxl hxn hxp).1 (pow_le_of_canon hyl hyn hyp).2
  simp only [uquo]
  exact setNormAndRound_canonical _ _ _ _ (Nat.div_pos hge hyp) hp1 hp2

theorem zeroSignFix_canonical {z : Dec} (h : z.Canonical) : (zeroSignFix z).Canonical := by
  unfold zeroSignFix; split
  · exact canonical_set_neg _ h
  · exact h


theorem canonical_obsEq {a b : Dec} (h : obsEq a b) (ha : a.Canonical) : b.Canonical := by
  obtain ⟨h1, h2, h3, h4, h5, h6⟩ := h
  obtain ⟨c1, c2, c3⟩ := ha
  refine ⟨h3 ▸ c1, h5 ▸ c2, fun hf => ?_⟩
  have hf' : a.form = .finite := h1.trans hf
  obtain ⟨m1, m2, m3⟩ := h6 hf'
  have := c3 hf'
  rw [m1, m2, m3, h3] at this
  exact this

theorem addK_canonical {z x y sX sY : Dec} (hz : z.prec ≤ MaxPrec)
    (hfin : x.form = .finite → y.form = .finite → 1 ≤ z.prec ∧ 0 < x.mant ∧ 0 < y.mant)
    (hX : (x.form = .inf ∨ y.form = .zero) → sX.Canonical)
    (hY : ¬(x.form = .finite ∧ y.form = .finite) → sY.Canonical) :
    (addK z x y sX sY).1.Canonical := by
  simp only [addK]
  split
  · next h =>
    simp only [Bool.and_eq_true, beq_iff_eq] at h
    obtain ⟨p1, px, py⟩ := hfin h.1 h.2
    refine zeroSignFix_canonical ?_
    split
    · exact uadd_canonical _ _ _ px p1 hz
    · split
      · exact usub_canonical _ _ _ p1 hz
      · exact usub_canonical _ _ _ p1 hz
  · next hff =>
    simp only [Bool.and_eq_true, beq_iff_eq] at hff
    split
    · exact canonical_nonfinite hz accOK_exact (by simp)
    · split
      · exact canonical_nonfinite hz accOK_exact (by simp)
      · split
        · next h => exact hX (by simpa using h)
        · exact hY hff

theorem subK_canonical {z x y sX sY : Dec} (hz : z.prec ≤ MaxPrec)
    (hfin : x.form = .finite → y.form = .finite → 1 ≤ z.prec ∧ 0 < x.mant ∧ 0 < y.mant)
    (hX : (x.form = .inf ∨ y.form = .zero) → sX.Canonical)
    (hY : ¬(x.form = .finite ∧ y.form = .finite) → sY.Canonical) :
    (subK z x y sX sY).1.Canonical := by
  simp only [subK]
  split
  · next h =>
    simp only [Bool.and_eq_true, beq_iff_eq] at h
    obtain ⟨p1, px, py⟩ := hfin h.1 h.2
    refine zeroSignFix_canonical ?_
    split
    · exact uadd_canonical _ _ _ px p1 hz
    · split
      · exact usub_canonical _ _ _ p1 hz
      · exact usub_canonical _ _ _ p1 hz
  · next hff =>
    simp only [Bool.and_eq_true, beq_iff_eq] at hff
    split
    · exact canonical_nonfinite hz accOK_exact (by simp)
    · split
      · exact canonical_nonfinite hz accOK_exact (by simp)
      · split
        · next h => exact hX (by simpa using h)
        · exact hY hff

theorem mulK_canonical {z x y : Dec} (hz : z.prec ≤ MaxPrec)
    (hfin : x.form = .finite → y.form = .finite → 1 ≤ z.prec ∧ 0 < x.mant ∧ 0 < y.mant) :
    (mulK z x y).1.Canonical := by
  simp only [mulK]
  split
  · next h =>
    simp only [Bool.and_eq_true, beq_iff_eq] at h
    obtain ⟨p1, px, py⟩ := hfin h.1 h.2
    exact umul_canonical _ _ _ px py p1 hz
  · split
    · exact canonical_nonfinite hz accOK_exact (by simp)
    · split
      · exact canonical_nonfinite hz accOK_exact (by simp)
      · exact canonical_nonfinite hz accOK_exact (by simp)

theorem quoK_canonical {z x y : Dec} (hz : z.prec ≤ MaxPrec)
    (hfin : x.form = .finite → y.form = .finite → 1 ≤ z.prec ∧
      (1 ≤ x.len ∧ ndigits x.mant = x.len * 19 ∧ 0 < x.mant) ∧
      (1 ≤ y.len ∧ ndigits y.mant = y.len * 19 ∧ 0 < y.mant)) :
    (quoK z x y).1.Canonical := by
  simp only [quoK]
  split
  · next h =>
    simp only [Bool.and_eq_true, beq_iff_eq] at h
    obtain ⟨p1, ⟨a1, a2, a3⟩, ⟨b1, b2, b3⟩⟩ := hfin h.1 h.2
    exact uquo_canonical _ _ _ a1 a2 a3 b1 b2 b3 p1 hz
  · split
    · exact canonical_nonfinite hz accOK_exact (by simp)
    · split
      · exact canonical_nonfinite hz accOK_exact (by simp)
      · exact canonical_nonfinite hz accOK_exact (by simp)


theorem prologue_canonical {z : Dec} {P : Nat} (hz : z.Canonical) (hP : P ≤ MaxPrec) :
    (prologue z P).Canonical := by
  by_cases h0 : z.prec = 0
  · rw [prologue_of_zero h0]
    refine canonical_nonfinite hP hz.2.1 (fun hf => ?_)
    have := (hz.fin hf).2.2.2.2.1
    omega
  · rw [prologue_of_nonzero h0]; exact hz

/-- The operand an operation actually reads (`z'` itself when flagged as aliased) is canonical,
    and if it is finite the receiver's effective precision is at least 1. -/
theorem opnd_facts {z' x : Dec} (sx : Bool) (hz' : z'.Canonical) (hx : x.Canonical)
    (hpx : x.form = .finite → 1 ≤ z'.prec) :
    (opnd z' x sx).Canonical ∧ ((opnd z' x sx).form = .finite → 1 ≤ z'.prec) ∧
      (set z' (opnd z' x sx) sx).Canonical := by
  cases sx
  · exact ⟨hx, hpx, set_canonical _ _ hz'.1 hx⟩
  · refine ⟨hz', fun h => (hz'.fin h).2.2.2.2.1, ?_⟩
    simp only [set, if_true]
    exact canonical_set_acc _ accOK_exact hz'

theorem prologue_pos_left {z x : Dec} (y : Dec) (hx : x.Canonical) (h : x.form = .finite) :
    1 ≤ (prologue z (umax x.prec y.prec)).prec :=
  prologue_prec_pos (Nat.le_trans (hx.fin h).2.2.2.2.1 (le_umax_left _ _))

theorem prologue_pos_right {z y : Dec} (x : Dec) (hy : y.Canonical) (h : y.form = .finite) :
    1 ≤ (prologue z (umax x.prec y.prec)).prec :=
  prologue_prec_pos (Nat.le_trans (hy.fin h).2.2.2.2.1 (le_umax_right _ _))

/-- `Add` preserves canonicity, for every combination of aliasing flags. -/
theorem add_canonical (z x y : Dec) (sx sy : Bool) (hz : z.Canonical) (hx : x.Canonical)
    (hy : y.Canonical) : (add z x y sx sy).1.Canonical := by
  rw [add_eq_addK]
  have hz' := prologue_canonical (P := umax x.prec y.prec) hz (umax_le hx.1 hy.1)
  obtain ⟨cX, pX, sX⟩ := opnd_facts sx hz' hx (prologue_pos_left y hx)
  obtain ⟨cY, pY, sY⟩ := opnd_facts sy hz' hy (prologue_pos_right x hy)
  exact addK_canonical hz'.1
    (fun h1 h2 => ⟨pX h1, (cX.fin h1).2.2.2.2.2.2.1, (cY.fin h2).2.2.2.2.2.2.1⟩)
    (fun _ => sX) (fun _ => sY)

theorem subTail_canonical (z y : Dec) (hz : z.prec ≤ MaxPrec) (hy : y.Canonical)
    (hp : y.form = .finite → 1 ≤ z.prec) : (subTail z y false).Canonical := by
  rw [subTail_eq_body]
  by_cases hf : y.form = .finite
  · obtain ⟨a, b, c, d, -⟩ := hy.fin hf
    rw [setBody_finite z y hf]
    exact round_canonical _ _ rfl a b (hp hf) hz c d
  · rw [setBody_nonfinite z y hf,
      round_nonfinite _ _ (show ({ z with acc := Exact, form := y.form, neg := !y.neg } : Dec).form ≠ .finite from hf)]
    exact canonical_nonfinite hz accOK_exact hf

theorem subTail_canonical' {z' y : Dec} (sy : Bool) (hz' : z'.Canonical) (hy : y.Canonical)
    (hpy : y.form = .finite → 1 ≤ z'.prec) : (subTail z' (opnd z' y sy) sy).Canonical := by
  cases sy
  · exact subTail_canonical _ _ hz'.1 hy hpy
  · show (subTail z' z' true).Canonical
    rw [← subTail_self]
    exact subTail_canonical _ _ hz'.1 hz' (fun h => (hz'.fin h).2.2.2.2.1)

theorem sub_canonical (z x y : Dec) (sx sy : Bool) (hz : z.Canonical) (hx : x.Canonical)
    (hy : y.Canonical) : (sub z x y sx sy).1.Canonical := by
  rw [sub_eq_subK]
  have hz' := prologue_canonical (P := umax x.prec y.prec) hz (umax_le hx.1 hy.1)
  obtain ⟨cX, pX, sX⟩ := opnd_facts sx hz' hx (prologue_pos_left y hx)
  obtain ⟨cY, pY, -⟩ := opnd_facts sy hz' hy (prologue_pos_right x hy)
  exact subK_canonical hz'.1
    (fun h1 h2 => ⟨pX h1, (cX.fin h1).2.2.2.2.2.2.1, (cY.fin h2).2.2.2.2.2.2.1⟩)
    (fun _ => sX) (fun _ => subTail_canonical' sy hz' hy (prologue_pos_right x hy))

theorem mul_canonical (z x y : Dec) (sx sy : Bool) (hz : z.Canonical) (hx : x.Canonical)
    (hy : y.Canonical) : (mul z x y sx sy).1.Canonical := by
  rw [mul_eq_mulK]
  have hz' := prologue_canonical (P := umax x.prec y.prec) hz (umax_le hx.1 hy.1)
  obtain ⟨cX, pX, -⟩ := opnd_facts sx hz' hx (prologue_pos_left y hx)
  obtain ⟨cY, pY, -⟩ := opnd_facts sy hz' hy (prologue_pos_right x hy)
  exact mulK_canonical hz'.1
    (fun h1 h2 => ⟨pX h1, (cX.fin h1).2.2.2.2.2.2.1, (cY.fin h2).2.2.2.2.2.2.1⟩)

theorem quo_canonical (z x y : Dec) (sx sy : Bool) (hz : z.Canonical) (hx : x.Canonical)
    (hy : y.Canonical) : (quo z x y sx sy).1.Canonical := by
  rw [quo_eq_quoK]
  have hz' := prologue_canonical (P := umax x.prec y.prec) hz (umax_le hx.1 hy.1)
  obtain ⟨cX, pX, -⟩ := opnd_facts sx hz' hx (prologue_pos_left y hx)
  obtain ⟨cY, pY, -⟩ := opnd_facts sy hz' hy (prologue_pos_right x hy)
  refine quoK_canonical hz'.1 (fun h1 h2 => ⟨pX h1, ?_, ?_⟩)
  · obtain ⟨a, b, -, -, -, -, g, -⟩ := cX.fin h1
    exact ⟨a, b, g⟩
  · obtain ⟨a, b, -, -, -, -, g, -⟩ := cY.fin h2
    exact ⟨a, b, g⟩

/-! ### FMA -/

/-- `z.Add(z0, u)` on distinct variables when `z0 = {W with prec := p}` holds an exact
    finite×finite product `W` (normalised, but with more digits than `p`). -/
theorem add_product_canonical (z W u : Dec) (p : Nat) (hz : z.prec ≤ MaxPrec) (hW : W.Canonical)
    (hp : p ≤ MaxPrec) (hu : u.Canonical) (hnz : W.form = .finite → u.form ≠ .zero) :
    (add z { W with prec := p } u false false).1.Canonical := by
  rw [add_eq_addK]
  simp only [opnd, Bool.false_eq_true, if_false]
  generalize hZ : ({ W with prec := p } : Dec) = Z0
  have hZf : Z0.form = W.form := by rw [← hZ]
  have hZm : Z0.mant = W.mant := by rw [← hZ]
  have hZp : Z0.prec = p := by rw [← hZ]
  have hZa : Z0.acc = W.acc := by rw [← hZ]
  have p2 : (prologue z (umax p u.prec)).prec ≤ MaxPrec :=
    prologue_prec_le hz (umax_le hp hu.1)
  refine addK_canonical p2 (fun h1 h2 => ⟨?_, ?_, (hu.fin h2).2.2.2.2.2.2.1⟩) (fun hc => ?_)
    (fun _ => set_canonical _ _ p2 hu)
  · exact prologue_prec_pos (Nat.le_trans (hu.fin h2).2.2.2.2.1 (le_umax_right _ _))
  · rw [hZm]; exact (hW.fin (hZf ▸ h1)).2.2.2.2.2.2.1
  · have hnf : Z0.form ≠ .finite := by
      rcases hc with hc | hc
      · rw [hc]; simp
      · intro hf; exact hnz (hZf ▸ hf) hc
    exact set_canonical _ _ p2 (canonical_nonfinite (hZp ▸ hp) (hZa ▸ hW.2.1) hnf)

theorem fmaK_canonical {z x y u : Dec} (su : Bool) {m : Dec × Outcome} (hz : z.Canonical)
    (hx : x.Canonical) (hy : y.Canonical) (hu : u.Canonical) (hsu : su = true → u = z)
    (hm : m.1.Canonical) : (fmaK z x y u su m).1.Canonical := by
  simp only [fmaK]
  split
  · exact hm
  · next hc =>
    split
    · next hff =>
      simp only [Bool.and_eq_true, beq_iff_eq] at hff hc
      refine canonical_obsEq (finish_norm su ?_ ?_ hsu).1.symm ?_
      · rfl
      · show (umul _ x y).mode = z.mode
        rw [umul_mode]; cases su <;> rfl
      · refine add_product_canonical z _ u z.prec hz.1 ?_ hz.1 hu (fun _ h0 => hc ⟨⟨h0, hff.1⟩, hff.2⟩)
        exact umul_canonical _ _ _ (hx.fin hff.1).2.2.2.2.2.2.1 (hy.fin hff.2).2.2.2.2.2.2.1
          (by show 1 ≤ MaxPrec; decide) (Nat.le_refl _)
    · split
      · exact canonical_nonfinite hz.1 accOK_exact (by simp)
      · split
        · refine canonical_obsEq (finish_norm su ?_ ?_ hsu).1.symm ?_
          · cases su <;> rfl
          · cases su <;> rfl
          · refine add_canonical _ _ u false false hz (canonical_nonfinite ?_ accOK_exact (by simp)) hu
            cases su <;> exact hz.1
        · refine canonical_obsEq (finish_norm su ?_ ?_ hsu).1.symm ?_
          · cases su <;> rfl
          · cases su <;> rfl
          · refine add_canonical _ _ u false false hz (canonical_nonfinite ?_ accOK_exact (by simp)) hu
            cases su <;> exact hz.1

/-- `FMA` preserves canonicity, for every combination of aliasing flags. -/
theorem fma_canonical (z x y u : Dec) (sx sy su : Bool) (hz : z.Canonical) (hx : x.Canonical)
    (hy : y.Canonical) (hu : u.Canonical) : (fma z x y u sx sy su).1.Canonical := by
  rw [fma_eq_fmaK]
  have hP : umax (umax x.prec y.prec) u.prec ≤ MaxPrec := umax_le (umax_le hx.1 hy.1) hu.1
  have hz' := prologue_canonical (P := umax (umax x.prec y.prec) u.prec) hz hP
  generalize prologue z (umax (umax x.prec y.prec) u.prec) = z' at *
  have cX : (opnd z' x sx).Canonical := by cases sx <;> assumption
  have cY : (opnd z' y sy).Canonical := by cases sy <;> assumption
  have cU : (opnd z' u su).Canonical := by cases su <;> assumption
  refine fmaK_canonical su hz' cX cY cU (fun h => by subst h; rfl) ?_
  exact mul_canonical z' _ _ sx sy hz' cX cY

theorem copy_canonical (z x : Dec) (same : Bool) (hz : z.Canonical) (hx : x.Canonical) :
    (copy z x same).Canonical := by
  cases same
  · by_cases hf : x.form = .finite
    · rw [copy_finite z x hf]; exact hx
    · have : copy z x false = { z with prec := x.prec, mode := x.mode, acc := x.acc, form := x.form, neg := x.neg } := by
        simp [copy, hf]
      rw [this]
      exact canonical_nonfinite hx.1 hx.2.1 hf
  · exact hz

theorem setMode_canonical (z : Dec) (m : Mode) (hz : z.Canonical) : (setMode z m).Canonical :=
  ⟨hz.1, accOK_exact, hz.2.2⟩

theorem setInf_canonical (z : Dec) (s : Bool) (hz : z.Canonical) : (setInf z s).Canonical :=
  canonical_nonfinite hz.1 accOK_exact (by simp [setInf])

theorem setPrec_canonical (z : Dec) (p : Nat) (hz : z.Canonical) : (setPrec z p).Canonical := by
  simp only [setPrec]
  by_cases hp0 : p = 0
  · simp only [hp0, beq_self_eq_true, if_true]
    split
    · exact canonical_nonfinite (Nat.zero_le _) (accOK_makeAcc _) (by simp)
    · next hf => exact canonical_nonfinite (Nat.zero_le _) accOK_exact (by simpa using hf)
  · simp only [beq_iff_eq, hp0, if_false]
    have hq1 : 1 ≤ (if p > MaxPrec then MaxPrec else p) := by
      split
      · decide
      · omega
    have hq2 : (if p > MaxPrec then MaxPrec else p) ≤ MaxPrec := by
      split
      · exact Nat.le_refl _
      · omega
    generalize (if p > MaxPrec then MaxPrec else p) = q at *
    by_cases hf : z.form = .finite
    · obtain ⟨a, b, c, d, e, f, g, h⟩ := hz.fin hf
      split
      · exact round_canonical _ _ hf a b hq1 hq2 c d
      · next hlt =>
        have hlt' : ¬ q < z.prec := hlt
        exact ⟨hq2, accOK_exact, fun _ => ⟨a, by rw [DW_eq]; exact b, c, d, hq1,
          by rw [DW_eq]; exact trailing_mono (show z.prec ≤ q by omega) h⟩⟩
    · split
      · rw [round_nonfinite _ _ (show ({ z with acc := Exact, prec := q } : Dec).form ≠ .finite from hf)]
        exact canonical_nonfinite hq2 accOK_exact hf
      · exact canonical_nonfinite hq2 accOK_exact hf

theorem setBits64_canonical (z : Dec) (n : Bool) (v : Nat) (e : Int) (hz : z.Canonical) :
    (setBits64 z n v e).Canonical := by
  simp only [setBits64]
  have hp : 1 ≤ (if (z.prec == 0) = true then { z with prec := DefaultPrec } else z).prec ∧
      (if (z.prec == 0) = true then { z with prec := DefaultPrec } else z).prec ≤ MaxPrec := by
    split
    · exact ⟨(by decide : 1 ≤ DefaultPrec), (by decide : DefaultPrec ≤ MaxPrec)⟩
    · next h => simp only [beq_iff_eq] at h; exact ⟨by omega, hz.1⟩
  generalize (if (z.prec == 0) = true then { z with prec := DefaultPrec } else z) = z1 at *
  split
  · exact canonical_nonfinite hp.2 accOK_exact (by simp)
  · next hv =>
    simp only [beq_iff_eq] at hv
    exact setNormAndRound_canonical _ _ _ _ (by omega) hp.1 hp.2

theorem setInt_canonical (z : Dec) (v : Int) (hz : z.Canonical) : (setInt z v).Canonical := by
  simp only [setInt]
  split
  · refine canonical_nonfinite ?_ accOK_exact (by simp)
    show (if (z.prec == 0) = true then DefaultPrec else z.prec) ≤ MaxPrec
    split
    · decide
    · exact hz.1
  · next hv =>
    simp only [beq_iff_eq] at hv
    refine setNormAndRound_canonical _ _ _ _ (by omega) ?_ ?_
    · split
      · exact Nat.le_trans (by decide : 1 ≤ DefaultPrec) (le_umax_right _ _)
      · next h => simp only [beq_iff_eq] at h; show 1 ≤ z.prec; omega
    · split
      · refine umax_le ?_ (by decide)
        split
        · exact Nat.le_refl _
        · omega
      · exact hz.1

theorem setBitsExp_canonical (z : Dec) (M r : Nat) (e : Int) (hz : z.prec ≤ MaxPrec)
    (hp : M ≠ 0 → 1 ≤ z.prec) : (setBitsExp z M r e).Canonical := by
  simp only [setBitsExp]
  split
  · exact canonical_nonfinite hz accOK_exact (by simp)
  · next hM =>
    simp only [beq_iff_eq] at hM
    exact setExpAndRound_canonical _ _ _ (nwords_pos (by omega)) (ndigits_dnorm (by omega)) (hp hM) hz

theorem setBitsExpFull_canonical (z : Dec) (ws : List Nat) (e : Int) (hz : z.Canonical) :
    (setBitsExpFull z ws e).Canonical := by
  simp only [setBitsExpFull]
  split
  · next h =>
    refine setBitsExp_canonical _ _ _ _ ?_ (fun _ => ?_)
    · refine umax_le ?_ (by decide)
      split
      · exact Nat.le_refl _
      · omega
    · exact Nat.le_trans (by decide : 1 ≤ DefaultPrec) (le_umax_right _ _)
  · next h =>
    refine setBitsExp_canonical _ _ _ _ hz.1 (fun hM => ?_)
    simp only [Bool.and_eq_true, beq_iff_eq, bne_iff_ne, ne_eq, not_and, Decidable.not_not] at h
    rcases Nat.eq_zero_or_pos z.prec with h0 | h0
    · exact absurd (h h0) hM
    · exact h0

theorem setMantExp_canonical (z m : Dec) (e : Int) (same : Bool) (hz : z.Canonical) (hm : m.Canonical) :
    (setMantExp z m e same).Canonical := by
  have hc := copy_canonical z m same hz hm
  simp only [setMantExp]
  split
  · exact hc
  · next hf =>
    have hf' : (copy z m same).form = .finite := by simpa using hf
    obtain ⟨a, b, -, -, p1, p2, -⟩ := hc.fin hf'
    exact setExpAndRound_canonical _ _ _ a b p1 p2

theorem mantExp_canonical (x m : Dec) (same : Bool) (hx : x.Canonical) (hm : m.Canonical) :
    (mantExp x m same).2.Canonical := by
  have hc := copy_canonical m x same hm hx
  simp only [mantExp]
  split
  · next hf =>
    have hf' : (copy m x same).form = .finite := by simpa using hf
    obtain ⟨a, b, -, -, p1, p2, -, h⟩ := hc.fin hf'
    exact ⟨p2, hc.2.1, fun _ => ⟨a, by rw [DW_eq]; exact b, (by decide : MinExp ≤ (0:Int)), (by decide : (0:Int) ≤ MaxExp), p1, by rw [DW_eq]; exact h⟩⟩
  · exact hc


theorem isqrtScaled_pos (M : Nat) (k : Int) (hM : 0 < M) (hex : (isqrtScaled M k).2 = false) :
    0 < (isqrtScaled M k).1 := by
  unfold isqrtScaled at hex ⊢
  split at hex
  · next hk =>
    rw [if_pos hk]
    simp only [bne_eq_false_iff_eq] at hex ⊢
    have : 0 < M * 10 ^ k.toNat := Nat.mul_pos hM (ten_pow_pos _)
    rcases Nat.eq_zero_or_pos (Nat.sqrt (M * 10 ^ k.toNat)) with h | h
    · rw [h] at hex; omega
    · exact h
  · next hk =>
    rw [if_neg hk]
    simp only [Bool.or_eq_false_iff, bne_eq_false_iff_eq] at hex ⊢
    obtain ⟨h1, h2⟩ := hex
    have hd := Nat.div_add_mod M (10 ^ (-k).toNat)
    rw [h2] at hd
    rcases Nat.eq_zero_or_pos (Nat.sqrt (M / 10 ^ (-k).toNat)) with h | h
    · rw [h] at h1
      rw [← h1] at hd
      omega
    · exact h

/-- `z.Set(s)` when `s` is longer than `z` can hold: always a rounding of `s`'s value. -/
theorem set_round_canonical (z s : Dec) (hz1 : 1 ≤ z.prec) (hz2 : z.prec ≤ MaxPrec)
    (hsf : s.form = .finite) (hlt : z.prec < s.prec) (hl : 1 ≤ s.len)
    (hnd : ndigits s.mant = s.len * 19) (he1 : MinExp ≤ s.exp) (he2 : s.exp ≤ MaxExp) :
    (set z s false).Canonical := by
  rw [set_eq_body, setBody_finite z s hsf]
  simp only
  rw [if_neg (by simp; omega), if_pos hlt]
  exact round_canonical _ _ rfl hl hnd hz1 hz2 he1 he2

theorem sqrt_canonical (z x : Dec) (same : Bool) (hz : z.Canonical)
    (hx : x.Canonical) : (sqrt z x same).1.Canonical := by
  have hz1 : (prologue z x.prec).Canonical := prologue_canonical hz hx.1
  have hX : (opnd (prologue z x.prec) x same).Canonical := by
    cases same
    · exact hx
    · exact hz1
  have hp : (opnd (prologue z x.prec) x same).form = .finite → 1 ≤ (prologue z x.prec).prec := by
    cases same
    · intro h; exact prologue_prec_pos (hx.fin h).2.2.2.2.1
    · intro h; exact (hz1.fin h).2.2.2.2.1
  have hdef : sqrt z x same =
      (let z := prologue z x.prec
       let x := opnd z x same
       if x.form != .zero && x.neg then (z, .errNaN)
       else if x.form != .finite then ({ z with acc := Exact, form := x.form, neg := x.neg }, .ok)
       else
        let cand := sqrtCandidate x.mant x.len (goMod2 x.exp) (z.prec + 1)
        let sp : Nat × Nat := if cand.2.2 then (cand.1 * 10 + 5, z.prec + 1 + 1) else (cand.1, z.prec + 1)
        let s : Dec := { form := .finite, neg := false, mant := sp.1 * 10 ^ dnormShift sp.1 (nwords sp.1),
                         len := nwords sp.1, exp := cand.2.1, prec := sp.2, mode := .ToZero, acc := Exact }
        let z1 := set { z with prec := z.prec, mode := z.mode } s false
        (setMantExp z1 z1 (goDiv2 x.exp) true, .ok)) := rfl
  rw [hdef]
  clear hdef
  simp only
  generalize prologue z x.prec = z1 at *
  generalize opnd z1 x same = X at *
  split
  · exact hz1
  · split
    · next hnf => exact canonical_nonfinite hz1.1 accOK_exact (by simpa using hnf)
    · next hnf =>
      have hf : X.form = .finite := by simpa using hnf
      have hMpos : 0 < X.mant := (hX.fin hf).2.2.2.2.2.2.1
      refine setMantExp_canonical _ _ _ true ?_ ?_ <;>
      · refine set_round_canonical _ _ (hp hf) hz1.1 rfl ?_ ?_ ?_ ?_ ?_
        · show z1.prec < _
          split <;> simp only <;> omega
        · refine nwords_pos ?_
          split
          · simp only; omega
          · next hc =>
            simp only
            simp only [Bool.not_eq_true] at hc
            exact isqrtScaled_pos _ _ hMpos hc
        · refine ndigits_dnorm ?_
          split
          · simp only; omega
          · next hc =>
            simp only
            simp only [Bool.not_eq_true] at hc
            exact isqrtScaled_pos _ _ hMpos hc
        · show MinExp ≤ (sqrtCandidate X.mant X.len (goMod2 X.exp) (z1.prec + 1)).2.1
          simp only [sqrtCandidate]
          split <;> decide
        · show (sqrtCandidate X.mant X.len (goMod2 X.exp) (z1.prec + 1)).2.1 ≤ MaxExp
          simp only [sqrtCandidate]
          split <;> decide


/-! ### Context wrappers -/

theorem ctx_apply_canonical (c : Ctx) (z : Dec) (hz : z.Canonical) : (c.apply z).Canonical := by
  simp only [Ctx.apply]
  split
  · exact setPrec_canonical _ _ (setMode_canonical _ _ hz)
  · exact setMode_canonical _ _ hz

theorem guarded_fst (c : Ctx) (z : Dec) (op : Dec → Dec × Outcome) :
    (c.guarded z op).1 = if c.err then z else (op (c.apply z)).1 := by
  simp only [Ctx.guarded]
  split
  · rfl
  · split <;> simp_all

theorem guarded_canonical (c : Ctx) (z : Dec) (op : Dec → Dec × Outcome) (hz : z.Canonical)
    (hop : ∀ w : Dec, w.Canonical → (op w).1.Canonical) : (c.guarded z op).1.Canonical := by
  rw [guarded_fst]
  split
  · exact hz
  · exact hop _ (ctx_apply_canonical c z hz)

theorem plain_canonical (c : Ctx) (z : Dec) (op : Dec → Dec) (hz : z.Canonical)
    (hop : ∀ w : Dec, w.Canonical → (op w).Canonical) : (c.plain z op).Canonical := by
  simp only [Ctx.plain]
  split
  · exact hz
  · exact hop _ (ctx_apply_canonical c z hz)

/-! ### Gob decoding -/

theorem ofBE_foldl_lt (bs : List Nat) (hb : ∀ b ∈ bs, b < 256) (acc : Nat) :
    bs.foldl (fun acc b => acc * 256 + b) acc < (acc + 1) * 256 ^ bs.length := by
  induction bs generalizing acc with
  | nil => simp
  | cons b bs ih =>
    have hb0 : b < 256 := hb b (List.mem_cons_self)
    have := ih (fun b' h => hb b' (List.mem_cons_of_mem _ h)) (acc * 256 + b)
    simp only [List.foldl_cons, List.length_cons]
    refine Nat.lt_of_lt_of_le this ?_
    rw [Nat.pow_succ, Nat.mul_comm (256 ^ bs.length) 256, ← Nat.mul_assoc]
    exact Nat.mul_le_mul_right _ (by omega)

theorem ofBE_lt (bs : List Nat) (hb : ∀ b ∈ bs, b < 256) : ofBE bs < 256 ^ bs.length := by
  have := ofBE_foldl_lt bs hb 0
  simpa [ofBE] using this

theorem ofBE4_lt (bs : List Nat) (hb : ∀ b ∈ bs, b < 256) (n : Nat) :
    ofBE ((bs.drop n).take 4) < 4294967296 := by
  have h1 : ∀ b ∈ (bs.drop n).take 4, b < 256 := fun b h =>
    hb b (List.mem_of_mem_drop (List.mem_of_mem_take h))
  have h2 := ofBE_lt _ h1
  have h3 : ((bs.drop n).take 4).length ≤ 4 := by simp [List.length_take]
  exact Nat.lt_of_lt_of_le h2 (Nat.pow_le_pow_right (by omega) h3)

theorem natOf_lt (ws : List Nat) (h : ∀ w ∈ ws, w < B) : natOf ws < B ^ ws.length := by
  induction ws with
  | nil => simp [natOf]
  | cons w ws ih =>
    have hw := h w List.mem_cons_self
    have := ih (fun w' h' => h w' (List.mem_cons_of_mem _ h'))
    simp only [natOf, List.length_cons, Nat.pow_succ]
    have hB := B_pos
    calc w + B * natOf ws < B + B * natOf ws := by omega
      _ = B * (natOf ws + 1) := by rw [Nat.mul_add, Nat.mul_one, Nat.add_comm]
      _ ≤ B * B ^ ws.length := Nat.mul_le_mul_left _ this
      _ = B ^ ws.length * B := Nat.mul_comm _ _

theorem natOf_ge (ws : List Nat) (hne : ws ≠ []) (T : Nat) (h : T ≤ ws.getLast?.getD 0) :
    T * B ^ (ws.length - 1) ≤ natOf ws := by
  induction ws with
  | nil => exact absurd rfl hne
  | cons w ws ih =>
    cases ws with
    | nil => simpa [natOf] using h
    | cons w2 rest =>
      have h' : T ≤ (w2 :: rest).getLast?.getD 0 := by simpa [List.getLast?_cons_cons] using h
      have := ih (by simp) h'
      simp only [natOf, List.length_cons] at this ⊢
      have e : rest.length + 1 + 1 - 1 = (rest.length + 1 - 1) + 1 := by omega
      rw [e, Nat.pow_succ, ← Nat.mul_assoc]
      calc T * B ^ (rest.length + 1 - 1) * B ≤ (w2 + B * natOf rest) * B := Nat.mul_le_mul_right _ this
        _ = B * (w2 + B * natOf rest) := Nat.mul_comm _ _
        _ ≤ w + B * (w2 + B * natOf rest) := Nat.le_add_left _ _

theorem pow_trailingZeros_dvd (M : Nat) : 10 ^ trailingZeros M ∣ M := by
  induction M using Nat.strongRecOn with
  | _ M ih =>
    rw [trailingZeros]
    by_cases h0 : M = 0
    · simp [h0]
    · by_cases h1 : M % 10 = 0
      · simp only [h0, h1, dite_false, if_true]
        have := ih (M / 10) (Nat.div_lt_self (by omega) (by omega))
        rw [Nat.pow_succ]
        have hM : M = M / 10 * 10 := by omega
        rw [hM]
        simp only [Nat.mul_div_cancel _ (by omega : 0 < 10)]
        exact Nat.mul_dvd_mul this (Nat.dvd_refl 10)
      · simp [h0, h1]


theorem gob_fin_facts (ws : List Nat) (prec : Nat)
    (h1 : ¬ ((ws.length == 0 || decide (ws.getLast?.getD 0 < B / 10)) = true))
    (h2 : ¬ (ws.any (· ≥ B) = true))
    (h3 : ¬ (ws.length * DW - trailingZeros (natOf ws) > prec)) :
    1 ≤ ws.length ∧ ndigits (natOf ws) = ws.length * DW ∧ 1 ≤ prec ∧
      (ws.length * DW ≤ prec ∨ natOf ws % 10 ^ (ws.length * DW - prec) = 0) := by
  simp only [Bool.or_eq_true, beq_iff_eq, decide_eq_true_eq, not_or, Nat.not_lt] at h1
  obtain ⟨hlen, htop⟩ := h1
  have hne : ws ≠ [] := by intro h; rw [h] at hlen; exact hlen rfl
  have hall : ∀ w ∈ ws, w < B := by
    intro w hw
    rcases Nat.lt_or_ge w B with h | h
    · exact h
    · exact absurd (List.any_eq_true.mpr ⟨w, hw, by simpa using h⟩) h2
  have hlt := natOf_lt ws hall
  have hge := natOf_ge ws hne _ htop
  have hB10 : B / 10 = 10 ^ 18 := by decide
  have hl1 : 1 ≤ ws.length := by omega
  rw [hB10, B_pow, ← Nat.pow_add] at hge
  rw [B_pow] at hlt
  have e1 : 18 + 19 * (ws.length - 1) = 19 * ws.length - 1 := by omega
  rw [e1] at hge
  have hpos : 0 < natOf ws := Nat.lt_of_lt_of_le (ten_pow_pos _) hge
  have hnd : ndigits (natOf ws) = ws.length * DW := by
    rw [DW_eq, Nat.mul_comm]
    exact ndigits_unique hge hlt hpos
  have hdvd := pow_trailingZeros_dvd (natOf ws)
  have htz : trailingZeros (natOf ws) < ws.length * DW := by
    have hle : 10 ^ trailingZeros (natOf ws) ≤ natOf ws := Nat.le_of_dvd hpos hdvd
    have : 10 ^ trailingZeros (natOf ws) < 10 ^ (19 * ws.length) := Nat.lt_of_le_of_lt hle hlt
    have := (Nat.pow_lt_pow_iff_right (by omega : 1 < 10)).mp this
    rw [DW_eq]; omega
  refine ⟨hl1, hnd, by omega, ?_⟩
  by_cases hp : ws.length * DW ≤ prec
  · exact Or.inl hp
  · refine Or.inr (Nat.mod_eq_zero_of_dvd (Nat.dvd_trans (Nat.pow_dvd_pow 10 ?_) hdvd))
    omega


theorem gob_exp_range (eU : Nat) (h : eU < 4294967296) :
    MinExp ≤ (if eU ≥ 2147483648 then (eU : Int) - 4294967296 else (eU : Int)) ∧
      (if eU ≥ 2147483648 then (eU : Int) - 4294967296 else (eU : Int)) ≤ MaxExp := by
  rw [MinExp_eq, MaxExp_eq]
  split <;> omega

theorem gobDecode_canonical (z : Dec) (buf : List Nat) (d : Dec) (hb : ∀ b ∈ buf, b < 256)
    (h : gobDecode z buf = some d) : d.Canonical := by
  unfold gobDecode at h
  split at h
  · cases h; exact ⟨by decide, Or.inr (Or.inl rfl), fun hf => by cases hf⟩
  split at h
  · cases h
  split at h
  · cases h
  simp only at h
  split at h
  · next mode form hm hfo =>
    split at h
    · cases h
    next hacc =>
    have hprec : ofBE (List.take 4 (List.drop 2 buf)) ≤ MaxPrec := by
      have := ofBE4_lt buf hb 2
      rw [MaxPrec_eq]; omega
    have haccOK : accOK (((buf.getD 1 0 / 8 % 4 : Nat) : Int) - 1) := by
      show (((buf.getD 1 0 / 8 % 4 : Nat) : Int) - 1 = (-1 : Int) ∨ ((buf.getD 1 0 / 8 % 4 : Nat) : Int) - 1 = (0 : Int) ∨
        ((buf.getD 1 0 / 8 % 4 : Nat) : Int) - 1 = (1 : Int))
      omega
    generalize ofBE (List.take 4 (List.drop 2 buf)) = prec at *
    generalize (((buf.getD 1 0 / 8 % 4 : Nat) : Int) - 1) = acc at *
    generalize (buf.getD 1 0 % 2 == 1) = neg at *
    -- the decoded value before the receiver's precision is re-applied
    have key : ∀ D : Dec, D.Canonical →
        (if (z.prec != 0) = true then some (setPrec { D with mode := z.mode } z.prec) else some D) = some d →
        d.Canonical := by
      intro D hD hd
      split at hd
      · cases hd; exact setPrec_canonical _ _ ⟨hD.1, hD.2.1, hD.2.2⟩
      · cases hd; exact hD
    by_cases hff : form = .finite
    · subst hff
      simp only [beq_self_eq_true, if_true] at h
      by_cases c0 : buf.length < 10
      · simp [c0] at h
      rw [if_neg c0] at h
      by_cases c1 : ((setBytesWords (List.drop 10 buf)).length == 0 ||
          decide ((setBytesWords (List.drop 10 buf)).getLast?.getD 0 < B / 10)) = true
      · rw [if_pos c1] at h; simp at h
      rw [if_neg c1] at h
      by_cases c2 : ((setBytesWords (List.drop 10 buf)).any fun x => decide (x ≥ B)) = true
      · rw [if_pos c2] at h; simp at h
      rw [if_neg c2] at h
      by_cases c3 : (setBytesWords (List.drop 10 buf)).length * DW -
          trailingZeros (natOf (setBytesWords (List.drop 10 buf))) > prec
      · rw [if_pos c3] at h; simp at h
      rw [if_neg c3] at h
      simp only at h
      obtain ⟨g1, g2, g3, g4⟩ := gob_fin_facts _ prec c1 c2 c3
      have heU := ofBE4_lt buf hb 6
      refine key _ ?_ h
      refine ⟨hprec, haccOK, fun _ => ⟨g1, g2, ?_, ?_, g3, g4⟩⟩
      · exact (gob_exp_range _ heU).1
      · exact (gob_exp_range _ heU).2
    · have hbeq : (form == Form.finite) = false := by simpa using hff
      simp only [hbeq, Bool.false_eq_true, if_false] at h
      exact key _ (canonical_nonfinite hprec haccOK hff) h
  · cases h


/-- Inputs that are not Decimals must be well-formed: Gob payloads are byte strings. -/
def Op.Valid : Op → Prop
  | .gobDecode _ bytes => ∀ b ∈ bytes, b < 256
  | _ => True

def World.Canonical (w : World) : Prop := ∀ d ∈ w.vars, d.Canonical

theorem default_canonical : ({} : Dec).Canonical :=
  ⟨by decide, Or.inr (Or.inl rfl), fun h => by cases h⟩

theorem World.get_canonical {w : World} (hw : w.Canonical) (i : Nat) : (w.get i).Canonical := by
  unfold World.get
  rw [List.getD_eq_getElem?_getD]
  cases h : w.vars[i]? with
  | none => exact default_canonical
  | some d => exact hw d (List.mem_of_getElem? h)

theorem World.put_canonical {w : World} (hw : w.Canonical) (i : Nat) {d : Dec} (hd : d.Canonical) :
    (w.put i d).Canonical := by
  intro a ha
  rcases List.mem_or_eq_of_mem_set ha with h | h
  · exact hw a h
  · exact h ▸ hd

theorem World.put_ctx_canonical {w : World} (c : Ctx) (hw : w.Canonical) :
    World.Canonical { w with ctx := c } := hw

theorem get_alias {w : World} {x z : Nat} (h : (x == z) = true) : w.get x = w.get z := by
  rw [beq_iff_eq] at h; rw [h]

theorem step_canonical (w : World) (op : Op) (hw : w.Canonical) (hv : op.Valid) :
    (step w op).1.Canonical := by
  have G := fun i => World.get_canonical hw i
  cases op with
  | add z x y => exact World.put_canonical hw _ (add_canonical _ _ _ _ _ (G _) (G _) (G _))
  | sub z x y => exact World.put_canonical hw _ (sub_canonical _ _ _ _ _ (G _) (G _) (G _))
  | mul z x y => exact World.put_canonical hw _ (mul_canonical _ _ _ _ _ (G _) (G _) (G _))
  | quo z x y => exact World.put_canonical hw _ (quo_canonical _ _ _ _ _ (G _) (G _) (G _))
  | fma z x y u => exact World.put_canonical hw _ (fma_canonical _ _ _ _ _ _ _ (G _) (G _) (G _) (G _))
  | set z x => exact World.put_canonical hw _ (set_canonical' _ _ _ (G _) (G _))
  | neg z x => exact World.put_canonical hw _ (neg_canonical _ _ _ (G _) (G _))
  | abs z x => exact World.put_canonical hw _ (abs_canonical _ _ _ (G _) (G _))
  | copy z x => exact World.put_canonical hw _ (copy_canonical _ _ _ (G _) (G _))
  | sqrt z x => exact World.put_canonical hw _ (sqrt_canonical _ _ _ (G _) (G _))
  | setPrec z p => exact World.put_canonical hw _ (setPrec_canonical _ _ (G _))
  | setMode z m => exact World.put_canonical hw _ (setMode_canonical _ _ (G _))
  | setInf z s => exact World.put_canonical hw _ (setInf_canonical _ _ (G _))
  | setBits64 z n v e => exact World.put_canonical hw _ (setBits64_canonical _ _ _ _ (G _))
  | setInt z v => exact World.put_canonical hw _ (setInt_canonical _ _ (G _))
  | setBitsExp z ws e => exact World.put_canonical hw _ (setBitsExpFull_canonical _ _ _ (G _))
  | setMantExp z m e => exact World.put_canonical hw _ (setMantExp_canonical _ _ _ _ (G _) (G _))
  | mantExp x m => exact World.put_canonical hw _ (mantExp_canonical _ _ _ (G _) (G _))
  | gobDecode z bs =>
    simp only [step]
    split
    · next d hd => exact World.put_canonical hw _ (gobDecode_canonical _ _ _ hv hd)
    · exact hw
  | cSetPrec p => exact hw
  | cSetMode m => exact hw
  | cErr => exact hw
  | cAdd z x y =>
    exact World.put_canonical hw _ (guarded_canonical _ _ _ (G _) (fun w' hw' =>
      add_canonical _ _ _ _ _ hw' (G _) (G _)))
  | cSub z x y =>
    exact World.put_canonical hw _ (guarded_canonical _ _ _ (G _) (fun w' hw' =>
      sub_canonical _ _ _ _ _ hw' (G _) (G _)))
  | cMul z x y =>
    exact World.put_canonical hw _ (guarded_canonical _ _ _ (G _) (fun w' hw' =>
      mul_canonical _ _ _ _ _ hw' (G _) (G _)))
  | cQuo z x y =>
    exact World.put_canonical hw _ (guarded_canonical _ _ _ (G _) (fun w' hw' =>
      quo_canonical _ _ _ _ _ hw' (G _) (G _)))
  | cFma z x y u =>
    exact World.put_canonical hw _ (guarded_canonical _ _ _ (G _) (fun w' hw' =>
      fma_canonical _ _ _ _ _ _ _ hw' (G _) (G _) (G _)))
  | cSqrt z x =>
    exact World.put_canonical hw _ (guarded_canonical _ _ _ (G _) (fun w' hw' =>
      sqrt_canonical _ _ _ hw' (G _)))
  | cSet z x =>
    refine World.put_canonical hw _ ?_
    split
    · exact G _
    · exact ctx_apply_canonical _ _ (copy_canonical _ _ _ (G _) (G _))
  | cNeg z x =>
    exact World.put_canonical hw _ (plain_canonical _ _ _ (G _) (fun w' hw' => neg_canonical _ _ _ hw' (G _)))
  | cAbs z x =>
    exact World.put_canonical hw _ (plain_canonical _ _ _ (G _) (fun w' hw' => abs_canonical _ _ _ hw' (G _)))

/-- C08: every Decimal reachable from canonical variables by any program is canonical. -/
theorem reachable_canonical (ops : List Op) : ∀ (w : World), w.Canonical → (∀ op ∈ ops, op.Valid) →
    (run w ops).Canonical := by
  induction ops with
  | nil => intro w hw _; exact hw
  | cons op ops ih =>
    intro w hw hv
    have hs := step_canonical w op hw (hv op List.mem_cons_self)
    simp only [run]
    split
    · next w' m b heq => rw [heq] at hs; exact hs
    · next w' o b hne heq =>
      rw [heq] at hs
      exact ih w' hs (fun op' h => hv op' (List.mem_cons_of_mem _ h))

/-- Canonical representations are unique up to trailing zero words: two finite Decimals of the
    same sign that compare equal have the same exponent and the same digits. -/
theorem canonical_unique (x y : Dec) (hx : x.form = .finite) (hy : y.form = .finite)
    (hn : x.neg = y.neg) (hc : cmp x y = 0) :
    x.exp = y.exp ∧ x.mant * B ^ (y.len - x.len) = y.mant * B ^ (x.len - y.len) := by
  have ho : ord x = ord y := by simp [ord, hx, hy, hn]
  have hu : ucmp x y = 0 := by
    rw [cmp_def, ho, if_neg (by omega), if_neg (by omega)] at hc
    have h2 : ord y = -1 ∨ ord y = 1 := by
      unfold ord; rw [hy]; cases y.neg <;> simp
    rcases h2 with h | h
    · rw [if_pos h] at hc
      have := ucmp_antisymm x y; omega
    · rw [if_neg (by omega), if_pos h] at hc; exact hc
  rw [ucmp_def] at hu
  by_cases h1 : x.exp < y.exp
  · rw [if_pos h1] at hu; omega
  · rw [if_neg h1] at hu
    by_cases h2 : x.exp > y.exp
    · rw [if_pos h2] at hu; omega
    · rw [if_neg h2] at hu
      refine ⟨by omega, ?_⟩
      unfold cmp3 at hu
      split at hu
      · omega
      · split at hu
        · omega
        · omega

end Decimal
