/-
  Rejected inputs of the non-decimal grammar (each lemma covers every string of its shape), on top of
  Proofs/ScanBase.lean / ScanBase2.lean.
-/
import Proofs.ScanBase2

namespace Decimal

/-- a literal without exponent part. -/
def LitB.mantOnly (l : LitB) : LitB := { l with ex := none }

theorem LitB.body_noExp {l : LitB} (h : l.ex = none) : l.body = renderPfx l.pfx ++ renderMantU l.ip l.fp := by
  unfold LitB.body; rw [h]; simp [renderExpB]

/-- `scanMant` on the mantissa of a literal without exponent part, followed by anything the digit loop
    stops at. -/
theorem scanMant_body (l : LitB) (base : Nat) (hwf : l.WF base) (hex : l.ex = none) (rest : List Nat)
    (hend : MantEndB l.b (decide (base = 0)) l.fp.isSome rest)
    (hnp : base = 0 → l.pfx = none → NoPrefixLetterHead rest) :
    scanMant base (l.body ++ rest) = .ok (l.coef, l.b, fcountU l.ip l.fp, rest) := by
  rw [LitB.body_noExp hex, List.append_assoc]
  exact scanMant_litB base l.b l.pfx l.ip l.fp rest hwf.baseOk hwf.ip hwf.fp hwf.digits
    (fun h => ⟨(hwf.sepBase h).1, (hwf.sepBase h).2.1⟩) hwf.sepIp hwf.sepFp hend hnp

theorem LitB.WF.sign_head {l : LitB} {base : Nat} (hwf : l.WF base) (rest : List Nat) :
    l.body ++ rest ≠ [] ∧ NoSignHead (l.body ++ rest) := by
  obtain ⟨c, t, h, _, _, h3, h4⟩ := hwf.body_head rest
  rw [h]; exact ⟨by simp, h4, h3⟩

theorem parse_litB_rest (z : Dec) (l : LitB) (base : Nat) (hwf : l.WF base) (rest : List Nat) :
    parse z (l.render ++ rest) base = finishScan (scanBody z l.sign (l.body ++ rest) base) := by
  rw [LitB.render_eq, List.append_assoc,
    parse_sign_body z l.neg _ base (fun _ => hwf.sign_head rest)
      (by have := hwf.not_inf rest; rwa [LitB.render_eq, List.append_assoc] at this)]
  rfl

/-! ### an exponent marker without digits: `"0x1p"`, `"0b1p+"`, `"1.5p-"`, `"0x1px"` -/

theorem marker_stops {b m : Nat} (hb : b = 2 ∨ b = 8 ∨ b = 10 ∨ b = 16)
    (hm : m = 112 ∨ m = 80 ∨ ((m = 101 ∨ m = 69) ∧ b ≠ 16)) :
    digitVal m ≥ b ∧ m ≠ 95 ∧ m ≠ 46 ∧ m ≠ 98 ∧ m ≠ 66 ∧ m ≠ 111 ∧ m ≠ 79 ∧ m ≠ 120 ∧ m ≠ 88 := by
  rcases hm with rfl | rfl | ⟨rfl | rfl, h16⟩
  · refine ⟨by rcases hb with h | h | h | h <;> rw [h] <;> decide, ?_⟩; omega
  · refine ⟨by rcases hb with h | h | h | h <;> rw [h] <;> decide, ?_⟩; omega
  · refine ⟨by rcases hb with h | h | h | h <;> first | exact absurd h h16 | (rw [h]; decide), ?_⟩; omega
  · refine ⟨by rcases hb with h | h | h | h <;> first | exact absurd h h16 | (rw [h]; decide), ?_⟩; omega

/-- the mantissa of a literal followed by an exponent marker and anything. -/
theorem scanMant_then_marker (l : LitB) (base : Nat) (hwf : l.WF base) (hex : l.ex = none) (m : Nat)
    (hm : m = 112 ∨ m = 80 ∨ ((m = 101 ∨ m = 69) ∧ l.b ≠ 16)) (t : List Nat) :
    scanMant base (l.body ++ m :: t) = .ok (l.coef, l.b, fcountU l.ip l.fp, m :: t) := by
  obtain ⟨h1, h2, h3, h4⟩ := marker_stops hwf.b_mem hm
  exact scanMant_body l base hwf hex (m :: t) ⟨h1, fun h => absurd h h2, fun h => absurd h h3⟩
    (fun _ _ => h4)

/-- **No exponent digits**: mantissa, marker (`p P`, or `e E` after a non-hexadecimal mantissa),
    optional sign, then the end or a byte that is neither a decimal digit nor a recognised `_`. -/
theorem parse_exp_noDigitsB (z : Dec) (l : LitB) (base : Nat) (hwf : l.WF base) (hex : l.ex = none) (m : Nat)
    (hm : m = 112 ∨ m = 80 ∨ ((m = 101 ∨ m = 69) ∧ l.b ≠ 16)) (esg : Option Bool) (rest : List Nat)
    (hend : ExpEnd (decide (base = 0)) rest) (hsg : esg = none → NoSignHead rest) :
    parse z (l.render ++ m :: (signBytes esg ++ rest)) base = .error .noDigits := by
  obtain ⟨eb, hmb, _⟩ := markerBase_of_ok hm
  rw [parse_litB_rest z l base hwf,
    scanBody_exp_err z _ _ base .noDigits _ _ _ _ (scanMant_then_marker l base hwf hex m hm _)]
  · rfl
  · rw [scanExponent_marker _ m eb hmb esg rest hsg, scanExpTail_noDigits _ _ _ _ hend]

/-- **Exponent beyond int64** (any marker, any base). -/
theorem parse_expRangeB (z : Dec) (l : LitB) (base : Nat) (hwf : l.WF base) (hex : l.ex = none) (m : Nat)
    (hm : m = 112 ∨ m = 80 ∨ ((m = 101 ∨ m = 69) ∧ l.b ≠ 16)) (esg : Option Bool) (ds : UDigits) (rest : List Nat)
    (hd : IsDigitsB 10 ds.bytes) (hh : ds.HeadPlain) (hsep : base ≠ 0 → ds.Plain)
    (hend : ExpEnd (decide (base = 0)) rest)
    (hbig : if signVal esg then valB 10 ds.bytes > 9223372036854775808 else valB 10 ds.bytes > 9223372036854775807) :
    parse z (l.render ++ m :: (signBytes esg ++ (renderU ds ++ rest))) base = .error .expRange := by
  obtain ⟨eb, hmb, _⟩ := markerBase_of_ok hm
  have hdne : ds ≠ [] := by
    rintro rfl
    simp [valB, UDigits.bytes] at hbig
  rw [parse_litB_rest z l base hwf,
    scanBody_exp_err z _ _ base .expRange _ _ _ _ (scanMant_then_marker l base hwf hex m hm _)]
  · rfl
  · rw [scanExponent_marker _ m eb hmb esg _ (fun _ => NoSignHead_renderU ds rest hd hdne hh),
      scanExpTail_U _ _ _ ds rest hd hdne hh (fun h => hsep (by simpa using h)) hend]
    cases hs : signVal esg <;> simp only [hs] at hbig <;> simp at hbig <;> simp [hbig]

/-- **A separator after the exponent digits** (base 0): `"0x1p5_"`, `"1e5_"`, `"0b1p-3_x"`. -/
theorem parse_exp_trailing_sep (z : Dec) (l : LitB) (hwf : l.WF 0) (hex : l.ex = none) (m : Nat)
    (hm : m = 112 ∨ m = 80 ∨ ((m = 101 ∨ m = 69) ∧ l.b ≠ 16)) (esg : Option Bool) (ds : UDigits) (rest : List Nat)
    (hd : IsDigitsB 10 ds.bytes) (hne : ds ≠ []) (hh : ds.HeadPlain)
    (hend : ExpEnd true rest)
    (hrange : if signVal esg then valB 10 ds.bytes ≤ 9223372036854775808 else valB 10 ds.bytes ≤ 9223372036854775807) :
    parse z (l.render ++ m :: (signBytes esg ++ (renderU ds ++ 95 :: rest))) 0 = .error .invalSep := by
  obtain ⟨eb, hmb, _⟩ := markerBase_of_ok hm
  rw [parse_litB_rest z l 0 hwf,
    scanBody_exp_err z _ _ 0 .invalSep _ _ _ _ (scanMant_then_marker l 0 hwf hex m hm _)]
  · rfl
  · have hns : NoSignHead (renderU ds ++ 95 :: rest) := NoSignHead_renderU ds _ hd hne hh
    simp only [decide_true]
    rw [scanExponent_marker _ m eb hmb esg _ (fun _ => hns)]
    unfold scanExpTail
    rw [scanExpDigits_U true ds hd (fun h => by cases h) _ 0 false 46 false (Or.inr hh),
      scanExpDigits_us, scanExpDigits_end true rest _ hend]
    have he : ds.isEmpty = false := by cases ds <;> simp_all
    cases hs : signVal esg <;> simp only [hs] at hrange <;> simp at hrange <;> simp [he, hne] <;> omega

/-- **A separator directly after the marker or the exponent sign** (base 0): `"0x1p_5"`, `"1e+_5"`:
    whatever follows. -/
theorem parse_exp_leading_sep (z : Dec) (l : LitB) (hwf : l.WF 0) (hex : l.ex = none) (m : Nat)
    (hm : m = 112 ∨ m = 80 ∨ ((m = 101 ∨ m = 69) ∧ l.b ≠ 16)) (esg : Option Bool) (rest : List Nat) :
    ∃ e, parse z (l.render ++ m :: (signBytes esg ++ 95 :: rest)) 0 = .error e ∧
      (e = .noDigits ∨ e = .expRange ∨ e = .invalSep) := by
  obtain ⟨eb, hmb, _⟩ := markerBase_of_ok hm
  have key : ∀ s v has prev, (scanExpDigits true s (v, has, prev, true)).1.2.2.2 = true := by
    intro s
    induction s with
    | nil => intro v has prev; rfl
    | cons ch r ih =>
      intro v has prev
      rw [scanExpDigits]
      split
      · exact ih _ _ _
      · split
        · simpa using ih v has 95
        · rfl
  have hexp : ∃ e, scanExponent true (m :: (signBytes esg ++ 95 :: rest)) = .error e ∧
      (e = .noDigits ∨ e = .expRange ∨ e = .invalSep) := by
    rw [scanExponent_marker _ m eb hmb esg _ (fun _ => by simp [NoSignHead])]
    unfold scanExpTail
    rw [scanExpDigits_us]
    have hk := key rest 0 false 95
    simp only [show ((false : Bool) || (46 : Nat) != 48) = true by decide]
    generalize scanExpDigits true rest (0, false, 95, true) = r at hk
    obtain ⟨⟨v, has, prev, inval⟩, rest'⟩ := r
    simp only at hk
    subst hk
    simp only []
    split
    · exact ⟨_, rfl, Or.inl rfl⟩
    · split
      · exact ⟨_, rfl, Or.inr (Or.inl rfl)⟩
      · exact ⟨_, by simp, Or.inr (Or.inr rfl)⟩
  obtain ⟨e, he, hor⟩ := hexp
  refine ⟨e, ?_, hor⟩
  rw [parse_litB_rest z l 0 hwf,
    scanBody_exp_err z _ _ 0 e _ _ _ _ (scanMant_then_marker l 0 hwf hex m hm _)]
  · rfl
  · simpa using he

/-! ### no mantissa digit: `"0x"`, `"0b."`, `"0o9"`, `"+0Xg"`, base 2 `"2"`, base 16 `"g"` -/

theorem scanMantCore_noDigits (b : Nat) (sep : Bool) (dot : Bool) (rest : List Nat) (pv0 : Nat)
    (hend : MantEndB b sep dot rest) :
    scanMantCore b sep ((if dot then [46] else []) ++ rest) { prev := pv0 } = .error .noDigits := by
  unfold scanMantCore
  cases dot with
  | true =>
    simp only [if_true, List.cons_append, List.nil_append]
    rw [scanDigits_dot _ _ _ _ rfl, scanDigits_endB _ _ _ _ (by simpa using hend)]
    rfl
  | false =>
    simp only [Bool.false_eq_true, if_false, List.nil_append]
    rw [scanDigits_endB _ _ _ _ (by simpa using hend)]
    rfl

theorem scanMant_noDigits (base b : Nat) (pfx : Option Nat) (dot : Bool) (rest : List Nat)
    (hbase : (base = b ∧ pfx = none ∧ base ≠ 0) ∨ (base = 0 ∧ PfxOk pfx b))
    (hend : MantEndB b (decide (base = 0)) dot rest) :
    scanMant base (renderPfx pfx ++ ((if dot then [46] else []) ++ rest)) = .error .noDigits := by
  rcases hbase with ⟨hb, hp, h0⟩ | ⟨hb, hp⟩
  · subst hb; subst hp
    rw [scanMant_base base h0]
    have hd : decide (base = 0) = false := by simp [h0]
    rw [hd] at hend
    exact scanMantCore_noDigits base false dot rest 46 hend
  · subst hb
    simp only [decide_true] at hend
    cases pfx with
    | none =>
      have hb10 : b = 10 := hp
      subst hb10
      simp only [renderPfx, List.nil_append]
      rw [scanMant_zero]
      · exact scanMantCore_noDigits 10 true dot rest 46 hend
      · intro c r h
        cases dot with
        | true => simp at h
        | false =>
          simp at h
          subst h
          exact absurd hend.1 (by decide)
    | some c =>
      simp only [renderPfx, List.cons_append, List.nil_append]
      rw [scanMant_prefix c b hp]
      exact scanMantCore_noDigits b true dot rest 48 hend

/-- **No mantissa digit**: `[sign] [0x] ['.'] rest` where `rest` is empty or starts with a byte that is
    not a digit of the base (nor a recognised `_`, nor a first '.'). -/
theorem parse_noMantDigitsB (z : Dec) (sg : Option Bool) (base b : Nat) (pfx : Option Nat) (dot : Bool)
    (rest : List Nat)
    (hbase : (base = b ∧ pfx = none ∧ base ≠ 0) ∨ (base = 0 ∧ PfxOk pfx b))
    (hend : MantEndB b (decide (base = 0)) dot rest)
    (hsg : sg = none → pfx = none → dot = false → rest ≠ [] ∧ NoSignHead rest)
    (hinf : ¬ IsInfStr (signBytes sg ++ (renderPfx pfx ++ ((if dot then [46] else []) ++ rest)))) :
    parse z (signBytes sg ++ (renderPfx pfx ++ ((if dot then [46] else []) ++ rest))) base = .error .noDigits := by
  have hsb : sg = none → (renderPfx pfx ++ ((if dot then [46] else []) ++ rest)) ≠ [] ∧
      NoSignHead (renderPfx pfx ++ ((if dot then [46] else []) ++ rest)) := by
    intro h
    cases pfx with
    | some c => simp [renderPfx, NoSignHead]
    | none =>
      cases dot with
      | true => simp [renderPfx, NoSignHead]
      | false => simpa [renderPfx] using hsg h rfl rfl
  rw [parse_sign_body z sg _ base hsb hinf, scanBody_mant_err z _ _ base .noDigits]
  · rfl
  · exact scanMant_noDigits base b pfx dot rest hbase hend

/-- **A base prefix without digits** (`"0x"`, `"-0B"`, `"0o."`, `"0xg"`, `"0b2"`, `"0o8"`): base 0. -/
theorem parse_prefix_noDigits (z : Dec) (sg : Option Bool) (c b : Nat) (hc : prefixBase c = some b) (dot : Bool)
    (rest : List Nat) (hend : MantEndB b true dot rest) :
    parse z (signBytes sg ++ (48 :: c :: ((if dot then [46] else []) ++ rest))) 0 = .error .noDigits := by
  have := parse_noMantDigitsB z sg 0 b (some c) dot rest (Or.inr ⟨rfl, hc⟩) (by simpa using hend)
    (by intro _ h; cases h)
    (not_IsInfStr_head sg 48 _ (by omega))
  simpa [renderPfx] using this

/-! ### misplaced separators in the mantissa (base 0) -/

/-- The digit loop on a literal mantissa, compositional form (anything may follow). -/
theorem scanDigits_mantU_then (b : Nat) (hb : b ≤ 63) (sep : Bool) (ip : UDigits) (fp : Option UDigits) (pv0 : Nat)
    (hip : IsDigitsB b ip.bytes) (hfp : IsDigitsB b (fp.getD []).bytes)
    (hsep : sep = false → ip.Plain ∧ (fp.getD []).Plain)
    (hpv0 : pv0 = 48 ∨ (pv0 = 46 ∧ ip.HeadPlain)) (hhfp : (fp.getD []).HeadPlain) :
    ∃ pv, ∀ rest,
      scanDigits b sep (renderMantU ip fp ++ rest) { prev := pv0 } =
        scanDigits b sep rest
          { val := valB b (ip.bytes ++ (fp.getD []).bytes), count := ip.length + (fp.getD []).length,
            dp := fp.map (fun _ => ip.length), fracOk := fp.isNone, prev := pv, invalSep := false } := by
  have hpv95 : pv0 ≠ 95 := by rcases hpv0 with h | h <;> omega
  have hhip : ({ prev := pv0 } : ScanSt).prev = 48 ∨ ip.HeadPlain := by
    rcases hpv0 with h | h
    · exact Or.inl h
    · exact Or.inr h.2
  cases fp with
  | none =>
    refine ⟨if ip = [] then pv0 else 48, ?_⟩
    intro rest
    simp only [renderMantU, List.append_nil, Option.getD_none, UDigits.bytes_nil]
    rw [scanDigits_U b hb sep ip hip (fun h => (hsep h).1) rest _ hhip]
    simp
  | some f =>
    refine ⟨if f = [] then 46 else 48, ?_⟩
    intro rest
    simp only [renderMantU, Option.getD_some, List.append_assoc, List.cons_append]
    simp only [Option.getD_some] at hfp hhfp hsep
    rw [scanDigits_U b hb sep ip hip (fun h => (hsep h).1) _ _ hhip, scanDigits_dot _ _ _ _ rfl,
      scanDigits_U b hb sep f hfp (fun h => (hsep h).2) rest _ (Or.inr hhfp)]
    congr 1
    simp only [valB_append, Nat.zero_mul, Nat.zero_add, Option.map_some, Option.isNone_some,
      Bool.false_or, ScanSt.mk.injEq, true_and, UDigits.bytes_length, and_true]
    split
    · simpa using hpv95
    · rfl

/-- after at least one digit, a `_` that is not followed by a digit of the base is an error, whatever
    else follows. -/
theorem scanMantCore_sep_nondigit (b : Nat) (rest : List Nat) (st : ScanSt) (hc : st.count ≠ 0)
    (hrest : match rest with | [] => True | c :: _ => digitVal c ≥ b) :
    scanMantCore b true (95 :: rest) st = .error .invalSep := by
  rw [scanMantCore_us]
  cases rest with
  | nil =>
    unfold scanMantCore
    rw [scanDigits_nil]
    simp [hc]
  | cons c r =>
    have hd : digitVal c ≥ b := hrest
    by_cases h1 : c = 46 ∧ st.fracOk = true
    · obtain ⟨rfl, hf⟩ := h1
      unfold scanMantCore
      rw [scanDigits_dot _ _ _ _ (by simpa using hf)]
      exact scanMantCore_invalSep b true r _ (by simp) (by simpa using hc)
    · by_cases h2 : c = 95
      · subst h2
        rw [scanMantCore_us]
        exact scanMantCore_invalSep b true r _ (by simp) (by simpa using hc)
      · unfold scanMantCore
        rw [scanDigits_stop b true c r _ (fun h => by
          by_cases hf : st.fracOk = true
          · exact absurd ⟨h, hf⟩ h1
          · simpa using hf) (fun h => absurd h h2) hd]
        simp [hc]

/-- **A `_` after the mantissa digits that is not followed by a digit** (base 0, with or without base
    prefix): `"0x1_"`, `"0x1__2"`, `"0b1_.1"`, `"0x1_p3"`, `"1_e5"`. -/
theorem parse_mant_sep_nondigit (z : Dec) (l : LitB) (hwf : l.WF 0) (hex : l.ex = none) (rest : List Nat)
    (hrest : match rest with | [] => True | c :: _ => digitVal c ≥ l.b) :
    parse z (l.render ++ 95 :: rest) 0 = .error .invalSep := by
  have hb4 := hwf.b_mem
  have hb63 : l.b ≤ 63 := by omega
  have hc : l.ip.length + (l.fp.getD []).length ≠ 0 := by
    intro h0
    apply hwf.digits
    rw [← List.length_eq_zero_iff, List.length_append]; exact h0
  have hcore : ∀ pv0, (pv0 = 48 ∨ (pv0 = 46 ∧ l.ip.HeadPlain)) →
      scanMantCore l.b true (renderMantU l.ip l.fp ++ 95 :: rest) { prev := pv0 } = .error .invalSep := by
    intro pv0 hpv0
    obtain ⟨pv, hscan⟩ := scanDigits_mantU_then l.b hb63 true l.ip l.fp pv0 hwf.ip hwf.fp
      (fun h => by cases h) hpv0 hwf.sepFp
    have := scanMantCore_sep_nondigit l.b rest
      { val := valB l.b (l.ip.bytes ++ (l.fp.getD []).bytes), count := l.ip.length + (l.fp.getD []).length,
        dp := l.fp.map (fun _ => l.ip.length), fracOk := l.fp.isNone, prev := pv, invalSep := false } hc hrest
    unfold scanMantCore at this ⊢
    rw [hscan]
    exact this
  rw [parse_litB_rest z l 0 hwf, scanBody_mant_err z _ _ 0 .invalSep]
  · rfl
  · rw [LitB.body_noExp hex, List.append_assoc]
    rcases hwf.baseOk with ⟨h0, _, h4⟩ | ⟨_, hp⟩
    · omega
    · cases hx : l.pfx with
      | none =>
        rw [hx] at hp
        have hb10 : l.b = 10 := hp
        simp only [renderPfx, List.nil_append]
        have hip := hwf.ip
        have hfp := hwf.fp
        rw [hb10] at hip hfp
        rw [scanMant_zero _ (noBasePrefix_mantU l.ip l.fp _ hip hfp hwf.digits (by simp [NoPrefixLetterHead]))]
        have := hcore 46 (Or.inr ⟨rfl, hwf.sepIp hx⟩)
        rw [hb10] at this
        exact this
      | some c =>
        rw [hx] at hp
        simp only [renderPfx, List.cons_append, List.nil_append]
        rw [scanMant_prefix c l.b hp]
        exact hcore 48 (Or.inl rfl)

/-- **A `_` directly after the point** (base 0), whatever follows: `"0x1._8"`, `"1._5"`. -/
theorem parse_sep_after_point (z : Dec) (l : LitB) (hwf : l.WF 0) (hex : l.ex = none) (hfp : l.fp = some [])
    (rest : List Nat) :
    parse z (l.render ++ 95 :: rest) 0 = .error .invalSep := by
  have hb4 := hwf.b_mem
  have hb63 : l.b ≤ 63 := by omega
  have hc : l.ip.length + (l.fp.getD []).length ≠ 0 := by
    intro h0
    apply hwf.digits
    rw [← List.length_eq_zero_iff, List.length_append]; exact h0
  have hcore : ∀ pv0, (pv0 = 48 ∨ (pv0 = 46 ∧ l.ip.HeadPlain)) →
      scanMantCore l.b true (renderMantU l.ip l.fp ++ 95 :: rest) { prev := pv0 } = .error .invalSep := by
    intro pv0 hpv0
    obtain ⟨pv, hpv, hscan⟩ : ∃ pv, pv = 46 ∧ ∀ rest,
        scanDigits l.b true (renderMantU l.ip l.fp ++ rest) { prev := pv0 } =
          scanDigits l.b true rest
            { val := valB l.b (l.ip.bytes ++ (l.fp.getD []).bytes), count := l.ip.length + (l.fp.getD []).length,
              dp := l.fp.map (fun _ => l.ip.length), fracOk := l.fp.isNone, prev := pv, invalSep := false } := by
      have hhip : ({ prev := pv0 } : ScanSt).prev = 48 ∨ l.ip.HeadPlain := by
        rcases hpv0 with h | h
        · exact Or.inl h
        · exact Or.inr h.2
      have hpv95 : pv0 ≠ 95 := by rcases hpv0 with h | h <;> omega
      refine ⟨46, rfl, ?_⟩
      intro rest
      rw [hfp]
      simp only [renderMantU, renderU, Option.getD_some, List.append_assoc, List.cons_append, List.nil_append]
      rw [scanDigits_U l.b hb63 true l.ip hwf.ip (fun h => by cases h) _ _ hhip, scanDigits_dot _ _ _ _ rfl]
      congr 1
      simp only [UDigits.bytes_nil, List.append_nil, List.length_nil, Nat.add_zero, Nat.zero_mul, Nat.zero_add,
        Option.map_some, Option.isNone_some, Bool.false_or, ScanSt.mk.injEq, true_and, and_true]
      split
      · simpa using hpv95
      · rfl
    subst hpv
    unfold scanMantCore
    rw [hscan, scanDigits_us]
    have := scanMantCore_invalSep l.b true rest
      { val := valB l.b (l.ip.bytes ++ (l.fp.getD []).bytes), count := l.ip.length + (l.fp.getD []).length,
        dp := l.fp.map (fun _ => l.ip.length), fracOk := l.fp.isNone, prev := 95,
        invalSep := false || (46 : Nat) != 48 } (by simp) hc
    unfold scanMantCore at this
    exact this
  rw [parse_litB_rest z l 0 hwf, scanBody_mant_err z _ _ 0 .invalSep]
  · rfl
  · rw [LitB.body_noExp hex, List.append_assoc]
    rcases hwf.baseOk with ⟨h0, _, h4⟩ | ⟨_, hp⟩
    · omega
    · cases hx : l.pfx with
      | none =>
        rw [hx] at hp
        have hb10 : l.b = 10 := hp
        simp only [renderPfx, List.nil_append]
        have hip := hwf.ip
        have hfp' := hwf.fp
        rw [hb10] at hip hfp'
        rw [scanMant_zero _ (noBasePrefix_mantU l.ip l.fp _ hip hfp' hwf.digits (by simp [NoPrefixLetterHead]))]
        have := hcore 46 (Or.inr ⟨rfl, hwf.sepIp hx⟩)
        rw [hb10] at this
        exact this
      | some c =>
        rw [hx] at hp
        simp only [renderPfx, List.cons_append, List.nil_append]
        rw [scanMant_prefix c l.b hp]
        exact hcore 48 (Or.inl rfl)

end Decimal
