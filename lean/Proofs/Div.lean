/-
  L0 division (DecimalModel/DecOps.lean): qhatLoop, divBasic, divLarge, div — Knuth's Algorithm D
  in base B = 10^19.
-/
import Proofs.Mul

set_option linter.unusedVariables false
set_option linter.unusedSimpArgs false
namespace Decimal.L0
open Decimal Decimal.Gen

/-! ### Pure arithmetic of the quotient-digit estimate (Knuth 4.3.1, Theorems A and B)

  `v = (vn1·b + vn2)·P + vlow`, `R = (t·b + ujn2)·P + ulow` with `t = ujn·b + ujn1`, `P = b^(n-2)`. -/

/-- Theorem A: an estimate `qh` with `t < (qh+1)·vn1` is not below the true digit. -/
theorem qhat_ge (b P vn1 vn2 vlow t ujn2 ulow v R qh : Nat)
    (hv : v = (vn1 * b + vn2) * P + vlow) (hR : R = (t * b + ujn2) * P + ulow)
    (hul : ulow < P) (hu2 : ujn2 < b) (hq : t < (qh + 1) * vn1) : R < (qh + 1) * v := by
  have h1 : (t + 1) * (b * P) ≤ ((qh + 1) * vn1) * (b * P) := Nat.mul_le_mul_right _ hq
  have h2 : (ujn2 + 1) * P ≤ b * P := Nat.mul_le_mul_right _ hu2
  have h3 : (qh + 1) * v = (qh + 1) * vn1 * (b * P) + (qh + 1) * (vn2 * P + vlow) := by
    rw [hv]; ring
  have h4 : R + (P - ulow) + (b * P - (ujn2 + 1) * P) = (t + 1) * (b * P) := by
    rw [hR]
    have : (t * b + ujn2) * P + P + b * P = (t + 1) * (b * P) + (ujn2 + 1) * P := by ring
    omega
  omega

/-- the correction test passing means the estimate is too large. -/
theorem qhat_test_pass (b P vn1 vn2 vlow t ujn2 ulow v R qh rh : Nat)
    (hv : v = (vn1 * b + vn2) * P + vlow) (hR : R = (t * b + ujn2) * P + ulow)
    (hul : ulow < P) (ht : qh * vn1 + rh = t) (htest : b * rh + ujn2 < qh * vn2) : R < qh * v := by
  have h1 : (b * rh + ujn2 + 1) * P ≤ (qh * vn2) * P := Nat.mul_le_mul_right _ htest
  have h2 : qh * v = qh * vn1 * b * P + qh * vn2 * P + qh * vlow := by rw [hv]; ring
  have h3 : R + (P - ulow) = qh * vn1 * b * P + (b * rh + ujn2 + 1) * P := by
    rw [hR, ← ht]
    have : ((qh * vn1 + rh) * b + ujn2) * P + P = qh * vn1 * b * P + (b * rh + ujn2 + 1) * P := by ring
    omega
  omega

/-- the correction test failing means the estimate exceeds the true digit by at most one. -/
theorem qhat_test_fail (b P vn1 vn2 vlow t ujn2 ulow v R qh rh : Nat)
    (hv : v = (vn1 * b + vn2) * P + vlow) (hR : R = (t * b + ujn2) * P + ulow)
    (hvl : vlow < P) (hvn1 : 1 ≤ vn1) (hqb : qh ≤ b) (ht : qh * vn1 + rh = t)
    (htest : qh * vn2 ≤ b * rh + ujn2) : qh * v ≤ R + v := by
  have h1 : (qh * vn2) * P ≤ (b * rh + ujn2) * P := Nat.mul_le_mul_right _ htest
  have h2 : qh * v = qh * vn1 * b * P + qh * vn2 * P + qh * vlow := by rw [hv]; ring
  have h3 : R = qh * vn1 * b * P + (b * rh + ujn2) * P + ulow := by
    rw [hR, ← ht]; ring
  have h4 : qh * vlow ≤ b * P := Nat.mul_le_mul hqb (by omega)
  have h5 : 1 * (b * P) ≤ vn1 * (b * P) := Nat.mul_le_mul_right _ hvn1
  have h6 : v = vn1 * (b * P) + vn2 * P + vlow := by rw [hv]; ring
  omega

/-- `ujn = vn1`: the estimate `b-1` exceeds the true digit by at most one (needs `2·vn1 ≥ b`). -/
theorem qhat_top_eq (b P vn1 vn2 vlow ujn1 ujn2 ulow v R qh : Nat)
    (hv : v = (vn1 * b + vn2) * P + vlow) (hR : R = ((vn1 * b + ujn1) * b + ujn2) * P + ulow)
    (hvl : vlow < P) (hv2 : vn2 < b) (hnorm : b ≤ 2 * vn1) (hq : qh + 1 = b) : qh * v ≤ R + v := by
  -- (qh-1)·v ≤ R ; v < (vn1+1)·b·P
  have hvlt : v + (P - vlow) + (b * P - (vn2 + 1) * P) = (vn1 + 1) * (b * P) := by
    rw [hv]
    have h2 : (vn2 + 1) * P ≤ b * P := Nat.mul_le_mul_right _ hv2
    have : (vn1 * b + vn2) * P + P + b * P = (vn1 + 1) * (b * P) + (vn2 + 1) * P := by ring
    omega
  have hRge : vn1 * b * (b * P) ≤ R := by
    rw [hR]
    have : ((vn1 * b + ujn1) * b + ujn2) * P = vn1 * b * (b * P) + (ujn1 * b + ujn2) * P := by ring
    omega
  rcases Nat.eq_zero_or_pos qh with h0 | h0
  · rw [h0]; simp
  · obtain ⟨k, hk⟩ : ∃ k, qh = k + 1 := ⟨qh - 1, by omega⟩
    subst hk
    -- k·v ≤ R, k + 2 = b
    have hb : b = k + 2 := by omega
    have h1 : k * v ≤ k * ((vn1 + 1) * (b * P)) := Nat.mul_le_mul_left _ (by omega)
    have h2 : k * ((vn1 + 1) * (b * P)) ≤ vn1 * b * (b * P) := by
      have : k * (vn1 + 1) ≤ vn1 * b := by
        rw [hb]
        have : k * (vn1 + 1) + (2 * vn1 - k) = vn1 * (k + 2) := by
          have h3 : k ≤ 2 * vn1 := by omega
          have : k * (vn1 + 1) + 2 * vn1 = vn1 * (k + 2) + k := by ring
          omega
        omega
      calc k * ((vn1 + 1) * (b * P)) = (k * (vn1 + 1)) * (b * P) := by ring
        _ ≤ (vn1 * b) * (b * P) := Nat.mul_le_mul_right _ this
    have h3 : (k + 1) * v = k * v + v := by ring
    omega

/-! ### qhatLoop (step D3) -/

theorem qhatLoop_spec (P vn1 vn2 vlow t ujn2 ulow v R : Nat)
    (hv : v = (vn1 * B + vn2) * P + vlow) (hR : R = (t * B + ujn2) * P + ulow)
    (hvl : vlow < P) (hul : ulow < P) (hvn1 : vn1 < 10000000000000000000)
    (hnorm : 10000000000000000000 ≤ 2 * vn1) (hvn2 : vn2 < 10000000000000000000)
    (hu2 : ujn2 < 10000000000000000000) :
    ∀ (fuel qh rh : Nat), qh * vn1 + rh = t → qh < 10000000000000000000 → R < (qh + 1) * v →
      rh < 18446744073709551616 → 10000000000000000000 ≤ rh + fuel * vn1 →
      qhatLoop vn1 vn2 ujn2 fuel qh rh (qh * vn2 / 10000000000000000000) (qh * vn2 % 10000000000000000000) ≤ qh
      ∧ R < (qhatLoop vn1 vn2 ujn2 fuel qh rh (qh * vn2 / 10000000000000000000)
              (qh * vn2 % 10000000000000000000) + 1) * v
      ∧ qhatLoop vn1 vn2 ujn2 fuel qh rh (qh * vn2 / 10000000000000000000)
              (qh * vn2 % 10000000000000000000) * v ≤ R + v := by
  intro fuel
  induction fuel with
  | zero =>
    intro qh rh ht hqb hRq hrW hfuel
    simp only [qhatLoop]
    refine ⟨Nat.le_refl _, hRq, ?_⟩
    apply qhat_test_fail B P vn1 vn2 vlow t ujn2 ulow v R qh rh hv hR hvl (by omega) (by rw [B_eq]; omega) ht
    have : qh * vn2 ≤ B * rh := by
      rw [B_eq]; exact Nat.mul_le_mul (by omega) (by omega)
    omega
  | succ fuel ih =>
    intro qh rh ht hqb hRq hrW hfuel
    simp only [qhatLoop]
    have hx2 : qh * vn2 % 10000000000000000000 < 10000000000000000000 := Nat.mod_lt _ (by omega)
    have hgt := greaterThan_spec (qh * vn2 / 10000000000000000000) (qh * vn2 % 10000000000000000000) rh ujn2 hx2 hu2
    rw [Nat.div_add_mod' (qh * vn2) 10000000000000000000] at hgt
    by_cases htest : rh * 10000000000000000000 + ujn2 < qh * vn2
    · rw [if_pos (hgt.mpr htest)]
      have hRlt : R < qh * v :=
        qhat_test_pass B P vn1 vn2 vlow t ujn2 ulow v R qh rh hv hR hul ht (by rw [B_eq]; omega)
      have hq1 : 1 ≤ qh := by
        rcases Nat.eq_zero_or_pos qh with h | h
        · rw [h] at htest; omega
        · exact h
      obtain ⟨k, hk⟩ : ∃ k, qh = k + 1 := ⟨qh - 1, by omega⟩
      subst hk
      have hrb : rh < 10000000000000000000 := by
        by_contra hc
        have : (k + 1) * vn2 ≤ 10000000000000000000 * 10000000000000000000 :=
          Nat.mul_le_mul (by omega) (by omega)
        have : 10000000000000000000 * 10000000000000000000 ≤ rh * 10000000000000000000 :=
          Nat.mul_le_mul_right _ (by omega)
        omega
      have hdec : (k + 1 + W - 1) % W = k := by simp only [W_eq]; omega
      rw [hdec]
      have ht' : k * vn1 + (rh + vn1) = t := by rw [← ht]; ring
      by_cases hwrap : rh + vn1 < 18446744073709551616
      · have hmod : (rh + vn1) % W = rh + vn1 := Nat.mod_eq_of_lt (by simp only [W_eq]; omega)
        rw [hmod, if_neg (by omega), mul10WW_g_spec k vn2 (by omega) hvn2]
        simp only []
        have hf' : 10000000000000000000 ≤ rh + vn1 + fuel * vn1 := by
          have : (fuel + 1) * vn1 = fuel * vn1 + vn1 := Nat.succ_mul _ _
          omega
        obtain ⟨i1, i2, i3⟩ := ih k (rh + vn1) ht' (by omega) hRlt hwrap hf'
        exact ⟨by omega, i2, i3⟩
      · have hmod : (rh + vn1) % W = rh + vn1 - 18446744073709551616 := by simp only [W_eq]; omega
        rw [hmod, if_pos (by omega)]
        refine ⟨by omega, hRlt, ?_⟩
        apply qhat_test_fail B P vn1 vn2 vlow t ujn2 ulow v R k (rh + vn1) hv hR hvl (by omega)
          (by rw [B_eq]; omega) ht'
        have : k * vn2 ≤ B * (rh + vn1) := by
          rw [B_eq]; exact Nat.mul_le_mul (by omega) (by omega)
        omega
    · have hng : ¬ greaterThan (qh * vn2 / 10000000000000000000) (qh * vn2 % 10000000000000000000) rh ujn2 = true :=
        fun h => htest (hgt.mp h)
      rw [if_neg hng]
      refine ⟨Nat.le_refl _, hRq, ?_⟩
      exact qhat_test_fail B P vn1 vn2 vlow t ujn2 ulow v R qh rh hv hR hvl (by omega)
        (by rw [B_eq]; omega) ht (by rw [B_eq]; omega)

/-! ### One iteration of divBasic, factored out of the model's loop -/

/-- step D3 of the model: the corrected estimate. -/
def qhatOf (vn1 vn2 : Nat) (u : List Nat) (j n : Nat) : Nat :=
  let ujn := if j + n < u.length then u.getD (j + n) 0 else 0
  if ujn ≠ vn1 then
    let (qhat, rhat) := div10WW_g ujn (u.getD (j + n - 1) 0) vn1
    let (x1, x2) := mul10WW_g qhat vn2
    qhatLoop vn1 vn2 (u.getD (j + n - 2) 0) 8 qhat rhat x1 x2
  else c_DMax

/-- steps D4–D6 of the model: multiply-subtract, add back on borrow. -/
def divStep (v : List Nat) (n : Nat) (u : List Nat) (j : Nat) (qhat : Nat) : List Nat × Nat :=
  let (qv, cq) := mulAdd10VWW v qhat 0
  let qhatv := qv ++ [cq]
  let qhl := if j + (n + 1) > u.length ∧ cq = 0 then n else n + 1
  let (d, c) := sub10VV ((u.drop j).take qhl) qhatv 0
  let u := u.take j ++ d ++ u.drop (j + qhl)
  if c ≠ 0 then
    let (s, c2) := add10VV ((u.drop j).take n) v 0
    let u := u.take j ++ s ++ u.drop (j + n)
    let u := if n < qhl then u.take (j + n) ++ (add10VW ((u.drop (j + n)).take (qhl - n)) c2).1 ++ u.drop (j + qhl) else u
    (u, (qhat + W - 1) % W)
  else (u, qhat)

theorem divBasic_loop_succ (qlen : Nat) (v : List Nat) (n m vn1 vn2 f j : Nat) (q u : List Nat) :
    divBasic.loop qlen v n m vn1 vn2 (f + 1) j q u =
      (let r := divStep v n u j (qhatOf vn1 vn2 u j n)
       if j = m ∧ m = qlen ∧ r.2 = 0 then
         (if j = 0 then .ok (q, r.1) else divBasic.loop qlen v n m vn1 vn2 f (j - 1) q r.1)
       else if j ≥ qlen then .error "index out of range"
       else
         if j = 0 then .ok (q.take j ++ [r.2] ++ q.drop (j + 1), r.1)
         else divBasic.loop qlen v n m vn1 vn2 f (j - 1) (q.take j ++ [r.2] ++ q.drop (j + 1)) r.1) := by
  rw [divBasic.loop]
  rfl

/-! ### Word-level decompositions -/

theorem natOf_drop_getD (x : List Nat) (k : Nat) :
    natOf (x.drop k) = x.getD k 0 + B * natOf (x.drop (k + 1)) := by
  rw [List.getD_eq_getElem?_getD]
  by_cases hk : k < x.length
  · rw [List.drop_eq_getElem_cons hk, List.getElem?_eq_getElem hk, natOf_cons]; rfl
  · rw [List.drop_eq_nil_of_le (by omega), List.drop_eq_nil_of_le (by omega),
      List.getElem?_eq_none (by omega)]
    simp [natOf]

/-- the top three words of an `(n+1)`-word window. -/
theorem window_decomp (w : List Nat) (n : Nat) (hn : 2 ≤ n) (hwl : n ≤ w.length) (hw : WF w)
    (hlt : natOf w < B ^ (n + 1)) :
    natOf w = ((w.getD n 0 * B + w.getD (n - 1) 0) * B + w.getD (n - 2) 0) * B ^ (n - 2)
        + natOf (w.take (n - 2))
      ∧ natOf (w.take (n - 2)) < B ^ (n - 2) ∧ natOf (w.drop (n + 1)) = 0 := by
  have h0 := natOf_take_drop w (n - 2) (by omega)
  have h1 := natOf_drop_getD w (n - 2)
  have h2 := natOf_drop_getD w (n - 2 + 1)
  have h3 := natOf_drop_getD w (n - 2 + 1 + 1)
  have e1 : n - 2 + 1 = n - 1 := by omega
  have e2 : n - 2 + 1 + 1 = n := by omega
  rw [e1] at h2
  rw [e1] at h1
  rw [e2] at h3
  have e3 : n - 1 + 1 = n := by omega
  rw [e3] at h2
  have hlow := natOf_lt (WF_take hw (n - 2))
  rw [List.length_take, Nat.min_eq_left (by omega)] at hlow
  have hz : natOf (w.drop (n + 1)) = 0 := by
    by_contra hne
    have hpos : 1 ≤ natOf (w.drop (n + 1)) := by omega
    have hp : B ^ (n + 1) = B ^ (n - 2) * (B * (B * B)) := by
      have : n + 1 = (n - 2) + 3 := by omega
      rw [this, pow_add]; ring
    have : B ^ (n - 2) * (B * (B * B)) * 1 ≤ B ^ (n - 2) * (B * (B * B)) * natOf (w.drop (n + 1)) :=
      Nat.mul_le_mul_left _ hpos
    have hexp : natOf w = natOf (w.take (n - 2)) + B ^ (n - 2) * (w.getD (n - 2) 0
        + B * (w.getD (n - 1) 0 + B * (w.getD n 0 + B * natOf (w.drop (n + 1))))) := by
      rw [← h3, ← h2, ← h1, h0]
    have hge : B ^ (n - 2) * (B * (B * B)) * natOf (w.drop (n + 1)) ≤ natOf w := by
      rw [hexp]
      have : B ^ (n - 2) * (w.getD (n - 2) 0 + B * (w.getD (n - 1) 0 + B * (w.getD n 0 + B * natOf (w.drop (n + 1)))))
          = B ^ (n - 2) * (B * (B * B)) * natOf (w.drop (n + 1))
            + B ^ (n - 2) * (w.getD (n - 2) 0 + B * (w.getD (n - 1) 0 + B * w.getD n 0)) := by ring
      omega
    omega
  refine ⟨?_, hlow, hz⟩
  rw [hz] at h3
  rw [← h0, h1, h2, h3]
  ring

theorem top_decomp (v : List Nat) (n : Nat) (hn : 2 ≤ n) (hvl : v.length = n) (hv : WF v) :
    natOf v = (v.getD (n - 1) 0 * B + v.getD (n - 2) 0) * B ^ (n - 2) + natOf (v.take (n - 2))
      ∧ natOf (v.take (n - 2)) < B ^ (n - 2) := by
  have h0 := natOf_take_drop v (n - 2) (by omega)
  have h1 := natOf_drop_getD v (n - 2)
  have h2 := natOf_drop_getD v (n - 2 + 1)
  have e1 : n - 2 + 1 = n - 1 := by omega
  rw [e1] at h1 h2
  have e3 : n - 1 + 1 = n := by omega
  rw [e3] at h2
  have hd : v.drop n = [] := List.drop_eq_nil_of_le (by omega)
  rw [hd, natOf_nil] at h2
  have hlow := natOf_lt (WF_take hv (n - 2))
  rw [List.length_take, Nat.min_eq_left (by omega)] at hlow
  refine ⟨?_, hlow⟩
  rw [← h0, h1, h2]
  ring

theorem getD_drop' (u : List Nat) (j k : Nat) : (u.drop j).getD k 0 = u.getD (j + k) 0 := by
  rw [List.getD_eq_getElem?_getD, List.getD_eq_getElem?_getD, List.getElem?_drop]

theorem ite_getD (u : List Nat) (i : Nat) : (if i < u.length then u.getD i 0 else 0) = u.getD i 0 := by
  by_cases h : i < u.length
  · rw [if_pos h]
  · rw [if_neg h, List.getD_eq_getElem?_getD, List.getElem?_eq_none (by omega)]; rfl

/-- D3: the corrected estimate is the true digit or one more (for a normalised divisor). -/
theorem qhatOf_spec (u v : List Nat) (j n : Nat) (hn : 2 ≤ n) (hvl : v.length = n) (hv : WF v)
    (hu : WF u) (hjn : j + n ≤ u.length) (hnorm : 10000000000000000000 ≤ 2 * v.getD (n - 1) 0)
    (hR : natOf (u.drop j) < B * natOf v) :
    qhatOf (v.getD (n - 1) 0) (v.getD (n - 2) 0) u j n < 10000000000000000000
      ∧ natOf (u.drop j) < (qhatOf (v.getD (n - 1) 0) (v.getD (n - 2) 0) u j n + 1) * natOf v
      ∧ qhatOf (v.getD (n - 1) 0) (v.getD (n - 2) 0) u j n * natOf v ≤ natOf (u.drop j) + natOf v := by
  have hw : WF (u.drop j) := WF_drop hu j
  have hwl : n ≤ (u.drop j).length := by rw [List.length_drop]; omega
  have hVlt := natOf_lt hv
  rw [hvl] at hVlt
  have hlt : natOf (u.drop j) < B ^ (n + 1) := by
    have : B * natOf v ≤ B * B ^ n := Nat.mul_le_mul_left _ (by omega)
    rw [pow_succ]
    have e : B ^ n * B = B * B ^ n := Nat.mul_comm _ _
    omega
  obtain ⟨wd, wlow, _⟩ := window_decomp (u.drop j) n hn hwl hw hlt
  obtain ⟨vd, vlow⟩ := top_decomp v n hn hvl hv
  rw [getD_drop', getD_drop', getD_drop'] at wd
  have e1 : j + (n - 1) = j + n - 1 := by omega
  have e2 : j + (n - 2) = j + n - 2 := by omega
  rw [e1, e2] at wd
  have hvn1 : v.getD (n - 1) 0 < 10000000000000000000 := getD_lt v hv _
  have hvn2 : v.getD (n - 2) 0 < 10000000000000000000 := getD_lt v hv _
  have hujn : u.getD (j + n) 0 < 10000000000000000000 := getD_lt u hu _
  have hujn1 : u.getD (j + n - 1) 0 < 10000000000000000000 := getD_lt u hu _
  have hujn2 : u.getD (j + n - 2) 0 < 10000000000000000000 := getD_lt u hu _
  unfold qhatOf
  simp only [ite_getD]
  generalize hR0 : natOf (u.drop j) = R at *
  generalize hV0 : natOf v = V at *
  generalize v.getD (n - 1) 0 = vn1 at *
  generalize v.getD (n - 2) 0 = vn2 at *
  generalize u.getD (j + n) 0 = ujn at *
  generalize u.getD (j + n - 1) 0 = ujn1 at *
  generalize u.getD (j + n - 2) 0 = ujn2 at *
  generalize natOf ((u.drop j).take (n - 2)) = ulo at *
  generalize natOf (v.take (n - 2)) = vlo at *
  generalize B ^ (n - 2) = P at *
  -- ujn ≤ vn1
  have hle : ujn ≤ vn1 := by
    by_contra hc
    have h1 : (vn1 + 2) * (B * B * P) ≤ (ujn + 1) * (B * B * P) := Nat.mul_le_mul_right _ (by omega)
    have h2 : (vn2 + 1) * P ≤ B * P := Nat.mul_le_mul_right _ (by rw [B_eq]; omega)
    have h3 : B * V + B * (P - vlo) + B * (B * P - (vn2 + 1) * P) = (vn1 + 1) * (B * B * P) := by
      rw [vd]
      have : B * ((vn1 * B + vn2) * P + vlo) + B * P + B * (B * P)
          = (vn1 + 1) * (B * B * P) + B * ((vn2 + 1) * P) + B * vlo := by ring
      have hd1 : B * (P - vlo) + B * vlo = B * P := by rw [← Nat.mul_add]; congr 1; omega
      have hd2 : B * (B * P - (vn2 + 1) * P) + B * ((vn2 + 1) * P) = B * (B * P) := by
        rw [← Nat.mul_add]; congr 1; omega
      omega
    have h4 : ujn * (B * B * P) ≤ R := by
      rw [wd]
      have : ((ujn * B + ujn1) * B + ujn2) * P = ujn * (B * B * P) + (ujn1 * B + ujn2) * P := by ring
      omega
    have h5 : (ujn + 1) * (B * B * P) = ujn * (B * B * P) + B * B * P := by ring
    have h6 : (vn1 + 2) * (B * B * P) = (vn1 + 1) * (B * B * P) + B * B * P := by ring
    omega
  by_cases hne : ujn ≠ vn1
  · rw [if_pos hne]
    have hlt' : ujn < vn1 := by omega
    rw [div10WW_g_spec ujn ujn1 vn1 hlt' hujn1 (by omega)]
    simp only []
    have hvn1pos : 0 < vn1 := by omega
    have htlt : ujn * 10000000000000000000 + ujn1 < vn1 * 10000000000000000000 := by
      have : (ujn + 1) * 10000000000000000000 ≤ vn1 * 10000000000000000000 := Nat.mul_le_mul_right _ hlt'
      omega
    have hq0 : (ujn * 10000000000000000000 + ujn1) / vn1 < 10000000000000000000 := by
      rw [Nat.div_lt_iff_lt_mul hvn1pos]
      have : 10000000000000000000 * vn1 = vn1 * 10000000000000000000 := Nat.mul_comm _ _
      omega
    rw [mul10WW_g_spec _ vn2 hq0 hvn2]
    simp only []
    have hdm : (ujn * 10000000000000000000 + ujn1) / vn1 * vn1 + (ujn * 10000000000000000000 + ujn1) % vn1
        = ujn * B + ujn1 := by rw [B_eq]; exact Nat.div_add_mod' _ _
    have hr0 : (ujn * 10000000000000000000 + ujn1) % vn1 < vn1 := Nat.mod_lt _ hvn1pos
    generalize (ujn * 10000000000000000000 + ujn1) / vn1 = q0 at *
    generalize (ujn * 10000000000000000000 + ujn1) % vn1 = r0 at *
    have hge : R < (q0 + 1) * V :=
      qhat_ge B P vn1 vn2 vlo (ujn * B + ujn1) ujn2 ulo V R q0 vd wd wlow (by rw [B_eq]; exact hujn2)
        (by rw [← hdm, Nat.add_mul]; omega)
    obtain ⟨l1, l2, l3⟩ := qhatLoop_spec P vn1 vn2 vlo (ujn * B + ujn1) ujn2 ulo V R vd wd vlow wlow hvn1 hnorm
      hvn2 hujn2 8 q0 r0 hdm hq0 hge (by omega) (by omega)
    exact ⟨by omega, l2, l3⟩
  · rw [if_neg hne]
    have heq : ujn = vn1 := by omega
    subst heq
    have hc : c_DMax = 9999999999999999999 := rfl
    rw [hc]
    refine ⟨by omega, ?_, ?_⟩
    · have : (9999999999999999999 + 1) * V = B * V := by rw [B_eq]
      omega
    · exact qhat_top_eq B P ujn vn2 vlo ujn1 ujn2 ulo V R 9999999999999999999 vd wd vlow
        (by rw [B_eq]; exact hvn2) (by rw [B_eq]; exact hnorm) (by rw [B_eq])

/-! ### The multiply-subtract / add-back step on an explicit window -/

theorem drop_app (a w : List Nat) (j k : Nat) (ha : a.length = j) : (a ++ w).drop (j + k) = w.drop k := by
  rw [List.drop_append, List.drop_eq_nil_of_le (by omega), ha, Nat.add_sub_cancel_left, List.nil_append]

theorem take_app (a w : List Nat) (j k : Nat) (ha : a.length = j) : (a ++ w).take (j + k) = a ++ w.take k := by
  rw [List.take_append, List.take_of_length_le (by omega), ha, Nat.add_sub_cancel_left]

/-- interior window (`n+1` real words): the step in closed form. -/
theorem divStep_A (a X rest v : List Nat) (j n qh : Nat) (ha : a.length = j) (hX : X.length = n + 1)
    (hql : (mulAdd10VWW v qh 0).1.length = n)
    (hsl : (sub10VV X ((mulAdd10VWW v qh 0).1 ++ [(mulAdd10VWW v qh 0).2]) 0).1.length = n + 1)
    (hal : (add10VV ((sub10VV X ((mulAdd10VWW v qh 0).1 ++ [(mulAdd10VWW v qh 0).2]) 0).1.take n) v 0).1.length = n) :
    divStep v n (a ++ X ++ rest) j qh =
      if (sub10VV X ((mulAdd10VWW v qh 0).1 ++ [(mulAdd10VWW v qh 0).2]) 0).2 ≠ 0 then
        (a ++ (add10VV ((sub10VV X ((mulAdd10VWW v qh 0).1 ++ [(mulAdd10VWW v qh 0).2]) 0).1.take n) v 0).1
          ++ (add10VW ((sub10VV X ((mulAdd10VWW v qh 0).1 ++ [(mulAdd10VWW v qh 0).2]) 0).1.drop n)
              (add10VV ((sub10VV X ((mulAdd10VWW v qh 0).1 ++ [(mulAdd10VWW v qh 0).2]) 0).1.take n) v 0).2).1
          ++ rest, (qh + W - 1) % W)
      else (a ++ (sub10VV X ((mulAdd10VWW v qh 0).1 ++ [(mulAdd10VWW v qh 0).2]) 0).1 ++ rest, qh) := by
  unfold divStep
  simp only []
  have hlen : (a ++ X ++ rest).length = j + (n + 1) + rest.length := by
    simp only [List.length_append, ha, hX]
  have hq : (if j + (n + 1) > (a ++ X ++ rest).length ∧ (mulAdd10VWW v qh 0).2 = 0 then n else n + 1) = n + 1 := by
    rw [if_neg]; rw [hlen]; omega
  rw [hq]
  have e1 : ((a ++ X ++ rest).drop j).take (n + 1) = X := by
    rw [List.append_assoc, List.drop_left' ha]; exact List.take_left' hX
  have e2 : (a ++ X ++ rest).take j = a := by
    rw [List.append_assoc]; exact List.take_left' ha
  have e3 : (a ++ X ++ rest).drop (j + (n + 1)) = rest := by
    rw [List.append_assoc, drop_app a _ j (n + 1) ha]; exact List.drop_left' hX
  rw [e1, e2, e3]
  generalize sub10VV X ((mulAdd10VWW v qh 0).1 ++ [(mulAdd10VWW v qh 0).2]) 0 = sb at *
  by_cases hc : sb.2 ≠ 0
  · rw [if_pos hc, if_pos hc]
    have f1 : ((a ++ sb.1 ++ rest).drop j).take n = sb.1.take n := by
      rw [List.append_assoc, List.drop_left' ha]; exact List.take_append_of_le_length (by omega)
    have f2 : (a ++ sb.1 ++ rest).take j = a := by
      rw [List.append_assoc]; exact List.take_left' ha
    have f3 : (a ++ sb.1 ++ rest).drop (j + n) = sb.1.drop n ++ rest := by
      rw [List.append_assoc, drop_app a _ j n ha]; exact List.drop_append_of_le_length (by omega)
    rw [f1, f2, f3]
    generalize add10VV (sb.1.take n) v 0 = ad at *
    rw [if_pos (by omega)]
    have hdl : (sb.1.drop n).length = 1 := by rw [List.length_drop]; omega
    have g1 : (a ++ ad.1 ++ (sb.1.drop n ++ rest)).take (j + n) = a ++ ad.1 :=
      List.take_left' (by rw [List.length_append, ha, hal])
    have g2 : ((a ++ ad.1 ++ (sb.1.drop n ++ rest)).drop (j + n)).take (n + 1 - n) = sb.1.drop n := by
      rw [List.drop_left' (by rw [List.length_append, ha, hal])]
      exact List.take_left' (by omega)
    have g3 : (a ++ ad.1 ++ (sb.1.drop n ++ rest)).drop (j + (n + 1)) = rest := by
      rw [← List.append_assoc]
      exact List.drop_left' (by simp only [List.length_append, ha, hal, hdl]; omega)
    rw [g1, g2, g3]
  · rw [if_neg hc, if_neg hc]

/-- top window (`n` words, `cq = 0`): the step in closed form. -/
theorem divStep_B (a X v : List Nat) (j n qh : Nat) (ha : a.length = j) (hX : X.length = n)
    (hcq : (mulAdd10VWW v qh 0).2 = 0)
    (hsl : (sub10VV X ((mulAdd10VWW v qh 0).1 ++ [(mulAdd10VWW v qh 0).2]) 0).1.length = n) :
    divStep v n (a ++ X) j qh =
      if (sub10VV X ((mulAdd10VWW v qh 0).1 ++ [(mulAdd10VWW v qh 0).2]) 0).2 ≠ 0 then
        (a ++ (add10VV (sub10VV X ((mulAdd10VWW v qh 0).1 ++ [(mulAdd10VWW v qh 0).2]) 0).1 v 0).1,
          (qh + W - 1) % W)
      else (a ++ (sub10VV X ((mulAdd10VWW v qh 0).1 ++ [(mulAdd10VWW v qh 0).2]) 0).1, qh) := by
  unfold divStep
  simp only []
  have hlen : (a ++ X).length = j + n := by simp only [List.length_append, ha, hX]
  have hq : (if j + (n + 1) > (a ++ X).length ∧ (mulAdd10VWW v qh 0).2 = 0 then n else n + 1) = n := by
    rw [if_pos]; rw [hlen]; exact ⟨by omega, hcq⟩
  rw [hq]
  have e1 : ((a ++ X).drop j).take n = X := by
    rw [List.drop_left' ha]; exact List.take_of_length_le (by omega)
  have e2 : (a ++ X).take j = a := List.take_left' ha
  have e3 : (a ++ X).drop (j + n) = [] := List.drop_eq_nil_of_le (by omega)
  rw [e1, e2, e3, List.append_nil]
  generalize sub10VV X ((mulAdd10VWW v qh 0).1 ++ [(mulAdd10VWW v qh 0).2]) 0 = sb at *
  by_cases hc : sb.2 ≠ 0
  · rw [if_pos hc, if_pos hc]
    have f1 : ((a ++ sb.1).drop j).take n = sb.1 := by
      rw [List.drop_left' ha]; exact List.take_of_length_le (by omega)
    have f2 : (a ++ sb.1).take j = a := List.take_left' ha
    have f3 : (a ++ sb.1).drop (j + n) = [] :=
      List.drop_eq_nil_of_le (by rw [List.length_append, ha, hsl])
    rw [f1, f2, f3, List.append_nil, if_neg (by omega)]
  · rw [if_neg hc, if_neg hc]

theorem sub10VV_append_right (x y e : List Nat) (b : Nat) (hl : x.length = y.length) :
    sub10VV x (y ++ e) b = sub10VV x y b := by
  induction x generalizing y b with
  | nil =>
    cases y with
    | nil => cases e <;> simp [sub10VV]
    | cons _ _ => simp at hl
  | cons a x ih =>
    cases y with
    | nil => simp at hl
    | cons c y =>
      simp only [List.cons_append, sub10VV]
      rw [ih y _ (by simpa using hl)]

/-- D4–D6: given an estimate that is the true digit or one more, the step leaves the remainder in the
    window and returns the true digit. -/
theorem divStep_spec (u v : List Nat) (j n qh : Nat) (hn : 2 ≤ n) (hvl : v.length = n) (hv : WF v)
    (hu : WF u) (hjn : j + n ≤ u.length) (hqh : qh < 10000000000000000000)
    (hR1 : natOf (u.drop j) < (qh + 1) * natOf v) (hR2 : qh * natOf v ≤ natOf (u.drop j) + natOf v)
    (htop : u.length = j + n → natOf (u.drop j) < natOf v) :
    ∃ w' qd, divStep v n u j qh = (u.take j ++ w', qd) ∧ w'.length = (u.drop j).length ∧ WF w'
      ∧ qd < 10000000000000000000 ∧ natOf (u.drop j) = qd * natOf v + natOf w' ∧ natOf w' < natOf v
      ∧ (u.length = j + n → qd = 0) := by
  have hVlt := natOf_lt hv
  rw [hvl] at hVlt
  obtain ⟨m1, m2, m3, m4⟩ := mulAdd10VWW_spec v qh 0 hv hqh (by omega)
  rw [hvl] at m1 m3
  have haL : (u.take j).length = j := by rw [List.length_take]; omega
  have hcomm : natOf v * qh = qh * natOf v := Nat.mul_comm _ _
  rw [hcomm, Nat.add_zero] at m1
  by_cases hA : j + n + 1 ≤ u.length
  · -- interior window
    have hXl : ((u.drop j).take (n + 1)).length = n + 1 := by
      rw [List.length_take, List.length_drop]; omega
    have hu3 : u = u.take j ++ (u.drop j).take (n + 1) ++ u.drop (j + (n + 1)) := by
      rw [List.append_assoc, ← List.drop_drop, List.take_append_drop, List.take_append_drop]
    have hsplit := natOf_take_drop (u.drop j) (n + 1) (by rw [List.length_drop]; omega)
    rw [List.drop_drop] at hsplit
    have hXw : WF ((u.drop j).take (n + 1)) := WF_take (WF_drop hu _) _
    have hrw : WF (u.drop (j + (n + 1))) := WF_drop hu _
    have hrl : (u.drop (j + (n + 1))).length = u.length - (j + (n + 1)) := List.length_drop
    have hdl : (u.drop j).length = u.length - j := List.length_drop
    -- the words above the window are zero
    have hBV : (qh + 1) * natOf v ≤ B * B ^ n :=
      Nat.mul_le_mul (by rw [B_eq]; omega) (by omega)
    have hpow : B ^ (n + 1) = B * B ^ n := by rw [pow_succ, Nat.mul_comm]
    have hrest0 : natOf (u.drop (j + (n + 1))) = 0 := by
      by_contra hne
      have : B ^ (n + 1) * 1 ≤ B ^ (n + 1) * natOf (u.drop (j + (n + 1))) := Nat.mul_le_mul_left _ (by omega)
      rw [← hpow] at hBV
      generalize B ^ (n + 1) = Q at *
      omega
    rw [hrest0, Nat.mul_zero, Nat.add_zero] at hsplit
    generalize hXdef : (u.drop j).take (n + 1) = X at *
    generalize hrdef : u.drop (j + (n + 1)) = rest at *
    generalize hadef : u.take j = a at *
    have hYw : WF ((mulAdd10VWW v qh 0).1 ++ [(mulAdd10VWW v qh 0).2]) :=
      WF_append.mpr ⟨m2, WF_single.mpr m4⟩
    have hYl : X.length = ((mulAdd10VWW v qh 0).1 ++ [(mulAdd10VWW v qh 0).2]).length := by
      rw [List.length_append, m3, hXl]; rfl
    have hYv : natOf ((mulAdd10VWW v qh 0).1 ++ [(mulAdd10VWW v qh 0).2]) = qh * natOf v := by
      rw [natOf_append, natOf_single, m3, ← m1]; ring
    obtain ⟨s1, s2, s3, s4⟩ := sub10VV_spec X _ 0 hXw hYw hYl (by omega)
    rw [hYv, hXl, Nat.add_zero] at s1
    rw [hXl] at s3
    have htl : ((sub10VV X ((mulAdd10VWW v qh 0).1 ++ [(mulAdd10VWW v qh 0).2]) 0).1.take n).length = v.length := by
      rw [List.length_take, s3, hvl]; omega
    obtain ⟨d1, d2, d3, d4⟩ := add10VV_spec _ v 0 (WF_take s2 n) hv htl (by omega)
    rw [htl, hvl] at d3
    rw [htl, hvl, Nat.add_zero] at d1
    have hstep := divStep_A a X rest v j n qh haL hXl m3 s3 d3
    rw [hu3, hstep]
    have hsd := natOf_take_drop (sub10VV X ((mulAdd10VWW v qh 0).1 ++ [(mulAdd10VWW v qh 0).2]) 0).1 n
      (by rw [s3]; omega)
    have hsbl := natOf_lt s2
    rw [s3] at hsbl
    generalize sub10VV X ((mulAdd10VWW v qh 0).1 ++ [(mulAdd10VWW v qh 0).2]) 0 = sb at *
    have hdl' : (a ++ X ++ rest).length = j + (n + 1) + rest.length := by
      simp only [List.length_append, haL, hXl]
    have e2 : (a ++ X ++ rest).take j = a := by rw [List.append_assoc]; exact List.take_left' haL
    have e4 : (a ++ X ++ rest).drop j = X ++ rest := by rw [List.append_assoc]; exact List.drop_left' haL
    rw [e4]
    rw [hu3, e4] at hsplit hR1 hR2
    rw [← hsplit] at hR1 hR2
    by_cases hc : sb.2 ≠ 0
    · rw [if_pos hc]
      have hc1 : sb.2 = 1 := by omega
      rw [hc1, Nat.one_mul] at s1
      have hdw : WF (sb.1.drop n) := WF_drop s2 n
      have hdl1 : (sb.1.drop n).length = 1 := by rw [List.length_drop, s3]; omega
      obtain ⟨w1, w2, w3, w4, _⟩ := add10VW_spec (sb.1.drop n) (add10VV (sb.1.take n) v 0).2 hdw (by omega)
      have w5 := add10VW_carry_le (sb.1.drop n) (add10VV (sb.1.take n) v 0).2 hdw d4
      rw [hdl1] at w1 w3
      generalize add10VV (sb.1.take n) v 0 = ad at *
      generalize add10VW (sb.1.drop n) ad.2 = aw at *
      have hw'w : WF (ad.1 ++ aw.1) := WF_append.mpr ⟨d2, w2⟩
      have hw'l : (ad.1 ++ aw.1).length = n + 1 := by rw [List.length_append, d3, w3]
      have hw'v := natOf_lt hw'w
      rw [hw'l] at hw'v
      have hw'e : natOf (ad.1 ++ aw.1) = natOf ad.1 + B ^ n * natOf aw.1 := by rw [natOf_append, d3]
      have hq1 : 1 ≤ qh := by
        rcases Nat.eq_zero_or_pos qh with h | h
        · rw [h] at s1; omega
        · exact h
      obtain ⟨k, hk⟩ : ∃ k, qh = k + 1 := ⟨qh - 1, by omega⟩
      subst hk
      have hdec : (k + 1 + W - 1) % W = k := by simp only [W_eq]; omega
      rw [hdec]
      have hkv : (k + 1) * natOf v = k * natOf v + natOf v := by ring
      rw [pow_one] at w1
      have hsum : natOf (ad.1 ++ aw.1) + aw.2 * B ^ (n + 1) = natOf sb.1 + natOf v := by
        rw [hw'e, hpow, ← hsd]
        linear_combination d1 + B ^ n * w1
      have haw2 : aw.2 = 1 := by
        by_contra h
        have h0 : aw.2 = 0 := by omega
        rw [h0] at hsum
        omega
      rw [haw2, Nat.one_mul] at hsum
      refine ⟨ad.1 ++ aw.1 ++ rest, k, by simp only [List.append_assoc], ?_, ?_, by omega, ?_, ?_, ?_⟩
      · simp only [List.length_append, d3, w3, hXl]
      · exact WF_append.mpr ⟨hw'w, hrw⟩
      · rw [← hsplit, natOf_append (ad.1 ++ aw.1), hrest0, Nat.mul_zero, Nat.add_zero]
        omega
      · rw [natOf_append, hrest0, Nat.mul_zero, Nat.add_zero]
        omega
      · intro h; rw [hdl'] at h; omega
    · rw [if_neg hc]
      have hc0 : sb.2 = 0 := by omega
      rw [hc0, Nat.zero_mul, Nat.add_zero] at s1
      refine ⟨sb.1 ++ rest, qh, by simp only [List.append_assoc], ?_, WF_append.mpr ⟨s2, hrw⟩, hqh, ?_, ?_, ?_⟩
      · simp only [List.length_append, s3, hXl]
      · rw [← hsplit, natOf_append sb.1, hrest0, Nat.mul_zero, Nat.add_zero]
        omega
      · rw [natOf_append, hrest0, Nat.mul_zero, Nat.add_zero]
        have : (qh + 1) * natOf v = qh * natOf v + natOf v := by ring
        omega
      · intro h; rw [hdl'] at h; omega
  · -- top window
    have hul : u.length = j + n := by omega
    have hRV := htop hul
    have hXl : (u.drop j).length = n := by rw [List.length_drop]; omega
    have hu2 : u = u.take j ++ u.drop j := (List.take_append_drop j u).symm
    have hXw : WF (u.drop j) := WF_drop hu _
    generalize hXdef : u.drop j = X at *
    generalize hadef : u.take j = a at *
    have hqle : qh ≤ 1 := by
      by_contra h
      have : 2 * natOf v ≤ qh * natOf v := Nat.mul_le_mul_right _ (by omega)
      omega
    have hqV : qh * natOf v ≤ natOf v := by
      have : qh * natOf v ≤ 1 * natOf v := Nat.mul_le_mul_right _ hqle
      omega
    have hcq : (mulAdd10VWW v qh 0).2 = 0 := by
      by_contra h
      have : 1 * B ^ n ≤ (mulAdd10VWW v qh 0).2 * B ^ n := Nat.mul_le_mul_right _ (by omega)
      omega
    rw [hcq, Nat.zero_mul, Nat.add_zero] at m1
    have hsame : sub10VV X ((mulAdd10VWW v qh 0).1 ++ [(mulAdd10VWW v qh 0).2]) 0
        = sub10VV X (mulAdd10VWW v qh 0).1 0 := sub10VV_append_right X _ _ 0 (by rw [hXl, m3])
    obtain ⟨s1, s2, s3, s4⟩ := sub10VV_spec X (mulAdd10VWW v qh 0).1 0 hXw m2 (by rw [hXl, m3]) (by omega)
    rw [m1, hXl, Nat.add_zero] at s1
    rw [hXl] at s3
    rw [← hsame] at s1 s2 s3 s4
    obtain ⟨d1, d2, d3, d4⟩ := add10VV_spec _ v 0 s2 hv (by rw [s3, hvl]) (by omega)
    rw [s3] at d3
    rw [s3, Nat.add_zero] at d1
    have hstep := divStep_B a X v j n qh haL hXl hcq s3
    rw [hu2, hstep]
    have hsbl := natOf_lt s2
    rw [s3] at hsbl
    generalize sub10VV X ((mulAdd10VWW v qh 0).1 ++ [(mulAdd10VWW v qh 0).2]) 0 = sb at *
    have e2 : (a ++ X).take j = a := List.take_left' haL
    have e4 : (a ++ X).drop j = X := List.drop_left' haL
    by_cases hc : sb.2 ≠ 0
    · rw [if_pos hc]
      have hc1 : sb.2 = 1 := by omega
      rw [hc1, Nat.one_mul] at s1
      have hq1 : qh = 1 := by
        rcases Nat.eq_zero_or_pos qh with h | h
        · rw [h] at s1; omega
        · omega
      subst hq1
      rw [Nat.one_mul] at s1
      have hdec : (1 + W - 1) % W = 0 := by simp only [W_eq]
      rw [hdec]
      generalize add10VV sb.1 v 0 = ad at *
      have hadl := natOf_lt d2
      rw [d3] at hadl
      have had2 : ad.2 = 1 := by
        by_contra h
        have h0 : ad.2 = 0 := by omega
        rw [h0] at d1
        omega
      rw [had2, Nat.one_mul] at d1
      exact ⟨ad.1, 0, rfl, by rw [d3, hXl], d2, by omega, by omega, by omega, fun _ => rfl⟩
    · rw [if_neg hc]
      have hc0 : sb.2 = 0 := by omega
      rw [hc0, Nat.zero_mul, Nat.add_zero] at s1
      have hq0 : qh = 0 := by
        by_contra h
        have : qh = 1 := by omega
        rw [this, Nat.one_mul] at s1
        omega
      subst hq0
      exact ⟨sb.1, 0, rfl, by rw [s3, hXl], s2, by omega, by omega, by omega, fun _ => rfl⟩

/-! ### divBasic: the loop invariant of Algorithm D -/

theorem divLoop_spec (v : List Nat) (n m : Nat) (hn : 2 ≤ n) (hvl : v.length = n) (hv : WF v)
    (hnorm : 10000000000000000000 ≤ 2 * v.getD (n - 1) 0) :
    ∀ (f j : Nat) (q u : List Nat), j ≤ m → j < f → WF u → u.length = m + n → WF q → q.length = m →
      natOf (u.drop (j + 1)) < natOf v → (j = m → natOf (u.drop m) < natOf v) →
      ∃ q' r, divBasic.loop m v n m (v.getD (n - 1) 0) (v.getD (n - 2) 0) f j q u = .ok (q', r)
        ∧ r.length = m + n ∧ WF r ∧ q'.length = m ∧ WF q' ∧ natOf r < natOf v
        ∧ natOf q' * natOf v + natOf r = natOf (q.drop (j + 1)) * B ^ (j + 1) * natOf v + natOf u := by
  intro f
  induction f with
  | zero => intro j q u _ h; omega
  | succ f ih =>
    intro j q u hjm hjf hu hul hq hql hrem htopc
    rw [divBasic_loop_succ]
    simp only []
    have hdg := natOf_drop_getD u j
    have hujlt := getD_lt u hu j
    have hRB : natOf (u.drop j) < B * natOf v := by
      rw [hdg]
      have : B * (natOf (u.drop (j + 1)) + 1) ≤ B * natOf v := Nat.mul_le_mul_left _ (by omega)
      rw [Nat.mul_add] at this
      have hB := B_eq
      omega
    obtain ⟨e1, e2, e3⟩ := qhatOf_spec u v j n hn hvl hv hu (by omega) hnorm hRB
    have htop' : u.length = j + n → natOf (u.drop j) < natOf v := by
      intro h
      have hj : j = m := by omega
      rw [hj]; exact htopc hj
    obtain ⟨w', qd, hstep, hwl, hww, hqd, hR, hw'v, hqd0⟩ :=
      divStep_spec u v j n _ hn hvl hv hu (by omega) e1 e2 e3 htop'
    rw [hstep]
    simp only []
    have htl : (u.take j).length = j := by rw [List.length_take]; omega
    have hu1w : WF (u.take j ++ w') := WF_append.mpr ⟨WF_take hu _, hww⟩
    have hu1l : (u.take j ++ w').length = m + n := by
      rw [List.length_append, htl, hwl, List.length_drop]; omega
    have hu1d : (u.take j ++ w').drop j = w' := List.drop_left' htl
    have hutd := natOf_take_drop u j (by omega)
    have hu1v : natOf (u.take j ++ w') = natOf (u.take j) + B ^ j * natOf w' := by
      rw [natOf_append, htl]
    by_cases hjtop : j = m
    · -- top window: digit 0, nothing written
      have hq0 := hqd0 (by omega)
      subst hq0
      rw [if_pos (by simp [hjtop])]
      have hval : natOf (u.take j ++ w') = natOf u := by
        rw [hu1v, ← hutd, hR]; ring
      have hqd1 : q.drop (j + 1) = [] := List.drop_eq_nil_of_le (by omega)
      have hqd2 : q.drop j = [] := List.drop_eq_nil_of_le (by omega)
      by_cases hj0 : j = 0
      · rw [if_pos hj0]
        refine ⟨q, u.take j ++ w', rfl, hu1l, hu1w, hql, hq, ?_, ?_⟩
        · rw [hu1v, hj0]; simpa [natOf] using hw'v
        · rw [hval, hqd1]
          have : natOf q = 0 := by
            have : q = [] := List.eq_nil_of_length_eq_zero (by omega)
            rw [this]; rfl
          rw [this]; simp [natOf]
      · rw [if_neg hj0]
        obtain ⟨q', r, h1, h2, h3, h4, h5, h6, h7⟩ := ih (j - 1) q (u.take j ++ w') (by omega) (by omega)
          hu1w hu1l hq hql (by
            have : j - 1 + 1 = j := by omega
            rw [this, hu1d]; exact hw'v) (by intro h; omega)
        refine ⟨q', r, h1, h2, h3, h4, h5, h6, ?_⟩
        have e : j - 1 + 1 = j := by omega
        rw [h7, e, hqd2, hqd1, hval]
        simp [natOf]
    · rw [if_neg (by intro h; exact hjtop h.1), if_neg (by omega)]
      have hq1w : WF (q.take j ++ [qd] ++ q.drop (j + 1)) :=
        WF_append.mpr ⟨WF_append.mpr ⟨WF_take hq _, WF_single.mpr hqd⟩, WF_drop hq _⟩
      have hqtl : (q.take j).length = j := by rw [List.length_take]; omega
      have hq1l : (q.take j ++ [qd] ++ q.drop (j + 1)).length = m := by
        simp only [List.length_append, hqtl, List.length_drop, List.length_cons, List.length_nil]; omega
      have hq1d : (q.take j ++ [qd] ++ q.drop (j + 1)).drop j = qd :: q.drop (j + 1) := by
        rw [List.append_assoc, List.drop_left' hqtl]; rfl
      have hkey : (qd + B * natOf (q.drop (j + 1))) * B ^ j * natOf v + natOf (u.take j ++ w')
          = natOf (q.drop (j + 1)) * B ^ (j + 1) * natOf v + natOf u := by
        rw [hu1v, ← hutd, hR, pow_succ]; ring
      by_cases hj0 : j = 0
      · rw [if_pos hj0]
        refine ⟨_, u.take j ++ w', rfl, hu1l, hu1w, hq1l, hq1w, ?_, ?_⟩
        · rw [hu1v, hj0]; simpa [natOf] using hw'v
        · rw [← hkey]
          subst hj0
          simp only [List.take_zero, List.nil_append, natOf_append, natOf_single, List.length_cons,
            List.length_nil, pow_zero, pow_one, Nat.mul_one, Nat.one_mul, natOf_cons, natOf_nil, Nat.zero_add,
            Nat.mul_zero, Nat.add_zero]
      · rw [if_neg hj0]
        obtain ⟨q', r, h1, h2, h3, h4, h5, h6, h7⟩ := ih (j - 1) (q.take j ++ [qd] ++ q.drop (j + 1))
          (u.take j ++ w') (by omega) (by omega) hu1w hu1l hq1w hq1l (by
            have : j - 1 + 1 = j := by omega
            rw [this, hu1d]; exact hw'v) (by intro h; omega)
        refine ⟨q', r, h1, h2, h3, h4, h5, h6, ?_⟩
        have e : j - 1 + 1 = j := by omega
        rw [h7, e, hq1d, natOf_cons, hkey]

/-- `divBasic_spec`: for a normalised divisor (`2·v[n-1] ≥ B`, `n ≥ 2`) and a dividend whose top `n`
    words are below `v`, `divBasic` never fails and returns quotient and remainder. -/
theorem divBasic_spec (u v : List Nat) (n m : Nat) (hn : 2 ≤ n) (hvl : v.length = n) (hv : WF v)
    (hu : WF u) (hul : u.length = m + n) (hnorm : 10000000000000000000 ≤ 2 * v.getD (n - 1) 0)
    (htop : natOf (u.drop m) < natOf v) :
    ∃ q r, divBasic m u v = .ok (q, r) ∧ r.length = m + n ∧ WF r ∧ q.length = m ∧ WF q
      ∧ natOf r < natOf v ∧ natOf q * natOf v + natOf r = natOf u := by
  unfold divBasic
  simp only []
  have hm : u.length - v.length = m := by omega
  rw [hm, hvl]
  have hrem : natOf (u.drop (m + 1)) < natOf v := by
    have := natOf_drop_getD u m
    have hB := B_pos
    have : natOf (u.drop (m + 1)) ≤ B * natOf (u.drop (m + 1)) := Nat.le_mul_of_pos_left _ hB
    omega
  obtain ⟨q', r, h1, h2, h3, h4, h5, h6, h7⟩ := divLoop_spec v n m hn hvl hv hnorm (m + 1) m (zeros m) u
    (Nat.le_refl _) (by omega) hu hul (WF_zeros _) (length_zeros _) hrem (fun _ => htop)
  refine ⟨q', r, h1, h2, h3, h4, h5, h6, ?_⟩
  rw [h7]
  have : (zeros m).drop (m + 1) = [] := List.drop_eq_nil_of_le (by rw [length_zeros]; omega)
  rw [this]; simp [natOf]

/-! ### divLarge: normalisation (D1), divBasic, un-normalisation (D8) -/

/-- Knuth's normalisation factor `d = ⌊B/(v₁+1)⌋` brings the top word to at least `B/2`. -/
theorem norm_factor (vt : Nat) (h1 : 1 ≤ vt) (h2 : vt < 10000000000000000000) :
    1 ≤ 10000000000000000000 / (vt + 1) ∧ 10000000000000000000 / (vt + 1) < 10000000000000000000
      ∧ (vt + 1) * (10000000000000000000 / (vt + 1)) ≤ 10000000000000000000
      ∧ 10000000000000000000 ≤ 2 * (vt * (10000000000000000000 / (vt + 1))) := by
  have hdm := Nat.div_add_mod 10000000000000000000 (vt + 1)
  have hmod : 10000000000000000000 % (vt + 1) < vt + 1 := Nat.mod_lt _ (by omega)
  have hd1 : 1 ≤ 10000000000000000000 / (vt + 1) := (Nat.one_le_div_iff (by omega)).mpr (by omega)
  have hdlt : 10000000000000000000 / (vt + 1) < 10000000000000000000 := Nat.div_lt_self (by omega) (by omega)
  generalize 10000000000000000000 / (vt + 1) = d at *
  generalize 10000000000000000000 % (vt + 1) = ρ at *
  refine ⟨hd1, hdlt, by omega, ?_⟩
  rcases Nat.lt_or_ge d 2 with hd | hd
  · have : d = 1 := by omega
    subst this
    omega
  · rcases Nat.lt_or_ge vt 2 with hv | hv
    · have : vt = 1 := by omega
      subst this
      omega
    · obtain ⟨a, rfl⟩ : ∃ a, vt = a + 2 := ⟨vt - 2, by omega⟩
      obtain ⟨c, rfl⟩ : ∃ c, d = c + 2 := ⟨d - 2, by omega⟩
      have e1 : (a + 2 + 1) * (c + 2) = a * c + 2 * a + 3 * c + 6 := by ring
      have e2 : (a + 2) * (c + 2) = a * c + 2 * a + 2 * c + 4 := by ring
      rw [e1] at hdm
      rw [e2]
      omega

theorem getD_last_ne_zero {x : List Nat} (hn : Normalized x) (hne : x ≠ []) :
    x.getD (x.length - 1) 0 ≠ 0 := by
  unfold Normalized at hn
  rw [List.getLast?_eq_getElem?] at hn
  rw [List.getD_eq_getElem?_getD]
  have hlt : x.length - 1 < x.length := by
    have : x.length ≠ 0 := fun h => hne (List.eq_nil_of_length_eq_zero h)
    omega
  rw [List.getElem?_eq_getElem hlt] at hn ⊢
  intro h
  apply hn
  simp only [Option.getD_some] at h
  rw [h]

/-- value of a vector split at its top word. -/
theorem natOf_top (x : List Nat) (n : Nat) (hn : 1 ≤ n) (hl : x.length = n) (hx : WF x) :
    natOf x = natOf (x.take (n - 1)) + B ^ (n - 1) * x.getD (n - 1) 0
      ∧ natOf (x.take (n - 1)) < B ^ (n - 1) := by
  have h0 := natOf_take_drop x (n - 1) (by omega)
  have h1 := natOf_drop_getD x (n - 1)
  have e : n - 1 + 1 = n := by omega
  have hd : x.drop n = [] := List.drop_eq_nil_of_le (by omega)
  rw [e, hd, natOf_nil, Nat.mul_zero, Nat.add_zero] at h1
  have hlow := natOf_lt (WF_take hx (n - 1))
  rw [List.length_take, Nat.min_eq_left (by omega)] at hlow
  exact ⟨by rw [← h0, h1], hlow⟩

/-- `divLarge_spec`: for `len v ≥ 2`, `len u ≥ len v`, `v` normalised: never fails, returns the
    normalised quotient and remainder. -/
theorem divLarge_spec (uIn vIn : List Nat) (hu : WF uIn) (hv : WF vIn) (hnv : Normalized vIn)
    (hn : 2 ≤ vIn.length) (hmn : vIn.length ≤ uIn.length) :
    ∃ q r, divLarge uIn vIn = .ok (q, r) ∧ natOf uIn = natOf q * natOf vIn + natOf r
      ∧ natOf r < natOf vIn ∧ WF q ∧ WF r ∧ Normalized q ∧ Normalized r := by
  unfold divLarge
  simp only []
  have hne : vIn ≠ [] := by intro h; rw [h] at hn; simp at hn
  have hvt0 := getD_last_ne_zero hnv hne
  have hvtlt := getD_lt vIn hv (vIn.length - 1)
  obtain ⟨hd1, hdlt, hdv, hdn⟩ := norm_factor (vIn.getD (vIn.length - 1) 0) (by omega) hvtlt
  have hcdb : c_DB = 10000000000000000000 := rfl
  rw [hcdb]
  generalize hvt : vIn.getD (vIn.length - 1) 0 = vt at *
  generalize hd : 10000000000000000000 / (vt + 1) = d at *
  generalize hnn : vIn.length = n at *
  generalize hmm : uIn.length = m at *
  -- v = vIn·d on n words, no carry
  obtain ⟨v1, v2, v3, v4⟩ := mulAdd10VWW_spec vIn d 0 hv hdlt (by omega)
  rw [hnn] at v3
  rw [hnn, Nat.add_zero] at v1
  obtain ⟨vt1, vt2⟩ := natOf_top vIn n (by omega) hnn hv
  rw [hvt] at vt1
  have hpow : B ^ n = B * B ^ (n - 1) := by
    have : n = (n - 1) + 1 := by omega
    rw [this, pow_succ, Nat.mul_comm]; simp
  have hVd : natOf vIn * d < B ^ n := by
    have h1 : natOf vIn + 1 ≤ (vt + 1) * B ^ (n - 1) := by
      rw [vt1]
      have : (vt + 1) * B ^ (n - 1) = B ^ (n - 1) * vt + B ^ (n - 1) := by ring
      omega
    have h2 : (natOf vIn + 1) * d ≤ (vt + 1) * B ^ (n - 1) * d := Nat.mul_le_mul_right _ h1
    have h3 : (vt + 1) * B ^ (n - 1) * d = ((vt + 1) * d) * B ^ (n - 1) := by ring
    have h4 : ((vt + 1) * d) * B ^ (n - 1) ≤ B * B ^ (n - 1) :=
      Nat.mul_le_mul_right _ (by rw [B_eq]; exact hdv)
    have h5 : (natOf vIn + 1) * d = natOf vIn * d + d := by ring
    omega
  have hvlt := natOf_lt v2
  rw [v3] at hvlt
  have hvc : (mulAdd10VWW vIn d 0).2 = 0 := by
    by_contra h
    have : 1 * B ^ n ≤ (mulAdd10VWW vIn d 0).2 * B ^ n := Nat.mul_le_mul_right _ (by omega)
    omega
  rw [hvc, Nat.zero_mul, Nat.add_zero] at v1
  -- top word of v is at least B/2
  obtain ⟨w1, w2⟩ := natOf_top (mulAdd10VWW vIn d 0).1 n (by omega) v3 v2
  have hnormv : 10000000000000000000 ≤ 2 * (mulAdd10VWW vIn d 0).1.getD (n - 1) 0 := by
    have h1 : B ^ (n - 1) * (vt * d) ≤ natOf vIn * d := by
      rw [vt1]
      have : (natOf (vIn.take (n - 1)) + B ^ (n - 1) * vt) * d
          = natOf (vIn.take (n - 1)) * d + B ^ (n - 1) * (vt * d) := by ring
      omega
    have h2 : B ^ (n - 1) * 10000000000000000000 ≤ B ^ (n - 1) * (2 * (vt * d)) :=
      Nat.mul_le_mul_left _ hdn
    by_contra hc
    have h3 : 2 * (mulAdd10VWW vIn d 0).1.getD (n - 1) 0 + 2 ≤ 10000000000000000000 := by omega
    have h4 : B ^ (n - 1) * (2 * (mulAdd10VWW vIn d 0).1.getD (n - 1) 0 + 2)
        ≤ B ^ (n - 1) * 10000000000000000000 := Nat.mul_le_mul_left _ h3
    have h5 : B ^ (n - 1) * (2 * (mulAdd10VWW vIn d 0).1.getD (n - 1) 0 + 2)
        = 2 * (B ^ (n - 1) * (mulAdd10VWW vIn d 0).1.getD (n - 1) 0) + 2 * B ^ (n - 1) := by ring
    have h6 : B ^ (n - 1) * (2 * (vt * d)) = 2 * (B ^ (n - 1) * (vt * d)) := by ring
    omega
  -- u = uIn·d on m+1 words
  obtain ⟨u1, u2, u3, u4⟩ := mulAdd10VWW_spec uIn d 0 hu hdlt (by omega)
  rw [hmm] at u3
  rw [hmm, Nat.add_zero] at u1
  have huw : WF ((mulAdd10VWW uIn d 0).1 ++ [(mulAdd10VWW uIn d 0).2]) :=
    WF_append.mpr ⟨u2, WF_single.mpr u4⟩
  have hul : ((mulAdd10VWW uIn d 0).1 ++ [(mulAdd10VWW uIn d 0).2]).length = (m - n + 1) + n := by
    rw [List.length_append, u3]; simp; omega
  have huv : natOf ((mulAdd10VWW uIn d 0).1 ++ [(mulAdd10VWW uIn d 0).2]) = natOf uIn * d := by
    rw [natOf_append, natOf_single, u3, ← u1]; ring
  generalize (mulAdd10VWW uIn d 0).1 ++ [(mulAdd10VWW uIn d 0).2] = u at *
  generalize (mulAdd10VWW vIn d 0).1 = v at *
  -- the top n words of u are below v
  have hvge : B ^ (n - 1) ≤ natOf vIn := by
    have := natOf_ge_of_Normalized hnv hne
    rw [hnn] at this; exact this
  have htop : natOf (u.drop (m - n + 1)) < natOf v := by
    rw [natOf_drop u (m - n + 1) huw (by omega), huv, v1]
    have hult := natOf_lt hu
    rw [hmm] at hult
    have hpm : B ^ m = B ^ (m - n + 1) * B ^ (n - 1) := by
      rw [← pow_add]; congr 1; omega
    have h1 : natOf uIn * d < B ^ (m - n + 1) * (B ^ (n - 1) * d) := by
      have : natOf uIn * d < B ^ m * d := Nat.mul_lt_mul_of_pos_right hult (by omega)
      rw [hpm, Nat.mul_assoc] at this; exact this
    have h2 : natOf uIn * d / B ^ (m - n + 1) < B ^ (n - 1) * d :=
      Nat.div_lt_of_lt_mul h1
    have h3 : B ^ (n - 1) * d ≤ natOf vIn * d := Nat.mul_le_mul_right _ hvge
    omega
  obtain ⟨q, r, b1, b2, b3, b4, b5, b6, b7⟩ := divBasic_spec u v n (m - n + 1) (by omega) v3 v2 huw hul
    hnormv htop
  rw [b1]
  simp only []
  obtain ⟨rr, rem, c1, c2, c3, c4, _⟩ := divW_spec r d b3 (by omega) hdlt
  rw [c1]
  simp only []
  refine ⟨norm q, norm rr, rfl, ?_, ?_, WF_norm b5, WF_norm c4, Normalized_norm _, Normalized_norm _⟩
  · rw [natOf_norm, natOf_norm]
    -- uIn·d = (q·vIn + rr)·d + rem, rem < d
    have hE : natOf uIn * d = (natOf q * natOf vIn + natOf rr) * d + rem := by
      rw [← huv, ← b7, v1, ← c2]; ring
    have hmod : (natOf uIn * d) % d = 0 := Nat.mul_mod_left _ _
    rw [hE, Nat.mul_comm _ d, Nat.mul_add_mod, Nat.mod_eq_of_lt c3] at hmod
    rw [hmod, Nat.add_zero] at hE
    exact Nat.eq_of_mul_eq_mul_right (by omega) hE
  · rw [natOf_norm]
    have : natOf rr * d < natOf vIn * d := by rw [← v1]; omega
    exact Nat.lt_of_mul_lt_mul_right this

/-! ### div -/

theorem div_zero (u : List Nat) : div u [] = .error "division by zero" := by
  unfold div; rw [if_pos (by rfl)]

/-- `div_spec` (total correctness): for well-formed normalised operands and `v ≠ 0`, `div` never
    fails ("division by zero", "underflow", "index out of range" are all excluded) and returns the
    normalised quotient and remainder of the Euclidean division. -/
theorem div_total (u v : List Nat) (hu : WF u) (hv : WF v) (hnu : Normalized u) (hnv : Normalized v)
    (hne : v ≠ []) :
    ∃ q r, div u v = .ok (q, r) ∧ natOf u = natOf q * natOf v + natOf r ∧ natOf r < natOf v
      ∧ WF q ∧ WF r ∧ Normalized q ∧ Normalized r := by
  unfold div
  have hvl : v.length ≠ 0 := fun h => hne (List.eq_nil_of_length_eq_zero h)
  rw [if_neg hvl]
  have hcmp := cmp_spec u v hu hv hnu hnv
  by_cases hlt : natOf u < natOf v
  · rw [if_pos hlt] at hcmp
    rw [hcmp, if_pos (by decide)]
    exact ⟨[], u, rfl, by simp [natOf], hlt, WF_nil, hu, Normalized_nil, hnu⟩
  · have hge : ¬ (cmp u v < 0) := by
      rw [hcmp, if_neg hlt]
      by_cases hgt : natOf u > natOf v
      · rw [if_pos hgt]; decide
      · rw [if_neg hgt]; decide
    rw [if_neg hge]
    by_cases h1 : v.length = 1
    · rw [if_pos h1]
      cases v with
      | nil => simp at h1
      | cons v0 vs =>
        have hvs : vs = [] := List.eq_nil_of_length_eq_zero (by simpa using h1)
        subst hvs
        have hv0 := WF_single.mp hv
        have hv00 : v0 ≠ 0 := (Normalized_snoc [] v0).mp hnv
        rw [List.headD_cons]
        obtain ⟨q, r, c1, c2, c3, c4, c5⟩ := divW_spec u v0 hu (by omega) hv0
        rw [c1]
        simp only []
        refine ⟨q, setWord r, rfl, ?_, ?_, c4, WF_setWord (by omega), c5 hnu, Normalized_setWord r⟩
        · rw [natOf_setWord, natOf_single]; omega
        · rw [natOf_setWord, natOf_single]; exact c3
    · rw [if_neg h1]
      have hlen : v.length ≤ u.length := by
        by_contra h
        have := natOf_lt_of_length_lt hu hnv (by omega)
        omega
      exact divLarge_spec u v hu hv hnv (by omega) hlen

/-- `div_spec` in the requested (partial-correctness) form. -/
theorem div_spec (u v q r : List Nat) (hu : WF u) (hv : WF v) (hnu : Normalized u) (hnv : Normalized v)
    (hne : v ≠ []) (h : div u v = .ok (q, r)) :
    natOf u = natOf q * natOf v + natOf r ∧ natOf r < natOf v := by
  obtain ⟨q', r', h1, h2, h3, _⟩ := div_total u v hu hv hnu hnv hne
  rw [h1] at h
  injection h with h
  injection h with hq hr
  subst hq hr
  exact ⟨h2, h3⟩

/-- `div` returns no error on valid operands. -/
theorem div_no_error (u v : List Nat) (hu : WF u) (hv : WF v) (hnu : Normalized u) (hnv : Normalized v)
    (hne : v ≠ []) (e : String) : div u v ≠ .error e := by
  obtain ⟨q', r', h1, _⟩ := div_total u v hu hv hnu hnv hne
  rw [h1]; intro h; cases h

end Decimal.L0
