/-
  Elementary facts about `ndigits`, `nwords`, `dnormShift` and the word base `B = 10^19`.
-/
import DecimalModel.Basic
import DecimalModel.Round

namespace Decimal

theorem B_eq : B = 10 ^ 19 := by decide

theorem DW_eq : DW = 19 := rfl

theorem B_pow (n : Nat) : B ^ n = 10 ^ (19 * n) := by
  rw [B_eq, ← Nat.pow_mul]

theorem ndigits_zero : ndigits 0 = 0 := by
  rw [ndigits]; simp

theorem ndigits_of_ne_zero {n : Nat} (h : n ≠ 0) : ndigits n = ndigits (n / 10) + 1 := by
  rw [ndigits]; simp [h]

/-- The characterisation everything else follows from. -/
theorem ndigits_le_iff (n d : Nat) : ndigits n ≤ d ↔ n < 10 ^ d := by
  induction n using Nat.strongRecOn generalizing d with
  | _ n ih =>
    by_cases hn : n = 0
    · subst hn
      rw [ndigits_zero]
      exact ⟨fun _ => Nat.pow_pos (by omega), fun _ => Nat.zero_le _⟩
    · rw [ndigits_of_ne_zero hn]
      cases d with
      | zero =>
        constructor
        · intro h; omega
        · intro h; simp at h; omega
      | succ d =>
        have := ih (n / 10) (Nat.div_lt_self (by omega) (by omega)) d
        rw [Nat.pow_succ, ← Nat.div_lt_iff_lt_mul (by omega : 0 < 10), ← this]
        omega

theorem lt_ndigits_iff (n d : Nat) : d < ndigits n ↔ 10 ^ d ≤ n := by
  have := ndigits_le_iff n d
  omega

theorem ndigits_eq_zero_iff {n : Nat} : ndigits n = 0 ↔ n = 0 := by
  have := ndigits_le_iff n 0
  simp at this
  omega

theorem ndigits_pos {n : Nat} (h : 0 < n) : 0 < ndigits n := by
  have := @ndigits_eq_zero_iff n
  omega

theorem ndigits_lt_pow (n : Nat) : n < 10 ^ ndigits n :=
  (ndigits_le_iff n _).mp (Nat.le_refl _)

theorem pow_le_of_ndigits {n : Nat} (h : 0 < n) : 10 ^ (ndigits n - 1) ≤ n := by
  have := ndigits_pos h
  exact (lt_ndigits_iff n _).mp (by omega)

theorem ndigits_unique {n d : Nat} (h1 : 10 ^ (d - 1) ≤ n) (h2 : n < 10 ^ d) (h0 : 0 < n) :
    ndigits n = d := by
  have a := (ndigits_le_iff n d).mpr h2
  have hd : d ≠ 0 := by
    rintro rfl
    simp at h2; omega
  have b := (lt_ndigits_iff n (d - 1)).mpr h1
  omega

theorem ndigits_mono {a b : Nat} (h : a ≤ b) : ndigits a ≤ ndigits b :=
  (ndigits_le_iff a _).mpr (Nat.lt_of_le_of_lt h (ndigits_lt_pow b))

theorem ndigits_mul_pow {n : Nat} (h : 0 < n) (k : Nat) : ndigits (n * 10 ^ k) = ndigits n + k := by
  have hk : 0 < 10 ^ k := Nat.pow_pos (by omega)
  have hnd := ndigits_pos h
  apply ndigits_unique
  · have : ndigits n + k - 1 = (ndigits n - 1) + k := by omega
    rw [this, Nat.pow_add]
    exact Nat.mul_le_mul_right _ (pow_le_of_ndigits h)
  · rw [Nat.pow_add]
    exact Nat.mul_lt_mul_of_pos_right (ndigits_lt_pow n) hk
  · exact Nat.mul_pos h hk

theorem ndigits_div_pow (n k : Nat) : ndigits (n / 10 ^ k) = ndigits n - k := by
  have hk : 0 < 10 ^ k := Nat.pow_pos (by omega)
  have key : ∀ d, ndigits (n / 10 ^ k) ≤ d ↔ ndigits n - k ≤ d := by
    intro d
    rw [ndigits_le_iff, Nat.div_lt_iff_lt_mul hk, ← Nat.pow_add, ← ndigits_le_iff]
    omega
  have a := (key (ndigits n - k)).mpr (Nat.le_refl _)
  have b := (key (ndigits (n / 10 ^ k))).mp (Nat.le_refl _)
  omega

theorem ndigits_one : ndigits 1 = 1 := by
  apply ndigits_unique <;> simp

theorem ndigits_pow (k : Nat) : ndigits (10 ^ k) = k + 1 := by
  have := ndigits_mul_pow (n := 1) (by omega) k
  rw [Nat.one_mul, ndigits_one] at this
  omega

/-- A `p`-digit coefficient. -/
theorem ndigits_eq_of_coef {c p : Nat} (h1 : 10 ^ (p - 1) ≤ c) (h2 : c < 10 ^ p) :
    ndigits c = p :=
  ndigits_unique h1 h2 (Nat.lt_of_lt_of_le (Nat.pow_pos (by omega)) h1)

/-! ### `nwords`, `dnormShift` -/

theorem nwords_def (n : Nat) : nwords n = (ndigits n + 18) / 19 := rfl

theorem ndigits_le_nwords (n : Nat) : ndigits n ≤ nwords n * 19 := by
  rw [nwords_def]; omega

theorem nwords_lt (n : Nat) : nwords n * 19 < ndigits n + 19 := by
  rw [nwords_def]; omega

theorem nwords_pos {n : Nat} (h : 0 < n) : 0 < nwords n := by
  have := ndigits_pos h
  rw [nwords_def]; omega

theorem dnormShift_def (M len : Nat) : dnormShift M len = len * 19 - ndigits M := rfl

theorem dnormShift_lt (M : Nat) : dnormShift M (nwords M) < 19 := by
  have := nwords_lt M
  rw [dnormShift_def]; omega

theorem ndigits_add_dnormShift (M : Nat) : ndigits M + dnormShift M (nwords M) = nwords M * 19 := by
  have := ndigits_le_nwords M
  rw [dnormShift_def]; omega

theorem ndigits_dnorm {M : Nat} (h : 0 < M) :
    ndigits (M * 10 ^ dnormShift M (nwords M)) = nwords M * 19 := by
  rw [ndigits_mul_pow h, ndigits_add_dnormShift]

end Decimal
