/-
  The literal model of `sqrtInverse` / `Sqrt` (DecimalModel/SqrtLit.lean) against the abstract
  model `Decimal.sqrt` (DecimalModel/Sqrt.lean).  Final statements: Properties/C05Lit.lean.

    1. `DecEquiv`: equality of states up to low zero words of the mantissa (the driver's
       `sameState`); `round`, `Set`, `SetMantExp` respect it;
    2. the Newton loop never panics and leaves a `t` that is zero, infinite or canonical
       (`newtonStep_spec`, `newtonLoop_spec`), whatever the seed;
    3. `s = x·t` is a zero, a positive float, or a state from which the loops never exit
       (`litS_class`); the correction part (`sqrtCorrect_spec`): if it returns, it returns `Set` of the
       candidate of `sqrtCandidate` (or of the midpoint);
    4. `sqrtLit_equiv_sqrt_main`.
  Termination: Proofs/SqrtLitTerm.lean; the Newton loop with a good seed: Proofs/SqrtLitNewton.lean.
-/
import Proofs.SqrtLitLoops
import Proofs.SqrtLitNeg
import Proofs.RoundProps

namespace Decimal
open Spec

/-! ### 1. `DecEquiv` -/

/-- Equality of two Decimal states up to the number of (low, zero) words of the mantissa: the
    driver's `sameState`. -/
def DecEquiv (a b : Dec) : Prop :=
  a.form = b.form ∧ a.neg = b.neg ∧ a.prec = b.prec ∧ a.mode = b.mode ∧ a.acc = b.acc ∧
    (a.form = .finite → a.exp = b.exp ∧ a.mant * B ^ (b.len - a.len) = b.mant * B ^ (a.len - b.len))

theorem DecEquiv.refl (a : Dec) : DecEquiv a a := ⟨rfl, rfl, rfl, rfl, rfl, fun _ => ⟨rfl, rfl⟩⟩

theorem DecEquiv.of_eq {a b : Dec} (h : a = b) : DecEquiv a b := h ▸ DecEquiv.refl a

/-- The mantissa relation of `DecEquiv` is "same digits after the point". -/
theorem mant_rel_iff (am al bm bl : Nat) (i : Int) :
    am * B ^ (bl - al) = bm * B ^ (al - bl) ↔
      qval am (i - ((al * 19 : Nat) : Int)) = qval bm (i - ((bl * 19 : Nat) : Int)) := by
  rw [qval_eq_iff, B_pow, B_pow]
  have e1 : (i - ((al * 19 : Nat) : Int) - (i - ((bl * 19 : Nat) : Int))).toNat = 19 * (bl - al) := by omega
  have e2 : (i - ((bl * 19 : Nat) : Int) - (i - ((al * 19 : Nat) : Int))).toNat = 19 * (al - bl) := by omega
  rw [e1, e2]

theorem DecEquiv.of_val {a b : Dec} (h1 : a.form = b.form) (h2 : a.neg = b.neg) (h3 : a.prec = b.prec)
    (h4 : a.mode = b.mode) (h5 : a.acc = b.acc) (h6 : a.form = .finite → a.exp = b.exp ∧ magVal a = magVal b) :
    DecEquiv a b := by
  refine ⟨h1, h2, h3, h4, h5, fun hf => ?_⟩
  obtain ⟨he, hv⟩ := h6 hf
  refine ⟨he, ?_⟩
  rw [mant_rel_iff _ _ _ _ a.exp]
  unfold magVal at hv
  rw [intExp_eq, intExp_eq, ← he] at hv
  exact hv

theorem DecEquiv.val {a b : Dec} (h : DecEquiv a b) (hf : a.form = .finite) (i : Int) :
    qval a.mant (i - ((a.len * 19 : Nat) : Int)) = qval b.mant (i - ((b.len * 19 : Nat) : Int)) :=
  (mant_rel_iff _ _ _ _ i).mp (h.2.2.2.2.2 hf).2

/-- Two states that agree with the same specification result. -/
theorem DecEquiv.of_agrees {a b : Dec} {r : SRes} (ha : agrees a r = true) (hb : agrees b r = true)
    (hp : a.prec = b.prec) (hm : a.mode = b.mode) : DecEquiv a b := by
  have ha' := (agrees_iff _ _).mp ha
  have hb' := (agrees_iff _ _).mp hb
  refine DecEquiv.of_val (by rw [ha'.1, hb'.1]) (by rw [ha'.2.1, hb'.2.1]) hp hm (by rw [ha'.2.2.1, hb'.2.2.1]) ?_
  intro hf
  have hfb : b.form = .finite := by rw [hb'.1, ← ha'.1, hf]
  refine ⟨by rw [(ha'.2.2.2 hf).1, (hb'.2.2.2 hfb).1], ?_⟩
  rw [agrees_magVal ha hf, agrees_magVal hb hfb]

/-- `round` of a normalised finite value, through `roundInt`. -/
theorem round_agrees_roundInt (z : Dec) (hf : z.form = .finite) (hlen : 0 < z.len)
    (hnd : ndigits z.mant = z.len * 19) (hp : 1 ≤ z.prec) (hmin : MinExp ≤ z.exp) (hmax : z.exp ≤ MaxExp) :
    agrees (round z false) (roundInt z.mode z.prec z.neg z.mant (intExp z) false) = true ∧
      (round z false).prec = z.prec ∧ (round z false).mode = z.mode := by
  have hpos : 0 < z.mant := by
    rcases Nat.eq_zero_or_pos z.mant with h | h
    · rw [h, ndigits_zero] at hnd; omega
    · exact h
  rw [round_eq_setExpAndRound z false hf hmin hmax, setExpAndRound_eq z z.exp false hnd]
  obtain ⟨h1, h2, h3, -⟩ := setNormAndRound_eq_roundInt z z.mant (z.exp - ((z.len * 19 : Nat) : Int)) false hpos hp
    (by intro h; cases h)
  exact ⟨h1, h2, h3⟩

/-- `round` respects `DecEquiv` on normalised finite values. -/
theorem round_equiv (a b : Dec) (ha : FinCanon a) (hb : FinCanon b) (hn : a.neg = b.neg) (hp : a.prec = b.prec)
    (hm : a.mode = b.mode) (hv : magVal a = magVal b) :
    DecEquiv (round a false) (round b false) := by
  obtain ⟨a1, a2, a3⟩ := round_agrees_roundInt a ha.form_eq ha.len_pos ha.nd ha.prec_pos ha.exp_ge ha.exp_le
  obtain ⟨b1, b2, b3⟩ := round_agrees_roundInt b hb.form_eq hb.len_pos hb.nd hb.prec_pos hb.exp_ge hb.exp_le
  rw [roundInt_congr_val a.mode a.prec a.neg a.mant b.mant (intExp a) (intExp b) ha.mant_pos hb.mant_pos hv,
    hn, hp, hm] at a1
  exact DecEquiv.of_agrees a1 b1 (by rw [a2, b2, hp]) (by rw [a3, b3, hm])


/-! ### 2. The Newton loop -/

/-- A finite state has a non-zero mantissa (all that `Mul`/`Sub` need from an operand). -/
def PosMant (d : Dec) : Prop := d.form = .finite → 0 < d.mant

theorem PosMant.of_canonical {d : Dec} (h : d.Canonical) : PosMant d := fun hf => (h.fin hf).2.2.2.2.2.2.1

theorem litThree_canonical : litThree.Canonical := by
  rw [litThree_eq]
  refine ⟨by decide, Or.inr (Or.inl rfl), fun _ => ⟨Nat.le_refl _, ?_, by decide, by decide, by decide, Or.inl (by decide)⟩⟩
  rw [DW_eq]; exact nd_e18 3 (by omega) (by omega)

theorem litOneHalf_form : litOneHalf.form = .finite := by rw [litOneHalf_eq]
theorem litOneHalf_posMant : PosMant litOneHalf := by rw [litOneHalf_eq]; intro _; decide
theorem litThree_form : litThree.form = .finite := by rw [litThree_eq]

/-- `mul` with a receiver of non-zero precision is the kernel on the selected operands. -/
theorem mul_eq_mulK' (z x y : Dec) (sx sy : Bool) (hz : z.prec ≠ 0) :
    mul z x y sx sy = mulK z (opnd z x sx) (opnd z y sy) := by
  rw [mul_eq_mulK, prologue_of_nonzero hz]

theorem sub_eq_subK' (z x y : Dec) (hz : z.prec ≠ 0) :
    sub z x y = subK z x y (set z x) (subTail z y false) := by
  rw [sub_eq_subK, prologue_of_nonzero hz]; rfl

theorem mulK_ok (z x y : Dec) (h1 : ¬ (x.form = .zero ∧ y.form = .inf)) (h2 : ¬ (x.form = .inf ∧ y.form = .zero)) :
    (mulK z x y).2 = .ok := by
  cases hx : x.form <;> cases hy : y.form <;> simp [mulK, hx, hy] at h1 h2 ⊢

theorem mulK_form_zero (z x y : Dec) (h : (x.form = .zero ∧ y.form ≠ .inf) ∨ (y.form = .zero ∧ x.form ≠ .inf)) :
    (mulK z x y).1.form = .zero := by
  cases hx : x.form <;> cases hy : y.form <;> simp [mulK, hx, hy] at h ⊢

theorem mulK_form_inf (z x y : Dec) (h : (x.form = .inf ∧ y.form ≠ .zero) ∨ (y.form = .inf ∧ x.form ≠ .zero)) :
    (mulK z x y).1.form = .inf := by
  cases hx : x.form <;> cases hy : y.form <;> simp [mulK, hx, hy] at h ⊢

theorem mulK_canon (z x y : Dec) (hz1 : 1 ≤ z.prec) (hz2 : z.prec ≤ MaxPrec) (hx : PosMant x) (hy : PosMant y) :
    (mulK z x y).1.Canonical :=
  mulK_canonical hz2 (fun h1 h2 => ⟨hz1, hx h1, hy h2⟩)

theorem subK_three_ok (z y sX sT : Dec) : (subK z litThree y sX sT).2 = .ok := by
  cases hy : y.form <;> simp [subK, litThree_form, hy]

theorem round_form_fin_of_exp (z : Dec) (sb : Bool) (hf : z.form = .finite) (he : z.exp < MaxExp) :
    (round z sb).form = .finite := by
  simp only [round]
  repeat' split
  all_goals first | exact hf | rfl | (exfalso; omega)

theorem set_three_form (z : Dec) : (set z litThree).form = .finite := by
  rw [litThree_eq]
  simp only [set, Bool.false_eq_true, if_false, beq_self_eq_true, if_true]
  split
  · rfl
  · split
    · exact round_form_fin_of_exp _ _ rfl (by show (1 : Int) < MaxExp; decide)
    · rfl

theorem subK_three_form_zero (z y sT : Dec) (hy : y.form = .zero) :
    (subK z litThree y (set z litThree) sT).1.form = .finite := by
  simp [subK, litThree_form, hy, set_three_form]

theorem subTail_form_inf (z y : Dec) (hy : y.form = .inf) : (subTail z y false).form = .inf := by
  simp [subTail, hy, round]

theorem subK_three_form_inf (z y sX : Dec) (hy : y.form = .inf) :
    (subK z litThree y sX (subTail z y false)).1.form = .inf := by
  simp [subK, litThree_form, hy, subTail_form_inf]

theorem subK_three_canon (z y : Dec) (hz1 : 1 ≤ z.prec) (hz2 : z.prec ≤ MaxPrec) (hy : y.Canonical) :
    (subK z litThree y (set z litThree) (subTail z y false)).1.Canonical :=
  subK_canonical hz2
    (fun h1 h2 => ⟨hz1, (litThree_canonical.fin h1).2.2.2.2.2.2.1, (hy.fin h2).2.2.2.2.2.2.1⟩)
    (fun _ => set_canonical z litThree hz2 litThree_canonical)
    (fun _ => subTail_canonical z y hz2 hy (fun _ => hz1))


theorem u32_eq (n : Nat) (h1 : 2 ≤ n) (h2 : n ≤ 2147483648) : u32 ((n : Int) * 2 - 2) = 2 * n - 2 := by
  unfold u32
  have : ((n : Int) * 2 - 2) % 4294967296 = (n : Int) * 2 - 2 := Int.emod_eq_of_lt (by omega) (by omega)
  rw [this]; omega

/-- One pass of the Newton loop never panics and leaves a canonical `t` of the doubled precision,
    whatever the values. -/
theorem newtonStep_spec (x t u v : Dec) (hxf : x.form = .finite) (hxm : 0 < x.mant) (ht : PosMant t)
    (hp1 : 2 ≤ t.prec) (hp2 : t.prec ≤ 2147483648) :
    (newtonStep x t u v).2 = .ok ∧ (newtonStep x t u v).1.1.Canonical ∧
      (newtonStep x t u v).1.1.prec = 2 * t.prec - 2 := by
  have hMP : MaxPrec = 4294967295 := rfl
  have hpi := u32_eq t.prec hp1 hp2
  obtain ⟨π, hπ⟩ : ∃ π, 2 * t.prec - 2 = π := ⟨_, rfl⟩
  rw [hπ] at hpi ⊢
  have hπ1 : 1 ≤ π := by omega
  have hπ2 : π ≤ MaxPrec := by omega
  have hπ0 : π ≠ 0 := by omega
  unfold newtonStep
  simp only [hpi]
  -- abbreviations
  generalize ht' : ({ t with prec := π } : Dec) = t'
  have ht'f : t'.form = t.form := by rw [← ht']
  have ht'm : PosMant t' := by rw [← ht']; exact ht
  have ht'p : t'.prec = π := by rw [← ht']
  generalize hu' : ({ u with prec := π } : Dec) = u'
  have hu'p : u'.prec = π := by rw [← hu']
  generalize hv' : ({ v with prec := π } : Dec) = v'
  have hv'p : v'.prec = π := by rw [← hv']
  have hxP : PosMant x := fun _ => hxm
  -- m1 = u.Mul(t, t)
  have e1 : mul u' t' t' = mulK u' t' t' := by rw [mul_eq_mulK' _ _ _ _ _ (by omega)]; rfl
  have o1 : (mulK u' t' t').2 = .ok := mulK_ok _ _ _ (by intro h; rw [h.1] at h; cases h.2) (by intro h; rw [h.1] at h; cases h.2)
  have c1 : (mulK u' t' t').1.Canonical := mulK_canon _ _ _ (by omega) (by omega) ht'm ht'm
  have p1 : (mulK u' t' t').1.prec = π := by
    have := mul_prec u' t' t' false false; rw [e1] at this; rw [this, if_neg (by omega), hu'p]
  rw [e1]
  generalize hm1 : mulK u' t' t' = m1 at *
  obtain ⟨m1d, m1o⟩ := m1
  simp only at o1 c1 p1
  subst o1
  simp only [bne_self_eq_false, Bool.false_eq_true, if_false]
  -- m2 = u.Mul(x, u)
  have e2 : mul m1d x m1d false true = mulK m1d x m1d := by rw [mul_eq_mulK' _ _ _ _ _ (by omega)]; rfl
  have o2 : (mulK m1d x m1d).2 = .ok := mulK_ok _ _ _ (by intro h; rw [hxf] at h; cases h.1) (by intro h; rw [hxf] at h; cases h.1)
  have c2 : (mulK m1d x m1d).1.Canonical := mulK_canon _ _ _ (by omega) (by omega) hxP (PosMant.of_canonical c1)
  have p2 : (mulK m1d x m1d).1.prec = π := by
    have := mul_prec m1d x m1d false true; rw [e2] at this; rw [this, if_neg (by omega), p1]
  rw [e2]
  generalize hm2 : mulK m1d x m1d = m2 at *
  obtain ⟨m2d, m2o⟩ := m2
  simp only at o2 c2 p2
  subst o2
  simp only [bne_self_eq_false, Bool.false_eq_true, if_false]
  -- m3 = v.Sub(three, u)
  have e3 : sub v' litThree m2d = subK v' litThree m2d (set v' litThree) (subTail v' m2d false) :=
    sub_eq_subK' _ _ _ (by omega)
  have o3 := subK_three_ok v' m2d (set v' litThree) (subTail v' m2d false)
  have c3 := subK_three_canon v' m2d (by omega) (by omega) c2
  have p3 : (subK v' litThree m2d (set v' litThree) (subTail v' m2d false)).1.prec = π := by
    have := sub_prec v' litThree m2d false false; rw [e3] at this; rw [this, if_neg (by omega), hv'p]
  have f3z := subK_three_form_zero v' m2d (subTail v' m2d false)
  have f3i := subK_three_form_inf v' m2d (set v' litThree)
  rw [e3]
  generalize hm3 : subK v' litThree m2d (set v' litThree) (subTail v' m2d false) = m3 at *
  obtain ⟨m3d, m3o⟩ := m3
  simp only at o3 c3 p3 f3z f3i
  subst o3
  simp only [bne_self_eq_false, Bool.false_eq_true, if_false]
  -- m4 = u.Mul(t, v)
  have e4 : mul m2d t' m3d = mulK m2d t' m3d := by rw [mul_eq_mulK' _ _ _ _ _ (by omega)]; rfl
  have o4 : (mulK m2d t' m3d).2 = .ok := by
    apply mulK_ok
    · rintro ⟨h1, h2⟩
      -- t = 0: t² = 0, x·0 = 0, 3 − 0 is finite
      have z1 : m1d.form = .zero := by
        have := mulK_form_zero u' t' t' (Or.inl ⟨h1, by rw [h1]; simp⟩); rw [hm1] at this; exact this
      have z2 : m2d.form = .zero := by
        have := mulK_form_zero m1d x m1d (Or.inr ⟨z1, by rw [hxf]; simp⟩); rw [hm2] at this; exact this
      rw [f3z z2] at h2; cases h2
    · rintro ⟨h1, h2⟩
      -- t = ∞: t² = ∞, x·∞ = ∞, 3 − ∞ = −∞
      have z1 : m1d.form = .inf := by
        have := mulK_form_inf u' t' t' (Or.inl ⟨h1, by rw [h1]; simp⟩); rw [hm1] at this; exact this
      have z2 : m2d.form = .inf := by
        have := mulK_form_inf m1d x m1d (Or.inr ⟨z1, by rw [hxf]; simp⟩); rw [hm2] at this; exact this
      rw [f3i z2] at h2; cases h2
  have c4 : (mulK m2d t' m3d).1.Canonical := mulK_canon _ _ _ (by omega) (by omega) ht'm (PosMant.of_canonical c3)
  rw [e4]
  generalize hm4 : mulK m2d t' m3d = m4 at *
  obtain ⟨m4d, m4o⟩ := m4
  simp only at o4 c4
  subst o4
  simp only [bne_self_eq_false, Bool.false_eq_true, if_false]
  -- m5 = t.Mul(u, oneHalf)
  have e5 : mul t' m4d litOneHalf = mulK t' m4d litOneHalf := by rw [mul_eq_mulK' _ _ _ _ _ (by omega)]; rfl
  have o5 : (mulK t' m4d litOneHalf).2 = .ok :=
    mulK_ok _ _ _ (by intro h; rw [litOneHalf_form] at h; cases h.2) (by intro h; rw [litOneHalf_form] at h; cases h.2)
  have c5 : (mulK t' m4d litOneHalf).1.Canonical :=
    mulK_canon _ _ _ (by omega) (by omega) (PosMant.of_canonical c4) litOneHalf_posMant
  have p5 : (mulK t' m4d litOneHalf).1.prec = π := by
    have := mul_prec t' m4d litOneHalf false false; rw [e5] at this; rw [this, if_neg (by omega), ht'p]
  rw [e5]
  exact ⟨o5, c5, p5⟩


theorem newtonLoop_zero (prec : Nat) (x t u v : Dec) :
    newtonLoop prec x 0 t u v = if t.prec < prec then none else some ((t, u, v), .ok) := by
  rw [newtonLoop]

theorem newtonLoop_succ (prec : Nat) (x : Dec) (f : Nat) (t u v : Dec) :
    newtonLoop prec x (f + 1) t u v =
      if t.prec < prec then
        if (newtonStep x t u v).2 = .ok then
          newtonLoop prec x f (newtonStep x t u v).1.1 (newtonStep x t u v).1.2.1 (newtonStep x t u v).1.2.2
        else some (newtonStep x t u v)
      else some ((t, u, v), .ok) := by
  rw [newtonLoop]
  split
  · generalize newtonStep x t u v = st
    obtain ⟨⟨a, b, c⟩, o⟩ := st
    cases o <;> simp
  · rfl

/-- The Newton loop never panics, and its `t` is zero, infinite, or finite with a non-zero mantissa. -/
theorem newtonLoop_spec (prec : Nat) (x : Dec) (hxf : x.form = .finite) (hxm : 0 < x.mant)
    (hprec : prec ≤ 2147483649) :
    ∀ (fuel : Nat) (t u v : Dec) (r : Dec × Dec × Dec) (o : Outcome), PosMant t → 2 ≤ t.prec →
      newtonLoop prec x fuel t u v = some (r, o) → o = .ok ∧ PosMant r.1 := by
  intro fuel
  induction fuel with
  | zero =>
    intro t u v r o ht _ hres
    rw [newtonLoop_zero] at hres
    split at hres
    · cases hres
    · simp only [Option.some.injEq, Prod.mk.injEq] at hres
      obtain ⟨hr, ho⟩ := hres
      subst hr
      exact ⟨ho.symm, ht⟩
  | succ f ih =>
    intro t u v r o ht hp hres
    rw [newtonLoop_succ] at hres
    split at hres
    · next hlt =>
      obtain ⟨s1, s2, s3⟩ := newtonStep_spec x t u v hxf hxm ht hp (by omega)
      rw [if_pos s1] at hres
      exact ih _ _ _ r o (PosMant.of_canonical s2) (by omega) hres
    · simp only [Option.some.injEq, Prod.mk.injEq] at hres
      obtain ⟨hr, ho⟩ := hres
      subst hr
      exact ⟨ho.symm, ht⟩


/-! ### 3. The correction part -/

theorem round_form_ne_zero (z : Dec) (sb : Bool) (hf : z.form = .finite) : (round z sb).form ≠ .zero := by
  simp only [round]
  repeat' split
  all_goals simp_all

theorem snr_zero_exp (z : Dec) (M : Nat) (e : Int) (sb : Bool) (h : (setNormAndRound z M e sb).form = .zero) :
    (setNormAndRound z M e sb).exp = z.exp := by
  unfold setNormAndRound setExpAndRound at h ⊢
  simp only at h ⊢
  split
  · rfl
  · next h1 =>
    rw [if_neg h1] at h
    split
    · rfl
    · next h2 =>
      rw [if_neg h2] at h
      exact absurd h (round_form_ne_zero _ _ rfl)

theorem litS_s0 (p : Nat) (h1 : p + 1 ≤ MaxPrec) :
    setMode (setPrec {} (p + 1)) .ToZero = { prec := p + 1, mode := .ToZero } := by
  have a : ¬ (p + 1 > MaxPrec) := by omega
  simp [setPrec, setMode, a, Exact]

theorem roundInt_coef_bounds (mode : Mode) (p : Nat) (neg : Bool) (N : Nat) (k : Int) (hN : 0 < N) (hp : 1 ≤ p)
    (hf : (roundInt mode p neg N k false).form = .finite) :
    10 ^ (p - 1) ≤ (roundInt mode p neg N k false).coef ∧ (roundInt mode p neg N k false).coef < 10 ^ p ∧
      ndigits (roundInt mode p neg N k false).coef = p := by
  have hq : (0 : ℚ) < (N : ℚ) := by exact_mod_cast hN
  have heq := roundInt_eq_round mode p neg N k false (N : ℚ) hN hp (by intro h; cases h) (by simp)
  rw [heq] at hf ⊢
  have hnd := round_coef_digits mode p neg (N : ℚ) k hq hp hf
  have hpos : 0 < (Spec.round mode p neg (N : ℚ) k).coef := by
    rcases Nat.eq_zero_or_pos (Spec.round mode p neg (N : ℚ) k).coef with h | h
    · rw [h, ndigits_zero] at hnd; omega
    · exact h
  refine ⟨?_, ?_, hnd⟩
  · have := pow_le_of_ndigits hpos; rwa [hnd] at this
  · have := ndigits_lt_pow (Spec.round mode p neg (N : ℚ) k).coef; rwa [hnd] at this

/-- `s := x·t` (precision `p + 1`, ToZero): zero with exponent 0, or a `p+1`-digit float, as soon as
    it is neither negative nor infinite. -/
theorem litS_inv1 (z x t : Dec) (p : Nat) (hzp : z.prec = p) (hx : WorkX x) (ht : PosMant t) (hp1 : 1 ≤ p)
    (hp2 : p + 1 ≤ 2147483647) (hneg : (litS z x t).1.neg = false) (hinf : (litS z x t).1.form ≠ .inf) :
    (litS z x t).2 = .ok ∧ Inv1 (p + 1) (litS z x t).1 := by
  have hMP : MaxPrec = 4294967295 := rfl
  have hMin : MinExp = -2147483648 := rfl
  unfold litS at hneg hinf ⊢
  rw [hzp, litS_s0 p (by omega)] at hneg hinf ⊢
  have hmk : mul ({ prec := p + 1, mode := .ToZero } : Dec) x t = mulK { prec := p + 1, mode := .ToZero } x t := by
    rw [mul_eq_mulK' _ _ _ _ _ (by simp)]; rfl
  rw [hmk] at hneg hinf ⊢
  have hxf := hx.fin.form_eq
  cases htf : t.form
  · -- t = 0
    have : mulK ({ prec := p + 1, mode := .ToZero } : Dec) x t =
        ({ prec := p + 1, mode := .ToZero, neg := x.neg != t.neg, acc := Exact, form := .zero }, .ok) := by
      simp [mulK, hxf, htf]
    rw [this] at hneg ⊢
    refine ⟨rfl, Or.inl ⟨rfl, rfl, rfl, ?_, ?_⟩⟩
    · simp only; omega
    · simp only; omega
  · -- t finite
    have hm : mulK ({ prec := p + 1, mode := .ToZero } : Dec) x t =
        (setNormAndRound { prec := p + 1, mode := .ToZero, neg := x.neg != t.neg } (x.mant * t.mant)
          (intExp x + intExp t) false, .ok) := by
      simp [mulK, hxf, htf, umul]
    rw [hm] at hneg hinf ⊢
    simp only at hneg hinf ⊢
    have hM : 0 < x.mant * t.mant := Nat.mul_pos hx.fin.mant_pos (ht htf)
    obtain ⟨hag, hprec, hmode, hneg'⟩ := setNormAndRound_eq_roundInt
      { prec := p + 1, mode := .ToZero, neg := x.neg != t.neg } (x.mant * t.mant) (intExp x + intExp t) false hM
      (by simp) (by intro h; cases h)
    simp only at hag hprec hmode hneg'
    have hcan := setNormAndRound_canonical { prec := p + 1, mode := .ToZero, neg := x.neg != t.neg }
      (x.mant * t.mant) (intExp x + intExp t) false hM (by simp) (by simp only; omega)
    have hnn : (x.neg != t.neg) = false := by rw [← hneg', hneg]
    simp only [hnn] at hag hprec hmode hcan hneg hinf ⊢
    clear hneg' hm
    generalize hsdef : setNormAndRound { prec := p + 1, mode := .ToZero } (x.mant * t.mant)
      (intExp x + intExp t) false = s at *
    refine ⟨trivial, ?_⟩
    cases hsf : s.form
    · -- underflow: a zero with the exponent of the fresh Decimal
      left
      have hexp := snr_zero_exp { prec := p + 1, mode := .ToZero } (x.mant * t.mant) (intExp x + intExp t) false
        (by rw [hsdef]; exact hsf)
      rw [hsdef] at hexp
      simp only at hexp
      exact ⟨hsf, hprec, hmode, by rw [hexp]; omega, by rw [hexp]; omega⟩
    · right
      have hag' := (agrees_iff _ _).mp hag
      have hrf : (roundInt .ToZero (p + 1) false (x.mant * t.mant) (intExp x + intExp t) false).form = .finite := by
        rw [← hag'.1, hsf]
      obtain ⟨b1, b2, b3⟩ := roundInt_coef_bounds _ _ _ _ _ hM (by omega) hrf
      obtain ⟨c1, c2, c3, c4, c5, -, -, -⟩ := hcan.fin hsf
      refine ⟨_, _, ⟨⟨hsf, c1, c2, c5, c3, c4⟩, hneg, hprec, hmode, (hag'.2.2.2 hsf).1, ?_, b1, b2⟩⟩
      rw [agrees_magVal hag hsf, b3]
    · exact absurd hsf hinf
  · -- t = ∞
    have : (mulK ({ prec := p + 1, mode := .ToZero } : Dec) x t).1.form = .inf :=
      mulK_form_inf _ _ _ (Or.inr ⟨htf, by rw [hxf]; simp⟩)
    exact absurd this hinf


theorem round_exp_le (z : Dec) (sb : Bool) (h : z.exp ≤ MaxExp) : (round z sb).exp ≤ MaxExp := by
  simp only [round]
  repeat' split
  all_goals first | exact h | (simp only; omega)

theorem snr_exp_le (z : Dec) (M : Nat) (e : Int) (sb : Bool) (h : z.exp ≤ MaxExp) :
    (setNormAndRound z M e sb).exp ≤ MaxExp := by
  unfold setNormAndRound setExpAndRound
  simp only
  split
  · exact h
  · split
    · exact h
    · exact round_exp_le _ _ (by simp only; omega)

/-- `s := x·t` (precision `p + 1`, ToZero), whatever `t`: a zero with exponent 0 or a positive float
    (`Inv1`), or one of the states from which the loops never exit (`BadS`). -/
theorem litS_class (z x t : Dec) (p : Nat) (hzp : z.prec = p) (hx : WorkX x) (ht : PosMant t) (hp1 : 1 ≤ p)
    (hp2 : p + 1 ≤ 2147483647) :
    (litS z x t).2 = .ok ∧ (Inv1 (p + 1) (litS z x t).1 ∨ BadS (p + 1) (litS z x t).1) := by
  have hMP : MaxPrec = 4294967295 := rfl
  have hMin : MinExp = -2147483648 := rfl
  have hMax : MaxExp = 2147483647 := rfl
  unfold litS
  rw [hzp, litS_s0 p (by omega)]
  have hmk : mul ({ prec := p + 1, mode := .ToZero } : Dec) x t = mulK { prec := p + 1, mode := .ToZero } x t := by
    rw [mul_eq_mulK' _ _ _ _ _ (by simp)]; rfl
  rw [hmk]
  have hxf := hx.fin.form_eq
  cases htf : t.form
  · -- t = ±0
    have : mulK ({ prec := p + 1, mode := .ToZero } : Dec) x t =
        ({ prec := p + 1, mode := .ToZero, neg := x.neg != t.neg, acc := Exact, form := .zero }, .ok) := by
      simp [mulK, hxf, htf]
    rw [this]
    refine ⟨rfl, Or.inl (Or.inl ⟨rfl, rfl, rfl, ?_, ?_⟩)⟩
    · simp only; omega
    · simp only; omega
  · -- t finite
    have hm : mulK ({ prec := p + 1, mode := .ToZero } : Dec) x t =
        (setNormAndRound { prec := p + 1, mode := .ToZero, neg := x.neg != t.neg } (x.mant * t.mant)
          (intExp x + intExp t) false, .ok) := by
      simp [mulK, hxf, htf, umul]
    rw [hm]
    simp only
    have hM : 0 < x.mant * t.mant := Nat.mul_pos hx.fin.mant_pos (ht htf)
    obtain ⟨hag, hprec, hmode, hneg'⟩ := setNormAndRound_eq_roundInt
      { prec := p + 1, mode := .ToZero, neg := x.neg != t.neg } (x.mant * t.mant) (intExp x + intExp t) false hM
      (by simp) (by intro h; cases h)
    simp only at hag hprec hmode hneg'
    have hcan := setNormAndRound_canonical { prec := p + 1, mode := .ToZero, neg := x.neg != t.neg }
      (x.mant * t.mant) (intExp x + intExp t) false hM (by simp) (by simp only; omega)
    have hexple := snr_exp_le { prec := p + 1, mode := .ToZero, neg := x.neg != t.neg }
      (x.mant * t.mant) (intExp x + intExp t) false (by simp only; omega)
    have hzexp := snr_zero_exp { prec := p + 1, mode := .ToZero, neg := x.neg != t.neg } (x.mant * t.mant)
      (intExp x + intExp t) false
    simp only at hzexp
    generalize hsdef : setNormAndRound { prec := p + 1, mode := .ToZero, neg := x.neg != t.neg } (x.mant * t.mant)
      (intExp x + intExp t) false = s at *
    refine ⟨trivial, ?_⟩
    cases hsf : s.form
    · left; left
      have hexp := hzexp hsf
      exact ⟨hsf, hprec, hmode, by rw [hexp]; omega, by rw [hexp]; omega⟩
    · have hag' := (agrees_iff _ _).mp hag
      have hrf : (roundInt .ToZero (p + 1) (x.neg != t.neg) (x.mant * t.mant) (intExp x + intExp t) false).form = .finite := by
        rw [← hag'.1, hsf]
      obtain ⟨b1, b2, b3⟩ := roundInt_coef_bounds _ _ _ _ _ hM (by omega) hrf
      obtain ⟨c1, c2, c3, c4, c5, -, -, -⟩ := hcan.fin hsf
      have hval : magVal s = qval (roundInt .ToZero (p + 1) (x.neg != t.neg) (x.mant * t.mant) (intExp x + intExp t) false).coef
          ((roundInt .ToZero (p + 1) (x.neg != t.neg) (x.mant * t.mant) (intExp x + intExp t) false).exp - ((p + 1 : Nat) : Int)) := by
        rw [agrees_magVal hag hsf, b3]
      cases hsn : s.neg
      · left; right
        exact ⟨_, _, ⟨⟨hsf, c1, c2, c5, c3, c4⟩, hsn, hprec, hmode, (hag'.2.2.2 hsf).1, hval, b1, b2⟩⟩
      · right; right
        exact ⟨_, _, ⟨⟨hsf, c1, c2, c5, c3, c4⟩, hsn, hprec, hmode, (hag'.2.2.2 hsf).1, hval, b1, b2⟩⟩
    · right; left
      exact ⟨hsf, hprec, fun _ => by rw [hprec]; push_cast; omega⟩
  · -- t = ±∞
    have : mulK ({ prec := p + 1, mode := .ToZero } : Dec) x t =
        ({ prec := p + 1, mode := .ToZero, neg := x.neg != t.neg, acc := Exact, form := .inf }, .ok) := by
      simp [mulK, hxf, htf]
    rw [this]
    refine ⟨rfl, Or.inr (Or.inl ⟨rfl, rfl, fun _ => ?_⟩)⟩
    simp only
    push_cast
    omega


theorem setPrec_fresh (P : Nat) (h0 : P ≠ 0) (h1 : P ≤ MaxPrec) : (setPrec {} P).prec = P := by
  have a : ¬ (P > MaxPrec) := by omega
  simp [setPrec, h0, a]

/-- What `sqrtInverse` hands to `z.Set`: the float `(c, e)` with `s² ≤ x < (s+ulp)²`, or its
    midpoint with the next float when the root is not exact. -/
structure FinalS (p1 : Nat) (x sfin : Dec) (c : Nat) (e : Int) : Prop where
  lo : 10 ^ (p1 - 1) ≤ c
  hi : c < 10 ^ p1
  le : sqLE p1 x c e
  gt : ¬ sqLE p1 x (c + 1) e
  fin : FinCanon sfin
  neg : sfin.neg = false
  exp : sfin.exp = e
  cases : (magVal x = fval p1 c e * fval p1 c e ∧ sfin.prec = p1 ∧ magVal sfin = qval c (e - p1)) ∨
          (magVal x ≠ fval p1 c e * fval p1 c e ∧ sfin.prec = p1 + 1 ∧ magVal sfin = qval (c * 10 + 5) (e - p1 - 1))

theorem sqrtCorrect_spec (fuel : Nat) (z t u : Dec) (p : Nat) (hzp : z.prec = p) (hz : WorkX z)
    (ht : PosMant t) (hp1 : 1 ≤ p) (hp2 : 2 * p + 4 ≤ MaxPrec)
    (r : Dec × Outcome) (hres : sqrtCorrect fuel z t u = some r) :
    r.2 = .ok ∧ ∃ sfin c e, r.1 = set z sfin ∧ FinalS (p + 1) z sfin c e := by
  have hMP : MaxPrec = 4294967295 := rfl
  have hMin : MinExp = -2147483648 := rfl
  obtain ⟨l1, l2'⟩ := litS_class z z t p hzp hz ht hp1 (by omega)
  have hsq0 : (setPrec {} (2 * (p + 1) + 2)).prec = 2 * (p + 1) + 2 := setPrec_fresh _ (by omega) (by omega)
  rcases l2' with l2 | hbad
  swap
  · -- a negative or infinite `s`: the loops never exit
    exfalso
    have hsprec : (litS z z t).1.prec = p + 1 := by
      rcases hbad with ⟨-, h, -⟩ | ⟨c, e, h⟩
      · exact h
      · exact h.prec
    unfold sqrtCorrect at hres
    simp only [l1, bne_self_eq_false, Bool.false_eq_true, if_false, hsprec] at hres
    rcases loops_bad_none (p1 := p + 1) (P := 2 * (p + 1) + 2) z hz (by omega) (by omega) (by omega) (by omega)
      fuel (litS z z t).1 u (setPrec {} (2 * (p + 1) + 2)) {} hbad hsq0 with h1 | ⟨sq1, h1, h2⟩
    · rw [h1] at hres; cases hres
    · rw [h1] at hres
      simp only [bne_self_eq_false, Bool.false_eq_true, if_false, h2] at hres
      cases hres
  unfold sqrtCorrect at hres
  simp only [l1, bne_self_eq_false, Bool.false_eq_true, if_false] at hres
  have hsprec : (litS z z t).1.prec = p + 1 := by
    rcases l2 with h | ⟨c, e, h⟩
    · exact h.prec
    · exact h.prec
  generalize (litS z z t).1 = s0 at *
  rw [hsprec] at hres
  have hsq : (setPrec {} (2 * (p + 1) + 2)).prec = 2 * (p + 1) + 2 := setPrec_fresh _ (by omega) (by omega)
  generalize setPrec {} (2 * (p + 1) + 2) = sq0 at *
  -- loop 1
  split at hres
  · cases hres
  · next s1 sq1 ulp1 o2 hl1 =>
    obtain ⟨a1, a2, a3, -, -⟩ := corrLoop1_spec (p1 := p + 1) (P := 2 * (p + 1) + 2) z hz (by omega) (by omega) (by omega) (by omega)
      fuel s0 sq0 {} (s1, sq1, ulp1) o2 l2 hsq hl1
    subst a1
    simp only [bne_self_eq_false, Bool.false_eq_true, if_false] at hres
    -- loop 2
    split at hres
    · cases hres
    · next s2 u2 sq2 ulp2 o3 hl2 =>
      obtain ⟨b1, b2, c, e, b3, b4, b5⟩ := corrLoop2_spec (p1 := p + 1) (P := 2 * (p + 1) + 2) z hz (by omega) (by omega)
        (by omega) (by omega) fuel s1 u sq1 ulp1 (s2, u2, sq2, ulp2) o3 a2 a3 hl2
      subst b1
      simp only at b2 b3
      simp only [bne_self_eq_false, Bool.false_eq_true, if_false] at hres
      -- midpoint
      obtain ⟨d1, -, -, d4⟩ := cmp_rep sq2 s2 z c e hz b3 (by omega) (by omega)
      have he1 : e ≤ 1 := exp_le_of_sqLE hz (by omega) b3.lo b4
      have he0 : -1 ≤ e := by
        by_contra hcon
        exact b5 (sqLE_of_exp_neg hz (by have := b3.hi; omega) (by omega))
      unfold midpointStep at hres
      simp only [d1, bne_self_eq_false, Bool.false_eq_true, if_false] at hres
      by_cases hex : magVal z = fval (p + 1) c e * fval (p + 1) c e
      · have : cmp (mul sq2 s2 s2).1 z = 0 := d4.mpr hex
        simp only [this, bne_self_eq_false, Bool.false_eq_true, if_false, Option.some.injEq] at hres
        subst hres
        exact ⟨rfl, s2, c, e, rfl, ⟨b3.lo, b3.hi, b4, b5, b3.fin, b3.neg, b3.exp, Or.inl ⟨hex, b3.prec, b3.val⟩⟩⟩
      · have : cmp (mul sq2 s2 s2).1 z ≠ 0 := fun h => hex (d4.mp h)
        obtain ⟨m1, m2, m3, m4, m5, m6⟩ := midpoint_add_spec s2 ulp2 c e b3 (by omega) (by omega) (by omega)
        simp only [bne_iff_ne, ne_eq, this, not_false_eq_true, if_true, m1, bne_self_eq_false,
          Bool.false_eq_true, if_false, Option.some.injEq] at hres
        subst hres
        exact ⟨rfl, _, c, e, rfl, ⟨b3.lo, b3.hi, b4, b5, m2, m3, m4, Or.inr ⟨hex, m5, by push_cast at m6 ⊢; exact m6⟩⟩⟩


/-- `s² ≤ x` in the cross-multiplied form of `sqrtCandidate_bracket`. -/
theorem sqLE_iff_nat (p1 : Nat) (x : Dec) (c : Nat) (e : Int) :
    sqLE p1 x c e ↔
      c * c * 10 ^ (-(2 * ((p1 : Int) - e) + x.exp - ((x.len * 19 : Nat) : Int))).toNat ≤
        x.mant * 10 ^ (2 * ((p1 : Int) - e) + x.exp - ((x.len * 19 : Nat) : Int)).toNat := by
  unfold sqLE fval magVal
  rw [← qval_sq, qval_le_iff, intExp_eq]
  have e1 : (2 * (e - (p1 : Int)) - (x.exp - ((x.len * 19 : Nat) : Int))).toNat =
      (-(2 * ((p1 : Int) - e) + x.exp - ((x.len * 19 : Nat) : Int))).toNat := by congr 1; omega
  have e2 : (x.exp - ((x.len * 19 : Nat) : Int) - 2 * (e - (p1 : Int))).toNat =
      (2 * ((p1 : Int) - e) + x.exp - ((x.len * 19 : Nat) : Int)).toNat := by congr 1; omega
  rw [e1, e2]

theorem sqEQ_iff_nat (p1 : Nat) (x : Dec) (c : Nat) (e : Int) :
    magVal x = fval p1 c e * fval p1 c e ↔
      c * c * 10 ^ (-(2 * ((p1 : Int) - e) + x.exp - ((x.len * 19 : Nat) : Int))).toNat =
        x.mant * 10 ^ (2 * ((p1 : Int) - e) + x.exp - ((x.len * 19 : Nat) : Int)).toNat := by
  unfold fval magVal
  rw [← qval_sq, eq_comm, qval_eq_iff, intExp_eq]
  have e1 : (2 * (e - (p1 : Int)) - (x.exp - ((x.len * 19 : Nat) : Int))).toNat =
      (-(2 * ((p1 : Int) - e) + x.exp - ((x.len * 19 : Nat) : Int))).toNat := by congr 1; omega
  have e2 : (x.exp - ((x.len * 19 : Nat) : Int) - 2 * (e - (p1 : Int))).toNat =
      (2 * ((p1 : Int) - e) + x.exp - ((x.len * 19 : Nat) : Int)).toNat := by congr 1; omega
  rw [e1, e2]

/-- The Decimal that the abstract model hands to `z.Set` (DecimalModel/Sqrt.lean). -/
def sqrtAbsS (x : Dec) (p1 : Nat) : Dec :=
  let cand := sqrtCandidate x.mant x.len x.exp p1
  let sc := if cand.2.2 then cand.1 * 10 + 5 else cand.1
  let sprec := if cand.2.2 then p1 + 1 else p1
  { form := .finite, neg := false, mant := sc * 10 ^ dnormShift sc (nwords sc), len := nwords sc,
    exp := cand.2.1, prec := sprec, mode := .ToZero, acc := Exact }

/-- The final `s` of the literal `sqrtInverse` has the value, exponent and precision of the abstract one. -/
theorem finalS_vs_abs {p1 : Nat} {x sfin : Dec} {c : Nat} {e : Int} (hx : WorkX x) (hp1 : 1 ≤ p1)
    (h : FinalS p1 x sfin c e) :
    FinCanon (sqrtAbsS x p1) ∧ sfin.exp = (sqrtAbsS x p1).exp ∧ sfin.prec = (sqrtAbsS x p1).prec ∧
      magVal sfin = magVal (sqrtAbsS x p1) ∧ p1 ≤ sfin.prec := by
  obtain ⟨k1, k2, k3, k4, k5⟩ := sqrtCandidate_bracket x.mant x.len x.exp p1 hp1 hx.fin.len_pos hx.fin.nd
    (by have := hx.exp; omega)
  generalize hcand : sqrtCandidate x.mant x.len x.exp p1 = cand at *
  obtain ⟨c0, se, inex⟩ := cand
  simp only at k1 k2 k3 k4 k5
  have hc0pos : 0 < c0 := by
    rcases Nat.eq_zero_or_pos c0 with h0 | h0
    · rw [h0, ndigits_zero] at k2; omega
    · exact h0
  have hc0lo : 10 ^ (p1 - 1) ≤ c0 := by have := pow_le_of_ndigits hc0pos; rwa [k2] at this
  have hc0hi : c0 < 10 ^ p1 := by have := ndigits_lt_pow c0; rwa [k2] at this
  have hse : se = 0 ∨ se = 1 := by rw [k1]; split <;> simp
  rw [← k1] at k3 k4 k5
  -- the candidate's bracket in the order on floats
  have q3 : sqLE p1 x c0 se := by rw [sqLE_iff_nat]; exact k3
  have q4 : ¬ sqLE p1 x (c0 + 1) se := by rw [sqLE_iff_nat]; exact Nat.not_le.mpr k4
  obtain ⟨hc, he⟩ := bracket_unique hp1 h.lo h.hi hc0lo hc0hi h.le h.gt q3 q4
  subst hc he
  have q5 : inex = true ↔ magVal x ≠ fval p1 c e * fval p1 c e := by
    rw [k5, ne_eq, ne_eq, sqEQ_iff_nat]
  have hMin : MinExp = -2147483648 := rfl
  have hMax : MaxExp = 2147483647 := rfl
  unfold sqrtAbsS
  rw [hcand]
  simp only
  rcases h.cases with ⟨hex, hp, hv⟩ | ⟨hex, hp, hv⟩
  · have hi : inex = false := by
      cases inex
      · rfl
      · exact absurd hex (q5.mp rfl)
    subst hi
    simp only [Bool.false_eq_true, if_false]
    have hs := ndigits_add_dnormShift c
    refine ⟨⟨rfl, nwords_pos hc0pos, ndigits_dnorm hc0pos, hp1, by simp only; omega, by simp only; omega⟩,
      h.exp, hp, ?_, by omega⟩
    rw [hv]
    unfold magVal
    rw [intExp_eq]
    symm
    apply qval_scale'
    simp only
    omega
  · have hi : inex = true := q5.mpr hex
    subst hi
    simp only [if_true]
    have hmpos : 0 < c * 10 + 5 := by omega
    have hmnd : ndigits (c * 10 + 5) = p1 + 1 := by
      have := ndigits_midpoint (q := p1 - 1) (c := c) (by omega); omega
    have hs := ndigits_add_dnormShift (c * 10 + 5)
    refine ⟨⟨rfl, nwords_pos hmpos, ndigits_dnorm hmpos, by simp only; omega, by simp only; omega, by simp only; omega⟩,
      h.exp, hp, ?_, by omega⟩
    rw [hv]
    unfold magVal
    rw [intExp_eq]
    symm
    apply qval_scale'
    simp only
    omega


/-! ### 4. Assembly -/

theorem set_round_form (z s : Dec) (hz : z.prec ≠ 0) (hlt : z.prec < s.prec) (hsf : s.form = .finite) :
    set z s = round ⟨.finite, s.neg, s.mant, s.len, s.exp, z.prec, z.mode, Exact⟩ false := by
  have hp0 : (z.prec == 0) = false := by simp; omega
  simp [set, hsf, hp0, hlt]

/-- `z.Set(s)` (with rounding) respects `DecEquiv` in `s`; both results are canonical. -/
theorem set_equiv (z s s' : Dec) (hs : FinCanon s) (hs' : FinCanon s') (hn : s.neg = s'.neg) (_he : s.exp = s'.exp)
    (hv : magVal s = magVal s') (hz1 : 1 ≤ z.prec) (hz2 : z.prec ≤ MaxPrec) (hlt : z.prec < s.prec)
    (hlt' : z.prec < s'.prec) :
    DecEquiv (set z s) (set z s') ∧ (set z s).Canonical ∧ (set z s').Canonical := by
  refine ⟨?_, set_round_canonical z s hz1 hz2 hs.form_eq hlt hs.len_pos hs.nd hs.exp_ge hs.exp_le,
    set_round_canonical z s' hz1 hz2 hs'.form_eq hlt' hs'.len_pos hs'.nd hs'.exp_ge hs'.exp_le⟩
  rw [set_round_form z s (by omega) hlt hs.form_eq, set_round_form z s' (by omega) hlt' hs'.form_eq]
  apply round_equiv
  · exact ⟨rfl, hs.len_pos, hs.nd, hz1, hs.exp_ge, hs.exp_le⟩
  · exact ⟨rfl, hs'.len_pos, hs'.nd, hz1, hs'.exp_ge, hs'.exp_le⟩
  · exact hn
  · rfl
  · rfl
  · unfold magVal at hv ⊢
    rw [intExp_eq] at hv ⊢
    rw [intExp_eq] at hv ⊢
    exact hv

/-- `z.SetMantExp(z, k)` respects `DecEquiv` on canonical states. -/
theorem setMantExp_self_equiv (a b : Dec) (k : Int) (h : DecEquiv a b) (ha : a.Canonical) (hb : b.Canonical) :
    DecEquiv (setMantExp a a k true) (setMantExp b b k true) := by
  obtain ⟨h1, h2, h3, h4, h5, h6⟩ := h
  by_cases hf : a.form = .finite
  · have hfb : b.form = .finite := by rw [← h1, hf]
    obtain ⟨he, hm⟩ := h6 hf
    obtain ⟨a1, a2, a3, a4, a5, -, -, -⟩ := ha.fin hf
    obtain ⟨b1, b2, b3, b4, b5, -, -, -⟩ := hb.fin hfb
    simp only [setMantExp, copy, if_true, hf, hfb, bne_self_eq_false, Bool.false_eq_true, if_false,
      setExpAndRound, ← he]
    split
    · exact ⟨rfl, h2, h3, h4, by simp only [h2], fun h => by cases h⟩
    · split
      · exact ⟨rfl, h2, h3, h4, by simp only [h2], fun h => by cases h⟩
      · next g1 g2 =>
        apply round_equiv
        · exact ⟨rfl, a1, a2, a5, by simp only; omega, by simp only; omega⟩
        · exact ⟨rfl, b1, b2, b5, by simp only; omega, by simp only; omega⟩
        · exact h2
        · exact h3
        · exact h4
        · unfold magVal
          rw [intExp_eq, intExp_eq]
          exact (mant_rel_iff _ _ _ _ _).mp hm
  · have hfb : b.form ≠ .finite := by rw [← h1]; exact hf
    simp only [setMantExp, copy, if_true, bne_iff_ne, ne_eq, hf, hfb, not_false_eq_true]
    exact ⟨h1, h2, h3, h4, h5, h6⟩

/-- With a finite operand only the precision and mode of the receiver of `Set` matter. -/
theorem set_recv_irrel (z z' s : Dec) (hsf : s.form = .finite) (hp : z.prec = z'.prec) (hm : z.mode = z'.mode) :
    set z s = set z' s := by
  obtain ⟨zf, zn, zm, zl, ze, zp, zmo, za⟩ := z
  obtain ⟨zf', zn', zm', zl', ze', zp', zmo', za'⟩ := z'
  simp only at hp hm
  subst hp hm
  simp [set, hsf]

/-- The receiver when `sqrtInverse` is called. -/
theorem sqrtWork_eq (z x : Dec) (same : Bool) (hf : (opnd z x same).form = .finite) :
    sqrtWork z (opnd z x same) same =
      ((opnd z x same).exp,
        { (opnd z x same) with exp := goMod2 (opnd z x same).exp, prec := z.prec, mode := z.mode }) := by
  cases same
  · simp only [opnd, Bool.false_eq_true, if_false] at hf ⊢
    simp [sqrtWork, mantExp, copy, hf]
  · simp only [opnd, if_true] at hf ⊢
    simp [sqrtWork, mantExp, copy, hf]


/-- The receiver/operand of `sqrtInverse` in the call `z.Sqrt(x)` (finite operand). -/
def sqrtWorkOf (z x : Dec) (same : Bool) : Dec :=
  (sqrtWork (prologue z x.prec) (opnd (prologue z x.prec) x same) same).2

theorem u32_prec (p : Nat) (h : p + 2 ≤ 4294967295) : u32 ((p : Int) + 2) = p + 2 := by
  unfold u32
  have : ((p : Int) + 2) % 4294967296 = (p : Int) + 2 := Int.emod_eq_of_lt (by omega) (by omega)
  rw [this]; omega

/-- `sqrtInverse` with any seed: if it returns, it returns `Set` of a final `s` as in `FinalS`. -/
theorem sqrtInverseLit_spec (fuel : Nat) (t0 zw : Dec) (p : Nat) (hzp : zw.prec = p) (hz : WorkX zw)
    (ht0 : PosMant t0) (ht0p : 2 ≤ t0.prec) (hp1 : 1 ≤ p) (hp2 : 2 * p + 4 ≤ MaxPrec)
    (r : Dec × Outcome) (hres : sqrtInverseLit fuel t0 zw = some r) :
    r.2 = .ok ∧ ∃ sfin c e, r.1 = set zw sfin ∧ FinalS (p + 1) zw sfin c e := by
  have hMP : MaxPrec = 4294967295 := rfl
  unfold sqrtInverseLit at hres
  simp only at hres
  split at hres
  · cases hres
  · next t u v o hN =>
    obtain ⟨n1, n2⟩ := newtonLoop_spec _ zw hz.fin.form_eq hz.fin.mant_pos
      (by rw [hzp, u32_prec p (by omega)]; omega) fuel t0 {} {} (t, u, v) o ht0 ht0p hN
    subst n1
    simp only [bne_self_eq_false, Bool.false_eq_true, if_false] at hres
    exact sqrtCorrect_spec fuel zw t u p hzp hz n2 hp1 hp2 r hres

/-- The body of `sqrtLit` after the prologue and the operand selection. -/
def sqrtLitK (fuel : Nat) (t0 z X : Dec) (same : Bool) : Option (Dec × Outcome) :=
  if X.form != .zero && X.neg then some (z, .errNaN)
  else if X.form != .finite then some ({ z with acc := Exact, form := X.form, neg := X.neg }, .ok)
  else
    match sqrtInverseLit fuel t0 (sqrtWork z X same).2 with
    | none => none
    | some (z1, o) =>
      if o != .ok then some (z1, o)
      else some (setMantExp z1 z1 (goDiv2 (sqrtWork z X same).1) true, .ok)

theorem sqrtLit_eq_K (fuel : Nat) (t0 z x : Dec) (same : Bool) :
    sqrtLit fuel t0 z x same =
      sqrtLitK fuel t0 (prologue z x.prec) (opnd (prologue z x.prec) x same) same := rfl

/-- Main theorem: whenever the literal model returns, it returns what the abstract model
    returns, up to low zero words of the mantissa. -/
theorem sqrtLit_equiv_sqrt_main (fuel : Nat) (t0 z x : Dec) (same : Bool) (r : Dec × Outcome)
    (hX : (opnd (prologue z x.prec) x same).form = .finite → (opnd (prologue z x.prec) x same).neg = false →
      0 < (opnd (prologue z x.prec) x same).len ∧
      ndigits (opnd (prologue z x.prec) x same).mant = (opnd (prologue z x.prec) x same).len * 19 ∧
      MinExp ≤ (opnd (prologue z x.prec) x same).exp ∧ (opnd (prologue z x.prec) x same).exp ≤ MaxExp ∧
      1 ≤ (prologue z x.prec).prec ∧ 2 * (prologue z x.prec).prec + 4 ≤ MaxPrec)
    (ht0 : PosMant t0) (ht0p : 2 ≤ t0.prec)
    (hres : sqrtLit fuel t0 z x same = some r) :
    r.2 = (sqrt z x same).2 ∧ DecEquiv r.1 (sqrt z x same).1 := by
  rw [sqrt_eq_sqrtK]
  rw [sqrtLit_eq_K] at hres
  generalize prologue z x.prec = z' at *
  have hw := sqrtWork_eq z' x same
  generalize opnd z' x same = X at *
  unfold sqrtK
  unfold sqrtLitK at hres
  by_cases h1 : (X.form != .zero && X.neg) = true
  · rw [if_pos h1] at hres ⊢
    simp only [Option.some.injEq] at hres
    subst hres
    exact ⟨rfl, DecEquiv.refl _⟩
  rw [if_neg h1] at hres ⊢
  by_cases h2 : (X.form != .finite) = true
  · rw [if_pos h2] at hres ⊢
    simp only [Option.some.injEq] at hres
    subst hres
    exact ⟨rfl, DecEquiv.refl _⟩
  rw [if_neg h2] at hres ⊢
  have hXf : X.form = .finite := by simpa using h2
  have hXn : X.neg = false := by
    simp only [hXf, Bool.and_eq_true, bne_iff_ne, ne_eq, not_and, Bool.not_eq_true] at h1
    exact h1 (by simp)
  obtain ⟨x1, x2, x3, x4, hp1, hp2⟩ := hX hXf hXn
  have hMP : MaxPrec = 4294967295 := rfl
  obtain ⟨g1, g2, -, -⟩ := goMod2_goDiv2 X.exp
  rw [hw hXf] at hres
  simp only at hres
  generalize hzw : ({ X with exp := goMod2 X.exp, prec := z'.prec, mode := z'.mode } : Dec) = zw at *
  have hzwp : zw.prec = z'.prec := by rw [← hzw]
  have hzwm : zw.mode = z'.mode := by rw [← hzw]
  have hW : WorkX zw := by
    rw [← hzw]
    exact ⟨⟨hXf, x1, x2, hp1, by simp only [MinExp]; omega, by simp only [MaxExp]; omega⟩, hXn, by simp only; omega⟩
  split at hres
  · cases hres
  · next z1 o hinv =>
    obtain ⟨i1, sfin, c, e, i2, i3⟩ := sqrtInverseLit_spec fuel t0 zw z'.prec hzwp hW ht0 ht0p hp1 hp2 (z1, o) hinv
    simp only at i1 i2
    subst i1
    simp only [bne_self_eq_false, Bool.false_eq_true, if_false, Option.some.injEq] at hres
    subst hres
    refine ⟨rfl, ?_⟩
    obtain ⟨a1, a2, a3, a4, a5⟩ := finalS_vs_abs hW (by omega) i3
    have habs : sqrtFin z' X = setMantExp (set z' (sqrtAbsS zw (z'.prec + 1))) (set z' (sqrtAbsS zw (z'.prec + 1)))
        (goDiv2 X.exp) true := by
      rw [← hzw]; rfl
    rw [habs, i2, set_recv_irrel zw z' sfin i3.fin.form_eq hzwp hzwm]
    obtain ⟨e1, e2, e3⟩ := set_equiv z' sfin (sqrtAbsS zw (z'.prec + 1)) i3.fin a1
      (by rw [i3.neg]; rfl) a2 a4 hp1 (by omega) (by omega) (by rw [← a3]; omega)
    exact setMantExp_self_equiv _ _ _ e1 e2 e3


end Decimal
