/-
  The converse of Proofs/ScanBase.lean: everything the mantissa digit loop accepts is the rendering of
  a digit run with well-placed separators. Used for `parse_ok_is_literal` (Proofs/ScanInv2.lean):
  every input accepted by `Parse` is an infinity spelling or the rendering of a well-formed `LitB`.
-/
import Proofs.ScanBase3

namespace Decimal

theorem renderU_append_single (us : UDigits) (fl : Bool) (c : Nat) :
    renderU (us ++ [(fl, c)]) = renderU us ++ (if fl then [95, c] else [c]) := by
  induction us with
  | nil => cases fl <;> simp [renderU]
  | cons u us ih =>
    obtain ⟨f, d⟩ := u
    cases f <;> simp only [List.cons_append, renderU, ih]

theorem valB_append_single (b : Nat) (cs : List Nat) (c : Nat) :
    valB b (cs ++ [c]) = valB b cs * b + digitVal c := by
  rw [valB_append, valB_cons, valB_nil]; simp

/-- the `prev` byte after `renderMantU ip fp` has been consumed from a state with `prev = pv0`. -/
def prevOf (pv0 : Nat) (ip : UDigits) (fp : Option UDigits) : Nat :=
  match fp with
  | some f => if f = [] then 46 else 48
  | none => if ip = [] then pv0 else 48

/-- What is known about the scanner state after it has consumed `renderMantU ip fp` (plus one pending
    `_` when `pend`) from `{ prev := pv0 }` without raising the separator error. -/
structure Tracks (b : Nat) (sep : Bool) (pv0 : Nat) (st : ScanSt) (ip : UDigits) (fp : Option UDigits)
    (pend : Bool) : Prop where
  inval : st.invalSep = false
  val : st.val = valB b (ip.bytes ++ (fp.getD []).bytes)
  count : st.count = ip.length + (fp.getD []).length
  dp : st.dp = fp.map (fun _ => ip.length)
  fracOk : st.fracOk = fp.isNone
  prev : st.prev = if pend then 95 else prevOf pv0 ip fp
  dip : IsDigitsB b ip.bytes
  dfp : IsDigitsB b (fp.getD []).bytes
  plain : sep = false → ip.Plain ∧ (fp.getD []).Plain ∧ pend = false
  hip : pv0 ≠ 48 → ip.HeadPlain
  hfp : (fp.getD []).HeadPlain
  pendOk : pend = true → prevOf pv0 ip fp = 48

theorem Tracks.init (b : Nat) (sep : Bool) (pv0 : Nat) : Tracks b sep pv0 { prev := pv0 } [] none false :=
  ⟨rfl, rfl, rfl, rfl, rfl, rfl, IsDigitsB_nil b, IsDigitsB_nil b,
    fun _ => ⟨UDigits.Plain_nil, UDigits.Plain_nil, rfl⟩, fun _ => trivial, trivial, fun h => by cases h⟩

/-- where the digit loop stops. -/
def StopOk (b : Nat) (sep : Bool) (st : ScanSt) : List Nat → Prop
  | [] => True
  | ch :: _ => ¬ (ch = 46 ∧ st.fracOk = true) ∧ ¬ (ch = 95 ∧ sep = true) ∧ digitVal ch ≥ b

theorem UDigits.Plain_append_single {us : UDigits} {c : Nat} (h : us.Plain) : UDigits.Plain (us ++ [(false, c)]) := by
  intro u hu
  rw [List.mem_append] at hu
  rcases hu with hu | hu
  · exact h u hu
  · simp only [List.mem_singleton] at hu; rw [hu]

theorem UDigits.HeadPlain_append_single {us : UDigits} {fl : Bool} {c : Nat}
    (h : us.HeadPlain) (h0 : us = [] → fl = false) : UDigits.HeadPlain (us ++ [(fl, c)]) := by
  cases us with
  | nil => exact h0 rfl
  | cons u us => exact h

theorem IsDigitsB_append_single {b : Nat} {cs : List Nat} {c : Nat} (h : IsDigitsB b cs) (hc : digitVal c < b) :
    IsDigitsB b (cs ++ [c]) := by
  rw [IsDigitsB_append]; exact ⟨h, by rw [IsDigitsB_cons]; exact ⟨hc, IsDigitsB_nil b⟩⟩

/-- **Inverse of the digit loop.** If `scanDigits` ends without the separator error, what it consumed
    extends the tracked mantissa to a tracked mantissa, and it stopped for a legitimate reason. -/
theorem scanDigits_inv (b : Nat) (hb : b ≤ 63) (sep : Bool) (pv0 : Nat) :
    ∀ (s : List Nat) (st : ScanSt) (ip : UDigits) (fp : Option UDigits) (pend : Bool),
      Tracks b sep pv0 st ip fp pend →
      (scanDigits b sep s st).1.invalSep = false →
      ∃ (ip' : UDigits) (fp' : Option UDigits) (pend' : Bool) (consumed : List Nat),
        s = consumed ++ (scanDigits b sep s st).2 ∧
        renderMantU ip fp ++ (if pend then [95] else []) ++ consumed =
          renderMantU ip' fp' ++ (if pend' then [95] else []) ∧
        Tracks b sep pv0 (scanDigits b sep s st).1 ip' fp' pend' ∧
        StopOk b sep (scanDigits b sep s st).1 (scanDigits b sep s st).2 := by
  intro s
  induction s with
  | nil =>
    intro st ip fp pend ht _
    exact ⟨ip, fp, pend, [], rfl, by simp, ht, trivial⟩
  | cons ch rest ih =>
    intro st ip fp pend ht hfin
    rw [scanDigits] at hfin ⊢
    by_cases h1 : ch = chr '.' ∧ st.fracOk = true
    · rw [if_pos h1] at hfin ⊢
      obtain ⟨hch, hfo⟩ := h1
      rw [chr_dot] at hch
      subst hch
      -- the new state must still be free of the separator error
      have hinv1 : (st.invalSep || st.prev == 95) = false := by
        cases hx : (st.invalSep || st.prev == 95) with
        | false => rfl
        | true =>
          have := (scanDigits_invalSep_mono b sep rest
            { st with fracOk := false, invalSep := st.invalSep || st.prev == 95, prev := 46, dp := some st.count }
            hx).1
          rw [this] at hfin; cases hfin
      have hfpn : fp = none := by
        have := ht.fracOk
        rw [hfo] at this
        cases fp with
        | none => rfl
        | some f => simp at this
      subst hfpn
      have hpend : pend = false := by
        cases pend with
        | false => rfl
        | true =>
          have hp := ht.prev
          simp only [if_true] at hp
          rw [hp] at hinv1
          simp at hinv1
      subst hpend
      have ht1 : Tracks b sep pv0
          { st with fracOk := false, invalSep := st.invalSep || st.prev == 95, prev := 46, dp := some st.count }
          ip (some []) false := by
        refine ⟨hinv1, ?_, ?_, ?_, rfl, rfl, ht.dip, IsDigitsB_nil b, ?_, ht.hip, trivial, fun h => by cases h⟩
        · simpa using ht.val
        · simpa using ht.count
        · simp [ht.count]
        · intro h; exact ⟨(ht.plain h).1, UDigits.Plain_nil, rfl⟩
      obtain ⟨ip', fp', pend', consumed, e1, e2, t', so⟩ := ih _ ip (some []) false ht1 hfin
      refine ⟨ip', fp', pend', 46 :: consumed, by rw [List.cons_append, ← e1], ?_, t', so⟩
      rw [← e2]
      simp [renderMantU, renderU]
    · rw [if_neg h1] at hfin ⊢
      by_cases h2 : ch = chr '_' ∧ sep = true
      · rw [if_pos h2] at hfin ⊢
        obtain ⟨hch, hsp⟩ := h2
        rw [chr_us] at hch
        subst hch
        subst hsp
        have hinv1 : (st.invalSep || st.prev != 48) = false := by
          cases hx : (st.invalSep || st.prev != 48) with
          | false => rfl
          | true =>
            have := (scanDigits_invalSep_mono b true rest
              { st with invalSep := st.invalSep || st.prev != 48, prev := 95 } hx).1
            rw [this] at hfin; cases hfin
        have hp48 : st.prev = 48 := by
          rw [ht.inval] at hinv1
          simpa using hinv1
        have hpend : pend = false := by
          cases pend with
          | false => rfl
          | true =>
            have hp := ht.prev
            simp only [if_true] at hp
            omega
        subst hpend
        have hpo : prevOf pv0 ip fp = 48 := by
          have hp := ht.prev
          simp only [Bool.false_eq_true, if_false] at hp
          rw [← hp]; exact hp48
        have ht1 : Tracks b true pv0 { st with invalSep := st.invalSep || st.prev != 48, prev := 95 } ip fp true :=
          ⟨hinv1, ht.val, ht.count, ht.dp, ht.fracOk, rfl, ht.dip, ht.dfp, (fun h => by cases h), ht.hip, ht.hfp,
            fun _ => hpo⟩
        obtain ⟨ip', fp', pend', consumed, e1, e2, t', so⟩ := ih _ ip fp true ht1 hfin
        refine ⟨ip', fp', pend', 95 :: consumed, by rw [List.cons_append, ← e1], ?_, t', so⟩
        rw [← e2]
        simp
      · rw [if_neg h2] at hfin ⊢
        simp only [] at hfin ⊢
        by_cases h3 : digitVal ch ≥ b
        · rw [if_pos h3] at hfin ⊢
          refine ⟨ip, fp, pend, [], rfl, by simp, ht, ?_⟩
          rw [chr_dot] at h1
          rw [chr_us] at h2
          exact ⟨h1, h2, h3⟩
        · rw [if_neg h3] at hfin ⊢
          have hlt : digitVal ch < b := by omega
          -- the digit extends the integer part or the fraction part
          have hpendsep : pend = true → sep = true := by
            intro hp
            cases hs : sep with
            | true => rfl
            | false => have := (ht.plain hs).2.2; rw [hp] at this; cases this
          cases hfp : fp with
          | none =>
            subst hfp
            have ht1 : Tracks b sep pv0 { st with prev := 48, count := st.count + 1, val := st.val * b + digitVal ch }
                (ip ++ [(pend, ch)]) none false := by
              refine ⟨ht.inval, ?_, ?_, ?_, ht.fracOk, ?_, ?_, IsDigitsB_nil b, ?_, ?_, trivial, fun h => by cases h⟩
              · show st.val * b + digitVal ch = _
                rw [ht.val]
                simp only [Option.getD_none, UDigits.bytes_nil, List.append_nil, UDigits.bytes_append]
                rw [show UDigits.bytes [(pend, ch)] = [ch] from rfl, valB_append_single]
              · show st.count + 1 = _
                rw [ht.count]; simp
              · simpa using ht.dp
              · show (48 : Nat) = _
                simp [prevOf]
              · rw [UDigits.bytes_append]
                exact IsDigitsB_append_single ht.dip hlt
              · intro h
                obtain ⟨p1, _, p3⟩ := ht.plain h
                subst p3
                exact ⟨UDigits.Plain_append_single p1, UDigits.Plain_nil, rfl⟩
              · intro hpv
                apply UDigits.HeadPlain_append_single (ht.hip hpv)
                intro hnil
                cases hp : pend with
                | false => rfl
                | true =>
                  have := ht.pendOk hp
                  rw [hnil] at this
                  simp only [prevOf, if_true] at this
                  exact absurd this hpv
            obtain ⟨ip', fp', pend', consumed, e1, e2, t', so⟩ := ih _ _ none false ht1 hfin
            refine ⟨ip', fp', pend', ch :: consumed, by rw [List.cons_append, ← e1], ?_, t', so⟩
            rw [← e2]
            simp only [renderMantU, renderU_append_single, List.append_nil, List.append_assoc]
            cases pend <;> simp
          | some f =>
            subst hfp
            have hpf : pend = false ∨ f ≠ [] := by
              cases hp : pend with
              | false => exact Or.inl rfl
              | true =>
                right
                intro hnil
                have := ht.pendOk hp
                rw [hnil] at this
                simp [prevOf] at this
            have ht1 : Tracks b sep pv0 { st with prev := 48, count := st.count + 1, val := st.val * b + digitVal ch }
                ip (some (f ++ [(pend, ch)])) false := by
              refine ⟨ht.inval, ?_, ?_, ?_, ht.fracOk, ?_, ht.dip, ?_, ?_, ht.hip, ?_, fun h => by cases h⟩
              · show st.val * b + digitVal ch = _
                rw [ht.val]
                simp only [Option.getD_some, UDigits.bytes_append]
                rw [show UDigits.bytes [(pend, ch)] = [ch] from rfl, ← List.append_assoc, valB_append_single]
              · show st.count + 1 = _
                rw [ht.count]; simp; omega
              · simpa using ht.dp
              · show (48 : Nat) = _
                simp [prevOf]
              · simp only [Option.getD_some, UDigits.bytes_append]
                exact IsDigitsB_append_single (by simpa using ht.dfp) hlt
              · intro h
                obtain ⟨p1, p2, p3⟩ := ht.plain h
                subst p3
                exact ⟨p1, UDigits.Plain_append_single (by simpa using p2), rfl⟩
              · simp only [Option.getD_some]
                apply UDigits.HeadPlain_append_single (by simpa using ht.hfp)
                intro hnil
                rcases hpf with h | h
                · exact h
                · exact absurd hnil h
            obtain ⟨ip', fp', pend', consumed, e1, e2, t', so⟩ := ih _ _ _ false ht1 hfin
            refine ⟨ip', fp', pend', ch :: consumed, by rw [List.cons_append, ← e1], ?_, t', so⟩
            rw [← e2]
            simp only [renderMantU, renderU_append_single, List.append_nil, List.append_assoc, List.cons_append]
            cases pend <;> simp

end Decimal
