/-
  Integer conversions (C14) and raw access (C20): proofs.

    1. facts about a canonical finite value (`Dec.Canonical`, Program.lean);
    2. `intMant`, `minPrec`, `isInt` on a canonical finite value;
    3. the truncation `truncNat` / `truncInt`, its accuracy `intAcc`, and `toInt`, `toInt64`,
       `toUint64`;
    4. link with the rational specification (`Rat.floor` of `mant × 10^k`, `Spec.truncSV`);
    5. `round` on a canonical value (only low zero words are dropped), `setExpAndRound`;
    6. setters as corollaries of `round_correct`: `setBits64`, `setInt`, `setBitsExp`;
    7. `mantExp`, `setMantExp`.

  Every statement was evaluated on a grid before being proved (16 800 canonical values for
  1–4: 28 coefficients incl. the int64/uint64 boundaries ±1 and ×10 / ÷10 variants, 0/1 extra low
  zero word, exponents −3…46, both signs, three precisions; see the comments of each section
  for the others).
-/
import Proofs.TrailingZeros
import Proofs.RoundSpec
import Mathlib.Tactic.NormNum
import DecimalModel.Program
import DecimalModel.Spec.IEEE

namespace Decimal
open Spec

/-! ### 1. Canonical finite values -/

theorem Dec.Canonical.fin_e {x : Dec} (hc : x.Canonical) (hf : x.form = .finite) :
    1 ≤ x.len ∧ ndigits x.mant = x.len * 19 ∧ MinExp ≤ x.exp ∧ x.exp ≤ MaxExp ∧ 1 ≤ x.prec ∧
      (x.len * 19 ≤ x.prec ∨ x.mant % 10 ^ (x.len * 19 - x.prec) = 0) := by
  have := hc.2.2 hf
  rwa [DW_eq] at this

theorem canonical_mant_pos {x : Dec} (hc : x.Canonical) (hf : x.form = .finite) : 0 < x.mant := by
  obtain ⟨h1, h2, -⟩ := hc.fin_e hf
  rcases Nat.eq_zero_or_pos x.mant with h | h
  · rw [h, ndigits_zero] at h2; omega
  · exact h

theorem canonical_mant_lt {x : Dec} (hc : x.Canonical) (hf : x.form = .finite) :
    x.mant < 10 ^ (x.len * 19) := by
  obtain ⟨-, h2, -⟩ := hc.fin_e hf
  rw [← h2]; exact ndigits_lt_pow _

theorem canonical_le_mant {x : Dec} (hc : x.Canonical) (hf : x.form = .finite) :
    10 ^ (x.len * 19 - 1) ≤ x.mant := by
  obtain ⟨-, h2, -⟩ := hc.fin_e hf
  rw [← h2]; exact pow_le_of_ndigits (canonical_mant_pos hc hf)

/-- The digits beyond the precision are zero, in divisibility form. -/
theorem canonical_dvd {x : Dec} (hc : x.Canonical) (hf : x.form = .finite) :
    10 ^ (x.len * 19 - x.prec) ∣ x.mant := by
  obtain ⟨-, -, -, -, -, h6⟩ := hc.fin_e hf
  rcases h6 with h | h
  · have : x.len * 19 - x.prec = 0 := by omega
    rw [this]; exact Nat.one_dvd _
  · exact Nat.dvd_of_mod_eq_zero h

/-! ### 2. `intMant`, `minPrec`, `isInt` -/

theorem intMant_of_le (x : Dec) (h : ((x.len * 19 : Nat) : Int) ≤ x.exp) :
    intMant x = x.mant * 10 ^ (x.exp - (x.len * 19 : Nat)).toNat := by
  unfold intMant
  simp only []
  by_cases h1 : x.exp > ((x.len * 19 : Nat) : Int)
  · rw [if_pos (show x.exp > ((x.len * DW : Nat) : Int) from h1)]; rfl
  · have h2 : ¬ (x.exp < ((x.len * 19 : Nat) : Int)) := by omega
    have h3 : (x.exp - ((x.len * 19 : Nat) : Int)).toNat = 0 := by omega
    rw [if_neg (show ¬ x.exp > ((x.len * DW : Nat) : Int) from h1),
      if_neg (show ¬ x.exp < ((x.len * DW : Nat) : Int) from h2), h3, Nat.pow_zero, Nat.mul_one]

theorem intMant_of_lt (x : Dec) (h : x.exp < ((x.len * 19 : Nat) : Int)) :
    intMant x = x.mant / 10 ^ ((x.len * 19 : Nat) - x.exp).toNat := by
  unfold intMant
  simp only []
  have h1 : ¬ (x.exp > ((x.len * 19 : Nat) : Int)) := by omega
  rw [if_neg (show ¬ x.exp > ((x.len * DW : Nat) : Int) from h1),
    if_pos (show x.exp < ((x.len * DW : Nat) : Int) from h)]; rfl

/-- `intMant x` has exactly `x.exp` digits: it is the integer part of `0.mant × 10^exp`. -/
theorem ndigits_intMant {x : Dec} (hc : x.Canonical) (hf : x.form = .finite) (he : 0 < x.exp) :
    ndigits (intMant x) = x.exp.toNat := by
  obtain ⟨-, h2, -⟩ := hc.fin_e hf
  by_cases h : ((x.len * 19 : Nat) : Int) ≤ x.exp
  · rw [intMant_of_le x h, ndigits_mul_pow (canonical_mant_pos hc hf), h2]; omega
  · rw [intMant_of_lt x (by omega), ndigits_div_pow, h2]; omega

theorem minPrec_finite (x : Dec) (hf : x.form = .finite) :
    minPrec x = x.len * 19 - trailingZeros x.mant := by
  simp [minPrec, hf, DW_eq]

/-- `MinPrec` is the smallest precision holding the mantissa exactly. -/
theorem minPrec_le_iff (x : Dec) (hf : x.form = .finite) (hM : 0 < x.mant) (p : Nat) :
    minPrec x ≤ p ↔ x.mant % 10 ^ (x.len * 19 - p) = 0 := by
  rw [minPrec_finite x hf, mod_pow_eq_zero_iff_le_trailingZeros hM]
  omega

theorem minPrec_pos {x : Dec} (hc : x.Canonical) (hf : x.form = .finite) : 1 ≤ minPrec x := by
  obtain ⟨-, h2, -⟩ := hc.fin_e hf
  have := trailingZeros_lt_ndigits (canonical_mant_pos hc hf)
  rw [minPrec_finite x hf]; omega

theorem minPrec_le_prec {x : Dec} (hc : x.Canonical) (hf : x.form = .finite) : minPrec x ≤ x.prec := by
  rw [minPrec_le_iff x hf (canonical_mant_pos hc hf)]
  exact Nat.mod_eq_zero_of_dvd (canonical_dvd hc hf)

/-- On a canonical value the `prec ≤ exp` shortcut of `IsInt` is subsumed by the `MinPrec` test. -/
theorem isInt_eq_minPrec {x : Dec} (hc : x.Canonical) (hf : x.form = .finite) (he : 0 < x.exp) :
    isInt x = decide ((minPrec x : Int) ≤ x.exp) := by
  have hmp := minPrec_le_prec hc hf
  have h0 : ¬ (x.exp ≤ 0) := by omega
  unfold isInt
  simp only [hf, bne_self_eq_false, Bool.false_eq_true, if_false, h0]
  rw [Bool.eq_iff_iff]
  simp only [Bool.or_eq_true, decide_eq_true_eq]
  omega

theorem isInt_iff {x : Dec} (hc : x.Canonical) (hf : x.form = .finite) :
    isInt x = true ↔ 0 < x.exp ∧ x.mant % 10 ^ ((x.len * 19 : Nat) - x.exp).toNat = 0 := by
  by_cases he : 0 < x.exp
  · rw [isInt_eq_minPrec hc hf he, decide_eq_true_eq]
    obtain ⟨e, hee⟩ := Int.eq_ofNat_of_zero_le (Int.le_of_lt he)
    have h1 : ((minPrec x : Int) ≤ x.exp) ↔ minPrec x ≤ e := by omega
    have h2 : (((x.len * 19 : Nat) : Int) - x.exp).toNat = x.len * 19 - e := by omega
    rw [h1, h2, minPrec_le_iff x hf (canonical_mant_pos hc hf)]
    simp [he]
  · have h0 : x.exp ≤ 0 := by omega
    simp [isInt, hf, h0, he]

theorem isInt_zero {x : Dec} (hf : x.form = .zero) : isInt x = true := by
  simp [isInt, hf]

theorem isInt_inf {x : Dec} (hf : x.form = .inf) : isInt x = false := by
  simp [isInt, hf]

/-! ### 3. Truncation toward zero -/

/-- `⌊|x|⌋` for a zero or a canonical finite `x` (0 for an infinity, by convention). -/
def truncNat (x : Dec) : Nat :=
  match x.form with
  | .finite => if x.exp ≤ 0 then 0 else intMant x
  | _ => 0

/-- `x` truncated toward zero. -/
def truncInt (x : Dec) : Int := if x.neg then -(truncNat x : Int) else truncNat x

/-- The accuracy of a truncation: exact for an integer, otherwise below a positive `x` and
    above a negative one. -/
def intAcc (x : Dec) : Acc := if isInt x then Exact else makeAcc x.neg

theorem truncNat_finite (x : Dec) (hf : x.form = .finite) :
    truncNat x = if x.exp ≤ 0 then 0 else intMant x := by
  simp [truncNat, hf]

theorem truncNat_zero (x : Dec) (hf : x.form = .zero) : truncNat x = 0 := by
  simp [truncNat, hf]

theorem neg_zero_ite (b : Bool) : (if b = true then -((0 : Nat) : Int) else ((0 : Nat) : Int)) = 0 := by
  cases b <;> rfl

theorem toInt_zero (x : Dec) (hf : x.form = .zero) : toInt x = (some 0, Exact) := by
  simp [toInt, hf]

theorem toInt_inf (x : Dec) (hf : x.form = .inf) : toInt x = (none, makeAcc x.neg) := by
  simp [toInt, hf]

theorem toInt_finite {x : Dec} (hc : x.Canonical) (hf : x.form = .finite) :
    toInt x = (some (truncInt x), intAcc x) := by
  unfold toInt truncInt intAcc
  rw [truncNat_finite x hf]
  simp only [hf]
  by_cases he : x.exp ≤ 0
  · have hi : isInt x = false := by simp [isInt, hf, he]
    simp only [he, if_true, hi, Bool.false_eq_true, if_false, neg_zero_ite]
  · rw [isInt_eq_minPrec hc hf (by omega)]
    simp only [he, if_false, decide_eq_true_eq]

theorem pow_two_64 : (2 : Nat) ^ 64 = 18446744073709551616 := by decide
theorem pow_two_63 : (2 : Nat) ^ 63 = 9223372036854775808 := by decide

/-- More than 20 digits do not fit 64 bits. -/
theorem intMant_big {x : Dec} (hc : x.Canonical) (hf : x.form = .finite) (he : 20 < x.exp) :
    100000000000000000000 ≤ intMant x := by
  have h := ndigits_intMant hc hf (by omega)
  have : 20 < ndigits (intMant x) := by omega
  have := (lt_ndigits_iff _ _).mp this
  omega

theorem toInt64_finite {x : Dec} (hc : x.Canonical) (hf : x.form = .finite) :
    toInt64 x =
      if -9223372036854775808 ≤ truncInt x ∧ truncInt x ≤ 9223372036854775807 then
        (truncInt x, intAcc x)
      else if x.neg then (-9223372036854775808, Above) else (9223372036854775807, Below) := by
  unfold toInt64 truncInt intAcc
  rw [truncNat_finite x hf]
  simp only [hf]
  by_cases he : x.exp ≤ 0
  · have hi : isInt x = false := by simp [isInt, hf, he]
    simp only [he, if_true, hi, Bool.false_eq_true, if_false, neg_zero_ite]
    simp
  · rw [isInt_eq_minPrec hc hf (by omega)]
    simp only [he, if_false, decide_eq_true_eq, pow_two_64, pow_two_63]
    by_cases h20 : x.exp ≤ 20
    · simp only [h20, if_true]
      generalize intMant x = t
      cases hn : x.neg
      · simp only [Bool.false_eq_true, if_false, Bool.false_and, Bool.or_false, decide_eq_true_eq]
        by_cases h1 : t < 18446744073709551616
        · by_cases h2 : t < 9223372036854775808
          · have : (-9223372036854775808 : Int) ≤ (t : Int) ∧ (t : Int) ≤ 9223372036854775807 := by omega
            simp only [h1, h2, if_true, this, and_self]
          · have : ¬ ((-9223372036854775808 : Int) ≤ (t : Int) ∧ (t : Int) ≤ 9223372036854775807) := by omega
            simp only [h1, h2, if_true, if_false, this]
        · have : ¬ ((-9223372036854775808 : Int) ≤ (t : Int) ∧ (t : Int) ≤ 9223372036854775807) := by omega
          simp only [h1, if_false, this]
      · simp only [if_true, Bool.true_and, Bool.or_eq_true, decide_eq_true_eq, beq_iff_eq]
        by_cases h1 : t < 18446744073709551616
        · by_cases h2 : t < 9223372036854775808 ∨ t = 9223372036854775808
          · have : (-9223372036854775808 : Int) ≤ -(t : Int) ∧ -(t : Int) ≤ 9223372036854775807 := by omega
            simp only [h1, h2, if_true, this, and_self]
          · have : ¬ ((-9223372036854775808 : Int) ≤ -(t : Int) ∧ -(t : Int) ≤ 9223372036854775807) := by omega
            simp only [h1, h2, if_true, if_false, this]
        · have : ¬ ((-9223372036854775808 : Int) ≤ -(t : Int) ∧ -(t : Int) ≤ 9223372036854775807) := by omega
          simp only [h1, if_false, this]
    · have hbig := intMant_big hc hf (by omega)
      simp only [h20, if_false]
      generalize intMant x = t at hbig
      cases hn : x.neg
      · have : ¬ ((-9223372036854775808 : Int) ≤ (t : Int) ∧ (t : Int) ≤ 9223372036854775807) := by omega
        simp only [Bool.false_eq_true, if_false, this]
      · have : ¬ ((-9223372036854775808 : Int) ≤ -(t : Int) ∧ -(t : Int) ≤ 9223372036854775807) := by omega
        simp only [if_true, if_false, this]

theorem toUint64_finite {x : Dec} (hc : x.Canonical) (hf : x.form = .finite) :
    toUint64 x =
      if x.neg then (0, Above)
      else if truncNat x ≤ 18446744073709551615 then (truncNat x, intAcc x)
      else (18446744073709551615, Below) := by
  unfold toUint64 intAcc
  rw [truncNat_finite x hf]
  simp only [hf]
  cases hn : x.neg
  · simp only [Bool.false_eq_true, if_false]
    by_cases he : x.exp ≤ 0
    · have hi : isInt x = false := by simp [isInt, hf, he]
      simp [he, hi, makeAcc]
    · rw [isInt_eq_minPrec hc hf (by omega)]
      simp only [he, if_false, decide_eq_true_eq, pow_two_64]
      by_cases h20 : x.exp ≤ 20
      · simp only [h20, if_true]
        generalize intMant x = t
        have hacc : (if (minPrec x : Int) > x.exp then Below else Exact)
            = (if (minPrec x : Int) ≤ x.exp then Exact else makeAcc false) := by
          by_cases h : (minPrec x : Int) ≤ x.exp
          · have : ¬ ((minPrec x : Int) > x.exp) := by omega
            simp [h, this]
          · have : (minPrec x : Int) > x.exp := by omega
            simp [h, this, makeAcc]
        rw [hacc]
        by_cases h1 : t < 18446744073709551616
        · have : t ≤ 18446744073709551615 := by omega
          simp only [h1, this, if_true]
        · have : ¬ (t ≤ 18446744073709551615) := by omega
          simp only [h1, this, if_false]
      · have hbig := intMant_big hc hf (by omega)
        have : ¬ (intMant x ≤ 18446744073709551615) := by omega
        simp only [h20, this, if_false]
  · simp

/-! ### 4. Link with the rational specification -/

theorem floor_natCast_rat (n : Nat) : ((n : ℚ)).floor = (n : Int) := by
  apply rat_floor_eq <;> push_cast <;> linarith

theorem mul_pow10Rat_nonneg (M : Nat) (k : Int) (hk : 0 ≤ k) :
    (M : ℚ) * pow10Rat k = ((M * 10 ^ k.toNat : Nat) : ℚ) := by
  have : k ≥ 0 := hk
  simp only [pow10Rat, this, if_true]
  push_cast; ring

theorem mul_pow10Rat_neg (M : Nat) (k : Int) (hk : k < 0) :
    (M : ℚ) * pow10Rat k = (M : ℚ) / ((10 ^ (-k).toNat : Nat) : ℚ) := by
  have : ¬ (k ≥ 0) := by omega
  simp only [pow10Rat, this, if_false]
  ring

theorem floor_natCast_div (M T : Nat) (hT : 0 < T) : ((M : ℚ) / (T : ℚ)).floor = ((M / T : Nat) : Int) := by
  have hTq : (0 : ℚ) < (T : ℚ) := by exact_mod_cast hT
  have hdm := Nat.div_add_mod M T
  have hml := Nat.mod_lt M hT
  generalize M / T = d at *
  generalize M % T = r at *
  have hN : (M : ℚ) = T * (d : ℚ) + (r : ℚ) := by exact_mod_cast hdm.symm
  have hml' : (r : ℚ) + 1 ≤ T := by exact_mod_cast hml
  have hr0 : (0 : ℚ) ≤ (r : ℚ) := Nat.cast_nonneg _
  apply rat_floor_eq
  · rw [le_div_iff₀ hTq]; push_cast; nlinarith
  · rw [div_lt_iff₀ hTq]; push_cast; nlinarith

theorem natCast_div_eq_iff (M T : Nat) (hT : 0 < T) :
    ((M / T : Nat) : ℚ) = (M : ℚ) / (T : ℚ) ↔ M % T = 0 := by
  have hTq : (T : ℚ) ≠ 0 := by
    have : (0 : ℚ) < (T : ℚ) := by exact_mod_cast hT
    exact this.ne'
  have hdm := Nat.div_add_mod M T
  rw [eq_div_iff hTq]
  constructor
  · intro h
    have h' : M / T * T = M := by exact_mod_cast h
    rw [Nat.mul_comm] at h'
    omega
  · intro h
    have h' : M / T * T = M := by rw [Nat.mul_comm]; omega
    exact_mod_cast h'

/-- On a canonical finite value, `truncNat` is the floor of the exact magnitude
    `mant × 10^(exp − 19·len)`. -/
theorem truncNat_eq_floor {x : Dec} (hc : x.Canonical) (hf : x.form = .finite) :
    ((x.mant : ℚ) * pow10Rat (x.exp - (x.len * 19 : Nat))).floor = (truncNat x : Int) := by
  obtain ⟨h1, -⟩ := hc.fin_e hf
  rw [truncNat_finite x hf]
  by_cases hk : 0 ≤ x.exp - ((x.len * 19 : Nat) : Int)
  · have he : ¬ (x.exp ≤ 0) := by omega
    rw [mul_pow10Rat_nonneg _ _ hk, floor_natCast_rat, if_neg he, intMant_of_le x (by omega)]
  · have hlt : x.exp < ((x.len * 19 : Nat) : Int) := by omega
    have hn : (-(x.exp - ((x.len * 19 : Nat) : Int))).toNat = (((x.len * 19 : Nat) : Int) - x.exp).toNat := by
      omega
    rw [mul_pow10Rat_neg _ _ (by omega), floor_natCast_div _ _ (ten_pow_pos _), hn]
    by_cases he : x.exp ≤ 0
    · rw [if_pos he]
      have hle : x.len * 19 ≤ (((x.len * 19 : Nat) : Int) - x.exp).toNat := by omega
      have := Nat.pow_le_pow_right (show 0 < 10 by omega) hle
      have hlt := canonical_mant_lt hc hf
      rw [Nat.div_eq_of_lt (by omega)]
    · rw [if_neg he, intMant_of_lt x hlt]

/-- `IsInt` holds exactly when the truncation is the value itself. -/
theorem isInt_iff_exact {x : Dec} (hc : x.Canonical) (hf : x.form = .finite) :
    isInt x = true ↔ (truncNat x : ℚ) = (x.mant : ℚ) * pow10Rat (x.exp - (x.len * 19 : Nat)) := by
  obtain ⟨h1, -⟩ := hc.fin_e hf
  rw [isInt_iff hc hf, truncNat_finite x hf]
  by_cases hk : 0 ≤ x.exp - ((x.len * 19 : Nat) : Int)
  · have he : ¬ (x.exp ≤ 0) := by omega
    have h0 : (((x.len * 19 : Nat) : Int) - x.exp).toNat = 0 := by omega
    rw [mul_pow10Rat_nonneg _ _ hk, if_neg he, intMant_of_le x (by omega), h0]
    simp only [Nat.pow_zero, Nat.mod_one, and_true, iff_true]
    omega
  · have hlt : x.exp < ((x.len * 19 : Nat) : Int) := by omega
    have hn : (-(x.exp - ((x.len * 19 : Nat) : Int))).toNat = (((x.len * 19 : Nat) : Int) - x.exp).toNat := by
      omega
    rw [mul_pow10Rat_neg _ _ (by omega), hn]
    by_cases he : x.exp ≤ 0
    · rw [if_pos he]
      have hle : x.len * 19 ≤ (((x.len * 19 : Nat) : Int) - x.exp).toNat := by omega
      have hp := Nat.pow_le_pow_right (show 0 < 10 by omega) hle
      have hlt := canonical_mant_lt hc hf
      have hpos := canonical_mant_pos hc hf
      have hz : x.mant / 10 ^ (((x.len * 19 : Nat) : Int) - x.exp).toNat = 0 := Nat.div_eq_of_lt (by omega)
      rw [← hz, natCast_div_eq_iff _ _ (ten_pow_pos _), Nat.mod_eq_of_lt (by omega)]
      constructor
      · intro h; omega
      · intro h; omega
    · rw [if_neg he, intMant_of_lt x hlt, natCast_div_eq_iff _ _ (ten_pow_pos _)]
      constructor
      · intro h; exact h.2
      · intro h; exact ⟨by omega, h⟩

/-- `Int`'s result against the executable specification `Spec.truncSV`. -/
theorem truncSV_ofDec_finite {x : Dec} (hc : x.Canonical) (hf : x.form = .finite) :
    truncSV (ofDec x) = some (x.neg, truncNat x, isInt x) := by
  have h1 := truncNat_eq_floor hc hf
  have h2 := isInt_iff_exact hc hf
  simp only [ofDec, hf, truncSV, DW_eq]
  rw [h1]
  simp only [Int.toNat_natCast, Option.some.injEq, Prod.mk.injEq, true_and]
  rw [Bool.eq_iff_iff, beq_iff_eq, h2]

theorem truncSV_ofDec_zero {x : Dec} (hf : x.form = .zero) :
    truncSV (ofDec x) = some (false, 0, true) := by
  simp [ofDec, hf, truncSV]

theorem truncSV_ofDec_inf {x : Dec} (hf : x.form = .inf) : truncSV (ofDec x) = none := by
  simp [ofDec, hf, truncSV]

/-! ### 5. `round` / `setExpAndRound` on a mantissa whose digits beyond the precision are zero

  Grid check (`#eval`, 8 644 values: 20 coefficients, 0–2 extra low zero words, 8 exponents incl.
  both range limits, both signs, 3 precisions, 3 accuracies, plus ±0/±Inf): `round x false`
  equals `roundTrim x` field by field. -/

/-- What `round` does to a canonical finite value: the accuracy is reset and the low words
    beyond the precision (all zero) are dropped. -/
def roundTrim (x : Dec) : Dec :=
  if x.len * 19 ≤ x.prec then { x with acc := Exact }
  else { x with acc := Exact, mant := x.mant / B ^ (x.len - (x.prec + 18) / 19), len := (x.prec + 18) / 19 }

theorem round_trim_long (neg : Bool) (mant len : Nat) (exp : Int) (prec : Nat) (mode : Mode)
    (acc : Acc) (hgt : prec < len * 19) (hdvd : 10 ^ (len * 19 - prec) ∣ mant) :
    round ⟨.finite, neg, mant, len, exp, prec, mode, acc⟩ false
      = ⟨.finite, neg, mant / B ^ (len - (prec + 18) / 19), (prec + 18) / 19, exp, prec, mode, Exact⟩ := by
  rw [round_eq_shape _ _ _ _ _ _ _ _ hgt]
  simp only []
  have hX : (digitAt mant (len * 19 - prec - 1) != 0 || sbitF mode mant (len * 19 - prec - 1) false) = false := by
    rw [inexact_eq' mode mant (len * 19 - prec) false (by omega), Nat.mod_eq_zero_of_dvd hdvd]
    rfl
  rw [hX]
  have hn1 : prec ≤ (prec + 18) / 19 * 19 := by omega
  have hn2 : (prec + 18) / 19 ≤ len := by omega
  generalize (prec + 18) / 19 = n at *
  rw [cut_eq mant len n hn2]
  -- the cut is a multiple of `L`
  obtain ⟨c, hc⟩ := hdvd
  have hsplit : 10 ^ (len * 19 - prec) = 10 ^ (19 * (len - n)) * 10 ^ (n * 19 - prec) := by
    rw [← Nat.pow_add]; congr 1
    have : n * 19 ≤ len * 19 := Nat.mul_le_mul_right _ hn2
    rw [Nat.mul_sub]; omega
  have hM1 : mant / 10 ^ (19 * (len - n)) = 10 ^ (n * 19 - prec) * c := by
    rw [hc, hsplit, Nat.mul_assoc, Nat.mul_div_cancel_left _ (ten_pow_pos _)]
  have hmod : mant / 10 ^ (19 * (len - n)) % 10 ^ (n * 19 - prec) = 0 := by
    rw [hM1, Nat.mul_mod_right]
  unfold roundShape
  simp only [Bool.false_eq_true, if_false, hmod, Nat.sub_zero, B_pow]

theorem round_roundTrim {x : Dec} (hf : x.form = .finite)
    (hdvd : 10 ^ (x.len * 19 - x.prec) ∣ x.mant) : round x false = roundTrim x := by
  obtain ⟨form, neg, mant, len, exp, prec, mode, acc⟩ := x
  simp only at hf hdvd
  subst hf
  unfold roundTrim
  by_cases hle : len * 19 ≤ prec
  · simp only [hle, if_true]
    exact round_short _ _ _ _ _ _ _ _ hle
  · simp only [hle, if_false]
    exact round_trim_long _ _ _ _ _ _ _ (by omega) hdvd

theorem round_canonical_e {x : Dec} (hc : x.Canonical) (hf : x.form = .finite) :
    round x false = roundTrim x :=
  round_roundTrim hf (canonical_dvd hc hf)

/-- The dropped words are zero: the value is unchanged. -/
theorem roundTrim_mant {x : Dec} (hdvd : 10 ^ (x.len * 19 - x.prec) ∣ x.mant) :
    (roundTrim x).len ≤ x.len ∧ (roundTrim x).mant * B ^ (x.len - (roundTrim x).len) = x.mant := by
  unfold roundTrim
  by_cases hle : x.len * 19 ≤ x.prec
  · simp [hle]
  · simp only [hle, if_false]
    have hn2 : (x.prec + 18) / 19 ≤ x.len := by omega
    have hn1 : x.prec ≤ (x.prec + 18) / 19 * 19 := by omega
    refine ⟨hn2, ?_⟩
    generalize (x.prec + 18) / 19 = n at *
    have hd : B ^ (x.len - n) ∣ x.mant := by
      rw [B_pow]
      refine Nat.dvd_trans (Nat.pow_dvd_pow 10 ?_) hdvd
      have : n * 19 ≤ x.len * 19 := Nat.mul_le_mul_right _ hn2
      rw [Nat.mul_sub]; omega
    exact Nat.div_mul_cancel hd

theorem roundTrim_fields (x : Dec) :
    (roundTrim x).form = x.form ∧ (roundTrim x).neg = x.neg ∧ (roundTrim x).exp = x.exp ∧
      (roundTrim x).prec = x.prec ∧ (roundTrim x).mode = x.mode ∧ (roundTrim x).acc = Exact := by
  unfold roundTrim
  split <;> simp

/-! ### 6. Setters: corollaries of `round_correct` (= `setNormAndRound_round`)

  Grid check (`#eval`): `setBits64` 42 120 instances (6 modes × 10 precisions incl. 0, 27 values,
  13 exponents incl. both range limits ± the digit count, both signs); `setInt` 3 240; `setBitsExpFull`
  10 140 (13 word lists with leading/trailing zero words) + the all-zero lists: no mismatch. -/

/-- `Properties/RoundCore.lean`'s `round_correct`, restated here so that `Proofs/` does not import
    `Properties/`. -/
theorem setNormAndRound_round (z : Dec) (M : Nat) (e : Int) (sb : Bool) (q : ℚ)
    (hM : 0 < M) (hp : 1 ≤ z.prec) (hsb : sb = true → z.prec + 1 ≤ ndigits M)
    (hq : if sb then (M : ℚ) < q ∧ q < (M : ℚ) + 1 else q = (M : ℚ)) :
    let z' := setNormAndRound z M e sb
    agrees z' (Spec.round z.mode z.prec z.neg q e) = true
      ∧ z'.prec = z.prec ∧ z'.mode = z.mode ∧ z'.neg = z.neg := by
  have h := setNormAndRound_eq_roundInt z M e sb hM hp hsb
  rw [roundInt_eq_round z.mode z.prec z.neg M e sb q hM hp hsb hq] at h
  exact h

theorem umax_eq_max (a b : Nat) : umax a b = max a b := by
  unfold umax
  split <;> omega

theorem setBits64_pos (z : Dec) (neg : Bool) (v : Nat) (e : Int) (hv : 0 < v) :
    let p := if z.prec = 0 then 34 else z.prec
    let z' := setBits64 z neg v e
    agrees z' (Spec.round z.mode p neg (v : ℚ) e) = true ∧ z'.prec = p ∧ z'.mode = z.mode ∧ z'.neg = neg := by
  have hv0 : (v == 0) = false := by simp; omega
  by_cases hp : z.prec = 0
  · simp only [hp, if_true]
    have h := setNormAndRound_round { z with prec := 34, acc := Exact, neg := neg, form := .finite } v e false (v : ℚ)
      hv (by simp) (by simp) (by simp)
    simpa [setBits64, hp, hv0, DefaultPrec] using h
  · simp only [hp, if_false]
    have h := setNormAndRound_round { z with acc := Exact, neg := neg, form := .finite } v e false (v : ℚ)
      hv (by simp; omega) (by simp) (by simp)
    simpa [setBits64, hp, hv0] using h

theorem setBits64_zero (z : Dec) (neg : Bool) (e : Int) :
    let p := if z.prec = 0 then 34 else z.prec
    let z' := setBits64 z neg 0 e
    agrees z' (zeroRes neg) = true ∧ z'.prec = p ∧ z'.mode = z.mode := by
  by_cases hp : z.prec = 0 <;> simp [setBits64, hp, agrees, zeroRes, DefaultPrec, Exact]

/-- An exactly representable integer `M × 10^e` is stored exactly. -/
theorem setNormAndRound_exact (z : Dec) (M : Nat) (e : Int) (hM : 0 < M) (hp : ndigits M ≤ z.prec)
    (hmin : MinExp ≤ (ndigits M : Int) + e) (hmax : (ndigits M : Int) + e ≤ MaxExp) :
    let z' := setNormAndRound z M e false
    z'.form = .finite ∧ z'.acc = Exact ∧ z'.exp = (ndigits M : Int) + e ∧
      z'.mant * 10 ^ ndigits M = M * 10 ^ (z'.len * 19) := by
  have hnd := ndigits_pos hM
  have h := (setNormAndRound_eq_roundInt z M e false hM (by omega) (by simp)).1
  have h1 : ¬ ((ndigits M : Int) + e < MinExp) := by omega
  have h2 : ¬ ((ndigits M : Int) + e > MaxExp) := by omega
  have hcoef : ndigits (M * 10 ^ (z.prec - ndigits M)) = z.prec := by
    rw [ndigits_mul_pow hM]; omega
  simp only [roundInt, h1, h2, hp, if_true, if_false] at h
  generalize setNormAndRound z M e false = z' at *
  simp only [agrees, Bool.and_eq_true, beq_iff_eq, Bool.or_eq_true, bne_iff_ne, ne_eq,
    hcoef, DW_eq] at h
  obtain ⟨⟨⟨hform, -⟩, hacc⟩, hrest⟩ := h
  have hf : ¬ (z'.form != Form.finite) = true := by simp [hform]
  rcases hrest with hrest | ⟨hexp, hm⟩
  · rw [hform] at hrest; simp at hrest
  refine ⟨hform, hacc, hexp, ?_⟩
  by_cases hle : z'.len * 19 ≤ z.prec
  · have h0 : z'.len * 19 - z.prec = 0 := by omega
    rw [h0, Nat.pow_zero, Nat.mul_one] at hm
    -- mant * 10^(p - dz) = M * 10^(p - nd); multiply by 10^(dz + nd)
    have hP := ten_pow_pos (z.prec)
    apply Nat.eq_of_mul_eq_mul_right hP
    have e1 : z'.mant * 10 ^ ndigits M * 10 ^ z.prec
        = (z'.mant * 10 ^ (z.prec - z'.len * 19)) * (10 ^ ndigits M * 10 ^ (z'.len * 19)) := by
      have : 10 ^ z.prec = 10 ^ (z.prec - z'.len * 19) * 10 ^ (z'.len * 19) := by
        rw [← Nat.pow_add]; congr 1; omega
      rw [this]; ring
    have e2 : M * 10 ^ (z'.len * 19) * 10 ^ z.prec
        = (M * 10 ^ (z.prec - ndigits M)) * (10 ^ ndigits M * 10 ^ (z'.len * 19)) := by
      have : 10 ^ z.prec = 10 ^ (z.prec - ndigits M) * 10 ^ ndigits M := by
        rw [← Nat.pow_add]; congr 1; omega
      rw [this]; ring
    rw [e1, e2, hm]
  · have h0 : z.prec - z'.len * 19 = 0 := by omega
    rw [h0, Nat.pow_zero, Nat.mul_one] at hm
    rw [hm]
    have : 10 ^ (z'.len * 19) = 10 ^ (z.prec - ndigits M) * 10 ^ (z'.len * 19 - z.prec) * 10 ^ ndigits M := by
      rw [← Nat.pow_add, ← Nat.pow_add]; congr 1; omega
    rw [this]; ring

theorem setInt_nonzero (z : Dec) (x : Int) (hx : x ≠ 0) :
    let p := if z.prec = 0 then max (min (ndigits x.natAbs) MaxPrec) 34 else z.prec
    let z' := setInt z x
    agrees z' (Spec.round z.mode p (decide (x < 0)) (x.natAbs : ℚ) 0) = true ∧
      z'.prec = p ∧ z'.mode = z.mode ∧ z'.neg = decide (x < 0) := by
  have hx0 : (x == 0) = false := by simp [hx]
  have hM : 0 < x.natAbs := Int.natAbs_pos.mpr hx
  by_cases hp : z.prec = 0
  · simp only [hp, if_true]
    have hpp : umax (if ndigits x.natAbs > MaxPrec then MaxPrec else ndigits x.natAbs) DefaultPrec
        = max (min (ndigits x.natAbs) MaxPrec) 34 := by
      rw [umax_eq_max]
      have : DefaultPrec = 34 := rfl
      split <;> omega
    have h := setNormAndRound_round
      { z with acc := Exact, neg := decide (x < 0), prec := max (min (ndigits x.natAbs) MaxPrec) 34 }
      x.natAbs 0 false (x.natAbs : ℚ)
      hM (by simp only []; omega) (by simp) (by simp)
    simpa [setInt, hp, hx0, hpp] using h
  · simp only [hp, if_false]
    have h := setNormAndRound_round { z with acc := Exact, neg := decide (x < 0) } x.natAbs 0 false (x.natAbs : ℚ)
      hM (by simp only []; omega) (by simp) (by simp)
    simpa [setInt, hp, hx0] using h

/-- With a zero precision, `SetInt` picks a precision that holds `x` exactly. -/
theorem setInt_exact (z : Dec) (x : Int) (hx : x ≠ 0) (hp : z.prec = 0)
    (hnd : (ndigits x.natAbs : Int) ≤ MaxExp) :
    let z' := setInt z x
    z'.prec = max (ndigits x.natAbs) 34 ∧ z'.form = .finite ∧ z'.acc = Exact ∧
      z'.neg = decide (x < 0) ∧ z'.exp = ndigits x.natAbs ∧
      z'.mant * 10 ^ ndigits x.natAbs = x.natAbs * 10 ^ (z'.len * 19) := by
  have hx0 : (x == 0) = false := by simp [hx]
  have hM : 0 < x.natAbs := Int.natAbs_pos.mpr hx
  have hmax : MaxExp = 2147483647 := rfl
  have hmin : MinExp = -2147483648 := rfl
  have hmp : MaxPrec = 4294967295 := rfl
  have hpp : umax (if ndigits x.natAbs > MaxPrec then MaxPrec else ndigits x.natAbs) DefaultPrec
      = max (ndigits x.natAbs) 34 := by
    rw [umax_eq_max]
    have : DefaultPrec = 34 := rfl
    split <;> omega
  have h := setNormAndRound_exact
    { z with acc := Exact, neg := decide (x < 0), prec := max (ndigits x.natAbs) 34 } x.natAbs 0 hM (by simp only []; omega) (by omega) (by omega)
  have hf := (setNormAndRound_round
      { z with acc := Exact, neg := decide (x < 0), prec := max (ndigits x.natAbs) 34 }
      x.natAbs 0 false (x.natAbs : ℚ)
      hM (by simp only []; omega) (by simp) (by simp)).2
  simp only [Int.add_zero] at h
  have hset : setInt z x = setNormAndRound
      { z with acc := Exact, neg := decide (x < 0), prec := max (ndigits x.natAbs) 34 }
      x.natAbs 0 false := by
    simp [setInt, hp, hx0, hpp]
  rw [hset]
  exact ⟨hf.1, h.1, h.2.1, hf.2.2, h.2.2.1, h.2.2.2⟩

theorem setInt_zero (z : Dec) :
    let z' := setInt z 0
    agrees z' (zeroRes false) = true ∧ z'.prec = (if z.prec = 0 then 34 else z.prec) ∧ z'.mode = z.mode := by
  by_cases hp : z.prec = 0 <;> simp [setInt, hp, agrees, zeroRes, DefaultPrec, Exact]

/-! #### `SetBitsExp` -/

theorem natOf_lt_pow_length (ws : List Nat) (h : ∀ w ∈ ws, w < B) : natOf ws < B ^ ws.length := by
  induction ws with
  | nil => simp [natOf]
  | cons w ws ih =>
    have hw : w < B := h w (List.mem_cons_self)
    have ih' := ih (fun v hv => h v (List.mem_cons_of_mem _ hv))
    have : B * (natOf ws + 1) ≤ B * B ^ ws.length := Nat.mul_le_mul_left B ih'
    rw [Nat.mul_add, Nat.mul_one] at this
    show w + B * natOf ws < B ^ (ws.length + 1)
    rw [Nat.pow_succ, Nat.mul_comm (B ^ ws.length) B]
    omega

theorem nwords_natOf_le (ws : List Nat) (h : ∀ w ∈ ws, w < B) : nwords (natOf ws) ≤ ws.length := by
  have h1 := natOf_lt_pow_length ws h
  rw [B_pow] at h1
  have h2 := (ndigits_le_iff _ _).mpr h1
  rw [nwords_def]; omega

/-- `SetBitsExp` on a non-zero slice is the common rounding tail applied to the slice's value
    at scale `10^(e − 19·len(slice))`. -/
theorem setBitsExp_eq_setNormAndRound (z : Dec) (M rawLen : Nat) (e : Int) (hM : 0 < M)
    (hlen : nwords M ≤ rawLen) :
    setBitsExp z M rawLen e = setNormAndRound { z with neg := false } M (e - (19 * rawLen : Nat)) false := by
  have hM0 : (M == 0) = false := by simp; omega
  unfold setBitsExp setNormAndRound
  simp only [hM0, Bool.false_eq_true, if_false, DW_eq]
  congr 1
  have : ((rawLen - nwords M : Nat) : Int) = (rawLen : Int) - (nwords M : Int) := by omega
  push_cast
  rw [this]; ring

theorem setBitsExpFull_nonzero (z : Dec) (ws : List Nat) (e : Int) (hws : ∀ w ∈ ws, w < B)
    (hM : natOf ws ≠ 0) :
    let M := natOf ws
    let p := if z.prec = 0 then max (min (nwords M * 19) MaxPrec) 34 else z.prec
    let z' := setBitsExpFull z ws e
    agrees z' (Spec.round z.mode p false (M : ℚ) (e - (19 * ws.length : Nat))) = true ∧
      z'.prec = p ∧ z'.mode = z.mode ∧ z'.neg = false := by
  have hpos : 0 < natOf ws := by omega
  have hlen := nwords_natOf_le ws hws
  have hMb : (natOf ws != 0) = true := by simp [hM]
  by_cases hp : z.prec = 0
  · simp only [hp, if_true]
    have hpp : umax (if nwords (natOf ws) * DW > MaxPrec then MaxPrec else nwords (natOf ws) * DW) DefaultPrec
        = max (min (nwords (natOf ws) * 19) MaxPrec) 34 := by
      rw [umax_eq_max, DW_eq]
      have : DefaultPrec = 34 := rfl
      split <;> omega
    have h := setNormAndRound_round
        { z with neg := false, prec := max (min (nwords (natOf ws) * 19) MaxPrec) 34 }
        (natOf ws) (e - (19 * ws.length : Nat))
        false (natOf ws : ℚ) hpos (by simp only []; omega) (by simp) (by simp)
    unfold setBitsExpFull
    simp only [hp, hMb, beq_self_eq_true, Bool.and_self, if_true, hpp]
    rw [setBitsExp_eq_setNormAndRound _ _ _ _ hpos hlen]
    exact h
  · simp only [hp, if_false]
    have hp' : (z.prec == 0) = false := by simp [hp]
    have h := setNormAndRound_round { z with neg := false } (natOf ws) (e - (19 * ws.length : Nat))
        false (natOf ws : ℚ) hpos (by simp only []; omega) (by simp) (by simp)
    unfold setBitsExpFull
    simp only [hp', Bool.false_and, Bool.false_eq_true, if_false]
    rw [setBitsExp_eq_setNormAndRound _ _ _ _ hpos hlen]
    exact h

theorem setBitsExpFull_zero (z : Dec) (ws : List Nat) (e : Int) (hM : natOf ws = 0) :
    let z' := setBitsExpFull z ws e
    agrees z' (zeroRes false) = true ∧ z'.prec = z.prec ∧ z'.mode = z.mode := by
  simp [setBitsExpFull, setBitsExp, hM, agrees, zeroRes, Exact]

/-! ### 7. `MantExp`, `SetMantExp` -/

theorem mantExp_fst (x m : Dec) (same : Bool) :
    (mantExp x m same).1 = if x.form = .finite then x.exp else 0 := by
  simp [mantExp]

theorem mantExp_snd_finite (x m : Dec) (hf : x.form = .finite) :
    (mantExp x m).2 = { x with exp := 0 } := by
  simp [mantExp, copy, hf]

theorem mantExp_snd_special (x m : Dec) (hf : x.form ≠ .finite) :
    (mantExp x m).2 = { m with prec := x.prec, mode := x.mode, acc := x.acc, form := x.form, neg := x.neg } := by
  simp [mantExp, copy, hf]

theorem mantExp_snd_same (x m : Dec) :
    (mantExp x m true).2 = if m.form = .finite then { m with exp := 0 } else m := by
  by_cases h : m.form = .finite <;> simp [mantExp, copy, h]

/-- `SetMantExp` of a finite mantissa whose digits fit its own precision. -/
theorem setMantExp_finite (z m : Dec) (e : Int) (hf : m.form = .finite)
    (hdvd : 10 ^ (m.len * 19 - m.prec) ∣ m.mant) :
    setMantExp z m e =
      if m.exp + e < MinExp then { m with acc := makeAcc m.neg, form := .zero }
      else if m.exp + e > MaxExp then { m with acc := makeAcc (!m.neg), form := .inf }
      else roundTrim { m with exp := m.exp + e } := by
  have hc : copy z m = m := by
    obtain ⟨form, neg, mant, len, exp, prec, mode, acc⟩ := m
    simp only at hf
    subst hf
    simp [copy]
  unfold setMantExp
  rw [hc]
  simp only [hf, bne_self_eq_false, Bool.false_eq_true, if_false]
  unfold setExpAndRound
  by_cases h1 : m.exp + e < MinExp
  · simp only [h1, if_true]
  · by_cases h2 : m.exp + e > MaxExp
    · simp only [h1, h2, if_true, if_false]
    · simp only [h1, h2, if_false]
      exact round_roundTrim rfl hdvd

theorem setMantExp_special (z m : Dec) (e : Int) (hf : m.form ≠ .finite) :
    setMantExp z m e =
      { z with prec := m.prec, mode := m.mode, acc := m.acc, form := m.form, neg := m.neg } := by
  simp [setMantExp, copy, hf]

/-- `z.SetMantExp(mant, exp)` after `exp = x.MantExp(mant)` restores `x` (up to the dropped low
    zero words and the accuracy, which `SetMantExp` resets). -/
theorem setMantExp_mantExp_finite {x : Dec} (z m : Dec) (hc : x.Canonical) (hf : x.form = .finite) :
    setMantExp z (mantExp x m).2 (mantExp x m).1 = roundTrim x := by
  obtain ⟨-, -, hmin, hmax, -⟩ := hc.fin_e hf
  rw [mantExp_fst, if_pos hf, mantExp_snd_finite x m hf,
    setMantExp_finite z _ _ (by simpa using hf) (by simpa using canonical_dvd hc hf)]
  have h1 : ¬ (x.exp < MinExp) := by omega
  have h2 : ¬ (x.exp > MaxExp) := by omega
  simp only [Int.zero_add, h1, h2, if_false]

theorem setMantExp_mantExp_special (x z m : Dec) (hf : x.form ≠ .finite) :
    setMantExp z (mantExp x m).2 (mantExp x m).1 =
      { z with prec := x.prec, mode := x.mode, acc := x.acc, form := x.form, neg := x.neg } := by
  rw [mantExp_snd_special x m hf, setMantExp_special _ _ _ (by simpa using hf)]

/-- In specification terms: rounding a canonical value to its own precision returns that value,
    exactly. -/
theorem round_canonical_agrees {x : Dec} (hc : x.Canonical) (hf : x.form = .finite) :
    agrees (round x false)
      (Spec.round x.mode x.prec x.neg (x.mant : ℚ) (x.exp - (x.len * 19 : Nat))) = true := by
  obtain ⟨h1, h2, h3, h4, h5, -⟩ := hc.fin_e hf
  have hpos := canonical_mant_pos hc hf
  obtain ⟨form, neg, mant, len, exp, prec, mode, acc⟩ := x
  simp only at hf h1 h2 h3 h4 h5 hpos ⊢
  subst hf
  rw [← roundInt_eq_round mode prec neg mant (exp - (len * 19 : Nat)) false (mant : ℚ) hpos h5
    (by simp) (by simp)]
  by_cases hle : len * 19 ≤ prec
  · exact round_agrees_short _ _ _ _ _ _ _ _ hle hpos h2 h3 h4
  · exact round_agrees_long _ _ _ _ _ _ _ _ h5 (by omega) h2 h3 h4

theorem setMantExp_mantExp_agrees {x : Dec} (z m : Dec) (hc : x.Canonical) (hf : x.form = .finite) :
    agrees (setMantExp z (mantExp x m).2 (mantExp x m).1) (roundSV x.mode x.prec (ofDec x)) = true := by
  rw [setMantExp_mantExp_finite z m hc hf, ← round_canonical_e hc hf]
  simp only [ofDec, hf, roundSV, DW_eq]
  exact round_canonical_agrees hc hf

end Decimal
