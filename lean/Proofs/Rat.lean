/-
  `SetRat` and `Rat` (C14c): proofs.

    1. `Spec.round` depends only on the magnitude `q × 10^k` (`round_value_eq`, from `round_scale`);
    2. `SetInt` on a zero-value Decimal stores a non-zero integer exactly in a `FinCanon` state
       (`setInt_fresh`), from `setInt_exact` and `setInt_canonical`;
    3. `setRat` = `quo` of two such states = `a/b` rounded once (`setRat_frac`), the integer branch
       (`setRat_int`), both together (`setRat_round`), zero;
    4. `toRat` is the exact value.

  Validation before proving (`#eval`, scratch files): `setRat` against
  `Spec.round mode p (a<0) (|a|/b) 0` with the receiver's precision, mode, sign and outcome on
  72 816 cases = 296 fractions (38 small incl. 1/3 2/3 1/7 1/8 5/2 and ties such as 135/100,
  99995/10; 96 with numerators/denominators of 1–61 digits; 14 around the word size 10^19, 10^38
  and the default precision 34; all of them also negated) × precisions 0…40 × six modes:
  0 mismatches.  `toRat` against `± mant × 10^(exp − 19·len)` on 1 472 canonical finite values
  (16 coefficients of 1–57 digits, 23 exponents −60…100, both signs, 0/1 extra low zero word):
  0 mismatches; `setRatQ` of that rational at the same precision gave back the value exactly on all
  1 472.
-/
import Proofs.Conv
import Proofs.ArithOps
import Proofs.CanonInv
import DecimalModel.Rat
import Mathlib.Tactic.Ring
import Mathlib.Tactic.Linarith
import Mathlib.Tactic.NormNum
import Mathlib.Tactic.FieldSimp

namespace Decimal
open Spec

/-! ### 1. `Spec.round` is a function of the magnitude -/

theorem natPow10_cast_zpow (s : Nat) : ((10 ^ s : Nat) : ℚ) = (10 : ℚ) ^ (s : Int) := by
  rw [zpow_natCast]; push_cast; rfl

theorem round_value_le (mode : Mode) (p : Nat) (neg : Bool) {q q' : ℚ} (k k' : Int)
    (hq : 0 < q) (hk : k' ≤ k) (h : q * (10 : ℚ) ^ k = q' * (10 : ℚ) ^ k') :
    Spec.round mode p neg q k = Spec.round mode p neg q' k' := by
  have h10 : (10 : ℚ) ≠ 0 := by norm_num
  have hk' : (10 : ℚ) ^ k' ≠ 0 := zpow_ne_zero _ h10
  have hs : (((k - k').toNat : Nat) : Int) = k - k' := Int.toNat_of_nonneg (by omega)
  have hq' : q' = q * (((10 ^ (k - k').toNat : Nat)) : ℚ) := by
    rw [natPow10_cast_zpow, hs, zpow_sub₀ h10, ← mul_div_assoc]
    exact eq_div_of_mul_eq hk' h.symm
  have := round_scale mode p neg q k (k - k').toNat hq
  rw [hs, ← hq'] at this
  rw [← this]
  congr 1
  omega

/-- Two splittings `q × 10^k = q' × 10^k'` of the same positive magnitude round alike. -/
theorem round_value_eq (mode : Mode) (p : Nat) (neg : Bool) {q q' : ℚ} (k k' : Int)
    (hq : 0 < q) (hq' : 0 < q') (h : q * (10 : ℚ) ^ k = q' * (10 : ℚ) ^ k') :
    Spec.round mode p neg q k = Spec.round mode p neg q' k' := by
  rcases le_total k' k with hk | hk
  · exact round_value_le mode p neg k k' hq hk h
  · exact (round_value_le mode p neg k' k hq' hk h.symm).symm

theorem round_neg_field (mode : Mode) (p : Nat) (neg : Bool) (q : ℚ) (k : Int) :
    (Spec.round mode p neg q k).neg = neg := by
  simp only [Spec.round]
  split_ifs <;> rfl

/-! ### 2. `SetInt` into a zero-value Decimal -/

/-- `var d Decimal; d.SetInt(x)`, `x ≠ 0` with at most `MaxExp` digits: a `FinCanon` state of
    precision `max (ndigits |x|) 34` whose value is exactly `x`. -/
theorem setInt_fresh (x : Int) (hx : x ≠ 0) (hnd : (ndigits x.natAbs : Int) ≤ MaxExp) :
    FinCanon (setInt {} x) ∧ (setInt {} x).neg = decide (x < 0) ∧
      (setInt {} x).prec = max (ndigits x.natAbs) 34 ∧
      ((setInt {} x).mant : ℚ) * (10 : ℚ) ^ intExp (setInt {} x) = (x.natAbs : ℚ) := by
  obtain ⟨hprec, hform, -, hneg, hexp, hm⟩ := Decimal.setInt_exact {} x hx rfl hnd
  have hc : (setInt {} x).Canonical := setInt_canonical {} x default_canonical
  obtain ⟨hl, hndm, hmin, hmax, hp1, -, -, -⟩ := hc.fin hform
  refine ⟨⟨hform, hl, hndm, hp1, hmin, hmax⟩, hneg, hprec, ?_⟩
  generalize setInt {} x = d at *
  have h10 : (10 : ℚ) ≠ 0 := by norm_num
  rw [intExp_eq, hexp, zpow_sub₀ h10, ← mul_div_assoc, div_eq_iff (zpow_ne_zero _ h10)]
  have := congrArg (fun n : Nat => (n : ℚ)) hm
  simp only [Nat.cast_mul, Nat.cast_pow, Nat.cast_ofNat] at this
  rw [zpow_natCast, zpow_natCast]
  exact this

/-! ### 3. `SetRat` -/

theorem setRat_int (z : Dec) (a : Int) : setRat z a 1 = (setInt z a, .ok) := rfl

theorem setRat_ne_one (z : Dec) (a : Int) (b : Nat) (hb : b ≠ 1) :
    setRat z a b =
      quo (if z.prec == 0 then { z with prec := umax (setInt {} a).prec (setInt {} (b : Int)).prec } else z)
        (setInt {} a) (setInt {} (b : Int)) := by
  have : (b == 1) = false := by simp [hb]
  simp only [setRat, this, Bool.false_eq_true, if_false]

/-- The closed form of the precision `SetRat` gives to a receiver of precision 0. -/
def ratPrec (z : Dec) (a : Int) (b : Nat) : Nat :=
  if z.prec = 0 then max (max (ndigits a.natAbs) 34) (max (ndigits b) 34) else z.prec

/-- The proper-fraction branch (`b ≠ 1`): `Quo` of the two exactly converted integers. -/
theorem setRat_frac (z : Dec) (a : Int) (b : Nat) (ha : a ≠ 0) (hb : 0 < b) (hb1 : b ≠ 1)
    (hna : (ndigits a.natAbs : Int) ≤ MaxExp) (hnb : (ndigits b : Int) ≤ MaxExp) :
    agrees (setRat z a b).1
        (Spec.round z.mode (ratPrec z a b) (decide (a < 0)) ((a.natAbs : ℚ) / (b : ℚ)) 0) = true ∧
      (setRat z a b).2 = .ok ∧ (setRat z a b).1.prec = ratPrec z a b ∧
      (setRat z a b).1.mode = z.mode ∧ (setRat z a b).1.neg = decide (a < 0) := by
  have hbI : (b : Int) ≠ 0 := by omega
  have hbabs : ((b : Int)).natAbs = b := Int.natAbs_natCast b
  obtain ⟨fa, na, pa, va⟩ := setInt_fresh a ha hna
  obtain ⟨fb, nb, pb, vb⟩ := setInt_fresh (b : Int) hbI (by rw [hbabs]; exact hnb)
  rw [hbabs] at pb vb
  have hnegb : decide ((b : Int) < 0) = false := by simp
  rw [setRat_ne_one z a b hb1]
  generalize setInt {} a = da at *
  generalize setInt {} (b : Int) = db at *
  -- the receiver after the precision prologue
  have hz' : ∀ z' : Dec, z' = (if z.prec == 0 then { z with prec := umax da.prec db.prec } else z) →
      effPrec2 z' da db = ratPrec z a b ∧ z'.mode = z.mode := by
    intro z' hz'
    by_cases hp : z.prec = 0
    · have e : (z.prec == 0) = true := by simp [hp]
      rw [e, if_pos rfl] at hz'
      subst hz'
      refine ⟨?_, rfl⟩
      unfold effPrec2 ratPrec
      rw [if_pos hp]
      show (if (umax da.prec db.prec == 0) = true then umax da.prec db.prec else umax da.prec db.prec) = _
      rw [ite_self, umax_eq_max, pa, pb]
    · have e : (z.prec == 0) = false := by simp [hp]
      rw [e] at hz'
      simp only [Bool.false_eq_true, if_false] at hz'
      subst hz'
      refine ⟨?_, rfl⟩
      unfold effPrec2 ratPrec
      rw [e, if_neg hp]
      simp
  obtain ⟨he, hmode⟩ := hz' _ rfl
  generalize (if z.prec == 0 then { z with prec := umax da.prec db.prec } else z) = z' at *
  obtain ⟨h1, h2, h3, h4⟩ := quo_correct z' da db fa fb
  have hapos : (0 : ℚ) < (a.natAbs : ℚ) := by
    have : 0 < a.natAbs := Int.natAbs_pos.mpr ha
    exact_mod_cast this
  have hbpos : (0 : ℚ) < (b : ℚ) := by exact_mod_cast hb
  have hma : (0 : ℚ) < (da.mant : ℚ) := by exact_mod_cast fa.mant_pos
  have hmb : (0 : ℚ) < (db.mant : ℚ) := by exact_mod_cast fb.mant_pos
  have h10 : (10 : ℚ) ≠ 0 := by norm_num
  have hround : Spec.round z'.mode (effPrec2 z' da db) (da.neg != db.neg)
        ((da.mant : ℚ) / (db.mant : ℚ)) (intExp da - intExp db)
      = Spec.round z.mode (ratPrec z a b) (decide (a < 0)) ((a.natAbs : ℚ) / (b : ℚ)) 0 := by
    rw [he, hmode, na, nb, hnegb]
    have hsgn : (decide (a < 0) != false) = decide (a < 0) := by cases decide (a < 0) <;> rfl
    rw [hsgn]
    apply round_value_eq _ _ _ _ _ (div_pos hma hmb) (div_pos hapos hbpos)
    rw [zpow_sub₀ h10, zpow_zero, mul_one, ← va, ← vb]
    have e1 : (10 : ℚ) ^ intExp da ≠ 0 := zpow_ne_zero _ h10
    have e2 : (10 : ℚ) ^ intExp db ≠ 0 := zpow_ne_zero _ h10
    field_simp
  rw [hround] at h1
  refine ⟨h1, h2, by rw [h3, he], by rw [h4, hmode], ?_⟩
  have := ((agrees_iff _ _).mp h1).2.1
  rw [this, round_neg_field]

/-- `SetRat(a/b)`, `a ≠ 0`, `b > 0` (both branches): `a/b` rounded once. -/
theorem setRat_round (z : Dec) (a : Int) (b : Nat) (ha : a ≠ 0) (hb : 0 < b)
    (hna : (ndigits a.natAbs : Int) ≤ MaxExp) (hnb : (ndigits b : Int) ≤ MaxExp) :
    agrees (setRat z a b).1
        (Spec.round z.mode (ratPrec z a b) (decide (a < 0)) ((a.natAbs : ℚ) / (b : ℚ)) 0) = true ∧
      (setRat z a b).2 = .ok ∧ (setRat z a b).1.prec = ratPrec z a b ∧
      (setRat z a b).1.mode = z.mode ∧ (setRat z a b).1.neg = decide (a < 0) := by
  by_cases hb1 : b = 1
  · subst hb1
    have hp : ratPrec z a 1 = (if z.prec = 0 then max (min (ndigits a.natAbs) MaxPrec) 34 else z.prec) := by
      unfold ratPrec
      have hmax : MaxExp = 2147483647 := rfl
      have hmp : MaxPrec = 4294967295 := rfl
      rw [ndigits_one]
      split <;> omega
    obtain ⟨h1, h2, h3, h4⟩ := setInt_nonzero z a ha
    rw [setRat_int, hp, Nat.cast_one, div_one]
    exact ⟨h1, rfl, h2, h3, h4⟩
  · exact setRat_frac z a b ha hb hb1 hna hnb

/-- `SetRat(0)`: `0` is `0/1`, an integer. -/
theorem setRat_zero_int (z : Dec) :
    agrees (setRat z 0 1).1 (zeroRes false) = true ∧ (setRat z 0 1).2 = .ok ∧
      (setRat z 0 1).1.prec = (if z.prec = 0 then 34 else z.prec) ∧ (setRat z 0 1).1.mode = z.mode := by
  obtain ⟨h1, h2, h3⟩ := Decimal.setInt_zero z
  rw [setRat_int]
  exact ⟨h1, rfl, h2, h3⟩

/-! #### On a core `Rat` -/

theorem rat_natAbs_div_den (x : ℚ) : ((x.num.natAbs : ℚ)) / (x.den : ℚ) = |x| := by
  have hd : (0 : ℚ) < (x.den : ℚ) := by exact_mod_cast x.den_pos
  conv_rhs => rw [← Rat.num_div_den x]
  rw [abs_div, abs_of_pos hd, Nat.cast_natAbs, Int.cast_abs]

theorem setRatQ_round (z : Dec) (x : ℚ) (hx : x ≠ 0)
    (hn : (ndigits x.num.natAbs : Int) ≤ MaxExp) (hd : (ndigits x.den : Int) ≤ MaxExp) :
    agrees (setRatQ z x).1
        (Spec.round z.mode (ratPrec z x.num x.den) (decide (x < 0)) |x| 0) = true ∧
      (setRatQ z x).2 = .ok ∧ (setRatQ z x).1.prec = ratPrec z x.num x.den ∧
      (setRatQ z x).1.mode = z.mode ∧ (setRatQ z x).1.neg = decide (x < 0) := by
  have h := setRat_round z x.num x.den (by rwa [ne_eq, Rat.num_eq_zero]) x.den_pos hn hd
  have hs : decide (x.num < 0) = decide (x < 0) := by
    rw [decide_eq_decide]; exact Rat.num_neg
  rw [rat_natAbs_div_den, hs] at h
  exact h

/-! ### 4. `Rat` -/

/-- The magnitude built by `Rat` is `mant × 10^(exp − 19·len)`, whatever the three-way split. -/
theorem ratMag_eq (x : Dec) :
    ratMag x = (x.mant : ℚ) * pow10Rat (x.exp - ((x.len * 19 : Nat) : Int)) := by
  have h10 : (10 : ℚ) ≠ 0 := by norm_num
  rw [pow10Rat_eq_zpow]
  show (if x.exp > ((x.len * 19 : Nat) : Int) then
        ((x.mant * 10 ^ (x.exp - ((x.len * 19 : Nat) : Int)).toNat : Nat) : ℚ)
      else if x.exp < ((x.len * 19 : Nat) : Int) then
        (x.mant : ℚ) / ((10 ^ (((x.len * 19 : Nat) : Int) - x.exp).toNat : Nat) : ℚ)
      else (x.mant : ℚ)) = _
  split_ifs with h1 h2
  · have hs : (((x.exp - ((x.len * 19 : Nat) : Int)).toNat : Nat) : Int) = x.exp - ((x.len * 19 : Nat) : Int) :=
      Int.toNat_of_nonneg (by omega)
    rw [Nat.cast_mul, natPow10_cast_zpow, hs]
  · have hs : (((((x.len * 19 : Nat) : Int) - x.exp).toNat : Nat) : Int) = ((x.len * 19 : Nat) : Int) - x.exp :=
      Int.toNat_of_nonneg (by omega)
    rw [natPow10_cast_zpow, hs, div_eq_mul_inv, ← zpow_neg]
    congr 2
    omega
  · have : x.exp - ((x.len * 19 : Nat) : Int) = 0 := by omega
    rw [this, zpow_zero, mul_one]

theorem toRat_finite (x : Dec) (hf : x.form = .finite) :
    toRat x =
      (some ((if x.neg then -1 else 1) * (x.mant : ℚ) * pow10Rat (x.exp - ((x.len * 19 : Nat) : Int))),
        Exact) := by
  unfold toRat
  rw [hf]
  simp only [ratMag_eq]
  cases x.neg <;> simp

theorem toRat_zero (x : Dec) (hf : x.form = .zero) : toRat x = (some 0, Exact) := by
  unfold toRat; rw [hf]

theorem toRat_inf (x : Dec) (hf : x.form = .inf) : toRat x = (none, makeAcc x.neg) := by
  unfold toRat; rw [hf]

/-- The `int32` guard of `Rat` in closed form. -/
theorem toRatGuard_iff (x : Dec) (hf : x.form = .finite) :
    toRatGuard x = true ↔
      ((x.len * 19 : Nat) : Int) ≤ 2147483647 ∧ ((x.len * 19 : Nat) : Int) - x.exp ≤ 2147483647 := by
  simp [toRatGuard, hf, DW_eq]

/-! ### 5. Outside the digit bound: integers of more than `MaxExp = 2^31 − 1` digits

  Such a numerator or denominator does not fit the exponent range, so the scratch `SetInt` turns
  it into an infinity, and `Quo` then works on the infinity: the quotient `a/b` itself may well be
  representable. These are properties of the model (the inputs are far too large to evaluate). -/

theorem setInt_fresh_overflow (x : Int) (hx : x ≠ 0) (h : MaxExp < (ndigits x.natAbs : Int)) :
    (setInt {} x).form = .inf ∧ (setInt {} x).neg = decide (x < 0) := by
  have hx0 : (x == 0) = false := by simp [hx]
  have hmax : MaxExp = 2147483647 := rfl
  have hmin : MinExp = -2147483648 := rfl
  have hsum := ndigits_add_dnormShift x.natAbs
  have he : ¬ ((0 : Int) + ((nwords x.natAbs * DW : Nat) : Int)
      - ((dnormShift x.natAbs (nwords x.natAbs) : Nat) : Int) < MinExp) := by
    rw [DW_eq]; omega
  have he2 : (0 : Int) + ((nwords x.natAbs * DW : Nat) : Int)
      - ((dnormShift x.natAbs (nwords x.natAbs) : Nat) : Int) > MaxExp := by
    rw [DW_eq]; omega
  simp only [setInt, hx0, Bool.false_eq_true, if_false, setNormAndRound, setExpAndRound, he, he2, if_true]
  exact ⟨trivial, rfl⟩

/-- Numerator of more than `MaxExp` digits, ordinary denominator `b ≥ 2`: the result is an
    infinity flagged `Exact`, although e.g. `10^MaxExp / 3 = 0.33… × 10^MaxExp` is in range. -/
theorem setRat_huge_num (z : Dec) (a : Int) (b : Nat) (ha : a ≠ 0) (hb : 0 < b) (hb1 : b ≠ 1)
    (hna : MaxExp < (ndigits a.natAbs : Int)) (hnb : (ndigits b : Int) ≤ MaxExp) :
    (setRat z a b).1.form = .inf ∧ (setRat z a b).1.acc = Exact ∧
      (setRat z a b).1.neg = decide (a < 0) ∧ (setRat z a b).2 = .ok := by
  obtain ⟨fa, na⟩ := setInt_fresh_overflow a ha hna
  obtain ⟨fb, nb, -, -⟩ := setInt_fresh (b : Int) (by omega) (by rw [Int.natAbs_natCast]; exact hnb)
  have hnegb : decide ((b : Int) < 0) = false := by simp
  rw [setRat_ne_one z a b hb1]
  generalize setInt {} a = da at *
  generalize setInt {} (b : Int) = db at *
  simp [quo, opnd, fa, fb.form_eq, na, nb, hnegb]

/-- Denominator of more than `MaxExp` digits: the result is a zero flagged `Exact`, although e.g.
    `1 / 10^MaxExp = 0.1 × 10^(−MaxExp+1)` is in range. -/
theorem setRat_huge_den (z : Dec) (a : Int) (b : Nat) (ha : a ≠ 0)
    (hna : (ndigits a.natAbs : Int) ≤ MaxExp) (hnb : MaxExp < (ndigits b : Int)) :
    (setRat z a b).1.form = .zero ∧ (setRat z a b).1.acc = Exact ∧
      (setRat z a b).1.neg = decide (a < 0) ∧ (setRat z a b).2 = .ok := by
  have hb1 : b ≠ 1 := by
    rintro rfl
    rw [ndigits_one] at hnb
    have hmax : MaxExp = 2147483647 := rfl
    omega
  have hb0 : (b : Int) ≠ 0 := by
    intro h0
    have : b = 0 := by omega
    rw [this, ndigits_zero] at hnb
    have hmax : MaxExp = 2147483647 := rfl
    omega
  obtain ⟨fa, na, -, -⟩ := setInt_fresh a ha hna
  obtain ⟨fb, nb⟩ := setInt_fresh_overflow (b : Int) hb0 (by rw [Int.natAbs_natCast]; exact hnb)
  have hnegb : decide ((b : Int) < 0) = false := by simp
  rw [setRat_ne_one z a b hb1]
  generalize setInt {} a = da at *
  generalize setInt {} (b : Int) = db at *
  simp [quo, opnd, fb, fa.form_eq, na, nb, hnegb]

/-- Both of more than `MaxExp` digits: `Inf / Inf`, the call panics with `ErrNaN`, although the
    quotient may be close to 1. -/
theorem setRat_huge_both (z : Dec) (a : Int) (b : Nat)
    (hna : MaxExp < (ndigits a.natAbs : Int)) (hnb : MaxExp < (ndigits b : Int)) :
    (setRat z a b).2 = .errNaN := by
  have hmax : MaxExp = 2147483647 := rfl
  have ha : a ≠ 0 := by
    rintro rfl
    rw [Int.natAbs_zero, ndigits_zero] at hna
    omega
  have hb1 : b ≠ 1 := by
    rintro rfl
    rw [ndigits_one] at hnb
    omega
  have hb0 : (b : Int) ≠ 0 := by
    intro h0
    have : b = 0 := by omega
    rw [this, ndigits_zero] at hnb
    omega
  obtain ⟨fa, -⟩ := setInt_fresh_overflow a ha hna
  obtain ⟨fb, -⟩ := setInt_fresh_overflow (b : Int) hb0 (by rw [Int.natAbs_natCast]; exact hnb)
  rw [setRat_ne_one z a b hb1]
  generalize setInt {} a = da at *
  generalize setInt {} (b : Int) = db at *
  simp [quo, opnd, fa, fb]

end Decimal
