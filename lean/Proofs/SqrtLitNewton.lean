/-
  The Newton loop of the literal `sqrtInverse` keeps `t` positive when the seed is within ≈ 20 % of
  `1/√x` (`x·t0² ∈ [1/2, 3/2]`): error analysis of the five roundings of one pass
  (`newtonStep_pos`), the loop (`newtonLoop_pos`), and the Newton hypothesis of the totality theorem
  (`newtonGoodT_of_seed`).
-/
import Proofs.SqrtLitTerm
import Proofs.Accuracy

namespace Decimal
open Spec

/-- Rounding error of `setNormAndRound` well inside the exponent range: less than one unit in
    the last place of the result's decade. -/
theorem snr_err (z : Dec) (M : Nat) (k : Int) (hM : 0 < M) (hp1 : 1 ≤ z.prec) (hp2 : z.prec ≤ MaxPrec)
    (hmin : MinExp ≤ (ndigits M : Int) + k) (hmax : (ndigits M : Int) + k + 1 ≤ MaxExp) :
    let z' := setNormAndRound z M k false
    FinCanon z' ∧ z'.neg = z.neg ∧ z'.prec = z.prec ∧ z'.mode = z.mode ∧
      |magVal z' - qval M k| < (10 : ℚ) ^ ((ndigits M : Int) + k - z.prec) := by
  intro z'
  have hq : (0 : ℚ) < (M : ℚ) := by exact_mod_cast hM
  obtain ⟨hag, hprec, hmode, hneg⟩ := setNormAndRound_correct z M k false (M : ℚ) hM hp1 (by intro h; cases h) (by simp)
  have hdx : decExp (M : ℚ) = (ndigits M : Int) := by
    obtain ⟨b1, b2⟩ := ndigits_cast_bounds hM
    have hnd := ndigits_pos hM
    apply decExp_unique hq
    · have : ((ndigits M : Int) - 1) = ((ndigits M - 1 : Nat) : Int) := by omega
      rw [this, zpow_natCast]; exact b1
    · rw [zpow_natCast]; exact b2
  have hfin : (Spec.round z.mode z.prec z.neg (M : ℚ) k).form = .finite :=
    round_form_finite _ _ _ _ _ (by rw [hdx]; exact hmin) (by rw [hdx]; exact hmax)
  have hcan := setNormAndRound_canonical z M k false hM hp1 hp2
  have hag' := (agrees_iff _ _).mp hag
  have hf : z'.form = .finite := by rw [hag'.1, hfin]
  obtain ⟨c1, c2, c3, c4, c5, -, -, -⟩ := hcan.fin hf
  refine ⟨⟨hf, c1, c2, c5, c3, c4⟩, hneg, hprec, hmode, ?_⟩
  have hfaith := round_faithful z.mode z.prec z.neg (M : ℚ) k hq hp1 hfin
  have hdm := decMag_of_agrees z' _ k z.prec hag hfin (round_coef_digits z.mode z.prec z.neg (M : ℚ) k hq hp1 hfin)
  rw [← hdm] at hfaith
  unfold ulpOf at hfaith
  rw [hdx] at hfaith
  -- scale by 10^k
  have h10 : (10 : ℚ) ≠ 0 := by norm_num
  have hk := ten_zpow_pos k
  have e1 : magVal z' = decMag z' k * (10 : ℚ) ^ k := by
    unfold magVal qval decMag
    rw [intExp_eq, mul_assoc, ← zpow_add₀ h10]
    congr 2; omega
  have e2 : qval M k = (M : ℚ) * (10 : ℚ) ^ k := rfl
  rw [e1, e2, ← sub_mul, abs_mul, abs_of_pos hk]
  have e3 : (10 : ℚ) ^ ((ndigits M : Int) + k - z.prec) = (10 : ℚ) ^ ((ndigits M : Int) - z.prec) * (10 : ℚ) ^ k := by
    rw [← zpow_add₀ h10]; congr 1; omega
  rw [e3]
  exact mul_lt_mul_of_pos_right hfaith hk


/-- `d` is a positive finite canonical Decimal of value `v`. -/
structure PV (d : Dec) (v : ℚ) : Prop where
  fin : FinCanon d
  neg : d.neg = false
  val : magVal d = v

theorem PV.pos {d : Dec} {v : ℚ} (h : PV d v) : 0 < v := by rw [← h.val]; exact magVal_pos h.fin

/-- Relative error of an exact positive value `q = M × 10^k` written by `setNormAndRound`
    at precision `P` (`10^-3 ≤ q ≤ 10^3`): at most `δ = 10^(1−P)`. -/
theorem snr_rel_err (z : Dec) (M : Nat) (k : Int) (q : ℚ) (P : Nat) (hM : 0 < M) (hq : qval M k = q)
    (hzp : z.prec = P) (hzn : z.neg = false) (hP1 : 1 ≤ P) (hP2 : P ≤ MaxPrec)
    (hlo : (1 : ℚ) / 1000 ≤ q) (hhi : q ≤ 1000) :
    ∃ v', PV (setNormAndRound z M k false) v' ∧ (setNormAndRound z M k false).prec = P ∧
      (setNormAndRound z M k false).mode = z.mode ∧
      q * (1 - (10 : ℚ) ^ (1 - (P : Int))) ≤ v' ∧ v' ≤ q * (1 + (10 : ℚ) ^ (1 - (P : Int))) := by
  have hMin : MinExp = -2147483648 := rfl
  have hMax : MaxExp = 2147483647 := rfl
  have h10 : (10 : ℚ) ≠ 0 := by norm_num
  obtain ⟨b1, b2⟩ := qval_bounds hM k
  rw [hq] at b1 b2
  -- the exponent of q is between -3 and 4
  have e1 : (ndigits M : Int) + k - 1 < 4 := by
    have : (10 : ℚ) ^ ((ndigits M : Int) + k - 1) < (10 : ℚ) ^ (4 : Int) := lt_of_le_of_lt b1 (by norm_num; linarith)
    exact (zpow_lt_zpow_iff_right₀ (by norm_num : (1 : ℚ) < 10)).mp this
  have e2 : -4 < (ndigits M : Int) + k := by
    have : (10 : ℚ) ^ (-4 : Int) < (10 : ℚ) ^ ((ndigits M : Int) + k) := lt_of_lt_of_le (by norm_num; linarith) (le_of_lt b2)
    exact (zpow_lt_zpow_iff_right₀ (by norm_num : (1 : ℚ) < 10)).mp this
  obtain ⟨f1, f2, f3, f4, f5⟩ := snr_err z M k hM (by omega) (by omega) (by omega) (by omega)
  rw [hq, hzp] at f5
  refine ⟨_, ⟨f1, by rw [f2, hzn], rfl⟩, by rw [f3, hzp], f4, ?_⟩
  have hbd : (10 : ℚ) ^ ((ndigits M : Int) + k - (P : Int)) ≤ q * (10 : ℚ) ^ (1 - (P : Int)) := by
    have : (10 : ℚ) ^ ((ndigits M : Int) + k - (P : Int)) = (10 : ℚ) ^ ((ndigits M : Int) + k - 1) * (10 : ℚ) ^ (1 - (P : Int)) := by
      rw [← zpow_add₀ h10]; congr 1; omega
    rw [this]
    exact mul_le_mul_of_nonneg_right b1 (le_of_lt (ten_zpow_pos _))
  have habs := abs_lt.mp (lt_of_lt_of_le f5 hbd)
  constructor <;> nlinarith [habs.1, habs.2]

theorem magVal_three : magVal litThree = 3 := by
  rw [litThree_eq]
  have := magVal_digit 3 1
  simp only [qval] at this
  norm_num at this
  exact this

theorem magVal_half : magVal litOneHalf = 1 / 2 := by
  rw [litOneHalf_eq]
  have := magVal_digit 5 0
  simp only [qval] at this
  norm_num at this
  exact this

theorem pv_three : PV litThree 3 := by
  refine ⟨?_, by rw [litThree_eq], magVal_three⟩
  rw [litThree_eq]; exact finCanon_digit 3 (by omega) (by omega) _ (by decide) (by decide)

theorem pv_half : PV litOneHalf (1 / 2) := by
  refine ⟨?_, by rw [litOneHalf_eq], magVal_half⟩
  rw [litOneHalf_eq]; exact finCanon_digit 5 (by omega) (by omega) _ (by decide) (by decide)

/-- `Mul` of two positive values. -/
theorem mulK_pos_err (z a b : Dec) (va vb : ℚ) (P : Nat) (ha : PV a va) (hb : PV b vb) (hzp : z.prec = P)
    (hP1 : 1 ≤ P) (hP2 : P ≤ MaxPrec) (hlo : (1 : ℚ) / 1000 ≤ va * vb) (hhi : va * vb ≤ 1000) :
    (mulK z a b).2 = .ok ∧ (mulK z a b).1.prec = P ∧
      ∃ v', PV (mulK z a b).1 v' ∧
        va * vb * (1 - (10 : ℚ) ^ (1 - (P : Int))) ≤ v' ∧ v' ≤ va * vb * (1 + (10 : ℚ) ^ (1 - (P : Int))) := by
  have hmk : mulK z a b = (setNormAndRound { z with neg := false } (a.mant * b.mant) (intExp a + intExp b) false, .ok) := by
    simp [mulK, ha.fin.form_eq, hb.fin.form_eq, ha.neg, hb.neg, umul]
  have hq : qval (a.mant * b.mant) (intExp a + intExp b) = va * vb := by
    rw [qval_mul, ← ha.val, ← hb.val]; rfl
  obtain ⟨v', h1, h2, -, h4, h5⟩ := snr_rel_err { z with neg := false } (a.mant * b.mant) (intExp a + intExp b) (va * vb) P
    (Nat.mul_pos ha.fin.mant_pos hb.fin.mant_pos) hq hzp rfl hP1 hP2 hlo hhi
  rw [hmk]
  exact ⟨rfl, h2, v', h1, h4, h5⟩

/-- `v.Sub(three, u)` for `0 < u ≤ 2.9`. -/
theorem subK_three_err (z y : Dec) (w : ℚ) (P : Nat) (hy : PV y w) (hzp : z.prec = P)
    (hP1 : 1 ≤ P) (hP2 : P ≤ MaxPrec) (hw : w ≤ 29 / 10) (sX sT : Dec) :
    (subK z litThree y sX sT).2 = .ok ∧ (subK z litThree y sX sT).1.prec = P ∧
      ∃ v', PV (subK z litThree y sX sT).1 v' ∧
        (3 - w) * (1 - (10 : ℚ) ^ (1 - (P : Int))) ≤ v' ∧ v' ≤ (3 - w) * (1 + (10 : ℚ) ^ (1 - (P : Int))) := by
  have h3 := pv_three
  have hgt : magVal y < magVal litThree := by rw [hy.val, h3.val]; linarith
  have hu : ucmp litThree y > 0 := (ucmp_pos_iff_val h3.fin hy.fin).mpr hgt
  have hal : alignL y litThree < alignL litThree y := (alignL_lt_iff _ _).mpr hgt
  have hne : ¬ (alignL litThree y - alignL y litThree = 0) := by omega
  have hsk : subK z litThree y sX sT =
      (zeroSignFix (setNormAndRound { z with neg := false } (alignL litThree y - alignL y litThree)
        (min (intExp litThree) (intExp y)) false), .ok) := by
    simp only [subK, h3.fin.form_eq, hy.fin.form_eq, beq_self_eq_true, Bool.and_self, if_true, h3.neg, hy.neg,
      bne_self_eq_false, Bool.false_eq_true, if_false, hu, usub_eq, if_neg hne]
  have hq : qval (alignL litThree y - alignL y litThree) (min (intExp litThree) (intExp y)) = 3 - w := by
    rw [qval_sub (le_of_lt hal), magVal_alignL, min_comm, magVal_alignL, h3.val, hy.val]
  have hwpos := hy.pos
  obtain ⟨v', h1, h2, -, h4, h5⟩ := snr_rel_err { z with neg := false } _ _ (3 - w) P (by omega) hq hzp rfl hP1 hP2
    (by linarith) (by linarith)
  rw [hsk, zeroSignFix_finite h1.fin.form_eq]
  exact ⟨rfl, h2, v', h1, h4, h5⟩

/-- `w(3−w)² ≤ 4`. -/
theorem newton_f_le (w : ℚ) (h : w ≤ 4) : w * (3 - w) ^ 2 ≤ 4 := by
  nlinarith [sq_nonneg (w - 1), mul_nonneg (sq_nonneg (w - 1)) (sub_nonneg.mpr h)]

/-- `w(3−w)² ≥ 3` on `[0.49, 1.51]`. -/
theorem newton_f_ge (w : ℚ) (h1 : 49 / 100 ≤ w) (h2 : w ≤ 151 / 100) : 3 ≤ w * (3 - w) ^ 2 := by
  have hq : 0 ≤ (w - 49 / 100) * (151 / 100 - w) := mul_nonneg (by linarith) (by linarith)
  have h4 : 0 ≤ 4 - w := by linarith
  nlinarith [mul_nonneg h4 hq]

/-- Two-sided product bound for non-negative factors. -/
theorem newton_mul_between {a a1 a2 b b1 b2 : ℚ} (ha1 : 0 ≤ a1) (hb1 : 0 ≤ b1) (h1 : a1 ≤ a) (h2 : a ≤ a2)
    (h3 : b1 ≤ b) (h4 : b ≤ b2) : a1 * b1 ≤ a * b ∧ a * b ≤ a2 * b2 :=
  ⟨mul_le_mul h1 h3 hb1 (le_trans ha1 h1), mul_le_mul h2 h4 (le_trans hb1 h3) (le_trans (le_trans ha1 h1) h2)⟩

/-- First half of a Newton pass: `u2 = rnd(x·rnd(t²))` stays in `[0.49, 1.51]`. -/
theorem newton_num1 (X T U1 U2 δ : ℚ) (hX : 0 < X) (hT : 0 < T) (_hδ0 : 0 ≤ δ) (hδ : δ ≤ 1 / 1000)
    (hy1 : 1 / 2 ≤ X * (T * T)) (hy2 : X * (T * T) ≤ 3 / 2)
    (h1 : T * T * (1 - δ) ≤ U1 ∧ U1 ≤ T * T * (1 + δ))
    (h2 : X * U1 * (1 - δ) ≤ U2 ∧ U2 ≤ X * U1 * (1 + δ)) :
    0 < U1 ∧ X * (T * T) * (998 / 1000) ≤ U2 ∧ U2 ≤ X * (T * T) * (1003 / 1000) ∧
      49 / 100 ≤ U2 ∧ U2 ≤ 151 / 100 := by
  have hTT : 0 < T * T := mul_pos hT hT
  have hd1 : 999 / 1000 ≤ 1 - δ := by linarith
  have hd2 : 1 + δ ≤ 1001 / 1000 := by linarith
  have hU1lo : T * T * (999 / 1000) ≤ U1 := le_trans (mul_le_mul_of_nonneg_left hd1 (le_of_lt hTT)) h1.1
  have hU1hi : U1 ≤ T * T * (1001 / 1000) := le_trans h1.2 (mul_le_mul_of_nonneg_left hd2 (le_of_lt hTT))
  have hU1pos : 0 < U1 := lt_of_lt_of_le (by positivity) hU1lo
  have hXU1 : 0 < X * U1 := mul_pos hX hU1pos
  have a1 : X * U1 * (999 / 1000) ≤ U2 := le_trans (mul_le_mul_of_nonneg_left hd1 (le_of_lt hXU1)) h2.1
  have a2 : U2 ≤ X * U1 * (1001 / 1000) := le_trans h2.2 (mul_le_mul_of_nonneg_left hd2 (le_of_lt hXU1))
  have b1 : X * (T * T * (999 / 1000)) ≤ X * U1 := mul_le_mul_of_nonneg_left hU1lo (le_of_lt hX)
  have b2 : X * U1 ≤ X * (T * T * (1001 / 1000)) := mul_le_mul_of_nonneg_left hU1hi (le_of_lt hX)
  have hy : 0 < X * (T * T) := mul_pos hX hTT
  refine ⟨hU1pos, ?_, ?_, ?_, ?_⟩
  · nlinarith
  · nlinarith
  · nlinarith
  · nlinarith

/-- Second half: the new `t` is positive and `x·t²` is back in `[1/2, 3/2]`. -/
theorem newton_num2 (X T U2 V U3 T' δ : ℚ) (hX : 0 < X) (hT : 0 < T) (_hδ0 : 0 ≤ δ) (hδ : δ ≤ 1 / 1000)
    (hU2a : X * (T * T) * (998 / 1000) ≤ U2) (hU2b : U2 ≤ X * (T * T) * (1003 / 1000))
    (hw1 : 49 / 100 ≤ U2) (hw2 : U2 ≤ 151 / 100)
    (h3 : (3 - U2) * (1 - δ) ≤ V ∧ V ≤ (3 - U2) * (1 + δ))
    (h4 : T * V * (1 - δ) ≤ U3 ∧ U3 ≤ T * V * (1 + δ))
    (h5 : U3 * (1 / 2) * (1 - δ) ≤ T' ∧ T' ≤ U3 * (1 / 2) * (1 + δ)) :
    0 < V ∧ 0 < U3 ∧ 0 < T' ∧ 1 / 2 ≤ X * (T' * T') ∧ X * (T' * T') ≤ 3 / 2 := by
  have hd1 : 999 / 1000 ≤ 1 - δ := by linarith
  have hd2 : 1 + δ ≤ 1001 / 1000 := by linarith
  have hg : 0 < 3 - U2 := by linarith
  have hV1 : (3 - U2) * (999 / 1000) ≤ V := le_trans (mul_le_mul_of_nonneg_left hd1 (le_of_lt hg)) h3.1
  have hV2 : V ≤ (3 - U2) * (1001 / 1000) := le_trans h3.2 (mul_le_mul_of_nonneg_left hd2 (le_of_lt hg))
  have hVpos : 0 < V := lt_of_lt_of_le (by positivity) hV1
  have hTV : 0 < T * V := mul_pos hT hVpos
  have hU31 : T * V * (999 / 1000) ≤ U3 := le_trans (mul_le_mul_of_nonneg_left hd1 (le_of_lt hTV)) h4.1
  have hU32 : U3 ≤ T * V * (1001 / 1000) := le_trans h4.2 (mul_le_mul_of_nonneg_left hd2 (le_of_lt hTV))
  have hU3pos : 0 < U3 := lt_of_lt_of_le (by positivity) hU31
  have hH : 0 < U3 * (1 / 2) := by positivity
  have hT1 : U3 * (1 / 2) * (999 / 1000) ≤ T' := le_trans (mul_le_mul_of_nonneg_left hd1 (le_of_lt hH)) h5.1
  have hT2 : T' ≤ U3 * (1 / 2) * (1001 / 1000) := le_trans h5.2 (mul_le_mul_of_nonneg_left hd2 (le_of_lt hH))
  have hT'pos : 0 < T' := lt_of_lt_of_le (by positivity) hT1
  -- T' between T·g/2·0.997 and T·g/2·1.0031, g = 3 − U2
  set g := 3 - U2 with hgdef
  have hTg : 0 < T * g := mul_pos hT hg
  have c1 : T * g * (997 / 2000) ≤ T' := by
    have e1 : T * (g * (999 / 1000)) ≤ T * V := mul_le_mul_of_nonneg_left hV1 (le_of_lt hT)
    have e2 : T * (g * (999 / 1000)) * (999 / 1000) ≤ U3 :=
      le_trans (mul_le_mul_of_nonneg_right e1 (by norm_num)) hU31
    have e3 : T * (g * (999 / 1000)) * (999 / 1000) * (1 / 2) * (999 / 1000) ≤ T' :=
      le_trans (mul_le_mul_of_nonneg_right (mul_le_mul_of_nonneg_right e2 (by norm_num)) (by norm_num)) hT1
    have : T * g * (997 / 2000) ≤ T * (g * (999 / 1000)) * (999 / 1000) * (1 / 2) * (999 / 1000) := by
      have : T * (g * (999 / 1000)) * (999 / 1000) * (1 / 2) * (999 / 1000) = T * g * (997002999 / 2000000000) := by ring
      rw [this]
      exact mul_le_mul_of_nonneg_left (by norm_num) (le_of_lt hTg)
    exact le_trans this e3
  have c2 : T' ≤ T * g * (1004 / 2000) := by
    have e1 : T * V ≤ T * (g * (1001 / 1000)) := mul_le_mul_of_nonneg_left hV2 (le_of_lt hT)
    have e2 : U3 ≤ T * (g * (1001 / 1000)) * (1001 / 1000) :=
      le_trans hU32 (mul_le_mul_of_nonneg_right e1 (by norm_num))
    have e3 : T' ≤ T * (g * (1001 / 1000)) * (1001 / 1000) * (1 / 2) * (1001 / 1000) :=
      le_trans hT2 (mul_le_mul_of_nonneg_right (mul_le_mul_of_nonneg_right e2 (by norm_num)) (by norm_num))
    have : T * (g * (1001 / 1000)) * (1001 / 1000) * (1 / 2) * (1001 / 1000) ≤ T * g * (1004 / 2000) := by
      have : T * (g * (1001 / 1000)) * (1001 / 1000) * (1 / 2) * (1001 / 1000) = T * g * (1003003001 / 2000000000) := by ring
      rw [this]
      exact mul_le_mul_of_nonneg_left (by norm_num) (le_of_lt hTg)
    exact le_trans e3 this
  -- squares
  have hlo0 : 0 ≤ T * g * (997 / 2000) := by positivity
  have s1 : (T * g * (997 / 2000)) * (T * g * (997 / 2000)) ≤ T' * T' := mul_le_mul c1 c1 hlo0 (le_of_lt hT'pos)
  have s2 : T' * T' ≤ (T * g * (1004 / 2000)) * (T * g * (1004 / 2000)) :=
    mul_le_mul c2 c2 (le_of_lt hT'pos) (by positivity)
  -- f(w) bounds, w = U2
  have f1 := newton_f_le U2 (by linarith)
  have f2 := newton_f_ge U2 hw1 hw2
  have hgsq : (3 - U2) ^ 2 = g * g := by rw [hgdef]; ring
  rw [hgsq] at f1 f2
  have hy : 0 < X * (T * T) := mul_pos hX (mul_pos hT hT)
  have hgg : 0 < g * g := mul_pos hg hg
  -- X·T'² ≥ X·T²·g²·(997/2000)² and X T² ≥ U2 / 1.003
  refine ⟨hVpos, hU3pos, hT'pos, ?_, ?_⟩
  · have k1 : X * ((T * g * (997 / 2000)) * (T * g * (997 / 2000))) ≤ X * (T' * T') :=
      mul_le_mul_of_nonneg_left s1 (le_of_lt hX)
    have k2 : X * ((T * g * (997 / 2000)) * (T * g * (997 / 2000))) = X * (T * T) * (g * g) * (994009 / 4000000) := by ring
    rw [k2] at k1
    -- X T² ≥ U2 · 1000/1003
    have k3 : U2 * (1000 / 1003) ≤ X * (T * T) := by linarith
    have k4 : U2 * (1000 / 1003) * (g * g) ≤ X * (T * T) * (g * g) := mul_le_mul_of_nonneg_right k3 (le_of_lt hgg)
    nlinarith
  · have k1 : X * (T' * T') ≤ X * ((T * g * (1004 / 2000)) * (T * g * (1004 / 2000))) :=
      mul_le_mul_of_nonneg_left s2 (le_of_lt hX)
    have k2 : X * ((T * g * (1004 / 2000)) * (T * g * (1004 / 2000))) = X * (T * T) * (g * g) * (1008016 / 4000000) := by ring
    rw [k2] at k1
    have k3 : X * (T * T) ≤ U2 * (1000 / 998) := by linarith
    have k4 : X * (T * T) * (g * g) ≤ U2 * (1000 / 998) * (g * g) := mul_le_mul_of_nonneg_right k3 (le_of_lt hgg)
    nlinarith

theorem newton_nb1 (X S : ℚ) (hX1 : 1 / 100 ≤ X) (hX2 : X < 10) (hy1 : 1 / 2 ≤ X * S) (hy2 : X * S ≤ 3 / 2) :
    1 / 20 ≤ S ∧ S ≤ 150 := by
  have hX : 0 < X := by linarith
  constructor
  · by_contra hcon
    have : S < 1 / 20 := not_le.mp hcon
    nlinarith
  · by_contra hcon
    have : 150 < S := not_le.mp hcon
    nlinarith

theorem newton_nb2 (T : ℚ) (hT : 0 < T) (h1 : 1 / 20 ≤ T * T) (h2 : T * T ≤ 150) : 1 / 5 ≤ T ∧ T ≤ 13 := by
  constructor
  · by_contra hcon
    have : T < 1 / 5 := not_le.mp hcon
    nlinarith
  · by_contra hcon
    have : 13 < T := not_le.mp hcon
    nlinarith

theorem newton_nb3 (X S U1 δ : ℚ) (hX : 0 < X) (_hδ0 : 0 ≤ δ) (hδ : δ ≤ 1 / 1000)
    (hy1 : 1 / 2 ≤ X * S) (hy2 : X * S ≤ 3 / 2) (l1 : S * (1 - δ) ≤ U1) (r1 : U1 ≤ S * (1 + δ)) :
    1 / 1000 ≤ X * U1 ∧ X * U1 ≤ 1000 := by
  have a : X * (S * (1 - δ)) ≤ X * U1 := mul_le_mul_of_nonneg_left l1 (le_of_lt hX)
  have b : X * U1 ≤ X * (S * (1 + δ)) := mul_le_mul_of_nonneg_left r1 (le_of_lt hX)
  have e1 : X * (S * (1 - δ)) = X * S * (1 - δ) := by ring
  have e2 : X * (S * (1 + δ)) = X * S * (1 + δ) := by ring
  rw [e1] at a
  rw [e2] at b
  have hy : 0 ≤ X * S := by linarith
  have c : X * S * (999 / 1000) ≤ X * S * (1 - δ) := mul_le_mul_of_nonneg_left (by linarith) hy
  have d : X * S * (1 + δ) ≤ X * S * (1001 / 1000) := mul_le_mul_of_nonneg_left (by linarith) hy
  constructor <;> linarith

theorem newton_nb4 (g V δ : ℚ) (_hδ0 : 0 ≤ δ) (hδ : δ ≤ 1 / 1000) (hg1 : 149 / 100 ≤ g) (hg2 : g ≤ 251 / 100)
    (l : g * (1 - δ) ≤ V) (r : V ≤ g * (1 + δ)) : 1 ≤ V ∧ V ≤ 3 := by
  have hg : 0 ≤ g := by linarith
  have c : g * (999 / 1000) ≤ g * (1 - δ) := mul_le_mul_of_nonneg_left (by linarith) hg
  have d : g * (1 + δ) ≤ g * (1001 / 1000) := mul_le_mul_of_nonneg_left (by linarith) hg
  constructor <;> linarith

theorem newton_nb5 (T V : ℚ) (hT1 : 1 / 5 ≤ T) (hT2 : T ≤ 13) (hV1 : 1 ≤ V) (hV2 : V ≤ 3) :
    1 / 5 ≤ T * V ∧ T * V ≤ 39 := by
  have a := newton_mul_between (a := T) (b := V) (by norm_num : (0 : ℚ) ≤ 1 / 5) (by norm_num : (0 : ℚ) ≤ 1) hT1 hT2 hV1 hV2
  constructor <;> linarith [a.1, a.2]

theorem newton_nb6 (W U3 δ : ℚ) (_hδ0 : 0 ≤ δ) (hδ : δ ≤ 1 / 1000) (hW1 : 1 / 5 ≤ W) (hW2 : W ≤ 39)
    (l : W * (1 - δ) ≤ U3) (r : U3 ≤ W * (1 + δ)) : 1 / 10 ≤ U3 ∧ U3 ≤ 40 := by
  have hW : 0 ≤ W := by linarith
  have c : W * (999 / 1000) ≤ W * (1 - δ) := mul_le_mul_of_nonneg_left (by linarith) hW
  have d : W * (1 + δ) ≤ W * (1001 / 1000) := mul_le_mul_of_nonneg_left (by linarith) hW
  constructor <;> linarith


/-- One Newton pass keeps `t` positive with `x·t² ∈ [1/2, 3/2]` (`t` within ≈ 20 % of `1/√x`). -/
theorem newtonStep_pos (x t u v : Dec) (X T : ℚ) (hx : PV x X) (hX1 : 1 / 100 ≤ X) (hX2 : X < 10) (ht : PV t T)
    (hy1 : 1 / 2 ≤ X * (T * T)) (hy2 : X * (T * T) ≤ 3 / 2) (hp1 : 10 ≤ t.prec) (hp2 : t.prec ≤ 2147483648) :
    (newtonStep x t u v).2 = .ok ∧ (newtonStep x t u v).1.1.prec = 2 * t.prec - 2 ∧
      ∃ T', PV (newtonStep x t u v).1.1 T' ∧ 1 / 2 ≤ X * (T' * T') ∧ X * (T' * T') ≤ 3 / 2 := by
  have hMP : MaxPrec = 4294967295 := rfl
  have hpi := u32_eq t.prec (by omega) hp2
  obtain ⟨π, hπ⟩ : ∃ π, 2 * t.prec - 2 = π := ⟨_, rfl⟩
  rw [hπ] at hpi ⊢
  have hπ1 : 18 ≤ π := by omega
  have hπ2 : π ≤ MaxPrec := by omega
  have hXpos := hx.pos
  have hTpos := ht.pos
  -- δ ≤ 1/1000
  obtain ⟨δ, hδdef⟩ : ∃ δ : ℚ, δ = (10 : ℚ) ^ (1 - (π : Int)) := ⟨_, rfl⟩
  have hδ0 : 0 ≤ δ := by rw [hδdef]; exact le_of_lt (ten_zpow_pos _)
  have hδ : δ ≤ 1 / 1000 := by
    rw [hδdef]
    calc (10 : ℚ) ^ (1 - (π : Int)) ≤ (10 : ℚ) ^ (-3 : Int) := ten_zpow_le (by omega)
      _ = 1 / 1000 := by norm_num
  -- bounds on T·T and T
  obtain ⟨hTT1, hTT2⟩ := newton_nb1 X (T * T) hX1 hX2 hy1 hy2
  obtain ⟨hT1, hT2⟩ := newton_nb2 T hTpos hTT1 hTT2
  unfold newtonStep
  simp only [hpi]
  generalize ht' : ({ t with prec := π } : Dec) = t'
  have ht'v : PV t' T := by
    rw [← ht']
    obtain ⟨f1, f2, f3, f4, f5, f6⟩ := ht.fin
    exact ⟨⟨f1, f2, f3, by simp only; omega, f5, f6⟩, ht.neg, ht.val⟩
  have ht'p : t'.prec = π := by rw [← ht']
  generalize hu' : ({ u with prec := π } : Dec) = u'
  have hu'p : u'.prec = π := by rw [← hu']
  generalize hv' : ({ v with prec := π } : Dec) = v'
  have hv'p : v'.prec = π := by rw [← hv']
  -- m1 = u.Mul(t, t)
  have e1 : mul u' t' t' = mulK u' t' t' := by rw [mul_eq_mulK' _ _ _ _ _ (by omega)]; rfl
  obtain ⟨o1, p1, U1, c1, l1, r1⟩ := mulK_pos_err u' t' t' T T π ht'v ht'v hu'p (by omega) hπ2 (by linarith) (by linarith)
  rw [← hδdef] at l1 r1
  rw [e1]
  generalize hm1 : mulK u' t' t' = m1 at *
  obtain ⟨m1d, m1o⟩ := m1
  simp only at o1 p1 c1
  subst o1
  simp only [bne_self_eq_false, Bool.false_eq_true, if_false]
  obtain ⟨hXU1lo, hXU1hi⟩ := newton_nb3 X (T * T) U1 δ hXpos hδ0 hδ hy1 hy2 l1 r1
  -- m2 = u.Mul(x, u)
  have e2 : mul m1d x m1d false true = mulK m1d x m1d := by rw [mul_eq_mulK' _ _ _ _ _ (by omega)]; rfl
  obtain ⟨o2, p2, U2, c2, l2, r2⟩ := mulK_pos_err m1d x m1d X U1 π hx c1 p1 (by omega) hπ2 hXU1lo hXU1hi
  rw [← hδdef] at l2 r2
  rw [e2]
  generalize hm2 : mulK m1d x m1d = m2 at *
  obtain ⟨m2d, m2o⟩ := m2
  simp only at o2 p2 c2
  subst o2
  simp only [bne_self_eq_false, Bool.false_eq_true, if_false]
  obtain ⟨-, n2, n3, n4, n5⟩ := newton_num1 X T U1 U2 δ hXpos hTpos hδ0 hδ hy1 hy2 ⟨l1, r1⟩ ⟨l2, r2⟩
  -- m3 = v.Sub(three, u)
  have e3 : sub v' litThree m2d = subK v' litThree m2d (set v' litThree) (subTail v' m2d false) :=
    sub_eq_subK' _ _ _ (by omega)
  obtain ⟨o3, p3, V, c3, l3, r3⟩ := subK_three_err v' m2d U2 π c2 hv'p (by omega) hπ2 (by linarith)
    (set v' litThree) (subTail v' m2d false)
  rw [← hδdef] at l3 r3
  rw [e3]
  generalize hm3 : subK v' litThree m2d (set v' litThree) (subTail v' m2d false) = m3 at *
  obtain ⟨m3d, m3o⟩ := m3
  simp only at o3 p3 c3
  subst o3
  simp only [bne_self_eq_false, Bool.false_eq_true, if_false]
  -- bounds on V
  obtain ⟨hV1, hV2⟩ := newton_nb4 (3 - U2) V δ hδ0 hδ (by linarith) (by linarith) l3 r3
  obtain ⟨hTV1, hTV2⟩ := newton_nb5 T V hT1 hT2 hV1 hV2
  -- m4 = u.Mul(t, v)
  have e4 : mul m2d t' m3d = mulK m2d t' m3d := by rw [mul_eq_mulK' _ _ _ _ _ (by omega)]; rfl
  obtain ⟨o4, p4, U3, c4, l4, r4⟩ := mulK_pos_err m2d t' m3d T V π ht'v c3 p2 (by omega) hπ2 (by linarith) (by linarith)
  rw [← hδdef] at l4 r4
  rw [e4]
  generalize hm4 : mulK m2d t' m3d = m4 at *
  obtain ⟨m4d, m4o⟩ := m4
  simp only at o4 p4 c4
  subst o4
  simp only [bne_self_eq_false, Bool.false_eq_true, if_false]
  obtain ⟨hU3a, hU3b⟩ := newton_nb6 (T * V) U3 δ hδ0 hδ hTV1 hTV2 l4 r4
  -- m5 = t.Mul(u, oneHalf)
  have e5 : mul t' m4d litOneHalf = mulK t' m4d litOneHalf := by rw [mul_eq_mulK' _ _ _ _ _ (by omega)]; rfl
  obtain ⟨o5, p5, T', c5, l5, r5⟩ := mulK_pos_err t' m4d litOneHalf U3 (1 / 2) π c4 pv_half ht'p (by omega) hπ2
    (by linarith) (by linarith)
  rw [← hδdef] at l5 r5
  rw [e5]
  obtain ⟨-, -, -, k4, k5⟩ := newton_num2 X T U2 V U3 T' δ hXpos hTpos hδ0 hδ n2 n3 n4 n5 ⟨l3, r3⟩ ⟨l4, r4⟩ ⟨l5, r5⟩
  exact ⟨o5, p5, T', c5, k4, k5⟩


/-- The Newton loop keeps `t` positive with `x·t² ∈ [1/2, 3/2]`. -/
theorem newtonLoop_pos (prec : Nat) (x : Dec) (X : ℚ) (hx : PV x X) (hX1 : 1 / 100 ≤ X) (hX2 : X < 10)
    (hprec : prec ≤ 2147483649) :
    ∀ (fuel : Nat) (t u v : Dec) (T : ℚ) (r : Dec × Dec × Dec) (o : Outcome), PV t T →
      1 / 2 ≤ X * (T * T) → X * (T * T) ≤ 3 / 2 → 10 ≤ t.prec →
      newtonLoop prec x fuel t u v = some (r, o) →
      ∃ T', PV r.1 T' ∧ 1 / 2 ≤ X * (T' * T') ∧ X * (T' * T') ≤ 3 / 2 := by
  intro fuel
  induction fuel with
  | zero =>
    intro t u v T r o ht h1 h2 _ hres
    rw [newtonLoop_zero] at hres
    split at hres
    · cases hres
    · simp only [Option.some.injEq, Prod.mk.injEq] at hres
      obtain ⟨hr, -⟩ := hres
      subst hr
      exact ⟨T, ht, h1, h2⟩
  | succ f ih =>
    intro t u v T r o ht h1 h2 hp hres
    rw [newtonLoop_succ] at hres
    split at hres
    · next hlt =>
      obtain ⟨s1, s2, T', s3, s4, s5⟩ := newtonStep_pos x t u v X T hx hX1 hX2 ht h1 h2 hp (by omega)
      rw [if_pos s1] at hres
      exact ih _ _ _ T' r o s3 s4 s5 (by omega) hres
    · simp only [Option.some.injEq, Prod.mk.injEq] at hres
      obtain ⟨hr, -⟩ := hres
      subst hr
      exact ⟨T, ht, h1, h2⟩

/-- A seed within ≈ 20 % of `1/√x` (`x·t0² ∈ [1/2, 3/2]`) discharges the Newton hypothesis of
    the totality theorem. -/
theorem newtonGoodT_of_seed (t0 zw : Dec) (p : Nat) (T0 : ℚ) (hzp : zw.prec = p) (hz : WorkX zw) (hp1 : 1 ≤ p)
    (hp2 : p + 1 ≤ 1073741824) (ht0 : PV t0 T0) (ht0p : 10 ≤ t0.prec)
    (h1 : 1 / 2 ≤ magVal zw * (T0 * T0)) (h2 : magVal zw * (T0 * T0) ≤ 3 / 2) : NewtonGoodT t0 zw := by
  have hMin : MinExp = -2147483648 := rfl
  have hMax : MaxExp = 2147483647 := rfl
  have hMP : MaxPrec = 4294967295 := rfl
  have hprec : u32 ((zw.prec : Int) + 2) = p + 2 := by rw [hzp, u32_prec p (by omega)]
  have hxv : PV zw (magVal zw) := ⟨hz.fin, hz.neg, rfl⟩
  obtain ⟨hb1, hb2⟩ := hz.bounds
  have hX1 : 1 / 100 ≤ magVal zw := by
    calc (1 : ℚ) / 100 = (10 : ℚ) ^ (-2 : Int) := by norm_num
      _ ≤ magVal zw := hb1
  have hX2 : magVal zw < 10 := by
    calc magVal zw < (10 : ℚ) ^ (1 : Int) := hb2
      _ = 10 := by norm_num
  intro fuel t u v hN
  rw [hprec] at hN
  obtain ⟨T, hT, k1, k2⟩ := newtonLoop_pos (p + 2) zw (magVal zw) hxv hX1 hX2 (by omega) fuel t0 {} {} T0
    (t, u, v) .ok ht0 h1 h2 ht0p hN
  simp only at hT
  -- the exponent of t is 0, 1 or 2
  obtain ⟨hTT1, hTT2⟩ := newton_nb1 (magVal zw) (T * T) hX1 hX2 k1 k2
  obtain ⟨hT1, hT2⟩ := newton_nb2 T hT.pos hTT1 hTT2
  obtain ⟨g1, g2⟩ := magVal_bounds hT.fin
  rw [hT.val] at g1 g2
  have he1 : 0 ≤ t.exp := by
    have : (10 : ℚ) ^ (-1 : Int) < (10 : ℚ) ^ t.exp := lt_of_le_of_lt (by norm_num; linarith) g2
    have := (zpow_lt_zpow_iff_right₀ (by norm_num : (1 : ℚ) < 10)).mp this
    omega
  have he2 : t.exp ≤ 2 := by
    have : (10 : ℚ) ^ (t.exp - 1) < (10 : ℚ) ^ (2 : Int) := lt_of_le_of_lt g1 (by norm_num; linarith)
    have := (zpow_lt_zpow_iff_right₀ (by norm_num : (1 : ℚ) < 10)).mp this
    omega
  rw [hzp]
  exact litS_of_t zw zw t p hzp hz (fun _ => hT.fin.mant_pos) hp1 (by omega) hT.neg (by rw [hT.fin.form_eq]; simp)
    (fun _ => ⟨by omega, by omega⟩) (fun _ => hT.fin.nd)

end Decimal
