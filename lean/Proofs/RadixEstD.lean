/-
  Kernel-evaluated chunks of the range check `chkD` (Proofs/RadixEst.lean): 16 × 2^14 arguments.
  Generated text; each chunk is one `decide +kernel` (a separate kernel evaluation keeps memory flat).
-/
import Proofs.RadixEst

set_option linter.unusedVariables false
namespace Decimal.L0
open Decimal Decimal.Gen

theorem chkD_c0 : allRange chkD 14 0 = true := by decide +kernel
theorem chkD_c1 : allRange chkD 14 16384 = true := by decide +kernel
theorem chkD_c2 : allRange chkD 14 32768 = true := by decide +kernel
theorem chkD_c3 : allRange chkD 14 49152 = true := by decide +kernel
theorem chkD_c4 : allRange chkD 14 65536 = true := by decide +kernel
theorem chkD_c5 : allRange chkD 14 81920 = true := by decide +kernel
theorem chkD_c6 : allRange chkD 14 98304 = true := by decide +kernel
theorem chkD_c7 : allRange chkD 14 114688 = true := by decide +kernel
theorem chkD_c8 : allRange chkD 14 131072 = true := by decide +kernel
theorem chkD_c9 : allRange chkD 14 147456 = true := by decide +kernel
theorem chkD_c10 : allRange chkD 14 163840 = true := by decide +kernel
theorem chkD_c11 : allRange chkD 14 180224 = true := by decide +kernel
theorem chkD_c12 : allRange chkD 14 196608 = true := by decide +kernel
theorem chkD_c13 : allRange chkD 14 212992 = true := by decide +kernel
theorem chkD_c14 : allRange chkD 14 229376 = true := by decide +kernel
theorem chkD_c15 : allRange chkD 14 245760 = true := by decide +kernel

theorem chkD_chunk (j : Nat) (h : allRange chkD 14 (j * 16384) = true) (k : Nat) (hk : k / 16384 = j) :
    chkD k = true := by
  apply allRange_spec chkD 14 (j * 16384) h k
  · omega
  · have : (2 : Nat) ^ 14 = 16384 := by norm_num
    omega

theorem chkD_all (k : Nat) (hk : k < 262144) : chkD k = true := by
  have hlt : k / 16384 < 16 := by omega
  generalize hj : k / 16384 = j at hlt
  interval_cases j
  · exact chkD_chunk 0 chkD_c0 k hj
  · exact chkD_chunk 1 chkD_c1 k hj
  · exact chkD_chunk 2 chkD_c2 k hj
  · exact chkD_chunk 3 chkD_c3 k hj
  · exact chkD_chunk 4 chkD_c4 k hj
  · exact chkD_chunk 5 chkD_c5 k hj
  · exact chkD_chunk 6 chkD_c6 k hj
  · exact chkD_chunk 7 chkD_c7 k hj
  · exact chkD_chunk 8 chkD_c8 k hj
  · exact chkD_chunk 9 chkD_c9 k hj
  · exact chkD_chunk 10 chkD_c10 k hj
  · exact chkD_chunk 11 chkD_c11 k hj
  · exact chkD_chunk 12 chkD_c12 k hj
  · exact chkD_chunk 13 chkD_c13 k hj
  · exact chkD_chunk 14 chkD_c14 k hj
  · exact chkD_chunk 15 chkD_c15 k hj

/-- THE ESTIMATE OF `decToNat` SUFFICES for every digit count up to 5 050 000: a destination of
    `decToNatWords d` binary words holds every value below `10^d`. -/
theorem decToNatWords_suffices (d : Nat) (h : d ≤ 5050000) : 10 ^ d ≤ W ^ decToNatWords d := by
  have hW : W = 2 ^ 64 := by norm_num [W]
  rw [hW, ← Nat.pow_mul]
  by_cases hn : decToNatWords d < 262144
  · exact chkD_use d (chkD_all _ hn)
  · have h1 : 6432163 * d ≤ (64 * decToNatWords d) * 1936274 := by omega
    exact pow_le_pow_of_cert 10 2 6432163 1936274 _ _ cert_10_2 (by norm_num) (by norm_num) h1

end Decimal.L0
