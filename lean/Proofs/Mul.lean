/-
  L0 multiplication and squaring (DecimalModel/DecOps.lean): karatsuba, mul, basicSqr, karatsubaSqr,
  sqr compute the product for all lengths, all thresholds and any sufficient fuel.
-/
import Proofs.DecOps

set_option linter.unusedVariables false
set_option linter.unusedSimpArgs false
namespace Decimal.L0
open Decimal Decimal.Gen

/-! ### karaAddSub: add / subtract `x·B^off` modulo `B^len z` -/

theorem add10VW_carry_le (x : List Nat) (y : Nat) (hx : WF x) (hy : y ≤ 1) : (add10VW x y).2 ≤ 1 := by
  cases x with
  | nil => simpa [add10VW] using hy
  | cons a x => exact (add10VW_spec (a :: x) y hx (by omega)).2.2.2.2 (by simp)

theorem sub10VW_borrow_le (x : List Nat) (y : Nat) (hx : WF x) (hy : y ≤ 1) : (sub10VW x y).2 ≤ 1 := by
  cases x with
  | nil => simpa [sub10VW] using hy
  | cons a x => exact (sub10VW_spec (a :: x) y hx (by omega)).2.2.2.2 (by simp)

theorem karaAddSub_add (z x : List Nat) (off n : Nat) (hz : WF z) (hx : WF x) (hxl : x.length = n)
    (hL : off + n + n / 2 = z.length) :
    ∃ c, c ≤ 1 ∧ natOf (karaAddSub false z off x n) + c * B ^ z.length = natOf z + B ^ off * natOf x
      ∧ WF (karaAddSub false z off x n) ∧ (karaAddSub false z off x n).length = z.length := by
  unfold karaAddSub
  simp only [Bool.false_eq_true, if_false]
  have hxt : x.take n = x := List.take_of_length_le (by omega)
  have hhi : (z.drop (off + n)).take (n / 2) = z.drop (off + n) :=
    List.take_of_length_le (by rw [List.length_drop]; omega)
  have hrest : z.drop (off + n + n / 2) = [] := List.drop_eq_nil_of_le (by omega)
  rw [hxt, hhi, hrest, List.append_nil]
  have hml : ((z.drop off).take n).length = x.length := by
    rw [List.length_take, List.length_drop]; omega
  obtain ⟨a1, a2, a3, a4⟩ := add10VV_spec ((z.drop off).take n) x 0
    (WF_take (WF_drop hz _) _) hx hml (by omega)
  rw [hml] at a1 a3
  have hsp := natOf_split3 z off n (by omega)
  have hti : (z.take off).length = off := by rw [List.length_take]; omega
  have hhl : (z.drop (off + n)).length = n / 2 := by rw [List.length_drop]; omega
  have hp : B ^ z.length = B ^ off * (B ^ x.length * B ^ (z.drop (off + n)).length) := by
    rw [← pow_add, ← pow_add, hhl]; congr 1; omega
  generalize add10VV ((z.drop off).take n) x 0 = r0 at *
  by_cases hc : r0.2 ≠ 0
  · rw [if_pos hc]
    obtain ⟨b1, b2, b3, b4, b5⟩ := add10VW_spec (z.drop (off + n)) r0.2 (WF_drop hz _) (by omega)
    refine ⟨(add10VW (z.drop (off + n)) r0.2).2, add10VW_carry_le _ _ (WF_drop hz _) a4, ?_,
      WF_append.mpr ⟨WF_append.mpr ⟨WF_take hz _, a2⟩, b2⟩, ?_⟩
    · rw [natOf_join3, hti, a3, hp, hsp, hxl]
      rw [hxl] at a1
      linear_combination B ^ off * a1 + B ^ off * B ^ n * b1
    · simp only [List.length_append, hti, a3, b3, hhl]; omega
  · rw [if_neg hc]
    have hc0 : r0.2 = 0 := by omega
    rw [hc0] at a1
    refine ⟨0, by omega, ?_, WF_append.mpr ⟨WF_append.mpr ⟨WF_take hz _, a2⟩, WF_drop hz _⟩, ?_⟩
    · rw [natOf_join3, hti, a3, hsp, hxl]
      rw [hxl] at a1
      linear_combination B ^ off * a1
    · simp only [List.length_append, hti, a3, hhl]; omega

theorem karaAddSub_sub (z x : List Nat) (off n : Nat) (hz : WF z) (hx : WF x) (hxl : x.length = n)
    (hL : off + n + n / 2 = z.length) :
    ∃ c, c ≤ 1 ∧ natOf (karaAddSub true z off x n) + B ^ off * natOf x = natOf z + c * B ^ z.length
      ∧ WF (karaAddSub true z off x n) ∧ (karaAddSub true z off x n).length = z.length := by
  unfold karaAddSub
  simp only [if_true]
  have hxt : x.take n = x := List.take_of_length_le (by omega)
  have hhi : (z.drop (off + n)).take (n / 2) = z.drop (off + n) :=
    List.take_of_length_le (by rw [List.length_drop]; omega)
  have hrest : z.drop (off + n + n / 2) = [] := List.drop_eq_nil_of_le (by omega)
  rw [hxt, hhi, hrest, List.append_nil]
  have hml : ((z.drop off).take n).length = x.length := by
    rw [List.length_take, List.length_drop]; omega
  obtain ⟨a1, a2, a3, a4⟩ := sub10VV_spec ((z.drop off).take n) x 0
    (WF_take (WF_drop hz _) _) hx hml (by omega)
  rw [hml] at a1 a3
  have hsp := natOf_split3 z off n (by omega)
  have hti : (z.take off).length = off := by rw [List.length_take]; omega
  have hhl : (z.drop (off + n)).length = n / 2 := by rw [List.length_drop]; omega
  have hp : B ^ z.length = B ^ off * (B ^ x.length * B ^ (z.drop (off + n)).length) := by
    rw [← pow_add, ← pow_add, hhl]; congr 1; omega
  generalize sub10VV ((z.drop off).take n) x 0 = r0 at *
  by_cases hc : r0.2 ≠ 0
  · rw [if_pos hc]
    obtain ⟨b1, b2, b3, b4, b5⟩ := sub10VW_spec (z.drop (off + n)) r0.2 (WF_drop hz _) (by omega)
    refine ⟨(sub10VW (z.drop (off + n)) r0.2).2, sub10VW_borrow_le _ _ (WF_drop hz _) a4, ?_,
      WF_append.mpr ⟨WF_append.mpr ⟨WF_take hz _, a2⟩, b2⟩, ?_⟩
    · rw [natOf_join3, hti, a3, hp, hsp, hxl]
      rw [hxl] at a1
      linear_combination B ^ off * a1 + B ^ off * B ^ n * b1
    · simp only [List.length_append, hti, a3, b3, hhl]; omega
  · rw [if_neg hc]
    have hc0 : r0.2 = 0 := by omega
    rw [hc0] at a1
    refine ⟨0, by omega, ?_, WF_append.mpr ⟨WF_append.mpr ⟨WF_take hz _, a2⟩, WF_drop hz _⟩, ?_⟩
    · rw [natOf_join3, hti, a3, hsp, hxl]
      rw [hxl] at a1
      linear_combination B ^ off * a1
    · simp only [List.length_append, hti, a3, hhl]; omega

/-! ### |a − b| by trial subtraction -/

/-- the sign/magnitude computation of Karatsuba: subtract, and on borrow subtract the other way. -/
theorem absdiff_spec (a b : List Nat) (ha : WF a) (hb : WF b) (hl : a.length = b.length) :
    let r := sub10VV a b 0
    let d := if r.2 ≠ 0 then (sub10VV b a 0).1 else r.1
    WF d ∧ d.length = a.length
      ∧ (r.2 ≠ 0 → natOf d + natOf a = natOf b) ∧ (¬ r.2 ≠ 0 → natOf d + natOf b = natOf a) := by
  intro r d
  obtain ⟨a1, a2, a3, a4⟩ := sub10VV_spec a b 0 ha hb hl (by omega)
  obtain ⟨b1, b2, b3, b4⟩ := sub10VV_spec b a 0 hb ha hl.symm (by omega)
  have hlt1 := natOf_lt a2
  have hlt2 := natOf_lt b2
  rw [a3] at hlt1
  rw [b3, ← hl] at hlt2
  rw [← hl] at b1
  by_cases hc : (sub10VV a b 0).2 ≠ 0
  · have hd : d = (sub10VV b a 0).1 := by simp only [d, r, if_pos hc]
    have hr : r.2 ≠ 0 := hc
    rw [hd]
    refine ⟨b2, by rw [b3, hl], fun _ => ?_, fun h => absurd hr h⟩
    have h1 : (sub10VV a b 0).2 = 1 := by omega
    rw [h1] at a1
    generalize B ^ a.length = P at *
    have : (sub10VV b a 0).2 = 0 := by
      by_contra h
      have : (sub10VV b a 0).2 = 1 := by omega
      rw [this] at b1
      omega
    rw [this] at b1
    omega
  · have hd : d = (sub10VV a b 0).1 := by simp only [d, r, if_neg hc]
    have hr : ¬ r.2 ≠ 0 := hc
    rw [hd]
    refine ⟨a2, a3, fun h => absurd h hr, fun _ => ?_⟩
    have h0 : (sub10VV a b 0).2 = 0 := by omega
    rw [h0] at a1
    omega

/-! ### Karatsuba: the arithmetic heart -/

theorem kara_bound (Q X0 X1 Y0 Y1 : Nat) (hX0 : X0 < Q) (hX1 : X1 < Q) (hY0 : Y0 < Q) (hY1 : Y1 < Q) :
    (X0 + Q * X1) * (Y0 + Q * Y1) < Q * Q * Q * Q := by
  have h1 : Q * (X1 + 1) ≤ Q * Q := Nat.mul_le_mul_left _ (by omega)
  have h2 : Q * (Y1 + 1) ≤ Q * Q := Nat.mul_le_mul_left _ (by omega)
  have h3 : (X0 + Q * X1) * (Y0 + Q * Y1) < (Q * Q) * (Q * Q) :=
    Nat.mul_lt_mul'' (by rw [Nat.mul_add] at h1; omega) (by rw [Nat.mul_add] at h2; omega)
  calc _ < (Q * Q) * (Q * Q) := h3
    _ = Q * Q * Q * Q := by ring

theorem kara_arith_add (Q X0 X1 Y0 Y1 XD YD r c : Nat) (hX0 : X0 < Q) (hX1 : X1 < Q) (hY0 : Y0 < Q)
    (hY1 : Y1 < Q)
    (hs : (XD + X0 = X1 ∧ YD + Y1 = Y0) ∨ (XD + X1 = X0 ∧ YD + Y0 = Y1))
    (h : r + c * (Q * Q * Q * Q) = X0 * Y0 + Q * Q * (X1 * Y1) + Q * (X0 * Y0 + X1 * Y1 + XD * YD)) :
    r = (X0 + Q * X1) * (Y0 + Q * Y1) := by
  have hb := kara_bound Q X0 X1 Y0 Y1 hX0 hX1 hY0 hY1
  have hid : X0 * Y0 + Q * Q * (X1 * Y1) + Q * (X0 * Y0 + X1 * Y1 + XD * YD)
      = (X0 + Q * X1) * (Y0 + Q * Y1) := by
    rcases hs with ⟨h1, h2⟩ | ⟨h1, h2⟩
    · subst h1 h2; ring
    · subst h1 h2; ring
  rw [hid] at h
  rcases Nat.eq_zero_or_pos c with h0 | h0
  · rw [h0] at h; omega
  · have : Q * Q * Q * Q ≤ c * (Q * Q * Q * Q) := Nat.le_mul_of_pos_left _ h0
    omega

theorem kara_arith_sub (Q X0 X1 Y0 Y1 XD YD r c c3 : Nat) (hX0 : X0 < Q) (hX1 : X1 < Q) (hY0 : Y0 < Q)
    (hY1 : Y1 < Q) (hr : r < Q * Q * Q * Q)
    (hs : (XD + X0 = X1 ∧ YD + Y0 = Y1) ∨ (XD + X1 = X0 ∧ YD + Y1 = Y0))
    (h : r + Q * (XD * YD) + c * (Q * Q * Q * Q)
      = X0 * Y0 + Q * Q * (X1 * Y1) + Q * (X0 * Y0 + X1 * Y1) + c3 * (Q * Q * Q * Q)) :
    r = (X0 + Q * X1) * (Y0 + Q * Y1) := by
  have hb := kara_bound Q X0 X1 Y0 Y1 hX0 hX1 hY0 hY1
  have hid : X0 * Y0 + Q * Q * (X1 * Y1) + Q * (X0 * Y0 + X1 * Y1)
      = (X0 + Q * X1) * (Y0 + Q * Y1) + Q * (XD * YD) := by
    rcases hs with ⟨h1, h2⟩ | ⟨h1, h2⟩
    · subst h1 h2; ring
    · subst h1 h2; ring
  rw [hid] at h
  generalize (X0 + Q * X1) * (Y0 + Q * Y1) = V at *
  generalize Q * (XD * YD) = T at *
  generalize Q * Q * Q * Q = P at *
  rcases Nat.lt_trichotomy c c3 with hlt | heq | hgt
  · have : (c + 1) * P ≤ c3 * P := Nat.mul_le_mul_right _ hlt
    rw [Nat.add_mul] at this
    omega
  · subst heq; omega
  · have : (c3 + 1) * P ≤ c * P := Nat.mul_le_mul_right _ hgt
    rw [Nat.add_mul] at this
    omega

/-- the recombination `z0 + z2·B^n + (z0 + z2 ± p)·B^(n/2)` on `2n` words. -/
theorem kara_combine (flag : Bool) (z0 z2 p : List Nat) (n2 : Nat) (X0 X1 Y0 Y1 XD YD : Nat)
    (hz0 : WF z0) (hz2 : WF z2) (hp : WF p)
    (l0 : z0.length = 2 * n2) (l2 : z2.length = 2 * n2) (lp : p.length = 2 * n2)
    (v0 : natOf z0 = X0 * Y0) (v2 : natOf z2 = X1 * Y1) (vp : natOf p = XD * YD)
    (hX0 : X0 < B ^ n2) (hX1 : X1 < B ^ n2) (hY0 : Y0 < B ^ n2) (hY1 : Y1 < B ^ n2)
    (hs : if flag then (XD + X0 = X1 ∧ YD + Y0 = Y1) ∨ (XD + X1 = X0 ∧ YD + Y1 = Y0)
          else (XD + X0 = X1 ∧ YD + Y1 = Y0) ∨ (XD + X1 = X0 ∧ YD + Y0 = Y1)) :
    let r := karaAddSub flag (karaAddSub false (karaAddSub false (z0 ++ z2) n2 z0 (2 * n2)) n2 z2 (2 * n2))
      n2 p (2 * n2)
    natOf r = (X0 + B ^ n2 * X1) * (Y0 + B ^ n2 * Y1) ∧ WF r ∧ r.length = 2 * (2 * n2) := by
  intro r
  have hr : r = karaAddSub flag (karaAddSub false (karaAddSub false (z0 ++ z2) n2 z0 (2 * n2)) n2 z2 (2 * n2))
      n2 p (2 * n2) := rfl
  clear_value r
  have hzl : (z0 ++ z2).length = 2 * (2 * n2) := by rw [List.length_append, l0, l2]; omega
  have hL : n2 + 2 * n2 + 2 * n2 / 2 = 2 * (2 * n2) := by omega
  have hzw : WF (z0 ++ z2) := WF_append.mpr ⟨hz0, hz2⟩
  obtain ⟨c1, c1le, e1, w1, ll1⟩ := karaAddSub_add (z0 ++ z2) z0 n2 (2 * n2) hzw hz0 l0 (by rw [hzl]; exact hL)
  generalize karaAddSub false (z0 ++ z2) n2 z0 (2 * n2) = r1 at *
  obtain ⟨c2, c2le, e2, w2, ll2⟩ := karaAddSub_add r1 z2 n2 (2 * n2) w1 hz2 l2 (by rw [ll1, hzl]; exact hL)
  generalize karaAddSub false r1 n2 z2 (2 * n2) = r2 at *
  have hP : B ^ (2 * (2 * n2)) = B ^ n2 * B ^ n2 * B ^ n2 * B ^ n2 := by
    rw [← pow_add, ← pow_add, ← pow_add]; congr 1; omega
  have hzv : natOf (z0 ++ z2) = natOf z0 + B ^ n2 * B ^ n2 * natOf z2 := by
    rw [natOf_append, l0, ← pow_add]; congr 3; omega
  rw [ll1, hzl, hP] at e2
  rw [hzl, hP, hzv] at e1
  rw [v0, v2] at e1
  rw [v2] at e2
  cases flag with
  | false =>
    subst hr
    obtain ⟨c3, c3le, e3, w3, ll3⟩ := karaAddSub_add r2 p n2 (2 * n2) w2 hp lp (by rw [ll2, ll1, hzl]; exact hL)
    refine ⟨?_, w3, by rw [ll3, ll2, ll1, hzl]⟩
    rw [ll2, ll1, hzl, hP, vp] at e3
    simp only [Bool.false_eq_true, if_false] at hs
    apply kara_arith_add (B ^ n2) X0 X1 Y0 Y1 XD YD _ (c1 + c2 + c3) hX0 hX1 hY0 hY1 hs
    linear_combination e1 + e2 + e3
  | true =>
    subst hr
    obtain ⟨c3, c3le, e3, w3, ll3⟩ := karaAddSub_sub r2 p n2 (2 * n2) w2 hp lp (by rw [ll2, ll1, hzl]; exact hL)
    refine ⟨?_, w3, by rw [ll3, ll2, ll1, hzl]⟩
    rw [ll2, ll1, hzl, hP, vp] at e3
    simp only [if_true] at hs
    have hrl := natOf_lt w3
    rw [ll3, ll2, ll1, hzl, hP] at hrl
    apply kara_arith_sub (B ^ n2) X0 X1 Y0 Y1 XD YD _ (c1 + c2) c3 hX0 hX1 hY0 hY1 hrl hs
    linear_combination e1 + e2 + e3

/-- `karatsuba_spec`: for operands of equal length, ANY threshold and ANY fuel, the result is the
    `2n`-word product. -/
theorem karatsuba_spec (thr fuel : Nat) : ∀ (x y : List Nat), WF x → WF y → x.length = y.length →
    natOf (karatsuba thr fuel x y) = natOf x * natOf y ∧ WF (karatsuba thr fuel x y)
      ∧ (karatsuba thr fuel x y).length = 2 * y.length := by
  induction fuel with
  | zero =>
    intro x y hx hy hl
    simp only [karatsuba]
    obtain ⟨b1, b2, b3⟩ := basicMul_spec x y hx hy
    exact ⟨b1, b2, by rw [b3]; omega⟩
  | succ fuel ih =>
    intro x y hx hy hl
    simp only [karatsuba]
    by_cases hb : y.length % 2 ≠ 0 ∨ y.length < thr ∨ y.length < 2
    · rw [if_pos hb]
      obtain ⟨b1, b2, b3⟩ := basicMul_spec x y hx hy
      exact ⟨b1, b2, by rw [b3]; omega⟩
    · rw [if_neg hb]
      have hn : y.length = 2 * (y.length / 2) := by omega
      generalize hn2 : y.length / 2 = n2 at *
      have lx0 : (x.take n2).length = n2 := by rw [List.length_take]; omega
      have lx1 : (x.drop n2).length = n2 := by rw [List.length_drop]; omega
      have ly0 : (y.take n2).length = n2 := by rw [List.length_take]; omega
      have ly1 : (y.drop n2).length = n2 := by rw [List.length_drop]; omega
      have wx0 := WF_take hx n2
      have wx1 := WF_drop hx n2
      have wy0 := WF_take hy n2
      have wy1 := WF_drop hy n2
      obtain ⟨v0, w0, l0⟩ := ih (x.take n2) (y.take n2) wx0 wy0 (by rw [lx0, ly0])
      obtain ⟨v2, w2, l2⟩ := ih (x.drop n2) (y.drop n2) wx1 wy1 (by rw [lx1, ly1])
      rw [ly0] at l0
      rw [ly1] at l2
      have ax := absdiff_spec (x.drop n2) (x.take n2) wx1 wx0 (by rw [lx0, lx1])
      have ay := absdiff_spec (y.take n2) (y.drop n2) wy0 wy1 (by rw [ly0, ly1])
      simp only [] at ax ay
      obtain ⟨wxd, lxd, sx1, sx2⟩ := ax
      obtain ⟨wyd, lyd, sy1, sy2⟩ := ay
      rw [lx1] at lxd
      rw [ly0] at lyd
      have hxv := natOf_take_drop x n2 (by omega)
      have hyv := natOf_take_drop y n2 (by omega)
      have bx0 := natOf_lt wx0
      have bx1 := natOf_lt wx1
      have by0 := natOf_lt wy0
      have by1 := natOf_lt wy1
      rw [lx0] at bx0
      rw [lx1] at bx1
      rw [ly0] at by0
      rw [ly1] at by1
      rw [← hxv, ← hyv, hn]
      by_cases hbx : (sub10VV (x.drop n2) (x.take n2) 0).2 ≠ 0
      · have sx := sx1 hbx
        rw [if_pos hbx] at sx wxd lxd
        by_cases hby : (sub10VV (y.take n2) (y.drop n2) 0).2 ≠ 0
        · have sy := sy1 hby
          rw [if_pos hby] at sy wyd lyd
          simp only [if_pos hbx, if_pos hby, Bool.not_false, Bool.not_true]
          obtain ⟨vp, wp, lp⟩ := ih _ _ wxd wyd (by rw [lxd, lyd])
          rw [lyd] at lp
          exact kara_combine false _ _ _ n2 _ _ _ _ _ _ w0 w2 wp l0 l2 lp v0 v2 vp bx0 bx1 by0 by1
            (by simp only [Bool.false_eq_true, if_false]; exact Or.inr ⟨sx, sy⟩)
        · have sy := sy2 hby
          rw [if_neg hby] at sy wyd lyd
          simp only [if_pos hbx, if_neg hby, Bool.not_false, Bool.not_true]
          obtain ⟨vp, wp, lp⟩ := ih _ _ wxd wyd (by rw [lxd, lyd])
          rw [lyd] at lp
          exact kara_combine true _ _ _ n2 _ _ _ _ _ _ w0 w2 wp l0 l2 lp v0 v2 vp bx0 bx1 by0 by1
            (by simp only [if_true]; exact Or.inr ⟨sx, sy⟩)
      · have sx := sx2 hbx
        rw [if_neg hbx] at sx wxd lxd
        by_cases hby : (sub10VV (y.take n2) (y.drop n2) 0).2 ≠ 0
        · have sy := sy1 hby
          rw [if_pos hby] at sy wyd lyd
          simp only [if_neg hbx, if_pos hby, Bool.not_false, Bool.not_true]
          obtain ⟨vp, wp, lp⟩ := ih _ _ wxd wyd (by rw [lxd, lyd])
          rw [lyd] at lp
          exact kara_combine true _ _ _ n2 _ _ _ _ _ _ w0 w2 wp l0 l2 lp v0 v2 vp bx0 bx1 by0 by1
            (by simp only [if_true]; exact Or.inl ⟨sx, sy⟩)
        · have sy := sy2 hby
          rw [if_neg hby] at sy wyd lyd
          simp only [if_neg hbx, if_neg hby, Bool.not_false, Bool.not_true]
          obtain ⟨vp, wp, lp⟩ := ih _ _ wxd wyd (by rw [lxd, lyd])
          rw [lyd] at lp
          exact kara_combine false _ _ _ n2 _ _ _ _ _ _ w0 w2 wp l0 l2 lp v0 v2 vp bx0 bx1 by0 by1
            (by simp only [Bool.false_eq_true, if_false]; exact Or.inl ⟨sx, sy⟩)

/-! ### mul -/

theorem karatsubaLen_go_bounds (thr : Nat) (hthr : 1 ≤ thr) : ∀ (fuel n i : Nat), 1 ≤ n →
    2 ^ i ≤ karatsubaLen.go thr fuel n i ∧ karatsubaLen.go thr fuel n i ≤ n * 2 ^ i := by
  intro fuel
  induction fuel with
  | zero =>
    intro n i hn
    simp only [karatsubaLen.go]
    exact ⟨Nat.le_mul_of_pos_left _ hn, Nat.le_refl _⟩
  | succ fuel ih =>
    intro n i hn
    simp only [karatsubaLen.go]
    by_cases h : n > thr
    · rw [if_pos h]
      obtain ⟨h1, h2⟩ := ih (n / 2) (i + 1) (by omega)
      have h3 : 2 ^ i ≤ 2 ^ (i + 1) := Nat.pow_le_pow_right (by omega) (by omega)
      have h4 : n / 2 * 2 ^ (i + 1) ≤ n * 2 ^ i := by
        calc n / 2 * 2 ^ (i + 1) = (n / 2 * 2) * 2 ^ i := by rw [pow_succ]; ring
          _ ≤ n * 2 ^ i := Nat.mul_le_mul_right _ (by omega)
      exact ⟨by omega, by omega⟩
    · rw [if_neg h]
      exact ⟨Nat.le_mul_of_pos_left _ hn, Nat.le_refl _⟩

theorem karatsubaLen_bounds (n thr : Nat) (hthr : 1 ≤ thr) (hn : 1 ≤ n) :
    1 ≤ karatsubaLen n thr ∧ karatsubaLen n thr ≤ n := by
  unfold karatsubaLen
  have := karatsubaLen_go_bounds thr hthr 64 n 0 hn
  simpa using this

/-- a well-formed normalised vector below `B^L` has at most `L` words. -/
theorem length_le_of_natOf_lt {z : List Nat} (hn : Normalized z) (L : Nat) (h : natOf z < B ^ L) :
    z.length ≤ L := by
  by_contra hc
  have hne : z ≠ [] := by intro h0; rw [h0] at hc; simp at hc
  have h1 := natOf_ge_of_Normalized hn hne
  have h2 : B ^ L ≤ B ^ (z.length - 1) := Nat.pow_le_pow_right B_pos (by omega)
  omega

/-- what `mul_spec` says about one call. -/
def MulSpec (r x y : List Nat) : Prop :=
  natOf r = natOf x * natOf y ∧ WF r ∧ Normalized r

theorem MulSpec_length {r x y : List Nat} (h : MulSpec r x y) (hx : WF x) (hy : WF y) :
    r.length ≤ x.length + y.length := by
  apply length_le_of_natOf_lt h.2.2
  rw [h.1, pow_add]
  exact Nat.mul_lt_mul'' (natOf_lt hx) (natOf_lt hy)

theorem natOf_take_le (x : List Nat) (i : Nat) : natOf (x.take i) ≤ natOf x := by
  by_cases h : i ≤ x.length
  · have := natOf_take_drop x i h
    omega
  · rw [List.take_of_length_le (by omega)]

theorem natOf_take_add (x : List Nat) (i k : Nat) (hi : i ≤ x.length) :
    natOf (x.take (i + k)) = natOf (x.take i) + B ^ i * natOf ((x.drop i).take k) := by
  have h := natOf_take_drop (x.take (i + k)) i (by rw [List.length_take]; omega)
  rw [List.take_take, List.drop_take, Nat.min_eq_left (by omega), Nat.add_sub_cancel_left] at h
  exact h.symm

theorem mul_loop_spec (thr fuel : Nat) (x y0n y1 : List Nat) (m n k : Nat) (hx : WF x)
    (hxl : x.length = m) (hk : 1 ≤ k) (hkn : k ≤ n) (hnm : n ≤ m) (h2k : 2 * k < m + n)
    (hy0 : WF y0n) (hy1 : WF y1) (ly0 : y0n.length ≤ k) (ly1 : y1.length ≤ n - k)
    (hYlt : natOf y0n + B ^ k * natOf y1 < B ^ n)
    (hm : ∀ a b, WF a → WF b → a.length + b.length < m + n → MulSpec (mul thr fuel a b) a b) :
    ∀ (f i : Nat) (z : List Nat), WF z → z.length = m + n → m ≤ i + f * k →
      natOf z = natOf (x.take i) * (natOf y0n + B ^ k * natOf y1) →
      natOf (mul.loop thr fuel x m k y1 y0n f i z) = natOf x * (natOf y0n + B ^ k * natOf y1)
        ∧ WF (mul.loop thr fuel x m k y1 y0n f i z)
        ∧ (mul.loop thr fuel x m k y1 y0n f i z).length = m + n := by
  intro f
  induction f with
  | zero =>
    intro i z hz hzl hfi hv
    rw [mul.loop]
    have : x.take i = x := List.take_of_length_le (by omega)
    rw [this] at hv
    exact ⟨hv, hz, hzl⟩
  | succ f ih =>
    intro i z hz hzl hfi hv
    rw [mul.loop]
    by_cases him : i < m
    · rw [if_pos him]
      simp only []
      generalize hY : natOf y0n + B ^ k * natOf y1 = Y at *
      have hxi_len1 : (norm ((x.drop i).take k)).length ≤ k :=
        Nat.le_trans (length_norm_le _) (by rw [List.length_take]; omega)
      have hxi_len2 : (norm ((x.drop i).take k)).length ≤ m - i :=
        Nat.le_trans (length_norm_le _) (by rw [List.length_take, List.length_drop]; omega)
      have hxi_w : WF (norm ((x.drop i).take k)) := WF_norm (WF_take (WF_drop hx _) _)
      have hxi_v : natOf (norm ((x.drop i).take k)) = natOf ((x.drop i).take k) := natOf_norm _
      generalize norm ((x.drop i).take k) = xi at *
      have s1 := hm xi y0n hxi_w hy0 (by omega)
      have s2 := hm xi y1 hxi_w hy1 (by omega)
      have len1 := MulSpec_length s1 hxi_w hy0
      have len2 := MulSpec_length s2 hxi_w hy1
      obtain ⟨v1, w1, _⟩ := s1
      obtain ⟨v2, w2, _⟩ := s2
      have hta := natOf_take_add x i k (by omega)
      rw [← hxi_v] at hta
      have hle := natOf_take_le x (i + k)
      have hxlt := natOf_lt hx
      rw [hxl] at hxlt
      have hbound : natOf x * Y < B ^ (m + n) := by
        rw [pow_add]; exact Nat.mul_lt_mul'' hxlt hYlt
      have hmono : natOf (x.take (i + k)) * Y ≤ natOf x * Y := Nat.mul_le_mul_right _ hle
      -- first addAt
      have f1 : natOf z + B ^ i * natOf (mul thr fuel xi y0n) ≤ natOf (x.take (i + k)) * Y := by
        rw [v1, hv, hta, ← hY]
        have : natOf (x.take i) * (natOf y0n + B ^ k * natOf y1) + B ^ i * (natOf xi * natOf y0n)
            + B ^ i * natOf xi * (B ^ k * natOf y1)
            = (natOf (x.take i) + B ^ i * natOf xi) * (natOf y0n + B ^ k * natOf y1) := by ring
        omega
      obtain ⟨a1, a2, a3⟩ := addAt_spec z (mul thr fuel xi y0n) i hz w1 (by omega) (by rw [hzl]; omega)
      -- second addAt
      have f2 : natOf (addAt z (mul thr fuel xi y0n) i) + B ^ (i + k) * natOf (mul thr fuel xi y1)
          = natOf (x.take (i + k)) * Y := by
        rw [a1, v1, v2, hv, hta, ← hY, pow_add]; ring
      obtain ⟨b1, b2, b3⟩ := addAt_spec (addAt z (mul thr fuel xi y0n) i) (mul thr fuel xi y1) (i + k)
        a2 w2 (by rw [a3, hzl]; omega) (by rw [a3, hzl]; omega)
      have hfi' : m ≤ i + k + f * k := by
        have : (f + 1) * k = f * k + k := Nat.succ_mul f k
        omega
      exact ih (i + k) _ b2 (by rw [b3, a3, hzl]) hfi' (by rw [b1, f2])
    · rw [if_neg him]
      have : x.take i = x := List.take_of_length_le (by omega)
      rw [this] at hv
      exact ⟨hv, hz, hzl⟩

/-- the body of `mul` after ordering the operands (`len x ≥ len y`). -/
def mulBody (thr fuel : Nat) (x y : List Nat) : List Nat :=
  let m := x.length
  let n := y.length
  if m = 0 ∨ n = 0 then []
  else if n = 1 then mulAddWW x (y.headD 0) 0
  else if n < thr then norm (basicMul x y)
  else
    let k := karatsubaLen n thr
    let z := karatsuba thr 64 (x.take k) (y.take k) ++ zeros (m + n - 2 * k)
    let z :=
      if k < n ∨ m ≠ n then
        mul.loop thr fuel x m k (y.drop k) (norm (y.take k)) (m + 1) k
          (addAt z (mul thr fuel (norm (x.take k)) (y.drop k)) k)
      else z
    norm z

theorem mul_succ_eq (thr fuel : Nat) (x y : List Nat) :
    mul thr (fuel + 1) x y = if x.length < y.length then mulBody thr fuel y x else mulBody thr fuel x y := by
  rw [mul]
  by_cases h : x.length < y.length
  · rw [if_pos h, if_pos h]; rfl
  · rw [if_neg h, if_neg h]; rfl

theorem mulBody_spec (thr fuel : Nat) (hthr : 1 ≤ thr) (x y : List Nat) (hx : WF x) (hy : WF y)
    (hl : y.length ≤ x.length)
    (hm : ∀ a b, WF a → WF b → a.length + b.length < x.length + y.length → MulSpec (mul thr fuel a b) a b) :
    MulSpec (mulBody thr fuel x y) x y := by
  unfold mulBody
  simp only []
  by_cases h0 : x.length = 0 ∨ y.length = 0
  · rw [if_pos h0]
    refine ⟨?_, WF_nil, Normalized_nil⟩
    rcases h0 with h0 | h0
    · rw [List.eq_nil_of_length_eq_zero h0]; simp [natOf]
    · rw [List.eq_nil_of_length_eq_zero h0]; simp [natOf]
  · rw [if_neg h0]
    by_cases h1 : y.length = 1
    · rw [if_pos h1]
      cases y with
      | nil => simp at h1
      | cons y0 ys =>
        have hys : ys = [] := List.eq_nil_of_length_eq_zero (by simpa using h1)
        subst hys
        have hy0 := WF_single.mp hy
        obtain ⟨m1, m2, m3⟩ := mulAddWW_spec x y0 0 hx hy0 (by omega)
        exact ⟨by rw [List.headD_cons, m1, natOf_single]; omega, m2, m3⟩
    · rw [if_neg h1]
      by_cases h2 : y.length < thr
      · rw [if_pos h2]
        obtain ⟨b1, b2, b3⟩ := basicMul_spec x y hx hy
        exact ⟨by rw [natOf_norm, b1], WF_norm b2, Normalized_norm _⟩
      · rw [if_neg h2]
        obtain ⟨hk1, hkn⟩ := karatsubaLen_bounds y.length thr hthr (by omega)
        generalize karatsubaLen y.length thr = k at *
        have lx0 : (x.take k).length = k := by rw [List.length_take]; omega
        have ly0 : (y.take k).length = k := by rw [List.length_take]; omega
        obtain ⟨kv, kw, kl⟩ := karatsuba_spec thr 64 (x.take k) (y.take k) (WF_take hx _) (WF_take hy _)
          (by rw [lx0, ly0])
        rw [ly0] at kl
        have zw : WF (karatsuba thr 64 (x.take k) (y.take k) ++ zeros (x.length + y.length - 2 * k)) :=
          WF_append.mpr ⟨kw, WF_zeros _⟩
        have zl : (karatsuba thr 64 (x.take k) (y.take k) ++ zeros (x.length + y.length - 2 * k)).length
            = x.length + y.length := by
          rw [List.length_append, kl, length_zeros]; omega
        have zv : natOf (karatsuba thr 64 (x.take k) (y.take k) ++ zeros (x.length + y.length - 2 * k))
            = natOf (x.take k) * natOf (y.take k) := by
          rw [natOf_append, natOf_zeros, kv]; simp
        generalize karatsuba thr 64 (x.take k) (y.take k) ++ zeros (x.length + y.length - 2 * k) = z at *
        by_cases hc : k < y.length ∨ x.length ≠ y.length
        · rw [if_pos hc]
          have hyv := natOf_take_drop y k hkn
          have hylt := natOf_lt hy
          have hxlt := natOf_lt hx
          have wy1 := WF_drop hy k
          have ly1 : (y.drop k).length = y.length - k := List.length_drop
          have wx0n : WF (norm (x.take k)) := WF_norm (WF_take hx _)
          have lx0n : (norm (x.take k)).length ≤ k := by
            have := length_norm_le (x.take k); omega
          have wy0n : WF (norm (y.take k)) := WF_norm (WF_take hy _)
          have ly0n : (norm (y.take k)).length ≤ k := by
            have := length_norm_le (y.take k); omega
          have s0 := hm (norm (x.take k)) (y.drop k) wx0n wy1 (by omega)
          have len0 := MulSpec_length s0 wx0n wy1
          obtain ⟨v0, w0, _⟩ := s0
          rw [natOf_norm] at v0
          have hle := natOf_take_le x k
          have hbound : natOf x * natOf y < B ^ (x.length + y.length) := by
            rw [pow_add]; exact Nat.mul_lt_mul'' hxlt hylt
          have hmono : natOf (x.take k) * natOf y ≤ natOf x * natOf y := Nat.mul_le_mul_right _ hle
          have f0 : natOf z + B ^ k * natOf (mul thr fuel (norm (x.take k)) (y.drop k))
              = natOf (x.take k) * natOf y := by
            rw [zv, v0, ← hyv]; ring
          obtain ⟨a1, a2, a3⟩ := addAt_spec z _ k zw w0 (by omega) (by rw [zl]; omega)
          have hY : natOf (norm (y.take k)) + B ^ k * natOf (y.drop k) = natOf y := by
            rw [natOf_norm]; exact hyv
          obtain ⟨g1, g2, g3⟩ := mul_loop_spec thr fuel x (norm (y.take k)) (y.drop k) x.length y.length k
            hx rfl hk1 hkn hl (by omega) wy0n wy1 ly0n (by omega) (by rw [hY]; exact hylt) hm
            (x.length + 1) k _ a2 (by rw [a3, zl])
            (by
              have : x.length + 1 ≤ (x.length + 1) * k := Nat.le_mul_of_pos_right _ hk1
              omega)
            (by rw [a1, f0, hY])
          rw [hY] at g1
          exact ⟨by rw [natOf_norm, g1], WF_norm g2, Normalized_norm _⟩
        · rw [if_neg hc]
          have hkx : k = x.length := by omega
          have hky : k = y.length := by omega
          have e1 : x.take k = x := List.take_of_length_le (by omega)
          have e2 : y.take k = y := List.take_of_length_le (by omega)
          rw [e1, e2] at zv
          exact ⟨by rw [natOf_norm, zv], WF_norm zw, Normalized_norm _⟩

/-- `mul_spec`: for every threshold `thr ≥ 1` and fuel above `len x + len y`, `mul` returns the
    normalised product. -/
theorem mul_spec (thr : Nat) (hthr : 1 ≤ thr) : ∀ (fuel : Nat) (x y : List Nat), WF x → WF y →
    x.length + y.length < fuel →
    natOf (mul thr fuel x y) = natOf x * natOf y ∧ WF (mul thr fuel x y)
      ∧ Normalized (mul thr fuel x y) := by
  intro fuel
  induction fuel with
  | zero => intro x y _ _ h; omega
  | succ fuel ih =>
    intro x y hx hy hf
    rw [mul_succ_eq]
    by_cases h : x.length < y.length
    · rw [if_pos h]
      have := mulBody_spec thr fuel hthr y x hy hx (by omega)
        (fun a b ha hb hab => ih a b ha hb (by omega))
      exact ⟨by rw [this.1, Nat.mul_comm], this.2.1, this.2.2⟩
    · rw [if_neg h]
      exact mulBody_spec thr fuel hthr x y hx hy (by omega)
        (fun a b ha hb hab => ih a b ha hb (by omega))

/-- independence from the Karatsuba threshold and from the fuel. -/
theorem mul_threshold_indep (thr₁ thr₂ f₁ f₂ : Nat) (h₁ : 1 ≤ thr₁) (h₂ : 1 ≤ thr₂) (x y : List Nat)
    (hx : WF x) (hy : WF y) (hf₁ : x.length + y.length < f₁) (hf₂ : x.length + y.length < f₂) :
    natOf (mul thr₁ f₁ x y) = natOf (mul thr₂ f₂ x y) := by
  rw [(mul_spec thr₁ h₁ f₁ x y hx hy hf₁).1, (mul_spec thr₂ h₂ f₂ x y hx hy hf₂).1]

/-- a normalised well-formed vector is determined by its value. -/
theorem Normalized_tail {a : Nat} {x : List Nat} (h : Normalized (a :: x)) : Normalized x := by
  unfold Normalized at *
  cases x with
  | nil => simp
  | cons b x => simpa [List.getLast?_cons_cons] using h

theorem natOf_inj : ∀ (x y : List Nat), WF x → WF y → Normalized x → Normalized y →
    natOf x = natOf y → x = y := by
  intro x
  induction x with
  | nil =>
    intro y _ _ _ hny h
    exact (natOf_eq_zero_of_Normalized hny (by rw [← h]; rfl)).symm
  | cons a xs ih =>
    intro y hx hy hnx hny h
    cases y with
    | nil => exact natOf_eq_zero_of_Normalized hnx (by rw [h]; rfl)
    | cons b ys =>
      have ⟨ha, hxs⟩ := WF_cons.mp hx
      have ⟨hb, hys⟩ := WF_cons.mp hy
      rw [natOf_cons, natOf_cons] at h
      have hB := B_eq
      have hab : a = b ∧ natOf xs = natOf ys := by
        generalize natOf xs = p at *
        generalize natOf ys = q at *
        rw [hB] at h
        omega
      rw [hab.1, ih ys hxs hys (Normalized_tail hnx) (Normalized_tail hny) hab.2]

/-- independence from the threshold, as word lists. -/
theorem mul_threshold_indep_list (thr₁ thr₂ f₁ f₂ : Nat) (h₁ : 1 ≤ thr₁) (h₂ : 1 ≤ thr₂) (x y : List Nat)
    (hx : WF x) (hy : WF y) (hf₁ : x.length + y.length < f₁) (hf₂ : x.length + y.length < f₂) :
    mul thr₁ f₁ x y = mul thr₂ f₂ x y := by
  obtain ⟨a1, a2, a3⟩ := mul_spec thr₁ h₁ f₁ x y hx hy hf₁
  obtain ⟨b1, b2, b3⟩ := mul_spec thr₂ h₂ f₂ x y hx hy hf₂
  exact natOf_inj _ _ a2 b2 a3 b3 (by rw [a1, b1])

/-! ### basicSqr -/

/-- the diagonal: `x[i]^2` at words `2i, 2i+1`. -/
def sqList (x : List Nat) : List Nat :=
  x.foldr (fun d acc => (mul10WW_g d d).2 :: (mul10WW_g d d).1 :: acc) []

theorem sqList_snoc (a : List Nat) (d : Nat) :
    sqList (a ++ [d]) = sqList a ++ [(mul10WW_g d d).2, (mul10WW_g d d).1] := by
  unfold sqList
  induction a with
  | nil => rfl
  | cons b a ih => simp only [List.cons_append, List.foldr_cons, ih]

theorem sqList_length (x : List Nat) : (sqList x).length = 2 * x.length := by
  unfold sqList
  induction x with
  | nil => rfl
  | cons b a ih => simp only [List.foldr_cons, List.length_cons, ih]; omega

theorem sqWord (d : Nat) (hd : d < 10000000000000000000) :
    (mul10WW_g d d).2 + B * (mul10WW_g d d).1 = d * d ∧ (mul10WW_g d d).2 < 10000000000000000000
      ∧ (mul10WW_g d d).1 < 10000000000000000000 := by
  rw [mul10WW_g_spec d d hd hd]
  have hdd : d * d ≤ 9999999999999999999 * 9999999999999999999 := Nat.mul_le_mul (by omega) (by omega)
  refine ⟨?_, Nat.mod_lt _ (by omega), by omega⟩
  rw [B_eq]
  exact Nat.mod_add_div _ _

theorem sqList_WF (x : List Nat) (hx : WF x) : WF (sqList x) := by
  unfold sqList
  induction x with
  | nil => exact WF_nil
  | cons b a ih =>
    have ⟨hb, ha⟩ := WF_cons.mp hx
    have := sqWord b hb
    simp only [List.foldr_cons]
    exact WF_cons.mpr ⟨this.2.1, WF_cons.mpr ⟨this.2.2, ih ha⟩⟩

/-- the off-diagonal sum `Σ_{j<i'<i} x[i']·x[j]·B^(i'+j)`, accumulated by prefixes. -/
def cross (x : List Nat) : Nat → Nat
  | 0 => 0
  | i + 1 => cross x i + B ^ i * (natOf (x.take i) * x.getD i 0)

theorem take_succ_getD (x : List Nat) (i : Nat) (hi : i < x.length) :
    x.take (i + 1) = x.take i ++ [x.getD i 0] := by
  rw [List.take_add_one, List.getD_eq_getElem?_getD, List.getElem?_eq_getElem hi]
  rfl

theorem getD_lt (x : List Nat) (hx : WF x) (i : Nat) : x.getD i 0 < 10000000000000000000 := by
  rw [List.getD_eq_getElem?_getD]
  by_cases hi : i < x.length
  · rw [List.getElem?_eq_getElem hi]
    exact hx _ (List.getElem_mem hi)
  · rw [List.getElem?_eq_none (by omega)]
    show 0 < _
    omega

/-- `(Σ x_i B^i)^2 = diagonal + 2·off-diagonal`. -/
theorem sq_identity (x : List Nat) (hx : WF x) : ∀ i, i ≤ x.length →
    natOf (sqList (x.take i)) + 2 * cross x i = natOf (x.take i) * natOf (x.take i) := by
  intro i
  induction i with
  | zero => intro _; simp [sqList, cross, natOf]
  | succ i ih =>
    intro hi
    have h := ih (by omega)
    have hlen : (x.take i).length = i := by rw [List.length_take]; omega
    rw [take_succ_getD x i (by omega), sqList_snoc, natOf_append, natOf_append, natOf_single,
      sqList_length, hlen]
    have hw := (sqWord (x.getD i 0) (getD_lt x hx i)).1
    simp only [cross, natOf_cons, natOf_nil]
    have hp : B ^ (2 * i) = B ^ i * B ^ i := by rw [← pow_add]; congr 1; omega
    rw [hp]
    generalize x.getD i 0 = d at *
    generalize natOf (x.take i) = T at *
    linear_combination h + B ^ i * B ^ i * hw

theorem basicSqr_go_spec (x : List Nat) (hx : WF x) (n : Nat) (hn : n = x.length) :
    ∀ (f i : Nat) (tlo : List Nat), 1 ≤ i → i ≤ n → n ≤ i + f → WF tlo → tlo.length = 2 * i - 1 →
      tlo.take 1 = [0] → natOf tlo = cross x i →
      ∃ tl, basicSqr.go x n f i (tlo ++ zeros (2 * n - (2 * i - 1))) = tl ++ [0]
        ∧ WF tl ∧ tl.length = 2 * n - 1 ∧ tl.take 1 = [0] ∧ natOf tl = cross x n := by
  intro f
  induction f with
  | zero =>
    intro i tlo hi1 hin hf hw hl ht hv
    have : i = n := by omega
    subst this
    simp only [basicSqr.go]
    have e : zeros (2 * i - (2 * i - 1)) = [0] := by
      have : 2 * i - (2 * i - 1) = 1 := by omega
      rw [this]; rfl
    rw [e]
    exact ⟨tlo, rfl, hw, hl, ht, hv⟩
  | succ f ih =>
    intro i tlo hi1 hin hf hw hl ht hv
    simp only [basicSqr.go]
    by_cases hlt : i < n
    · rw [if_pos hlt]
      -- t = w ++ [0] ++ zeros r with w = tlo ++ [0], |w| = 2i
      have er : 2 * n - (2 * i - 1) = (2 * n - 2 * i - 1) + 2 := by omega
      have ez : zeros (2 * n - (2 * i - 1)) = [0] ++ ([0] ++ zeros (2 * n - 2 * i - 1)) := by
        rw [er]; simp [zeros, List.replicate_succ]
      have et : tlo ++ zeros (2 * n - (2 * i - 1)) = (tlo ++ [0]) ++ ([0] ++ zeros (2 * n - 2 * i - 1)) := by
        rw [ez]; simp
      rw [et]
      have hwl : (tlo ++ [0]).length = 2 * i := by rw [List.length_append, hl]; simp; omega
      have hww : WF (tlo ++ [0]) := WF_append.mpr ⟨hw, WF_single.mpr (by omega)⟩
      have hwv : natOf (tlo ++ [0]) = cross x i := by rw [natOf_append, natOf_single, hv]; simp
      have hwt : (tlo ++ [0]).take 1 = [0] := by
        rw [List.take_append_of_le_length (by omega)]; exact ht
      generalize tlo ++ [0] = w at *
      have e1 : ((w ++ ([0] ++ zeros (2 * n - 2 * i - 1))).drop i).take i = w.drop i := by
        rw [List.drop_append_of_le_length (by omega)]
        exact List.take_left' (by rw [List.length_drop]; omega)
      have e2 : (w ++ ([0] ++ zeros (2 * n - 2 * i - 1))).take i = w.take i :=
        List.take_append_of_le_length (by omega)
      have e3 : (w ++ ([0] ++ zeros (2 * n - 2 * i - 1))).drop (2 * i + 1) = zeros (2 * n - 2 * i - 1) := by
        rw [← hwl, List.drop_append]; simp
      rw [e1, e2, e3]
      have hdl : (w.drop i).length = (x.take i).length := by
        rw [List.length_drop, List.length_take]; omega
      have hxtl : (x.take i).length = i := by rw [List.length_take]; omega
      obtain ⟨m1, m2, m3, m4⟩ := addMul10VVW_spec (w.drop i) (x.take i) (x.getD i 0) 0 (WF_drop hww _)
        (WF_take hx _) hdl (getD_lt x hx i) (by omega)
      rw [hxtl] at m1 m3
      generalize addMul10VVW (w.drop i) (x.take i) (x.getD i 0) 0 = r at *
      have hti : (w.take i).length = i := by rw [List.length_take]; omega
      have hw' : WF (w.take i ++ r.1 ++ [r.2]) :=
        WF_append.mpr ⟨WF_append.mpr ⟨WF_take hww _, m2⟩, WF_single.mpr m4⟩
      have hl' : (w.take i ++ r.1 ++ [r.2]).length = 2 * (i + 1) - 1 := by
        simp only [List.length_append, hti, m3, List.length_cons, List.length_nil]; omega
      have ht' : (w.take i ++ r.1 ++ [r.2]).take 1 = [0] := by
        rw [List.append_assoc, List.take_append_of_le_length (by omega), List.take_take,
          Nat.min_eq_left hi1]
        exact hwt
      have hv' : natOf (w.take i ++ r.1 ++ [r.2]) = cross x (i + 1) := by
        rw [natOf_join3, hti, m3, natOf_single]
        have htd := natOf_take_drop w i (by omega)
        simp only [cross]
        rw [← hwv]
        linear_combination B ^ i * m1 + htd
      have ezz : 2 * n - 2 * i - 1 = 2 * n - (2 * (i + 1) - 1) := by omega
      rw [ezz]
      exact ih (i + 1) _ (by omega) (by omega) (by omega) hw' hl' ht' hv'
    · rw [if_neg hlt]
      have : i = n := by omega
      subst this
      have e : zeros (2 * i - (2 * i - 1)) = [0] := by
        have : 2 * i - (2 * i - 1) = 1 := by omega
        rw [this]; rfl
      rw [e]
      exact ⟨tlo, rfl, hw, hl, ht, hv⟩

/-- `basicSqr_spec`: the `2n`-word square. -/
theorem basicSqr_spec (x : List Nat) (hx : WF x) :
    natOf (basicSqr x) = natOf x * natOf x ∧ WF (basicSqr x) ∧ (basicSqr x).length = 2 * x.length := by
  by_cases h0 : x.length = 0
  · have : x = [] := List.eq_nil_of_length_eq_zero h0
    subst this
    have : basicSqr [] = [] := by decide
    rw [this]
    exact ⟨rfl, WF_nil, rfl⟩
  · unfold basicSqr
    simp only []
    have ez : zeros (2 * x.length) = [0] ++ zeros (2 * x.length - (2 * 1 - 1)) := by
      have : 2 * x.length = (2 * x.length - 1) + 1 := by omega
      rw [show 2 * x.length - (2 * 1 - 1) = 2 * x.length - 1 by omega]
      rw [this]; simp [zeros, List.replicate_succ]
    rw [ez]
    obtain ⟨tl, e, tw, tlen, tt, tv⟩ := basicSqr_go_spec x hx x.length rfl x.length 1 [0] (by omega) (by omega)
      (by omega) (WF_single.mpr (by omega)) rfl rfl (by simp [cross, natOf])
    rw [e]
    have e1 : ((tl ++ [0]).drop 1).take (2 * x.length - 2) = tl.drop 1 := by
      rw [List.drop_append_of_le_length (by omega)]
      exact List.take_left' (by rw [List.length_drop]; omega)
    have e2 : (tl ++ [0]).take 1 = [0] := by
      rw [List.take_append_of_le_length (by omega)]; exact tt
    rw [e1, e2]
    obtain ⟨m1, m2, m3, m4⟩ := mulAdd10VWW_spec (tl.drop 1) 2 0 (WF_drop tw _) (by omega) (by omega)
    have hdl : (tl.drop 1).length = 2 * x.length - 2 := by rw [List.length_drop]; omega
    rw [hdl] at m1 m3
    generalize mulAdd10VWW (tl.drop 1) 2 0 = r at *
    have htd := natOf_take_drop tl 1 (by omega)
    rw [tt] at htd
    have ht'w : WF ([0] ++ r.1 ++ [r.2]) :=
      WF_append.mpr ⟨WF_append.mpr ⟨WF_single.mpr (by omega), m2⟩, WF_single.mpr m4⟩
    have ht'l : ([0] ++ r.1 ++ [r.2]).length = 2 * x.length := by
      simp only [List.length_append, m3, List.length_cons, List.length_nil]; omega
    have ht'v : natOf ([0] ++ r.1 ++ [r.2]) = 2 * cross x x.length := by
      rw [natOf_join3, m3, natOf_single, natOf_single]
      simp only [List.length_cons, List.length_nil, natOf_single, pow_one, Nat.zero_add] at htd ⊢
      rw [← tv]
      linear_combination B * m1 + 2 * htd
    have hzl : (x.foldr (fun d acc => (mul10WW_g d d).2 :: (mul10WW_g d d).1 :: acc) []).length
        = ([0] ++ r.1 ++ [r.2]).length := by
      rw [ht'l]; exact sqList_length x
    obtain ⟨a1, a2, a3, a4⟩ := add10VV_spec _ ([0] ++ r.1 ++ [r.2]) 0 (sqList_WF x hx) ht'w hzl (by omega)
    have hid := sq_identity x hx x.length (Nat.le_refl _)
    rw [List.take_of_length_le (Nat.le_refl _)] at hid
    have hsl : (sqList x).length = 2 * x.length := sqList_length x
    change natOf (add10VV (sqList x) _ 0).1 = _ ∧ WF (add10VV (sqList x) _ 0).1
      ∧ (add10VV (sqList x) _ 0).1.length = _
    change natOf (add10VV (sqList x) _ 0).1 + _ = natOf (sqList x) + _ + 0 at a1
    rw [hsl] at a1
    refine ⟨?_, a2, by rw [a3]; exact hsl⟩
    have hlt : natOf x * natOf x < B ^ (2 * x.length) := by
      have := natOf_lt hx
      have hp : B ^ (2 * x.length) = B ^ x.length * B ^ x.length := by rw [← pow_add]; congr 1; omega
      rw [hp]; exact Nat.mul_lt_mul'' this this
    rw [ht'v] at a1
    generalize (add10VV (sqList x) ([0] ++ r.1 ++ [r.2]) 0) = s at *
    have hc : s.2 = 0 := by
      by_contra h
      have : s.2 = 1 := by omega
      rw [this] at a1
      omega
    rw [hc] at a1
    omega

/-! ### karatsubaSqr / sqr -/

/-- `karatsubaSqr_spec`: ANY threshold, ANY fuel: the `2n`-word square. -/
theorem karatsubaSqr_spec (thr fuel : Nat) : ∀ (x : List Nat), WF x →
    natOf (karatsubaSqr thr fuel x) = natOf x * natOf x ∧ WF (karatsubaSqr thr fuel x)
      ∧ (karatsubaSqr thr fuel x).length = 2 * x.length := by
  induction fuel with
  | zero =>
    intro x hx
    simp only [karatsubaSqr]
    exact basicSqr_spec x hx
  | succ fuel ih =>
    intro x hx
    simp only [karatsubaSqr]
    by_cases hb : x.length % 2 ≠ 0 ∨ x.length < thr ∨ x.length < 2
    · rw [if_pos hb]
      exact basicSqr_spec x hx
    · rw [if_neg hb]
      have hn : x.length = 2 * (x.length / 2) := by omega
      generalize hn2 : x.length / 2 = n2 at *
      have lx0 : (x.take n2).length = n2 := by rw [List.length_take]; omega
      have lx1 : (x.drop n2).length = n2 := by rw [List.length_drop]; omega
      have wx0 := WF_take hx n2
      have wx1 := WF_drop hx n2
      obtain ⟨v0, w0, l0⟩ := ih (x.take n2) wx0
      obtain ⟨v2, w2, l2⟩ := ih (x.drop n2) wx1
      rw [lx0] at l0
      rw [lx1] at l2
      have ax := absdiff_spec (x.drop n2) (x.take n2) wx1 wx0 (by rw [lx0, lx1])
      simp only [] at ax
      obtain ⟨wxd, lxd, sx1, sx2⟩ := ax
      rw [lx1] at lxd
      have hxv := natOf_take_drop x n2 (by omega)
      have bx0 := natOf_lt wx0
      have bx1 := natOf_lt wx1
      rw [lx0] at bx0
      rw [lx1] at bx1
      obtain ⟨vp, wp, lp⟩ := ih _ wxd
      rw [lxd] at lp
      rw [← hxv, hn]
      refine kara_combine true _ _ _ n2 _ _ _ _ _ _ w0 w2 wp l0 l2 lp v0 v2 vp bx0 bx1 bx0 bx1 ?_
      simp only [if_true]
      by_cases hbx : (sub10VV (x.drop n2) (x.take n2) 0).2 ≠ 0
      · exact Or.inr ⟨sx1 hbx, sx1 hbx⟩
      · exact Or.inl ⟨sx2 hbx, sx2 hbx⟩

def SqrSpec (r x : List Nat) : Prop :=
  natOf r = natOf x * natOf x ∧ WF r ∧ Normalized r

/-- `sqr_spec`: for all thresholds (`kthr, mthr ≥ 1`) and fuel `≥ len x`, the normalised square. -/
theorem sqr_spec (bthr kthr mthr : Nat) (hk : 1 ≤ kthr) (hm : 1 ≤ mthr) : ∀ (fuel : Nat) (x : List Nat),
    WF x → x.length ≤ fuel →
    natOf (sqr bthr kthr mthr fuel x) = natOf x * natOf x ∧ WF (sqr bthr kthr mthr fuel x)
      ∧ Normalized (sqr bthr kthr mthr fuel x) := by
  intro fuel
  induction fuel with
  | zero =>
    intro x hx hl
    have : x = [] := List.eq_nil_of_length_eq_zero (by omega)
    subst this
    simp only [sqr]
    exact ⟨rfl, WF_nil, Normalized_nil⟩
  | succ fuel ih =>
    intro x hx hl
    simp only [sqr]
    by_cases h0 : x.length = 0
    · rw [if_pos h0]
      have : x = [] := List.eq_nil_of_length_eq_zero h0
      subst this
      exact ⟨rfl, WF_nil, Normalized_nil⟩
    · rw [if_neg h0]
      by_cases h1 : x.length = 1
      · rw [if_pos h1]
        cases x with
        | nil => simp at h1
        | cons d xs =>
          have hxs : xs = [] := List.eq_nil_of_length_eq_zero (by simpa using h1)
          subst hxs
          have hd := WF_single.mp hx
          have hw := sqWord d hd
          rw [List.headD_cons]
          refine ⟨?_, WF_norm (WF_cons.mpr ⟨hw.2.1, WF_single.mpr hw.2.2⟩), Normalized_norm _⟩
          rw [natOf_norm, natOf_cons, natOf_single, natOf_single]
          exact hw.1
      · rw [if_neg h1]
        by_cases h2 : x.length < bthr
        · rw [if_pos h2]
          obtain ⟨b1, b2, b3⟩ := basicMul_spec x x hx hx
          exact ⟨by rw [natOf_norm, b1], WF_norm b2, Normalized_norm _⟩
        · rw [if_neg h2]
          by_cases h3 : x.length < kthr
          · rw [if_pos h3]
            obtain ⟨b1, b2, b3⟩ := basicSqr_spec x hx
            exact ⟨by rw [natOf_norm, b1], WF_norm b2, Normalized_norm _⟩
          · rw [if_neg h3]
            obtain ⟨hk1, hkn⟩ := karatsubaLen_bounds x.length kthr hk (by omega)
            generalize karatsubaLen x.length kthr = k at *
            have lx0 : (x.take k).length = k := by rw [List.length_take]; omega
            obtain ⟨kv, kw, kl⟩ := karatsubaSqr_spec kthr 64 (x.take k) (WF_take hx _)
            rw [lx0] at kl
            have zw : WF (karatsubaSqr kthr 64 (x.take k) ++ zeros (2 * x.length - 2 * k)) :=
              WF_append.mpr ⟨kw, WF_zeros _⟩
            have zl : (karatsubaSqr kthr 64 (x.take k) ++ zeros (2 * x.length - 2 * k)).length
                = 2 * x.length := by
              rw [List.length_append, kl, length_zeros]; omega
            have zv : natOf (karatsubaSqr kthr 64 (x.take k) ++ zeros (2 * x.length - 2 * k))
                = natOf (x.take k) * natOf (x.take k) := by
              rw [natOf_append, natOf_zeros, kv]; simp
            generalize karatsubaSqr kthr 64 (x.take k) ++ zeros (2 * x.length - 2 * k) = z at *
            by_cases hc : k < x.length
            · rw [if_pos hc]
              have hxv := natOf_take_drop x k hkn
              have hxlt := natOf_lt hx
              have wx1 := WF_drop hx k
              have lx1 : (x.drop k).length = x.length - k := List.length_drop
              have wx0n : WF (norm (x.take k)) := WF_norm (WF_take hx _)
              have lx0n : (norm (x.take k)).length ≤ k := by
                have := length_norm_le (x.take k); omega
              have st : MulSpec (mul mthr (2 * x.length + 2) (norm (x.take k)) (x.drop k))
                  (norm (x.take k)) (x.drop k) :=
                mul_spec mthr hm _ _ _ wx0n wx1 (by omega)
              have lent := MulSpec_length st wx0n wx1
              obtain ⟨tv, tw, _⟩ := st
              rw [natOf_norm] at tv
              generalize mul mthr (2 * x.length + 2) (norm (x.take k)) (x.drop k) = t at *
              obtain ⟨sv, sw, sn⟩ := ih (x.drop k) wx1 (by omega)
              have hx1lt := natOf_lt wx1
              rw [lx1] at hx1lt
              have lens : (sqr bthr kthr mthr fuel (x.drop k)).length ≤ 2 * (x.length - k) := by
                apply length_le_of_natOf_lt sn
                rw [sv]
                have hp : B ^ (2 * (x.length - k)) = B ^ (x.length - k) * B ^ (x.length - k) := by
                  rw [← pow_add]; congr 1; omega
                rw [hp]; exact Nat.mul_lt_mul'' hx1lt hx1lt
              generalize sqr bthr kthr mthr fuel (x.drop k) = s at *
              have hbound : natOf x * natOf x < B ^ (2 * x.length) := by
                have hp : B ^ (2 * x.length) = B ^ x.length * B ^ x.length := by
                  rw [← pow_add]; congr 1; omega
                rw [hp]; exact Nat.mul_lt_mul'' hxlt hxlt
              have hp2 : B ^ (2 * k) = B ^ k * B ^ k := by rw [← pow_add]; congr 1; omega
              have hexp : natOf x * natOf x = natOf (x.take k) * natOf (x.take k)
                  + B ^ k * (natOf (x.take k) * natOf (x.drop k))
                  + B ^ k * (natOf (x.take k) * natOf (x.drop k))
                  + B ^ k * B ^ k * (natOf (x.drop k) * natOf (x.drop k)) := by
                rw [← hxv]; ring
              generalize natOf (x.take k) = X0 at *
              generalize natOf (x.drop k) = X1 at *
              obtain ⟨a1, a2, a3⟩ := addAt_spec z t k zw tw (by omega) (by rw [zl, zv, tv]; omega)
              obtain ⟨b1, b2, b3⟩ := addAt_spec (addAt z t k) t k a2 tw (by rw [a3]; omega)
                (by rw [a3, zl, a1, zv, tv]; omega)
              obtain ⟨c1, c2, c3⟩ := addAt_spec (addAt (addAt z t k) t k) s (2 * k) b2 sw
                (by rw [b3, a3]; omega) (by rw [b3, a3, zl, b1, a1, zv, tv, sv, hp2]; omega)
              refine ⟨?_, WF_norm c2, Normalized_norm _⟩
              rw [natOf_norm, c1, b1, a1, zv, tv, sv, hp2, hexp]
            · rw [if_neg hc]
              have e1 : x.take k = x := List.take_of_length_le (by omega)
              rw [e1] at zv
              exact ⟨by rw [natOf_norm, zv], WF_norm zw, Normalized_norm _⟩

end Decimal.L0
