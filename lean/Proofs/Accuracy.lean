/-
  What the accuracy flag of an operation's result means: for every state that agrees with the
  specification result, `acc` is the sign of (stored value − exact value).
-/
import Proofs.RoundProps
import Proofs.ArithOps

namespace Decimal
open Spec

/-- Magnitude stored in a finite Decimal, with `10^k` factored out:
    `mant × 10^(exp − 19·len − k)`. -/
noncomputable def decMag (z : Dec) (k : Int) : ℚ :=
  (z.mant : ℚ) * (10 : ℚ) ^ (z.exp - k - ((z.len * 19 : Nat) : Int))

/-- Signed versions. -/
noncomputable def decVal (z : Dec) (k : Int) : ℚ := if z.neg then -decMag z k else decMag z k

/-- A Decimal that agrees with a finite specification result stores its magnitude. -/
theorem decMag_of_agrees (z : Dec) (r : SRes) (k : Int) (p : Nat) (h : agrees z r = true)
    (hf : r.form = .finite) (hnd : ndigits r.coef = p) : decMag z k = resMag r k p := by
  rw [agrees_iff] at h
  obtain ⟨h1, _, _, h4⟩ := h
  obtain ⟨he, hm⟩ := h4 (by rw [h1]; exact hf)
  rw [hnd] at hm
  have h10 : (10 : ℚ) ≠ 0 := by norm_num
  have hmq : (z.mant : ℚ) * (10 : ℚ) ^ (((p - z.len * 19 : Nat) : Int))
      = (r.coef : ℚ) * (10 : ℚ) ^ (((z.len * 19 - p : Nat) : Int)) := by
    rw [zpow_natCast, zpow_natCast]; exact_mod_cast hm
  unfold decMag resMag
  rw [he]
  by_cases hle : z.len * 19 ≤ p
  · have e0 : z.len * 19 - p = 0 := by omega
    rw [e0] at hmq
    simp only [Nat.cast_zero, zpow_zero, mul_one] at hmq
    rw [← hmq, mul_assoc, ← zpow_add₀ h10]
    congr 2; omega
  · have e0 : p - z.len * 19 = 0 := by omega
    rw [e0] at hmq
    simp only [Nat.cast_zero, zpow_zero, mul_one] at hmq
    rw [hmq, mul_assoc, ← zpow_add₀ h10]
    congr 2; omega

/-- What the accuracy of a finite result means, for any state that agrees with `Spec.round`:
    `acc` is the sign of (stored value − exact value). -/
theorem acc_sign_of_agrees (z : Dec) (mode : Mode) (p : Nat) (neg : Bool) (q : ℚ) (k : Int)
    (hq : 0 < q) (hp : 1 ≤ p) (h : agrees z (Spec.round mode p neg q k) = true)
    (hf : z.form = .finite) :
    (z.acc = Exact ↔ decVal z k = (if neg then -q else q)) ∧
      (z.acc = Above ↔ (if neg then -q else q) < decVal z k) ∧
      (z.acc = Below ↔ decVal z k < (if neg then -q else q)) := by
  have hag := (agrees_iff _ _).mp h
  have hfin : (Spec.round mode p neg q k).form = .finite := by rw [← hag.1]; exact hf
  have hm := decMag_of_agrees z _ k p h hfin (round_coef_digits mode p neg q k hq hp hfin)
  have hneg : z.neg = neg := by rw [hag.2.1]; exact round_neg_n mode p neg q k hq hp hfin
  have hacc := hag.2.2.1
  have e0 := round_acc_exact_iff mode p neg q k hq hp hfin
  have e1 := round_acc_above_iff mode p neg q k hq hp hfin
  have e2 := round_acc_below_iff mode p neg q k hq hp hfin
  rw [← hacc, ← hm] at e0 e1 e2
  unfold decVal
  rw [hneg]
  cases neg
  · simp only [Bool.false_eq_true, if_false] at e1 e2 ⊢
    exact ⟨e0, e1, e2⟩
  · simp only [if_true] at e1 e2 ⊢
    exact ⟨by rw [e0, neg_inj], by rw [e1, neg_lt_neg_iff], by rw [e2, neg_lt_neg_iff]⟩

/-- The same for a signed exact value rounded by `roundSQ` (sums). -/
theorem acc_sign_of_agrees_roundSQ (z : Dec) (mode : Mode) (p : Nat) (v : SQ) (zn : Bool)
    (hp : 1 ≤ p) (h : agrees z (roundSQ mode p v zn) = true) (hf : z.form = .finite) :
    (z.acc = Exact ↔ decVal z v.k = v.s) ∧ (z.acc = Above ↔ v.s < decVal z v.k) ∧
      (z.acc = Below ↔ decVal z v.k < v.s) := by
  rcases lt_trichotomy v.s 0 with hs | hs | hs
  · rw [roundSQ_neg _ _ _ _ hs] at h
    have := acc_sign_of_agrees z mode p true (-v.s) v.k (by linarith) hp h hf
    simpa using this
  · rw [roundSQ_zero _ _ _ _ hs, agrees_iff] at h
    rw [h.1] at hf; cases hf
  · rw [roundSQ_pos _ _ _ _ hs] at h
    have := acc_sign_of_agrees z mode p false v.s v.k hs hp h hf
    simpa using this

/-- Non-finite results of `Spec.round`: underflow to a zero is flagged toward zero, overflow to
    an infinity away from zero. -/
theorem round_special_acc (mode : Mode) (p : Nat) (neg : Bool) (q : ℚ) (k : Int) :
    ((Spec.round mode p neg q k).form = .zero →
        (Spec.round mode p neg q k).acc = makeAcc neg ∧ decExp q + k < MinExp) ∧
    ((Spec.round mode p neg q k).form = .inf → (Spec.round mode p neg q k).acc = makeAcc (!neg)) := by
  by_cases hmin : decExp q + k < MinExp
  · rw [round_underflow _ _ _ _ _ hmin]
    exact ⟨fun _ => ⟨rfl, hmin⟩, fun h => by cases h⟩
  · rw [round_eq_tail _ _ _ _ _ hmin]
    refine ⟨fun h => absurd h (roundIntTail_form_ne_zero _ _ _ _ _ _), ?_⟩
    unfold roundIntTail
    simp only
    generalize (if (!_ && _) = true then _ + 1 else _) = c
    by_cases hc : (c == 10 ^ p) = true
    · simp only [hc, if_true]; split <;> simp
    · simp only [hc, Bool.false_eq_true, if_false]; split <;> simp

/-- Well inside the exponent range the result is finite. -/
theorem round_form_finite (mode : Mode) (p : Nat) (neg : Bool) (q : ℚ) (k : Int)
    (hmin : MinExp ≤ decExp q + k) (hmax : decExp q + k + 1 ≤ MaxExp) :
    (Spec.round mode p neg q k).form = .finite := by
  rw [round_eq_tail _ _ _ _ _ (by omega)]
  unfold roundIntTail
  simp only
  generalize (if (!_ && _) = true then _ + 1 else _) = c
  have h1 : ¬ decExp q + k + 1 > MaxExp := by omega
  have h2 : ¬ decExp q + k > MaxExp := by omega
  by_cases hc : (c == 10 ^ p) = true
  · simp only [hc, if_true, h1, if_false]
  · simp only [hc, Bool.false_eq_true, if_false, h2]

/-- The effective precision of `Set` is non-zero for an operand with a non-zero precision. -/
theorem effPrec1_pos (z : Dec) {x : Dec} (hx : 1 ≤ x.prec) : 1 ≤ effPrec1 z x := by
  unfold effPrec1
  by_cases h : z.prec = 0
  · simp only [h, beq_self_eq_true, if_true]; exact hx
  · simp only [beq_iff_eq, h, if_false]; omega

end Decimal
