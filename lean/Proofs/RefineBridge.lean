/-
  Bridge between L1 states and word-level states: `W.ofDec` rebuilds the word list of an L1 state,
  `abs ∘ ofDec` is the identity on finite canonical states, and the word-level invariant
  (`WInv`: words below `B` + the L1 invariant `Dec.Canonical` of the abstraction) is preserved by the
  word-level `Add Sub Mul Quo Set SetPrec`.
-/
import Proofs.RefineOps

set_option linter.unusedVariables false
namespace Decimal.W
open Decimal Decimal.L0 Decimal.Gen

/-! ### toWords / ofDec -/

theorem length_toWords (M n : Nat) : (toWords M n).length = n := by
  induction n generalizing M with
  | zero => rfl
  | succ n ih => simp [toWords, ih]

theorem WF_toWords (M n : Nat) : L0.WF (toWords M n) := by
  induction n generalizing M with
  | zero => exact WF_nil
  | succ n ih =>
    rw [toWords]
    exact WF_cons.mpr ⟨by rw [← L0.B_eq]; exact Nat.mod_lt _ B_pos, ih _⟩

theorem natOf_toWords (M n : Nat) : natOf (toWords M n) = M % B ^ n := by
  induction n generalizing M with
  | zero => simp [toWords, natOf, Nat.mod_one]
  | succ n ih =>
    rw [toWords, natOf_cons, ih, Nat.pow_succ, Nat.mul_comm (B ^ n) B, Nat.mod_mul]

theorem abs_ofDec (d : Dec) (h : d.mant < B ^ d.len) : abs (ofDec d) = d := by
  unfold abs ofDec
  simp only [natOf_toWords, length_toWords, Nat.mod_eq_of_lt h]

/-- without the bound (a zero or an infinity may carry any stale mantissa) the abstraction is the
    same observable state. -/
theorem abs_ofDec_obs (d : Dec) (h : d.form = .finite → d.mant < B ^ d.len) : obsEq (abs (ofDec d)) d := by
  refine ⟨rfl, rfl, rfl, rfl, rfl, fun hf => ?_⟩
  have hf' : d.form = .finite := hf
  have := abs_ofDec d (h hf')
  exact ⟨by rw [this], by rw [this], rfl⟩

/-- the word-level invariant: words in range, and the L1 invariant of the abstraction. -/
def WInv (w : WDec) : Prop := (w.form = .finite → L0.WF w.mant) ∧ (abs w).Canonical

theorem WInv.canon {w : WDec} (h : WInv w) : WCanon w := WCanon_of_canonical w h.1 h.2

theorem canonical_mant_lt {d : Dec} (h : d.Canonical) (hf : d.form = .finite) : d.mant < B ^ d.len := by
  obtain ⟨-, b, -⟩ := h.2.2 hf
  have := ndigits_lt_pow d.mant
  rw [b, DW_eq] at this
  rw [B_pow, Nat.mul_comm]
  exact this

theorem WInv_ofDec (d : Dec) (h : d.Canonical) : WInv (ofDec d) := by
  refine ⟨fun _ => WF_toWords _ _, ?_⟩
  exact canonical_obsEq (abs_ofDec_obs d (canonical_mant_lt h)).symm h

/-! ### preservation of the invariant -/

theorem add_inv (z x y : WDec) (hz : WInv z) (hx : WInv x) (hy : WInv y) :
    ∃ w' o, W.add z x y = .ok (w', o) ∧ WInv w' := by
  obtain ⟨w', e1, e2, e3⟩ := add_refines z x y hx.canon hy.canon hz.1
  exact ⟨w', _, e1, e3, canonical_obsEq e2.symm (add_canonical _ _ _ false false hz.2 hx.2 hy.2)⟩

theorem sub_inv (z x y : WDec) (hz : WInv z) (hx : WInv x) (hy : WInv y) :
    ∃ w' o, W.sub z x y = .ok (w', o) ∧ WInv w' := by
  obtain ⟨w', e1, e2, e3⟩ := sub_refines z x y hx.canon hy.canon hz.1
  exact ⟨w', _, e1, e3, canonical_obsEq e2.symm (sub_canonical _ _ _ false false hz.2 hx.2 hy.2)⟩

theorem mul_inv (z x y : WDec) (xyEq : Bool) (t : Thr) (hk : 1 ≤ t.kmul) (hks : 1 ≤ t.ksqr)
    (hxy : xyEq = true → x = y) (hz : WInv z) (hx : WInv x) (hy : WInv y) :
    ∃ w' o, W.mul z x y xyEq t = .ok (w', o) ∧ WInv w' := by
  obtain ⟨w', e1, e2, e3⟩ := mul_refines z x y xyEq t hk hks hx.canon hy.canon hxy
  refine ⟨w', _, e1, fun h => (e3 h).2.2, ?_⟩
  rw [e2]
  exact mul_canonical _ _ _ false false hz.2 hx.2 hy.2

theorem quo_inv (z x y : WDec) (t : Thr) (hk : 1 ≤ t.kmul) (hd : 4 ≤ t.drec)
    (hz : WInv z) (hx : WInv x) (hy : WInv y) :
    ∃ w' o, W.quo z x y t = .ok (w', o) ∧ WInv w' := by
  obtain ⟨w', e1, e2, e3⟩ := quo_refines z x y t hk hd hx.canon hy.canon
  refine ⟨w', _, e1, fun h => (e3 h).2.2, ?_⟩
  rw [e2]
  exact quo_canonical _ _ _ false false hz.2 hx.2 hy.2

theorem set_inv (z x : WDec) (hz : WInv z) (hx : WInv x) :
    ∃ w', W.set z x = .ok w' ∧ WInv w' := by
  obtain ⟨w', e1, e2, e3⟩ := set_refines z x false hz.1 hx.1
  refine ⟨w', e1, e3, ?_⟩
  rw [e2]
  exact set_canonical' _ _ false hz.2 hx.2

theorem setPrec_inv (z : WDec) (prec : Nat) (hz : WInv z) :
    ∃ w', W.setPrec z prec = .ok w' ∧ WInv w' := by
  obtain ⟨w', e1, e2, e3⟩ := setPrec_refines z prec hz.1
  refine ⟨w', e1, e3, ?_⟩
  rw [e2]
  exact setPrec_canonical _ _ hz.2

end Decimal.W
