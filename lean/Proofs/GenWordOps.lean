/-
  Theorems about the word functions REGENERATED from the Go sources (DecimalModel/Gen/WordOps.lean):
  each equals its mathematical definition for every input satisfying the kernel's precondition.
  A change of the Go source changes the generated definition and breaks the proof here.
-/
import DecimalModel.Gen.WordOps

namespace Decimal.Gen

theorem W_eq : W = 18446744073709551616 := rfl

/-- bits.Mul + bits.Add: `x*y + c` as a double word. -/
theorem mulAddWWW_g_spec (x y c : Nat) (hx : x < W) (hy : y < W) (hc : c < W) :
    (mulAddWWW_g x y c).1 * W + (mulAddWWW_g x y c).2 = x * y + c ∧ (mulAddWWW_g x y c).2 < W
      ∧ (mulAddWWW_g x y c).1 < W := by
  unfold mulAddWWW_g
  simp only [W_eq] at *
  have hxy : x * y ≤ 18446744073709551615 * 18446744073709551615 := Nat.mul_le_mul (by omega) (by omega)
  generalize x * y = p at *
  omega

theorem mulWW_g_spec (x y : Nat) :
    (mulWW_g x y).1 * W + (mulWW_g x y).2 = x * y ∧ (mulWW_g x y).2 < W := by
  unfold mulWW_g
  simp only [W_eq]
  generalize x * y = p
  omega

theorem divWW_g_spec (u1 u0 v : Nat) :
    divWW_g u1 u0 v = ((u1 * W + u0) / v, (u1 * W + u0) % v) := rfl

/-- Decimal add with carry. -/
theorem add10WWW_g_spec (x y c : Nat) (hx : x < 10000000000000000000) (hy : y < 10000000000000000000) (hc : c ≤ 1) :
    (add10WWW_g x y c).1 + (add10WWW_g x y c).2 * 10000000000000000000 = x + y + c
      ∧ (add10WWW_g x y c).1 < 10000000000000000000 ∧ (add10WWW_g x y c).2 ≤ 1 := by
  unfold add10WWW_g
  simp only [W_eq]
  have h1 : (x + y + c) / 18446744073709551616 = 0 ∨ (x + y + c) / 18446744073709551616 = 1 := by omega
  by_cases hge : (x + y + c) % 18446744073709551616 ≥ 10000000000000000000
  · rcases h1 with h1 | h1
    · simp only [h1, hge, if_true]
      show _ + Nat.lor 0 1 * _ = _ ∧ _
      have : Nat.lor 0 1 = 1 := by decide
      simp only [this]
      have : (18446744073709551616 - 1) % 18446744073709551616 = 18446744073709551615 := by decide
      simp only [this]
      have : Nat.land 10000000000000000000 18446744073709551615 = 10000000000000000000 := by decide
      simp only [this]
      omega
    · omega
  · rcases h1 with h1 | h1
    · simp only [h1, hge, if_false]
      have : Nat.lor 0 0 = 0 := by decide
      simp only [this]
      have : (18446744073709551616 - 0) % 18446744073709551616 = 0 := by decide
      simp only [this]
      have : Nat.land 10000000000000000000 0 = 0 := by decide
      simp only [this]
      omega
    · simp only [h1, hge, if_false]
      have : Nat.lor 1 0 = 1 := by decide
      simp only [this]
      have : (18446744073709551616 - 1) % 18446744073709551616 = 18446744073709551615 := by decide
      simp only [this]
      have : Nat.land 10000000000000000000 18446744073709551615 = 10000000000000000000 := by decide
      simp only [this]
      omega

/-- Decimal subtract with borrow. -/
theorem sub10WWW_g_spec (x y b : Nat) (hx : x < 10000000000000000000) (hy : y < 10000000000000000000) (hb : b ≤ 1) :
    (sub10WWW_g x y b).1 + y + b = x + (sub10WWW_g x y b).2 * 10000000000000000000
      ∧ (sub10WWW_g x y b).1 < 10000000000000000000 ∧ (sub10WWW_g x y b).2 ≤ 1 := by
  unfold sub10WWW_g
  simp only [W_eq]
  by_cases h : x ≥ y + b
  · simp only [h, if_true]
    simp
    omega
  · simp only [h, if_false]
    simp
    omega

/-! ### `div10W_g`: Granlund–Montgomery division of a double word by 10^19 -/

/-- key estimate, high bit of n0 clear -/
private theorem div10W_key_lo (n1 n0 : Nat) (h1 : n1 < 10000000000000000000) (h0 : n0 < 9223372036854775808) :
    let i := (15581492618384294730 * n1 + n0) / 18446744073709551616
    (i + n1) * 10000000000000000000 ≤ n1 * 18446744073709551616 + n0 ∧
      n1 * 18446744073709551616 + n0 < (i + n1 + 2) * 10000000000000000000 := by
  intro i
  omega

/-- key estimate, high bit of n0 set -/
private theorem div10W_key_hi (n1 n0 : Nat) (h1 : n1 < 10000000000000000000)
    (h0 : 9223372036854775808 ≤ n0) (h0' : n0 < 18446744073709551616) :
    let i := (15581492618384294730 * (n1 + 1) + (n0 + 10000000000000000000 - 18446744073709551616)) / 18446744073709551616
    (i + n1) * 10000000000000000000 ≤ n1 * 18446744073709551616 + n0 ∧
      n1 * 18446744073709551616 + n0 < (i + n1 + 2) * 10000000000000000000 := by
  intro i
  omega

theorem mulAddWWW_g_eq (x y c : Nat) (hx : x < W) (hy : y < W) (hc : c < W) :
    mulAddWWW_g x y c = ((x * y + c) / W, (x * y + c) % W) := by
  unfold mulAddWWW_g
  simp only [W_eq] at *
  have hxy : x * y ≤ 18446744073709551615 * 18446744073709551615 := Nat.mul_le_mul (by omega) (by omega)
  generalize x * y = p at *
  ext <;> simp <;> omega

theorem land_allones (d : Nat) (hd : d < 18446744073709551616) : Nat.land d 18446744073709551615 = d := by
  show d &&& 18446744073709551615 = d
  have : (18446744073709551615 : Nat) = 2 ^ 64 - 1 := by decide
  rw [this, Nat.and_two_pow_sub_one_eq_mod]
  exact Nat.mod_eq_of_lt (by omega)

/-- The tail of the algorithm, from the estimate `q1` with `q1*d ≤ n < (q1+2)*d`. -/
theorem div10W_tail (n1 n0 q1 : Nat) (h1 : n1 < 10000000000000000000) (h0 : n0 < 18446744073709551616)
    (hq : q1 * 10000000000000000000 ≤ n1 * 18446744073709551616 + n0)
    (hq' : n1 * 18446744073709551616 + n0 < (q1 + 2) * 10000000000000000000) :
    let t := 18446744073709551616 - 1 - q1
    let dr := mulAddWWW_g t 10000000000000000000 n0
    let drHi := (dr.1 + (n1 + 18446744073709551616 - 10000000000000000000) % 18446744073709551616) % 18446744073709551616
    (((drHi + 18446744073709551616 - t) % 18446744073709551616),
      ((dr.2 + (Nat.land 10000000000000000000 drHi)) % 18446744073709551616))
      = ((n1 * 18446744073709551616 + n0) / 10000000000000000000, (n1 * 18446744073709551616 + n0) % 10000000000000000000) := by
  intro t dr drHi
  have hq1 : q1 < 18446744073709551616 := by omega
  have hdr : dr = ((t * 10000000000000000000 + n0) / W, (t * 10000000000000000000 + n0) % W) :=
    mulAddWWW_g_eq t _ n0 (by simp only [W_eq]; omega) (by simp only [W_eq]; omega) (by simp only [W_eq]; omega)
  simp only [W_eq] at hdr
  by_cases hge : (q1 + 1) * 10000000000000000000 ≤ n1 * 18446744073709551616 + n0
  · have hhi : drHi = 0 := by
      show (dr.1 + _) % _ = 0
      rw [hdr]; simp only []
      omega
    rw [hhi]
    have : Nat.land 10000000000000000000 0 = 0 := by decide
    rw [this, hdr]; simp only []
    ext <;> simp only [] <;> omega
  · have hhi : drHi = 18446744073709551615 := by
      show (dr.1 + _) % _ = _
      rw [hdr]; simp only []
      omega
    rw [hhi, land_allones _ (by omega), hdr]; simp only []
    ext <;> simp only [] <;> omega

theorem div10W_g_spec (n1 n0 : Nat) (h1 : n1 < 10000000000000000000) (h0 : n0 < W) :
    div10W_g n1 n0 = ((n1 * W + n0) / 10000000000000000000, (n1 * W + n0) % 10000000000000000000) := by
  simp only [W_eq] at h0
  unfold div10W_g
  have hn2 : (((n1 * 2 ^ 0) % W) + (n0 / 2 ^ 64)) % W = n1 := by simp only [W_eq]; omega
  have hn10 : (n0 * 2 ^ 0) % W = n0 := by simp only [W_eq]; omega
  simp only [hn2, hn10]
  by_cases hlo : n0 < 9223372036854775808
  · have hs : signMask n0 = 0 := by unfold signMask; rw [if_neg (by omega)]
    simp only [hs]
    have hl0 : Nat.land 0 10000000000000000000 = 0 := by decide
    simp only [hl0]
    have ha : (n1 + W - 0) % W = n1 := by simp only [W_eq]; omega
    have hb : (n0 + 0) % W = n0 := by simp only [W_eq]; omega
    simp only [ha, hb]
    rw [mulAddWWW_g_eq _ n1 n0 (by simp only [W_eq]; omega) (by simp only [W_eq]; omega) (by simp only [W_eq]; omega)]
    simp only []
    have key := div10W_key_lo n1 n0 h1 hlo
    simp only [] at key
    have hq1 : ((15581492618384294730 * n1 + n0) / W + n1) % W = (15581492618384294730 * n1 + n0) / 18446744073709551616 + n1 := by
      simp only [W_eq]; omega
    rw [hq1]
    simp only [W_eq]
    exact div10W_tail n1 n0 _ h1 h0 key.1 (by omega)
  · have hs : signMask n0 = 18446744073709551615 := by unfold signMask; rw [if_pos (by omega)]
    simp only [hs]
    have hl0 : Nat.land 18446744073709551615 10000000000000000000 = 10000000000000000000 := by decide
    simp only [hl0]
    have ha : (n1 + W - 18446744073709551615) % W = n1 + 1 := by simp only [W_eq]; omega
    have hb : (n0 + 10000000000000000000) % W = n0 + 10000000000000000000 - 18446744073709551616 := by simp only [W_eq]; omega
    simp only [ha, hb]
    rw [mulAddWWW_g_eq _ (n1 + 1) _ (by simp only [W_eq]; omega) (by simp only [W_eq]; omega) (by simp only [W_eq]; omega)]
    simp only []
    have key := div10W_key_hi n1 n0 h1 (by omega) h0
    simp only [] at key
    have hq1 : ((15581492618384294730 * (n1 + 1) + (n0 + 10000000000000000000 - 18446744073709551616)) / W + n1) % W
        = (15581492618384294730 * (n1 + 1) + (n0 + 10000000000000000000 - 18446744073709551616)) / 18446744073709551616 + n1 := by
      simp only [W_eq]; omega
    rw [hq1]
    simp only [W_eq]
    exact div10W_tail n1 n0 _ h1 h0 key.1 (by omega)

/-- Decimal multiply: (hi, lo) with hi*10^19 + lo = x*y. -/
theorem mul10WW_g_spec (x y : Nat) (hx : x < 10000000000000000000) (hy : y < 10000000000000000000) :
    mul10WW_g x y = (x * y / 10000000000000000000, x * y % 10000000000000000000) := by
  unfold mul10WW_g
  simp only []
  have hxy : x * y ≤ 9999999999999999999 * 9999999999999999999 := Nat.mul_le_mul (by omega) (by omega)
  rw [div10W_g_spec _ _ (by simp only [W_eq]; omega) (by simp only [W_eq]; omega)]
  have : x * y / W * W + x * y % W = x * y := Nat.div_add_mod' _ _
  rw [this]

/-- Decimal divide of a double word by a word: precondition `u1 < v` (quotient fits a word). -/
theorem div10WW_g_spec (u1 u0 v : Nat) (hu1 : u1 < v) (hu0 : u0 < 10000000000000000000) (hv : v ≤ 10000000000000000000) :
    div10WW_g u1 u0 v = ((u1 * 10000000000000000000 + u0) / v, (u1 * 10000000000000000000 + u0) % v) := by
  unfold div10WW_g
  simp only []
  rw [mulAddWWW_g_eq _ _ _ (by simp only [W_eq]; omega) (by simp only [W_eq]; omega) (by simp only [W_eq]; omega)]
  simp only [divWW_g_spec]
  have : (u1 * 10000000000000000000 + u0) / W * W + (u1 * 10000000000000000000 + u0) % W = u1 * 10000000000000000000 + u0 :=
    Nat.div_add_mod' _ _
  rw [this]

theorem greaterThan_spec (x1 x2 y1 y2 : Nat) (hx2 : x2 < 10000000000000000000) (hy2 : y2 < 10000000000000000000) :
    greaterThan x1 x2 y1 y2 = true ↔ x1 * 10000000000000000000 + x2 > y1 * 10000000000000000000 + y2 := by
  unfold greaterThan
  simp only [decide_eq_true_eq]
  omega

end Decimal.Gen
