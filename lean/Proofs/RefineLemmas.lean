/-
  Word-list lemmas for the refinement L0-Decimal → L1 (`Proofs/Refine*.lean`): indexing, `digit`,
  `sticky`, `List.set`, `clearLow`, length of a normalised vector, `dnorm`.
-/
import Proofs.DecOps
import Proofs.Basic
import DecimalModel.L0Decimal

set_option linter.unusedVariables false
namespace Decimal.W
open Decimal Decimal.L0 Decimal.Gen

theorem B19 : B = 10 ^ 19 := Decimal.B_eq
theorem cDW : c_DW = 19 := rfl
theorem cDB : c_DB = B := rfl

theorem pow10_pos (k : Nat) : 0 < 10 ^ k := Nat.pow_pos (by omega)

/-- `B = 10^k · 10^(19-k)`. -/
theorem B_split (k : Nat) (hk : k ≤ 19) : B = 10 ^ k * 10 ^ (19 - k) := by
  rw [B19, ← Nat.pow_add]; congr 1; omega

theorem pow_dvd_B (k : Nat) (hk : k ≤ 19) : 10 ^ k ∣ B := ⟨_, B_split k hk⟩

/-! ### indexing -/

/-- the `j`-th word is the `j`-th base-`B` digit of the value. -/
theorem getD_natOf (x : List Nat) (hx : L0.WF x) (j : Nat) : x.getD j 0 = natOf x / B ^ j % B := by
  induction x generalizing j with
  | nil => simp [natOf]
  | cons a x ih =>
    have ⟨ha, hx'⟩ := WF_cons.mp hx
    cases j with
    | zero =>
      simp only [List.getD_cons_zero, natOf_cons, Nat.pow_zero, Nat.div_one]
      rw [Nat.add_mul_mod_self_left, Nat.mod_eq_of_lt (by rw [L0.B_eq]; exact ha)]
    | succ j =>
      rw [List.getD_cons_succ, ih hx' j, natOf_cons, Nat.pow_succ, Nat.mul_comm (B ^ j) B,
        ← Nat.div_div_eq_div_mul]
      congr 2
      rw [Nat.add_mul_div_left _ _ B_pos, Nat.div_eq_of_lt (by rw [L0.B_eq]; exact ha), Nat.zero_add]

theorem getD_lt (x : List Nat) (hx : L0.WF x) (j : Nat) : x.getD j 0 < 10000000000000000000 := by
  rw [getD_natOf x hx j, ← L0.B_eq]; exact Nat.mod_lt _ B_pos

/-- digits of a word seen through the value: for `k < 19`. -/
theorem word_digit (a k : Nat) (hk : k < 19) : (a % B / 10 ^ k) % 10 = (a / 10 ^ k) % 10 := by
  have hB : B = 10 ^ k * 10 ^ (19 - k) := B_split k (by omega)
  rw [hB, Nat.mod_mul_right_div_self]
  have hd : 10 ∣ 10 ^ (19 - k) := by
    have : 19 - k = (19 - k - 1) + 1 := by omega
    rw [this, Nat.pow_succ]; exact Nat.dvd_mul_left _ _
  exact Nat.mod_mod_of_dvd _ hd

/-! ### digit, sticky -/

/-- `x.digit(i)` is the `i`-th decimal digit of the value (any `i`). -/
theorem digit_eq (x : List Nat) (i : Nat) : digit x i =
    if i / 19 ≥ x.length then 0 else (x.getD (i / 19) 0 / pow10w (i % 19)) % 10 := rfl

theorem sticky_eq (x : List Nat) (i : Nat) : sticky x i =
    if i / 19 ≥ x.length then (if x.length = 0 then 0 else 1)
    else if (x.take (i / 19)).any (· != 0) then 1
    else if x.getD (i / 19) 0 % pow10w (i % 19) != 0 then 1
    else 0 := rfl

theorem digit_spec (x : List Nat) (hx : L0.WF x) (i : Nat) : digit x i = digitAt (natOf x) i := by
  rw [digit_eq]
  unfold digitAt
  have hi : i = 19 * (i / 19) + i % 19 := (Nat.div_add_mod i 19).symm
  have hk : i % 19 < 19 := Nat.mod_lt _ (by omega)
  have hpow : 10 ^ i = B ^ (i / 19) * 10 ^ (i % 19) := pow10_eq_B i
  by_cases hj : i / 19 ≥ x.length
  · rw [if_pos hj]
    have h1 := natOf_lt hx
    have h2 : B ^ x.length ≤ B ^ (i / 19) := Nat.pow_le_pow_right B_pos hj
    have h3 : B ^ (i / 19) * 1 ≤ B ^ (i / 19) * 10 ^ (i % 19) := Nat.mul_le_mul_left _ (pow10_pos _)
    rw [hpow, Nat.div_eq_of_lt (by omega)]
  · rw [if_neg hj, pow10w_eq _ (by omega), getD_natOf x hx, hpow, ← Nat.div_div_eq_div_mul]
    exact word_digit _ _ hk

theorem take_any_ne_zero (x : List Nat) : (x.any (· != 0)) = decide (natOf x ≠ 0) := by
  induction x with
  | nil => simp [natOf]
  | cons a x ih =>
    rw [List.any_cons, ih, natOf_cons]
    have hB := B_pos
    by_cases ha : a = 0
    · subst ha
      have : (B * natOf x ≠ 0) ↔ natOf x ≠ 0 := by
        constructor
        · intro h h0; rw [h0] at h; simp at h
        · intro h h0
          rcases Nat.mul_eq_zero.mp h0 with h1 | h1
          · omega
          · exact h h1
      simp [this]
    · have : a + B * natOf x ≠ 0 := by omega
      simp [ha, this]

/-- `x.sticky(i)` for a position inside the vector. -/
theorem sticky_spec (x : List Nat) (hx : L0.WF x) (i : Nat) (hi : i / 19 < x.length) :
    sticky x i = if stickyBelow (natOf x) i then 1 else 0 := by
  rw [sticky_eq]
  unfold stickyBelow
  rw [if_neg (by omega)]
  have hk : i % 19 < 19 := Nat.mod_lt _ (by omega)
  have hpow : 10 ^ i = B ^ (i / 19) * 10 ^ (i % 19) := pow10_eq_B i
  have hmod : natOf x % 10 ^ i
      = natOf (x.take (i / 19)) + B ^ (i / 19) * (x.getD (i / 19) 0 % 10 ^ (i % 19)) := by
    rw [hpow, Nat.mod_mul, getD_natOf x hx]
    have h1 := natOf_take_drop x (i / 19) (by omega)
    have h2 := natOf_lt (WF_take hx (i / 19))
    rw [List.length_take, Nat.min_eq_left (by omega)] at h2
    have e1 : natOf x % B ^ (i / 19) = natOf (x.take (i / 19)) := by
      rw [← h1, Nat.add_mul_mod_self_left, Nat.mod_eq_of_lt h2]
    rw [e1]
    congr 2
    exact (Nat.mod_mod_of_dvd _ (pow_dvd_B _ (by omega))).symm
  rw [take_any_ne_zero, pow10w_eq _ (by omega), hmod]
  have hBp := Bpow_pos (i / 19)
  generalize natOf (x.take (i / 19)) = a
  generalize x.getD (i / 19) 0 % 10 ^ (i % 19) = b
  generalize B ^ (i / 19) = P at hBp
  by_cases h1 : a = 0 <;> by_cases h2 : b = 0 <;> simp [h1, h2] <;> omega

/-! ### `List.set`, `clearLow` -/

theorem natOf_set (x : List Nat) (k v : Nat) (hk : k < x.length) :
    natOf (x.set k v) = natOf (x.take k) + B ^ k * (v + B * natOf (x.drop (k + 1))) := by
  induction x generalizing k with
  | nil => simp at hk
  | cons a x ih =>
    cases k with
    | zero => simp [natOf]
    | succ k =>
      simp only [List.set_cons_succ, natOf_cons, List.take_succ_cons, List.drop_succ_cons]
      rw [ih k (by simpa using hk), Nat.pow_succ]
      ring

/-- overwriting the top word. -/
theorem natOf_set_top (x : List Nat) (hx : L0.WF x) (n v : Nat) (hn : x.length = n) (hn1 : 1 ≤ n) :
    natOf (x.set (n - 1) v) = natOf x % B ^ (n - 1) + v * B ^ (n - 1) := by
  rw [natOf_set x (n - 1) v (by omega)]
  have hd : x.drop (n - 1 + 1) = [] := List.drop_eq_nil_of_le (by omega)
  rw [hd, natOf_nil, Nat.mul_zero, Nat.add_zero]
  have h1 := natOf_take_drop x (n - 1) (by omega)
  have h2 := natOf_lt (WF_take hx (n - 1))
  rw [List.length_take, Nat.min_eq_left (by omega)] at h2
  rw [← h1, Nat.add_mul_mod_self_left, Nat.mod_eq_of_lt h2, Nat.mul_comm]

theorem WF_set {x : List Nat} (hx : L0.WF x) (k v : Nat) (hv : v < 10000000000000000000) :
    L0.WF (x.set k v) := by
  intro w hw
  rcases List.mem_or_eq_of_mem_set hw with h | h
  · exact hx w h
  · rw [h]; exact hv

/-- `z.mant[0] -= z.mant[0] % lsd` clears the value's digits below `lsd` when `lsd ∣ B`. -/
theorem clearLow_spec (z : WDec) (lsd : Nat) (hne : z.mant ≠ []) (hwf : L0.WF z.mant) (hd : lsd ∣ B) :
    ∃ m', clearLow z lsd = .ok { z with mant := m' } ∧ natOf m' = natOf z.mant - natOf z.mant % lsd
      ∧ m'.length = z.mant.length ∧ L0.WF m' := by
  unfold clearLow
  cases hm : z.mant with
  | nil => exact absurd hm hne
  | cons w0 ws =>
    rw [hm] at hwf
    have ⟨h0, hws⟩ := WF_cons.mp hwf
    refine ⟨(w0 - w0 % lsd) :: ws, rfl, ?_, rfl, WF_cons.mpr ⟨by omega, hws⟩⟩
    simp only [natOf_cons]
    obtain ⟨k, hk⟩ := hd
    have : (w0 + B * natOf ws) % lsd = w0 % lsd := by
      rw [hk, Nat.mul_assoc, Nat.add_mul_mod_self_left]
    rw [this]
    have := Nat.mod_le w0 lsd
    omega

/-! ### length of a normalised vector, top word -/

/-- the top word is the value divided by `B^(len-1)`. -/
theorem top_eq (x : List Nat) (hx : L0.WF x) (hne : x ≠ []) :
    x.getD (x.length - 1) 0 = natOf x / B ^ (x.length - 1) := by
  rw [getD_natOf x hx]
  apply Nat.mod_eq_of_lt
  have h1 := natOf_lt hx
  have hl : 0 < x.length := List.length_pos_iff.mpr hne
  have : B ^ x.length = B ^ (x.length - 1) * B := by
    rw [← Nat.pow_succ]; congr 1; omega
  rw [this] at h1
  exact (Nat.div_lt_iff_lt_mul (Bpow_pos _)).mpr (by rw [Nat.mul_comm]; exact h1)

theorem top_ne_zero (x : List Nat) (hn : Normalized x) (hne : x ≠ []) :
    x.getD (x.length - 1) 0 ≠ 0 := by
  induction x using List.reverseRecOn with
  | nil => exact absurd rfl hne
  | append_singleton z a _ =>
    have ha : a ≠ 0 := (Normalized_snoc z a).mp hn
    simp [List.getD_eq_getElem?_getD, ha]

/-- number of decimal digits of the value, from the top word. -/
theorem ndigits_natOf (x : List Nat) (hx : L0.WF x) (hn : Normalized x) (hne : x ≠ []) :
    ndigits (natOf x) = (x.length - 1) * 19 + decDigits64 (x.getD (x.length - 1) 0) := by
  have ht0 := top_ne_zero x hn hne
  have hte := top_eq x hx hne
  have htl := getD_lt x hx (x.length - 1)
  generalize x.getD (x.length - 1) 0 = t at *
  have hs := decDigits64_spec t (by rw [W_eq]; omega) (by omega)
  have hdp : 1 ≤ decDigits64 t := by
    by_contra h
    have : decDigits64 t = 0 := by omega
    rw [this] at hs; simp at hs; omega
  -- t·P ≤ M < (t+1)·P with P = B^(len-1) = 10^(19(len-1))
  have hP : B ^ (x.length - 1) = 10 ^ ((x.length - 1) * 19) := by rw [B_pow, Nat.mul_comm]
  have hPpos := Bpow_pos (x.length - 1)
  have hlo : t * B ^ (x.length - 1) ≤ natOf x := by rw [hte]; exact Nat.div_mul_le_self _ _
  have hhi : natOf x < (t + 1) * B ^ (x.length - 1) := by
    rw [hte, Nat.mul_comm]; exact Nat.lt_mul_div_succ _ hPpos
  apply ndigits_unique
  · have : (x.length - 1) * 19 + decDigits64 t - 1 = (decDigits64 t - 1) + (x.length - 1) * 19 := by omega
    rw [this, Nat.pow_add, ← hP]
    exact Nat.le_trans (Nat.mul_le_mul_right _ hs.1) hlo
  · rw [Nat.add_comm, Nat.pow_add, ← hP]
    exact Nat.lt_of_lt_of_le hhi (Nat.mul_le_mul_right _ hs.2)
  · have : 0 < t * B ^ (x.length - 1) := Nat.mul_pos (by omega) hPpos
    omega

theorem decDigits64_le19 (t : Nat) (ht : t < 10000000000000000000) : decDigits64 t ≤ 19 := by
  have := nlz10_spec t ht; omega

/-- a normalised well-formed vector has exactly `nwords` words. -/
theorem length_eq_nwords (x : List Nat) (hx : L0.WF x) (hn : Normalized x) :
    x.length = nwords (natOf x) := by
  by_cases hne : x = []
  · subst hne; simp [natOf, nwords_def, ndigits_zero]
  · have h := ndigits_natOf x hx hn hne
    have ht0 := top_ne_zero x hn hne
    have htl := getD_lt x hx (x.length - 1)
    have h19 := decDigits64_le19 _ htl
    have hs := decDigits64_spec (x.getD (x.length - 1) 0) (by rw [W_eq]; omega) (by omega)
    have hdp : 1 ≤ decDigits64 (x.getD (x.length - 1) 0) := by
      by_contra hc
      have : decDigits64 (x.getD (x.length - 1) 0) = 0 := by omega
      rw [this] at hs; simp at hs; omega
    have hl : 0 < x.length := List.length_pos_iff.mpr hne
    rw [nwords_def, h]
    omega

/-! ### dnorm -/

/-- `dnorm` of a normalised non-empty vector: shift `19·len − ndigits`, value `M·10^s`, same length,
    top digit non-zero afterwards. -/
theorem dnorm_spec (x : List Nat) (hx : L0.WF x) (hn : Normalized x) (hne : x ≠ []) :
    ∃ m', dnorm x = .ok (m', dnormShift (natOf x) (nwords (natOf x)))
      ∧ natOf m' = natOf x * 10 ^ dnormShift (natOf x) (nwords (natOf x))
      ∧ m'.length = x.length ∧ L0.WF m' := by
  have hl : 0 < x.length := List.length_pos_iff.mpr hne
  have hlen := length_eq_nwords x hx hn
  have hnd := ndigits_natOf x hx hn hne
  have htl := getD_lt x hx (x.length - 1)
  have hnlz := nlz10_spec _ htl
  have hs : nlz10 (x.getD (x.length - 1) 0) = dnormShift (natOf x) (nwords (natOf x)) := by
    rw [dnormShift_def, ← hlen, hnd]; omega
  unfold dnorm
  rw [if_neg (by omega), hs]
  have hslt := dnormShift_lt (natOf x)
  generalize dnormShift (natOf x) (nwords (natOf x)) = s at *
  by_cases h0 : s > 0
  · rw [if_pos h0]
    obtain ⟨g1, g2, g3, g4⟩ := shl10VU_spec x s hx h0 hslt
    refine ⟨_, rfl, ?_, g3, g2⟩
    -- the carry is zero: M·10^s < B^len
    have hM : natOf x * 10 ^ s < B ^ x.length := by
      have h1 := ndigits_lt_pow (natOf x)
      have h2 : 10 ^ ndigits (natOf x) * 10 ^ s = B ^ x.length := by
        have e : ndigits (natOf x) + s = 19 * x.length := by rw [hnd]; omega
        rw [← Nat.pow_add, B_pow, e]
      rw [← h2]
      exact Nat.mul_lt_mul_of_pos_right h1 (pow10_pos s)
    have hc : (shl10VU x s).2 = 0 := by
      by_contra hc
      have : B ^ x.length * 1 ≤ (shl10VU x s).2 * B ^ x.length := by
        rw [Nat.mul_comm]; exact Nat.mul_le_mul_right _ (by omega)
      omega
    rw [hc] at g1
    omega
  · rw [if_neg h0]
    have : s = 0 := by omega
    subst this
    exact ⟨x, rfl, by simp, rfl, hx⟩

end Decimal.W
