/-
  The leaf of the recursive division: `divBasic` called with a destination of ANY sufficient length
  and a dividend whose top `len v` words may be ≥ v (as `divRecursiveStep` calls it, on the
  normalised `u`), generalising `divBasic_spec` (which covers `divLarge`'s call: `qlen = m`,
  top part below `v`).
-/
import Proofs.Div
import DecimalModel.DivRec

set_option linter.unusedVariables false
set_option linter.unusedSimpArgs false
namespace Decimal.L0
open Decimal Decimal.Gen

/-- the correction loop of D3 never increases the estimate. -/
theorem qhatLoop_le (vn1 vn2 ujn2 : Nat) (hvn2 : vn2 < 10000000000000000000)
    (hu2 : ujn2 < 10000000000000000000) :
    ∀ (fuel qh rh : Nat), qh < 10000000000000000000 →
      qhatLoop vn1 vn2 ujn2 fuel qh rh (qh * vn2 / 10000000000000000000) (qh * vn2 % 10000000000000000000)
        ≤ qh := by
  intro fuel
  induction fuel with
  | zero => intro qh rh _; simp only [qhatLoop]; exact Nat.le_refl _
  | succ fuel ih =>
    intro qh rh hqb
    simp only [qhatLoop]
    have hx2 : qh * vn2 % 10000000000000000000 < 10000000000000000000 := Nat.mod_lt _ (by omega)
    have hgt := greaterThan_spec (qh * vn2 / 10000000000000000000) (qh * vn2 % 10000000000000000000) rh ujn2 hx2 hu2
    rw [Nat.div_add_mod' (qh * vn2) 10000000000000000000] at hgt
    by_cases htest : rh * 10000000000000000000 + ujn2 < qh * vn2
    · rw [if_pos (hgt.mpr htest)]
      have hq1 : 1 ≤ qh := by
        rcases Nat.eq_zero_or_pos qh with h | h
        · rw [h] at htest; omega
        · exact h
      obtain ⟨k, hk⟩ : ∃ k, qh = k + 1 := ⟨qh - 1, by omega⟩
      subst hk
      have hdec : (k + 1 + W - 1) % W = k := by simp only [W_eq]; omega
      rw [hdec]
      by_cases hw : (rh + vn1) % W < rh
      · rw [if_pos hw]; omega
      · rw [if_neg hw, mul10WW_g_spec k vn2 (by omega) hvn2]
        simp only []
        have := ih k ((rh + vn1) % W) (by omega)
        omega
    · have hng : ¬ greaterThan (qh * vn2 / 10000000000000000000) (qh * vn2 % 10000000000000000000) rh ujn2 = true :=
        fun h => htest (hgt.mp h)
      rw [if_neg hng]

/-- on the top window (`n` words, a virtual zero word above) the estimate is at most 1. -/
theorem qhatOf_top_le (u : List Nat) (vn1 vn2 j n : Nat) (hu : WF u) (hul : u.length = j + n)
    (hvn1 : vn1 < 10000000000000000000) (hnorm : 10000000000000000000 ≤ 2 * vn1)
    (hvn2 : vn2 < 10000000000000000000) : qhatOf vn1 vn2 u j n ≤ 1 := by
  have h0 : u.getD (j + n) 0 = 0 := by
    rw [List.getD_eq_getElem?_getD, List.getElem?_eq_none (by omega)]; rfl
  have hujn1 : u.getD (j + n - 1) 0 < 10000000000000000000 := getD_lt u hu _
  have hujn2 : u.getD (j + n - 2) 0 < 10000000000000000000 := getD_lt u hu _
  unfold qhatOf
  simp only [h0, ite_self]
  rw [if_pos (by omega)]
  rw [div10WW_g_spec 0 (u.getD (j + n - 1) 0) vn1 (by omega) hujn1 (by omega)]
  simp only [Nat.zero_mul, Nat.zero_add]
  have hq0 : u.getD (j + n - 1) 0 / vn1 ≤ 1 := by
    have : u.getD (j + n - 1) 0 / vn1 < 2 := by
      rw [Nat.div_lt_iff_lt_mul (by omega)]; omega
    omega
  rw [mul10WW_g_spec _ vn2 (by omega) hvn2]
  simp only []
  have := qhatLoop_le vn1 vn2 (u.getD (j + n - 2) 0) hvn2 hujn2 8 (u.getD (j + n - 1) 0 / vn1)
    (u.getD (j + n - 1) 0 % vn1) (by omega)
  omega

/-- D4–D6 on the top window when its `n` words may be ≥ v: the estimate is 0 or 1. -/
theorem divStep_top (u v : List Nat) (j n qh : Nat) (hn : 2 ≤ n) (hvl : v.length = n) (hv : WF v)
    (hu : WF u) (hul : u.length = j + n) (hqle : qh ≤ 1)
    (hR1 : natOf (u.drop j) < (qh + 1) * natOf v) (hR2 : qh * natOf v ≤ natOf (u.drop j) + natOf v) :
    ∃ w' qd, divStep v n u j qh = (u.take j ++ w', qd) ∧ w'.length = (u.drop j).length ∧ WF w'
      ∧ qd < 10000000000000000000 ∧ natOf (u.drop j) = qd * natOf v + natOf w' ∧ natOf w' < natOf v := by
  have hVlt := natOf_lt hv
  rw [hvl] at hVlt
  obtain ⟨m1, m2, m3, m4⟩ := mulAdd10VWW_spec v qh 0 hv (by omega) (by omega)
  rw [hvl] at m1 m3
  have haL : (u.take j).length = j := by rw [List.length_take]; omega
  have hcomm : natOf v * qh = qh * natOf v := Nat.mul_comm _ _
  rw [hcomm, Nat.add_zero] at m1
  have hXl : (u.drop j).length = n := by rw [List.length_drop]; omega
  have hu2 : u = u.take j ++ u.drop j := (List.take_append_drop j u).symm
  have hXw : WF (u.drop j) := WF_drop hu _
  have hXlt := natOf_lt hXw
  rw [hXl] at hXlt
  generalize hXdef : u.drop j = X at *
  generalize hadef : u.take j = a at *
  have hqV : qh * natOf v ≤ natOf v := by
    have : qh * natOf v ≤ 1 * natOf v := Nat.mul_le_mul_right _ hqle
    omega
  have hcq : (mulAdd10VWW v qh 0).2 = 0 := by
    by_contra h
    have : 1 * B ^ n ≤ (mulAdd10VWW v qh 0).2 * B ^ n := Nat.mul_le_mul_right _ (by omega)
    omega
  rw [hcq, Nat.zero_mul, Nat.add_zero] at m1
  have hsame : sub10VV X ((mulAdd10VWW v qh 0).1 ++ [(mulAdd10VWW v qh 0).2]) 0
      = sub10VV X (mulAdd10VWW v qh 0).1 0 := sub10VV_append_right X _ _ 0 (by rw [hXl, m3])
  obtain ⟨s1, s2, s3, s4⟩ := sub10VV_spec X (mulAdd10VWW v qh 0).1 0 hXw m2 (by rw [hXl, m3]) (by omega)
  rw [m1, hXl, Nat.add_zero] at s1
  rw [hXl] at s3
  rw [← hsame] at s1 s2 s3 s4
  obtain ⟨d1, d2, d3, d4⟩ := add10VV_spec _ v 0 s2 hv (by rw [s3, hvl]) (by omega)
  rw [s3] at d3
  rw [s3, Nat.add_zero] at d1
  have hstep := divStep_B a X v j n qh haL hXl hcq s3
  rw [hu2, hstep]
  have hsbl := natOf_lt s2
  rw [s3] at hsbl
  have hexp : (qh + 1) * natOf v = qh * natOf v + natOf v := by ring
  generalize sub10VV X ((mulAdd10VWW v qh 0).1 ++ [(mulAdd10VWW v qh 0).2]) 0 = sb at *
  have e2 : (a ++ X).take j = a := List.take_left' haL
  have e4 : (a ++ X).drop j = X := List.drop_left' haL
  by_cases hc : sb.2 ≠ 0
  · rw [if_pos hc]
    have hc1 : sb.2 = 1 := by omega
    rw [hc1, Nat.one_mul] at s1
    have hq1 : qh = 1 := by
      rcases Nat.eq_zero_or_pos qh with h | h
      · rw [h] at s1; omega
      · omega
    subst hq1
    rw [Nat.one_mul] at s1
    have hdec : (1 + W - 1) % W = 0 := by simp only [W_eq]
    rw [hdec]
    generalize add10VV sb.1 v 0 = ad at *
    have hadl := natOf_lt d2
    rw [d3] at hadl
    have had2 : ad.2 = 1 := by
      by_contra h
      have h0 : ad.2 = 0 := by omega
      rw [h0] at d1
      omega
    rw [had2, Nat.one_mul] at d1
    exact ⟨ad.1, 0, rfl, by rw [d3, hXl], d2, by omega, by omega, by omega⟩
  · rw [if_neg hc]
    have hc0 : sb.2 = 0 := by omega
    rw [hc0, Nat.zero_mul, Nat.add_zero] at s1
    exact ⟨sb.1, qh, rfl, by rw [s3, hXl], s2, by omega, by omega, by omega⟩

/-- the loop of Algorithm D with a destination longer than the quotient (`m < qlen`): no top condition. -/
theorem divLoop_gen (v : List Nat) (n m qlen : Nat) (hn : 2 ≤ n) (hvl : v.length = n) (hv : WF v)
    (hnorm : 10000000000000000000 ≤ 2 * v.getD (n - 1) 0) (hmq : m < qlen) :
    ∀ (f j : Nat) (q u : List Nat), j ≤ m → j < f → WF u → u.length = m + n → WF q → q.length = qlen →
      natOf (u.drop (j + 1)) < natOf v →
      ∃ q' r, divBasic.loop qlen v n m (v.getD (n - 1) 0) (v.getD (n - 2) 0) f j q u = .ok (q', r)
        ∧ r.length = m + n ∧ WF r ∧ q'.length = qlen ∧ WF q' ∧ natOf r < natOf v
        ∧ natOf q' * natOf v + natOf r = natOf (q.drop (j + 1)) * B ^ (j + 1) * natOf v + natOf u := by
  intro f
  induction f with
  | zero => intro j q u _ h; omega
  | succ f ih =>
    intro j q u hjm hjf hu hul hq hql hrem
    rw [divBasic_loop_succ]
    simp only []
    have hdg := natOf_drop_getD u j
    have hujlt := getD_lt u hu j
    have hRB : natOf (u.drop j) < B * natOf v := by
      rw [hdg]
      have : B * (natOf (u.drop (j + 1)) + 1) ≤ B * natOf v := Nat.mul_le_mul_left _ (by omega)
      rw [Nat.mul_add] at this
      have hB := B_eq
      omega
    obtain ⟨e1, e2, e3⟩ := qhatOf_spec u v j n hn hvl hv hu (by omega) hnorm hRB
    have hstepX : ∃ w' qd, divStep v n u j (qhatOf (v.getD (n - 1) 0) (v.getD (n - 2) 0) u j n)
        = (u.take j ++ w', qd) ∧ w'.length = (u.drop j).length ∧ WF w'
        ∧ qd < 10000000000000000000 ∧ natOf (u.drop j) = qd * natOf v + natOf w' ∧ natOf w' < natOf v := by
      by_cases hjtop : j = m
      · have hle := qhatOf_top_le u (v.getD (n - 1) 0) (v.getD (n - 2) 0) j n hu (by omega)
          (getD_lt v hv _) hnorm (getD_lt v hv _)
        exact divStep_top u v j n _ hn hvl hv hu (by omega) hle e2 e3
      · obtain ⟨w', qd, a1, a2, a3, a4, a5, a6, _⟩ :=
          divStep_spec u v j n _ hn hvl hv hu (by omega) e1 e2 e3 (by intro h; omega)
        exact ⟨w', qd, a1, a2, a3, a4, a5, a6⟩
    obtain ⟨w', qd, hstep, hwl, hww, hqd, hR, hw'v⟩ := hstepX
    rw [hstep]
    simp only []
    have htl : (u.take j).length = j := by rw [List.length_take]; omega
    have hu1w : WF (u.take j ++ w') := WF_append.mpr ⟨WF_take hu _, hww⟩
    have hu1l : (u.take j ++ w').length = m + n := by
      rw [List.length_append, htl, hwl, List.length_drop]; omega
    have hu1d : (u.take j ++ w').drop j = w' := List.drop_left' htl
    have hutd := natOf_take_drop u j (by omega)
    have hu1v : natOf (u.take j ++ w') = natOf (u.take j) + B ^ j * natOf w' := by
      rw [natOf_append, htl]
    rw [if_neg (by intro h; omega), if_neg (by omega)]
    have hq1w : WF (q.take j ++ [qd] ++ q.drop (j + 1)) :=
      WF_append.mpr ⟨WF_append.mpr ⟨WF_take hq _, WF_single.mpr hqd⟩, WF_drop hq _⟩
    have hqtl : (q.take j).length = j := by rw [List.length_take]; omega
    have hq1l : (q.take j ++ [qd] ++ q.drop (j + 1)).length = qlen := by
      simp only [List.length_append, hqtl, List.length_drop, List.length_cons, List.length_nil]; omega
    have hq1d : (q.take j ++ [qd] ++ q.drop (j + 1)).drop j = qd :: q.drop (j + 1) := by
      rw [List.append_assoc, List.drop_left' hqtl]; rfl
    have hkey : (qd + B * natOf (q.drop (j + 1))) * B ^ j * natOf v + natOf (u.take j ++ w')
        = natOf (q.drop (j + 1)) * B ^ (j + 1) * natOf v + natOf u := by
      rw [hu1v, ← hutd, hR, pow_succ]; ring
    by_cases hj0 : j = 0
    · rw [if_pos hj0]
      refine ⟨_, u.take j ++ w', rfl, hu1l, hu1w, hq1l, hq1w, ?_, ?_⟩
      · rw [hu1v, hj0]; simpa [natOf] using hw'v
      · rw [← hkey]
        subst hj0
        simp only [List.take_zero, List.nil_append, natOf_append, natOf_single, List.length_cons,
          List.length_nil, pow_zero, pow_one, Nat.mul_one, Nat.one_mul, natOf_cons, natOf_nil, Nat.zero_add,
          Nat.mul_zero, Nat.add_zero]
    · rw [if_neg hj0]
      obtain ⟨q', r, h1, h2, h3, h4, h5, h6, h7⟩ := ih (j - 1) (q.take j ++ [qd] ++ q.drop (j + 1))
        (u.take j ++ w') (by omega) (by omega) hu1w hu1l hq1w hq1l (by
          have : j - 1 + 1 = j := by omega
          rw [this, hu1d]; exact hw'v)
      refine ⟨q', r, h1, h2, h3, h4, h5, h6, ?_⟩
      have e : j - 1 + 1 = j := by omega
      rw [h7, e, hq1d, natOf_cons, hkey]

/-- `divBasic` with any destination that can hold the quotient (`u < v·B^qlen`). -/
theorem divBasic_gen (u v : List Nat) (n m qlen : Nat) (hn : 2 ≤ n) (hvl : v.length = n) (hv : WF v)
    (hu : WF u) (hul : u.length = m + n) (hnorm : 10000000000000000000 ≤ 2 * v.getD (n - 1) 0)
    (hfit : natOf u < natOf v * B ^ qlen) (hmq : m ≤ qlen) :
    ∃ q r, divBasic qlen u v = .ok (q, r) ∧ r.length = m + n ∧ WF r ∧ q.length = qlen ∧ WF q
      ∧ natOf r < natOf v ∧ natOf q * natOf v + natOf r = natOf u := by
  rcases Nat.lt_or_ge m qlen with hlt | hge
  · unfold divBasic
    simp only []
    have hm : u.length - v.length = m := by omega
    rw [hm, hvl]
    have hvge : B ^ (n - 1) ≤ natOf v := by
      obtain ⟨t1, t2⟩ := natOf_top v n (by omega) hvl hv
      have : B ^ (n - 1) * 1 ≤ B ^ (n - 1) * v.getD (n - 1) 0 := Nat.mul_le_mul_left _ (by omega)
      omega
    have hrem : natOf (u.drop (m + 1)) < natOf v := by
      have h1 := natOf_lt (WF_drop hu (m + 1))
      rw [List.length_drop] at h1
      have : u.length - (m + 1) = n - 1 := by omega
      rw [this] at h1
      omega
    obtain ⟨q', r, h1, h2, h3, h4, h5, h6, h7⟩ := divLoop_gen v n m qlen hn hvl hv hnorm hlt (m + 1) m
      (zeros qlen) u (Nat.le_refl _) (by omega) hu hul (WF_zeros _) (length_zeros _) hrem
    refine ⟨q', r, h1, h2, h3, h4, h5, h6, ?_⟩
    rw [h7]
    have : natOf ((zeros qlen).drop (m + 1)) = 0 := by
      unfold zeros; rw [List.drop_replicate]; exact natOf_replicate _
    rw [this]; simp
  · have hmq' : m = qlen := by omega
    subst hmq'
    have htop : natOf (u.drop m) < natOf v := by
      rw [natOf_drop u m hu (by omega)]
      exact Nat.div_lt_of_lt_mul (by rw [Nat.mul_comm]; exact hfit)
    exact divBasic_spec u v n m hn hvl hv hu hul hnorm htop

/-- the leaf of `divRecursiveStep`: normalised dividend, any destination that can hold the quotient. -/
theorem divBasicLeaf_spec (u v : List Nat) (qlen : Nat) (hu : WF u) (hv : WF v) (hnu : Normalized u)
    (hn : 2 ≤ v.length) (hnorm : 10000000000000000000 ≤ 2 * v.getD (v.length - 1) 0)
    (hfit : natOf u < natOf v * B ^ qlen) :
    ∃ q r, divBasicLeaf qlen u v = .ok (q, r) ∧ natOf u = natOf q * natOf v + natOf r
      ∧ natOf r < natOf v ∧ WF q ∧ WF r ∧ q.length = qlen ∧ r.length = u.length := by
  unfold divBasicLeaf
  rw [if_neg (by omega)]
  have hvge : B ^ (v.length - 1) ≤ natOf v := by
    obtain ⟨t1, t2⟩ := natOf_top v v.length (by omega) rfl hv
    have : B ^ (v.length - 1) * 1 ≤ B ^ (v.length - 1) * v.getD (v.length - 1) 0 :=
      Nat.mul_le_mul_left _ (by omega)
    omega
  by_cases hlt : u.length < v.length
  · rw [if_pos hlt]
    have h1 := natOf_lt hu
    have h3 : B ^ u.length ≤ B ^ (v.length - 1) := Nat.pow_le_pow_right B_pos (by omega)
    exact ⟨zeros qlen, u, rfl, by rw [natOf_zeros]; simp, by omega, WF_zeros _, hu, length_zeros _, rfl⟩
  · rw [if_neg hlt, if_neg (by omega)]
    have hVlt := natOf_lt hv
    have hmq : u.length - v.length ≤ qlen := by
      have hlen : u.length ≤ v.length + qlen := by
        apply length_le_of_natOf_lt hnu
        rw [pow_add]
        have : natOf v * B ^ qlen ≤ B ^ v.length * B ^ qlen := Nat.mul_le_mul_right _ (by omega)
        omega
      omega
    obtain ⟨q, r, h1, h2, h3, h4, h5, h6, h7⟩ := divBasic_gen u v v.length (u.length - v.length) qlen hn rfl hv
      hu (by omega) hnorm hfit hmq
    exact ⟨q, r, h1, by omega, h6, h5, h3, h4, by omega⟩

end Decimal.L0
