/-
  L0 `dec` operations (DecimalModel/DecOps.lean): norm add sub cmp divW mulAddWW shl shr addAt basicMul
  compute their arithmetic specification for all lengths.
-/
import Proofs.Vec
import Mathlib.Data.List.Induction
import DecimalModel.DecOps

set_option linter.unusedVariables false
namespace Decimal.L0
open Decimal Decimal.Gen

/-- normalised: no most significant zero word. -/
def Normalized (x : List Nat) : Prop := x.getLast? ≠ some 0

theorem Normalized_nil : Normalized [] := by simp [Normalized]

theorem Normalized_snoc (z : List Nat) (a : Nat) : Normalized (z ++ [a]) ↔ a ≠ 0 := by
  simp [Normalized]

/-! ### norm -/

theorem norm_nil : norm [] = [] := rfl

theorem norm_snoc (z : List Nat) (a : Nat) :
    norm (z ++ [a]) = if a = 0 then norm z else z ++ [a] := by
  unfold norm
  rw [List.reverse_append, List.reverse_singleton, List.singleton_append, List.dropWhile_cons]
  by_cases h : a = 0
  · subst h; simp
  · have : (a == 0) = false := by simpa using h
    simp [this, h]

theorem norm_props (z : List Nat) :
    natOf (norm z) = natOf z ∧ Normalized (norm z) ∧ (norm z).length ≤ z.length
      ∧ (WF z → WF (norm z)) ∧ (Normalized z → norm z = z) := by
  induction z using List.reverseRecOn with
  | nil => simp [norm_nil, Normalized_nil]
  | append_singleton z a ih =>
    rw [norm_snoc]
    by_cases h : a = 0
    · rw [if_pos h]
      obtain ⟨h1, h2, h3, h4, h5⟩ := ih
      refine ⟨?_, h2, ?_, fun hw => h4 (WF_append.mp hw).1, fun hn => ?_⟩
      · rw [h1, natOf_append, natOf_single, h]; simp
      · simp; omega
      · exact absurd h ((Normalized_snoc z a).mp hn)
    · rw [if_neg h]
      exact ⟨rfl, (Normalized_snoc z a).mpr h, Nat.le_refl _, fun hw => hw, fun _ => rfl⟩

theorem natOf_norm (z : List Nat) : natOf (norm z) = natOf z := (norm_props z).1
theorem Normalized_norm (z : List Nat) : Normalized (norm z) := (norm_props z).2.1
theorem length_norm_le (z : List Nat) : (norm z).length ≤ z.length := (norm_props z).2.2.1
theorem WF_norm {z : List Nat} (h : WF z) : WF (norm z) := (norm_props z).2.2.2.1 h
theorem norm_of_Normalized {z : List Nat} (h : Normalized z) : norm z = z := (norm_props z).2.2.2.2 h

/-- `norm_spec`: value preserved, result normalised (empty or top word non-zero), words kept. -/
theorem norm_spec (z : List Nat) :
    natOf (norm z) = natOf z ∧ Normalized (norm z) ∧ (WF z → WF (norm z)) :=
  ⟨natOf_norm z, Normalized_norm z, fun h => WF_norm h⟩

/-- a normalised non-empty vector of `m` words is at least `B^(m-1)`. -/
theorem natOf_ge_of_Normalized {x : List Nat} (hn : Normalized x) (hne : x ≠ []) :
    B ^ (x.length - 1) ≤ natOf x := by
  induction x using List.reverseRecOn with
  | nil => exact absurd rfl hne
  | append_singleton z a _ =>
    have ha : a ≠ 0 := (Normalized_snoc z a).mp hn
    rw [natOf_append, natOf_single]
    simp only [List.length_append, List.length_cons, List.length_nil, Nat.add_sub_cancel]
    have : B ^ z.length * 1 ≤ B ^ z.length * a := Nat.mul_le_mul_left _ (by omega)
    omega

theorem natOf_eq_zero_of_Normalized {x : List Nat} (hn : Normalized x) (h0 : natOf x = 0) : x = [] := by
  by_contra hne
  have := natOf_ge_of_Normalized hn hne
  have := Bpow_pos (x.length - 1)
  omega

theorem natOf_take_drop (x : List Nat) (n : Nat) (h : n ≤ x.length) :
    natOf (x.take n) + B ^ n * natOf (x.drop n) = natOf x := by
  have := natOf_append (x.take n) (x.drop n)
  rw [List.take_append_drop, List.length_take, Nat.min_eq_left h] at this
  exact this.symm

/-- normalised vectors: shorter means smaller. -/
theorem natOf_lt_of_length_lt {x y : List Nat} (hx : WF x) (hy : Normalized y)
    (hl : x.length < y.length) : natOf x < natOf y := by
  have h1 := natOf_lt hx
  have hne : y ≠ [] := by intro h; rw [h] at hl; simp at hl
  have h2 := natOf_ge_of_Normalized hy hne
  have h3 : B ^ x.length ≤ B ^ (y.length - 1) := Nat.pow_le_pow_right B_pos (by omega)
  omega

/-! ### add -/

theorem add_core (x y : List Nat) (hx : WF x) (hy : WF y) (hl : y.length ≤ x.length)
    (hn : y.length ≠ 0) (r0 r1 : List Nat × Nat) (e0 : r0 = add10VV (x.take y.length) y 0)
    (e1 : r1 = if x.length > y.length then add10VW (x.drop y.length) r0.2 else ([], r0.2)) :
    natOf (r0.1 ++ r1.1 ++ [r1.2]) = natOf x + natOf y ∧ WF (r0.1 ++ r1.1 ++ [r1.2]) := by
  have hlt : (x.take y.length).length = y.length := by rw [List.length_take]; omega
  obtain ⟨a1, a2, a3, a4⟩ := add10VV_spec (x.take y.length) y 0 (WF_take hx _) hy hlt (by omega)
  rw [hlt] at a1 a3
  rw [← e0] at a1 a2 a3 a4
  have htd := natOf_take_drop x y.length hl
  by_cases hgt : x.length > y.length
  · rw [if_pos hgt] at e1
    obtain ⟨b1, b2, b3, b4, _⟩ := add10VW_spec (x.drop y.length) r0.2 (WF_drop hx _) (by omega)
    rw [← e1] at b1 b2 b3 b4
    refine ⟨?_, WF_append.mpr ⟨WF_append.mpr ⟨a2, b2⟩, WF_single.mpr b4⟩⟩
    rw [List.append_assoc, natOf_append, natOf_append, natOf_single, a3, b3]
    linear_combination a1 + B ^ y.length * b1 + htd
  · rw [if_neg hgt] at e1
    have hle : x.length = y.length := by omega
    have hd : x.drop y.length = [] := by rw [← hle]; simp
    rw [hd] at htd
    rw [e1]
    refine ⟨?_, WF_append.mpr ⟨WF_append.mpr ⟨a2, WF_nil⟩, WF_single.mpr (by omega)⟩⟩
    simp only [List.append_nil, natOf_append, natOf_single, a3, natOf_nil] at htd ⊢
    linear_combination a1 + htd

theorem add_eq_of_ge (x y : List Nat) (hl : y.length ≤ x.length) :
    add x y = if x.length = 0 then [] else if y.length = 0 then x else
      let r0 := add10VV (x.take y.length) y 0
      let r1 := if x.length > y.length then add10VW (x.drop y.length) r0.2 else ([], r0.2)
      norm (r0.1 ++ r1.1 ++ [r1.2]) := by
  unfold add
  rw [if_neg (by omega)]

theorem add_eq_of_lt (x y : List Nat) (hl : x.length < y.length) :
    add x y = if y.length = 0 then [] else if x.length = 0 then y else
      let r0 := add10VV (y.take x.length) x 0
      let r1 := if y.length > x.length then add10VW (y.drop x.length) r0.2 else ([], r0.2)
      norm (r0.1 ++ r1.1 ++ [r1.2]) := by
  unfold add
  rw [if_pos hl]

/-- `add_spec`: the sum, well-formed; normalised when the operands are. -/
theorem add_spec (x y : List Nat) (hx : WF x) (hy : WF y) :
    natOf (add x y) = natOf x + natOf y ∧ WF (add x y)
      ∧ (Normalized x → Normalized y → Normalized (add x y)) := by
  by_cases hl : x.length < y.length
  · -- swapped
    have e : add x y = add y x := by
      rw [add_eq_of_lt x y hl, add_eq_of_ge y x (by omega)]
    rw [e]
    by_cases h0 : y.length = 0
    · omega
    · rw [add_eq_of_ge y x (by omega), if_neg h0]
      by_cases h1 : x.length = 0
      · rw [if_pos h1]
        have hx0 : x = [] := List.eq_nil_of_length_eq_zero h1
        subst hx0
        exact ⟨by simp [natOf], hy, fun _ h => h⟩
      · rw [if_neg h1]
        have := add_core y x hy hx (by omega) h1 _ _ rfl rfl
        simp only [] at this ⊢
        exact ⟨by rw [natOf_norm, this.1]; omega, WF_norm this.2, fun _ _ => Normalized_norm _⟩
  · rw [add_eq_of_ge x y (by omega)]
    by_cases h0 : x.length = 0
    · rw [if_pos h0]
      have hx0 : x = [] := List.eq_nil_of_length_eq_zero h0
      have hy0 : y = [] := List.eq_nil_of_length_eq_zero (by omega)
      subst hx0 hy0
      exact ⟨rfl, WF_nil, fun _ _ => Normalized_nil⟩
    · rw [if_neg h0]
      by_cases h1 : y.length = 0
      · rw [if_pos h1]
        have hy0 : y = [] := List.eq_nil_of_length_eq_zero h1
        subst hy0
        exact ⟨rfl, hx, fun h _ => h⟩
      · rw [if_neg h1]
        have := add_core x y hx hy (by omega) h1 _ _ rfl rfl
        simp only [] at this ⊢
        exact ⟨by rw [natOf_norm]; exact this.1, WF_norm this.2, fun _ _ => Normalized_norm _⟩

/-! ### sub -/

theorem sub_core (x y : List Nat) (hx : WF x) (hy : WF y) (hl : y.length ≤ x.length)
    (r0 r1 : List Nat × Nat) (e0 : r0 = sub10VV (x.take y.length) y 0)
    (e1 : r1 = if x.length > y.length then sub10VW (x.drop y.length) r0.2 else ([], r0.2)) :
    natOf (r0.1 ++ r1.1) + natOf y = natOf x + r1.2 * B ^ x.length ∧ WF (r0.1 ++ r1.1)
      ∧ (r0.1 ++ r1.1).length = x.length ∧ r1.2 ≤ 1 := by
  have hlt : (x.take y.length).length = y.length := by rw [List.length_take]; omega
  obtain ⟨a1, a2, a3, a4⟩ := sub10VV_spec (x.take y.length) y 0 (WF_take hx _) hy hlt (by omega)
  rw [hlt] at a1 a3
  rw [← e0] at a1 a2 a3 a4
  have htd := natOf_take_drop x y.length hl
  by_cases hgt : x.length > y.length
  · rw [if_pos hgt] at e1
    obtain ⟨b1, b2, b3, b4, b5⟩ := sub10VW_spec (x.drop y.length) r0.2 (WF_drop hx _) (by omega)
    rw [← e1] at b1 b2 b3 b4 b5
    have hdl : (x.drop y.length).length = x.length - y.length := List.length_drop
    have hne : x.drop y.length ≠ [] := by
      intro h; rw [h] at hdl; simp at hdl; omega
    have hp : B ^ x.length = B ^ y.length * B ^ (x.drop y.length).length := by
      rw [← pow_add, hdl]; congr 1; omega
    refine ⟨?_, WF_append.mpr ⟨a2, b2⟩, by rw [List.length_append, a3, b3, hdl]; omega, b5 hne⟩
    rw [natOf_append, a3, hp]
    linear_combination a1 + B ^ y.length * b1 + htd
  · rw [if_neg hgt] at e1
    have hle : x.length = y.length := by omega
    have hd : x.drop y.length = [] := by rw [← hle]; simp
    rw [hd] at htd
    rw [e1]
    refine ⟨?_, WF_append.mpr ⟨a2, WF_nil⟩, by simp [a3, hle], a4⟩
    simp only [List.append_nil, natOf_nil, hle] at htd ⊢
    linear_combination a1 + htd

theorem sub_eq_of_ge (x y : List Nat) (hl : y.length ≤ x.length) :
    sub x y = if x.length = 0 then .ok [] else if y.length = 0 then .ok x else
      let r0 := sub10VV (x.take y.length) y 0
      let r1 := if x.length > y.length then sub10VW (x.drop y.length) r0.2 else ([], r0.2)
      if r1.2 ≠ 0 then .error "underflow" else .ok (norm (r0.1 ++ r1.1)) := by
  unfold sub
  rw [if_neg (by omega)]

/-- `sub_spec`: for normalised `x ≥ y` the result is the difference, never "underflow". -/
theorem sub_spec (x y : List Nat) (hx : WF x) (hy : WF y) (hnx : Normalized x) (hny : Normalized y)
    (hle : natOf y ≤ natOf x) :
    ∃ z, sub x y = .ok z ∧ natOf z + natOf y = natOf x ∧ WF z ∧ Normalized z := by
  have hl : y.length ≤ x.length := by
    by_contra h
    have := natOf_lt_of_length_lt hx hny (by omega)
    omega
  rw [sub_eq_of_ge x y hl]
  by_cases h0 : x.length = 0
  · rw [if_pos h0]
    have hx0 : x = [] := List.eq_nil_of_length_eq_zero h0
    have hy0 : y = [] := List.eq_nil_of_length_eq_zero (by rw [h0] at hl; omega)
    subst hx0 hy0
    exact ⟨[], rfl, rfl, WF_nil, Normalized_nil⟩
  · rw [if_neg h0]
    by_cases h1 : y.length = 0
    · rw [if_pos h1]
      have hy0 : y = [] := List.eq_nil_of_length_eq_zero h1
      subst hy0
      exact ⟨x, rfl, rfl, hx, hnx⟩
    · rw [if_neg h1]
      obtain ⟨c1, c2, c3, c4⟩ := sub_core x y hx hy hl _ _ rfl rfl
      simp only [] at c1 c2 c3 c4 ⊢
      have hlt := natOf_lt c2
      rw [c3] at hlt
      generalize (if x.length > y.length then sub10VW (List.drop y.length x) (sub10VV (List.take y.length x) y 0).2
        else ([], (sub10VV (List.take y.length x) y 0).2)) = r1 at *
      have hc0 : r1.2 = 0 := by
        by_contra hc
        have : r1.2 = 1 := by omega
        rw [this] at c1
        omega
      rw [hc0] at c1
      rw [if_neg (by omega)]
      exact ⟨_, rfl, by rw [natOf_norm]; omega, WF_norm c2, Normalized_norm _⟩

/-- `sub` reports "underflow" exactly when `x < y` (any well-formed operands). -/
theorem sub_underflow (x y : List Nat) (hx : WF x) (hy : WF y) (hlt : natOf x < natOf y) :
    sub x y = .error "underflow" := by
  by_cases hl : y.length ≤ x.length
  · rw [sub_eq_of_ge x y hl]
    by_cases h0 : x.length = 0
    · have hx0 : x = [] := List.eq_nil_of_length_eq_zero h0
      have hy0 : y = [] := List.eq_nil_of_length_eq_zero (by rw [h0] at hl; omega)
      subst hx0 hy0
      simp [natOf] at hlt
    · rw [if_neg h0]
      by_cases h1 : y.length = 0
      · have hy0 : y = [] := List.eq_nil_of_length_eq_zero h1
        subst hy0
        simp [natOf] at hlt
      · rw [if_neg h1]
        obtain ⟨c1, c2, c3, c4⟩ := sub_core x y hx hy hl _ _ rfl rfl
        simp only [] at c1 c2 c3 c4 ⊢
        generalize (if x.length > y.length then sub10VW (List.drop y.length x) (sub10VV (List.take y.length x) y 0).2
          else ([], (sub10VV (List.take y.length x) y 0).2)) = r1 at *
        have hc0 : r1.2 ≠ 0 := by
          intro hc
          rw [hc] at c1
          omega
        rw [if_pos hc0]
  · unfold sub
    rw [if_pos (by omega)]

/-! ### cmp -/

theorem cmp_go_spec (a b : List Nat) (hl : a.length = b.length) (ha : WF a) (hb : WF b) :
    cmp.go a b = if natOf a.reverse < natOf b.reverse then -1
      else if natOf a.reverse > natOf b.reverse then 1 else 0 := by
  induction a generalizing b with
  | nil =>
    cases b with
    | nil => simp [cmp.go, natOf]
    | cons _ _ => simp at hl
  | cons a0 as ih =>
    cases b with
    | nil => simp at hl
    | cons b0 bs =>
      have ⟨ha0, has⟩ := WF_cons.mp ha
      have ⟨hb0, hbs⟩ := WF_cons.mp hb
      have hl' : as.length = bs.length := by simpa using hl
      have h1 := natOf_lt (WF_reverse.mpr has)
      have h2 := natOf_lt (WF_reverse.mpr hbs)
      rw [List.length_reverse] at h1 h2
      simp only [cmp.go, List.reverse_cons, natOf_append, natOf_single, List.length_reverse]
      rw [ih bs hl' has hbs]
      rw [← hl'] at h2 ⊢
      generalize natOf as.reverse = u at *
      generalize natOf bs.reverse = v at *
      generalize B ^ as.length = P at *
      by_cases hlt : a0 < b0
      · have : P * (a0 + 1) ≤ P * b0 := Nat.mul_le_mul_left _ (by omega)
        rw [Nat.mul_add] at this
        rw [if_pos hlt, if_pos (by omega)]
      · rw [if_neg hlt]
        by_cases hgt : a0 > b0
        · have : P * (b0 + 1) ≤ P * a0 := Nat.mul_le_mul_left _ (by omega)
          rw [Nat.mul_add] at this
          rw [if_pos hgt, if_neg (by omega), if_pos (by omega)]
        · rw [if_neg hgt]
          have e : a0 = b0 := by omega
          subst e
          simp only [Nat.add_lt_add_iff_right, gt_iff_lt]

/-- `cmp_spec`: three-way comparison of the values, for normalised operands. -/
theorem cmp_spec (x y : List Nat) (hx : WF x) (hy : WF y) (hnx : Normalized x) (hny : Normalized y) :
    cmp x y = if natOf x < natOf y then -1 else if natOf x > natOf y then 1 else 0 := by
  unfold cmp
  simp only []
  by_cases h : x.length ≠ y.length ∨ x.length = 0
  · rw [if_pos h]
    by_cases h1 : x.length < y.length
    · have := natOf_lt_of_length_lt hx hny h1
      rw [if_pos h1, if_pos this]
    · rw [if_neg h1]
      by_cases h2 : x.length > y.length
      · have := natOf_lt_of_length_lt hy hnx h2
        rw [if_pos h2, if_neg (by omega), if_pos this]
      · have h0 : x.length = 0 := by omega
        have hx0 : x = [] := List.eq_nil_of_length_eq_zero h0
        have hy0 : y = [] := List.eq_nil_of_length_eq_zero (by omega)
        subst hx0 hy0
        simp [natOf]
  · rw [if_neg h]
    have hl : x.length = y.length := by omega
    have := cmp_go_spec x.reverse y.reverse (by simp [hl]) (WF_reverse.mpr hx) (WF_reverse.mpr hy)
    rw [List.reverse_reverse, List.reverse_reverse] at this
    exact this

/-! ### divW / mulAddWW -/

/-- `divW_spec`: quotient and remainder by a non-zero word. -/
theorem divW_spec (x : List Nat) (y : Nat) (hx : WF x) (hy0 : 0 < y) (hy : y < 10000000000000000000) :
    ∃ q r, divW x y = .ok (q, r) ∧ natOf q * y + r = natOf x ∧ r < y ∧ WF q
      ∧ (Normalized x → Normalized q) := by
  unfold divW
  rw [if_neg (by omega)]
  by_cases h1 : y = 1
  · rw [if_pos h1]
    exact ⟨x, 0, rfl, by rw [h1]; omega, by omega, hx, fun h => h⟩
  · rw [if_neg h1]
    by_cases h0 : x.length = 0
    · rw [if_pos h0]
      have hx0 : x = [] := List.eq_nil_of_length_eq_zero h0
      subst hx0
      exact ⟨[], 0, rfl, by simp [natOf], hy0, WF_nil, fun _ => Normalized_nil⟩
    · rw [if_neg h0]
      obtain ⟨d1, d2, d3, d4⟩ := div10VWW_spec x y 0 hx hy0 (by omega) hy0
      simp only []
      refine ⟨_, _, rfl, ?_, d2, WF_norm d3, fun _ => Normalized_norm _⟩
      rw [natOf_norm]; omega

theorem divW_zero (x : List Nat) : divW x 0 = .error "division by zero" := by
  unfold divW; rw [if_pos rfl]

theorem natOf_setWord (r : Nat) : natOf (setWord r) = r := by
  unfold setWord
  by_cases h : r = 0
  · rw [if_pos h, h]; rfl
  · rw [if_neg h, natOf_single]

theorem Normalized_setWord (r : Nat) : Normalized (setWord r) := by
  unfold setWord
  by_cases h : r = 0
  · rw [if_pos h]; exact Normalized_nil
  · rw [if_neg h]; exact (Normalized_snoc [] r).mpr h

theorem WF_setWord {r : Nat} (h : r < 10000000000000000000) : WF (setWord r) := by
  unfold setWord
  by_cases h0 : r = 0
  · rw [if_pos h0]; exact WF_nil
  · rw [if_neg h0]; exact WF_single.mpr h

/-- `mulAddWW_spec`: `x*y + r`, normalised. -/
theorem mulAddWW_spec (x : List Nat) (y r : Nat) (hx : WF x) (hy : y < 10000000000000000000)
    (hr : r < 10000000000000000000) :
    natOf (mulAddWW x y r) = natOf x * y + r ∧ WF (mulAddWW x y r) ∧ Normalized (mulAddWW x y r) := by
  unfold mulAddWW
  by_cases h : x.length = 0 ∨ y = 0
  · rw [if_pos h]
    refine ⟨?_, WF_setWord hr, Normalized_setWord r⟩
    rw [natOf_setWord]
    rcases h with h | h
    · have hx0 : x = [] := List.eq_nil_of_length_eq_zero h
      subst hx0; simp [natOf]
    · rw [h]; omega
  · rw [if_neg h]
    obtain ⟨m1, m2, m3, m4⟩ := mulAdd10VWW_spec x y r hx hy hr
    simp only []
    refine ⟨?_, WF_norm (WF_append.mpr ⟨m2, WF_single.mpr m4⟩), Normalized_norm _⟩
    rw [natOf_norm, natOf_append, natOf_single, m3]
    linear_combination m1

/-! ### addAt -/

theorem natOf_zeros (n : Nat) : natOf (zeros n) = 0 := natOf_replicate n
theorem WF_zeros (n : Nat) : WF (zeros n) := WF_replicate n
theorem length_zeros (n : Nat) : (zeros n).length = n := by simp [zeros]

/-- a vector cut in three at `i` and `i+n`. -/
theorem natOf_split3 (z : List Nat) (i n : Nat) (h : i + n ≤ z.length) :
    natOf z = natOf (z.take i) + B ^ i * (natOf ((z.drop i).take n) + B ^ n * natOf (z.drop (i + n))) := by
  have h1 := natOf_take_drop z i (by omega)
  have h2 := natOf_take_drop (z.drop i) n (by rw [List.length_drop]; omega)
  rw [List.drop_drop] at h2
  rw [h2, h1]

theorem natOf_join3 (a s h : List Nat) :
    natOf (a ++ s ++ h) = natOf a + B ^ a.length * (natOf s + B ^ s.length * natOf h) := by
  rw [List.append_assoc, natOf_append, natOf_append]

/-- `addAt_spec` (general form): the sum modulo `B^len z`, the lost carry made explicit. -/
theorem addAt_carry (z x : List Nat) (i : Nat) (hz : WF z) (hx : WF x) (hl : i + x.length ≤ z.length) :
    ∃ c, c ≤ 1 ∧ natOf (addAt z x i) + c * B ^ z.length = natOf z + B ^ i * natOf x
      ∧ WF (addAt z x i) ∧ (addAt z x i).length = z.length := by
  unfold addAt
  by_cases h0 : x.length = 0
  · simp only [if_pos h0]
    have hx0 : x = [] := List.eq_nil_of_length_eq_zero h0
    subst hx0
    exact ⟨0, by omega, by simp [natOf], hz, trivial⟩
  · simp only [if_neg h0]
    have hml : ((z.drop i).take x.length).length = x.length := by
      rw [List.length_take, List.length_drop]; omega
    obtain ⟨a1, a2, a3, a4⟩ := add10VV_spec ((z.drop i).take x.length) x 0
      (WF_take (WF_drop hz _) _) hx hml (by omega)
    rw [hml] at a1 a3
    have hsp := natOf_split3 z i x.length hl
    have hti : (z.take i).length = i := by rw [List.length_take]; omega
    have hhl : (z.drop (i + x.length)).length = z.length - (i + x.length) := List.length_drop
    generalize add10VV ((z.drop i).take x.length) x 0 = r0 at *
    by_cases hc : r0.2 ≠ 0 ∧ i + x.length < z.length
    · rw [if_pos hc]
      obtain ⟨b1, b2, b3, b4, b5⟩ := add10VW_spec (z.drop (i + x.length)) r0.2 (WF_drop hz _) (by omega)
      have hne : z.drop (i + x.length) ≠ [] := by
        intro h; rw [h] at hhl; simp at hhl; omega
      refine ⟨(add10VW (z.drop (i + x.length)) r0.2).2, b5 hne, ?_,
        WF_append.mpr ⟨WF_append.mpr ⟨WF_take hz _, a2⟩, b2⟩, ?_⟩
      · have hp : B ^ z.length = B ^ i * (B ^ x.length * B ^ (z.drop (i + x.length)).length) := by
          rw [← pow_add, ← pow_add, hhl]; congr 1; omega
        rw [natOf_join3, hti, a3, hp, hsp]
        linear_combination B ^ i * a1 + B ^ i * B ^ x.length * b1
      · simp only [List.length_append, hti, a3, b3, hhl]; omega
    · rw [if_neg hc]
      refine ⟨if i + x.length < z.length then 0 else r0.2, ?_, ?_,
        WF_append.mpr ⟨WF_append.mpr ⟨WF_take hz _, a2⟩, WF_drop hz _⟩, ?_⟩
      · split <;> omega
      · rw [natOf_join3, hti, a3, hsp]
        by_cases hlt : i + x.length < z.length
        · rw [if_pos hlt]
          have hc0 : r0.2 = 0 := by
            by_contra h; exact hc ⟨h, hlt⟩
          rw [hc0] at a1
          linear_combination B ^ i * a1
        · rw [if_neg hlt]
          have hp : B ^ z.length = B ^ i * B ^ x.length := by
            rw [← pow_add]; congr 1; omega
          rw [hp]
          linear_combination B ^ i * a1
      · simp only [List.length_append, hti, a3, hhl]; omega

/-- `addAt_spec`: `z += x·B^i` when the sum fits in `len z` words. -/
theorem addAt_spec (z x : List Nat) (i : Nat) (hz : WF z) (hx : WF x) (hl : i + x.length ≤ z.length)
    (hfit : natOf z + B ^ i * natOf x < B ^ z.length) :
    natOf (addAt z x i) = natOf z + B ^ i * natOf x ∧ WF (addAt z x i)
      ∧ (addAt z x i).length = z.length := by
  obtain ⟨c, c1, c2, c3, c4⟩ := addAt_carry z x i hz hx hl
  refine ⟨?_, c3, c4⟩
  have : c = 0 := by
    by_contra h
    have : c = 1 := by omega
    rw [this] at c2
    omega
  rw [this] at c2
  omega

/-! ### basicMul -/

theorem basicMul_go_spec (x : List Nat) (hx : WF x) (ds : List Nat) (i : Nat) (zlo : List Nat)
    (hds : WF ds) (hz : WF zlo) (hl : zlo.length = i + x.length) :
    natOf (basicMul.go x x.length ds i (zlo ++ zeros ds.length)) = natOf zlo + B ^ i * (natOf x * natOf ds)
      ∧ WF (basicMul.go x x.length ds i (zlo ++ zeros ds.length))
      ∧ (basicMul.go x x.length ds i (zlo ++ zeros ds.length)).length = i + x.length + ds.length := by
  induction ds generalizing i zlo with
  | nil =>
    simp only [basicMul.go, List.length_nil, zeros, List.replicate_zero, List.append_nil, natOf_nil]
    exact ⟨by simp, hz, by omega⟩
  | cons d ds ih =>
    have ⟨hd, hds'⟩ := WF_cons.mp hds
    have hzz : zeros (d :: ds).length = 0 :: zeros ds.length := by
      simp [zeros, List.replicate_succ]
    rw [hzz]
    simp only [basicMul.go]
    by_cases hd0 : d ≠ 0
    · rw [if_pos hd0]
      have e1 : ((zlo ++ 0 :: zeros ds.length).drop i).take x.length = zlo.drop i := by
        rw [List.drop_append_of_le_length (by omega)]
        exact List.take_left' (by rw [List.length_drop]; omega)
      have e2 : (zlo ++ 0 :: zeros ds.length).take i = zlo.take i :=
        List.take_append_of_le_length (by omega)
      have e3 : (zlo ++ 0 :: zeros ds.length).drop (i + x.length + 1) = zeros ds.length := by
        rw [← hl, List.drop_append]; simp
      rw [e1, e2, e3]
      have hdl : (zlo.drop i).length = x.length := by rw [List.length_drop]; omega
      obtain ⟨m1, m2, m3, m4⟩ := addMul10VVW_spec (zlo.drop i) x d 0 (WF_drop hz _) hx hdl hd (by omega)
      generalize addMul10VVW (zlo.drop i) x d 0 = r at *
      have hti : (zlo.take i).length = i := by rw [List.length_take]; omega
      have hz' : WF (zlo.take i ++ r.1 ++ [r.2]) :=
        WF_append.mpr ⟨WF_append.mpr ⟨WF_take hz _, m2⟩, WF_single.mpr m4⟩
      have hl' : (zlo.take i ++ r.1 ++ [r.2]).length = (i + 1) + x.length := by
        simp only [List.length_append, hti, m3, List.length_cons, List.length_nil]; omega
      obtain ⟨g1, g2, g3⟩ := ih (i + 1) _ hds' hz' hl'
      refine ⟨?_, g2, by rw [g3]; simp; omega⟩
      rw [g1, natOf_join3, hti, m3, natOf_single, natOf_cons, pow_succ]
      have htd := natOf_take_drop zlo i (by omega)
      linear_combination B ^ i * m1 + htd
    · rw [if_neg hd0]
      have hd00 : d = 0 := by omega
      have e : zlo ++ 0 :: zeros ds.length = (zlo ++ [0]) ++ zeros ds.length := by simp
      rw [e]
      have hz' : WF (zlo ++ [0]) := WF_append.mpr ⟨hz, WF_single.mpr (by omega)⟩
      obtain ⟨g1, g2, g3⟩ := ih (i + 1) _ hds' hz' (by simp; omega)
      refine ⟨?_, g2, by rw [g3]; simp; omega⟩
      rw [g1, natOf_append, natOf_single, natOf_cons, hd00, pow_succ]
      ring

/-- `basicMul_spec`: the schoolbook product, `len x + len y` words. -/
theorem basicMul_spec (x y : List Nat) (hx : WF x) (hy : WF y) :
    natOf (basicMul x y) = natOf x * natOf y ∧ WF (basicMul x y)
      ∧ (basicMul x y).length = x.length + y.length := by
  unfold basicMul
  simp only []
  have e : zeros (x.length + y.length) = zeros x.length ++ zeros y.length := by
    simp [zeros, List.replicate_append_replicate]
  rw [e]
  obtain ⟨g1, g2, g3⟩ := basicMul_go_spec x hx y 0 (zeros x.length) hy (WF_zeros _) (by simp [length_zeros])
  refine ⟨?_, g2, by rw [g3]; omega⟩
  rw [g1, natOf_zeros]; simp

/-! ### shl / shr -/

theorem pow10_eq_B (s : Nat) : 10 ^ s = B ^ (s / 19) * 10 ^ (s % 19) := by
  have hB : B = 10 ^ 19 := rfl
  rw [hB, ← pow_mul, ← pow_add, Nat.div_add_mod]

/-- `shl_spec`: `x·10^s` for any `s`, normalised. -/
theorem shl_spec (x : List Nat) (s : Nat) (hx : WF x) :
    natOf (shl x s) = natOf x * 10 ^ s ∧ WF (shl x s) ∧ Normalized (shl x s) := by
  unfold shl
  simp only []
  by_cases h0 : x.length = 0
  · rw [if_pos h0]
    have hx0 : x = [] := List.eq_nil_of_length_eq_zero h0
    subst hx0
    exact ⟨by simp [natOf], WF_nil, Normalized_nil⟩
  · rw [if_neg h0]
    have hc : c_DW = 19 := rfl
    rw [hc]
    have key : natOf (shl10VU x (s % 19)).1 + (shl10VU x (s % 19)).2 * B ^ x.length = natOf x * 10 ^ (s % 19)
        ∧ WF (shl10VU x (s % 19)).1 ∧ (shl10VU x (s % 19)).1.length = x.length
        ∧ (shl10VU x (s % 19)).2 < 10000000000000000000 := by
      by_cases ht : s % 19 = 0
      · rw [ht, shl10VU_zero]; exact ⟨by simp, hx, rfl, by omega⟩
      · obtain ⟨g1, g2, g3, g4⟩ := shl10VU_spec x (s % 19) hx (by omega) (Nat.mod_lt _ (by omega))
        refine ⟨g1, g2, g3, ?_⟩
        have : 10 ^ (s % 19) ≤ 10 ^ 19 := Nat.pow_le_pow_right (by omega) (by omega)
        omega
    obtain ⟨g1, g2, g3, g4⟩ := key
    refine ⟨?_, WF_norm (WF_append.mpr ⟨WF_append.mpr ⟨WF_zeros _, g2⟩, WF_single.mpr g4⟩),
      Normalized_norm _⟩
    rw [natOf_norm, natOf_join3, natOf_zeros, length_zeros, natOf_single, g3, pow10_eq_B s]
    linear_combination B ^ (s / 19) * g1

theorem natOf_drop (x : List Nat) (k : Nat) (hx : WF x) (hk : k ≤ x.length) :
    natOf (x.drop k) = natOf x / B ^ k := by
  have h1 := natOf_take_drop x k hk
  have h2 := natOf_lt (WF_take hx k)
  rw [List.length_take, Nat.min_eq_left hk] at h2
  rw [← h1, Nat.add_mul_div_left _ _ (Bpow_pos k), Nat.div_eq_of_lt h2, Nat.zero_add]

/-- `shr_spec`: `⌊x / 10^s⌋` for any `s`, normalised. -/
theorem shr_spec (x : List Nat) (s : Nat) (hx : WF x) :
    natOf (shr x s) = natOf x / 10 ^ s ∧ WF (shr x s) ∧ Normalized (shr x s) := by
  unfold shr
  simp only []
  have hc : c_DW = 19 := rfl
  rw [hc]
  have h10 : 0 < 10 ^ (s % 19) := Nat.pow_pos (by omega)
  by_cases hn : (x.length : Int) - ((s / 19 : Nat) : Int) ≤ 0
  · rw [if_pos hn]
    refine ⟨?_, WF_nil, Normalized_nil⟩
    have h1 := natOf_lt hx
    have h2 : B ^ x.length ≤ B ^ (s / 19) := Nat.pow_le_pow_right B_pos (by omega)
    have h3 : B ^ (s / 19) * 1 ≤ B ^ (s / 19) * 10 ^ (s % 19) := Nat.mul_le_mul_left _ h10
    rw [pow10_eq_B s, natOf_nil, Nat.div_eq_of_lt (by omega)]
  · rw [if_neg hn]
    have hk : x.length - ((x.length : Int) - ((s / 19 : Nat) : Int)).toNat = s / 19 := by omega
    rw [hk]
    have hd := natOf_drop x (s / 19) hx (by omega)
    have key : natOf (shr10VU (x.drop (s / 19)) (s % 19)).1 = natOf (x.drop (s / 19)) / 10 ^ (s % 19)
        ∧ WF (shr10VU (x.drop (s / 19)) (s % 19)).1 := by
      by_cases ht : s % 19 = 0
      · rw [ht, shr10VU_zero]; exact ⟨by simp, WF_drop hx _⟩
      · obtain ⟨r, r1, r2, r3, r4, r5⟩ := shr10VU_spec (x.drop (s / 19)) (s % 19) (WF_drop hx _)
          (by omega) (Nat.mod_lt _ (by omega))
        refine ⟨?_, r4⟩
        rw [← r3, Nat.mul_comm, Nat.mul_add_div h10, Nat.div_eq_of_lt r1, Nat.add_zero]
    refine ⟨?_, WF_norm key.2, Normalized_norm _⟩
    rw [natOf_norm, key.1, hd, Nat.div_div_eq_div_mul, ← pow10_eq_B]

end Decimal.L0
