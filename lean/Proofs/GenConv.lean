/-
  The saturating conversions `Int64`, `Uint64` and `Abs` of decimal.go, REGENERATED from the source
  (`DecimalModel/Gen/Facts.lean`), tied to the model (`DecimalModel/Arith.lean`) for all arguments.
  `x.MinPrec()` and the pair returned by `x.intMant().toUint64()` are parameters of the generated functions;
  the theorems instantiate them with the model's `minPrec x` and `intMant x` (value, "fits in 64 bits").
-/
import DecimalModel.Gen.Facts
import DecimalModel.Arith
import Proofs.GenFacts

namespace Decimal.GenConv

open Decimal Decimal.GenFacts

theorem and_top_bit (t : Nat) (ht : t < 18446744073709551616) :
    (t &&& 9223372036854775808 = 0) ↔ t < 9223372036854775808 := by
  have h : (9223372036854775808 : Nat) = 2 ^ 63 := by decide
  rw [h]
  have hb : t.testBit 63 = decide (t / 2 ^ 63 % 2 = 1) := Nat.testBit_eq_decide_div_mod_eq
  constructor
  · intro h0
    have h1 : (t &&& 2 ^ 63).testBit 63 = false := by rw [h0]; exact Nat.zero_testBit 63
    rw [Nat.testBit_and, Nat.testBit_two_pow_self, Bool.and_true, hb] at h1
    have h2 : ¬ (t / 2 ^ 63 % 2 = 1) := by simpa using h1
    omega
  · intro hlt
    apply Nat.eq_of_testBit_eq
    intro i
    rw [Nat.testBit_and, Nat.zero_testBit]
    by_cases hi : 63 = i
    · subst hi
      rw [Nat.testBit_lt_two_pow hlt, Bool.false_and]
    · rw [Nat.testBit_two_pow_of_ne hi, Bool.and_false]

/-- `Int64`: every branch, saturation and accuracy. -/
theorem int64_eq (x : Dec) (tv : Nat) (hexp : -2147483648 ≤ x.exp ∧ x.exp ≤ 2147483647)
    (ht : intMant x < 2 ^ 64 → tv = intMant x) :
    Gen.Facts.Int64 x.form.toNat x.neg x.exp (minPrec x) tv (decide (intMant x < 2 ^ 64)) = some (toInt64 x) := by
  unfold Gen.Facts.Int64 toInt64
  cases hf : x.form
  · simp [Form.toNat, Decimal.Exact]
  · simp only [Form.toNat]
    by_cases h0 : x.exp ≤ 0
    · simp [h0, makeAcc_eq]
    · by_cases h20 : x.exp ≤ 20
      · by_cases hfit : intMant x < 2 ^ 64
        · have htv := ht hfit
          subst htv
          have hfit' : intMant x < 18446744073709551616 := by simpa using hfit
          have hmp : (decide (minPrec x ≤ (x.exp % 18446744073709551616).toNat)) = decide ((minPrec x : Int) ≤ x.exp) := by
            congr 1
            apply propext
            omega
          have hw : Gen.Facts.wrapI64 ((intMant x : Nat) : Int) =
              if intMant x < 9223372036854775808 then (intMant x : Int) else (intMant x : Int) - 18446744073709551616 := by
            unfold Gen.Facts.wrapI64
            split <;> omega
          have hb := and_top_bit (intMant x) hfit'
          by_cases h63 : intMant x < 9223372036854775808
          · have hb' : intMant x &&& 9223372036854775808 = 0 := hb.mpr h63
            have hw' : Gen.Facts.wrapI64 (-(intMant x : Int)) = -(intMant x : Int) := by
              unfold Gen.Facts.wrapI64; omega
            cases hn : x.neg <;> by_cases hm : (minPrec x : Int) ≤ x.exp <;>
              simp [Int.ofNat_eq_natCast, h0, h20, hfit, hmp, hw, h63, hb', hw', hm, makeAcc_eq, Decimal.Exact, Decimal.Above, Decimal.Below]
          · have hb' : ¬ (intMant x &&& 9223372036854775808 = 0) := fun h => h63 (hb.mp h)
            by_cases heq : intMant x = 9223372036854775808
            · have hw1 : Gen.Facts.wrapI64 9223372036854775808 = -9223372036854775808 := by decide
              have hw2 : Gen.Facts.wrapI64 (- -9223372036854775808) = -9223372036854775808 := by decide
              rw [heq] at hb'
              cases hn : x.neg <;> by_cases hm : (minPrec x : Int) ≤ x.exp <;>
                simp [Int.ofNat_eq_natCast, h0, h20, hfit, hmp, hb', hm, heq, hw1, hw2, makeAcc_eq, Decimal.Exact, Decimal.Above, Decimal.Below]
            · cases hn : x.neg <;> by_cases hm : (minPrec x : Int) ≤ x.exp <;>
                simp [Int.ofNat_eq_natCast, h0, h20, hfit, hmp, hw, h63, hb', hm, heq, makeAcc_eq, Decimal.Exact, Decimal.Above, Decimal.Below]
        · cases hn : x.neg <;> simp [h0, h20, hfit, Decimal.Above, Decimal.Below]
      · cases hn : x.neg <;> simp [h0, h20, Decimal.Above, Decimal.Below]
  · cases hn : x.neg <;> simp [Form.toNat, Decimal.Above, Decimal.Below]

/-- `Uint64`. -/
theorem uint64_eq (x : Dec) (rv : Nat) (hexp : -2147483648 ≤ x.exp ∧ x.exp ≤ 2147483647)
    (ht : intMant x < 2 ^ 64 → rv = intMant x) :
    Gen.Facts.Uint64 x.form.toNat x.neg x.exp (minPrec x) rv (decide (intMant x < 2 ^ 64)) = some (toUint64 x) := by
  unfold Gen.Facts.Uint64 toUint64
  cases hf : x.form
  · simp [Form.toNat, Decimal.Exact]
  · simp only [Form.toNat]
    cases hn : x.neg
    · by_cases h0 : x.exp ≤ 0
      · simp [h0, Decimal.Below]
      · by_cases h20 : x.exp ≤ 20
        · have hmp : (decide (minPrec x > (x.exp % 18446744073709551616).toNat)) = decide ((minPrec x : Int) > x.exp) := by
            congr 1
            apply propext
            omega
          by_cases hfit : intMant x < 2 ^ 64
          · have htv := ht hfit
            subst htv
            by_cases hm : (minPrec x : Int) > x.exp <;> simp [h0, h20, hfit, hmp, hm, Decimal.Exact, Decimal.Below]
          · by_cases hm : (minPrec x : Int) > x.exp <;> simp [h0, h20, hfit, hmp, hm, Decimal.Exact, Decimal.Below]
        · simp [h0, h20, Decimal.Below]
    · simp [Decimal.Above]
  · cases hn : x.neg <;> simp [Form.toNat, Decimal.Above, Decimal.Below]

/-- `Abs`: `Set`, then the sign is cleared. -/
theorem abs_eq (z x : Dec) (same : Bool) :
    Decimal.abs z x same =
      { Decimal.set z x same with neg := (Gen.Facts.Abs (Decimal.set z x same).neg z.neg).zNeg } := by
  simp [Gen.Facts.Abs, Decimal.abs]

/-! ### `SetInt64`, `SetUint64`, `NewDecimal`: what is handed to `setBits64` -/

/-- `SetInt64(x)` calls `z.setBits64(x < 0, |x|, 0)` for every int64 `x`, `math.MinInt64` included (where `-u`
    wraps to itself and `uint64(u)` is 2^63). -/
theorem setInt64_args (x : Int) (h1 : -9223372036854775808 ≤ x) (h2 : x ≤ 9223372036854775807) :
    Gen.Facts.SetInt64 x =
      { outcome := 0, tail := 1, args := [if x < 0 then 1 else 0, (x.natAbs : Int), 0] } := by
  unfold Gen.Facts.SetInt64 Gen.Facts.wrapI64
  by_cases hx : x < 0
  · simp [hx]; omega
  · simp [hx]; omega

theorem setUint64_args (x : Nat) :
    Gen.Facts.SetUint64 x = { outcome := 0, tail := 1, args := [0, (x : Int), 0] } := by
  simp [Gen.Facts.SetUint64]

/-- `NewDecimal(x, exp)` calls `new(Decimal).setBits64(x < 0, |x|, int64(exp))`: with `setBits64_eq` (CGen) this is the
    model's `newDecimal`. -/
theorem newDecimal_args (x e : Int) (h1 : -9223372036854775808 ≤ x) (h2 : x ≤ 9223372036854775807) :
    Gen.Facts.NewDecimal x e =
      { outcome := 0, tail := 1, args := [if x < 0 then 1 else 0, (x.natAbs : Int), e] } := by
  unfold Gen.Facts.NewDecimal Gen.Facts.wrapI64
  by_cases hx : x < 0
  · simp [hx]; omega
  · simp [hx]; omega

end Decimal.GenConv
