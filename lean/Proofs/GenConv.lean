/-
  The saturating conversions `Int64`, `Uint64` and `Abs` of decimal.go, REGENERATED from the source
  (`DecimalModel/Gen/Facts.lean`), tied to the model (`DecimalModel/Arith.lean`) for all arguments.
  `x.MinPrec()` and the pair returned by `x.intMant().toUint64()` are parameters of the generated functions;
  the theorems instantiate them with the model's `minPrec x` and `intMant x` (value, "fits in 64 bits").
-/
import DecimalModel.Gen.Facts
import DecimalModel.Arith
import DecimalModel.Sqrt
import Proofs.GenFacts

namespace Decimal.GenConv

open Decimal Decimal.GenFacts

theorem and_top_bit (t : Nat) (ht : t < 18446744073709551616) :
    (t &&& 9223372036854775808 = 0) ↔ t < 9223372036854775808 := by
  have h : (9223372036854775808 : Nat) = 2 ^ 63 := by decide
  rw [h]
  have hb : t.testBit 63 = decide (t / 2 ^ 63 % 2 = 1) := Nat.testBit_eq_decide_div_mod_eq
  constructor
  · intro h0
    have h1 : (t &&& 2 ^ 63).testBit 63 = false := by rw [h0]; exact Nat.zero_testBit 63
    rw [Nat.testBit_and, Nat.testBit_two_pow_self, Bool.and_true, hb] at h1
    have h2 : ¬ (t / 2 ^ 63 % 2 = 1) := by simpa using h1
    omega
  · intro hlt
    apply Nat.eq_of_testBit_eq
    intro i
    rw [Nat.testBit_and, Nat.zero_testBit]
    by_cases hi : 63 = i
    · subst hi
      rw [Nat.testBit_lt_two_pow hlt, Bool.false_and]
    · rw [Nat.testBit_two_pow_of_ne hi, Bool.and_false]

/-- `Int64`: every branch, saturation and accuracy. -/
theorem int64_eq (x : Dec) (tv : Nat) (hexp : -2147483648 ≤ x.exp ∧ x.exp ≤ 2147483647)
    (ht : intMant x < 2 ^ 64 → tv = intMant x) :
    Gen.Facts.Int64 x.form.toNat x.neg x.exp (minPrec x) tv (decide (intMant x < 2 ^ 64)) = some (toInt64 x) := by
  unfold Gen.Facts.Int64 toInt64
  cases hf : x.form
  · simp [Form.toNat, Decimal.Exact]
  · simp only [Form.toNat]
    by_cases h0 : x.exp ≤ 0
    · simp [h0, makeAcc_eq]
    · by_cases h20 : x.exp ≤ 20
      · by_cases hfit : intMant x < 2 ^ 64
        · have htv := ht hfit
          subst htv
          have hfit' : intMant x < 18446744073709551616 := by simpa using hfit
          have hmp : (decide (minPrec x ≤ (x.exp % 18446744073709551616).toNat)) = decide ((minPrec x : Int) ≤ x.exp) := by
            congr 1
            apply propext
            omega
          have hw : Gen.Facts.wrapI64 ((intMant x : Nat) : Int) =
              if intMant x < 9223372036854775808 then (intMant x : Int) else (intMant x : Int) - 18446744073709551616 := by
            unfold Gen.Facts.wrapI64
            split <;> omega
          have hb := and_top_bit (intMant x) hfit'
          by_cases h63 : intMant x < 9223372036854775808
          · have hb' : intMant x &&& 9223372036854775808 = 0 := hb.mpr h63
            have hw' : Gen.Facts.wrapI64 (-(intMant x : Int)) = -(intMant x : Int) := by
              unfold Gen.Facts.wrapI64; omega
            cases hn : x.neg <;> by_cases hm : (minPrec x : Int) ≤ x.exp <;>
              simp [Int.ofNat_eq_natCast, h0, h20, hfit, hmp, hw, h63, hb', hw', hm, makeAcc_eq, Decimal.Exact, Decimal.Above, Decimal.Below]
          · have hb' : ¬ (intMant x &&& 9223372036854775808 = 0) := fun h => h63 (hb.mp h)
            by_cases heq : intMant x = 9223372036854775808
            · have hw1 : Gen.Facts.wrapI64 9223372036854775808 = -9223372036854775808 := by decide
              have hw2 : Gen.Facts.wrapI64 (- -9223372036854775808) = -9223372036854775808 := by decide
              rw [heq] at hb'
              cases hn : x.neg <;> by_cases hm : (minPrec x : Int) ≤ x.exp <;>
                simp [Int.ofNat_eq_natCast, h0, h20, hfit, hmp, hb', hm, heq, hw1, hw2, makeAcc_eq, Decimal.Exact, Decimal.Above, Decimal.Below]
            · cases hn : x.neg <;> by_cases hm : (minPrec x : Int) ≤ x.exp <;>
                simp [Int.ofNat_eq_natCast, h0, h20, hfit, hmp, hw, h63, hb', hm, heq, makeAcc_eq, Decimal.Exact, Decimal.Above, Decimal.Below]
        · cases hn : x.neg <;> simp [h0, h20, hfit, Decimal.Above, Decimal.Below]
      · cases hn : x.neg <;> simp [h0, h20, Decimal.Above, Decimal.Below]
  · cases hn : x.neg <;> simp [Form.toNat, Decimal.Above, Decimal.Below]

/-- `Uint64`. -/
theorem uint64_eq (x : Dec) (rv : Nat) (hexp : -2147483648 ≤ x.exp ∧ x.exp ≤ 2147483647)
    (ht : intMant x < 2 ^ 64 → rv = intMant x) :
    Gen.Facts.Uint64 x.form.toNat x.neg x.exp (minPrec x) rv (decide (intMant x < 2 ^ 64)) = some (toUint64 x) := by
  unfold Gen.Facts.Uint64 toUint64
  cases hf : x.form
  · simp [Form.toNat, Decimal.Exact]
  · simp only [Form.toNat]
    cases hn : x.neg
    · by_cases h0 : x.exp ≤ 0
      · simp [h0, Decimal.Below]
      · by_cases h20 : x.exp ≤ 20
        · have hmp : (decide (minPrec x > (x.exp % 18446744073709551616).toNat)) = decide ((minPrec x : Int) > x.exp) := by
            congr 1
            apply propext
            omega
          by_cases hfit : intMant x < 2 ^ 64
          · have htv := ht hfit
            subst htv
            by_cases hm : (minPrec x : Int) > x.exp <;> simp [h0, h20, hfit, hmp, hm, Decimal.Exact, Decimal.Below]
          · by_cases hm : (minPrec x : Int) > x.exp <;> simp [h0, h20, hfit, hmp, hm, Decimal.Exact, Decimal.Below]
        · simp [h0, h20, Decimal.Below]
    · simp [Decimal.Above]
  · cases hn : x.neg <;> simp [Form.toNat, Decimal.Above, Decimal.Below]

/-- `Abs`: `Set`, then the sign is cleared. -/
theorem abs_eq (z x : Dec) (same : Bool) :
    Decimal.abs z x same =
      { Decimal.set z x same with neg := (Gen.Facts.Abs (Decimal.set z x same).neg z.neg).zNeg } := by
  simp [Gen.Facts.Abs, Decimal.abs]

/-! ### `SetInt64`, `SetUint64`, `NewDecimal`: what is handed to `setBits64` -/

/-- `SetInt64(x)` calls `z.setBits64(x < 0, |x|, 0)` for every int64 `x`, `math.MinInt64` included (where `-u`
    wraps to itself and `uint64(u)` is 2^63). -/
theorem setInt64_args (x : Int) (h1 : -9223372036854775808 ≤ x) (h2 : x ≤ 9223372036854775807) :
    Gen.Facts.SetInt64 x =
      { outcome := 0, tail := 1, args := [if x < 0 then 1 else 0, (x.natAbs : Int), 0] } := by
  unfold Gen.Facts.SetInt64 Gen.Facts.wrapI64
  by_cases hx : x < 0
  · simp [hx]; omega
  · simp [hx]; omega

theorem setUint64_args (x : Nat) :
    Gen.Facts.SetUint64 x = { outcome := 0, tail := 1, args := [0, (x : Int), 0] } := by
  simp [Gen.Facts.SetUint64]

/-- `NewDecimal(x, exp)` calls `new(Decimal).setBits64(x < 0, |x|, int64(exp))`: with `setBits64_eq` (CGen) this is the
    model's `newDecimal`. -/
theorem newDecimal_args (x e : Int) (h1 : -9223372036854775808 ≤ x) (h2 : x ≤ 9223372036854775807) :
    Gen.Facts.NewDecimal x e =
      { outcome := 0, tail := 1, args := [if x < 0 then 1 else 0, (x.natAbs : Int), e] } := by
  unfold Gen.Facts.NewDecimal Gen.Facts.wrapI64
  by_cases hx : x < 0
  · simp [hx]; omega
  · simp [hx]; omega

/-! ### `Sqrt`: prologue, NaN, special values, the exponent parity and halving around `sqrtInverse` -/

/-- The generated `Sqrt`, with `x.MantExp(z)` instantiated by what it does (value `x.exp`; the receiver gets x's
    attributes and exponent 0): for a negative non-zero operand the ErrNaN panic, for ±0 / +Inf the early return — both
    with exactly the model's receiver — and for a finite positive operand: the receiver's precision and mode are
    those of the prologue (restored after MantExp), the exponent handed to `sqrtInverse` is `goMod2 x.exp` (0, 1, −1 by
    the parity of the exponent), and `SetMantExp` re-attaches `goDiv2 x.exp`. -/
theorem sqrt_eq (z x : Dec) (hexp : -2147483648 ≤ x.exp ∧ x.exp ≤ 2147483647) :
    let g := Gen.Facts.Sqrt x.form.toNat x.neg x.prec x.exp x.prec x.mode.toNat x.acc x.form.toNat x.neg 0
      z.prec z.mode.toNat z.acc z.form.toNat z.neg z.exp
    let z1 : Dec := { z with prec := g.zPrec, acc := g.zAcc, form := formOf g.zForm, neg := g.zNeg }
    (¬ (x.form = .finite ∧ x.neg = false) → g.tail = 0 ∧ Decimal.sqrt z x false = (z1, outcomeOf g.outcome)) ∧
    (x.form = .finite ∧ x.neg = false →
      g.tail = 3 ∧ g.outcome = 0 ∧ g.zPrec = (if z.prec = 0 then x.prec else z.prec) ∧ modeOf g.zMode = z.mode ∧
      g.zExp = goMod2 x.exp ∧ g.arg = goDiv2 x.exp) := by
  obtain ⟨h1, h2⟩ := hexp
  unfold Gen.Facts.Sqrt Gen.Facts.Sign Decimal.sqrt Decimal.opnd goMod2 goDiv2
  have hw : ∀ e : Int, -1 ≤ e → e ≤ 1 → Gen.Facts.wrapI32 e = e := by
    intro e a b; unfold Gen.Facts.wrapI32; omega
  -- Go's truncated division and remainder by 2, in terms omega understands
  have key : ∃ q r : Int, Int.tdiv x.exp 2 = q ∧ Int.tmod x.exp 2 = r ∧ x.exp = 2 * q + r ∧
      (r = 0 ∨ r = 1 ∨ r = -1) ∧ -2147483648 ≤ q ∧ q ≤ 2147483647 := by
    by_cases hnn : 0 ≤ x.exp
    · refine ⟨x.exp / 2, x.exp % 2, Int.tdiv_eq_ediv_of_nonneg hnn, Int.tmod_eq_emod_of_nonneg hnn, ?_, ?_, ?_, ?_⟩ <;> omega
    · have hp : 0 ≤ -x.exp := by omega
      have e1 : Int.tdiv x.exp 2 = -((-x.exp) / 2) := by
        have := Int.neg_tdiv (-x.exp) 2
        rw [Int.neg_neg] at this
        rw [this, Int.tdiv_eq_ediv_of_nonneg hp]
      have e2 : Int.tmod x.exp 2 = -((-x.exp) % 2) := by
        have := Int.neg_tmod (-x.exp) 2
        rw [Int.neg_neg] at this
        rw [this, Int.tmod_eq_emod_of_nonneg hp]
      refine ⟨-((-x.exp) / 2), -((-x.exp) % 2), e1, e2, ?_, ?_, ?_, ?_⟩ <;> omega
  obtain ⟨q, r, hq, hr, hqr, hr3, hq1, hq2⟩ := key
  have hd : Gen.Facts.wrapI64 (Int.tdiv x.exp 2) = Int.tdiv x.exp 2 := by
    rw [hq]; unfold Gen.Facts.wrapI64; omega
  refine ⟨?_, ?_⟩
  · intro hne
    cases hf : x.form <;> cases hn : x.neg <;> by_cases h0 : z.prec = 0 <;>
      simp_all [outcomeOf, Decimal.Exact]
  · rintro ⟨hf, hn⟩
    have hm : Int.tmod x.exp 2 = 0 ∨ Int.tmod x.exp 2 = 1 ∨ Int.tmod x.exp 2 = -1 := by rw [hr]; exact hr3
    by_cases h0 : z.prec = 0 <;> rcases hm with hm | hm | hm <;>
      (simp [hf, hn, h0, hm, hd, hw]; rw [hr] at hm; rw [hq]; omega)

/-! ### `MinPrec` -/

/-- `MinPrec` in wrapping uint arithmetic is the model's `minPrec` (a number has no more trailing zeros than digits). -/
theorem minPrec_eq (x : Dec) (hlen : x.len < 1099511627776) (htz : trailingZeros x.mant ≤ x.len * 19) :
    Gen.Facts.MinPrec x.form.toNat x.len (trailingZeros x.mant) = minPrec x := by
  have harith : ((((Int.toNat ((x.len : Int) % 18446744073709551616)) * 19) % 18446744073709551616) + 18446744073709551616
      - trailingZeros x.mant) % 18446744073709551616 = x.len * 19 - trailingZeros x.mant := by omega
  unfold Gen.Facts.MinPrec minPrec DW
  rw [harith]
  cases hf : x.form <;> rfl

end Decimal.GenConv
