/-
  Kernel-evaluated chunks of the range check `chkA` (Proofs/RadixEst.lean): 17 × 2^14 arguments.
  Generated text; each chunk is one `decide +kernel` (a separate kernel evaluation keeps memory flat).
-/
import Proofs.RadixEst
import Proofs.Basic

set_option linter.unusedVariables false
namespace Decimal.L0
open Decimal Decimal.Gen

theorem chkA_c0 : allRange chkA 14 0 = true := by decide +kernel
theorem chkA_c1 : allRange chkA 14 16384 = true := by decide +kernel
theorem chkA_c2 : allRange chkA 14 32768 = true := by decide +kernel
theorem chkA_c3 : allRange chkA 14 49152 = true := by decide +kernel
theorem chkA_c4 : allRange chkA 14 65536 = true := by decide +kernel
theorem chkA_c5 : allRange chkA 14 81920 = true := by decide +kernel
theorem chkA_c6 : allRange chkA 14 98304 = true := by decide +kernel
theorem chkA_c7 : allRange chkA 14 114688 = true := by decide +kernel
theorem chkA_c8 : allRange chkA 14 131072 = true := by decide +kernel
theorem chkA_c9 : allRange chkA 14 147456 = true := by decide +kernel
theorem chkA_c10 : allRange chkA 14 163840 = true := by decide +kernel
theorem chkA_c11 : allRange chkA 14 180224 = true := by decide +kernel
theorem chkA_c12 : allRange chkA 14 196608 = true := by decide +kernel
theorem chkA_c13 : allRange chkA 14 212992 = true := by decide +kernel
theorem chkA_c14 : allRange chkA 14 229376 = true := by decide +kernel
theorem chkA_c15 : allRange chkA 14 245760 = true := by decide +kernel
theorem chkA_c16 : allRange chkA 14 262144 = true := by decide +kernel

theorem chkA_chunk (j : Nat) (h : allRange chkA 14 (j * 16384) = true) (k : Nat) (hk : k / 16384 = j) :
    chkA k = true := by
  apply allRange_spec chkA 14 (j * 16384) h k
  · omega
  · have : (2 : Nat) ^ 14 = 16384 := by norm_num
    omega

theorem chkA_all (k : Nat) (hk : k < 278528) : chkA k = true := by
  have hlt : k / 16384 < 17 := by omega
  generalize hj : k / 16384 = j at hlt
  interval_cases j
  · exact chkA_chunk 0 chkA_c0 k hj
  · exact chkA_chunk 1 chkA_c1 k hj
  · exact chkA_chunk 2 chkA_c2 k hj
  · exact chkA_chunk 3 chkA_c3 k hj
  · exact chkA_chunk 4 chkA_c4 k hj
  · exact chkA_chunk 5 chkA_c5 k hj
  · exact chkA_chunk 6 chkA_c6 k hj
  · exact chkA_chunk 7 chkA_c7 k hj
  · exact chkA_chunk 8 chkA_c8 k hj
  · exact chkA_chunk 9 chkA_c9 k hj
  · exact chkA_chunk 10 chkA_c10 k hj
  · exact chkA_chunk 11 chkA_c11 k hj
  · exact chkA_chunk 12 chkA_c12 k hj
  · exact chkA_chunk 13 chkA_c13 k hj
  · exact chkA_chunk 14 chkA_c14 k hj
  · exact chkA_chunk 15 chkA_c15 k hj
  · exact chkA_chunk 16 chkA_c16 k hj

/-- THE ESTIMATE OF `SetInt` SUFFICES for every bit length up to 2^24 (integers up to 2 MiB,
    5 050 445 decimal digits): a destination of `setIntWords bits` words holds every value below
    `2^bits`. -/
theorem setIntWords_suffices (bits : Nat) (h : bits ≤ 16777216) : 2 ^ bits ≤ B ^ setIntWords bits := by
  rw [B_pow]
  by_cases hn : setIntWords bits < 278528
  · exact chkA_use bits (chkA_all _ hn)
  · have h1 : 1838395 * bits ≤ (19 * setIntWords bits) * 6107016 := by omega
    exact pow_le_pow_of_cert 2 10 1838395 6107016 _ _ cert_2_10 (by norm_num) (by norm_num) h1

end Decimal.L0
