/-
  Value layer for the literal model of `sqrtInverse` (DecimalModel/SqrtLit.lean).

    1. `qval m i = m × 10^i` over ℚ, `magVal x` = the magnitude of a finite Decimal; cross-multiplied
       natural-number forms (`qval_lt_iff`, `qval_le_iff`, `qval_eq_iff`);
    2. `roundInt` depends on `(M, k)` only through `qval M k` (no sticky flag);
    3. `ucmp` / `cmp` on finite canonical Decimals is the order of `magVal`;
    4. `agrees z r` gives `magVal z`; exact results of `setNormAndRound` (`snr_exact`);
    5. padding-insensitive equality of states `DecEquiv` (the driver's `sameState`), and `round`,
       `setExpAndRound`, `setMantExp` respect it.
-/
import Proofs.ArithOps
import Proofs.CanonInv
import Proofs.Sqrt
import DecimalModel.SqrtLit

namespace Decimal
open Spec

/-! ### 1. Values -/

/-- `m × 10^i`. -/
def qval (m : Nat) (i : Int) : ℚ := (m : ℚ) * (10 : ℚ) ^ i

/-- Magnitude of a finite Decimal. -/
def magVal (x : Dec) : ℚ := qval x.mant (intExp x)

theorem ten_zpow_pos (i : Int) : (0 : ℚ) < (10 : ℚ) ^ i := zpow_pos (by norm_num) i

theorem qval_nonneg (m : Nat) (i : Int) : 0 ≤ qval m i :=
  mul_nonneg (Nat.cast_nonneg m) (le_of_lt (ten_zpow_pos i))

theorem qval_pos {m : Nat} (h : 0 < m) (i : Int) : 0 < qval m i :=
  mul_pos (by exact_mod_cast h) (ten_zpow_pos i)

theorem qval_zero (i : Int) : qval 0 i = 0 := by simp [qval]

theorem qval_scale (m k : Nat) (i : Int) : qval (m * 10 ^ k) (i - k) = qval m i := by
  unfold qval
  have h10 : (10 : ℚ) ≠ 0 := by norm_num
  rw [zpow_sub₀ h10, zpow_natCast]
  push_cast
  field_simp

theorem qval_scale' (m k : Nat) (i j : Int) (h : j = i + k) : qval (m * 10 ^ k) i = qval m j := by
  rw [← qval_scale m k j]; congr 1; omega

theorem qval_add (a b : Nat) (i : Int) : qval (a + b) i = qval a i + qval b i := by
  unfold qval; push_cast; ring

theorem qval_sub {a b : Nat} (h : b ≤ a) (i : Int) : qval (a - b) i = qval a i - qval b i := by
  unfold qval; push_cast [h]; ring

theorem qval_mul (a b : Nat) (i j : Int) : qval (a * b) (i + j) = qval a i * qval b j := by
  unfold qval
  have h10 : (10 : ℚ) ≠ 0 := by norm_num
  rw [zpow_add₀ h10]; push_cast; ring

theorem qval_lt_iff (a b : Nat) (i j : Int) :
    qval a i < qval b j ↔ a * 10 ^ (i - j).toNat < b * 10 ^ (j - i).toNat := by
  have h10 : (10 : ℚ) ≠ 0 := by norm_num
  by_cases h : i ≤ j
  · have e1 : (i - j).toNat = 0 := by omega
    obtain ⟨d, hd⟩ : ∃ d : Nat, j = i + d := ⟨(j - i).toNat, by omega⟩
    have e2 : (j - i).toNat = d := by omega
    rw [e1, e2, Nat.pow_zero, Nat.mul_one, ← qval_scale' b d i j hd]
    unfold qval
    rw [mul_lt_mul_iff_of_pos_right (ten_zpow_pos i)]
    exact_mod_cast Iff.rfl
  · have e1 : (j - i).toNat = 0 := by omega
    obtain ⟨d, hd⟩ : ∃ d : Nat, i = j + d := ⟨(i - j).toNat, by omega⟩
    have e2 : (i - j).toNat = d := by omega
    rw [e1, e2, Nat.pow_zero, Nat.mul_one, ← qval_scale' a d j i hd]
    unfold qval
    rw [mul_lt_mul_iff_of_pos_right (ten_zpow_pos j)]
    exact_mod_cast Iff.rfl

theorem qval_le_iff (a b : Nat) (i j : Int) :
    qval a i ≤ qval b j ↔ a * 10 ^ (i - j).toNat ≤ b * 10 ^ (j - i).toNat := by
  rw [← not_lt, qval_lt_iff, Nat.not_lt]

theorem qval_eq_iff (a b : Nat) (i j : Int) :
    qval a i = qval b j ↔ a * 10 ^ (i - j).toNat = b * 10 ^ (j - i).toNat := by
  rw [le_antisymm_iff, qval_le_iff, qval_le_iff, Nat.le_antisymm_iff]

/-- Bounds of a value from its number of digits. -/
theorem qval_bounds {m : Nat} (hm : 0 < m) (i : Int) :
    (10 : ℚ) ^ ((ndigits m : Int) + i - 1) ≤ qval m i ∧ qval m i < (10 : ℚ) ^ ((ndigits m : Int) + i) := by
  have h10 : (10 : ℚ) ≠ 0 := by norm_num
  obtain ⟨h1, h2⟩ := ndigits_cast_bounds hm
  have hd := ndigits_pos hm
  unfold qval
  constructor
  · have : ((ndigits m : Int) + i - 1) = ((ndigits m - 1 : Nat) : Int) + i := by omega
    rw [this, zpow_add₀ h10, zpow_natCast]
    exact mul_le_mul_of_nonneg_right h1 (le_of_lt (ten_zpow_pos i))
  · rw [zpow_add₀ h10, zpow_natCast]
    exact mul_lt_mul_of_pos_right h2 (ten_zpow_pos i)

theorem ten_zpow_le {a b : Int} (h : a ≤ b) : (10 : ℚ) ^ a ≤ (10 : ℚ) ^ b :=
  zpow_le_zpow_right₀ (by norm_num) h

theorem ten_zpow_lt {a b : Int} (h : a < b) : (10 : ℚ) ^ a < (10 : ℚ) ^ b :=
  zpow_lt_zpow_right₀ (by norm_num) h

/-! ### 2. `roundInt` sees the value only -/

theorem nat_of_qval_eq {M N : Nat} {k k' : Int} (h : qval M k = qval N k') (hk : k ≤ k') :
    M = N * 10 ^ (k' - k).toNat := by
  have := (qval_eq_iff M N k k').mp h
  have e1 : (k - k').toNat = 0 := by omega
  rwa [e1, Nat.pow_zero, Nat.mul_one] at this

theorem roundInt_congr_val (mode : Mode) (p : Nat) (neg : Bool) (M N : Nat) (k k' : Int)
    (hM : 0 < M) (hN : 0 < N) (h : qval M k = qval N k') :
    roundInt mode p neg M k false = roundInt mode p neg N k' false := by
  by_cases hk : k ≤ k'
  · have hMN := nat_of_qval_eq h hk
    obtain ⟨d, hd⟩ : ∃ d : Nat, (k' - k).toNat = d := ⟨_, rfl⟩
    rw [hd] at hMN
    have hk2 : k = k' - (d : Int) := by omega
    subst hMN hk2
    exact roundInt_scale mode p neg N k' false d hN (by intro h; cases h)
  · have hMN := nat_of_qval_eq h.symm (by omega : k' ≤ k)
    obtain ⟨d, hd⟩ : ∃ d : Nat, (k - k').toNat = d := ⟨_, rfl⟩
    rw [hd] at hMN
    have hk2 : k' = k - (d : Int) := by omega
    subst hMN hk2
    exact (roundInt_scale mode p neg M k false d hM (by intro h; cases h)).symm

/-! ### 3. Comparison -/

theorem magVal_alignL (x y : Dec) : qval (alignL x y) (min (intExp x) (intExp y)) = magVal x := by
  unfold alignL magVal
  apply qval_scale'
  omega

theorem magVal_pos {x : Dec} (h : FinCanon x) : 0 < magVal x := qval_pos h.mant_pos _

theorem alignL_lt_iff (x y : Dec) : alignL y x < alignL x y ↔ magVal y < magVal x := by
  rw [← magVal_alignL x y, ← magVal_alignL y x, min_comm (intExp y) (intExp x)]
  unfold qval
  rw [mul_lt_mul_iff_of_pos_right (ten_zpow_pos _)]
  exact_mod_cast Iff.rfl

theorem alignL_eq_iff (x y : Dec) : alignL x y = alignL y x ↔ magVal x = magVal y := by
  rw [← magVal_alignL x y, ← magVal_alignL y x, min_comm (intExp y) (intExp x)]
  unfold qval
  rw [mul_left_inj' (ne_of_gt (ten_zpow_pos _))]
  exact_mod_cast Iff.rfl

theorem ucmp_pos_iff_val {x y : Dec} (hx : FinCanon x) (hy : FinCanon y) :
    ucmp x y > 0 ↔ magVal y < magVal x := by
  rw [ucmp_pos_iff hx hy, alignL_lt_iff]

theorem ucmp_zero_iff_val {x y : Dec} (hx : FinCanon x) (hy : FinCanon y) :
    ucmp x y = 0 ↔ magVal x = magVal y := by
  rw [ucmp_zero_iff hx hy, alignL_eq_iff]

/-- `Cmp` of two positive finite canonical Decimals. -/
theorem cmp_pos_fin {x y : Dec} (hx : FinCanon x) (hy : FinCanon y) (nx : x.neg = false)
    (ny : y.neg = false) : cmp x y = ucmp x y := by
  simp [cmp, ord, hx.form_eq, hy.form_eq, nx, ny]

/-! ### 4. From `agrees` to values -/

theorem agrees_magVal {z : Dec} {r : SRes} (h : agrees z r = true) (hf : z.form = .finite) :
    magVal z = qval r.coef (r.exp - ndigits r.coef) := by
  rw [agrees_iff] at h
  obtain ⟨-, -, -, h4⟩ := h
  obtain ⟨he, hm⟩ := h4 hf
  unfold magVal
  rw [intExp_eq, he]
  rw [← qval_scale z.mant (ndigits r.coef - z.len * 19), hm]
  apply qval_scale'
  omega

/-- An exactly representable value written by `setNormAndRound`. -/
theorem snr_exact (z : Dec) (M N : Nat) (k k' : Int) (hM : 0 < M) (hN : 0 < N)
    (hv : qval M k = qval N k') (hp1 : 1 ≤ z.prec) (hp2 : z.prec ≤ MaxPrec) (hfit : ndigits N ≤ z.prec)
    (hmin : MinExp ≤ (ndigits N : Int) + k') (hmax : (ndigits N : Int) + k' ≤ MaxExp) :
    let z' := setNormAndRound z M k false
    FinCanon z' ∧ z'.neg = z.neg ∧ z'.acc = Exact ∧ z'.exp = (ndigits N : Int) + k' ∧
      z'.prec = z.prec ∧ z'.mode = z.mode ∧ magVal z' = qval N k' := by
  intro z'
  obtain ⟨hag, hprec, hmode, hneg⟩ := setNormAndRound_eq_roundInt z M k false hM hp1 (by intro h; cases h)
  rw [roundInt_congr_val z.mode z.prec z.neg M N k k' hM hN hv,
    roundInt_fit z.mode z.prec z.neg N k' hfit (by omega) (by omega)] at hag
  have hcan := setNormAndRound_canonical z M k false hM hp1 hp2
  have hag' := (agrees_iff _ _).mp hag
  obtain ⟨hf, hn, hacc, h4⟩ := hag'
  simp only at hf hn hacc h4
  obtain ⟨he, -⟩ := h4 hf
  obtain ⟨c1, c2, c3, c4, c5, -, -, -⟩ := hcan.fin hf
  refine ⟨⟨hf, c1, c2, c5, c3, c4⟩, hneg, hacc, he, hprec, hmode, ?_⟩
  rw [agrees_magVal hag hf]
  simp only
  have hnd : ndigits (N * 10 ^ (z.prec - ndigits N)) = z.prec := by
    rw [ndigits_mul_pow hN]; omega
  rw [hnd]
  apply qval_scale'
  omega

/-- Underflow of `setNormAndRound`. -/
theorem snr_form (z : Dec) (M : Nat) (k : Int) (sb : Bool) :
    let z' := setNormAndRound z M k sb
    (z'.form = .zero ∨ z'.form = .finite ∨ z'.form = .inf) := by
  intro z'
  cases z'.form <;> simp

/-! ### 5. The constants `one`, `three`, `oneHalf` -/

theorem nd_e18 (w : Nat) (h1 : 1 ≤ w) (h2 : w ≤ 9) : ndigits (w * 1000000000000000000) = 19 :=
  ndigits_unique (by norm_num; omega) (by norm_num; omega) (by omega)

theorem newDecimal_digit (w : Nat) (h1 : 1 ≤ w) (h2 : w ≤ 9) (e : Int) (he1 : -100 ≤ e) (he2 : e ≤ 100) :
    newDecimal (w : Int) e = ⟨.finite, false, w * 1000000000000000000, 1, e + 1, 34, .ToNearestEven, 0⟩ := by
  have hnd : ndigits w = 1 := ndigits_unique (by simpa using h1) (by norm_num; omega) (by omega)
  have hw : nwords w = 1 := by rw [nwords_def, hnd]
  have h0 : ¬ ((w : Int) < 0) := by omega
  have hz : ¬ (w = 0) := by omega
  have hs : dnormShift w 1 = 18 := by rw [dnormShift_def, hnd]
  simp only [newDecimal, setBits64, Int.natAbs_natCast, decide_eq_false h0, DefaultPrec, setNormAndRound, hw, hs,
    setExpAndRound, MinExp, MaxExp, DW_eq]
  simp [hz, round, DW_eq, Exact]
  have a1 : ¬ (e + 19 - 18 < -2147483648) := by omega
  have a2 : ¬ (2147483647 < e + 19 - 18) := by omega
  have a3 : e + 19 - 18 = e + 1 := by omega
  rw [if_neg a1, if_neg a2, a3]

theorem litOne_eq : litOne = ⟨.finite, false, 1000000000000000000, 1, 1, 34, .ToNearestEven, 0⟩ :=
  newDecimal_digit 1 (by omega) (by omega) 0 (by omega) (by omega)
theorem litThree_eq : litThree = ⟨.finite, false, 3000000000000000000, 1, 1, 34, .ToNearestEven, 0⟩ :=
  newDecimal_digit 3 (by omega) (by omega) 0 (by omega) (by omega)
theorem litOneHalf_eq : litOneHalf = ⟨.finite, false, 5000000000000000000, 1, 0, 34, .ToNearestEven, 0⟩ :=
  newDecimal_digit 5 (by omega) (by omega) (-1) (by omega) (by omega)

/-! ### 6. Floats of `p1` digits held in a Decimal; `sq.Mul(s, s).Cmp(x)` -/

/-- The operand of `sqrtInverse`: positive, finite, canonical, `0.01 ≤ x < 10`. -/
structure WorkX (x : Dec) : Prop where
  fin : FinCanon x
  neg : x.neg = false
  exp : x.exp = -1 ∨ x.exp = 0 ∨ x.exp = 1

theorem magVal_bounds {x : Dec} (h : FinCanon x) :
    (10 : ℚ) ^ (x.exp - 1) ≤ magVal x ∧ magVal x < (10 : ℚ) ^ x.exp := by
  have := qval_bounds h.mant_pos (intExp x)
  rw [h.nd, intExp_eq] at this
  have e1 : ((x.len * 19 : Nat) : Int) + (x.exp - ((x.len * 19 : Nat) : Int)) - 1 = x.exp - 1 := by omega
  have e2 : ((x.len * 19 : Nat) : Int) + (x.exp - ((x.len * 19 : Nat) : Int)) = x.exp := by omega
  rw [e1, e2] at this
  exact this

theorem WorkX.bounds {x : Dec} (h : WorkX x) : (10 : ℚ) ^ (-2 : Int) ≤ magVal x ∧ magVal x < (10 : ℚ) ^ (1 : Int) := by
  obtain ⟨h1, h2⟩ := magVal_bounds h.fin
  have := h.exp
  exact ⟨le_trans (ten_zpow_le (by omega)) h1, lt_of_lt_of_le h2 (ten_zpow_le (by omega))⟩

/-- `s` is a positive finite canonical Decimal of precision `p1`, mode ToZero, holding the
    `p1`-digit float `c × 10^(e − p1)` (`10^(p1−1) ≤ c < 10^p1`, so `s = 0.c × 10^e`). -/
structure Rep (p1 : Nat) (s : Dec) (c : Nat) (e : Int) : Prop where
  fin : FinCanon s
  neg : s.neg = false
  prec : s.prec = p1
  mode : s.mode = .ToZero
  exp : s.exp = e
  val : magVal s = qval c (e - p1)
  lo : 10 ^ (p1 - 1) ≤ c
  hi : c < 10 ^ p1

theorem Rep.cpos {p1 : Nat} {s : Dec} {c : Nat} {e : Int} (h : Rep p1 s c e) : 0 < c :=
  Nat.lt_of_lt_of_le (ten_pow_pos _) h.lo

theorem Rep.nd {p1 : Nat} {s : Dec} {c : Nat} {e : Int} (h : Rep p1 s c e) (_hp : 1 ≤ p1) : ndigits c = p1 :=
  ndigits_eq_of_coef h.lo h.hi

theorem Rep_of_exact {p1 : Nat} {z : Dec} {N : Nat} {k : Int} (hf : FinCanon z) (hn : z.neg = false)
    (hp : z.prec = p1) (hm : z.mode = .ToZero) (he : z.exp = (ndigits N : Int) + k)
    (hv : magVal z = qval N k) (hN : 0 < N) (hfit : ndigits N ≤ p1) :
    Rep p1 z (N * 10 ^ (p1 - ndigits N)) ((ndigits N : Int) + k) := by
  have hnd : ndigits (N * 10 ^ (p1 - ndigits N)) = p1 := by
    rw [ndigits_mul_pow hN]; omega
  have hpos : 0 < N * 10 ^ (p1 - ndigits N) := Nat.mul_pos hN (ten_pow_pos _)
  refine ⟨hf, hn, hp, hm, he, ?_, ?_, ?_⟩
  · rw [hv]; symm; apply qval_scale'; omega
  · have := pow_le_of_ndigits hpos; rwa [hnd] at this
  · have := ndigits_lt_pow (N * 10 ^ (p1 - ndigits N)); rwa [hnd] at this

/-! ### `sq.Mul(s, s)` and the comparison with `x` -/

theorem mul_sq_spec (sq s : Dec) (c : Nat) (i : Int) (hs : FinCanon s) (hc : 0 < c)
    (hv : magVal s = qval c i) (hP1 : 1 ≤ sq.prec) (hP2 : sq.prec ≤ MaxPrec)
    (hfit : ndigits (c * c) ≤ sq.prec) :
    (mul sq s s).2 = .ok ∧ (mul sq s s).1.prec = sq.prec ∧ (mul sq s s).1.mode = sq.mode ∧
      (mul sq s s).1.neg = false ∧
      (((mul sq s s).1.form = .zero ∧ (ndigits (c * c) : Int) + 2 * i < MinExp) ∨
       ((mul sq s s).1.form = .inf ∧ (ndigits (c * c) : Int) + 2 * i > MaxExp) ∨
       (FinCanon (mul sq s s).1 ∧ magVal (mul sq s s).1 = qval (c * c) (2 * i))) := by
  have hp0 : (sq.prec == 0) = false := by simp; omega
  have hmul : mul sq s s = (setNormAndRound { sq with neg := false } (s.mant * s.mant) (intExp s + intExp s) false, .ok) := by
    simp [mul, opnd, hp0, hs.form_eq, umul]
  have hM : 0 < s.mant * s.mant := Nat.mul_pos hs.mant_pos hs.mant_pos
  have hN : 0 < c * c := Nat.mul_pos hc hc
  have hval : qval (s.mant * s.mant) (intExp s + intExp s) = qval (c * c) (2 * i) := by
    rw [qval_mul, two_mul, qval_mul]
    unfold magVal at hv
    rw [hv]
  rw [hmul]
  simp only
  obtain ⟨hag, hprec, hmode, hneg⟩ := setNormAndRound_eq_roundInt { sq with neg := false } (s.mant * s.mant)
    (intExp s + intExp s) false hM hP1 (by intro h; cases h)
  simp only at hag hprec hmode hneg
  refine ⟨trivial, hprec, hmode, hneg, ?_⟩
  by_cases hmin : (ndigits (c * c) : Int) + 2 * i < MinExp
  · left
    refine ⟨?_, hmin⟩
    rw [roundInt_congr_val _ _ _ _ _ _ _ hM hN hval, roundInt_zero _ _ _ _ _ _ hmin, agrees_iff] at hag
    exact hag.1
  by_cases hmax : (ndigits (c * c) : Int) + 2 * i > MaxExp
  · right; left
    refine ⟨?_, hmax⟩
    rw [roundInt_congr_val _ _ _ _ _ _ _ hM hN hval, roundInt_inf _ _ _ _ _ _ hmax, agrees_iff] at hag
    exact hag.1
  · right; right
    have := snr_exact { sq with neg := false } (s.mant * s.mant) (c * c) (intExp s + intExp s) (2 * i) hM hN hval
      hP1 hP2 hfit (by omega) (by omega)
    exact ⟨this.1, this.2.2.2.2.2.2⟩

theorem cmp_sq_spec (sq s x : Dec) (c : Nat) (i : Int) (hx : WorkX x) (hs : FinCanon s)
    (hc : 0 < c) (hv : magVal s = qval c i) (hP1 : 1 ≤ sq.prec) (hP2 : sq.prec ≤ MaxPrec)
    (hfit : ndigits (c * c) ≤ sq.prec) :
    (cmp (mul sq s s).1 x > 0 ↔ magVal x < qval (c * c) (2 * i)) ∧
    (cmp (mul sq s s).1 x = 0 ↔ magVal x = qval (c * c) (2 * i)) := by
  obtain ⟨-, -, -, hneg, h⟩ := mul_sq_spec sq s c i hs hc hv hP1 hP2 hfit
  obtain ⟨hx1, hx2⟩ := hx.bounds
  have hN : 0 < c * c := Nat.mul_pos hc hc
  obtain ⟨hb1, hb2⟩ := qval_bounds hN (2 * i)
  rcases h with ⟨hf, hr⟩ | ⟨hf, hr⟩ | ⟨hf, hr⟩
  · -- s² underflows: it is below x
    have hcmp : cmp (mul sq s s).1 x = -1 := by
      simp [cmp, ord, hf, hx.fin.form_eq, hx.neg]
    have hlt : qval (c * c) (2 * i) < magVal x := by
      refine lt_of_lt_of_le hb2 (le_trans (ten_zpow_le ?_) hx1)
      have : MinExp = -2147483648 := rfl
      omega
    rw [hcmp]
    constructor
    · constructor
      · intro h; omega
      · intro h; exact absurd h (not_lt.mpr (le_of_lt hlt))
    · constructor
      · intro h; omega
      · intro h; rw [h] at hlt; exact absurd hlt (lt_irrefl _)
  · have hcmp : cmp (mul sq s s).1 x = 1 := by
      simp [cmp, ord, hf, hx.fin.form_eq, hx.neg, hneg]
    have hlt : magVal x < qval (c * c) (2 * i) := by
      refine lt_of_lt_of_le hx2 (le_trans (ten_zpow_le ?_) hb1)
      have : MaxExp = 2147483647 := rfl
      omega
    rw [hcmp]
    constructor
    · constructor
      · intro _; exact hlt
      · intro _; omega
    · constructor
      · intro h; omega
      · intro h; rw [h] at hlt; exact absurd hlt (lt_irrefl _)
  · rw [cmp_pos_fin hf hx.fin hneg hx.neg, ucmp_pos_iff_val hf hx.fin, ucmp_zero_iff_val hf hx.fin, hr]
    exact ⟨Iff.rfl, eq_comm⟩


/-! ### `ulp.SetMantExp(one, s.exp − s.prec)` -/

theorem setMantExp_digit (ulp : Dec) (w : Nat) (e0 k : Int)
    (hmin : MinExp ≤ e0 + k) (hmax : e0 + k ≤ MaxExp) :
    setMantExp ulp ⟨.finite, false, w * 1000000000000000000, 1, e0, 34, .ToNearestEven, 0⟩ k =
      ⟨.finite, false, w * 1000000000000000000, 1, e0 + k, 34, .ToNearestEven, 0⟩ := by
  have a1 : ¬ (e0 + k < MinExp) := by omega
  have a2 : ¬ (e0 + k > MaxExp) := by omega
  simp [setMantExp, copy, setExpAndRound, a1, a2, round, DW_eq, Exact]

theorem setMantExp_digit_under (ulp : Dec) (w : Nat) (e0 k : Int) (hmin : e0 + k < MinExp) :
    (setMantExp ulp ⟨.finite, false, w * 1000000000000000000, 1, e0, 34, .ToNearestEven, 0⟩ k).form = .zero := by
  simp [setMantExp, copy, setExpAndRound, hmin]

theorem finCanon_digit (w : Nat) (h1 : 1 ≤ w) (h2 : w ≤ 9) (e : Int) (hmin : MinExp ≤ e) (hmax : e ≤ MaxExp) :
    FinCanon ⟨.finite, false, w * 1000000000000000000, 1, e, 34, .ToNearestEven, 0⟩ :=
  ⟨rfl, Nat.one_pos, nd_e18 w h1 h2, by show 1 ≤ 34; omega, hmin, hmax⟩

theorem magVal_digit (w : Nat) (e : Int) :
    magVal ⟨.finite, false, w * 1000000000000000000, 1, e, 34, .ToNearestEven, 0⟩ = qval w (e - 1) := by
  unfold magVal
  rw [intExp_eq]
  have : (1000000000000000000 : Nat) = 10 ^ 18 := by norm_num
  rw [this]
  apply qval_scale'
  simp only
  omega

/-! ### `Sub` and `Add` of positive finite operands -/

theorem zeroSignFix_finite {z : Dec} (h : z.form = .finite) : zeroSignFix z = z := by
  simp [zeroSignFix, h]

theorem sub_self_pos (s y : Dec) (hs : FinCanon s) (hy : FinCanon y) (ns : s.neg = false)
    (ny : y.neg = false) (hgt : magVal y < magVal s) :
    sub s s y true false =
      (zeroSignFix (setNormAndRound s (alignL s y - alignL y s) (min (intExp s) (intExp y)) false), .ok) := by
  have hp0 : (s.prec == 0) = false := by have := hs.prec_pos; simp; omega
  have hu : ucmp s y > 0 := (ucmp_pos_iff_val hs hy).mpr hgt
  have hal : alignL y s < alignL s y := (alignL_lt_iff s y).mpr hgt
  have hne : ¬ (alignL s y - alignL y s = 0) := by omega
  have hsf := hs.form_eq
  obtain ⟨form, neg, mant, len, exp, prec, mode, acc⟩ := s
  simp only at ns hsf hp0
  subst ns hsf
  simp only [sub, opnd, hp0, Bool.false_eq_true, if_false, if_true, hy.form_eq, beq_self_eq_true,
    Bool.and_self, ny, bne_self_eq_false, hu]
  rw [usub_eq, if_neg hne]

theorem add_pos (u s y : Dec) (hu : u.prec ≠ 0) (hs : s.form = .finite) (hy : y.form = .finite)
    (ns : s.neg = false) (ny : y.neg = false) :
    add u s y =
      (zeroSignFix (setNormAndRound { u with neg := false } (alignL s y + alignL y s)
        (min (intExp s) (intExp y)) false), .ok) := by
  have hp0 : (u.prec == 0) = false := by simp; omega
  simp only [add, opnd, hp0, Bool.false_eq_true, if_false, if_true, hs, hy, beq_self_eq_true,
    Bool.and_self, ns, ny, uadd_eq]

theorem add_self_pos (s y : Dec) (hu : s.prec ≠ 0) (hs : s.form = .finite) (hy : y.form = .finite)
    (ns : s.neg = false) (ny : y.neg = false) :
    add s s y true false =
      (zeroSignFix (setNormAndRound s (alignL s y + alignL y s) (min (intExp s) (intExp y)) false), .ok) := by
  have hp0 : (s.prec == 0) = false := by simp; omega
  obtain ⟨form, neg, mant, len, exp, prec, mode, acc⟩ := s
  simp only at ns hs hp0
  subst ns hs
  simp only [add, opnd, hp0, Bool.false_eq_true, if_false, if_true, hy, beq_self_eq_true,
    Bool.and_self, ny, uadd_eq]


/-! ### 7. The steps of the correction loops -/

theorem litUlp_eq (ulp0 s : Dec) (hmin : MinExp ≤ 1 + (s.exp - s.prec)) (hmax : 1 + (s.exp - s.prec) ≤ MaxExp) :
    litUlp ulp0 s = ⟨.finite, false, 1 * 1000000000000000000, 1, 1 + (s.exp - s.prec), 34, .ToNearestEven, 0⟩ := by
  unfold litUlp
  rw [litOne_eq]
  exact setMantExp_digit ulp0 1 1 _ hmin hmax

theorem litUlp_under (ulp0 s : Dec) (hmin : 1 + (s.exp - s.prec) < MinExp) : (litUlp ulp0 s).form = .zero := by
  unfold litUlp
  rw [litOne_eq]
  exact setMantExp_digit_under ulp0 1 1 _ hmin

/-- The receiver of an exact `setNormAndRound` at precision `p1`, mode ToZero, holds the float. -/
theorem rep_after_snr {p1 : Nat} (z : Dec) (M N : Nat) (k k' : Int) (hM : 0 < M) (hN : 0 < N)
    (hv : qval M k = qval N k') (hzp : z.prec = p1) (hzm : z.mode = .ToZero) (hzn : z.neg = false)
    (hp1 : 1 ≤ p1) (hp2 : p1 ≤ MaxPrec) (hfit : ndigits N ≤ p1)
    (hmin : MinExp ≤ (ndigits N : Int) + k') (hmax : (ndigits N : Int) + k' ≤ MaxExp) :
    Rep p1 (setNormAndRound z M k false) (N * 10 ^ (p1 - ndigits N)) ((ndigits N : Int) + k') := by
  obtain ⟨h1, h2, -, h4, h5, h6, h7⟩ := snr_exact z M N k k' hM hN hv (by omega) (by omega) (by omega) hmin hmax
  exact Rep_of_exact h1 (by rw [h2, hzn]) (by rw [h5, hzp]) (by rw [h6, hzm]) h4 h7 hN hfit

theorem Rep.congr {p1 : Nat} {s : Dec} {c c' : Nat} {e e' : Int} (h : Rep p1 s c e) (hc : c = c') (he : e = e') :
    Rep p1 s c' e' := by subst hc he; exact h

/-- `s.Sub(s, ulp)`: the predecessor float (`p1 ≥ 2`). -/
theorem sub_ulp_rep {p1 : Nat} (s ulp0 : Dec) (c : Nat) (e : Int) (hR : Rep p1 s c e) (hp1 : 2 ≤ p1)
    (hpM : p1 ≤ MaxPrec) (he : MinExp + (p1 : Int) ≤ e) :
    (sub s s (litUlp ulp0 s) true false).2 = .ok ∧
    Rep p1 (sub s s (litUlp ulp0 s) true false).1
      (if 10 ^ (p1 - 1) < c then c - 1 else 10 ^ p1 - 10) (if 10 ^ (p1 - 1) < c then e else e - 1) := by
  have hemax := hR.fin.exp_le
  have hse := hR.exp
  have hsp := hR.prec
  have hMin : MinExp = -2147483648 := rfl
  have hMax : MaxExp = 2147483647 := rfl
  have hE : 1 + (s.exp - (s.prec : Int)) = 1 + e - p1 := by rw [hse, hsp]; omega
  have hulp := litUlp_eq ulp0 s (by omega) (by omega)
  rw [hE] at hulp
  have hyf : FinCanon (litUlp ulp0 s) := by
    rw [hulp]; exact finCanon_digit 1 (by omega) (by omega) _ (by omega) (by omega)
  have hyv : magVal (litUlp ulp0 s) = qval 1 (e - p1) := by
    rw [hulp, magVal_digit]; congr 1; omega
  have hyn : (litUlp ulp0 s).neg = false := by rw [hulp]
  have h10 : 10 ≤ 10 ^ (p1 - 1) := by
    calc 10 = 10 ^ 1 := by norm_num
      _ ≤ 10 ^ (p1 - 1) := Nat.pow_le_pow_right (by omega) (by omega)
  have hc10 : 10 ≤ c := le_trans h10 hR.lo
  have hgt : magVal (litUlp ulp0 s) < magVal s := by
    rw [hyv, hR.val]
    unfold qval
    apply mul_lt_mul_of_pos_right _ (ten_zpow_pos _)
    exact_mod_cast (by omega : 1 < c)
  rw [sub_self_pos s _ hR.fin hyf hR.neg hyn hgt]
  simp only
  have hal : alignL (litUlp ulp0 s) s < alignL s (litUlp ulp0 s) := (alignL_lt_iff _ _).mpr hgt
  have hM : 0 < alignL s (litUlp ulp0 s) - alignL (litUlp ulp0 s) s := by omega
  have hv : qval (alignL s (litUlp ulp0 s) - alignL (litUlp ulp0 s) s)
      (min (intExp s) (intExp (litUlp ulp0 s))) = qval (c - 1) (e - p1) := by
    rw [qval_sub (le_of_lt hal), magVal_alignL, min_comm, magVal_alignL, hR.val, hyv, qval_sub (by omega)]
  have hN : 0 < c - 1 := by omega
  have hfit : ndigits (c - 1) ≤ p1 := by
    rw [ndigits_le_iff]; have := hR.hi; omega
  have hndlo : p1 - 1 ≤ ndigits (c - 1) := by
    by_contra hcon
    have : ndigits (c - 1) ≤ p1 - 2 := by omega
    rw [ndigits_le_iff] at this
    have h2 : 10 ^ (p1 - 2) * 10 = 10 ^ (p1 - 1) := by
      rw [← Nat.pow_succ]; congr 1; omega
    have := hR.lo
    omega
  have hrep := rep_after_snr (p1 := p1) s _ (c - 1) _ (e - p1) hM hN hv hsp hR.mode hR.neg (by omega) hpM hfit
    (by omega) (by omega)
  have hfin : (setNormAndRound s (alignL s (litUlp ulp0 s) - alignL (litUlp ulp0 s) s)
      (min (intExp s) (intExp (litUlp ulp0 s))) false).form = .finite := hrep.fin.form_eq
  rw [zeroSignFix_finite hfin]
  refine ⟨trivial, ?_⟩
  by_cases hcl : 10 ^ (p1 - 1) < c
  · have hnd : ndigits (c - 1) = p1 := ndigits_eq_of_coef (by omega) (by have := hR.hi; omega)
    simp only [hcl, if_true]
    exact hrep.congr (by rw [hnd]; simp) (by rw [hnd]; omega)
  · have hceq : c = 10 ^ (p1 - 1) := by have := hR.lo; omega
    have hpp : 10 ^ p1 = 10 ^ (p1 - 1) * 10 := by rw [← Nat.pow_succ]; congr 1; omega
    have hnd : ndigits (c - 1) = p1 - 1 := by
      have : c - 1 < 10 ^ (p1 - 1) := by omega
      have := (ndigits_le_iff (c - 1) (p1 - 1)).mpr this
      omega
    simp only [hcl, if_false]
    refine hrep.congr ?_ (by rw [hnd]; omega)
    rw [hnd]
    have : p1 - (p1 - 1) = 1 := by omega
    rw [this, hceq, hpp]
    omega


/-- `z.Set(s)` for a receiver of the same precision: a copy. -/
theorem set_rep {p1 : Nat} (z s : Dec) (c : Nat) (e : Int) (hR : Rep p1 s c e) (hzp : z.prec = p1)
    (hzm : z.mode = .ToZero) (hp1 : 1 ≤ p1) : Rep p1 (set z s) c e := by
  have hp0 : (z.prec == 0) = false := by simp; omega
  have hlt : ¬ (z.prec < s.prec) := by rw [hzp, hR.prec]; omega
  have hset : set z s = { z with acc := Exact, form := s.form, neg := s.neg, exp := s.exp, mant := s.mant, len := s.len } := by
    simp [set, hR.fin.form_eq, hp0, hlt]
  obtain ⟨f1, f2, f3, f4, f5, f6⟩ := hR.fin
  rw [hset]
  exact ⟨⟨f1, f2, f3, by simp only; omega, f5, f6⟩, hR.neg, hzp, hzm, hR.exp, hR.val, hR.lo, hR.hi⟩

/-- `u.SetPrec(uint(s.prec)).SetMode(ToZero)`: only the attributes matter afterwards. -/
theorem setPrec_setMode_attr (u : Dec) (p1 : Nat) (hp1 : 1 ≤ p1) (hpM : p1 ≤ MaxPrec) :
    (setMode (setPrec u p1) .ToZero).prec = p1 ∧ (setMode (setPrec u p1) .ToZero).mode = .ToZero := by
  refine ⟨?_, rfl⟩
  rw [setMode_prec, setPrec_prec]
  have : ¬ (p1 = 0) := by omega
  have h2 : ¬ (p1 > MaxPrec) := by omega
  simp [this, h2]

/-- `u.Add(s, ulp)`: the successor float. -/
theorem add_ulp_rep {p1 : Nat} (u s ulp0 : Dec) (c : Nat) (e : Int) (hR : Rep p1 s c e) (hup : u.prec = p1)
    (hum : u.mode = .ToZero) (hp1 : 1 ≤ p1) (hpM : p1 ≤ MaxPrec) (hmin : MinExp + (p1 : Int) ≤ e + 1)
    (hmax : e < MaxExp) :
    (add u s (litUlp ulp0 s)).2 = .ok ∧
    Rep p1 (add u s (litUlp ulp0 s)).1
      (if c + 1 < 10 ^ p1 then c + 1 else 10 ^ (p1 - 1)) (if c + 1 < 10 ^ p1 then e else e + 1) := by
  have hse := hR.exp
  have hsp := hR.prec
  have hemin := hR.fin.exp_ge
  have hMin : MinExp = -2147483648 := rfl
  have hMax : MaxExp = 2147483647 := rfl
  have hE : 1 + (s.exp - (s.prec : Int)) = 1 + e - p1 := by rw [hse, hsp]; omega
  have hulp := litUlp_eq ulp0 s (by omega) (by omega)
  rw [hE] at hulp
  have hyf : FinCanon (litUlp ulp0 s) := by
    rw [hulp]; exact finCanon_digit 1 (by omega) (by omega) _ (by omega) (by omega)
  have hyv : magVal (litUlp ulp0 s) = qval 1 (e - p1) := by
    rw [hulp, magVal_digit]; congr 1; omega
  have hyn : (litUlp ulp0 s).neg = false := by rw [hulp]
  rw [add_pos u s _ (by omega) hR.fin.form_eq hyf.form_eq hR.neg hyn]
  simp only
  have hM : 0 < alignL s (litUlp ulp0 s) + alignL (litUlp ulp0 s) s :=
    Nat.add_pos_left (alignL_pos hR.fin _) _
  have hv : qval (alignL s (litUlp ulp0 s) + alignL (litUlp ulp0 s) s)
      (min (intExp s) (intExp (litUlp ulp0 s))) = qval (c + 1) (e - p1) := by
    rw [qval_add, magVal_alignL, min_comm, magVal_alignL, hR.val, hyv, qval_add]
  by_cases hcl : c + 1 < 10 ^ p1
  · have hnd : ndigits (c + 1) = p1 := ndigits_eq_of_coef (by have := hR.lo; omega) hcl
    have hrep := rep_after_snr (p1 := p1) { u with neg := false } _ (c + 1) _ (e - p1) hM (by omega) hv hup hum rfl
      hp1 hpM (by omega) (by omega) (by omega)
    rw [zeroSignFix_finite hrep.fin.form_eq]
    simp only [hcl, if_true]
    exact ⟨trivial, hrep.congr (by rw [hnd]; simp) (by rw [hnd]; omega)⟩
  · have hceq : c + 1 = 10 ^ p1 := by have := hR.hi; omega
    have hv' : qval (alignL s (litUlp ulp0 s) + alignL (litUlp ulp0 s) s)
        (min (intExp s) (intExp (litUlp ulp0 s))) = qval 1 e := by
      rw [hv, hceq]
      have := qval_scale' 1 p1 (e - p1) e (by omega)
      rw [Nat.one_mul] at this
      exact this
    have hrep := rep_after_snr (p1 := p1) { u with neg := false } _ 1 _ e hM (by omega) hv' hup hum rfl
      hp1 hpM (by rw [ndigits_one]; omega) (by rw [ndigits_one]; omega) (by rw [ndigits_one]; omega)
    rw [zeroSignFix_finite hrep.fin.form_eq]
    simp only [hcl, if_false]
    exact ⟨trivial, hrep.congr (by rw [ndigits_one, Nat.one_mul]) (by rw [ndigits_one]; omega)⟩

/-- `u.Add(s, ulp)` when `ulp` underflowed to zero: `u` is a copy of `s`. -/
theorem add_ulp_under {p1 : Nat} (u s ulp0 : Dec) (c : Nat) (e : Int) (hR : Rep p1 s c e) (hup : u.prec = p1)
    (hum : u.mode = .ToZero) (hp1 : 1 ≤ p1) (hmin : e + 1 < MinExp + (p1 : Int)) :
    (add u s (litUlp ulp0 s)).2 = .ok ∧ Rep p1 (add u s (litUlp ulp0 s)).1 c e := by
  have hE : 1 + (s.exp - (s.prec : Int)) < MinExp := by rw [hR.exp, hR.prec]; omega
  have hz := litUlp_under ulp0 s hE
  have hp0 : (u.prec == 0) = false := by simp; omega
  have : add u s (litUlp ulp0 s) = (set u s, .ok) := by
    simp [add, opnd, hp0, hR.fin.form_eq, hz]
  rw [this]
  exact ⟨rfl, set_rep u s c e hR hup hum hp1⟩


/-- `s` is a zero of precision `p1`, mode ToZero, whose stale exponent makes the first `ulp` of
    loop 2 a finite number with `ulp² ≤ 0.01` (`s.exp = 0` for the zero that `Mul` leaves in a fresh
    Decimal). -/
structure RepZ (p1 : Nat) (s : Dec) : Prop where
  form : s.form = .zero
  prec : s.prec = p1
  mode : s.mode = .ToZero
  expLo : MinExp + (p1 : Int) ≤ s.exp + 1
  expHi : s.exp + 1 < p1

theorem mul_zero_cmp (sq s x : Dec) (hs : s.form = .zero) (hx : WorkX x) (hP : 1 ≤ sq.prec) :
    (mul sq s s).2 = .ok ∧ (mul sq s s).1.prec = sq.prec ∧ (mul sq s s).1.mode = sq.mode ∧
      cmp (mul sq s s).1 x = -1 := by
  have hp0 : (sq.prec == 0) = false := by simp; omega
  have : mul sq s s = ({ sq with neg := false, acc := Exact, form := .zero }, .ok) := by
    simp [mul, opnd, hp0, hs]
  rw [this]
  refine ⟨rfl, rfl, rfl, ?_⟩
  simp [cmp, ord, hx.fin.form_eq, hx.neg]

/-- First pass of loop 2 from a zero: `u = ulp`. -/
theorem add_zero_rep {p1 : Nat} (u s ulp0 : Dec) (hZ : RepZ p1 s) (hup : u.prec = p1) (hum : u.mode = .ToZero)
    (hp1 : 1 ≤ p1) :
    (add u s (litUlp ulp0 s)).2 = .ok ∧
      Rep p1 (add u s (litUlp ulp0 s)).1 (10 ^ (p1 - 1)) (1 + s.exp - p1) := by
  have hMin : MinExp = -2147483648 := rfl
  have hMax : MaxExp = 2147483647 := rfl
  have hlo := hZ.expLo
  have hhi := hZ.expHi
  have hE : 1 + (s.exp - (s.prec : Int)) = 1 + s.exp - p1 := by rw [hZ.prec]; omega
  have hulp := litUlp_eq ulp0 s (by omega) (by omega)
  rw [hE] at hulp
  have hp0 : (u.prec == 0) = false := by simp; omega
  have hadd : add u s (litUlp ulp0 s) = (set u (litUlp ulp0 s), .ok) := by
    rw [hulp]
    simp [add, opnd, hp0, hZ.form]
  rw [hadd, hulp]
  refine ⟨rfl, ?_⟩
  -- `Set` rounds the one-word `ulp` to `p1` digits when `p1 < 34`: nothing changes
  have hround : round ⟨.finite, false, 1 * 1000000000000000000, 1, 1 + s.exp - p1, p1, .ToZero, Exact⟩ false
      = ⟨.finite, false, 1 * 1000000000000000000, 1, 1 + s.exp - p1, p1, .ToZero, Exact⟩ := by
    by_cases h19 : 19 ≤ p1
    · exact round_short _ _ _ _ _ _ _ _ (by omega)
    · apply round_fixed
      · omega
      · have hn : 1 * 19 - p1 = 19 - p1 := by omega
        rw [hn, Nat.one_mul]
        have : (1000000000000000000 : Nat) = 10 ^ (19 - p1) * 10 ^ (p1 - 1) := by
          rw [← Nat.pow_add]
          have : 19 - p1 + (p1 - 1) = 18 := by omega
          rw [this]
        rw [this]
        exact Nat.mul_mod_right _ _
  have hset : set u ⟨.finite, false, 1 * 1000000000000000000, 1, 1 + s.exp - p1, 34, .ToNearestEven, 0⟩
      = ⟨.finite, false, 1 * 1000000000000000000, 1, 1 + s.exp - p1, p1, .ToZero, Exact⟩ := by
    obtain ⟨uf, un, um, ul, ue, up, umo, ua⟩ := u
    simp only at hup hum hp0
    subst hup hum
    by_cases h34 : up < 34
    · simp only [set, Bool.false_eq_true, if_false, beq_self_eq_true, if_true, hp0, h34]
      exact hround
    · simp [set, hp0, h34, Exact]
  rw [hset]
  have hfc : FinCanon ⟨.finite, false, 1 * 1000000000000000000, 1, 1 + s.exp - p1, p1, .ToZero, Exact⟩ :=
    ⟨rfl, Nat.one_pos, nd_e18 1 (by omega) (by omega), hp1, by simp only; omega, by simp only; omega⟩
  refine ⟨hfc, rfl, rfl, rfl, rfl, ?_, Nat.le_refl _, Nat.pow_lt_pow_right (by omega) (by omega)⟩
  unfold magVal
  rw [intExp_eq]
  have h18 : (1000000000000000000 : Nat) = 10 ^ 18 := by norm_num
  rw [h18, Nat.one_mul]
  have h1 := qval_scale' 1 18 (1 + s.exp - (p1 : Int) - ((1 * 19 : Nat) : Int)) (s.exp - p1) (by omega)
  have h2 := qval_scale' 1 (p1 - 1) (1 + s.exp - (p1 : Int) - (p1 : Int)) (s.exp - p1) (by omega)
  rw [Nat.one_mul] at h1 h2
  simp only
  rw [h1, h2]

/-- The midpoint step on the final `s`: `s.SetPrec(s.prec+1).Add(s, ulp/2)` holds `s + ulp/2`
    exactly, with one more digit. -/
theorem midpoint_add_spec {p1 : Nat} (s ulp0 : Dec) (c : Nat) (e : Int) (hR : Rep p1 s c e) (hp1 : 1 ≤ p1)
    (hpM : p1 + 1 ≤ MaxPrec) (hmin : MinExp + (p1 : Int) ≤ e) :
    let r := add (setPrec s (s.prec + 1)) (setPrec s (s.prec + 1))
      (setMantExp ulp0 litOneHalf (s.exp - (s.prec : Int))) true false
    r.2 = .ok ∧ FinCanon r.1 ∧ r.1.neg = false ∧ r.1.exp = e ∧ r.1.prec = p1 + 1 ∧
      magVal r.1 = qval (c * 10 + 5) (e - p1 - 1) := by
  intro r
  have hMin : MinExp = -2147483648 := rfl
  have hMax : MaxExp = 2147483647 := rfl
  have hemax := hR.fin.exp_le
  have hsp := hR.prec
  have hse := hR.exp
  obtain ⟨f1, f2, f3, f4, f5, f6⟩ := hR.fin
  -- s.SetPrec(p1 + 1)
  have hs1 : setPrec s (s.prec + 1) = { s with acc := Exact, prec := p1 + 1 } := by
    have a : ¬ (MaxPrec < p1 + 1) := by omega
    have b : ¬ (p1 + 1 < p1) := by omega
    simp [setPrec, a, b, hsp]
  have hs1f : FinCanon ({ s with acc := Exact, prec := p1 + 1 } : Dec) := ⟨f1, f2, f3, by simp only; omega, f5, f6⟩
  -- ulp/2
  have hh : setMantExp ulp0 litOneHalf (s.exp - (s.prec : Int)) =
      ⟨.finite, false, 5 * 1000000000000000000, 1, 0 + (e - p1), 34, .ToNearestEven, 0⟩ := by
    rw [litOneHalf_eq, hsp, hse]
    exact setMantExp_digit ulp0 5 0 _ (by omega) (by omega)
  have hyf : FinCanon (setMantExp ulp0 litOneHalf (s.exp - (s.prec : Int))) := by
    rw [hh]; exact finCanon_digit 5 (by omega) (by omega) _ (by omega) (by omega)
  have hyv : magVal (setMantExp ulp0 litOneHalf (s.exp - (s.prec : Int))) = qval 5 (e - p1 - 1) := by
    rw [hh, magVal_digit]; congr 1; omega
  have hyn : (setMantExp ulp0 litOneHalf (s.exp - (s.prec : Int))).neg = false := by rw [hh]
  have hr : r = add (setPrec s (s.prec + 1)) (setPrec s (s.prec + 1))
      (setMantExp ulp0 litOneHalf (s.exp - (s.prec : Int))) true false := rfl
  rw [hs1] at hr
  rw [add_self_pos ({ s with acc := Exact, prec := p1 + 1 } : Dec) _ (by simp only; omega) f1 hyf.form_eq hR.neg hyn] at hr
  generalize hy : setMantExp ulp0 litOneHalf (s.exp - (s.prec : Int)) = y at *
  generalize hs' : ({ s with acc := Exact, prec := p1 + 1 } : Dec) = s' at *
  have hs'v : magVal s' = qval c (e - p1) := by rw [← hs', ← hR.val]; rfl
  have hM : 0 < alignL s' y + alignL y s' := Nat.add_pos_left (alignL_pos hs1f _) _
  have hcs : qval c (e - p1) = qval (c * 10) (e - p1 - 1) := by
    have := qval_scale' c 1 (e - p1 - 1) (e - p1) (by omega)
    rw [Nat.pow_one] at this
    exact this.symm
  have hv : qval (alignL s' y + alignL y s') (min (intExp s') (intExp y)) = qval (c * 10 + 5) (e - p1 - 1) := by
    rw [qval_add, magVal_alignL, min_comm, magVal_alignL, hs'v, hyv, qval_add, hcs]
  have hnd : ndigits (c * 10 + 5) = p1 + 1 := by
    have := ndigits_midpoint (q := p1 - 1) (c := c) (by rw [hR.nd hp1]; omega)
    omega
  have hs'p : s'.prec = p1 + 1 := by rw [← hs']
  have hs'n : s'.neg = false := by rw [← hs']; exact hR.neg
  obtain ⟨h1, h2, -, h4, h5, -, h7⟩ := snr_exact s' _ (c * 10 + 5) _ (e - p1 - 1) hM (by omega) hv
    (by omega) (by omega) (by omega) (by omega) (by omega)
  rw [hr, zeroSignFix_finite h1.form_eq]
  exact ⟨rfl, h1, by rw [h2, hs'n], by rw [h4, hnd]; omega, by rw [h5, hs'p], h7⟩


end Decimal
