/-
  The number scanner (`DecimalModel/Parse.lean`) on structured input.

  1. the digit loops (`scanDigits`, `scanExpDigits`) on runs of decimal digit bytes;
  2. structured base-10 literals `Lit10` (`[sign] ip [. fp] [e [sign] digits]`), their rendering to
     bytes, their value, and what `scanMant` / `scanExponent` / `scanDec` / `parse` return on them.
-/
import Proofs.Basic
import DecimalModel.Parse

namespace Decimal

/-! ### bytes -/

theorem chr_dot : chr '.' = 46 := rfl
theorem chr_us : chr '_' = 95 := rfl
theorem chr_0 : chr '0' = 48 := rfl
theorem chr_9 : chr '9' = 57 := rfl
theorem chr_a : chr 'a' = 97 := rfl
theorem chr_z : chr 'z' = 122 := rfl
theorem chr_A : chr 'A' = 65 := rfl
theorem chr_Z : chr 'Z' = 90 := rfl
theorem chr_e : chr 'e' = 101 := rfl
theorem chr_E : chr 'E' = 69 := rfl
theorem chr_p : chr 'p' = 112 := rfl
theorem chr_P : chr 'P' = 80 := rfl
theorem chr_b : chr 'b' = 98 := rfl
theorem chr_B : chr 'B' = 66 := rfl
theorem chr_o : chr 'o' = 111 := rfl
theorem chr_O : chr 'O' = 79 := rfl
theorem chr_x : chr 'x' = 120 := rfl
theorem chr_X : chr 'X' = 88 := rfl
theorem chr_minus : chr '-' = 45 := rfl
theorem chr_plus : chr '+' = 43 := rfl

/-- Decimal digit values `0..9`. -/
def IsDigits (ds : List Nat) : Prop := ∀ d ∈ ds, d < 10

instance (ds : List Nat) : Decidable (IsDigits ds) := by unfold IsDigits; infer_instance

/-- The ASCII bytes of a list of digit values. -/
def bytesOf (ds : List Nat) : List Nat := ds.map (· + 48)

/-- Horner value of a digit list in base 10, most significant digit first. -/
def ofDigits (ds : List Nat) : Nat := ds.foldl (fun a d => a * 10 + d) 0

/-- A byte at which the base-`b` mantissa loop stops (when it is not a usable '.' or '_'). -/
def Stops (b : Nat) (ch : Nat) : Prop := digitVal ch ≥ b

/-! ### digit lists -/

theorem IsDigits_nil : IsDigits [] := by intro d h; cases h

theorem IsDigits_cons {d : Nat} {ds : List Nat} : IsDigits (d :: ds) ↔ d < 10 ∧ IsDigits ds := by
  simp [IsDigits]

theorem IsDigits_append {as bs : List Nat} : IsDigits (as ++ bs) ↔ IsDigits as ∧ IsDigits bs := by
  simp only [IsDigits, List.mem_append]
  constructor
  · intro h; exact ⟨fun d hd => h d (Or.inl hd), fun d hd => h d (Or.inr hd)⟩
  · rintro ⟨h1, h2⟩ d (hd | hd)
    · exact h1 d hd
    · exact h2 d hd

theorem bytesOf_nil : bytesOf [] = [] := rfl
theorem bytesOf_cons (d : Nat) (ds : List Nat) : bytesOf (d :: ds) = (d + 48) :: bytesOf ds := rfl
theorem bytesOf_append (as bs : List Nat) : bytesOf (as ++ bs) = bytesOf as ++ bytesOf bs := by
  simp [bytesOf]
theorem bytesOf_length (ds : List Nat) : (bytesOf ds).length = ds.length := by simp [bytesOf]

theorem foldl_horner (ds : List Nat) (a : Nat) :
    ds.foldl (fun a d => a * 10 + d) a = a * 10 ^ ds.length + ofDigits ds := by
  induction ds generalizing a with
  | nil => simp [ofDigits]
  | cons d ds ih =>
    rw [ofDigits, List.foldl_cons, List.foldl_cons, ih, ih (0 * 10 + d), List.length_cons, Nat.pow_succ]
    rw [Nat.zero_mul, Nat.zero_add, Nat.add_mul, Nat.add_assoc, Nat.mul_assoc, Nat.mul_comm 10]

theorem ofDigits_nil : ofDigits [] = 0 := rfl

theorem ofDigits_cons (d : Nat) (ds : List Nat) : ofDigits (d :: ds) = d * 10 ^ ds.length + ofDigits ds := by
  rw [ofDigits, List.foldl_cons, foldl_horner]; simp

theorem ofDigits_append (as bs : List Nat) :
    ofDigits (as ++ bs) = ofDigits as * 10 ^ bs.length + ofDigits bs := by
  rw [ofDigits, List.foldl_append, foldl_horner]; rfl

theorem ofDigits_lt (ds : List Nat) (h : IsDigits ds) : ofDigits ds < 10 ^ ds.length := by
  induction ds with
  | nil => simp [ofDigits]
  | cons d ds ih =>
    rw [IsDigits_cons] at h
    have := ih h.2
    rw [ofDigits_cons, List.length_cons, Nat.pow_succ]
    have h1 : d * 10 ^ ds.length ≤ 9 * 10 ^ ds.length := Nat.mul_le_mul_right _ (by omega)
    omega

/-! ### `digitVal` -/

theorem digitVal_digit {d : Nat} (h : d < 10) : digitVal (d + 48) = d := by
  unfold digitVal
  rw [chr_0, chr_9, if_pos (by omega)]; omega

theorem digitVal_e : digitVal 101 = 14 := by decide
theorem digitVal_dot : digitVal 46 = 63 := by decide
theorem digitVal_us : digitVal 95 = 63 := by decide

/-! ### the mantissa digit loop -/

theorem scanDigits_nil (b : Nat) (sep : Bool) (st : ScanSt) : scanDigits b sep [] st = (st, []) := rfl

/-- a stopping byte ends the loop and is handed back. -/
theorem scanDigits_stop (b : Nat) (sep : Bool) (ch : Nat) (rest : List Nat) (st : ScanSt)
    (hdot : ch = 46 → st.fracOk = false) (hus : ch = 95 → sep = false) (hd : digitVal ch ≥ b) :
    scanDigits b sep (ch :: rest) st = (st, ch :: rest) := by
  rw [scanDigits]
  have h1 : ¬ (ch = chr '.' ∧ st.fracOk = true) := by
    rintro ⟨h, h'⟩; rw [hdot h] at h'; cases h'
  have h2 : ¬ (ch = chr '_' ∧ sep = true) := by
    rintro ⟨h, h'⟩; rw [hus h] at h'; cases h'
  rw [if_neg h1, if_neg h2]
  simp only []
  rw [if_pos hd]

/-- one digit byte. -/
theorem scanDigits_digit (sep : Bool) (d : Nat) (hd : d < 10) (rest : List Nat) (st : ScanSt) :
    scanDigits 10 sep ((d + 48) :: rest) st =
      scanDigits 10 sep rest { st with prev := 48, count := st.count + 1, val := st.val * 10 + d } := by
  rw [scanDigits]
  have h1 : ¬ (d + 48 = chr '.' ∧ st.fracOk = true) := by rw [chr_dot]; omega
  have h2 : ¬ (d + 48 = chr '_' ∧ sep = true) := by rw [chr_us]; omega
  rw [if_neg h1, if_neg h2]
  simp only [digitVal_digit hd]
  rw [if_neg (by omega)]

/-- the decimal point, when still allowed. -/
theorem scanDigits_dot (b : Nat) (sep : Bool) (rest : List Nat) (st : ScanSt) (hf : st.fracOk = true) :
    scanDigits b sep (46 :: rest) st =
      scanDigits b sep rest { st with fracOk := false, invalSep := st.invalSep || st.prev == 95, prev := 46,
                                      dp := some st.count } := by
  rw [scanDigits, if_pos ⟨rfl, hf⟩]

/-- **Scanner arithmetic.** A run of decimal digit bytes is consumed entirely: the value is extended
    by the Horner value of the run, the count by its length, `prev` becomes '0'; `dp`, `fracOk`,
    `invalSep` are unchanged. -/
theorem scanDigits_bytes (sep : Bool) (ds : List Nat) (hd : IsDigits ds) (rest : List Nat) (st : ScanSt) :
    scanDigits 10 sep (bytesOf ds ++ rest) st =
      scanDigits 10 sep rest { st with prev := if ds = [] then st.prev else 48,
                                       count := st.count + ds.length,
                                       val := st.val * 10 ^ ds.length + ofDigits ds } := by
  induction ds generalizing st with
  | nil => simp [bytesOf, ofDigits]
  | cons d ds ih =>
    rw [IsDigits_cons] at hd
    rw [bytesOf_cons, List.cons_append, scanDigits_digit sep d hd.1, ih hd.2]
    congr 1
    simp only [ofDigits_cons, List.length_cons, Nat.pow_succ]
    cases st
    simp only [ScanSt.mk.injEq, true_and, and_true]
    refine ⟨?_, by omega, ?_⟩
    · rw [Nat.add_mul, Nat.mul_assoc, Nat.mul_comm 10, Nat.add_assoc]
    · split <;> simp

/-- … and with nothing after it: the final state. -/
theorem scanDigits_bytes_end (sep : Bool) (ds : List Nat) (hd : IsDigits ds) (st : ScanSt) :
    scanDigits 10 sep (bytesOf ds) st =
      ({ st with prev := if ds = [] then st.prev else 48, count := st.count + ds.length,
                 val := st.val * 10 ^ ds.length + ofDigits ds }, []) := by
  have := scanDigits_bytes sep ds hd [] st
  rwa [List.append_nil, scanDigits_nil] at this

/-! ### the exponent digit loop -/

theorem scanExpDigits_nil (sep : Bool) (st : Nat × Bool × Nat × Bool) : scanExpDigits sep [] st = (st, []) := rfl

theorem scanExpDigits_stop (sep : Bool) (ch : Nat) (rest : List Nat) (st : Nat × Bool × Nat × Bool)
    (hd : ¬ (48 ≤ ch ∧ ch ≤ 57)) (hus : ch = 95 → sep = false) :
    scanExpDigits sep (ch :: rest) st = (st, ch :: rest) := by
  obtain ⟨v, has, prev, inval⟩ := st
  rw [scanExpDigits, chr_0, chr_9, if_neg hd]
  have h2 : ¬ (ch = chr '_' ∧ sep = true) := by
    rintro ⟨h, h'⟩; rw [hus h] at h'; cases h'
  rw [if_neg h2]

theorem scanExpDigits_bytes (sep : Bool) (ds : List Nat) (hd : IsDigits ds) (rest : List Nat)
    (v : Nat) (has : Bool) (prev : Nat) (inval : Bool) :
    scanExpDigits sep (bytesOf ds ++ rest) (v, has, prev, inval) =
      scanExpDigits sep rest (v * 10 ^ ds.length + ofDigits ds, has || !ds.isEmpty,
                              (if ds = [] then prev else 48), inval) := by
  induction ds generalizing v has prev with
  | nil => simp [bytesOf, ofDigits]
  | cons d ds ih =>
    rw [IsDigits_cons] at hd
    rw [bytesOf_cons, List.cons_append, scanExpDigits, chr_0, chr_9, if_pos (by omega), ih hd.2]
    congr 1
    simp only [ofDigits_cons, List.length_cons, Nat.pow_succ, Nat.add_sub_cancel]
    refine Prod.ext ?_ (Prod.ext ?_ (Prod.ext ?_ rfl))
    · simp only []; rw [Nat.add_mul, Nat.mul_assoc, Nat.mul_comm 10, Nat.add_assoc]
    · simp
    · simp only []; split <;> simp

/-! ### structured literals -/

/-- A base-10 literal `[sign] ip [ '.' fp ] [ 'e' [sign] digits ]`; digit lists hold values `0..9`. -/
structure Lit10 where
  neg : Option Bool := none                       -- `some true` = '-', `some false` = '+'
  ip : List Nat := []
  fp : Option (List Nat) := none                  -- `some []` is a trailing '.'
  ex : Option (Option Bool × List Nat) := none    -- exponent: optional sign, digits
  deriving Repr

def signBytes : Option Bool → List Nat
  | none => []
  | some true => [45]
  | some false => [43]

def signVal : Option Bool → Bool
  | some true => true
  | _ => false

def renderMant (ip : List Nat) (fp : Option (List Nat)) : List Nat :=
  bytesOf ip ++ (match fp with | none => [] | some f => 46 :: bytesOf f)

def renderExp : Option (Option Bool × List Nat) → List Nat
  | none => []
  | some (sg, ds) => 101 :: (signBytes sg ++ bytesOf ds)

def Lit10.render (l : Lit10) : List Nat := signBytes l.neg ++ (renderMant l.ip l.fp ++ renderExp l.ex)

/-- fraction digits (`[]` when there is no '.'). -/
def Lit10.frac (l : Lit10) : List Nat := l.fp.getD []

/-- the signed exponent written after 'e' (0 when absent). -/
def expVal : Option (Option Bool × List Nat) → Int
  | none => 0
  | some (sg, ds) => if signVal sg then -(ofDigits ds : Int) else (ofDigits ds : Int)

/-- `strconv.ParseInt(·, 10, 64)` accepts the exponent. -/
def ExpOk : Option (Option Bool × List Nat) → Prop
  | none => True
  | some (sg, ds) => IsDigits ds ∧ ds ≠ [] ∧
      (if signVal sg then ofDigits ds ≤ 9223372036854775808 else ofDigits ds ≤ 9223372036854775807)

/-- Well-formed: digit values, at least one mantissa digit, a non-empty in-range exponent if any. -/
structure Lit10.WF (l : Lit10) : Prop where
  ip : IsDigits l.ip
  fp : IsDigits l.frac
  digits : l.ip ++ l.frac ≠ []
  ex : ExpOk l.ex

/-- The literal denotes `(-1)^sign × coef × 10^exp10`. -/
def Lit10.coef (l : Lit10) : Nat := ofDigits (l.ip ++ l.frac)
def Lit10.exp10 (l : Lit10) : Int := expVal l.ex - (l.frac.length : Int)
def Lit10.value (l : Lit10) : Nat × Int := (l.coef, l.exp10)
def Lit10.sign (l : Lit10) : Bool := signVal l.neg

/-! ### `scanMant` -/

/-- `scanMant` after the base prefix has been dealt with. -/
def scanMantCore (b : Nat) (sep : Bool) (s : List Nat) (st0 : ScanSt) :
    Except ScanErr (Nat × Nat × Int × List Nat) :=
  let (st, rest) := scanDigits b sep s st0
  if st.count = 0 then .error .noDigits
  else if st.invalSep || st.prev == 95 then .error .invalSep
  else
    let fcount : Int := match st.dp with
      | some dp => (dp : Int) - st.count
      | none => st.count
    .ok (st.val, b, fcount, rest)

theorem scanMant_base (base : Nat) (h : base ≠ 0) (s : List Nat) :
    scanMant base s = scanMantCore base false s {} := by
  unfold scanMant scanMantCore
  simp only [h, if_false, decide_false]
  rfl

/-- No `0b` / `0o` / `0x` (either case) at the start. -/
def NoBasePrefix (s : List Nat) : Prop :=
  ∀ c rest, s = 48 :: c :: rest → c ≠ 98 ∧ c ≠ 66 ∧ c ≠ 111 ∧ c ≠ 79 ∧ c ≠ 120 ∧ c ≠ 88

theorem scanMant_zero (s : List Nat) (h : NoBasePrefix s) :
    scanMant 0 s = scanMantCore 10 true s {} := by
  unfold scanMant scanMantCore
  simp only [if_true, decide_true]
  split
  · rename_i rest
    split
    · rename_i c rest2
      obtain ⟨h1, h2, h3, h4, h5, h6⟩ := h c rest2 rfl
      have := scanDigits_digit true 0 (by omega) (c :: rest2) {}
      simp only [Nat.zero_add] at this
      simp only [chr_b, chr_B, chr_o, chr_O, chr_x, chr_X, h1, h2, h3, h4, h5, h6, this, or_self, if_false]
      rfl
    · have := scanDigits_digit true 0 (by omega) [] {}
      simp only [Nat.zero_add] at this
      rw [this]
      rfl
  · rfl

/-- What may follow a base-10 mantissa: nothing, or a byte the digit loop stops at.
    `frac` = a '.' has already been consumed. -/
def MantEnd (sep frac : Bool) : List Nat → Prop
  | [] => True
  | ch :: _ => digitVal ch ≥ 10 ∧ (ch = 95 → sep = false) ∧ (ch = 46 → frac = true)

theorem scanDigits_end (sep : Bool) (rest : List Nat) (st : ScanSt)
    (h : MantEnd sep (!st.fracOk) rest) : scanDigits 10 sep rest st = (st, rest) := by
  cases rest with
  | nil => rfl
  | cons ch r =>
    obtain ⟨h1, h2, h3⟩ := h
    exact scanDigits_stop 10 sep ch r st (fun hc => by simpa using h3 hc) h2 h1

/-- fraction digit count as `dec.scan` reports it. -/
def fcountOf (ip : List Nat) (fp : Option (List Nat)) : Int :=
  match fp with
  | none => ip.length
  | some f => -(f.length : Int)

/-- The digit loop on a literal mantissa. -/
theorem scanDigits_mant (sep : Bool) (ip : List Nat) (fp : Option (List Nat)) (rest : List Nat)
    (hip : IsDigits ip) (hfp : IsDigits (fp.getD [])) (hend : MantEnd sep fp.isSome rest) :
    ∃ pv, pv ≠ 95 ∧
      scanDigits 10 sep (renderMant ip fp ++ rest) {} =
        ({ val := ofDigits (ip ++ fp.getD []), count := ip.length + (fp.getD []).length,
           dp := fp.map (fun _ => ip.length), fracOk := fp.isNone, prev := pv, invalSep := false }, rest) := by
  cases fp with
  | none =>
    refine ⟨if ip = [] then 46 else 48, by split <;> omega, ?_⟩
    simp only [renderMant, List.append_nil, Option.getD_none]
    rw [scanDigits_bytes sep ip hip, scanDigits_end]
    · simp
    · simpa using hend
  | some f =>
    refine ⟨if f = [] then 46 else 48, by split <;> omega, ?_⟩
    simp only [renderMant, Option.getD_some, List.append_assoc, List.cons_append]
    simp only [Option.getD_some] at hfp
    rw [scanDigits_bytes sep ip hip, scanDigits_dot _ _ _ _ rfl, scanDigits_bytes sep f hfp, scanDigits_end]
    · simp only [ofDigits_append, Nat.zero_mul, Nat.zero_add, Option.map_some, Option.isNone_some,
        Bool.false_or, Prod.mk.injEq, and_true, ScanSt.mk.injEq, true_and]
      split <;> simp
    · simpa using hend

theorem scanMantCore_mant (sep : Bool) (ip : List Nat) (fp : Option (List Nat)) (rest : List Nat)
    (hip : IsDigits ip) (hfp : IsDigits (fp.getD [])) (hne : ip ++ fp.getD [] ≠ [])
    (hend : MantEnd sep fp.isSome rest) :
    scanMantCore 10 sep (renderMant ip fp ++ rest) {} =
      .ok (ofDigits (ip ++ fp.getD []), 10, fcountOf ip fp, rest) := by
  obtain ⟨pv, hpv, h⟩ := scanDigits_mant sep ip fp rest hip hfp hend
  have hc : ip.length + (fp.getD []).length ≠ 0 := by
    intro h0
    apply hne
    rw [← List.length_eq_zero_iff, List.length_append]; exact h0
  unfold scanMantCore
  rw [h]
  simp only [hc, if_false, Bool.false_or, beq_iff_eq, hpv]
  cases fp with
  | none =>
    simp only [Option.getD_none, List.length_nil, Nat.add_zero] at hc ⊢
    simp [fcountOf]
  | some f => simp [fcountOf]; omega

/-! ### `scanExponent` -/

/-- `scanExponent` after the marker and the optional sign. -/
def scanExpTail (sepOk : Bool) (eb : Nat) (neg : Bool) (s : List Nat) : Except ScanErr (Int × Nat × List Nat) :=
  let ((v, has, prev, inval), rest) := scanExpDigits sepOk s (0, false, 46, false)
  if !has then .error .noDigits
  else if (!neg ∧ v > 9223372036854775807) ∨ (neg ∧ v > 9223372036854775808) then .error .expRange
  else if inval || prev == 95 then .error .invalSep
  else .ok ((if neg then -(v : Int) else v), eb, rest)

/-- The first byte is not a sign. -/
def NoSignHead : List Nat → Prop
  | [] => True
  | c :: _ => c ≠ 45 ∧ c ≠ 43

/-- The first byte is not an exponent marker. -/
def NoExpHead : List Nat → Prop
  | [] => True
  | c :: _ => c ≠ 101 ∧ c ≠ 69 ∧ c ≠ 112 ∧ c ≠ 80

theorem scanExponent_none (sepOk : Bool) (s : List Nat) (h : NoExpHead s) :
    scanExponent sepOk s = .ok (0, 10, s) := by
  cases s with
  | nil => rfl
  | cons c r =>
    obtain ⟨h1, h2, h3, h4⟩ := h
    unfold scanExponent
    simp [chr_e, chr_E, chr_p, chr_P, h1, h2, h3, h4]

theorem scanExponent_e (sepOk : Bool) (sg : Option Bool) (body : List Nat)
    (h : sg = none → NoSignHead body) :
    scanExponent sepOk (101 :: (signBytes sg ++ body)) = scanExpTail sepOk 10 (signVal sg) body := by
  unfold scanExponent scanExpTail
  simp only [chr_e, chr_E, true_or, if_true, chr_minus, chr_plus]
  match sg, h with
  | some true, _ => simp [signBytes, signVal]
  | some false, _ => simp [signBytes, signVal]
  | none, h =>
    have h := h rfl
    cases body with
    | nil => rfl
    | cons c r =>
      obtain ⟨h1, h2⟩ := h
      simp [signBytes, signVal, h1, h2]

theorem NoSignHead_bytes (ds rest : List Nat) (hd : IsDigits ds) (hne : ds ≠ []) : NoSignHead (bytesOf ds ++ rest) := by
  cases ds with
  | nil => exact absurd rfl hne
  | cons d ds => rw [IsDigits_cons] at hd; simp only [bytesOf_cons, List.cons_append, NoSignHead]; omega

/-- What may follow the exponent digits. -/
def ExpEnd (sepOk : Bool) : List Nat → Prop
  | [] => True
  | ch :: _ => ¬ (48 ≤ ch ∧ ch ≤ 57) ∧ (ch = 95 → sepOk = false)

theorem scanExpDigits_end (sepOk : Bool) (rest : List Nat) (st : Nat × Bool × Nat × Bool) (h : ExpEnd sepOk rest) :
    scanExpDigits sepOk rest st = (st, rest) := by
  cases rest with
  | nil => rfl
  | cons ch r => exact scanExpDigits_stop sepOk ch r st h.1 h.2

/-- no exponent digits (`"1e"`, `"1e+"`, `"1e+x"`). -/
theorem scanExpTail_noDigits (sepOk : Bool) (eb : Nat) (neg : Bool) (rest : List Nat) (h : ExpEnd sepOk rest) :
    scanExpTail sepOk eb neg rest = .error .noDigits := by
  unfold scanExpTail
  rw [scanExpDigits_end sepOk rest _ h]
  rfl

theorem scanExpTail_digits (sepOk : Bool) (eb : Nat) (neg : Bool) (ds rest : List Nat)
    (hd : IsDigits ds) (hne : ds ≠ []) (h : ExpEnd sepOk rest) :
    scanExpTail sepOk eb neg (bytesOf ds ++ rest) =
      if (neg = false ∧ ofDigits ds > 9223372036854775807) ∨ (neg = true ∧ ofDigits ds > 9223372036854775808)
      then .error .expRange
      else .ok ((if neg then -(ofDigits ds : Int) else (ofDigits ds : Int)), eb, rest) := by
  unfold scanExpTail
  rw [scanExpDigits_bytes sepOk ds hd, scanExpDigits_end sepOk rest _ h]
  have : ds.isEmpty = false := by cases ds <;> simp_all
  simp [this, hne]

/-- What may follow the (possibly absent) exponent part. -/
def ExpTailOk (sepOk : Bool) : Option (Option Bool × List Nat) → List Nat → Prop
  | none, rest => NoExpHead rest
  | some _, rest => ExpEnd sepOk rest

/-- The exponent of a literal. -/
theorem scanExponent_lit (sepOk : Bool) (ex : Option (Option Bool × List Nat)) (rest : List Nat)
    (hex : ExpOk ex) (hend : ExpTailOk sepOk ex rest) :
    scanExponent sepOk (renderExp ex ++ rest) = .ok (expVal ex, 10, rest) := by
  match ex, hex, hend with
  | none, _, hend => exact scanExponent_none sepOk rest hend
  | some (sg, ds), ⟨hd, hne, hr⟩, hend =>
    simp only [renderExp, List.cons_append, List.append_assoc]
    rw [scanExponent_e sepOk sg _ (fun _ => NoSignHead_bytes ds rest hd hne),
      scanExpTail_digits sepOk 10 _ ds rest hd hne hend]
    cases hs : signVal sg <;> simp only [hs] at hr <;> simp [expVal, hs] <;> simp at hr <;> omega

/-! ### `scanDec` -/

/-- `scanDec` after the optional sign. -/
def scanBody (z : Dec) (neg : Bool) (s1 : List Nat) (base : Nat) : Except ScanErr (Dec × Nat × List Nat) :=
  let prec := if z.prec == 0 then DefaultPrec else z.prec
  match scanMant base s1 with
  | .error e => .error e
  | .ok (M, b, fcount, s2) =>
    match scanExponent (base = 0) s2 with
    | .error e => .error e
    | .ok (exp, ebase, s3) =>
      if M = 0 then .ok ({ z with neg := neg, prec := prec, acc := Exact, form := .zero }, b, s3)
      else
        let d : Int := if fcount < 0 then fcount else 0
        let exp10 : Int := (ndigits M : Int) + (if b = 10 then d else 0) + (if ebase = 10 then exp else 0)
        let exp2 : Int := (if b = 2 then d else if b = 8 then d * 3 else if b = 16 then d * 4 else 0) + (if ebase = 2 then exp else 0)
        if exp10 < MinExp ∨ exp10 > MaxExp then .error .expOverflow
        else
          let len := nwords M
          let mant1 := M * 10 ^ dnormShift M len
          let z1 : Dec := { z with neg := neg, prec := prec, form := .finite, exp := exp10, mant := mant1, len := len }
          if exp2 = 0 then .ok (round z1 false, b, s3)
          else
            let p := pow2 (prec + DW) exp2.natAbs
            let r := if exp2 < 0 then (quo z1 z1 p true false).1 else (mul z1 z1 p true false).1
            if r.form != .finite then .error .expOverflow else .ok (r, b, s3)

theorem scanDec_nil (z : Dec) (base : Nat) : scanDec z [] base = .error .eof := rfl

theorem scanDec_sign (z : Dec) (sg : Option Bool) (body : List Nat) (base : Nat)
    (h : sg = none → body ≠ [] ∧ NoSignHead body) :
    scanDec z (signBytes sg ++ body) base = scanBody z (signVal sg) body base := by
  match sg, h with
  | some true, _ => rfl
  | some false, _ => rfl
  | none, h =>
    obtain ⟨h0, h1⟩ := h rfl
    cases body with
    | nil => exact absurd rfl h0
    | cons c r =>
      obtain ⟨h1, h2⟩ := h1
      simp only [signBytes, signVal, List.nil_append]
      unfold scanDec scanBody
      simp only [chr_minus, chr_plus, h1, h2, if_false]
      rfl

/-- `scanDec`'s base-10 tail is the common rounding tail `setNormAndRound`. -/
theorem round_scan_eq (z : Dec) (neg : Bool) (p M : Nat) (e10 : Int) (h1 : MinExp ≤ e10) (h2 : e10 ≤ MaxExp) :
    round { z with neg := neg, prec := p, form := .finite, exp := e10,
                   mant := M * 10 ^ dnormShift M (nwords M), len := nwords M } false
      = setNormAndRound { z with neg := neg, prec := p } M (e10 - ndigits M) false := by
  have hs := ndigits_add_dnormShift M
  have he : e10 - (ndigits M : Int) + ((nwords M * DW : Nat) : Int) - ((dnormShift M (nwords M) : Nat) : Int) = e10 := by
    rw [DW_eq]; omega
  unfold setNormAndRound setExpAndRound
  simp only [he]
  rw [if_neg (by omega), if_neg (by omega)]

/-- What may follow a literal. -/
def TailOk (sep : Bool) (l : Lit10) (rest : List Nat) : Prop :=
  match l.ex with
  | none => MantEnd sep l.fp.isSome rest ∧ NoExpHead rest
  | some _ => ExpEnd sep rest

theorem TailOk_nil (sep : Bool) (l : Lit10) : TailOk sep l [] := by
  unfold TailOk; cases l.ex <;> simp [MantEnd, NoExpHead, ExpEnd]

/-- the body (everything after the sign) of a rendered literal. -/
def Lit10.body (l : Lit10) : List Nat := renderMant l.ip l.fp ++ renderExp l.ex

theorem Lit10.render_eq (l : Lit10) : l.render = signBytes l.neg ++ l.body := rfl

theorem d_of_fcount (ip : List Nat) (fp : Option (List Nat)) :
    (if fcountOf ip fp < 0 then fcountOf ip fp else 0) = -(((fp.getD []).length : Nat) : Int) := by
  cases fp with
  | none => simp [fcountOf]; omega
  | some f =>
    have hf : fcountOf ip (some f) = -(f.length : Int) := rfl
    rw [hf, Option.getD_some]
    by_cases h : -(f.length : Int) < 0
    · rw [if_pos h]
    · rw [if_neg h]; omega

/-- **The scanner on a literal** (after the sign; base 10, or base 0 without a base prefix). -/
theorem scanBody_lit (z : Dec) (neg : Bool) (l : Lit10) (hwf : l.WF) (base : Nat) (rest : List Nat)
    (hbase : base = 10 ∨ (base = 0 ∧ NoBasePrefix (l.body ++ rest)))
    (hend : TailOk (decide (base = 0)) l rest) :
    scanBody z neg (l.body ++ rest) base =
      (let p := if z.prec = 0 then 34 else z.prec
       let e10 : Int := (ndigits l.coef : Int) + l.exp10
       if l.coef = 0 then .ok ({ z with neg := neg, prec := p, acc := Exact, form := .zero }, 10, rest)
       else if e10 < MinExp ∨ e10 > MaxExp then .error .expOverflow
       else .ok (setNormAndRound { z with neg := neg, prec := p } l.coef l.exp10 false, 10, rest)) := by
  obtain ⟨hip, hfp, hne, hex⟩ := hwf
  have hbody : l.body ++ rest = renderMant l.ip l.fp ++ (renderExp l.ex ++ rest) := by
    rw [Lit10.body, List.append_assoc]
  -- mantissa
  have hmend : MantEnd (decide (base = 0)) l.fp.isSome (renderExp l.ex ++ rest) := by
    unfold TailOk at hend
    cases hx : l.ex with
    | none => rw [hx] at hend; simpa [renderExp] using hend.1
    | some e =>
      obtain ⟨sg, ds⟩ := e
      simp only [renderExp, List.cons_append, MantEnd]
      exact ⟨by decide, by omega, by omega⟩
  have hm : scanMant base (l.body ++ rest) =
      .ok (l.coef, 10, fcountOf l.ip l.fp, renderExp l.ex ++ rest) := by
    have hcore := scanMantCore_mant (decide (base = 0)) l.ip l.fp (renderExp l.ex ++ rest) hip hfp hne hmend
    rcases hbase with hb | ⟨hb, hnp⟩
    · subst hb
      rw [scanMant_base 10 (by omega), hbody]
      exact hcore
    · subst hb
      rw [scanMant_zero _ hnp, hbody]
      exact hcore
  -- exponent
  have he : scanExponent (decide (base = 0)) (renderExp l.ex ++ rest) = .ok (expVal l.ex, 10, rest) := by
    apply scanExponent_lit _ _ _ hex
    unfold TailOk at hend
    cases hx : l.ex with
    | none => rw [hx] at hend; exact hend.2
    | some e => rw [hx] at hend; exact hend
  unfold scanBody
  rw [hm]
  simp only [he]
  have hd := d_of_fcount l.ip l.fp
  simp only [hd, if_true]
  have he10 : (ndigits l.coef : Int) + -(((l.fp.getD []).length : Nat) : Int) + expVal l.ex
      = (ndigits l.coef : Int) + l.exp10 := by
    unfold Lit10.exp10 Lit10.frac; omega
  rw [he10]
  by_cases hc : l.coef = 0
  · simp [hc, DefaultPrec]
  · simp only [hc, if_false]
    by_cases hr : (ndigits l.coef : Int) + l.exp10 < MinExp ∨ (ndigits l.coef : Int) + l.exp10 > MaxExp
    · simp only [hr, if_true]
    · simp only [hr, if_false]
      have h2 : (if (10 : Nat) = 2 then (-(((l.fp.getD []).length : Nat) : Int)) else
          if (10 : Nat) = 8 then -(((l.fp.getD []).length : Nat) : Int) * 3 else
          if (10 : Nat) = 16 then -(((l.fp.getD []).length : Nat) : Int) * 4 else 0) + (if (10 : Nat) = 2 then expVal l.ex else 0) = 0 := by
        simp
      simp only [h2, if_true]
      have := round_scan_eq z neg (if z.prec = 0 then 34 else z.prec) l.coef ((ndigits l.coef : Int) + l.exp10)
        (by omega) (by omega)
      have hk : (ndigits l.coef : Int) + l.exp10 - (ndigits l.coef : Int) = l.exp10 := by omega
      rw [hk] at this
      rw [← this]
      simp [DefaultPrec]

/-! ### `parse` -/

/-- The four spellings of an infinity. -/
def IsInfStr (s : List Nat) : Prop :=
  s = [73, 110, 102] ∨ s = [105, 110, 102] ∨ s = [43, 73, 110, 102] ∨ s = [43, 105, 110, 102] ∨
  s = [45, 73, 110, 102] ∨ s = [45, 105, 110, 102]

/-- The end of `Parse`: the whole input must have been consumed. -/
def finishScan : Except ScanErr (Dec × Nat × List Nat) → Except ScanErr (Dec × Nat)
  | .error e => .error e
  | .ok (d, b, rest) => if rest.isEmpty then .ok (d, b) else .error .trailing

theorem parse_eq_scanDec (z : Dec) (s : List Nat) (base : Nat) (h : ¬ IsInfStr s) :
    parse z s base = finishScan (scanDec z s base) := by
  have e1 : ("Inf".toList.map chr) = [73, 110, 102] := rfl
  have e2 : ("inf".toList.map chr) = [105, 110, 102] := rfl
  unfold parse
  simp only [e1, e2, chr_plus, chr_minus]
  have h3 : ¬ (s = [73, 110, 102] ∨ s = [105, 110, 102]) := by
    rintro (h' | h')
    · exact h (Or.inl h')
    · exact h (Or.inr (Or.inl h'))
  rw [if_neg h3]
  cases s with
  | nil => rfl
  | cons c rest =>
    have hc : ¬ ((c = 43 ∨ c = 45) ∧ (rest = [73, 110, 102] ∨ rest = [105, 110, 102])) := by
      rintro ⟨hc | hc, hr | hr⟩ <;> subst hc <;> subst hr <;> apply h <;> unfold IsInfStr <;> simp
    simp only [hc, if_false]
    rfl

/-- An input containing a byte that occurs in no infinity spelling. -/
theorem not_IsInfStr_of_mem (s : List Nat) (b : Nat) (hb : b ∈ s)
    (h : b ≠ 73 ∧ b ≠ 105 ∧ b ≠ 110 ∧ b ≠ 102 ∧ b ≠ 43 ∧ b ≠ 45) : ¬ IsInfStr s := by
  obtain ⟨h1, h2, h3, h4, h5, h6⟩ := h
  rintro (h' | h' | h' | h' | h' | h') <;> subst h' <;> simp at hb <;> omega

theorem not_IsInfStr_of_forall (s : List Nat) (h : ∀ b ∈ s, b ≠ 110) : ¬ IsInfStr s := by
  rintro (h' | h' | h' | h' | h' | h') <;> subst h' <;> exact h 110 (by simp) rfl

theorem not_IsInfStr_short (s : List Nat) (h : s.length < 3) : ¬ IsInfStr s := by
  rintro (h' | h' | h' | h' | h' | h') <;> subst h' <;> simp at h

/-! ### `parse` on a literal -/

theorem mem_bytesOf {ds : List Nat} (hd : IsDigits ds) {b : Nat} (hb : b ∈ bytesOf ds) : 48 ≤ b ∧ b ≤ 57 := by
  simp only [bytesOf, List.mem_map] at hb
  obtain ⟨d, hd', rfl⟩ := hb
  have := hd d hd'
  omega

theorem mem_signBytes {sg : Option Bool} {b : Nat} (hb : b ∈ signBytes sg) : b = 43 ∨ b = 45 := by
  match sg, hb with
  | none, hb => simp [signBytes] at hb
  | some true, hb => simp [signBytes] at hb; omega
  | some false, hb => simp [signBytes] at hb; omega

theorem Lit10.WF.mem_body {l : Lit10} (hwf : l.WF) {b : Nat} (hb : b ∈ l.body) : b ≤ 57 ∨ b = 101 := by
  obtain ⟨hip, hfp, _, hex⟩ := hwf
  simp only [Lit10.body, renderMant, List.mem_append] at hb
  rcases hb with (hb | hb) | hb
  · exact Or.inl (mem_bytesOf hip hb).2
  · cases hf : l.fp with
    | none => rw [hf] at hb; simp at hb
    | some f =>
      rw [hf] at hb
      simp only [Lit10.frac, hf, Option.getD_some] at hfp
      simp only [List.mem_cons] at hb
      rcases hb with hb | hb
      · omega
      · exact Or.inl (mem_bytesOf hfp hb).2
  · cases hx : l.ex with
    | none => rw [hx] at hb; simp [renderExp] at hb
    | some e =>
      obtain ⟨sg, ds⟩ := e
      rw [hx] at hb hex
      simp only [renderExp, List.mem_cons, List.mem_append] at hb
      rcases hb with hb | hb | hb
      · omega
      · have := mem_signBytes hb; omega
      · exact Or.inl (mem_bytesOf hex.1 hb).2

theorem Lit10.WF.body_head {l : Lit10} (hwf : l.WF) : l.body ≠ [] ∧ NoSignHead l.body := by
  obtain ⟨hip, hfp, hne, _⟩ := hwf
  unfold Lit10.body renderMant
  cases hi : l.ip with
  | cons d ds =>
    rw [hi, IsDigits_cons] at hip
    simp only [bytesOf_cons, List.cons_append, NoSignHead]
    exact ⟨by simp, by omega, by omega⟩
  | nil =>
    cases hf : l.fp with
    | none => simp [hi, Lit10.frac, hf] at hne
    | some f => simp [bytesOf, NoSignHead]

theorem Lit10.WF.not_inf {l : Lit10} (hwf : l.WF) (rest : List Nat) (hr : ∀ b ∈ rest, b ≠ 110) :
    ¬ IsInfStr (l.render ++ rest) := by
  apply not_IsInfStr_of_forall
  intro b hb
  rw [Lit10.render_eq, List.append_assoc, List.mem_append, List.mem_append] at hb
  rcases hb with hb | hb | hb
  · have := mem_signBytes hb; omega
  · have := hwf.mem_body hb; omega
  · exact hr b hb

theorem Lit10.WF.noBasePrefix {l : Lit10} (hwf : l.WF) : NoBasePrefix (l.body ++ []) := by
  intro c rest h
  rw [List.append_nil] at h
  have : c ∈ l.body := by rw [h]; simp
  have := hwf.mem_body this
  omega

/-- `scanDec` on a literal followed by `rest`. -/
theorem scanDec_lit (z : Dec) (l : Lit10) (hwf : l.WF) (base : Nat) (rest : List Nat)
    (hbase : base = 10 ∨ (base = 0 ∧ NoBasePrefix (l.body ++ rest)))
    (hend : TailOk (decide (base = 0)) l rest) :
    scanDec z (l.render ++ rest) base =
      (let p := if z.prec = 0 then 34 else z.prec
       let e10 : Int := (ndigits l.coef : Int) + l.exp10
       if l.coef = 0 then .ok ({ z with neg := l.sign, prec := p, acc := Exact, form := .zero }, 10, rest)
       else if e10 < MinExp ∨ e10 > MaxExp then .error .expOverflow
       else .ok (setNormAndRound { z with neg := l.sign, prec := p } l.coef l.exp10 false, 10, rest)) := by
  have hh := hwf.body_head
  have hh' : l.body ++ rest ≠ [] ∧ NoSignHead (l.body ++ rest) := by
    cases hb : l.body with
    | nil => exact absurd hb hh.1
    | cons c r => rw [hb] at hh; exact ⟨by simp, hh.2⟩
  rw [Lit10.render_eq, List.append_assoc, scanDec_sign z l.neg _ base (fun _ => hh'),
    scanBody_lit z _ l hwf base rest hbase hend]
  rfl

/-- **`Parse` on a literal**, operational form. -/
theorem parse_lit (z : Dec) (l : Lit10) (hwf : l.WF) (base : Nat) (hbase : base = 10 ∨ base = 0) :
    parse z l.render base =
      (let p := if z.prec = 0 then 34 else z.prec
       let e10 : Int := (ndigits l.coef : Int) + l.exp10
       if l.coef = 0 then .ok ({ z with neg := l.sign, prec := p, acc := Exact, form := .zero }, 10)
       else if e10 < MinExp ∨ e10 > MaxExp then .error .expOverflow
       else .ok (setNormAndRound { z with neg := l.sign, prec := p } l.coef l.exp10 false, 10)) := by
  have hinf := hwf.not_inf [] (by simp)
  rw [List.append_nil] at hinf
  have hb : base = 10 ∨ (base = 0 ∧ NoBasePrefix (l.body ++ [])) := by
    rcases hbase with h | h
    · exact Or.inl h
    · exact Or.inr ⟨h, hwf.noBasePrefix⟩
  have := scanDec_lit z l hwf base [] hb (TailOk_nil _ l)
  rw [List.append_nil] at this
  rw [parse_eq_scanDec z _ base hinf, this]
  simp only []
  by_cases hc : l.coef = 0
  · simp [hc, finishScan]
  · by_cases hr : (ndigits l.coef : Int) + l.exp10 < MinExp ∨ (ndigits l.coef : Int) + l.exp10 > MaxExp
    · simp [hc, hr, finishScan]
    · simp [hc, hr, finishScan]

/-! ### rejected inputs -/

theorem parse_sign_body (z : Dec) (sg : Option Bool) (body : List Nat) (base : Nat)
    (h : sg = none → body ≠ [] ∧ NoSignHead body) (hinf : ¬ IsInfStr (signBytes sg ++ body)) :
    parse z (signBytes sg ++ body) base = finishScan (scanBody z (signVal sg) body base) := by
  rw [parse_eq_scanDec z _ base hinf, scanDec_sign z sg body base h]

theorem scanBody_mant_err (z : Dec) (neg : Bool) (s : List Nat) (base : Nat) (e : ScanErr)
    (h : scanMant base s = .error e) : scanBody z neg s base = .error e := by
  unfold scanBody; rw [h]

theorem scanBody_exp_err (z : Dec) (neg : Bool) (s : List Nat) (base : Nat) (e : ScanErr)
    (M b : Nat) (f : Int) (s2 : List Nat)
    (h : scanMant base s = .ok (M, b, f, s2)) (h2 : scanExponent (decide (base = 0)) s2 = .error e) :
    scanBody z neg s base = .error e := by
  unfold scanBody; rw [h]; simp only [h2]

theorem mem_renderMant {ip : List Nat} {fp : Option (List Nat)} (hip : IsDigits ip) (hfp : IsDigits (fp.getD []))
    {b : Nat} (hb : b ∈ renderMant ip fp) : b ≤ 57 := by
  simp only [renderMant, List.mem_append] at hb
  rcases hb with hb | hb
  · exact (mem_bytesOf hip hb).2
  · cases fp with
    | none => simp at hb
    | some f =>
      simp only [List.mem_cons] at hb
      rcases hb with hb | hb
      · omega
      · exact (mem_bytesOf hfp hb).2

theorem renderMant_ne_nil {ip : List Nat} {fp : Option (List Nat)} (hne : ip ++ fp.getD [] ≠ []) :
    renderMant ip fp ≠ [] := by
  unfold renderMant
  cases ip with
  | cons d ds => simp [bytesOf]
  | nil =>
    cases fp with
    | none => simp at hne
    | some f => simp [bytesOf]

/-- a digit byte occurs in the mantissa. -/
theorem renderMant_digit {ip : List Nat} {fp : Option (List Nat)} (hip : IsDigits ip) (hfp : IsDigits (fp.getD []))
    (hne : ip ++ fp.getD [] ≠ []) : ∃ b ∈ renderMant ip fp, 48 ≤ b ∧ b ≤ 57 := by
  unfold renderMant
  cases ip with
  | cons d ds =>
    rw [IsDigits_cons] at hip
    exact ⟨d + 48, by simp [bytesOf], by omega, by omega⟩
  | nil =>
    cases fp with
    | none => simp at hne
    | some f =>
      cases f with
      | nil => simp at hne
      | cons d ds =>
        simp only [Option.getD_some, IsDigits_cons] at hfp
        exact ⟨d + 48, by simp [bytesOf], by omega, by omega⟩

/-- The first byte is none of `b B o O x X`. -/
def NoPrefixLetterHead : List Nat → Prop
  | [] => True
  | c :: _ => c ≠ 98 ∧ c ≠ 66 ∧ c ≠ 111 ∧ c ≠ 79 ∧ c ≠ 120 ∧ c ≠ 88

theorem noBasePrefix_mant (ip : List Nat) (fp : Option (List Nat)) (rest : List Nat)
    (hip : IsDigits ip) (hfp : IsDigits (fp.getD [])) (hne : ip ++ fp.getD [] ≠ [])
    (hrest : NoPrefixLetterHead rest) : NoBasePrefix (renderMant ip fp ++ rest) := by
  intro c r h
  have hm := renderMant_ne_nil hne
  cases hmm : renderMant ip fp with
  | nil => exact absurd hmm hm
  | cons x m' =>
    rw [hmm] at h
    simp only [List.cons_append, List.cons.injEq] at h
    obtain ⟨_, h⟩ := h
    cases m' with
    | nil =>
      simp only [List.nil_append] at h
      rw [h] at hrest
      exact hrest
    | cons y m'' =>
      simp only [List.cons_append, List.cons.injEq] at h
      have hy : y ∈ renderMant ip fp := by rw [hmm]; simp
      have := mem_renderMant hip hfp hy
      omega

/-- `scanMant` on a literal mantissa followed by `rest`, base 10 or base 0. -/
theorem scanMant_mant (base : Nat) (ip : List Nat) (fp : Option (List Nat)) (rest : List Nat)
    (hip : IsDigits ip) (hfp : IsDigits (fp.getD [])) (hne : ip ++ fp.getD [] ≠ [])
    (hend : MantEnd (decide (base = 0)) fp.isSome rest)
    (hbase : base = 10 ∨ (base = 0 ∧ NoPrefixLetterHead rest)) :
    scanMant base (renderMant ip fp ++ rest) = .ok (ofDigits (ip ++ fp.getD []), 10, fcountOf ip fp, rest) := by
  have hcore := scanMantCore_mant (decide (base = 0)) ip fp rest hip hfp hne hend
  rcases hbase with hb | ⟨hb, hnp⟩
  · subst hb
    rw [scanMant_base 10 (by omega)]
    exact hcore
  · subst hb
    rw [scanMant_zero _ (noBasePrefix_mant ip fp rest hip hfp hne hnp)]
    exact hcore

/-- a sign-less body made of a mantissa and more. -/
theorem mant_head (ip : List Nat) (fp : Option (List Nat)) (rest : List Nat)
    (hip : IsDigits ip) (hne : ip ++ fp.getD [] ≠ []) :
    renderMant ip fp ++ rest ≠ [] ∧ NoSignHead (renderMant ip fp ++ rest) := by
  unfold renderMant
  cases ip with
  | cons d ds =>
    rw [IsDigits_cons] at hip
    simp only [bytesOf_cons, List.cons_append, NoSignHead]
    exact ⟨by simp, by omega, by omega⟩
  | nil =>
    cases fp with
    | none => simp at hne
    | some f => simp [bytesOf, NoSignHead]

theorem not_inf_mant (sg : Option Bool) (ip : List Nat) (fp : Option (List Nat)) (rest : List Nat)
    (hip : IsDigits ip) (hfp : IsDigits (fp.getD [])) (hne : ip ++ fp.getD [] ≠ []) :
    ¬ IsInfStr (signBytes sg ++ (renderMant ip fp ++ rest)) := by
  obtain ⟨b, hb, h1, h2⟩ := renderMant_digit hip hfp hne
  exact not_IsInfStr_of_mem _ b (by simp [hb]) (by omega)

/-- (a) the empty input. -/
theorem parse_nil (z : Dec) (base : Nat) : parse z [] base = .error .eof := by
  rw [parse_eq_scanDec z [] base (not_IsInfStr_short [] (by simp))]; rfl

/-- (b) a lone sign. -/
theorem parse_lone_sign (z : Dec) (sg : Bool) (base : Nat) :
    parse z (signBytes (some sg)) base = .error .noDigits := by
  have h := parse_sign_body z (some sg) [] base (by simp) (not_IsInfStr_short _ (by cases sg <;> simp [signBytes]))
  rw [List.append_nil] at h
  rw [h, scanBody_mant_err z _ [] base .noDigits]
  · rfl
  · unfold scanMant
    by_cases hb : base = 0 <;> simp [hb, scanDigits]

/-- (c) no mantissa digit: after the optional sign come an optional '.' and then nothing or a byte
    that is no digit (`"."`, `"+."`, `"e5"`, `".e5"`, `"x"`, …). -/
theorem parse_noMantDigits (z : Dec) (sg : Option Bool) (dot : Bool) (rest : List Nat) (base : Nat)
    (hbase : base = 10 ∨ base = 0)
    (hend : MantEnd (decide (base = 0)) dot rest)
    (hsg : sg = none → dot = false → rest ≠ [] ∧ NoSignHead rest)
    (hinf : ¬ IsInfStr (signBytes sg ++ ((if dot then [46] else []) ++ rest))) :
    parse z (signBytes sg ++ ((if dot then [46] else []) ++ rest)) base = .error .noDigits := by
  have hsb : sg = none → ((if dot then [46] else []) ++ rest) ≠ [] ∧ NoSignHead ((if dot then [46] else []) ++ rest) := by
    intro h
    cases dot with
    | true => simp [NoSignHead]
    | false => simpa using hsg h rfl
  rw [parse_sign_body z sg _ base hsb hinf, scanBody_mant_err z _ _ base .noDigits]
  · rfl
  · have hcore : scanMantCore 10 (decide (base = 0)) ((if dot then [46] else []) ++ rest) {} = .error .noDigits := by
      unfold scanMantCore
      cases dot with
      | true =>
        simp only [if_true, List.cons_append, List.nil_append]
        rw [scanDigits_dot _ _ _ _ rfl, scanDigits_end _ _ _ (by simpa using hend)]
        rfl
      | false =>
        simp only [Bool.false_eq_true, if_false, List.nil_append]
        rw [scanDigits_end _ _ _ (by simpa using hend)]
        rfl
    rcases hbase with hb | hb
    · subst hb; rw [scanMant_base 10 (by omega)]; exact hcore
    · subst hb
      rw [scanMant_zero]
      · exact hcore
      · intro c r h
        cases dot with
        | true => simp at h
        | false =>
          simp at h
          subst h
          exact absurd hend.1 (by decide)

/-- The digit loop on a literal mantissa, compositional form (anything may follow). -/
theorem scanDigits_mant_then (sep : Bool) (ip : List Nat) (fp : Option (List Nat))
    (hip : IsDigits ip) (hfp : IsDigits (fp.getD [])) :
    ∃ pv, pv ≠ 95 ∧ (ip ++ fp.getD [] ≠ [] → fp = none → pv = 48) ∧ ∀ rest,
      scanDigits 10 sep (renderMant ip fp ++ rest) {} =
        scanDigits 10 sep rest
          { val := ofDigits (ip ++ fp.getD []), count := ip.length + (fp.getD []).length,
            dp := fp.map (fun _ => ip.length), fracOk := fp.isNone, prev := pv, invalSep := false } := by
  cases fp with
  | none =>
    refine ⟨if ip = [] then 46 else 48, by split <;> omega, ?_, ?_⟩
    · intro h _; simp only [Option.getD_none, List.append_nil] at h; simp [h]
    · intro rest
      simp only [renderMant, List.append_nil, Option.getD_none]
      rw [scanDigits_bytes sep ip hip]
      simp
  | some f =>
    refine ⟨if f = [] then 46 else 48, by split <;> omega, ?_, ?_⟩
    · intro _ h; cases h
    intro rest
    simp only [renderMant, Option.getD_some, List.append_assoc, List.cons_append]
    simp only [Option.getD_some] at hfp
    rw [scanDigits_bytes sep ip hip, scanDigits_dot _ _ _ _ rfl, scanDigits_bytes sep f hfp]
    congr 1
    simp only [ofDigits_append, Nat.zero_mul, Nat.zero_add, Option.map_some, Option.isNone_some,
      Bool.false_or, ScanSt.mk.injEq, true_and]
    split <;> simp

/-- a separator (base 0). -/
theorem scanDigits_us (b : Nat) (rest : List Nat) (st : ScanSt) :
    scanDigits b true (95 :: rest) st =
      scanDigits b true rest { st with invalSep := st.invalSep || st.prev != 48, prev := 95 } := by
  rw [scanDigits, if_neg (by rw [chr_dot]; omega), if_pos ⟨rfl, rfl⟩]

/-- once set, the separator error stays; the digit count never decreases. -/
theorem scanDigits_invalSep_mono (b : Nat) (sep : Bool) (s : List Nat) (st : ScanSt) (h : st.invalSep = true) :
    (scanDigits b sep s st).1.invalSep = true ∧ st.count ≤ (scanDigits b sep s st).1.count := by
  induction s generalizing st with
  | nil => exact ⟨h, Nat.le_refl _⟩
  | cons ch rest ih =>
    rw [scanDigits]
    split
    · exact ih _ (by simp [h])
    · split
      · exact ih _ (by simp [h])
      · simp only []
        split
        · exact ⟨h, Nat.le_refl _⟩
        · have := ih { st with prev := 48, count := st.count + 1, val := st.val * b + digitVal ch } h
          exact ⟨this.1, by have := this.2; simp only [] at this; omega⟩

theorem scanMantCore_bytes (sep : Bool) (ds : List Nat) (hd : IsDigits ds) (rest : List Nat) (st : ScanSt) :
    scanMantCore 10 sep (bytesOf ds ++ rest) st =
      scanMantCore 10 sep rest { st with prev := if ds = [] then st.prev else 48,
                                         count := st.count + ds.length,
                                         val := st.val * 10 ^ ds.length + ofDigits ds } := by
  unfold scanMantCore; rw [scanDigits_bytes sep ds hd]

theorem scanMantCore_us (b : Nat) (rest : List Nat) (st : ScanSt) :
    scanMantCore b true (95 :: rest) st =
      scanMantCore b true rest { st with invalSep := st.invalSep || st.prev != 48, prev := 95 } := by
  unfold scanMantCore; rw [scanDigits_us]

theorem scanMantCore_invalSep (b : Nat) (sep : Bool) (rest : List Nat) (st : ScanSt)
    (hi : st.invalSep = true) (hc : st.count ≠ 0) : scanMantCore b sep rest st = .error .invalSep := by
  obtain ⟨h1, h2⟩ := scanDigits_invalSep_mono b sep rest st hi
  unfold scanMantCore
  have hc' : (scanDigits b sep rest st).1.count ≠ 0 := by omega
  simp only [hc', h1, if_false, Bool.true_or, if_true]

/-- (d1) a mantissa ending in '_' (base 0): `"1_"`, `"1.5_"`, `"1_e5"`, … -/
theorem parse_trailing_sep (z : Dec) (sg : Option Bool) (ip : List Nat) (fp : Option (List Nat)) (rest : List Nat)
    (hip : IsDigits ip) (hfp : IsDigits (fp.getD [])) (hne : ip ++ fp.getD [] ≠ [])
    (hend : MantEnd true fp.isSome rest) :
    parse z (signBytes sg ++ (renderMant ip fp ++ 95 :: rest)) 0 = .error .invalSep := by
  obtain ⟨pv, _, _, hscan⟩ := scanDigits_mant_then true ip fp hip hfp
  have hc : ip.length + (fp.getD []).length ≠ 0 := by
    intro h0; apply hne; rw [← List.length_eq_zero_iff, List.length_append]; exact h0
  rw [parse_sign_body z sg _ 0 (fun _ => mant_head ip fp _ hip hne) (not_inf_mant sg ip fp _ hip hfp hne),
    scanBody_mant_err z _ _ 0 .invalSep]
  · rfl
  · rw [scanMant_zero _ (noBasePrefix_mant ip fp _ hip hfp hne (by simp [NoPrefixLetterHead]))]
    unfold scanMantCore
    rw [hscan, scanDigits_us, scanDigits_end _ _ _ (by simpa using hend)]
    simp only [hc, if_false]
    simp

/-- (d2) a double separator after at least one digit (base 0), whatever follows: `"1__2"`, `"12__"`, … -/
theorem parse_double_sep (z : Dec) (sg : Option Bool) (ds : List Nat) (rest : List Nat)
    (hd : IsDigits ds) (hne : ds ≠ []) :
    parse z (signBytes sg ++ (bytesOf ds ++ 95 :: 95 :: rest)) 0 = .error .invalSep := by
  have hne' : ds ++ (none : Option (List Nat)).getD [] ≠ [] := by simpa using hne
  have hm : renderMant ds none = bytesOf ds := by simp [renderMant]
  have h1 := mant_head ds none (95 :: 95 :: rest) hd hne'
  have h2 := not_inf_mant sg ds none (95 :: 95 :: rest) hd IsDigits_nil hne'
  have h3 := noBasePrefix_mant ds none (95 :: 95 :: rest) hd IsDigits_nil hne' (by simp [NoPrefixLetterHead])
  rw [hm] at h1 h2 h3
  rw [parse_sign_body z sg _ 0 (fun _ => h1) h2, scanBody_mant_err z _ _ 0 .invalSep]
  · rfl
  · rw [scanMant_zero _ h3]
    have hlen : 0 < ds.length := List.length_pos_iff.mpr hne
    rw [scanMantCore_bytes true ds hd, scanMantCore_us, scanMantCore_us, scanMantCore_invalSep]
    · simp
    · simp only []; omega

/-- (e) an exponent marker without digits: `"1e"`, `"1e+"`, `"1.5e-x"`, … (base 10 and base 0). -/
theorem parse_exp_noDigits (z : Dec) (sg esg : Option Bool) (ip : List Nat) (fp : Option (List Nat))
    (rest : List Nat) (base : Nat) (hbase : base = 10 ∨ base = 0)
    (hip : IsDigits ip) (hfp : IsDigits (fp.getD [])) (hne : ip ++ fp.getD [] ≠ [])
    (hend : ExpEnd (decide (base = 0)) rest) (hsg : esg = none → NoSignHead rest) :
    parse z (signBytes sg ++ (renderMant ip fp ++ 101 :: (signBytes esg ++ rest))) base = .error .noDigits := by
  rw [parse_sign_body z sg _ base (fun _ => mant_head ip fp _ hip hne) (not_inf_mant sg ip fp _ hip hfp hne),
    scanBody_exp_err z _ _ base .noDigits _ _ _ _
      (scanMant_mant base ip fp (101 :: _) hip hfp hne ⟨by decide, by omega, by omega⟩
        (by rcases hbase with h | h
            · exact Or.inl h
            · exact Or.inr ⟨h, by simp [NoPrefixLetterHead]⟩))]
  · rfl
  · rw [scanExponent_e _ esg rest hsg, scanExpTail_noDigits _ _ _ _ hend]

/-- (g) an exponent that does not fit an int64 (base 10 and base 0). -/
theorem parse_expRange (z : Dec) (sg esg : Option Bool) (ip : List Nat) (fp : Option (List Nat))
    (ds rest : List Nat) (base : Nat) (hbase : base = 10 ∨ base = 0)
    (hip : IsDigits ip) (hfp : IsDigits (fp.getD [])) (hne : ip ++ fp.getD [] ≠ [])
    (hd : IsDigits ds) (hend : ExpEnd (decide (base = 0)) rest)
    (hbig : if signVal esg then ofDigits ds > 9223372036854775808 else ofDigits ds > 9223372036854775807) :
    parse z (signBytes sg ++ (renderMant ip fp ++ 101 :: (signBytes esg ++ (bytesOf ds ++ rest)))) base
      = .error .expRange := by
  have hdne : ds ≠ [] := by
    rintro rfl
    simp [ofDigits] at hbig
  rw [parse_sign_body z sg _ base (fun _ => mant_head ip fp _ hip hne) (not_inf_mant sg ip fp _ hip hfp hne),
    scanBody_exp_err z _ _ base .expRange _ _ _ _
      (scanMant_mant base ip fp (101 :: _) hip hfp hne ⟨by decide, by omega, by omega⟩
        (by rcases hbase with h | h
            · exact Or.inl h
            · exact Or.inr ⟨h, by simp [NoPrefixLetterHead]⟩))]
  · rfl
  · rw [scanExponent_e _ esg _ (fun _ => NoSignHead_bytes ds rest hd hdne),
      scanExpTail_digits _ _ _ ds rest hd hdne hend]
    cases hs : signVal esg <;> simp only [hs] at hbig <;> simp at hbig <;> simp [hbig]

/-- (f) bytes left over after a complete literal. -/
theorem parse_trailing (z : Dec) (l : Lit10) (hwf : l.WF) (base : Nat) (rest : List Nat) (hrest : rest ≠ [])
    (hbase : base = 10 ∨ (base = 0 ∧ NoBasePrefix (l.body ++ rest)))
    (hend : TailOk (decide (base = 0)) l rest)
    (hrange : l.coef = 0 ∨ (MinExp ≤ (ndigits l.coef : Int) + l.exp10 ∧ (ndigits l.coef : Int) + l.exp10 ≤ MaxExp)) :
    parse z (l.render ++ rest) base = .error .trailing := by
  have hinf : ¬ IsInfStr (l.render ++ rest) := by
    have := not_inf_mant l.neg l.ip l.fp (renderExp l.ex ++ rest) hwf.ip hwf.fp hwf.digits
    rw [Lit10.render_eq, Lit10.body, List.append_assoc, List.append_assoc]
    exact this
  rw [parse_eq_scanDec z _ base hinf, scanDec_lit z l hwf base rest hbase hend]
  have hre : rest.isEmpty = false := by cases rest <;> simp_all
  simp only []
  rcases hrange with hc | ⟨h1, h2⟩
  · simp [hc, finishScan, hre]
  · by_cases hc : l.coef = 0
    · simp [hc, finishScan, hre]
    · have hr : ¬ ((ndigits l.coef : Int) + l.exp10 < MinExp ∨ (ndigits l.coef : Int) + l.exp10 > MaxExp) := by omega
      simp [hc, hr, finishScan, hre]

/-- `Parse` has exactly two kinds of outcome: a value or a `ScanErr`. (The model has no panic outcome:
    the only panic of the Go `Parse` is the documented one for an invalid *base* argument — not in
    {0, 2, 8, 10, 16} — which is outside the model's domain.) -/
theorem parse_total (z : Dec) (s : List Nat) (base : Nat) :
    (∃ d b, parse z s base = .ok (d, b)) ∨ (∃ e, parse z s base = .error e) := by
  cases h : parse z s base with
  | ok r => exact Or.inl ⟨r.1, r.2, rfl⟩
  | error e => exact Or.inr ⟨e, rfl⟩

end Decimal
