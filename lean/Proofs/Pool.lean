/-
  Proofs for C18 (DecimalModel/Pool.lean): race freedom, locality of read values and
  non-interference of interleaving for traces that obey the memory discipline.  Core Lean only.
-/
import DecimalModel.Pool

namespace Decimal.Pool

theorem upd_same {β : Type} (f : Addr → β) (a : Addr) (b : β) : upd f a b a = b := by simp [upd]
theorem upd_other {β : Type} (f : Addr → β) {a x : Addr} (b : β) (h : x ≠ a) : upd f a b x = f x := by
  simp [upd, h]

theorem run_append (s : State) (t u : List Ev) : s.run (t ++ u) = (s.run t).run u := by
  induction t generalizing s with
  | nil => rfl
  | cons e t ih => exact ih (s.next e)

theorem disciplined_append (L : Layout) (s : State) (t u : List Ev) :
    Disciplined L s (t ++ u) ↔ Disciplined L s t ∧ Disciplined L (s.run t) u := by
  induction t generalizing s with
  | nil => simp [Disciplined, State.run]
  | cons e t ih =>
    simp only [List.cons_append, Disciplined, State.run]
    rw [ih]
    exact ⟨fun ⟨a, b, c⟩ => ⟨⟨a, b⟩, c⟩, fun ⟨⟨a, b⟩, c⟩ => ⟨a, b, c⟩⟩

/-- Only pool addresses are ever held. -/
def State.Good (L : Layout) (s : State) : Prop := ∀ a g, s.holder a = some g → L.pool a = true

theorem good_init (L : Layout) (m : Addr → Nat) : (State.init m).Good L := by
  intro a g h; simp [State.init] at h

theorem good_next {L : Layout} {s : State} {e : Ev} (hg : s.Good L) (hok : e.ok L s) :
    (s.next e).Good L := by
  intro a g h
  cases e with
  | rd g' a' v => exact hg a g h
  | wr g' a' v => exact hg a g h
  | get g' a' =>
    simp only [State.next] at h
    by_cases ha : a = a'
    · subst ha; exact hok.1
    · rw [upd_other _ _ ha] at h; exact hg a g h
  | put g' a' =>
    simp only [State.next] at h
    by_cases ha : a = a'
    · subst ha; rw [upd_same] at h; cases h
    · rw [upd_other _ _ ha] at h; exact hg a g h

theorem good_run {L : Layout} {s : State} {t : List Ev} (hg : s.Good L) (hd : Disciplined L s t) :
    (s.run t).Good L := by
  induction t generalizing s with
  | nil => exact hg
  | cons e t ih => exact ih (good_next hg hd.1) hd.2

/-! ### Ownership transfer -/

/-- If `g2` ends up holding `a` without holding it at the start, there is a `get g2 a`. -/
theorem get_exists {L : Layout} {a : Addr} {g2 : Gid} :
    ∀ (t : List Ev) (s : State), Disciplined L s t → s.holder a ≠ some g2 →
      (s.run t).holder a = some g2 → ∃ v w, t = v ++ .get g2 a :: w := by
  intro t
  induction t with
  | nil => intro s _ h0 h1; exact absurd h1 h0
  | cons e t ih =>
    intro s hd h0 h1
    by_cases he : (s.next e).holder a = some g2
    · cases e with
      | rd g' a' v => exact absurd he h0
      | wr g' a' v => exact absurd he h0
      | put g' a' =>
        simp only [State.next] at he
        by_cases ha : a = a'
        · subst ha; rw [upd_same] at he; cases he
        · rw [upd_other _ _ ha] at he; exact absurd he h0
      | get g' a' =>
        simp only [State.next] at he
        by_cases ha : a = a'
        · subst ha; rw [upd_same] at he
          cases he
          exact ⟨[], t, rfl⟩
        · rw [upd_other _ _ ha] at he; exact absurd he h0
    · obtain ⟨v, w, hvw⟩ := ih (s.next e) hd.2 he h1
      exact ⟨e :: v, w, by rw [hvw]; rfl⟩

/-- Ownership of a pool address passes from `g1` to `g2 ≠ g1` only through a `put` by `g1`
    followed by a `get` by `g2`. -/
theorem handover {L : Layout} {a : Addr} {g1 g2 : Gid} (hne : g1 ≠ g2) :
    ∀ (t : List Ev) (s : State), Disciplined L s t → s.holder a = some g1 →
      (s.run t).holder a = some g2 → ∃ u v w, t = u ++ .put g1 a :: (v ++ .get g2 a :: w) := by
  intro t
  induction t with
  | nil =>
    intro s _ h0 h1
    simp only [State.run] at h1
    rw [h0] at h1; cases h1; exact absurd rfl hne
  | cons e t ih =>
    intro s hd h0 h1
    by_cases he : (s.next e).holder a = some g1
    · obtain ⟨u, v, w, h⟩ := ih (s.next e) hd.2 he h1
      exact ⟨e :: u, v, w, by rw [h]; rfl⟩
    · cases e with
      | rd g' a' v => exact absurd h0 he
      | wr g' a' v => exact absurd h0 he
      | get g' a' =>
        simp only [State.next] at he
        by_cases ha : a = a'
        · subst ha
          have := hd.1.2
          rw [h0] at this; cases this
        · rw [upd_other _ _ ha] at he; exact absurd h0 he
      | put g' a' =>
        by_cases ha : a = a'
        · subst ha
          have hg : s.holder a = some g' := hd.1
          rw [h0] at hg; cases hg
          have hn : (s.next (.put g1 a)).holder a ≠ some g2 := by
            simp only [State.next]; rw [upd_same]; simp
          obtain ⟨v, w, h⟩ := get_exists t _ hd.2 hn h1
          exact ⟨[], v, w, by rw [h]; rfl⟩
        · simp only [State.next] at he
          rw [upd_other _ _ ha] at he; exact absurd h0 he


/-! ### (1) No conflicting accesses without a hand-over -/

theorem access_kind {L : Layout} {s : State} {e : Ev} (ha : e.isAccess = true) (hok : e.ok L s) :
    (e.isWrite = false ∧ L.shared e.addr = true) ∨ L.priv e.gid e.addr = true ∨
      s.holder e.addr = some e.gid := by
  cases e with
  | rd g a v =>
    rcases hok.1 with h | h | h
    · exact Or.inl ⟨rfl, h⟩
    · exact Or.inr (Or.inl h)
    · exact Or.inr (Or.inr h.1)
  | wr g a v =>
    rcases hok with h | h
    · exact Or.inr (Or.inl h)
    · exact Or.inr (Or.inr h)
  | get g a => cases ha
  | put g a => cases ha

theorem access_holder {s : State} {e : Ev} (ha : e.isAccess = true) : (s.next e).holder = s.holder := by
  cases e with
  | rd g a v => rfl
  | wr g a v => rfl
  | get g a => cases ha
  | put g a => cases ha

/-- If two accesses by different goroutines to the same address conflict (one is a write), both
    goroutines hold the address — as a pool address — at the time of their access. -/
theorem conflict_held {L : Layout} (hL : L.WF) {s1 s2 : State} (hg1 : s1.Good L) (hg2 : s2.Good L)
    {e1 e2 : Ev} (ha1 : e1.isAccess = true) (ha2 : e2.isAccess = true) (hok1 : e1.ok L s1)
    (hok2 : e2.ok L s2) (haddr : e1.addr = e2.addr) (hgid : e1.gid ≠ e2.gid)
    (hw : e1.isWrite = true ∨ e2.isWrite = true) :
    s1.holder e1.addr = some e1.gid ∧ s2.holder e1.addr = some e2.gid := by
  obtain ⟨d1, d2, d3⟩ := hL
  have k1 := access_kind ha1 hok1
  have k2 := access_kind ha2 hok2
  rw [← haddr] at k2
  generalize e1.addr = a at *
  generalize e1.gid = g1 at *
  generalize e2.gid = g2 at *
  -- a private address of one goroutine cannot be touched by the other at all
  have privX : ∀ {g g' : Gid} {s : State} {b : Bool}, s.Good L → g ≠ g' → L.priv g a = true →
      ((b = false ∧ L.shared a = true) ∨ L.priv g' a = true ∨ s.holder a = some g') → False := by
    intro g g' s b hg hne hp h
    rcases h with h | h | h
    · have := (d2 g a hp).1; rw [h.2] at this; cases this
    · exact hne (d3 g g' a hp h)
    · have := (d2 g a hp).2; rw [hg a g' h] at this; cases this
  have poolX : ∀ {g : Gid} {b : Bool}, L.pool a = true →
      ((b = false ∧ L.shared a = true) ∨ L.priv g a = true ∨ (s1.holder a = some g)) → s1.holder a = some g := by
    intro g b hp h
    rcases h with h | h | h
    · have := d1 a h.2; rw [hp] at this; cases this
    · have := (d2 g a h).2; rw [hp] at this; cases this
    · exact h
  have poolX2 : ∀ {g : Gid} {b : Bool}, L.pool a = true →
      ((b = false ∧ L.shared a = true) ∨ L.priv g a = true ∨ (s2.holder a = some g)) → s2.holder a = some g := by
    intro g b hp h
    rcases h with h | h | h
    · have := d1 a h.2; rw [hp] at this; cases this
    · have := (d2 g a h).2; rw [hp] at this; cases this
    · exact h
  rcases hw with hw | hw
  · -- e1 writes
    rcases k1 with h | h | h
    · rw [hw] at h; cases h.1
    · exact (privX hg2 hgid h k2).elim
    · have hp := hg1 a g1 h
      exact ⟨h, poolX2 hp k2⟩
  · rcases k2 with h | h | h
    · rw [hw] at h; cases h.1
    · exact (privX hg1 (Ne.symm hgid) h k1).elim
    · have hp := hg2 a g2 h
      exact ⟨poolX hp k1, h⟩

/-- (1) Race freedom: two conflicting accesses by different goroutines are separated by a
    `put` by the first and a later `get` by the second. -/
theorem no_conflict {L : Layout} (hL : L.WF) {s0 : State} (hg : s0.Good L) (t1 t2 t3 : List Ev)
    (e1 e2 : Ev) (hd : Disciplined L s0 (t1 ++ e1 :: (t2 ++ e2 :: t3)))
    (ha1 : e1.isAccess = true) (ha2 : e2.isAccess = true) (haddr : e1.addr = e2.addr)
    (hgid : e1.gid ≠ e2.gid) (hw : e1.isWrite = true ∨ e2.isWrite = true) :
    ∃ u v w, t2 = u ++ .put e1.gid e1.addr :: (v ++ .get e2.gid e1.addr :: w) := by
  rw [disciplined_append] at hd
  obtain ⟨hd1, hd⟩ := hd
  obtain ⟨hok1, hd⟩ := hd
  rw [disciplined_append] at hd
  obtain ⟨hd2, hok2, -⟩ := hd
  have g1 := good_run hg hd1
  have g1' := good_next g1 hok1
  have g2 := good_run g1' hd2
  obtain ⟨h1, h2⟩ := conflict_held hL g1 g2 ha1 ha2 hok1 hok2 haddr hgid hw
  have h1' : ((s0.run t1).next e1).holder e1.addr = some e1.gid := by rw [access_holder ha1]; exact h1
  exact handover hgid t2 _ hd2 h1' h2


/-- What goroutine `g` may read in state `s`. -/
def vis (L : Layout) (g : Gid) (s : State) (a : Addr) : Prop :=
  L.shared a = true ∨ L.priv g a = true ∨ (s.holder a = some g ∧ s.written a = true)

/-- The sequential state `sg` of goroutine `g` agrees with the interleaved state `s` on
    everything `g` can observe. -/
structure Sim (L : Layout) (g : Gid) (s sg : State) : Prop where
  hold1 : ∀ a, s.holder a = some g → sg.holder a = some g
  hold2 : ∀ a, s.holder a ≠ some g → sg.holder a = none
  writ : ∀ a, s.holder a = some g → sg.written a = s.written a
  mem : ∀ a, vis L g s a → sg.mem a = s.mem a

theorem sim_refl (L : Layout) (g : Gid) (m : Addr → Nat) : Sim L g (State.init m) (State.init m) :=
  ⟨fun _ h => h, fun _ _ => rfl, fun _ _ => rfl, fun _ _ => rfl⟩

theorem sim_hold_iff {L : Layout} {g : Gid} {s sg : State} (h : Sim L g s sg) (a : Addr) :
    sg.holder a = some g ↔ s.holder a = some g := by
  constructor
  · intro hh
    by_cases hs : s.holder a = some g
    · exact hs
    · rw [h.hold2 a hs] at hh; cases hh
  · exact h.hold1 a

theorem sim_hold_none {L : Layout} {g : Gid} {s sg : State} (h : Sim L g s sg) (a : Addr)
    (hn : s.holder a ≠ some g) : sg.holder a = none := h.hold2 a hn

/-- A pool address held by someone is neither shared nor private. -/
theorem pool_excl {L : Layout} (hL : L.WF) {a : Addr} (hp : L.pool a = true) :
    L.shared a = false ∧ ∀ g, L.priv g a = false := by
  obtain ⟨d1, d2, -⟩ := hL
  constructor
  · cases h : L.shared a
    · rfl
    · have := d1 a h; rw [hp] at this; cases this
  · intro g
    cases h : L.priv g a
    · rfl
    · have := (d2 g a h).2; rw [hp] at this; cases this

/-- An event of `g` itself: permitted in the sequential state, and the simulation continues. -/
theorem sim_own {L : Layout} (hL : L.WF) {g : Gid} {s sg : State} (hg : s.Good L) (h : Sim L g s sg)
    {e : Ev} (hge : e.gid = g) (hok : e.ok L s) : e.ok L sg ∧ Sim L g (s.next e) (sg.next e) := by
  cases e with
  | rd g' a v =>
    have hge' : g' = g := hge
    subst hge'
    refine ⟨⟨?_, ?_⟩, h⟩
    · rcases hok.1 with hh | hh | hh
      · exact Or.inl hh
      · exact Or.inr (Or.inl hh)
      · exact Or.inr (Or.inr ⟨(sim_hold_iff h a).mpr hh.1, by rw [h.writ a hh.1]; exact hh.2⟩)
    · rw [h.mem a hok.1]; exact hok.2
  | wr g' a v =>
    have hge' : g' = g := hge
    subst hge'
    refine ⟨?_, ⟨h.hold1, h.hold2, ?_, ?_⟩⟩
    · rcases hok with hh | hh
      · exact Or.inl hh
      · exact Or.inr ((sim_hold_iff h a).mpr hh)
    · intro a' ha'
      simp only [State.next] at ha' ⊢
      by_cases e : a' = a
      · subst e; rw [upd_same, upd_same]
      · rw [upd_other _ _ e, upd_other _ _ e]; exact h.writ a' ha'
    · intro a' hv
      simp only [State.next, vis] at hv ⊢
      by_cases e : a' = a
      · subst e; rw [upd_same, upd_same]
      · rw [upd_other _ _ e] at hv
        rw [upd_other _ _ e, upd_other _ _ e]
        exact h.mem a' hv
  | get g' a =>
    have hge' : g' = g := hge
    subst hge'
    have hn : s.holder a ≠ some g' := by rw [hok.2]; simp
    refine ⟨⟨hok.1, sim_hold_none h a hn⟩, ⟨?_, ?_, ?_, ?_⟩⟩
    · intro a' ha'
      simp only [State.next] at ha' ⊢
      by_cases e : a' = a
      · subst e; rw [upd_same]
      · rw [upd_other _ _ e] at ha' ⊢; exact h.hold1 a' ha'
    · intro a' ha'
      simp only [State.next] at ha' ⊢
      by_cases e : a' = a
      · subst e; rw [upd_same] at ha'; exact absurd rfl ha'
      · rw [upd_other _ _ e] at ha' ⊢; exact h.hold2 a' ha'
    · intro a' ha'
      simp only [State.next] at ha' ⊢
      by_cases e : a' = a
      · subst e; rw [upd_same, upd_same]
      · rw [upd_other _ _ e] at ha'
        rw [upd_other _ _ e, upd_other _ _ e]; exact h.writ a' ha'
    · intro a' hv
      simp only [State.next, vis] at hv ⊢
      by_cases e : a' = a
      · subst e
        obtain ⟨x1, x2⟩ := pool_excl hL hok.1
        simp only [upd_same] at hv
        rcases hv with hh | hh | hh
        · rw [x1] at hh; cases hh
        · rw [x2 g'] at hh; cases hh
        · cases hh.2
      · rw [upd_other _ _ e, upd_other _ _ e] at hv
        exact h.mem a' hv
  | put g' a =>
    have hge' : g' = g := hge
    subst hge'
    have hk : s.holder a = some g' := hok
    refine ⟨(sim_hold_iff h a).mpr hk, ⟨?_, ?_, ?_, ?_⟩⟩
    · intro a' ha'
      simp only [State.next] at ha' ⊢
      by_cases e : a' = a
      · subst e; rw [upd_same] at ha'; cases ha'
      · rw [upd_other _ _ e] at ha' ⊢; exact h.hold1 a' ha'
    · intro a' ha'
      simp only [State.next] at ha' ⊢
      by_cases e : a' = a
      · subst e; rw [upd_same]
      · rw [upd_other _ _ e] at ha' ⊢; exact h.hold2 a' ha'
    · intro a' ha'
      simp only [State.next] at ha' ⊢
      by_cases e : a' = a
      · subst e; rw [upd_same, upd_same]
      · rw [upd_other _ _ e] at ha'
        rw [upd_other _ _ e, upd_other _ _ e]; exact h.writ a' ha'
    · intro a' hv
      simp only [State.next, vis] at hv ⊢
      by_cases e : a' = a
      · subst e
        obtain ⟨x1, x2⟩ := pool_excl hL (hg a' g' hk)
        simp only [upd_same] at hv
        rcases hv with hh | hh | hh
        · rw [x1] at hh; cases hh
        · rw [x2 g'] at hh; cases hh
        · cases hh.1
      · rw [upd_other _ _ e, upd_other _ _ e] at hv
        exact h.mem a' hv


/-- An event of another goroutine changes nothing `g` can observe. -/
theorem sim_other {L : Layout} (hL : L.WF) {g : Gid} {s sg : State} (hg : s.Good L) (h : Sim L g s sg)
    {e : Ev} (hge : e.gid ≠ g) (hok : e.ok L s) : Sim L g (s.next e) sg := by
  cases e with
  | rd g' a v => exact h
  | wr g' a v =>
    have hge' : g' ≠ g := hge
    -- `a` is invisible to `g` and not held by `g`
    have hnh : s.holder a ≠ some g := by
      intro hh
      rcases hok with hp | hp
      · have := (pool_excl hL (hg a g hh)).2 g'; rw [hp] at this; cases this
      · rw [hh] at hp; cases hp; exact hge' rfl
    have hns : L.shared a = false := by
      rcases hok with hp | hp
      · exact (hL.2.1 g' a hp).1
      · exact (pool_excl hL (hg a g' hp)).1
    have hnp : L.priv g a = false := by
      rcases hok with hp | hp
      · cases hq : L.priv g a
        · rfl
        · exact absurd (hL.2.2 g' g a hp hq) hge'
      · exact (pool_excl hL (hg a g' hp)).2 g
    refine ⟨h.hold1, h.hold2, ?_, ?_⟩
    · intro a' ha'
      simp only [State.next] at ha' ⊢
      have e : a' ≠ a := fun e => hnh (e ▸ ha')
      rw [upd_other _ _ e]; exact h.writ a' ha'
    · intro a' hv
      simp only [State.next, vis] at hv ⊢
      by_cases e : a' = a
      · subst e
        rcases hv with hh | hh | hh
        · rw [hns] at hh; cases hh
        · rw [hnp] at hh; cases hh
        · exact absurd hh.1 hnh
      · rw [upd_other _ _ e] at hv
        rw [upd_other _ _ e]; exact h.mem a' hv
  | get g' a =>
    have hge' : g' ≠ g := hge
    have hnone : s.holder a = none := hok.2
    refine ⟨?_, ?_, ?_, ?_⟩
    · intro a' ha'
      simp only [State.next] at ha'
      by_cases e : a' = a
      · subst e; rw [upd_same] at ha'; cases ha'; exact absurd rfl hge'
      · rw [upd_other _ _ e] at ha'; exact h.hold1 a' ha'
    · intro a' ha'
      simp only [State.next] at ha'
      by_cases e : a' = a
      · subst e; exact h.hold2 a' (by rw [hnone]; simp)
      · rw [upd_other _ _ e] at ha'; exact h.hold2 a' ha'
    · intro a' ha'
      simp only [State.next] at ha' ⊢
      by_cases e : a' = a
      · subst e; rw [upd_same] at ha'; cases ha'; exact absurd rfl hge'
      · rw [upd_other _ _ e] at ha'
        rw [upd_other _ _ e]; exact h.writ a' ha'
    · intro a' hv
      simp only [State.next, vis] at hv ⊢
      by_cases e : a' = a
      · subst e
        obtain ⟨x1, x2⟩ := pool_excl hL hok.1
        simp only [upd_same] at hv
        rcases hv with hh | hh | hh
        · rw [x1] at hh; cases hh
        · rw [x2 g] at hh; cases hh
        · cases hh.2
      · rw [upd_other _ _ e, upd_other _ _ e] at hv
        exact h.mem a' hv
  | put g' a =>
    have hge' : g' ≠ g := hge
    have hk : s.holder a = some g' := hok
    have hnh : s.holder a ≠ some g := by rw [hk]; intro hh; cases hh; exact hge' rfl
    refine ⟨?_, ?_, ?_, ?_⟩
    · intro a' ha'
      simp only [State.next] at ha'
      by_cases e : a' = a
      · subst e; rw [upd_same] at ha'; cases ha'
      · rw [upd_other _ _ e] at ha'; exact h.hold1 a' ha'
    · intro a' ha'
      simp only [State.next] at ha'
      by_cases e : a' = a
      · subst e; exact h.hold2 a' hnh
      · rw [upd_other _ _ e] at ha'; exact h.hold2 a' ha'
    · intro a' ha'
      simp only [State.next] at ha' ⊢
      by_cases e : a' = a
      · subst e; rw [upd_same] at ha'; cases ha'
      · rw [upd_other _ _ e] at ha'
        rw [upd_other _ _ e]; exact h.writ a' ha'
    · intro a' hv
      simp only [State.next, vis] at hv ⊢
      by_cases e : a' = a
      · subst e
        obtain ⟨x1, x2⟩ := pool_excl hL (hg a' g' hk)
        simp only [upd_same] at hv
        rcases hv with hh | hh | hh
        · rw [x1] at hh; cases hh
        · rw [x2 g] at hh; cases hh
        · cases hh.1
      · rw [upd_other _ _ e, upd_other _ _ e] at hv
        exact h.mem a' hv

/-- The simulation along a whole trace. -/
theorem sim_run {L : Layout} (hL : L.WF) (g : Gid) :
    ∀ (t : List Ev) (s sg : State), s.Good L → Sim L g s sg → Disciplined L s t →
      Disciplined L sg (proj g t) ∧ Sim L g (s.run t) (sg.run (proj g t)) := by
  intro t
  induction t with
  | nil => intro s sg _ h _; exact ⟨trivial, h⟩
  | cons e t ih =>
    intro s sg hg h hd
    by_cases he : e.gid = g
    · obtain ⟨hok', h'⟩ := sim_own hL hg h he hd.1
      obtain ⟨d, r⟩ := ih (s.next e) (sg.next e) (good_next hg hd.1) h' hd.2
      have hp : proj g (e :: t) = e :: proj g t := by simp [proj, he]
      rw [hp]
      exact ⟨⟨hok', d⟩, r⟩
    · have h' := sim_other hL hg h he hd.1
      obtain ⟨d, r⟩ := ih (s.next e) sg (good_next hg hd.1) h' hd.2
      have hp : proj g (e :: t) = proj g t := by simp [proj, he]
      rw [hp]
      exact ⟨d, r⟩

/-- (3) Non-interference of interleaving: the events of `g` alone — with the very same read
    values — form a disciplined trace from the same initial memory: `g` computes what it would
    compute running sequentially. -/
theorem interleaving_noninterference {L : Layout} (hL : L.WF) (m : Addr → Nat) (g : Gid) (t : List Ev)
    (hd : Disciplined L (State.init m) t) : Disciplined L (State.init m) (proj g t) :=
  (sim_run hL g t _ _ (good_init L m) (sim_refl L g m) hd).1


/-- The step function of `lastWrite`. -/
def lwStep (g : Gid) (a : Addr) (acc : Option Nat) (e : Ev) : Option Nat :=
  match e with
  | .wr g' a' v => if g' = g ∧ a' = a then some v else acc
  | _ => acc

theorem lastWrite_eq (g : Gid) (a : Addr) (t : List Ev) : lastWrite g a t = t.foldl (lwStep g a) none := rfl

theorem lwStep_other {g : Gid} {a : Addr} {e : Ev} (acc : Option Nat) (h : e.gid ≠ g) :
    lwStep g a acc e = acc := by
  cases e with
  | wr g' a' v =>
    have : g' ≠ g := h
    simp [lwStep, this]
  | rd g' a' v => rfl
  | get g' a' => rfl
  | put g' a' => rfl

theorem foldl_proj (g : Gid) (a : Addr) (t : List Ev) (acc : Option Nat) :
    (proj g t).foldl (lwStep g a) acc = t.foldl (lwStep g a) acc := by
  induction t generalizing acc with
  | nil => rfl
  | cons e t ih =>
    by_cases he : e.gid = g
    · have hp : proj g (e :: t) = e :: proj g t := by simp [proj, he]
      rw [hp]; exact ih _
    · have hp : proj g (e :: t) = proj g t := by simp [proj, he]
      rw [hp, List.foldl_cons, lwStep_other acc he]; exact ih _

/-- `lastWrite g` only looks at `g`'s own events. -/
theorem lastWrite_proj (g : Gid) (a : Addr) (t : List Ev) : lastWrite g a (proj g t) = lastWrite g a t :=
  foldl_proj g a t none

/-- Running `g` alone, memory is the initial memory overwritten by `g`'s last writes. -/
theorem seq_mem (g : Gid) (a : Addr) (m : Addr → Nat) :
    ∀ (u : List Ev) (s : State) (acc : Option Nat), (∀ e ∈ u, e.gid = g) → s.mem a = acc.getD (m a) →
      (s.run u).mem a = (u.foldl (lwStep g a) acc).getD (m a) := by
  intro u
  induction u with
  | nil => intro s acc _ h; exact h
  | cons e u ih =>
    intro s acc hall h
    have hg : e.gid = g := hall e List.mem_cons_self
    refine ih (s.next e) _ (fun e' h' => hall e' (List.mem_cons_of_mem _ h')) ?_
    cases e with
    | wr g' a' v =>
      have hg' : g' = g := hg
      simp only [State.next, lwStep, hg', true_and]
      by_cases ha : a = a'
      · subst ha; rw [upd_same]; simp
      · rw [upd_other _ _ ha, if_neg (fun h => ha h.symm)]; exact h
    | rd g' a' v => exact h
    | get g' a' => exact h
    | put g' a' => exact h

/-- A pool address that `g` holds and has written since its `get` carries a value written by `g`. -/
theorem held_written_some {L : Layout} (hL : L.WF) (g : Gid) (a : Addr) :
    ∀ (u : List Ev) (s : State) (acc : Option Nat), s.Good L → Disciplined L s u →
      (s.holder a = some g → s.written a = true → acc.isSome = true) →
      ((s.run u).holder a = some g → (s.run u).written a = true →
        (u.foldl (lwStep g a) acc).isSome = true) := by
  intro u
  induction u with
  | nil => intro s acc _ _ h; exact h
  | cons e u ih =>
    intro s acc hg hd h
    refine ih (s.next e) _ (good_next hg hd.1) hd.2 ?_
    cases e with
    | rd g' a' v => exact h
    | wr g' a' v =>
      intro hh hw
      simp only [State.next] at hh hw
      simp only [lwStep]
      by_cases ha : a = a'
      · subst ha
        have hgg : g' = g := by
          rcases hd.1 with hp | hp
          · have := (pool_excl hL (hg a g hh)).2 g'; rw [hp] at this; cases this
          · rw [hh] at hp; cases hp; rfl
        simp [hgg]
      · rw [upd_other _ _ ha] at hw
        rw [if_neg (fun h' => ha h'.2.symm)]
        exact h hh hw
    | get g' a' =>
      intro hh hw
      simp only [State.next] at hh hw
      by_cases ha : a = a'
      · subst ha; rw [upd_same] at hw; cases hw
      · rw [upd_other _ _ ha] at hh hw; exact h hh hw
    | put g' a' =>
      intro hh hw
      simp only [State.next] at hh hw
      by_cases ha : a = a'
      · subst ha; rw [upd_same] at hw; cases hw
      · rw [upd_other _ _ ha] at hh hw; exact h hh hw

/-- Shared addresses are never written. -/
theorem shared_unwritten {L : Layout} (hL : L.WF) (g : Gid) (a : Addr) (hs : L.shared a = true) :
    ∀ (u : List Ev) (s : State) (acc : Option Nat), s.Good L → Disciplined L s u →
      u.foldl (lwStep g a) acc = acc := by
  intro u
  induction u with
  | nil => intro s acc _ _; rfl
  | cons e u ih =>
    intro s acc hg hd
    rw [List.foldl_cons, ih (s.next e) _ (good_next hg hd.1) hd.2]
    cases e with
    | wr g' a' v =>
      simp only [lwStep]
      rw [if_neg]
      rintro ⟨-, rfl⟩
      rcases hd.1 with hp | hp
      · have := (hL.2.1 g' a' hp).1; rw [hs] at this; cases this
      · have := (pool_excl hL (hg a' g' hp)).1; rw [hs] at this; cases this
    | rd g' a' v => rfl
    | get g' a' => rfl
    | put g' a' => rfl

theorem proj_all (g : Gid) (t : List Ev) : ∀ e ∈ proj g t, e.gid = g := by
  intro e he
  simp only [proj, List.mem_filter, beq_iff_eq] at he
  exact he.2

/-- (2) Locality of read values: a read by `g` returns the last value `g` itself wrote to that
    address or, if `g` never wrote it, the initial contents — and for a pool address it is always
    a value written by `g`.  `lastWrite g` ignores every event of the other goroutines
    (`lastWrite_proj`), so the value is independent of them. -/
theorem read_value_local {L : Layout} (hL : L.WF) (m : Addr → Nat) (pre post : List Ev) (g : Gid)
    (a : Addr) (v : Nat) (hd : Disciplined L (State.init m) (pre ++ .rd g a v :: post)) :
    v = (lastWrite g a pre).getD (m a) ∧
      (L.shared a = true → lastWrite g a pre = none) ∧
      (L.pool a = true → (lastWrite g a pre).isSome = true) := by
  rw [disciplined_append] at hd
  obtain ⟨hd1, hok, -⟩ := hd
  obtain ⟨hdg, hsim⟩ := sim_run hL g pre _ _ (good_init L m) (sim_refl L g m) hd1
  have hgood := good_run (good_init L m) hd1
  have hv : v = ((State.init m).run pre).mem a := hok.2
  have hvis : vis L g ((State.init m).run pre) a := hok.1
  have hseq := seq_mem g a m (proj g pre) (State.init m) none (proj_all g pre) rfl
  rw [foldl_proj] at hseq
  refine ⟨?_, ?_, ?_⟩
  · rw [hv, ← hsim.mem a hvis, hseq]; rfl
  · intro hs
    exact shared_unwritten hL g a hs pre _ none (good_init L m) hd1
  · intro hp
    obtain ⟨x1, x2⟩ := pool_excl hL hp
    rcases hvis with hh | hh | hh
    · rw [x1] at hh; cases hh
    · rw [x2 g] at hh; cases hh
    · exact held_written_some hL g a pre _ none (good_init L m) hd1 (fun h => by simp [State.init] at h) hh.1 hh.2


instance (L : Layout) (s : State) (e : Ev) : Decidable (e.ok L s) := by
  cases e <;> simp only [Ev.ok] <;> infer_instance

instance decDisciplined (L : Layout) : (s : State) → (t : List Ev) → Decidable (Disciplined L s t)
  | _, [] => isTrue trivial
  | s, e :: t =>
    have := decDisciplined L (s.next e) t
    by simp only [Disciplined]; infer_instance

end Decimal.Pool
