/-
  L0 vector kernels (DecimalModel/Vec.lean): each kernel computes its arithmetic specification
  for ALL lengths (induction on the word lists), over the word functions regenerated from Go.
-/
import Proofs.GenWordOps
import Proofs.GenTables
import DecimalModel.Vec
import Mathlib.Tactic.Ring
import Mathlib.Tactic.Linarith
import Mathlib.Tactic.LinearCombination
import Mathlib.Tactic.IntervalCases

set_option linter.unusedVariables false
namespace Decimal.L0
open Decimal Decimal.Gen

/-- every word is below the base `B = 10^19`. -/
def WF (x : List Nat) : Prop := ∀ w ∈ x, w < 10000000000000000000

theorem B_eq : B = 10000000000000000000 := rfl
theorem B_pos : 0 < B := by rw [B_eq]; omega
theorem Bpow_pos (n : Nat) : 0 < B ^ n := Nat.pow_pos B_pos

theorem WF_nil : WF [] := fun _ h => nomatch h

theorem WF_cons {a : Nat} {x : List Nat} : WF (a :: x) ↔ a < 10000000000000000000 ∧ WF x := by
  constructor
  · intro h
    exact ⟨h a (List.mem_cons_self), fun w hw => h w (List.mem_cons_of_mem _ hw)⟩
  · intro ⟨ha, hx⟩ w hw
    rcases List.mem_cons.mp hw with h | h
    · rw [h]; exact ha
    · exact hx w h

theorem WF_append {x y : List Nat} : WF (x ++ y) ↔ WF x ∧ WF y := by
  constructor
  · intro h
    exact ⟨fun w hw => h w (List.mem_append_left _ hw), fun w hw => h w (List.mem_append_right _ hw)⟩
  · intro ⟨hx, hy⟩ w hw
    rcases List.mem_append.mp hw with h | h
    · exact hx w h
    · exact hy w h

theorem WF_single {a : Nat} : WF [a] ↔ a < 10000000000000000000 := by
  rw [WF_cons]; exact ⟨fun h => h.1, fun h => ⟨h, WF_nil⟩⟩

theorem WF_take {x : List Nat} (h : WF x) (n : Nat) : WF (x.take n) :=
  fun w hw => h w (List.mem_of_mem_take hw)

theorem WF_drop {x : List Nat} (h : WF x) (n : Nat) : WF (x.drop n) :=
  fun w hw => h w (List.mem_of_mem_drop hw)

theorem WF_reverse {x : List Nat} : WF x.reverse ↔ WF x := by
  constructor
  · intro h w hw; exact h w (List.mem_reverse.mpr hw)
  · intro h w hw; exact h w (List.mem_reverse.mp hw)

theorem WF_replicate (n : Nat) : WF (List.replicate n 0) := by
  intro w hw
  rw [(List.mem_replicate.mp hw).2]; omega

theorem natOf_nil : natOf [] = 0 := rfl
theorem natOf_cons (a : Nat) (x : List Nat) : natOf (a :: x) = a + B * natOf x := rfl

theorem natOf_append (x y : List Nat) : natOf (x ++ y) = natOf x + B ^ x.length * natOf y := by
  induction x with
  | nil => simp [natOf]
  | cons a x ih =>
    simp only [List.cons_append, natOf_cons, ih, List.length_cons, pow_succ]
    ring

theorem natOf_single (a : Nat) : natOf [a] = a := by simp [natOf]

theorem natOf_replicate (n : Nat) : natOf (List.replicate n 0) = 0 := by
  induction n with
  | zero => rfl
  | succ n ih => simp [List.replicate_succ, natOf_cons, ih]

theorem natOf_lt {x : List Nat} (h : WF x) : natOf x < B ^ x.length := by
  induction x with
  | nil => simp [natOf]
  | cons a x ih =>
    have ⟨ha, hx⟩ := WF_cons.mp h
    have := ih hx
    simp only [natOf_cons, List.length_cons, pow_succ]
    have hB := B_eq
    generalize B ^ x.length = P at *
    generalize natOf x = v at *
    have : B * v + B ≤ B * P := by
      have : B * (v + 1) ≤ B * P := Nat.mul_le_mul_left _ (by omega)
      linarith
    have : P * B = B * P := Nat.mul_comm _ _
    omega

/-! ### add10VV / sub10VV -/

theorem add10VV_spec (x y : List Nat) (c : Nat) (hx : WF x) (hy : WF y) (hl : x.length = y.length)
    (hc : c ≤ 1) :
    natOf (add10VV x y c).1 + (add10VV x y c).2 * B ^ x.length = natOf x + natOf y + c
      ∧ WF (add10VV x y c).1 ∧ (add10VV x y c).1.length = x.length ∧ (add10VV x y c).2 ≤ 1 := by
  induction x generalizing y c with
  | nil =>
    cases y with
    | nil => simp [add10VV, natOf, WF_nil, hc]
    | cons b y => simp at hl
  | cons a x ih =>
    cases y with
    | nil => simp at hl
    | cons b y =>
      have ⟨ha, hx'⟩ := WF_cons.mp hx
      have ⟨hb, hy'⟩ := WF_cons.mp hy
      have hw := add10WWW_g_spec a b c ha hb hc
      have hl' : x.length = y.length := by simpa using hl
      have := ih y (add10WWW_g a b c).2 hx' hy' hl' hw.2.2
      obtain ⟨h1, h2, h3, h4⟩ := this
      simp only [add10VV]
      refine ⟨?_, WF_cons.mpr ⟨hw.2.1, h2⟩, by simp [h3], h4⟩
      simp only [natOf_cons, List.length_cons, pow_succ]
      have hB := B_eq
      have e : (add10VV x y (add10WWW_g a b c).2).2 * (B ^ x.length * B)
          = B * ((add10VV x y (add10WWW_g a b c).2).2 * B ^ x.length) := by ring
      rw [e]
      generalize (add10VV x y (add10WWW_g a b c).2).2 * B ^ x.length = T at *
      have h1' : B * (natOf (add10VV x y (add10WWW_g a b c).2).1 + T)
          = B * (natOf x + natOf y + (add10WWW_g a b c).2) := by rw [h1]
      rw [Nat.mul_add, Nat.mul_add, Nat.mul_add] at h1'
      have hw1 := hw.1
      rw [← hB] at hw1
      have : (add10WWW_g a b c).2 * B = B * (add10WWW_g a b c).2 := Nat.mul_comm _ _
      omega

theorem sub10VV_spec (x y : List Nat) (b : Nat) (hx : WF x) (hy : WF y) (hl : x.length = y.length)
    (hb : b ≤ 1) :
    natOf (sub10VV x y b).1 + natOf y + b = natOf x + (sub10VV x y b).2 * B ^ x.length
      ∧ WF (sub10VV x y b).1 ∧ (sub10VV x y b).1.length = x.length ∧ (sub10VV x y b).2 ≤ 1 := by
  induction x generalizing y b with
  | nil =>
    cases y with
    | nil => simp [sub10VV, natOf, WF_nil, hb]
    | cons b y => simp at hl
  | cons a x ih =>
    cases y with
    | nil => simp at hl
    | cons d y =>
      have ⟨ha, hx'⟩ := WF_cons.mp hx
      have ⟨hd, hy'⟩ := WF_cons.mp hy
      have hw := sub10WWW_g_spec a d b ha hd hb
      have hl' : x.length = y.length := by simpa using hl
      obtain ⟨h1, h2, h3, h4⟩ := ih y (sub10WWW_g a d b).2 hx' hy' hl' hw.2.2
      simp only [sub10VV]
      refine ⟨?_, WF_cons.mpr ⟨hw.2.1, h2⟩, by simp [h3], h4⟩
      simp only [natOf_cons, List.length_cons, pow_succ]
      have hw1 := hw.1
      rw [← B_eq] at hw1
      linear_combination B * h1 + hw1

/-! ### mulAdd10VWW / addMul10VVW -/

/-- one word step of `mulAdd10VWW`: `x*y + c` split in base `B`. -/
theorem mulAddDiv_word (x y c : Nat) (hx : x < 10000000000000000000) (hy : y < 10000000000000000000)
    (hc : c < 10000000000000000000) :
    div10W_g (mulAddWWW_g x y c).1 (mulAddWWW_g x y c).2
      = ((x * y + c) / 10000000000000000000, (x * y + c) % 10000000000000000000) := by
  rw [mulAddWWW_g_eq x y c (by simp only [W_eq]; omega) (by simp only [W_eq]; omega) (by simp only [W_eq]; omega)]
  have hxy : x * y ≤ 9999999999999999999 * 9999999999999999999 := Nat.mul_le_mul (by omega) (by omega)
  simp only []
  rw [div10W_g_spec _ _ (by simp only [W_eq]; omega) (by simp only [W_eq]; omega)]
  have : (x * y + c) / W * W + (x * y + c) % W = x * y + c := Nat.div_add_mod' _ _
  rw [this]

theorem mulAdd_word_bound (x y c : Nat) (hx : x < 10000000000000000000) (hy : y < 10000000000000000000)
    (hc : c < 10000000000000000000) : (x * y + c) / 10000000000000000000 < 10000000000000000000 := by
  have hxy : x * y ≤ 9999999999999999999 * 9999999999999999999 := Nat.mul_le_mul (by omega) (by omega)
  omega

theorem mulAdd10VWW_spec (x : List Nat) (y r : Nat) (hx : WF x) (hy : y < 10000000000000000000)
    (hr : r < 10000000000000000000) :
    natOf (mulAdd10VWW x y r).1 + (mulAdd10VWW x y r).2 * B ^ x.length = natOf x * y + r
      ∧ WF (mulAdd10VWW x y r).1 ∧ (mulAdd10VWW x y r).1.length = x.length
      ∧ (mulAdd10VWW x y r).2 < 10000000000000000000 := by
  induction x generalizing r with
  | nil => simp [mulAdd10VWW, natOf, WF_nil, hr]
  | cons a x ih =>
    have ⟨ha, hx'⟩ := WF_cons.mp hx
    have hw := mulAddDiv_word a y r ha hy hr
    have hbd := mulAdd_word_bound a y r ha hy hr
    obtain ⟨h1, h2, h3, h4⟩ := ih ((a * y + r) / 10000000000000000000) hx' hbd
    simp only [mulAdd10VWW, hw]
    refine ⟨?_, WF_cons.mpr ⟨Nat.mod_lt _ (by omega), h2⟩, by simp [h3], h4⟩
    simp only [natOf_cons, List.length_cons, pow_succ]
    have hdm : (a * y + r) % B + B * ((a * y + r) / B) = a * y + r := Nat.mod_add_div _ _
    rw [B_eq] at hdm
    rw [B_eq] at h1 ⊢
    linear_combination 10000000000000000000 * h1 + hdm

/-- one word step of `addMul10VVW`: `x*y + z + c` split in base `B`. -/
theorem addMulDiv_word (x y z c : Nat) (hx : x < 10000000000000000000) (hy : y < 10000000000000000000)
    (hz : z < 10000000000000000000) (hc : c < 10000000000000000000) :
    div10W_g (((mulAddWWW_g x y z).1 + ((mulAddWWW_g x y z).2 + c + 0) / W) % W)
        (((mulAddWWW_g x y z).2 + c + 0) % W)
      = ((x * y + z + c) / 10000000000000000000, (x * y + z + c) % 10000000000000000000) := by
  rw [mulAddWWW_g_eq x y z (by simp only [W_eq]; omega) (by simp only [W_eq]; omega) (by simp only [W_eq]; omega)]
  have hxy : x * y ≤ 9999999999999999999 * 9999999999999999999 := Nat.mul_le_mul (by omega) (by omega)
  simp only []
  have e1 : ((x * y + z) / W + ((x * y + z) % W + c + 0) / W) % W = (x * y + z + c) / W := by
    simp only [W_eq]; generalize x * y = p at *; omega
  have e2 : ((x * y + z) % W + c + 0) % W = (x * y + z + c) % W := by
    simp only [W_eq]; generalize x * y = p at *; omega
  rw [e1, e2]
  rw [div10W_g_spec _ _ (by simp only [W_eq]; omega) (by simp only [W_eq]; omega)]
  have : (x * y + z + c) / W * W + (x * y + z + c) % W = x * y + z + c := Nat.div_add_mod' _ _
  rw [this]

theorem addMul_word_bound (x y z c : Nat) (hx : x < 10000000000000000000) (hy : y < 10000000000000000000)
    (hz : z < 10000000000000000000) (hc : c < 10000000000000000000) :
    (x * y + z + c) / 10000000000000000000 < 10000000000000000000 := by
  have hxy : x * y ≤ 9999999999999999999 * 9999999999999999999 := Nat.mul_le_mul (by omega) (by omega)
  omega

theorem addMul10VVW_spec (z x : List Nat) (y c : Nat) (hz : WF z) (hx : WF x) (hl : z.length = x.length)
    (hy : y < 10000000000000000000) (hc : c < 10000000000000000000) :
    natOf (addMul10VVW z x y c).1 + (addMul10VVW z x y c).2 * B ^ x.length = natOf z + natOf x * y + c
      ∧ WF (addMul10VVW z x y c).1 ∧ (addMul10VVW z x y c).1.length = x.length
      ∧ (addMul10VVW z x y c).2 < 10000000000000000000 := by
  induction z generalizing x c with
  | nil =>
    cases x with
    | nil => simp [addMul10VVW, natOf, WF_nil, hc]
    | cons b y => simp at hl
  | cons d z ih =>
    cases x with
    | nil => simp at hl
    | cons a x =>
      have ⟨ha, hx'⟩ := WF_cons.mp hx
      have ⟨hd, hz'⟩ := WF_cons.mp hz
      have hw := addMulDiv_word a y d c ha hy hd hc
      have hbd := addMul_word_bound a y d c ha hy hd hc
      have hl' : z.length = x.length := by simpa using hl
      obtain ⟨h1, h2, h3, h4⟩ := ih x ((a * y + d + c) / 10000000000000000000) hz' hx' hl' hbd
      simp only [addMul10VVW, hw]
      refine ⟨?_, WF_cons.mpr ⟨Nat.mod_lt _ (by omega), h2⟩, by simp [h3], h4⟩
      simp only [natOf_cons, List.length_cons, pow_succ]
      have hdm : (a * y + d + c) % B + B * ((a * y + d + c) / B) = a * y + d + c := Nat.mod_add_div _ _
      rw [B_eq] at hdm
      rw [B_eq] at h1 ⊢
      linear_combination 10000000000000000000 * h1 + hdm

/-! ### div10VWW -/

theorem div10VWWrev_spec (x : List Nat) (y r : Nat) (hx : WF x) (hy0 : 0 < y)
    (hy : y ≤ 10000000000000000000) (hr : r < y) :
    natOf (div10VWWrev x y r).1 * y + (div10VWWrev x y r).2 = r * B ^ x.length + natOf x.reverse
      ∧ (div10VWWrev x y r).2 < y ∧ WF (div10VWWrev x y r).1
      ∧ (div10VWWrev x y r).1.length = x.length := by
  induction x generalizing r with
  | nil => simp [div10VWWrev, natOf, WF_nil, hr]
  | cons a x ih =>
    have ⟨ha, hx'⟩ := WF_cons.mp hx
    have hw := div10WW_g_spec r a y hr ha hy
    have hr1 : (r * 10000000000000000000 + a) % y < y := Nat.mod_lt _ hy0
    obtain ⟨h1, h2, h3, h4⟩ := ih _ hx' hr1
    have hq : (r * 10000000000000000000 + a) / y < 10000000000000000000 := by
      rw [Nat.div_lt_iff_lt_mul hy0]
      have : (r + 1) * 10000000000000000000 ≤ y * 10000000000000000000 := Nat.mul_le_mul_right _ (by omega)
      have e : 10000000000000000000 * y = y * 10000000000000000000 := Nat.mul_comm _ _
      omega
    simp only [div10VWWrev, hw]
    refine ⟨?_, h2, WF_append.mpr ⟨h3, WF_single.mpr hq⟩, by simp [h4]⟩
    simp only [List.reverse_cons, natOf_append, natOf_single, List.length_cons, pow_succ, h4,
      List.length_reverse]
    have hdm : (r * B + a) % y + y * ((r * B + a) / y) = r * B + a := Nat.mod_add_div _ _
    rw [B_eq] at hdm
    rw [B_eq] at h1 ⊢
    linear_combination h1 + 10000000000000000000 ^ x.length * hdm

theorem div10VWW_spec (x : List Nat) (y xn : Nat) (hx : WF x) (hy0 : 0 < y)
    (hy : y ≤ 10000000000000000000) (hr : xn < y) :
    natOf (div10VWW x y xn).1 * y + (div10VWW x y xn).2 = xn * B ^ x.length + natOf x
      ∧ (div10VWW x y xn).2 < y ∧ WF (div10VWW x y xn).1
      ∧ (div10VWW x y xn).1.length = x.length := by
  have := div10VWWrev_spec x.reverse y xn (WF_reverse.mpr hx) hy0 hy hr
  simpa [div10VWW] using this

/-! ### add10VW / sub10VW (with the early-exit copy) -/

theorem add10VWtail_spec (x : List Nat) (c : Nat) (hx : WF x) (hc : c ≤ 1) :
    natOf (add10VWtail x c).1 + (add10VWtail x c).2 * B ^ x.length = natOf x + c
      ∧ WF (add10VWtail x c).1 ∧ (add10VWtail x c).1.length = x.length ∧ (add10VWtail x c).2 ≤ 1 := by
  induction x with
  | nil => simp [add10VWtail, natOf, WF_nil, hc]
  | cons a x ih =>
    have ⟨ha, hx'⟩ := WF_cons.mp hx
    obtain ⟨h1, h2, h3, h4⟩ := ih hx'
    have hs : (a + c) % W = a + c := by simp only [W_eq]; omega
    simp only [add10VWtail, hs]
    by_cases hlt : a + c < c_DB
    · rw [if_pos hlt]
      have hlt' : a + c < 10000000000000000000 := hlt
      refine ⟨?_, WF_cons.mpr ⟨hlt', hx'⟩, by simp, by omega⟩
      simp only [natOf_cons]
      omega
    · rw [if_neg hlt]
      have hge : ¬ a + c < 10000000000000000000 := hlt
      refine ⟨?_, WF_cons.mpr ⟨by omega, h2⟩, by simp [h3], h4⟩
      simp only [natOf_cons, List.length_cons, pow_succ]
      have e : B * c = a + c := by rw [B_eq]; omega
      linear_combination B * h1 + e

theorem add10VW_spec (x : List Nat) (y : Nat) (hx : WF x) (hy : y < 10000000000000000000) :
    natOf (add10VW x y).1 + (add10VW x y).2 * B ^ x.length = natOf x + y
      ∧ WF (add10VW x y).1 ∧ (add10VW x y).1.length = x.length
      ∧ (add10VW x y).2 < 10000000000000000000 ∧ (x ≠ [] → (add10VW x y).2 ≤ 1) := by
  cases x with
  | nil => simp [add10VW, natOf, WF_nil, hy]
  | cons a x =>
    have ⟨ha, hx'⟩ := WF_cons.mp hx
    have hw := add10WWW_g_spec a y 0 ha hy (by omega)
    obtain ⟨h1, h2, h3, h4⟩ := add10VWtail_spec x (add10WWW_g a y 0).2 hx' hw.2.2
    simp only [add10VW]
    refine ⟨?_, WF_cons.mpr ⟨hw.2.1, h2⟩, by simp [h3], by omega, fun _ => h4⟩
    simp only [natOf_cons, List.length_cons, pow_succ]
    have hw1 := hw.1
    rw [← B_eq] at hw1
    linear_combination B * h1 + hw1

theorem sub10VW_spec (x : List Nat) (y : Nat) (hx : WF x) (hy : y < 10000000000000000000) :
    natOf (sub10VW x y).1 + y = natOf x + (sub10VW x y).2 * B ^ x.length
      ∧ WF (sub10VW x y).1 ∧ (sub10VW x y).1.length = x.length
      ∧ (sub10VW x y).2 < 10000000000000000000 ∧ (x ≠ [] → (sub10VW x y).2 ≤ 1) := by
  induction x generalizing y with
  | nil => simp [sub10VW, natOf, WF_nil, hy]
  | cons a x ih =>
    have ⟨ha, hx'⟩ := WF_cons.mp hx
    simp only [sub10VW]
    by_cases hge : a ≥ y
    · rw [if_pos hge]
      simp only [if_true]
      refine ⟨?_, WF_cons.mpr ⟨by omega, hx'⟩, by simp, by omega, fun _ => by omega⟩
      simp only [natOf_cons]
      omega
    · rw [if_neg hge]
      have h10 : ¬ ((1 : Nat) = 0) := by omega
      simp only [h10, if_false]
      obtain ⟨h1, h2, h3, h4, h5⟩ := ih 1 hx' (by omega)
      have hz : (a + W - y + c_DB) % W = a + 10000000000000000000 - y := by
        show (a + W - y + 10000000000000000000) % W = _
        simp only [W_eq]; omega
      rw [hz]
      refine ⟨?_, WF_cons.mpr ⟨by omega, h2⟩, by simp [h3], h4, fun _ => ?_⟩
      · simp only [natOf_cons, List.length_cons, pow_succ]
        have e : (a + 10000000000000000000 - y) + y = a + B := by rw [B_eq]; omega
        linear_combination B * h1 + e
      · cases x with
        | nil => simp [sub10VW]
        | cons b x => exact h5 (by simp)

/-! ### shl10VU / shr10VU -/

/-- row `k` of `pow10DivTab64` divides every 64-bit word by `10^k`. -/
theorem magic_div_pow10 (k w : Nat) (hk : 1 ≤ k) (hk' : k ≤ 18) (hw : w < 18446744073709551616) :
    magic_div (divisorPow10 k) w = (w / 10 ^ k, w % 10 ^ k) := by
  interval_cases k
  · exact magicRow1_ok w hw
  · exact magicRow2_ok w hw
  · exact magicRow3_ok w hw
  · exact magicRow4_ok w hw
  · exact magicRow5_ok w hw
  · exact magicRow6_ok w hw
  · exact magicRow7_ok w hw
  · exact magicRow8_ok w hw
  · exact magicRow9_ok w hw
  · exact magicRow10_ok w hw
  · exact magicRow11_ok w hw
  · exact magicRow12_ok w hw
  · exact magicRow13_ok w hw
  · exact magicRow14_ok w hw
  · exact magicRow15_ok w hw
  · exact magicRow16_ok w hw
  · exact magicRow17_ok w hw
  · exact magicRow18_ok w hw

theorem pow10w_eq (s : Nat) (hs : s ≤ 19) : pow10w s = 10 ^ s := by
  interval_cases s <;> rfl

theorem pow10_split (s : Nat) (hs : s ≤ 19) : 10 ^ (19 - s) * 10 ^ s = 10000000000000000000 := by
  rw [← pow_add]
  have : 19 - s + s = 19 := by omega
  rw [this]; rfl

theorem shlLoop_spec (d : Magic) (D M : Nat) (hDM : D * M = 10000000000000000000)
    (hd : ∀ w, w < 18446744073709551616 → magic_div d w = (w / D, w % D))
    (xs : List Nat) (l : Nat) (hxs : WF xs) (hl : l < D) :
    natOf (shlLoop d M xs l) = (l * B ^ xs.length + natOf xs.reverse) * M
      ∧ WF (shlLoop d M xs l) ∧ (shlLoop d M xs l).length = xs.length + 1 := by
  have hD0 : 0 < D := by omega
  have hM0 : 0 < M := by
    rcases Nat.eq_zero_or_pos M with h | h
    · rw [h] at hDM; omega
    · exact h
  have hlm : ∀ l, l < D → l * M + M ≤ 10000000000000000000 := by
    intro l hl
    have : (l + 1) * M ≤ D * M := Nat.mul_le_mul_right _ (by omega)
    rw [Nat.add_mul] at this
    omega
  induction xs generalizing l with
  | nil =>
    have := hlm l hl
    have e : (l * M) % W = l * M := by simp only [W_eq]; omega
    simp only [shlLoop, e]
    exact ⟨by simp [natOf], WF_single.mpr (by omega), rfl⟩
  | cons a xs ih =>
    have ⟨ha, hxs'⟩ := WF_cons.mp hxs
    have hda := hd a (by omega)
    have hl1 : a % D < D := Nat.mod_lt _ hD0
    have hh : a / D < M := by
      rw [Nat.div_lt_iff_lt_mul hD0, Nat.mul_comm, hDM]; exact ha
    obtain ⟨g1, g2, g3⟩ := ih (a % D) hxs' hl1
    have := hlm l hl
    have e0 : (l * M) % W = l * M := Nat.mod_eq_of_lt (by simp only [W_eq]; omega)
    have e : ((l * M) % W + a / D) % W = l * M + a / D := by
      rw [e0]; exact Nat.mod_eq_of_lt (by simp only [W_eq]; omega)
    simp only [shlLoop, hda, e]
    refine ⟨?_, WF_append.mpr ⟨g2, WF_single.mpr (by omega)⟩, by simp [g3]⟩
    rw [natOf_append, natOf_single, g1, g3, List.reverse_cons, natOf_append, natOf_single,
      List.length_reverse, List.length_cons, pow_succ]
    have hdm : a % D + D * (a / D) = a := Nat.mod_add_div _ _
    rw [B_eq]
    have hDM' : D * M = 10000000000000000000 := hDM
    linear_combination (10000000000000000000 ^ xs.length * M) * hdm
      - (10000000000000000000 ^ xs.length * (a / D)) * hDM'

/-- `shl10VU_spec`: `z + r·B^n = x·10^s` for `0 < s < 19`; `r` holds the digits shifted out. -/
theorem shl10VU_spec (x : List Nat) (s : Nat) (hx : WF x) (hs0 : 0 < s) (hs : s < 19) :
    natOf (shl10VU x s).1 + (shl10VU x s).2 * B ^ x.length = natOf x * 10 ^ s
      ∧ WF (shl10VU x s).1 ∧ (shl10VU x s).1.length = x.length ∧ (shl10VU x s).2 < 10 ^ s := by
  unfold shl10VU
  rw [if_neg (by omega)]
  have hxr : x = x.reverse.reverse := (List.reverse_reverse x).symm
  generalize x.reverse = y at hxr
  subst hxr
  cases y with
  | nil => exact ⟨by simp [natOf], WF_nil, rfl, Nat.pow_pos (by omega)⟩
  | cons top rest =>
    have ⟨htop, hrest⟩ := WF_cons.mp (WF_reverse.mp hx)
    have hDM := pow10_split s (by omega)
    have hcdw : c_DW - s = 19 - s := rfl
    have hd : ∀ w, w < 18446744073709551616 → magic_div (divisorPow10 (c_DW - s)) w
        = (w / 10 ^ (19 - s), w % 10 ^ (19 - s)) := by
      intro w hw; rw [hcdw]; exact magic_div_pow10 (19 - s) w (by omega) (by omega) hw
    have hD0 : 0 < 10 ^ (19 - s) := Nat.pow_pos (by omega)
    simp only [hd top (by omega), pow10w_eq s (by omega)]
    obtain ⟨g1, g2, g3⟩ := shlLoop_spec (divisorPow10 (c_DW - s)) (10 ^ (19 - s)) (10 ^ s) hDM hd rest
      (top % 10 ^ (19 - s)) hrest (Nat.mod_lt _ hD0)
    refine ⟨?_, g2, by simp [g3], ?_⟩
    · rw [g1, List.reverse_cons, natOf_append, natOf_single, List.length_append, List.length_reverse,
        List.length_cons, List.length_nil, pow_succ]
      have hdm : top % 10 ^ (19 - s) + 10 ^ (19 - s) * (top / 10 ^ (19 - s)) = top := Nat.mod_add_div _ _
      rw [B_eq]
      generalize 10 ^ (19 - s) = D at *
      generalize 10 ^ s = M at *
      linear_combination (10000000000000000000 ^ rest.length * M) * hdm
        - (10000000000000000000 ^ rest.length * (top / D)) * hDM
    · rw [Nat.div_lt_iff_lt_mul hD0, Nat.mul_comm, hDM]; exact htop

theorem shl10VU_zero (x : List Nat) : shl10VU x 0 = (x, 0) := by
  unfold shl10VU; rw [if_pos rfl]

theorem shrLoop_spec (d : Magic) (D M : Nat) (hDM : D * M = 10000000000000000000)
    (hd : ∀ w, w < 18446744073709551616 → magic_div d w = (w / D, w % D))
    (xs : List Nat) (h : Nat) (hxs : WF xs) (hh : h < M) :
    natOf (shrLoop d M xs h) = h + M * natOf xs
      ∧ WF (shrLoop d M xs h) ∧ (shrLoop d M xs h).length = xs.length + 1 := by
  have hM0 : 0 < M := by omega
  have hD0 : 0 < D := by
    rcases Nat.eq_zero_or_pos D with h | h
    · rw [h] at hDM; omega
    · exact h
  induction xs generalizing h with
  | nil => exact ⟨by simp [shrLoop, natOf], WF_single.mpr (by
      have : 1 * M ≤ D * M := Nat.mul_le_mul_right _ hD0
      omega), rfl⟩
  | cons a xs ih =>
    have ⟨ha, hxs'⟩ := WF_cons.mp hxs
    have hda := hd a (by omega)
    have hl1 : a % D < D := Nat.mod_lt _ hD0
    have hh1 : a / D < M := by
      rw [Nat.div_lt_iff_lt_mul hD0, Nat.mul_comm, hDM]; exact ha
    obtain ⟨g1, g2, g3⟩ := ih (a / D) hxs' hh1
    have hlm : (a % D) * M + M ≤ 10000000000000000000 := by
      have : (a % D + 1) * M ≤ D * M := Nat.mul_le_mul_right _ (by omega)
      rw [Nat.add_mul] at this
      omega
    have e0 : ((a % D) * M) % W = (a % D) * M := Nat.mod_eq_of_lt (by simp only [W_eq]; omega)
    have e : (h + ((a % D) * M) % W) % W = h + (a % D) * M := by
      rw [e0]; exact Nat.mod_eq_of_lt (by simp only [W_eq]; omega)
    simp only [shrLoop, hda, e]
    refine ⟨?_, WF_cons.mpr ⟨by omega, g2⟩, by simp [g3]⟩
    rw [natOf_cons, g1, natOf_cons]
    have hdm : a % D + D * (a / D) = a := Nat.mod_add_div _ _
    rw [B_eq]
    linear_combination M * hdm - (a / D) * hDM

/-- `shr10VU_spec`: `z·10^s + r = x` for `0 < s < 19`; the kernel returns the shifted-out digits
    scaled to the top of a word, `r·10^(19-s)`. -/
theorem shr10VU_spec (x : List Nat) (s : Nat) (hx : WF x) (hs0 : 0 < s) (hs : s < 19) :
    ∃ r, r < 10 ^ s ∧ (shr10VU x s).2 = r * 10 ^ (19 - s)
      ∧ natOf (shr10VU x s).1 * 10 ^ s + r = natOf x
      ∧ WF (shr10VU x s).1 ∧ (shr10VU x s).1.length = x.length := by
  unfold shr10VU
  rw [if_neg (by omega)]
  cases x with
  | nil => exact ⟨0, Nat.pow_pos (by omega), by simp, by simp [natOf], WF_nil, rfl⟩
  | cons x0 xs =>
    have ⟨hx0, hxs⟩ := WF_cons.mp hx
    have hDM : 10 ^ s * 10 ^ (19 - s) = 10000000000000000000 := by
      rw [Nat.mul_comm]; exact pow10_split s (by omega)
    have hcdw : c_DW - s = 19 - s := rfl
    have hd : ∀ w, w < 18446744073709551616 → magic_div (divisorPow10 s) w = (w / 10 ^ s, w % 10 ^ s) :=
      fun w hw => magic_div_pow10 s w (by omega) (by omega) hw
    have hD0 : 0 < 10 ^ s := Nat.pow_pos (by omega)
    have hh : x0 / 10 ^ s < 10 ^ (19 - s) := by
      rw [Nat.div_lt_iff_lt_mul hD0, Nat.mul_comm, hDM]; exact hx0
    simp only [hd x0 (by omega), hcdw, pow10w_eq (19 - s) (by omega)]
    obtain ⟨g1, g2, g3⟩ := shrLoop_spec (divisorPow10 s) (10 ^ s) (10 ^ (19 - s)) hDM hd xs
      (x0 / 10 ^ s) hxs hh
    have hlm : (x0 % 10 ^ s) * 10 ^ (19 - s) < 10000000000000000000 := by
      rw [← hDM]; exact Nat.mul_lt_mul_of_pos_right (Nat.mod_lt _ hD0) (Nat.pow_pos (by omega))
    refine ⟨x0 % 10 ^ s, Nat.mod_lt _ hD0, ?_, ?_, g2, by simp [g3]⟩
    · exact Nat.mod_eq_of_lt (by simp only [W_eq]; omega)
    · rw [g1, natOf_cons]
      have hdm : x0 % 10 ^ s + 10 ^ s * (x0 / 10 ^ s) = x0 := Nat.mod_add_div _ _
      rw [B_eq]
      generalize 10 ^ (19 - s) = M at *
      generalize 10 ^ s = D at *
      linear_combination hdm + natOf xs * hDM

theorem shr10VU_zero (x : List Nat) : shr10VU x 0 = (x, 0) := by
  unfold shr10VU; rw [if_pos rfl]

end Decimal.L0
