/-
  Helper lemmas for C10: observational equivalence of receiver states, and the dependence of
  the internal routines on the receiver only through `neg`, `prec`, `mode`.
  Core Lean only.
-/
import Proofs.Attr

namespace Decimal

/-- Observational equivalence of two `Decimal` states: everything a Go client can read.
    `mant`, `len`, `exp` of a zero or an infinity are stale storage. -/
def obsEq (a b : Dec) : Prop :=
  a.form = b.form ∧ a.neg = b.neg ∧ a.prec = b.prec ∧ a.mode = b.mode ∧ a.acc = b.acc ∧
    (a.form = .finite → a.mant = b.mant ∧ a.len = b.len ∧ a.exp = b.exp)

instance (a b : Dec) : Decidable (obsEq a b) := by unfold obsEq; infer_instance

/-- The same value (class, sign and, when finite, mantissa and exponent); attributes ignored. -/
def valEq (a b : Dec) : Prop :=
  a.form = b.form ∧ a.neg = b.neg ∧
    (a.form = .finite → a.mant = b.mant ∧ a.len = b.len ∧ a.exp = b.exp)

/-- Same result state up to `obsEq`, same outcome. -/
def resEq (r₁ r₂ : Dec × Outcome) : Prop := obsEq r₁.1 r₂.1 ∧ r₁.2 = r₂.2

theorem obsEq.refl (a : Dec) : obsEq a a := ⟨rfl, rfl, rfl, rfl, rfl, fun _ => ⟨rfl, rfl, rfl⟩⟩

theorem obsEq.of_eq {a b : Dec} (h : a = b) : obsEq a b := h ▸ obsEq.refl a

theorem obsEq.symm {a b : Dec} (h : obsEq a b) : obsEq b a := by
  obtain ⟨h1, h2, h3, h4, h5, h6⟩ := h
  refine ⟨h1.symm, h2.symm, h3.symm, h4.symm, h5.symm, fun hf => ?_⟩
  obtain ⟨a1, a2, a3⟩ := h6 (h1 ▸ hf)
  exact ⟨a1.symm, a2.symm, a3.symm⟩

theorem obsEq.trans {a b c : Dec} (h : obsEq a b) (g : obsEq b c) : obsEq a c := by
  obtain ⟨h1, h2, h3, h4, h5, h6⟩ := h
  obtain ⟨g1, g2, g3, g4, g5, g6⟩ := g
  refine ⟨h1.trans g1, h2.trans g2, h3.trans g3, h4.trans g4, h5.trans g5, fun hf => ?_⟩
  obtain ⟨a1, a2, a3⟩ := h6 hf
  obtain ⟨b1, b2, b3⟩ := g6 (h1 ▸ hf)
  exact ⟨a1.trans b1, a2.trans b2, a3.trans b3⟩

theorem resEq.refl (r : Dec × Outcome) : resEq r r := ⟨obsEq.refl _, rfl⟩
theorem resEq.of_eq {r s : Dec × Outcome} (h : r = s) : resEq r s := h ▸ resEq.refl r
theorem resEq.symm {r s : Dec × Outcome} (h : resEq r s) : resEq s r := ⟨h.1.symm, h.2.symm⟩
theorem resEq.trans {r s t : Dec × Outcome} (h : resEq r s) (g : resEq s t) : resEq r t :=
  ⟨h.1.trans g.1, h.2.trans g.2⟩

theorem valEq.refl (a : Dec) : valEq a a := ⟨rfl, rfl, fun _ => ⟨rfl, rfl, rfl⟩⟩
theorem obsEq.valEq {a b : Dec} (h : obsEq a b) : valEq a b := ⟨h.1, h.2.1, h.2.2.2.2.2⟩

/-- Two states that agree on every field but `acc`. -/
theorem eq_of_fields {a b : Dec} (h1 : a.form = b.form) (h2 : a.neg = b.neg) (h3 : a.mant = b.mant)
    (h4 : a.len = b.len) (h5 : a.exp = b.exp) (h6 : a.prec = b.prec) (h7 : a.mode = b.mode)
    (h8 : a.acc = b.acc) : a = b := by
  cases a; cases b; simp_all

theorem round_acc_irrel (z : Dec) (a : Acc) (s : Bool) : round { z with acc := a } s = round z s := rfl

theorem round_nonfinite (z : Dec) (s : Bool) (h : z.form ≠ .finite) :
    round z s = { z with acc := Exact } := by
  simp [round, h]

/-- `round` reads the class, sign, attributes and (when finite) the mantissa and exponent. -/
theorem round_obs {z₁ z₂ : Dec} (s : Bool) (hv : valEq z₁ z₂) (hp : z₁.prec = z₂.prec)
    (hm : z₁.mode = z₂.mode) : obsEq (round z₁ s) (round z₂ s) := by
  obtain ⟨h1, h2, h3⟩ := hv
  by_cases hf : z₁.form = .finite
  · obtain ⟨a1, a2, a3⟩ := h3 hf
    have : ({ z₁ with acc := Exact } : Dec) = { z₂ with acc := Exact } :=
      eq_of_fields h1 h2 a1 a2 a3 hp hm rfl
    rw [← round_acc_irrel z₁ Exact, ← round_acc_irrel z₂ Exact, this]
    exact obsEq.refl _
  · have hf2 : z₂.form ≠ .finite := h1 ▸ hf
    rw [round_nonfinite _ _ hf, round_nonfinite _ _ hf2]
    exact ⟨h1, h2, hp, hm, rfl, fun h => absurd h hf⟩

theorem setExpAndRound_obs {z₁ z₂ : Dec} (e : Int) (s : Bool) (hn : z₁.neg = z₂.neg)
    (hM : z₁.mant = z₂.mant) (hl : z₁.len = z₂.len) (hp : z₁.prec = z₂.prec)
    (hm : z₁.mode = z₂.mode) : obsEq (setExpAndRound z₁ e s) (setExpAndRound z₂ e s) := by
  unfold setExpAndRound
  split
  · exact ⟨rfl, hn, hp, hm, by simp [hn], fun h => by simp at h⟩
  · split
    · exact ⟨rfl, hn, hp, hm, by simp [hn], fun h => by simp at h⟩
    · exact round_obs s ⟨rfl, hn, fun _ => ⟨hM, hl, rfl⟩⟩ hp hm

/-- `setNormAndRound` reads only `neg`, `prec`, `mode` of the receiver. -/
theorem setNormAndRound_obs {z₁ z₂ : Dec} (M : Nat) (e : Int) (s : Bool) (hn : z₁.neg = z₂.neg)
    (hp : z₁.prec = z₂.prec) (hm : z₁.mode = z₂.mode) :
    obsEq (setNormAndRound z₁ M e s) (setNormAndRound z₂ M e s) := by
  unfold setNormAndRound
  exact setExpAndRound_obs _ _ hn rfl rfl hp hm

theorem uadd_obs {z₁ z₂ : Dec} (x y : Dec) (hn : z₁.neg = z₂.neg)
    (hp : z₁.prec = z₂.prec) (hm : z₁.mode = z₂.mode) : obsEq (uadd z₁ x y) (uadd z₂ x y) := by
  simp only [uadd]
  repeat' split
  all_goals exact setNormAndRound_obs _ _ _ hn hp hm

theorem usub_obs {z₁ z₂ : Dec} (x y : Dec) (hn : z₁.neg = z₂.neg)
    (hp : z₁.prec = z₂.prec) (hm : z₁.mode = z₂.mode) : obsEq (usub z₁ x y) (usub z₂ x y) := by
  simp only [usub]
  repeat' split
  all_goals first
    | exact setNormAndRound_obs _ _ _ hn hp hm
    | exact ⟨rfl, rfl, hp, hm, rfl, fun h => by simp at h⟩

theorem umul_obs {z₁ z₂ : Dec} (x y : Dec) (hn : z₁.neg = z₂.neg)
    (hp : z₁.prec = z₂.prec) (hm : z₁.mode = z₂.mode) : obsEq (umul z₁ x y) (umul z₂ x y) := by
  unfold umul
  exact setNormAndRound_obs _ _ _ hn hp hm

theorem uquo_obs {z₁ z₂ : Dec} (x y : Dec) (hn : z₁.neg = z₂.neg)
    (hp : z₁.prec = z₂.prec) (hm : z₁.mode = z₂.mode) : obsEq (uquo z₁ x y) (uquo z₂ x y) := by
  simp only [uquo, hp]
  exact setNormAndRound_obs _ _ _ hn hp hm

theorem zeroSignFix_obs {z₁ z₂ : Dec} (h : obsEq z₁ z₂) : obsEq (zeroSignFix z₁) (zeroSignFix z₂) := by
  obtain ⟨h1, h2, h3, h4, h5, h6⟩ := h
  unfold zeroSignFix
  have hc : (z₁.form == .zero && z₁.mode == .ToNegativeInf && z₁.acc == Exact) =
      (z₂.form == .zero && z₂.mode == .ToNegativeInf && z₂.acc == Exact) := by rw [h1, h4, h5]
  rw [hc]
  split
  · exact ⟨h1, rfl, h3, h4, h5, h6⟩
  · exact ⟨h1, h2, h3, h4, h5, h6⟩


/-- `Add` after the attribute prologue and operand selection; `sX`/`sY` are the results of the
    two possible delegations to `Set`. -/
def addK (z x y sX sY : Dec) : Dec × Outcome :=
  if x.form == .finite && y.form == .finite then
    let z := { z with neg := x.neg }
    let z :=
      if x.neg == y.neg then uadd z x y
      else if ucmp x y > 0 then usub z x y
      else usub { z with neg := !z.neg } y x
    (zeroSignFix z, .ok)
  else if x.form == .inf && y.form == .inf && x.neg != y.neg then
    ({ z with acc := Exact, form := .zero, neg := false }, .errNaN)
  else if x.form == .zero && y.form == .zero then
    let zneg := (x.neg && y.neg) || (x.neg != y.neg && z.mode == .ToNegativeInf)
    ({ z with acc := Exact, form := .zero, neg := zneg }, .ok)
  else if x.form == .inf || y.form == .zero then (sX, .ok)
  else (sY, .ok)

theorem add_eq_addK (z x y : Dec) (sx sy : Bool) :
    add z x y sx sy =
      addK (prologue z (umax x.prec y.prec))
        (opnd (prologue z (umax x.prec y.prec)) x sx) (opnd (prologue z (umax x.prec y.prec)) y sy)
        (set (prologue z (umax x.prec y.prec)) (opnd (prologue z (umax x.prec y.prec)) x sx) sx)
        (set (prologue z (umax x.prec y.prec)) (opnd (prologue z (umax x.prec y.prec)) y sy) sy) := rfl

/-- The value fields of an operand. -/
def strip (x : Dec) : Dec := { form := x.form, neg := x.neg, mant := x.mant, len := x.len, exp := x.exp }

theorem strip_eq_of_valEq {a b : Dec} (h : valEq a b) (hf : a.form = .finite) : strip a = strip b := by
  obtain ⟨h1, h2, h3⟩ := h
  obtain ⟨a1, a2, a3⟩ := h3 hf
  simp [strip, h1, h2, a1, a2, a3]

theorem addK_strip_x (z x y sX sY : Dec) : addK z x y sX sY = addK z (strip x) y sX sY := rfl
theorem addK_strip_y (z x y sX sY : Dec) : addK z x y sX sY = addK z x (strip y) sX sY := rfl

theorem addK_val_x {x₁ x₂ : Dec} (z y sX sY : Dec) (h : valEq x₁ x₂) :
    addK z x₁ y sX sY = addK z x₂ y sX sY := by
  by_cases hf : x₁.form = .finite
  · rw [addK_strip_x z x₁, addK_strip_x z x₂, strip_eq_of_valEq h hf]
  · obtain ⟨h1, h2, h3⟩ := h
    have hf2 : x₂.form ≠ .finite := h1 ▸ hf
    simp [addK, h1, h2, hf2]

theorem addK_val_y {y₁ y₂ : Dec} (z x sX sY : Dec) (h : valEq y₁ y₂) :
    addK z x y₁ sX sY = addK z x y₂ sX sY := by
  by_cases hf : y₁.form = .finite
  · rw [addK_strip_y z x y₁, addK_strip_y z x y₂, strip_eq_of_valEq h hf]
  · obtain ⟨h1, h2, h3⟩ := h
    have hf2 : y₂.form ≠ .finite := h1 ▸ hf
    simp [addK, h1, h2, hf2]

theorem addK_recv {z₁ z₂ sX₁ sX₂ sY₁ sY₂ : Dec} (x y : Dec) (hp : z₁.prec = z₂.prec)
    (hm : z₁.mode = z₂.mode) (hX : obsEq sX₁ sX₂) (hY : obsEq sY₁ sY₂) :
    resEq (addK z₁ x y sX₁ sY₁) (addK z₂ x y sX₂ sY₂) := by
  simp only [addK]
  split
  · refine ⟨zeroSignFix_obs ?_, rfl⟩
    split
    · exact uadd_obs _ _ rfl hp hm
    · split
      · exact usub_obs _ _ rfl hp hm
      · exact usub_obs _ _ rfl hp hm
  · split
    · exact ⟨⟨rfl, rfl, hp, hm, rfl, fun h => by simp at h⟩, rfl⟩
    · split
      · exact ⟨⟨rfl, by simp [hm], hp, hm, rfl, fun h => by simp at h⟩, rfl⟩
      · split
        · exact ⟨hX, rfl⟩
        · exact ⟨hY, rfl⟩

theorem addK_congr {z₁ z₂ x₁ x₂ y₁ y₂ sX₁ sX₂ sY₁ sY₂ : Dec} (hp : z₁.prec = z₂.prec)
    (hm : z₁.mode = z₂.mode) (hx : valEq x₁ x₂) (hy : valEq y₁ y₂) (hX : obsEq sX₁ sX₂)
    (hY : obsEq sY₁ sY₂) : resEq (addK z₁ x₁ y₁ sX₁ sY₁) (addK z₂ x₂ y₂ sX₂ sY₂) := by
  rw [addK_val_x _ _ _ _ hx, addK_val_y _ _ _ _ hy]
  exact addK_recv _ _ hp hm hX hY


/-! ### prologue -/

theorem strip_prologue (z : Dec) (P : Nat) : strip (prologue z P) = strip z := by
  unfold prologue; split <;> rfl

theorem valEq_of_strip {a b : Dec} (h : strip a = strip b) : valEq a b := by
  simp only [strip, Dec.mk.injEq] at h
  obtain ⟨h1, h2, h3, h4, h5, -⟩ := h
  exact ⟨h1, h2, fun _ => ⟨h3, h4, h5⟩⟩

theorem valEq_prologue (z : Dec) (P : Nat) : valEq (prologue z P) z :=
  valEq_of_strip (strip_prologue z P)

theorem prologue_prec_zero {z : Dec} {P : Nat} (h : (prologue z P).prec = 0) : z.prec = 0 := by
  rw [prologue_prec] at h; split at h <;> assumption

theorem prologue_prec_ge (z : Dec) (P : Nat) : z.prec ≤ (prologue z P).prec := by
  rw [prologue_prec]; split <;> omega

theorem prologue_of_zero {z : Dec} {P : Nat} (h : z.prec = 0) : prologue z P = { z with prec := P } := by
  simp [prologue, h]

theorem prologue_of_nonzero {z : Dec} {P : Nat} (h : z.prec ≠ 0) : prologue z P = z := by
  simp [prologue, h]

theorem prologue_same_prec {z : Dec} {P Q : Nat} (h : z.prec = 0 → P = Q) : prologue z P = prologue z Q := by
  by_cases h0 : z.prec = 0
  · rw [prologue_of_zero h0, prologue_of_zero h0, h h0]
  · rw [prologue_of_nonzero h0, prologue_of_nonzero h0]

/-- The receiver's precision and mode determine the prologue's. -/
theorem prologue_attr {z₁ z₂ : Dec} (P : Nat) (hp : z₁.prec = z₂.prec) (hm : z₁.mode = z₂.mode) :
    (prologue z₁ P).prec = (prologue z₂ P).prec ∧ (prologue z₁ P).mode = (prologue z₂ P).mode := by
  rw [prologue_prec, prologue_prec, prologue_mode, prologue_mode, hp, hm]; exact ⟨rfl, rfl⟩

/-! ### set -/

/-- The value copy at the beginning of `Set`. -/
def setBody (z x : Dec) : Dec :=
  let z := { z with acc := Exact, form := x.form, neg := x.neg }
  if x.form == .finite then { z with exp := x.exp, mant := x.mant, len := x.len } else z

theorem set_eq_body (z x : Dec) :
    set z x false =
      if (setBody z x).prec == 0 then { setBody z x with prec := x.prec }
      else if (setBody z x).prec < x.prec then round (setBody z x) false
      else setBody z x := rfl

theorem setBody_prec (z x : Dec) : (setBody z x).prec = z.prec := by
  unfold setBody; split <;> rfl
theorem setBody_mode (z x : Dec) : (setBody z x).mode = z.mode := by
  unfold setBody; split <;> rfl
theorem setBody_acc (z x : Dec) : (setBody z x).acc = Exact := by
  unfold setBody; split <;> rfl
theorem setBody_valEq (z x : Dec) : valEq (setBody z x) x := by
  unfold setBody; split
  · exact ⟨rfl, rfl, fun _ => ⟨rfl, rfl, rfl⟩⟩
  · next h => exact ⟨rfl, rfl, fun h' => absurd (show x.form = .finite from h') (by simpa using h)⟩

theorem valEq.symm {a b : Dec} (h : valEq a b) : valEq b a := by
  obtain ⟨h1, h2, h3⟩ := h
  refine ⟨h1.symm, h2.symm, fun hf => ?_⟩
  obtain ⟨a1, a2, a3⟩ := h3 (h1 ▸ hf)
  exact ⟨a1.symm, a2.symm, a3.symm⟩

theorem valEq.trans {a b c : Dec} (h : valEq a b) (g : valEq b c) : valEq a c := by
  obtain ⟨h1, h2, h3⟩ := h
  obtain ⟨g1, g2, g3⟩ := g
  refine ⟨h1.trans g1, h2.trans g2, fun hf => ?_⟩
  obtain ⟨a1, a2, a3⟩ := h3 hf
  obtain ⟨b1, b2, b3⟩ := g3 (h1 ▸ hf)
  exact ⟨a1.trans b1, a2.trans b2, a3.trans b3⟩

/-- `z.Set(x)` for distinct variables reads `x`'s value, and `x.prec` only through the two tests. -/
theorem set_obs {z₁ z₂ x₁ x₂ : Dec} (hp : z₁.prec = z₂.prec) (hm : z₁.mode = z₂.mode)
    (hv : valEq x₁ x₂) (h0 : z₁.prec = 0 → x₁.prec = x₂.prec)
    (hlt : z₁.prec < x₁.prec ↔ z₂.prec < x₂.prec) :
    obsEq (set z₁ x₁ false) (set z₂ x₂ false) := by
  have hw : valEq (setBody z₁ x₁) (setBody z₂ x₂) :=
    (setBody_valEq z₁ x₁).trans (hv.trans (setBody_valEq z₂ x₂).symm)
  have hwp : (setBody z₁ x₁).prec = (setBody z₂ x₂).prec := by rw [setBody_prec, setBody_prec, hp]
  have hwm : (setBody z₁ x₁).mode = (setBody z₂ x₂).mode := by rw [setBody_mode, setBody_mode, hm]
  have hwa : (setBody z₁ x₁).acc = (setBody z₂ x₂).acc := by rw [setBody_acc, setBody_acc]
  rw [set_eq_body, set_eq_body]
  by_cases hz : z₁.prec = 0
  · have hz2 : z₂.prec = 0 := hp ▸ hz
    simp only [setBody_prec, hz, hz2, beq_self_eq_true, if_true]
    exact ⟨hw.1, hw.2.1, h0 hz, hwm, hwa, hw.2.2⟩
  · have hz2 : z₂.prec ≠ 0 := hp ▸ hz
    simp only [setBody_prec, beq_iff_eq, hz, hz2, if_false]
    by_cases hl : z₁.prec < x₁.prec
    · have hl2 := hlt.mp hl
      simp only [hl, hl2, if_true]
      exact round_obs _ hw hwp hwm
    · have hl2 : ¬ z₂.prec < x₂.prec := fun h => hl (hlt.mpr h)
      simp only [hl, hl2, if_false]
      exact ⟨hw.1, hw.2.1, hwp, hwm, hwa, hw.2.2⟩

/-- `z.Set(z)` is `z.Set(x)` for a distinct `x` holding `z`'s value and a precision the
    receiver can hold. -/
theorem set_alias {z x : Dec} (h : strip x = strip z) (h0 : z.prec = 0 → x.prec = 0)
    (hle : x.prec ≤ z.prec) : set z x false = set z z true := by
  have hb : setBody z x = { z with acc := Exact } := by
    simp only [strip, Dec.mk.injEq] at h
    obtain ⟨h1, h2, h3, h4, h5, -⟩ := h
    unfold setBody
    split <;> exact eq_of_fields h1 h2 (by simp [h3]) (by simp [h4]) (by simp [h5]) rfl rfl rfl
  rw [set_eq_body, hb]
  by_cases hz : z.prec = 0
  · simp [hz, h0 hz, set]
  · have : ¬ z.prec < x.prec := by omega
    simp [hz, this, set]


/-! ### Add -/

theorem alias_opnd_val (z' z x : Dec) (sx : Bool) (h : valEq z' z) :
    valEq (opnd z' (opnd z x sx) sx) (opnd z x sx) := by
  cases sx
  · exact valEq.refl _
  · exact h

theorem alias_set (z x : Dec) (sx : Bool) (P : Nat) :
    set (prologue z P) (opnd (prologue z P) (opnd z x sx) sx) sx =
      set (prologue z P) (opnd z x sx) false := by
  cases sx
  · rfl
  · exact (set_alias (strip_prologue z P).symm (fun h => prologue_prec_zero h) (prologue_prec_ge z P)).symm

/-- Aliasing flags are irrelevant: an operand that *is* the receiver behaves like a distinct
    variable holding the receiver's state. -/
theorem add_alias (z x y : Dec) (sx sy : Bool) :
    add z (opnd z x sx) (opnd z y sy) sx sy = add z (opnd z x sx) (opnd z y sy) false false := by
  rw [add_eq_addK, add_eq_addK, alias_set, alias_set]
  rw [addK_val_x _ _ _ _ (alias_opnd_val _ z x sx (valEq_prologue z _)),
    addK_val_y _ _ _ _ (alias_opnd_val _ z y sy (valEq_prologue z _))]
  rfl

theorem umax_umax_right (a b : Nat) : umax (umax a b) b = umax a b := by
  unfold umax; repeat' split
  all_goals omega
theorem umax_umax_left (a b : Nat) : umax a (umax a b) = umax a b := by
  unfold umax; repeat' split
  all_goals omega

theorem prologue_idem (z : Dec) (P Q : Nat) (h : z.prec = 0 → Q = P) :
    prologue z Q = prologue z P := prologue_same_prec h

theorem set_self (z : Dec) : set z z false = set z z true :=
  set_alias rfl (fun h => h) (Nat.le_refl _)

/-- The form asked for: `z.Add(z, y)` is `z.Add(z', y)` for a distinct `z'` holding the
    receiver's state after the precision prologue. -/
theorem add_alias_x' (z x y : Dec) :
    add z x y true false = add z (prologue z (umax x.prec y.prec)) y false false := by
  rw [add_eq_addK, add_eq_addK]
  have : prologue z (umax (prologue z (umax x.prec y.prec)).prec y.prec) = prologue z (umax x.prec y.prec) := by
    apply prologue_same_prec
    intro h; rw [prologue_of_zero h]; exact umax_umax_right _ _
  rw [this]
  simp only [opnd, if_true, Bool.false_eq_true, if_false, set_self]

theorem add_alias_y' (z x y : Dec) :
    add z x y false true = add z x (prologue z (umax x.prec y.prec)) false false := by
  rw [add_eq_addK, add_eq_addK]
  have : prologue z (umax x.prec (prologue z (umax x.prec y.prec)).prec) = prologue z (umax x.prec y.prec) := by
    apply prologue_same_prec
    intro h; rw [prologue_of_zero h]; exact umax_umax_left _ _
  rw [this]
  simp only [opnd, if_true, Bool.false_eq_true, if_false, set_self]

/-- Full congruence of `Add` on distinct variables: the result depends on the receiver only
    through `prec` and `mode`, and on the operands only through their value and precision. -/
theorem add_congr {z₁ z₂ x₁ x₂ y₁ y₂ : Dec} (hp : z₁.prec = z₂.prec) (hm : z₁.mode = z₂.mode)
    (hx : valEq x₁ x₂) (hxp : x₁.prec = x₂.prec) (hy : valEq y₁ y₂) (hyp : y₁.prec = y₂.prec) :
    resEq (add z₁ x₁ y₁ false false) (add z₂ x₂ y₂ false false) := by
  rw [add_eq_addK, add_eq_addK, hxp, hyp]
  obtain ⟨hp', hm'⟩ := prologue_attr (umax x₂.prec y₂.prec) hp hm
  simp only [opnd, Bool.false_eq_true, if_false]
  exact addK_congr hp' hm' hx hy
    (set_obs hp' hm' hx (fun _ => hxp) (by rw [hp', hxp]))
    (set_obs hp' hm' hy (fun _ => hyp) (by rw [hp', hyp]))


/-! ### Sub -/

/-- The last branch of `Sub` (`±0 − y`, `x − ±Inf`): `y` copied with the sign flipped, rounded. -/
def subTail (z y : Dec) (sy : Bool) : Dec :=
  let z := { z with acc := Exact }
  let z := if sy then z else
    let z := { z with form := y.form }
    if y.form == .finite then { z with exp := y.exp, mant := y.mant, len := y.len } else z
  let z := { z with neg := !y.neg }
  round z false

def subK (z x y sX sT : Dec) : Dec × Outcome :=
  if x.form == .finite && y.form == .finite then
    let z := { z with neg := x.neg }
    let z :=
      if x.neg != y.neg then uadd z x y
      else if ucmp x y > 0 then usub z x y
      else usub { z with neg := !z.neg } y x
    (zeroSignFix z, .ok)
  else if x.form == .inf && y.form == .inf && x.neg == y.neg then
    ({ z with acc := Exact, form := .zero, neg := false }, .errNaN)
  else if x.form == .zero && y.form == .zero then
    let zneg := (x.neg && !y.neg) || (x.neg == y.neg && z.mode == .ToNegativeInf)
    ({ z with acc := Exact, form := .zero, neg := zneg }, .ok)
  else if x.form == .inf || y.form == .zero then (sX, .ok)
  else (sT, .ok)

theorem sub_eq_subK (z x y : Dec) (sx sy : Bool) :
    sub z x y sx sy =
      subK (prologue z (umax x.prec y.prec))
        (opnd (prologue z (umax x.prec y.prec)) x sx) (opnd (prologue z (umax x.prec y.prec)) y sy)
        (set (prologue z (umax x.prec y.prec)) (opnd (prologue z (umax x.prec y.prec)) x sx) sx)
        (subTail (prologue z (umax x.prec y.prec)) (opnd (prologue z (umax x.prec y.prec)) y sy) sy) := rfl

theorem subK_strip_x (z x y sX sY : Dec) : subK z x y sX sY = subK z (strip x) y sX sY := rfl
theorem subK_strip_y (z x y sX sY : Dec) : subK z x y sX sY = subK z x (strip y) sX sY := rfl

theorem subK_val_x {x₁ x₂ : Dec} (z y sX sY : Dec) (h : valEq x₁ x₂) :
    subK z x₁ y sX sY = subK z x₂ y sX sY := by
  by_cases hf : x₁.form = .finite
  · rw [subK_strip_x z x₁, subK_strip_x z x₂, strip_eq_of_valEq h hf]
  · obtain ⟨h1, h2, h3⟩ := h
    have hf2 : x₂.form ≠ .finite := h1 ▸ hf
    simp [subK, h1, h2, hf2]

theorem subK_val_y {y₁ y₂ : Dec} (z x sX sY : Dec) (h : valEq y₁ y₂) :
    subK z x y₁ sX sY = subK z x y₂ sX sY := by
  by_cases hf : y₁.form = .finite
  · rw [subK_strip_y z x y₁, subK_strip_y z x y₂, strip_eq_of_valEq h hf]
  · obtain ⟨h1, h2, h3⟩ := h
    have hf2 : y₂.form ≠ .finite := h1 ▸ hf
    simp [subK, h1, h2, hf2]

theorem subK_recv {z₁ z₂ sX₁ sX₂ sY₁ sY₂ : Dec} (x y : Dec) (hp : z₁.prec = z₂.prec)
    (hm : z₁.mode = z₂.mode) (hX : obsEq sX₁ sX₂) (hY : obsEq sY₁ sY₂) :
    resEq (subK z₁ x y sX₁ sY₁) (subK z₂ x y sX₂ sY₂) := by
  simp only [subK]
  split
  · refine ⟨zeroSignFix_obs ?_, rfl⟩
    split
    · exact uadd_obs _ _ rfl hp hm
    · split
      · exact usub_obs _ _ rfl hp hm
      · exact usub_obs _ _ rfl hp hm
  · split
    · exact ⟨⟨rfl, rfl, hp, hm, rfl, fun h => by simp at h⟩, rfl⟩
    · split
      · exact ⟨⟨rfl, by simp [hm], hp, hm, rfl, fun h => by simp at h⟩, rfl⟩
      · split
        · exact ⟨hX, rfl⟩
        · exact ⟨hY, rfl⟩

theorem subK_congr {z₁ z₂ x₁ x₂ y₁ y₂ sX₁ sX₂ sY₁ sY₂ : Dec} (hp : z₁.prec = z₂.prec)
    (hm : z₁.mode = z₂.mode) (hx : valEq x₁ x₂) (hy : valEq y₁ y₂) (hX : obsEq sX₁ sX₂)
    (hY : obsEq sY₁ sY₂) : resEq (subK z₁ x₁ y₁ sX₁ sY₁) (subK z₂ x₂ y₂ sX₂ sY₂) := by
  rw [subK_val_x _ _ _ _ hx, subK_val_y _ _ _ _ hy]
  exact subK_recv _ _ hp hm hX hY

theorem subTail_eq_body (z y : Dec) :
    subTail z y false = round { setBody z y with neg := !y.neg } false := by
  simp only [subTail, setBody, Bool.false_eq_true, if_false]
  split <;> rfl

theorem subTail_obs {z₁ z₂ y₁ y₂ : Dec} (hp : z₁.prec = z₂.prec) (hm : z₁.mode = z₂.mode)
    (hv : valEq y₁ y₂) : obsEq (subTail z₁ y₁ false) (subTail z₂ y₂ false) := by
  have hw : valEq (setBody z₁ y₁) (setBody z₂ y₂) :=
    (setBody_valEq z₁ y₁).trans (hv.trans (setBody_valEq z₂ y₂).symm)
  rw [subTail_eq_body, subTail_eq_body]
  refine round_obs _ ⟨hw.1, ?_, hw.2.2⟩ ?_ ?_
  · show (!y₁.neg) = !y₂.neg
    rw [hv.2.1]
  · show (setBody z₁ y₁).prec = (setBody z₂ y₂).prec
    rw [setBody_prec, setBody_prec, hp]
  · show (setBody z₁ y₁).mode = (setBody z₂ y₂).mode
    rw [setBody_mode, setBody_mode, hm]

theorem subTail_alias {z y : Dec} (h : strip y = strip z) : subTail z y false = subTail z z true := by
  have hb : setBody z y = { z with acc := Exact } := by
    simp only [strip, Dec.mk.injEq] at h
    obtain ⟨h1, h2, h3, h4, h5, -⟩ := h
    unfold setBody
    split <;> exact eq_of_fields h1 h2 (by simp [h3]) (by simp [h4]) (by simp [h5]) rfl rfl rfl
  have hn : y.neg = z.neg := by
    simp only [strip, Dec.mk.injEq] at h
    exact h.2.1
  rw [subTail_eq_body, hb, hn]
  rfl

theorem alias_subTail (z y : Dec) (sy : Bool) (P : Nat) :
    subTail (prologue z P) (opnd (prologue z P) (opnd z y sy) sy) sy =
      subTail (prologue z P) (opnd z y sy) false := by
  cases sy
  · rfl
  · exact (subTail_alias (strip_prologue z P).symm).symm

theorem sub_alias (z x y : Dec) (sx sy : Bool) :
    sub z (opnd z x sx) (opnd z y sy) sx sy = sub z (opnd z x sx) (opnd z y sy) false false := by
  rw [sub_eq_subK, sub_eq_subK, alias_set, alias_subTail]
  rw [subK_val_x _ _ _ _ (alias_opnd_val _ z x sx (valEq_prologue z _)),
    subK_val_y _ _ _ _ (alias_opnd_val _ z y sy (valEq_prologue z _))]
  rfl

theorem subTail_self (z : Dec) : subTail z z false = subTail z z true := subTail_alias rfl

theorem sub_alias_x' (z x y : Dec) :
    sub z x y true false = sub z (prologue z (umax x.prec y.prec)) y false false := by
  rw [sub_eq_subK, sub_eq_subK]
  have : prologue z (umax (prologue z (umax x.prec y.prec)).prec y.prec) = prologue z (umax x.prec y.prec) := by
    apply prologue_same_prec
    intro h; rw [prologue_of_zero h]; exact umax_umax_right _ _
  rw [this]
  simp only [opnd, if_true, Bool.false_eq_true, if_false, set_self]

theorem sub_alias_y' (z x y : Dec) :
    sub z x y false true = sub z x (prologue z (umax x.prec y.prec)) false false := by
  rw [sub_eq_subK, sub_eq_subK]
  have : prologue z (umax x.prec (prologue z (umax x.prec y.prec)).prec) = prologue z (umax x.prec y.prec) := by
    apply prologue_same_prec
    intro h; rw [prologue_of_zero h]; exact umax_umax_left _ _
  rw [this]
  simp only [opnd, if_true, Bool.false_eq_true, if_false, subTail_self]

theorem sub_congr {z₁ z₂ x₁ x₂ y₁ y₂ : Dec} (hp : z₁.prec = z₂.prec) (hm : z₁.mode = z₂.mode)
    (hx : valEq x₁ x₂) (hxp : x₁.prec = x₂.prec) (hy : valEq y₁ y₂) (hyp : y₁.prec = y₂.prec) :
    resEq (sub z₁ x₁ y₁ false false) (sub z₂ x₂ y₂ false false) := by
  rw [sub_eq_subK, sub_eq_subK, hxp, hyp]
  obtain ⟨hp', hm'⟩ := prologue_attr (umax x₂.prec y₂.prec) hp hm
  simp only [opnd, Bool.false_eq_true, if_false]
  exact subK_congr hp' hm' hx hy
    (set_obs hp' hm' hx (fun _ => hxp) (by rw [hp', hxp]))
    (subTail_obs hp' hm' hy)


/-! ### Mul -/

def mulK (z x y : Dec) : Dec × Outcome :=
  let z := { z with neg := x.neg != y.neg }
  if x.form == .finite && y.form == .finite then (umul z x y, .ok)
  else
    let z := { z with acc := Exact }
    if (x.form == .zero && y.form == .inf) || (x.form == .inf && y.form == .zero) then
      ({ z with form := .zero, neg := false }, .errNaN)
    else if x.form == .inf || y.form == .inf then ({ z with form := .inf }, .ok)
    else ({ z with form := .zero }, .ok)

theorem mul_eq_mulK (z x y : Dec) (sx sy : Bool) :
    mul z x y sx sy =
      mulK (prologue z (umax x.prec y.prec))
        (opnd (prologue z (umax x.prec y.prec)) x sx) (opnd (prologue z (umax x.prec y.prec)) y sy) := rfl

theorem mulK_strip_x (z x y : Dec) : mulK z x y = mulK z (strip x) y := rfl
theorem mulK_strip_y (z x y : Dec) : mulK z x y = mulK z x (strip y) := rfl

theorem mulK_val_x {x₁ x₂ : Dec} (z y : Dec) (h : valEq x₁ x₂) : mulK z x₁ y = mulK z x₂ y := by
  by_cases hf : x₁.form = .finite
  · rw [mulK_strip_x z x₁, mulK_strip_x z x₂, strip_eq_of_valEq h hf]
  · obtain ⟨h1, h2, h3⟩ := h
    have hf2 : x₂.form ≠ .finite := h1 ▸ hf
    simp [mulK, h1, h2, hf2]

theorem mulK_val_y {y₁ y₂ : Dec} (z x : Dec) (h : valEq y₁ y₂) : mulK z x y₁ = mulK z x y₂ := by
  by_cases hf : y₁.form = .finite
  · rw [mulK_strip_y z x y₁, mulK_strip_y z x y₂, strip_eq_of_valEq h hf]
  · obtain ⟨h1, h2, h3⟩ := h
    have hf2 : y₂.form ≠ .finite := h1 ▸ hf
    simp [mulK, h1, h2, hf2]

theorem mulK_recv {z₁ z₂ : Dec} (x y : Dec) (hp : z₁.prec = z₂.prec) (hm : z₁.mode = z₂.mode) :
    resEq (mulK z₁ x y) (mulK z₂ x y) := by
  simp only [mulK]
  split
  · exact ⟨umul_obs _ _ rfl hp hm, rfl⟩
  · split
    · exact ⟨⟨rfl, rfl, hp, hm, rfl, fun h => by simp at h⟩, rfl⟩
    · split
      · exact ⟨⟨rfl, rfl, hp, hm, rfl, fun h => by simp at h⟩, rfl⟩
      · exact ⟨⟨rfl, rfl, hp, hm, rfl, fun h => by simp at h⟩, rfl⟩

theorem mulK_congr {z₁ z₂ x₁ x₂ y₁ y₂ : Dec} (hp : z₁.prec = z₂.prec) (hm : z₁.mode = z₂.mode)
    (hx : valEq x₁ x₂) (hy : valEq y₁ y₂) : resEq (mulK z₁ x₁ y₁) (mulK z₂ x₂ y₂) := by
  rw [mulK_val_x _ _ hx, mulK_val_y _ _ hy]
  exact mulK_recv _ _ hp hm

theorem mul_alias (z x y : Dec) (sx sy : Bool) :
    mul z (opnd z x sx) (opnd z y sy) sx sy = mul z (opnd z x sx) (opnd z y sy) false false := by
  rw [mul_eq_mulK, mul_eq_mulK]
  rw [mulK_val_x _ _ (alias_opnd_val _ z x sx (valEq_prologue z _)),
    mulK_val_y _ _ (alias_opnd_val _ z y sy (valEq_prologue z _))]
  rfl

theorem mul_alias_x' (z x y : Dec) :
    mul z x y true false = mul z (prologue z (umax x.prec y.prec)) y false false := by
  rw [mul_eq_mulK, mul_eq_mulK]
  have : prologue z (umax (prologue z (umax x.prec y.prec)).prec y.prec) = prologue z (umax x.prec y.prec) := by
    apply prologue_same_prec
    intro h; rw [prologue_of_zero h]; exact umax_umax_right _ _
  rw [this]
  simp only [opnd, if_true, Bool.false_eq_true, if_false]

theorem mul_alias_y' (z x y : Dec) :
    mul z x y false true = mul z x (prologue z (umax x.prec y.prec)) false false := by
  rw [mul_eq_mulK, mul_eq_mulK]
  have : prologue z (umax x.prec (prologue z (umax x.prec y.prec)).prec) = prologue z (umax x.prec y.prec) := by
    apply prologue_same_prec
    intro h; rw [prologue_of_zero h]; exact umax_umax_left _ _
  rw [this]
  simp only [opnd, if_true, Bool.false_eq_true, if_false]

theorem mul_congr {z₁ z₂ x₁ x₂ y₁ y₂ : Dec} (hp : z₁.prec = z₂.prec) (hm : z₁.mode = z₂.mode)
    (hx : valEq x₁ x₂) (hxp : x₁.prec = x₂.prec) (hy : valEq y₁ y₂) (hyp : y₁.prec = y₂.prec) :
    resEq (mul z₁ x₁ y₁ false false) (mul z₂ x₂ y₂ false false) := by
  rw [mul_eq_mulK, mul_eq_mulK, hxp, hyp]
  obtain ⟨hp', hm'⟩ := prologue_attr (umax x₂.prec y₂.prec) hp hm
  simp only [opnd, Bool.false_eq_true, if_false]
  exact mulK_congr hp' hm' hx hy

/-! ### Quo -/

def quoK (z x y : Dec) : Dec × Outcome :=
  let z := { z with neg := x.neg != y.neg }
  if x.form == .finite && y.form == .finite then (uquo z x y, .ok)
  else
    let z := { z with acc := Exact }
    if (x.form == .zero && y.form == .zero) || (x.form == .inf && y.form == .inf) then
      ({ z with form := .zero, neg := false }, .errNaN)
    else if x.form == .zero || y.form == .inf then ({ z with form := .zero }, .ok)
    else ({ z with form := .inf }, .ok)

theorem quo_eq_quoK (z x y : Dec) (sx sy : Bool) :
    quo z x y sx sy =
      quoK (prologue z (umax x.prec y.prec))
        (opnd (prologue z (umax x.prec y.prec)) x sx) (opnd (prologue z (umax x.prec y.prec)) y sy) := rfl

theorem quoK_strip_x (z x y : Dec) : quoK z x y = quoK z (strip x) y := rfl
theorem quoK_strip_y (z x y : Dec) : quoK z x y = quoK z x (strip y) := rfl

theorem quoK_val_x {x₁ x₂ : Dec} (z y : Dec) (h : valEq x₁ x₂) : quoK z x₁ y = quoK z x₂ y := by
  by_cases hf : x₁.form = .finite
  · rw [quoK_strip_x z x₁, quoK_strip_x z x₂, strip_eq_of_valEq h hf]
  · obtain ⟨h1, h2, h3⟩ := h
    have hf2 : x₂.form ≠ .finite := h1 ▸ hf
    simp [quoK, h1, h2, hf2]

theorem quoK_val_y {y₁ y₂ : Dec} (z x : Dec) (h : valEq y₁ y₂) : quoK z x y₁ = quoK z x y₂ := by
  by_cases hf : y₁.form = .finite
  · rw [quoK_strip_y z x y₁, quoK_strip_y z x y₂, strip_eq_of_valEq h hf]
  · obtain ⟨h1, h2, h3⟩ := h
    have hf2 : y₂.form ≠ .finite := h1 ▸ hf
    simp [quoK, h1, h2, hf2]

theorem quoK_recv {z₁ z₂ : Dec} (x y : Dec) (hp : z₁.prec = z₂.prec) (hm : z₁.mode = z₂.mode) :
    resEq (quoK z₁ x y) (quoK z₂ x y) := by
  simp only [quoK]
  split
  · exact ⟨uquo_obs _ _ rfl hp hm, rfl⟩
  · split
    · exact ⟨⟨rfl, rfl, hp, hm, rfl, fun h => by simp at h⟩, rfl⟩
    · split
      · exact ⟨⟨rfl, rfl, hp, hm, rfl, fun h => by simp at h⟩, rfl⟩
      · exact ⟨⟨rfl, rfl, hp, hm, rfl, fun h => by simp at h⟩, rfl⟩

theorem quoK_congr {z₁ z₂ x₁ x₂ y₁ y₂ : Dec} (hp : z₁.prec = z₂.prec) (hm : z₁.mode = z₂.mode)
    (hx : valEq x₁ x₂) (hy : valEq y₁ y₂) : resEq (quoK z₁ x₁ y₁) (quoK z₂ x₂ y₂) := by
  rw [quoK_val_x _ _ hx, quoK_val_y _ _ hy]
  exact quoK_recv _ _ hp hm

theorem quo_alias (z x y : Dec) (sx sy : Bool) :
    quo z (opnd z x sx) (opnd z y sy) sx sy = quo z (opnd z x sx) (opnd z y sy) false false := by
  rw [quo_eq_quoK, quo_eq_quoK]
  rw [quoK_val_x _ _ (alias_opnd_val _ z x sx (valEq_prologue z _)),
    quoK_val_y _ _ (alias_opnd_val _ z y sy (valEq_prologue z _))]
  rfl

theorem quo_alias_x' (z x y : Dec) :
    quo z x y true false = quo z (prologue z (umax x.prec y.prec)) y false false := by
  rw [quo_eq_quoK, quo_eq_quoK]
  have : prologue z (umax (prologue z (umax x.prec y.prec)).prec y.prec) = prologue z (umax x.prec y.prec) := by
    apply prologue_same_prec
    intro h; rw [prologue_of_zero h]; exact umax_umax_right _ _
  rw [this]
  simp only [opnd, if_true, Bool.false_eq_true, if_false]

theorem quo_alias_y' (z x y : Dec) :
    quo z x y false true = quo z x (prologue z (umax x.prec y.prec)) false false := by
  rw [quo_eq_quoK, quo_eq_quoK]
  have : prologue z (umax x.prec (prologue z (umax x.prec y.prec)).prec) = prologue z (umax x.prec y.prec) := by
    apply prologue_same_prec
    intro h; rw [prologue_of_zero h]; exact umax_umax_left _ _
  rw [this]
  simp only [opnd, if_true, Bool.false_eq_true, if_false]

theorem quo_congr {z₁ z₂ x₁ x₂ y₁ y₂ : Dec} (hp : z₁.prec = z₂.prec) (hm : z₁.mode = z₂.mode)
    (hx : valEq x₁ x₂) (hxp : x₁.prec = x₂.prec) (hy : valEq y₁ y₂) (hyp : y₁.prec = y₂.prec) :
    resEq (quo z₁ x₁ y₁ false false) (quo z₂ x₂ y₂ false false) := by
  rw [quo_eq_quoK, quo_eq_quoK, hxp, hyp]
  obtain ⟨hp', hm'⟩ := prologue_attr (umax x₂.prec y₂.prec) hp hm
  simp only [opnd, Bool.false_eq_true, if_false]
  exact quoK_congr hp' hm' hx hy


/-! ### Set Neg Abs Copy SetMantExp MantExp -/

theorem neg_alias (z : Dec) : neg z z true = neg z z false := by
  simp only [neg, set_self]
theorem abs_alias (z : Dec) : abs z z true = abs z z false := by
  simp only [abs, set_self]

theorem copy_alias (z : Dec) : copy z z true = copy z z false := by
  simp only [copy, Bool.false_eq_true, if_false, if_true]
  split <;> rfl

theorem setMantExp_alias (z : Dec) (e : Int) : setMantExp z z e true = setMantExp z z e false := by
  simp only [setMantExp, copy_alias]

theorem mantExp_alias (x : Dec) : mantExp x x true = mantExp x x false := by
  simp only [mantExp, copy_alias]

theorem neg_obs {z₁ z₂ x₁ x₂ : Dec} (hp : z₁.prec = z₂.prec) (hm : z₁.mode = z₂.mode)
    (hv : valEq x₁ x₂) (hxp : x₁.prec = x₂.prec) : obsEq (neg z₁ x₁ false) (neg z₂ x₂ false) := by
  obtain ⟨h1, h2, h3, h4, h5, h6⟩ := set_obs hp hm hv (fun _ => hxp) (by rw [hp, hxp])
  exact ⟨h1, by simp only [neg, h2], h3, h4, h5, h6⟩

theorem abs_obs {z₁ z₂ x₁ x₂ : Dec} (hp : z₁.prec = z₂.prec) (hm : z₁.mode = z₂.mode)
    (hv : valEq x₁ x₂) (hxp : x₁.prec = x₂.prec) : obsEq (abs z₁ x₁ false) (abs z₂ x₂ false) := by
  obtain ⟨h1, h2, h3, h4, h5, h6⟩ := set_obs hp hm hv (fun _ => hxp) (by rw [hp, hxp])
  exact ⟨h1, rfl, h3, h4, h5, h6⟩

/-- `Copy` overwrites every observable field of the receiver. -/
theorem copy_obs (z₁ z₂ x : Dec) : obsEq (copy z₁ x false) (copy z₂ x false) := by
  simp only [copy, Bool.false_eq_true, if_false]
  split
  · exact ⟨rfl, rfl, rfl, rfl, rfl, fun _ => ⟨rfl, rfl, rfl⟩⟩
  · next h => exact ⟨rfl, rfl, rfl, rfl, rfl, fun h' => absurd h' (by simpa using h)⟩

theorem copy_finite (z x : Dec) (h : x.form = .finite) : copy z x false = x := by
  simp [copy, h]
  exact eq_of_fields h.symm rfl rfl rfl rfl rfl rfl rfl

theorem setMantExp_obs (z₁ z₂ x : Dec) (e : Int) :
    obsEq (setMantExp z₁ x e false) (setMantExp z₂ x e false) := by
  by_cases h : x.form = .finite
  · simp only [setMantExp, copy_finite _ _ h]
    exact obsEq.refl _
  · have h1 : (copy z₁ x false).form = x.form := by simp only [copy]; simp; split <;> rfl
    have h2 : (copy z₂ x false).form = x.form := by simp only [copy]; simp; split <;> rfl
    simp only [setMantExp, h1, h2, bne_iff_ne, ne_eq, h, not_false_eq_true, if_true]
    exact copy_obs z₁ z₂ x

theorem mantExp_obs (x m₁ m₂ : Dec) :
    (mantExp x m₁ false).1 = (mantExp x m₂ false).1 ∧
      obsEq (mantExp x m₁ false).2 (mantExp x m₂ false).2 := by
  refine ⟨rfl, ?_⟩
  by_cases h : x.form = .finite
  · simp only [mantExp, copy_finite _ _ h]
    exact obsEq.refl _
  · have h1 : (copy m₁ x false).form = x.form := by simp only [copy]; simp; split <;> rfl
    have h2 : (copy m₂ x false).form = x.form := by simp only [copy]; simp; split <;> rfl
    simp only [mantExp, h1, h2, beq_iff_eq, h, if_false]
    exact copy_obs m₁ m₂ x

/-! ### FMA -/

/-- The receiver (precision `p` before the prologue) cannot distinguish operand precisions
    `a` and `b`. -/
def precOK (p a b : Nat) : Prop := (p = 0 → a = b) ∧ (p < a ↔ p < b)

theorem precOK.of_eq {p a b : Nat} (h : a = b) : precOK p a b := ⟨fun _ => h, by rw [h]⟩

theorem add_congr' {z₁ z₂ x₁ x₂ y₁ y₂ : Dec} (hp : z₁.prec = z₂.prec) (hm : z₁.mode = z₂.mode)
    (hx : valEq x₁ x₂) (hxp : precOK z₁.prec x₁.prec x₂.prec) (hy : valEq y₁ y₂)
    (hyp : precOK z₁.prec y₁.prec y₂.prec) :
    resEq (add z₁ x₁ y₁ false false) (add z₂ x₂ y₂ false false) := by
  by_cases h0 : z₁.prec = 0
  · exact add_congr hp hm hx (hxp.1 h0) hy (hyp.1 h0)
  · have h02 : z₂.prec ≠ 0 := hp ▸ h0
    rw [add_eq_addK, add_eq_addK, prologue_of_nonzero h0, prologue_of_nonzero h02]
    simp only [opnd, Bool.false_eq_true, if_false]
    exact addK_congr hp hm hx hy
      (set_obs hp hm hx (fun h => absurd h h0) (by rw [← hp]; exact hxp.2))
      (set_obs hp hm hy (fun h => absurd h h0) (by rw [← hp]; exact hyp.2))

/-- The final `z.Add(z0, u)` of FMA. -/
def finishF (z u : Dec) (su : Bool) (z0 : Dec) : Dec × Outcome :=
  if su then add z z0 u false true else add z0 z0 u true false

def fmaK (z x y u : Dec) (su : Bool) (m : Dec × Outcome) : Dec × Outcome :=
  if u.form == .zero && x.form == .finite && y.form == .finite then m
  else
    let z0 : Dec := if su then { mode := z.mode, prec := z.prec } else z
    let z0 := { z0 with neg := x.neg != y.neg }
    if x.form == .finite && y.form == .finite then
      let z0 := umul { z0 with prec := MaxPrec } x y
      finishF z u su { z0 with prec := z.prec }
    else if (x.form == .zero && y.form == .inf) || (x.form == .inf && y.form == .zero) then
      ({ z with acc := Exact, form := .zero, neg := false }, .errNaN)
    else if x.form == .inf || y.form == .inf then
      finishF z u su { z0 with acc := Exact, form := .inf }
    else
      finishF z u su { z0 with acc := Exact, form := .zero }

theorem fma_eq_fmaK (z x y u : Dec) (sx sy su : Bool) :
    fma z x y u sx sy su =
      fmaK (prologue z (umax (umax x.prec y.prec) u.prec))
        (opnd (prologue z (umax (umax x.prec y.prec) u.prec)) x sx)
        (opnd (prologue z (umax (umax x.prec y.prec) u.prec)) y sy)
        (opnd (prologue z (umax (umax x.prec y.prec) u.prec)) u su) su
        (mul (prologue z (umax (umax x.prec y.prec) u.prec))
          (opnd (prologue z (umax (umax x.prec y.prec) u.prec)) x sx)
          (opnd (prologue z (umax (umax x.prec y.prec) u.prec)) y sy) sx sy) := rfl

theorem fmaK_strip_x (z x y u : Dec) (su : Bool) (m : Dec × Outcome) :
    fmaK z x y u su m = fmaK z (strip x) y u su m := rfl
theorem fmaK_strip_y (z x y u : Dec) (su : Bool) (m : Dec × Outcome) :
    fmaK z x y u su m = fmaK z x (strip y) u su m := rfl

theorem fmaK_val_x {x₁ x₂ : Dec} (z y u : Dec) (su : Bool) (m : Dec × Outcome) (h : valEq x₁ x₂) :
    fmaK z x₁ y u su m = fmaK z x₂ y u su m := by
  by_cases hf : x₁.form = .finite
  · rw [fmaK_strip_x z x₁, fmaK_strip_x z x₂, strip_eq_of_valEq h hf]
  · obtain ⟨h1, h2, h3⟩ := h
    have hf2 : x₂.form ≠ .finite := h1 ▸ hf
    simp [fmaK, h1, h2, hf2]

theorem fmaK_val_y {y₁ y₂ : Dec} (z x u : Dec) (su : Bool) (m : Dec × Outcome) (h : valEq y₁ y₂) :
    fmaK z x y₁ u su m = fmaK z x y₂ u su m := by
  by_cases hf : y₁.form = .finite
  · rw [fmaK_strip_y z x y₁, fmaK_strip_y z x y₂, strip_eq_of_valEq h hf]
  · obtain ⟨h1, h2, h3⟩ := h
    have hf2 : y₂.form ≠ .finite := h1 ▸ hf
    simp [fmaK, h1, h2, hf2]

/-- Whatever the aliasing of `u`, the last step is `z.Add(z0, u)` on distinct variables. -/
theorem finish_norm {z u z0 : Dec} (su : Bool) (hp : z0.prec = z.prec) (hm : z0.mode = z.mode)
    (hs : su = true → u = z) : resEq (finishF z u su z0) (add z z0 u false false) := by
  cases su
  · have h := add_alias z0 z0 u true false
    simp only [opnd, if_true, Bool.false_eq_true, if_false] at h
    simp only [finishF, Bool.false_eq_true, if_false]
    rw [h]
    exact add_congr hp hm (valEq.refl _) rfl (valEq.refl _) rfl
  · have hu := hs rfl
    subst hu
    have h := add_alias u z0 u false true
    simp only [opnd, if_true, Bool.false_eq_true, if_false] at h
    simp only [finishF, if_true]
    rw [h]
    exact resEq.refl _


theorem finish_congr {z₁ z₂ u₁ u₂ Z₁ Z₂ : Dec} (su : Bool) (hp : z₁.prec = z₂.prec)
    (hm : z₁.mode = z₂.mode) (hu : valEq u₁ u₂) (hpu : precOK z₁.prec u₁.prec u₂.prec)
    (hs : su = true → u₁ = z₁) (hZv : valEq Z₁ Z₂) (hZp₁ : Z₁.prec = z₁.prec)
    (hZp₂ : Z₂.prec = z₂.prec) (hZm₁ : Z₁.mode = z₁.mode) (hZm₂ : Z₂.mode = z₂.mode) :
    resEq (finishF z₁ u₁ su Z₁) (finishF z₂ u₂ false Z₂) :=
  (finish_norm su hZp₁ hZm₁ hs).trans
    ((add_congr' hp hm hZv (precOK.of_eq (hZp₁.trans (hp.trans hZp₂.symm))) hu hpu).trans
      (finish_norm false hZp₂ hZm₂ (fun h => by cases h)).symm)

theorem fmaK_congr {z₁ z₂ u₁ u₂ : Dec} (x y : Dec) (su : Bool) {m₁ m₂ : Dec × Outcome}
    (hp : z₁.prec = z₂.prec) (hm : z₁.mode = z₂.mode) (hu : valEq u₁ u₂)
    (hpu : precOK z₁.prec u₁.prec u₂.prec) (hs : su = true → u₁ = z₁) (hmul : resEq m₁ m₂) :
    resEq (fmaK z₁ x y u₁ su m₁) (fmaK z₂ x y u₂ false m₂) := by
  have hf := hu.1
  simp only [fmaK, hf, Bool.false_eq_true, if_false]
  split
  · exact hmul
  · split
    · refine finish_congr su hp hm hu hpu hs ?_ rfl rfl ?_ ?_
      · refine obsEq.valEq (a := { umul _ x y with prec := z₁.prec }) (b := { umul _ x y with prec := z₂.prec }) ?_
        have h := umul_obs (z₁ := { (if su = true then ({ mode := z₁.mode, prec := z₁.prec } : Dec) else z₁) with neg := x.neg != y.neg, prec := MaxPrec })
          (z₂ := { z₂ with neg := x.neg != y.neg, prec := MaxPrec }) x y rfl rfl
          (by cases su <;> simp [hm])
        obtain ⟨h1, h2, h3, h4, h5, h6⟩ := h
        exact ⟨h1, h2, hp, h4, h5, h6⟩
      · show (umul _ x y).mode = z₁.mode
        rw [umul_mode]; cases su <;> rfl
      · show (umul _ x y).mode = z₂.mode
        rw [umul_mode]
    · split
      · exact ⟨⟨rfl, rfl, hp, hm, rfl, fun h => by simp at h⟩, rfl⟩
      · split
        · refine finish_congr su hp hm hu hpu hs ⟨rfl, rfl, fun h => by simp at h⟩ ?_ rfl ?_ rfl
          · cases su <;> rfl
          · cases su <;> rfl
        · refine finish_congr su hp hm hu hpu hs ⟨rfl, rfl, fun h => by simp at h⟩ ?_ rfl ?_ rfl
          · cases su <;> rfl
          · cases su <;> rfl


theorem mul_congr' {z₁ z₂ x₁ x₂ y₁ y₂ : Dec} (hp : z₁.prec = z₂.prec) (hm : z₁.mode = z₂.mode)
    (hx : valEq x₁ x₂) (hxp : z₁.prec = 0 → x₁.prec = x₂.prec) (hy : valEq y₁ y₂)
    (hyp : z₁.prec = 0 → y₁.prec = y₂.prec) :
    resEq (mul z₁ x₁ y₁ false false) (mul z₂ x₂ y₂ false false) := by
  by_cases h0 : z₁.prec = 0
  · exact mul_congr hp hm hx (hxp h0) hy (hyp h0)
  · have h02 : z₂.prec ≠ 0 := hp ▸ h0
    rw [mul_eq_mulK, mul_eq_mulK, prologue_of_nonzero h0, prologue_of_nonzero h02]
    simp only [opnd, Bool.false_eq_true, if_false]
    exact mulK_congr hp hm hx hy

theorem alias_opnd_prec (z x : Dec) (sx : Bool) (P : Nat) (h : (prologue z P).prec = 0) :
    (opnd (prologue z P) (opnd z x sx) sx).prec = (opnd z x sx).prec := by
  cases sx
  · rfl
  · simp only [opnd, if_true]; rw [h, prologue_prec_zero h]

theorem alias_opnd_precOK (z x : Dec) (sx : Bool) (P : Nat) :
    precOK (prologue z P).prec (opnd (prologue z P) (opnd z x sx) sx).prec (opnd z x sx).prec := by
  cases sx
  · exact precOK.of_eq rfl
  · simp only [opnd, if_true]
    refine ⟨fun h => by rw [h, prologue_prec_zero h], ?_⟩
    have := prologue_prec_ge z P
    constructor <;> intro h <;> omega

/-- FMA: aliasing flags are irrelevant (up to stale storage). -/
theorem fma_alias (z x y u : Dec) (sx sy su : Bool) :
    resEq (fma z (opnd z x sx) (opnd z y sy) (opnd z u su) sx sy su)
      (fma z (opnd z x sx) (opnd z y sy) (opnd z u su) false false false) := by
  rw [fma_eq_fmaK, fma_eq_fmaK]
  generalize hP : umax (umax (opnd z x sx).prec (opnd z y sy).prec) (opnd z u su).prec = P
  rw [fmaK_val_x _ _ _ _ _ (alias_opnd_val _ z x sx (valEq_prologue z _)),
    fmaK_val_y _ _ _ _ _ (alias_opnd_val _ z y sy (valEq_prologue z _))]
  refine fmaK_congr _ _ su rfl rfl (alias_opnd_val _ z u su (valEq_prologue z _))
    (alias_opnd_precOK z u su P) ?_ ?_
  · intro h; subst h; rfl
  · rw [mul_alias]
    exact mul_congr' rfl rfl (alias_opnd_val _ z x sx (valEq_prologue z _)) (alias_opnd_prec z x sx P)
      (alias_opnd_val _ z y sy (valEq_prologue z _)) (alias_opnd_prec z y sy P)

/-- FMA on distinct variables depends on the receiver only through `prec` and `mode`, and on
    the operands only through their values and precisions. -/
theorem fma_congr {z₁ z₂ x₁ x₂ y₁ y₂ u₁ u₂ : Dec} (hp : z₁.prec = z₂.prec) (hm : z₁.mode = z₂.mode)
    (hx : valEq x₁ x₂) (hxp : x₁.prec = x₂.prec) (hy : valEq y₁ y₂) (hyp : y₁.prec = y₂.prec)
    (hu : valEq u₁ u₂) (hup : u₁.prec = u₂.prec) :
    resEq (fma z₁ x₁ y₁ u₁ false false false) (fma z₂ x₂ y₂ u₂ false false false) := by
  rw [fma_eq_fmaK, fma_eq_fmaK, hxp, hyp, hup]
  obtain ⟨hp', hm'⟩ := prologue_attr (umax (umax x₂.prec y₂.prec) u₂.prec) hp hm
  simp only [opnd, Bool.false_eq_true, if_false]
  rw [fmaK_val_x _ _ _ _ _ hx, fmaK_val_y _ _ _ _ _ hy]
  exact fmaK_congr _ _ false hp' hm' hu (precOK.of_eq hup) (fun h => by cases h)
    (mul_congr hp' hm' hx hxp hy hyp)


/-! ### Both operands aliased, prologue form -/

theorem umax_self (a : Nat) : umax a a = a := by unfold umax; split <;> rfl

theorem add_alias_xy' (z x y : Dec) :
    add z x y true true =
      add z (prologue z (umax x.prec y.prec)) (prologue z (umax x.prec y.prec)) false false := by
  rw [add_eq_addK, add_eq_addK]
  have : prologue z (umax (prologue z (umax x.prec y.prec)).prec (prologue z (umax x.prec y.prec)).prec) =
      prologue z (umax x.prec y.prec) := by
    apply prologue_same_prec
    intro h; rw [prologue_of_zero h]; exact umax_self _
  rw [this]
  simp only [opnd, if_true, Bool.false_eq_true, if_false, set_self]

theorem sub_alias_xy' (z x y : Dec) :
    sub z x y true true =
      sub z (prologue z (umax x.prec y.prec)) (prologue z (umax x.prec y.prec)) false false := by
  rw [sub_eq_subK, sub_eq_subK]
  have : prologue z (umax (prologue z (umax x.prec y.prec)).prec (prologue z (umax x.prec y.prec)).prec) =
      prologue z (umax x.prec y.prec) := by
    apply prologue_same_prec
    intro h; rw [prologue_of_zero h]; exact umax_self _
  rw [this]
  simp only [opnd, if_true, Bool.false_eq_true, if_false, set_self, subTail_self]

theorem mul_alias_xy' (z x y : Dec) :
    mul z x y true true =
      mul z (prologue z (umax x.prec y.prec)) (prologue z (umax x.prec y.prec)) false false := by
  rw [mul_eq_mulK, mul_eq_mulK]
  have : prologue z (umax (prologue z (umax x.prec y.prec)).prec (prologue z (umax x.prec y.prec)).prec) =
      prologue z (umax x.prec y.prec) := by
    apply prologue_same_prec
    intro h; rw [prologue_of_zero h]; exact umax_self _
  rw [this]
  simp only [opnd, if_true, Bool.false_eq_true, if_false]

theorem quo_alias_xy' (z x y : Dec) :
    quo z x y true true =
      quo z (prologue z (umax x.prec y.prec)) (prologue z (umax x.prec y.prec)) false false := by
  rw [quo_eq_quoK, quo_eq_quoK]
  have : prologue z (umax (prologue z (umax x.prec y.prec)).prec (prologue z (umax x.prec y.prec)).prec) =
      prologue z (umax x.prec y.prec) := by
    apply prologue_same_prec
    intro h; rw [prologue_of_zero h]; exact umax_self _
  rw [this]
  simp only [opnd, if_true, Bool.false_eq_true, if_false]

instance (r s : Dec × Outcome) : Decidable (resEq r s) := by unfold resEq; infer_instance

end Decimal
