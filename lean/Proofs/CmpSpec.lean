/-
  Helper lemmas for C16: connection of `cmp` with the specification order `Spec.cmpSV`
  (Rat arithmetic; uses a few Mathlib modules for the ordered-field lemmas and `push_cast`).
-/
import Proofs.Cmp
import DecimalModel.Spec.IEEE
import Mathlib.Algebra.Order.Field.Rat
import Mathlib.Tactic.Linarith
import Mathlib.Tactic.NormNum
import Mathlib.Tactic.Ring

namespace Decimal
open Spec

theorem ndigits_zero : ndigits 0 = 0 := by unfold ndigits; simp
theorem ndigits_pos_step (n : Nat) (h : n ≠ 0) : ndigits n = ndigits (n / 10) + 1 := by
  rw [ndigits]; simp [h]

theorem ndigits_of_bounds : ∀ (k n : Nat), 10 ^ k ≤ n → n < 10 ^ (k + 1) → ndigits n = k + 1 := by
  intro k
  induction k with
  | zero =>
    intro n h1 h2
    have h1' : 1 ≤ n := by simpa using h1
    have h2' : n < 10 := by simpa using h2
    rw [ndigits_pos_step n (by omega), show n / 10 = 0 by omega, ndigits_zero]
  | succ k ih =>
    intro n h1 h2
    have p : 0 < 10 ^ k := Nat.pow_pos (by omega)
    rw [Nat.pow_succ] at h1
    rw [Nat.pow_succ, Nat.pow_succ] at h2
    have hn : n ≠ 0 := by omega
    rw [ndigits_pos_step n hn, ih (n / 10) (by omega) (by rw [Nat.pow_succ]; omega)]


theorem ndigits_one : ndigits 1 = 1 := ndigits_of_bounds 0 1 (by simp) (by simp)

theorem pow10Rat_natCast (k : Nat) : pow10Rat (k : Int) = ((10 ^ k : Nat) : Rat) := by
  unfold pow10Rat
  rw [if_pos (by omega), Int.toNat_natCast]

/-- The decimal exponent of a natural number with exactly `K` digits. -/
theorem decExp_natCast (m K : Nat) (hK : 0 < K) (h1 : 10 ^ (K - 1) ≤ m) (h2 : m < 10 ^ K) :
    decExp (m : Rat) = K := by
  have hnd : ndigits m = K := by
    have := ndigits_of_bounds (K - 1) m h1 (by rw [Nat.sub_add_cancel hK]; exact h2)
    omega
  unfold decExp
  simp only [Rat.num_natCast, Rat.den_natCast, Int.natAbs_natCast, hnd, ndigits_one]
  have e : ((K : Int) - (1 : Nat)) = ((K - 1 : Nat) : Int) := by omega
  rw [e, pow10Rat_natCast]
  have : ¬ ((m : Rat) < ((10 ^ (K - 1) : Nat) : Rat)) := by
    rw [Nat.cast_lt]; omega
  rw [if_neg this]
  omega


theorem sign_sub_cast (a b : Nat) :
    (if (a : Rat) + -(b : Rat) < 0 then (-1 : Int) else if (a : Rat) + -(b : Rat) > 0 then 1 else 0) =
      cmp3 a b := by
  have h1 : (a : Rat) + -(b : Rat) < 0 ↔ a < b := by
    rw [← sub_eq_add_neg, sub_neg, Nat.cast_lt]
  have h2 : (a : Rat) + -(b : Rat) > 0 ↔ a > b := by
    rw [← sub_eq_add_neg, gt_iff_lt, sub_pos, Nat.cast_lt]
  simp only [h1, h2, cmp3]

/-- On canonical finite Decimals the specification's magnitude order is `ucmp`. -/
theorem cmpMag_canonical (x y : Dec) (cx : Canonical x) (cy : Canonical y) :
    cmpMag (x.mant : Rat) (x.exp - (x.len * DW : Nat)) (y.mant : Rat) (y.exp - (y.len * DW : Nat)) =
      ucmp x y := by
  have dx := decExp_natCast x.mant (DW * x.len) (by have := cx.1; simp only [DW]; omega) cx.2.1 cx.2.2
  have dy := decExp_natCast y.mant (DW * y.len) (by have := cy.1; simp only [DW]; omega) cy.2.1 cy.2.2
  have ea : decExp (x.mant : Rat) + (x.exp - (x.len * DW : Nat)) = x.exp := by
    rw [dx]; simp only [DW]; push_cast; ring
  have eb : decExp (y.mant : Rat) + (y.exp - (y.len * DW : Nat)) = y.exp := by
    rw [dy]; simp only [DW]; push_cast; ring
  unfold cmpMag
  simp only [ea, eb]
  rw [ucmp_def]
  by_cases h1 : x.exp < y.exp
  · rw [if_pos h1, if_pos h1]
  · rw [if_neg h1, if_neg h1]
    by_cases h2 : x.exp > y.exp
    · rw [if_pos h2, if_pos h2]
    · rw [if_neg h2, if_neg h2]
      have he : x.exp = y.exp := by omega
      unfold SQ.add
      by_cases hl : y.len ≤ x.len
      · have hk : x.exp - ((x.len * DW : Nat) : Int) ≤ y.exp - ((y.len * DW : Nat) : Int) := by
          simp only [DW]; push_cast; omega
        have hd : y.exp - ((y.len * DW : Nat) : Int) - (x.exp - ((x.len * DW : Nat) : Int)) =
            ((DW * (x.len - y.len) : Nat) : Int) := by
          simp only [DW]; push_cast [hl]; omega
        simp only [if_pos hk, hd, pow10Rat_natCast]
        have e0 : y.len - x.len = 0 := by omega
        rw [e0, Nat.pow_zero, Nat.mul_one, Bpow_eq, ← sign_sub_cast]
        push_cast
        simp only [neg_mul]
      · have hk : ¬ x.exp - ((x.len * DW : Nat) : Int) ≤ y.exp - ((y.len * DW : Nat) : Int) := by
          simp only [DW]; push_cast; omega
        have hd : x.exp - ((x.len * DW : Nat) : Int) - (y.exp - ((y.len * DW : Nat) : Int)) =
            ((DW * (y.len - x.len) : Nat) : Int) := by
          have : x.len ≤ y.len := by omega
          simp only [DW]; push_cast [this]; omega
        simp only [if_neg hk, hd, pow10Rat_natCast]
        have e0 : x.len - y.len = 0 := by omega
        rw [e0, Nat.pow_zero, Nat.mul_one, Bpow_eq, ← sign_sub_cast]
        push_cast
        rfl



/-- `Cmp` is the order of the exact values. -/
theorem cmp_eq_cmpSV (x y : Dec) (cx : x.form = .finite → Canonical x)
    (cy : y.form = .finite → Canonical y) : cmp x y = cmpSV (ofDec x) (ofDec y) := by
  rw [cmp_def]
  cases hx : x.form <;> cases hy : y.form <;> cases nx : x.neg <;> cases ny : y.neg
  all_goals simp [ofDec, cmpSV, ord, hx, hy, nx, ny]
  · have := cmpMag_canonical x y (cx hx) (cy hy)
    push_cast at this
    exact this.symm
  · have := cmpMag_canonical y x (cy hy) (cx hx)
    push_cast at this
    exact this.symm

end Decimal
