/-
  The saturating int64 exponent arithmetic of the repaired code (`addExp`, DecimalModel/SatInt.lean)
  against the unbounded integers of the L1 model.
-/
import DecimalModel.SatInt
import Proofs.ArithOps
import Proofs.CanonInv

namespace Decimal

theorem wrap64_of_isInt64 {n : Int} (h : isInt64 n) : wrap64 n = n := by
  unfold isInt64 MinInt64 MaxInt64 at h
  unfold wrap64
  omega

theorem wrap64_isInt64 (n : Int) : isInt64 (wrap64 n) := by
  unfold isInt64 MinInt64 MaxInt64 wrap64
  omega

/-- `addExp` is the exact sum clamped to the int64 range. -/
theorem addExpSat_eq_clamp {a b : Int} (ha : isInt64 a) (hb : isInt64 b) :
    addExpSat a b =
      if a + b < MinInt64 then MinInt64 else if a + b > MaxInt64 then MaxInt64 else a + b := by
  unfold isInt64 MinInt64 MaxInt64 at ha hb
  unfold addExpSat wrap64 MinInt64 MaxInt64
  simp only [Bool.and_eq_true, decide_eq_true_eq]
  repeat' split
  all_goals omega

/-- … hence the exact sum whenever that is an int64 … -/
theorem addExpSat_exact {a b : Int} (ha : isInt64 a) (hb : isInt64 b) (h : isInt64 (a + b)) :
    addExpSat a b = a + b := by
  rw [addExpSat_eq_clamp ha hb]
  unfold isInt64 at h
  rw [if_neg (by omega), if_neg (by omega)]

theorem addExpSat_isInt64 {a b : Int} (ha : isInt64 a) (hb : isInt64 b) : isInt64 (addExpSat a b) := by
  rw [addExpSat_eq_clamp ha hb]
  unfold isInt64 MinInt64 MaxInt64
  repeat' split
  all_goals omega

/-- … and on the same side of `[MinExp, MaxExp]` as the exact sum always. -/
theorem addExpSat_lt_MinExp_iff {a b : Int} (ha : isInt64 a) (hb : isInt64 b) :
    addExpSat a b < MinExp ↔ a + b < MinExp := by
  rw [addExpSat_eq_clamp ha hb]
  unfold MinInt64 MaxInt64 MinExp
  repeat' split
  all_goals omega

theorem addExpSat_gt_MaxExp_iff {a b : Int} (ha : isInt64 a) (hb : isInt64 b) :
    addExpSat a b > MaxExp ↔ a + b > MaxExp := by
  rw [addExpSat_eq_clamp ha hb]
  unfold MinInt64 MaxInt64 MaxExp
  repeat' split
  all_goals omega

theorem addExpSat_in_range {a b : Int} (ha : isInt64 a) (hb : isInt64 b)
    (h1 : MinExp ≤ a + b) (h2 : a + b ≤ MaxExp) : addExpSat a b = a + b := by
  apply addExpSat_exact ha hb
  unfold isInt64 MinInt64 MaxInt64
  unfold MinExp at h1
  unfold MaxExp at h2
  omega

/-- `setExpAndRound` only tests its exponent against `MinExp`, `MaxExp` and otherwise uses it when
    in range: it cannot tell the saturated sum from the exact one. -/
theorem setExpAndRound_addExpSat (z : Dec) {a b : Int} (ha : isInt64 a) (hb : isInt64 b) (sb : Bool) :
    setExpAndRound z (addExpSat a b) sb = setExpAndRound z (a + b) sb := by
  unfold setExpAndRound
  by_cases h1 : a + b < MinExp
  · rw [if_pos ((addExpSat_lt_MinExp_iff ha hb).mpr h1), if_pos h1]
  · rw [if_neg (fun h => h1 ((addExpSat_lt_MinExp_iff ha hb).mp h)), if_neg h1]
    by_cases h2 : a + b > MaxExp
    · rw [if_pos ((addExpSat_gt_MaxExp_iff ha hb).mpr h2), if_pos h2]
    · rw [if_neg (fun h => h2 ((addExpSat_gt_MaxExp_iff ha hb).mp h)), if_neg h2,
        addExpSat_in_range ha hb (by omega) (by omega)]

/-! ### The three callers -/

theorem copy_exp_cases (z m : Dec) (same : Bool) :
    (copy z m same).exp = z.exp ∨ (copy z m same).exp = m.exp := by
  unfold copy
  cases same
  · simp only [Bool.false_eq_true, if_false]
    split
    · exact Or.inr rfl
    · exact Or.inl rfl
  · exact Or.inl rfl

/-- `SetMantExp`: `exp` is a Go `int` (64 bits), `z.exp` and `mant.exp` are int32 fields. -/
theorem setMantExp_sat_eq (z mant : Dec) (exp : Int) (same : Bool) (hexp : isInt64 exp)
    (hz : isInt64 z.exp) (hm : isInt64 mant.exp) :
    setMantExpSat z mant exp same = setMantExp z mant exp same := by
  unfold setMantExpSat setMantExp
  have hc : isInt64 (copy z mant same).exp := by
    rcases copy_exp_cases z mant same with h | h <;> rw [h] <;> assumption
  simp only
  split
  · rfl
  · rw [setExpAndRound_addExpSat _ hexp hc, Int.add_comm]

/-- `setBits64` (`SetInt64`, `SetUint64`, `NewDecimal`): `x` is a uint64, `exp` an int64. More
    generally for any `x` of fewer than `2^62` digits. -/
theorem setBits64_sat_eq_of_digits (z : Dec) (neg : Bool) (x : Nat) (exp : Int) (hexp : isInt64 exp)
    (hx : ndigits x < 2 ^ 62) : setBits64Sat z neg x exp = setBits64 z neg x exp := by
  unfold setBits64Sat setBits64 setNormAndRound
  simp only
  split
  · rfl
  · have h1 := ndigits_add_dnormShift x
    have h2 := dnormShift_lt x
    have hD : (DW : Int) = 19 := rfl
    have hDn : DW = 19 := rfl
    have e1 : isInt64 ((nwords x : Int) * (DW : Int)) := by
      unfold isInt64 MinInt64 MaxInt64; rw [hD]; omega
    have e2 : isInt64 (((nwords x : Int) * (DW : Int)) - (dnormShift x (nwords x) : Int)) := by
      unfold isInt64 MinInt64 MaxInt64; rw [hD]; omega
    rw [wrap64_of_isInt64 e1, wrap64_of_isInt64 e2, setExpAndRound_addExpSat _ hexp e2]
    congr 1
    rw [hDn]
    push_cast
    omega

theorem setBits64_sat_eq (z : Dec) (neg : Bool) (x : Nat) (exp : Int) (hexp : isInt64 exp)
    (hx : x < 2 ^ 64) : setBits64Sat z neg x exp = setBits64 z neg x exp := by
  apply setBits64_sat_eq_of_digits z neg x exp hexp
  have : ndigits x ≤ 20 := by
    rw [ndigits_le_iff]
    exact Nat.lt_of_lt_of_le hx (by norm_num)
  have : (20 : Nat) < 2 ^ 62 := by norm_num
  omega

/-- `SetBitsExp`: the raw slice has `rawLen` words (a Go slice length: `19·rawLen < 2^62` holds
    for any slice that fits in memory) and holds `M < B^rawLen`. -/
theorem setBitsExp_sat_eq (z : Dec) (M rawLen : Nat) (exp : Int) (hexp : isInt64 exp)
    (hraw : M < B ^ rawLen) (hlen : rawLen * 19 < 2 ^ 62) :
    setBitsExpSat z M rawLen exp = setBitsExp z M rawLen exp := by
  unfold setBitsExpSat setBitsExp
  simp only
  split
  · rfl
  · have hle := nwords_le_of_lt_pow hraw
    have h2 := dnormShift_lt M
    have hD : (DW : Int) = 19 := rfl
    have hDn : DW = 19 := rfl
    have e1 : isInt64 (-(dnormShift M (nwords M) : Int)) := by
      unfold isInt64 MinInt64 MaxInt64; omega
    have e2 : isInt64 (((rawLen - nwords M : Nat) : Int) * (DW : Int)) := by
      unfold isInt64 MinInt64 MaxInt64; rw [hD]; omega
    have e3 : isInt64 (-(dnormShift M (nwords M) : Int) - ((rawLen - nwords M : Nat) : Int) * (DW : Int)) := by
      unfold isInt64 MinInt64 MaxInt64; rw [hD]; omega
    rw [wrap64_of_isInt64 e1, wrap64_of_isInt64 e2, wrap64_of_isInt64 e3,
      setExpAndRound_addExpSat _ hexp e3]
    congr 1
    rw [hDn]
    push_cast
    omega

theorem setBitsExpFull_sat_eq (z : Dec) (ws : List Nat) (e : Int) (hexp : isInt64 e)
    (hws : ∀ w ∈ ws, w < B) (hlen : ws.length * 19 < 2 ^ 62) :
    setBitsExpFullSat z ws e = setBitsExpFull z ws e := by
  unfold setBitsExpFullSat setBitsExpFull
  exact setBitsExp_sat_eq _ _ _ _ hexp (natOf_lt ws hws) hlen

end Decimal
