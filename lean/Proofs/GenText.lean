/-
  `Append` of decimal_toa.go REGENERATED (`Gen.Facts.Append`: which formatter is reached with which scalar arguments,
  and — as `mtrace` — whether and how the operand is replaced by a rounded copy) tied to the model
  (`Decimal.append`, DecimalModel/Text.lean).
-/
import DecimalModel.Gen.Facts
import DecimalModel.Text
import Proofs.GenFacts

namespace Decimal.GenText

open Decimal Decimal.GenFacts

/-- `x.MantExp(nil)` -/
def ex (d : Dec) : Int := if d.form == .finite then d.exp else 0

/-- the rounded copy selected by the trace of the generated `Append` -/
def copyOf (x : Dec) (tr : List (Nat × List Int)) : Dec :=
  match tr with
  | [(1, [p])] => roundBelowQuantum x p                                   -- x = x.roundBelowQuantum(prec)
  | [(2, [r])] => set { mode := x.mode, prec := r.toNat } x               -- x = new(Decimal).SetMode(x.mode).SetPrec(uint(rnd)).Set(x)
  | _ => x

/-- `Append` re-assembled from the generated function. -/
def appendG (x : Dec) (fmtc : Char) (prec : Int) : List Char :=
  let g0 := Gen.Facts.Append 0 x.neg x.form.toNat fmtc.toNat prec (minPrec x) (ex x) 0 0
  let y := copyOf x g0.mtrace
  let g := Gen.Facts.Append 0 x.neg x.form.toNat fmtc.toNat prec (minPrec x) (ex x) (minPrec y) (ex y)
  let sign : List Char := if x.neg then ['-'] else []
  match g.tail, g.args with
  | 1, _ => sign ++ (if x.neg then [] else ['+']) ++ "Inf".toList
  | 2, _ => sign ++ fmtB x
  | 3, _ => sign ++ fmtP x
  | 4, [c, p] => sign ++ fmtE y (Char.ofNat c.toNat) p
  | 5, [p] => sign ++ fmtF y p
  | 6, _ => ['%', fmtc]
  | _, _ => []

theorem beq_char (c d : Char) : (c == d) = decide (c.toNat = d.toNat) := by
  by_cases h : c = d
  · subst h; simp
  · have : ¬ c.toNat = d.toNat := fun e => h (Char.toNat_inj.mp e)
    simp [h, this]

/-- sizes that fit the Go types: digit counts below 2^40, exponents in int32 -/
def Small (d : Dec) : Prop := minPrec d < 1099511627776 ∧ -2147483648 ≤ ex d ∧ ex d ≤ 2147483647

theorem wrap_id (a : Int) (h1 : -9223372036854775808 ≤ a) (h2 : a ≤ 9223372036854775807) : Gen.Facts.wrapI64 a = a := by
  unfold Gen.Facts.wrapI64; omega

set_option maxHeartbeats 1000000 in
/-- **append_eq.** -/
theorem append_eq (x : Dec) (fmtc : Char) (prec : Int) (hp : -2147483648 ≤ prec ∧ prec ≤ 2147483647)
    (hx : Small x) (h2 : ∀ r, Small (set { mode := x.mode, prec := r } x)) :
    append x fmtc prec = appendG x fmtc prec := by
  obtain ⟨hp1, hp2⟩ := hp
  obtain ⟨hxd, hxe1, hxe2⟩ := hx
  have hmax : ∀ a b : Int, Gen.Facts.goMax a b = max a b := by
    intro a b; unfold Gen.Facts.goMax; by_cases h : a > b <;> simp [h] <;> omega
  unfold append appendG
  simp only [beq_char]
  by_cases hinf : x.form = .inf
  · simp [hinf, Gen.Facts.Append]
  · have hne : x.form.toNat ≠ 2 := by cases hf : x.form <;> simp_all
    have cb : 'b'.toNat = 98 := rfl
    have cp : 'p'.toNat = 112 := rfl
    have ce : 'e'.toNat = 101 := rfl
    have cE : 'E'.toNat = 69 := rfl
    have cf : 'f'.toNat = 102 := rfl
    have cg : 'g'.toNat = 103 := rfl
    have cG : 'G'.toNat = 71 := rfl
    simp only [cb, cp, ce, cE, cf, cg, cG]
    generalize hf : fmtc.toNat = f
    by_cases hfb : f = 98
    · subst hfb; simp [hinf, hne, Gen.Facts.Append]
    · by_cases hfp : f = 112
      · subst hfp; simp [hinf, hne, Gen.Facts.Append]
      · by_cases hother : ¬ (f = 101 ∨ f = 69 ∨ f = 102 ∨ f = 103 ∨ f = 71)
        · have a1 : ¬ f = 101 := fun h => hother (Or.inl h)
          have a2 : ¬ f = 69 := fun h => hother (Or.inr (Or.inl h))
          have a3 : ¬ f = 102 := fun h => hother (Or.inr (Or.inr (Or.inl h)))
          have a4 : ¬ f = 103 := fun h => hother (Or.inr (Or.inr (Or.inr (Or.inl h))))
          have a5 : ¬ f = 71 := fun h => hother (Or.inr (Or.inr (Or.inr (Or.inr h))))
          simp [hinf, hne, hfb, hfp, a1, a2, a3, a4, a5, Gen.Facts.Append]
        · have hD : Gen.Facts.wrapI64 ((minPrec x : Nat) : Int) = (minPrec x : Int) := wrap_id _ (by omega) (by omega)
          have hE : (if x.form == .finite then x.exp else 0) = ex x := rfl
          have hf5 : f = 101 ∨ f = 69 ∨ f = 102 ∨ f = 103 ∨ f = 71 := by
            by_cases h : f = 101 ∨ f = 69 ∨ f = 102 ∨ f = 103 ∨ f = 71
            · exact h
            · exact absurd h hother
          rcases hf5 with h | h | h | h | h
          · subst h
            have hc : fmtc = Char.ofNat 101 := Char.toNat_inj.mp (by rw [hf]; rfl)
            have w1 : Gen.Facts.wrapI64 ((minPrec x : Int) - 1) = (minPrec x : Int) - 1 := wrap_id _ (by omega) (by omega)
            have w2 : Gen.Facts.wrapI64 (1 + prec) = 1 + prec := wrap_id _ (by omega) (by omega)
            by_cases hs : prec < 0
            · simp [hinf, hne, Gen.Facts.Append, hs, hD, w1, copyOf, hc]
            · have w3 : (max ((1 + prec) % 18446744073709551616) 0).toNat = (1 + prec).toNat := by omega
              by_cases hr : 1 + prec < (minPrec x : Int)
              · simp [hinf, hne, Gen.Facts.Append, hs, hD, w2, w3, copyOf, hc, hr]
              · simp [hinf, hne, Gen.Facts.Append, hs, hD, w2, copyOf, hc, hr]
          · subst h
            have hc : fmtc = Char.ofNat 69 := Char.toNat_inj.mp (by rw [hf]; rfl)
            have w1 : Gen.Facts.wrapI64 ((minPrec x : Int) - 1) = (minPrec x : Int) - 1 := wrap_id _ (by omega) (by omega)
            have w2 : Gen.Facts.wrapI64 (1 + prec) = 1 + prec := wrap_id _ (by omega) (by omega)
            by_cases hs : prec < 0
            · simp [hinf, hne, Gen.Facts.Append, hs, hD, w1, copyOf, hc]
            · have w3 : (max ((1 + prec) % 18446744073709551616) 0).toNat = (1 + prec).toNat := by omega
              by_cases hr : 1 + prec < (minPrec x : Int)
              · simp [hinf, hne, Gen.Facts.Append, hs, hD, w2, w3, copyOf, hc, hr]
              · simp [hinf, hne, Gen.Facts.Append, hs, hD, w2, copyOf, hc, hr]
          · subst h
            have hc : fmtc = Char.ofNat 102 := Char.toNat_inj.mp (by rw [hf]; rfl)
            have hxe : (if x.form = .finite then x.exp else 0) = ex x := by unfold ex; simp
            have w4 : Gen.Facts.wrapI64 ((minPrec x : Int) - ex x) = (minPrec x : Int) - ex x := wrap_id _ (by omega) (by omega)
            have w5 : Gen.Facts.wrapI64 (ex x + prec) = ex x + prec := wrap_id _ (by omega) (by omega)
            have hfin : (x.form.toNat = 1) = (x.form = .finite) := by cases x.form <;> simp [Form.toNat]
            by_cases hs : prec < 0
            · simp [hinf, hne, Gen.Facts.Append, hs, hD, w4, hmax, copyOf, hc, hxe]
            · by_cases hff : x.form = .finite
              · have hex : ex x = x.exp := by unfold ex; simp [hff]
                rw [hex] at w4 w5 hxe1 hxe2
                by_cases hq : x.exp + prec ≤ 0
                · simp [hinf, hne, Gen.Facts.Append, hs, hD, w5, hmax, copyOf, hc, hfin, hff, hex, hq]
                · have w3 : (max ((x.exp + prec) % 18446744073709551616) 0).toNat = (x.exp + prec).toNat := by omega
                  by_cases hr : x.exp + prec < (minPrec x : Int)
                  · simp [hinf, hne, Gen.Facts.Append, hs, hD, w5, w3, hmax, copyOf, hc, hfin, hff, hex, hq, hr]
                  · simp [hinf, hne, Gen.Facts.Append, hs, hD, w5, hmax, copyOf, hc, hfin, hff, hex, hq, hr]
              · have hex : ex x = 0 := by unfold ex; simp [hff]
                have hz : x.form = .zero := by cases hx3 : x.form <;> simp_all
                have w6 : Gen.Facts.wrapI64 prec = prec := wrap_id _ (by omega) (by omega)
                have w3 : (max (prec % 18446744073709551616) 0).toNat = prec.toNat := by omega
                by_cases hr : prec < (minPrec x : Int)
                · simp [hinf, hne, Gen.Facts.Append, hs, hD, w6, w3, hmax, copyOf, hc, hz, hex, hr]
                · simp [hinf, hne, Gen.Facts.Append, hs, hD, w6, hmax, copyOf, hc, hz, hex, hr]
          · subst h
            have hc : fmtc = Char.ofNat 103 := Char.toNat_inj.mp (by rw [hf]; rfl)
            have hxe : (if x.form = .finite then x.exp else 0) = ex x := by unfold ex; simp
            by_cases hs : prec < 0
            · -- shortest: no rounding, eprec = 6
              simp (disch := omega) [hinf, hne, Gen.Facts.Append, hs, hmax, copyOf, hc, hxe, wrap_id]
              split <;> (first | rfl | simp_all)
            · have hxeA : ∀ d : Dec, (if d.form = .finite then d.exp else 0) = ex d := by intro d; unfold ex; simp
              by_cases hp0 : prec = 0
              · subst hp0
                by_cases hr : (1 : Int) < (minPrec x : Int)
                · obtain ⟨hy1, hy2, hy3⟩ := h2 ((1 : Int)).toNat
                  have w3 : (max ((1 : Int) % 18446744073709551616) 0).toNat = (1 : Int).toNat := by decide
                  simp (disch := omega) [hinf, hne, Gen.Facts.Append, hmax, copyOf, hc, hxeA, wrap_id, hr, hs, w3] at hy1 hy2 hy3 ⊢
                  generalize set _ x = y at *
                  by_cases a1 : ((minPrec y : Nat) : Int) < (1 : Int) <;> by_cases a2 : ex y ≤ ((minPrec y : Nat) : Int) <;> by_cases a3 : ex y - 1 < -4 <;>
                    by_cases a4 : ((minPrec y : Nat) : Int) ≤ ex y - 1 <;> by_cases a5 : (1 : Int) ≤ ex y - 1 <;> by_cases a6 : ex y < (1 : Int) <;>
                    (first | (simp [a1, a2, a3, a4, a5, a6]; done) | (exfalso; omega))
                · simp (disch := omega) [hinf, hne, Gen.Facts.Append, hmax, copyOf, hc, hxeA, wrap_id, hr, hs]
                  by_cases a1 : ((minPrec x : Nat) : Int) < (1 : Int) <;> by_cases a2 : ex x ≤ ((minPrec x : Nat) : Int) <;> by_cases a3 : ex x - 1 < -4 <;>
                    by_cases a4 : ((minPrec x : Nat) : Int) ≤ ex x - 1 <;> by_cases a5 : (1 : Int) ≤ ex x - 1 <;> by_cases a6 : ex x < (1 : Int) <;>
                    (first | (simp [a1, a2, a3, a4, a5, a6]; done) | (exfalso; omega))

              · have hpp : 0 < prec := by omega
                by_cases hr : prec < (minPrec x : Int)
                · obtain ⟨hy1, hy2, hy3⟩ := h2 (prec).toNat
                  have w3 : (max (prec % 18446744073709551616) 0).toNat = prec.toNat := by omega
                  simp (disch := omega) [hinf, hne, Gen.Facts.Append, hmax, copyOf, hc, hxeA, wrap_id, hr, hs, w3, hp0, apply_ite Gen.Facts.AppendOut.mtrace] at hy1 hy2 hy3 ⊢
                  generalize set _ x = y at *
                  by_cases a1 : ((minPrec y : Nat) : Int) < prec <;> by_cases a2 : ex y ≤ ((minPrec y : Nat) : Int) <;> by_cases a3 : ex y - 1 < -4 <;>
                    by_cases a4 : ((minPrec y : Nat) : Int) ≤ ex y - 1 <;> by_cases a5 : prec ≤ ex y - 1 <;> by_cases a6 : ex y < prec <;>
                    (first | (simp [a1, a2, a3, a4, a5, a6]; done) | (exfalso; omega))
                · simp (disch := omega) [hinf, hne, Gen.Facts.Append, hmax, copyOf, hc, hxeA, wrap_id, hr, hs, hp0, apply_ite Gen.Facts.AppendOut.mtrace]
                  by_cases a1 : ((minPrec x : Nat) : Int) < prec <;> by_cases a2 : ex x ≤ ((minPrec x : Nat) : Int) <;> by_cases a3 : ex x - 1 < -4 <;>
                    by_cases a4 : ((minPrec x : Nat) : Int) ≤ ex x - 1 <;> by_cases a5 : prec ≤ ex x - 1 <;> by_cases a6 : ex x < prec <;>
                    (first | (simp [a1, a2, a3, a4, a5, a6]; done) | (exfalso; omega))

          · subst h
            have hc : fmtc = Char.ofNat 71 := Char.toNat_inj.mp (by rw [hf]; rfl)
            have hxe : (if x.form = .finite then x.exp else 0) = ex x := by unfold ex; simp
            by_cases hs : prec < 0
            · -- shortest: no rounding, eprec = 6
              simp (disch := omega) [hinf, hne, Gen.Facts.Append, hs, hmax, copyOf, hc, hxe, wrap_id]
              split <;> (first | rfl | simp_all)
            · have hxeA : ∀ d : Dec, (if d.form = .finite then d.exp else 0) = ex d := by intro d; unfold ex; simp
              by_cases hp0 : prec = 0
              · subst hp0
                by_cases hr : (1 : Int) < (minPrec x : Int)
                · obtain ⟨hy1, hy2, hy3⟩ := h2 ((1 : Int)).toNat
                  have w3 : (max ((1 : Int) % 18446744073709551616) 0).toNat = (1 : Int).toNat := by decide
                  simp (disch := omega) [hinf, hne, Gen.Facts.Append, hmax, copyOf, hc, hxeA, wrap_id, hr, hs, w3] at hy1 hy2 hy3 ⊢
                  generalize set _ x = y at *
                  by_cases a1 : ((minPrec y : Nat) : Int) < (1 : Int) <;> by_cases a2 : ex y ≤ ((minPrec y : Nat) : Int) <;> by_cases a3 : ex y - 1 < -4 <;>
                    by_cases a4 : ((minPrec y : Nat) : Int) ≤ ex y - 1 <;> by_cases a5 : (1 : Int) ≤ ex y - 1 <;> by_cases a6 : ex y < (1 : Int) <;>
                    (first | (simp [a1, a2, a3, a4, a5, a6]; done) | (exfalso; omega))
                · simp (disch := omega) [hinf, hne, Gen.Facts.Append, hmax, copyOf, hc, hxeA, wrap_id, hr, hs]
                  by_cases a1 : ((minPrec x : Nat) : Int) < (1 : Int) <;> by_cases a2 : ex x ≤ ((minPrec x : Nat) : Int) <;> by_cases a3 : ex x - 1 < -4 <;>
                    by_cases a4 : ((minPrec x : Nat) : Int) ≤ ex x - 1 <;> by_cases a5 : (1 : Int) ≤ ex x - 1 <;> by_cases a6 : ex x < (1 : Int) <;>
                    (first | (simp [a1, a2, a3, a4, a5, a6]; done) | (exfalso; omega))

              · have hpp : 0 < prec := by omega
                by_cases hr : prec < (minPrec x : Int)
                · obtain ⟨hy1, hy2, hy3⟩ := h2 (prec).toNat
                  have w3 : (max (prec % 18446744073709551616) 0).toNat = prec.toNat := by omega
                  simp (disch := omega) [hinf, hne, Gen.Facts.Append, hmax, copyOf, hc, hxeA, wrap_id, hr, hs, w3, hp0, apply_ite Gen.Facts.AppendOut.mtrace] at hy1 hy2 hy3 ⊢
                  generalize set _ x = y at *
                  by_cases a1 : ((minPrec y : Nat) : Int) < prec <;> by_cases a2 : ex y ≤ ((minPrec y : Nat) : Int) <;> by_cases a3 : ex y - 1 < -4 <;>
                    by_cases a4 : ((minPrec y : Nat) : Int) ≤ ex y - 1 <;> by_cases a5 : prec ≤ ex y - 1 <;> by_cases a6 : ex y < prec <;>
                    (first | (simp [a1, a2, a3, a4, a5, a6]; done) | (exfalso; omega))
                · simp (disch := omega) [hinf, hne, Gen.Facts.Append, hmax, copyOf, hc, hxeA, wrap_id, hr, hs, hp0, apply_ite Gen.Facts.AppendOut.mtrace]
                  by_cases a1 : ((minPrec x : Nat) : Int) < prec <;> by_cases a2 : ex x ≤ ((minPrec x : Nat) : Int) <;> by_cases a3 : ex x - 1 < -4 <;>
                    by_cases a4 : ((minPrec x : Nat) : Int) ≤ ex x - 1 <;> by_cases a5 : prec ≤ ex x - 1 <;> by_cases a6 : ex x < prec <;>
                    (first | (simp [a1, a2, a3, a4, a5, a6]; done) | (exfalso; omega))



end Decimal.GenText
