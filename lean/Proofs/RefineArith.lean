/-
  Refinement of `umul`, `uadd`, `usub`, `ucmp`, `uquo`: the word-level functions of
  `DecimalModel/L0Decimal.lean` compute, through `abs`, the L1 functions of `DecimalModel/Arith.lean`
  (which replace every dec-level call by arithmetic), and never fail, on operands whose mantissa
  is a non-empty vector of words below `B` with a non-zero top digit.
-/
import Proofs.RefineRound
import Proofs.Mul
import Proofs.DivRec

set_option linter.unusedVariables false
namespace Decimal.W
open Decimal Decimal.L0 Decimal.Gen

/-- A finite operand as the u-functions read it: words below `B`, non-empty, top digit non-zero
    (`19·len` decimal digits). -/
structure Opnd (x : WDec) : Prop where
  wf : L0.WF x.mant
  ne : x.mant ≠ []
  nd : ndigits (natOf x.mant) = x.mant.length * 19

/-- "top digit non-zero" on the top word itself. -/
theorem nd_iff_top (x : List Nat) (hx : L0.WF x) (hne : x ≠ []) :
    ndigits (natOf x) = x.length * 19 ↔ 1000000000000000000 ≤ x.getD (x.length - 1) 0 := by
  have hl : 0 < x.length := List.length_pos_iff.mpr hne
  have htl := getD_lt x hx (x.length - 1)
  have hte := top_eq x hx hne
  generalize x.getD (x.length - 1) 0 = t at *
  have hP : B ^ (x.length - 1) = 10 ^ ((x.length - 1) * 19) := by rw [B_pow, Nat.mul_comm]
  have hPpos := Bpow_pos (x.length - 1)
  have hlo : t * B ^ (x.length - 1) ≤ natOf x := by rw [hte]; exact Nat.div_mul_le_self _ _
  have hhi : natOf x < (t + 1) * B ^ (x.length - 1) := by
    rw [hte, Nat.mul_comm]; exact Nat.lt_mul_div_succ _ hPpos
  have hup := natOf_lt hx
  rw [B_pow] at hup
  have e18 : 10 ^ (x.length * 19 - 1) = 1000000000000000000 * B ^ (x.length - 1) := by
    rw [hP, show (1000000000000000000 : Nat) = 10 ^ 18 from by norm_num, ← Nat.pow_add]
    congr 1; omega
  constructor
  · intro h
    have h1 : x.length * 19 - 1 < ndigits (natOf x) := by omega
    have h2 := (lt_ndigits_iff _ _).mp h1
    rw [e18] at h2
    by_contra hc
    have : (t + 1) * B ^ (x.length - 1) ≤ 1000000000000000000 * B ^ (x.length - 1) :=
      Nat.mul_le_mul_right _ (by omega)
    omega
  · intro h
    apply ndigits_unique
    · rw [e18]
      exact Nat.le_trans (Nat.mul_le_mul_right _ h) hlo
    · rw [Nat.mul_comm]; exact hup
    · have : 0 < t * B ^ (x.length - 1) := Nat.mul_pos (by omega) hPpos
      omega

theorem Normalized_of_ge (x : List Nat) (hx : L0.WF x) (hne : x ≠ [])
    (h : B ^ (x.length - 1) ≤ natOf x) : Normalized x := by
  induction x using List.reverseRecOn with
  | nil => exact absurd rfl hne
  | append_singleton z a _ =>
    rw [Normalized_snoc]
    intro ha
    subst ha
    have hz := natOf_lt (WF_append.mp hx).1
    rw [natOf_append, natOf_single] at h
    simp only [List.length_append, List.length_cons, List.length_nil, Nat.add_sub_cancel,
      Nat.mul_zero, Nat.add_zero] at h
    omega

namespace Opnd
variable {x : WDec}

theorem len_pos (h : Opnd x) : 0 < x.mant.length := List.length_pos_iff.mpr h.ne

theorem pos (h : Opnd x) : 0 < natOf x.mant := by
  rcases Nat.eq_zero_or_pos (natOf x.mant) with h0 | h0
  · have := h.nd; rw [h0, ndigits_zero] at this; have := h.len_pos; omega
  · exact h0

theorem lower (h : Opnd x) : 10 ^ (x.mant.length * 19 - 1) ≤ natOf x.mant := by
  have := pow_le_of_ndigits h.pos
  rwa [h.nd] at this

theorem upper (h : Opnd x) : natOf x.mant < 10 ^ (x.mant.length * 19) := by
  have := ndigits_lt_pow (natOf x.mant)
  rwa [h.nd] at this

theorem normalized (h : Opnd x) : Normalized x.mant := by
  apply Normalized_of_ge _ h.wf h.ne
  have h1 := h.lower
  have hl := h.len_pos
  have : B ^ (x.mant.length - 1) ≤ 10 ^ (x.mant.length * 19 - 1) := by
    rw [B_pow]; exact Nat.pow_le_pow_right (by omega) (by omega)
  omega

end Opnd

theorem zero_bne : ((0 : Nat) != 0) = false := rfl

/-- `setNormAndRound` does not read the receiver's mantissa. -/
theorem setNormAndRound_irrel (z : Dec) (a b : Nat) (M : Nat) (e : Int) (sb : Bool) :
    Decimal.setNormAndRound { z with mant := a, len := b } M e sb = Decimal.setNormAndRound z M e sb := rfl

theorem abs_with_mant (z : WDec) (m : List Nat) :
    abs { z with mant := m } = { abs z with mant := natOf m, len := m.length } := rfl

theorem intExp_abs (x : WDec) :
    x.exp - (x.mant.length : Int) * ((c_DW : Nat) : Int) = intExp (abs x) := by
  unfold intExp
  simp only [abs, cDW, DW_eq, Int.natCast_mul]

/-! ### umul -/

/-- product of a `p`-digit and a `q`-digit number: `p+q-1` or `p+q` digits. -/
theorem ndigits_mul_bounds (a b p q : Nat) (ha1 : 10 ^ (p - 1) ≤ a) (ha2 : a < 10 ^ p)
    (hb1 : 10 ^ (q - 1) ≤ b) (hb2 : b < 10 ^ q) (hp : 1 ≤ p) (hq : 1 ≤ q) :
    p + q - 1 ≤ ndigits (a * b) ∧ ndigits (a * b) ≤ p + q := by
  constructor
  · have h : 10 ^ (p + q - 2) ≤ a * b := by
      have : p + q - 2 = (p - 1) + (q - 1) := by omega
      rw [this, Nat.pow_add]
      exact Nat.mul_le_mul ha1 hb1
    have := (lt_ndigits_iff (a * b) (p + q - 2)).mpr h
    omega
  · rw [ndigits_le_iff, Nat.pow_add]
    exact Nat.mul_lt_mul'' ha2 hb2

theorem nwords_mul {x y : WDec} (hx : Opnd x) (hy : Opnd y) :
    nwords (natOf x.mant * natOf y.mant) = x.mant.length + y.mant.length := by
  have hlx := hx.len_pos
  have hly := hy.len_pos
  obtain ⟨h1, h2⟩ := ndigits_mul_bounds _ _ _ _ hx.lower hx.upper hy.lower hy.upper (by omega) (by omega)
  rw [nwords_def]
  omega

theorem umul_refines (z x y : WDec) (xyEq : Bool) (t : Thr) (hk : 1 ≤ t.kmul) (hks : 1 ≤ t.ksqr)
    (hx : Opnd x) (hy : Opnd y) (hxy : xyEq = true → x = y) (hp : 1 ≤ z.prec) :
    ∃ w', W.umul z x y xyEq t = .ok w' ∧ abs w' = Decimal.umul (abs z) (abs x) (abs y)
      ∧ L0.WF w'.mant := by
  unfold W.umul
  simp only
  -- the product vector, whichever routine computes it
  have hP : ∃ P, (if xyEq = true then L0.sqr t.bsqr t.ksqr t.kmul x.mant.length x.mant
      else L0.mul t.kmul (x.mant.length + y.mant.length + 1) x.mant y.mant) = P
      ∧ natOf P = natOf x.mant * natOf y.mant ∧ L0.WF P ∧ Normalized P := by
    by_cases h : xyEq = true
    · rw [if_pos h]
      have := hxy h; subst this
      obtain ⟨a, b, c⟩ := L0.sqr_spec t.bsqr t.ksqr t.kmul hks hk x.mant.length x.mant hx.wf (Nat.le_refl _)
      exact ⟨_, rfl, a, b, c⟩
    · rw [if_neg h]
      obtain ⟨a, b, c⟩ := L0.mul_spec t.kmul hk (x.mant.length + y.mant.length + 1) x.mant y.mant hx.wf hy.wf
        (by omega)
      exact ⟨_, rfl, a, b, c⟩
  obtain ⟨P, hPe, hPv, hPw, hPn⟩ := hP
  rw [hPe]
  have hpos : 0 < natOf P := by rw [hPv]; exact Nat.mul_pos hx.pos hy.pos
  have hPne : P ≠ [] := by intro h; rw [h] at hpos; simp [natOf] at hpos
  obtain ⟨w', e1, e2, e3⟩ := dnormAndRound_refines { z with mant := P } (x.exp + y.exp) 0 (by omega)
    hPw hPn hPne hp
  refine ⟨w', e1, ?_, e3⟩
  rw [e2]
  have hlen : P.length = x.mant.length + y.mant.length := by
    rw [length_eq_nwords P hPw hPn, hPv, nwords_mul hx hy]
  unfold Decimal.umul
  rw [abs_with_mant, setNormAndRound_irrel, zero_bne, ← intExp_abs x, ← intExp_abs y]
  simp only [hPv, hlen, cDW, abs]
  congr 1
  push_cast
  omega

/-! ### uadd -/

theorem shl_opnd (x : List Nat) (s : Nat) (hx : L0.WF x) :
    natOf (L0.shl x s) = natOf x * 10 ^ s ∧ L0.WF (L0.shl x s) ∧ Normalized (L0.shl x s) :=
  L0.shl_spec x s hx

theorem uadd_refines (z x y : WDec) (hx : Opnd x) (hy : Opnd y) (hp : 1 ≤ z.prec) :
    ∃ w', W.uadd z x y = .ok w' ∧ abs w' = Decimal.uadd (abs z) (abs x) (abs y) ∧ L0.WF w'.mant := by
  unfold W.uadd Decimal.uadd
  simp only
  rw [intExp_abs x, intExp_abs y]
  generalize hex : intExp (abs x) = ex
  generalize hey : intExp (abs y) = ey
  -- common tail
  have tail : ∀ (S : List Nat) (e : Int) (M : Nat), natOf S = M → L0.WF S → Normalized S → 0 < M →
      ∃ w', W.dnormAndRound { z with mant := S } (e + (S.length : Int) * ((c_DW : Nat) : Int)) 0 = .ok w'
        ∧ abs w' = Decimal.setNormAndRound (abs z) M e false ∧ L0.WF w'.mant := by
    intro S e M hv hw hn hpos
    have hne : S ≠ [] := by intro h; rw [h] at hv; simp [natOf] at hv; omega
    obtain ⟨w', e1, e2, e3⟩ := dnormAndRound_refines { z with mant := S }
      (e + (S.length : Int) * ((c_DW : Nat) : Int)) 0 (by omega) hw hn hne hp
    refine ⟨w', e1, ?_, e3⟩
    rw [e2, abs_with_mant, setNormAndRound_irrel, zero_bne]
    simp only [hv, cDW]
    congr 1
    push_cast
    omega
  have hxpos := hx.pos
  have hypos := hy.pos
  by_cases h1 : ex < ey
  · simp only [if_pos h1]
    obtain ⟨s1, s2, s3⟩ := shl_opnd y.mant (ey - ex).toNat hy.wf
    obtain ⟨a1, a2, a3⟩ := L0.add_spec x.mant (L0.shl y.mant (ey - ex).toNat) hx.wf s2
    exact tail _ ex _ (by rw [a1, s1]; rfl) a2 (a3 hx.normalized s3) (by
      show 0 < natOf x.mant + _; omega)
  · simp only [if_neg h1]
    by_cases h2 : ex > ey
    · simp only [if_pos h2]
      obtain ⟨s1, s2, s3⟩ := shl_opnd x.mant (ex - ey).toNat hx.wf
      obtain ⟨a1, a2, a3⟩ := L0.add_spec (L0.shl x.mant (ex - ey).toNat) y.mant s2 hy.wf
      exact tail _ ey _ (by rw [a1, s1]; rfl) a2 (a3 s3 hy.normalized) (by
        show 0 < _ + natOf y.mant; omega)
    · simp only [if_neg h2]
      obtain ⟨a1, a2, a3⟩ := L0.add_spec x.mant y.mant hx.wf hy.wf
      exact tail _ ex _ (by rw [a1]; rfl) a2 (a3 hx.normalized hy.normalized) (by
        show 0 < natOf x.mant + natOf y.mant; omega)

/-! ### usub -/

/-- `usub` under the guard of the L1 model (`|x| ≥ |y|` on the aligned mantissas, which `Add`/`Sub`
    establish with `ucmp`): no "underflow", and the L1 result — except that on an exact
    cancellation Go also leaves the emptied mantissa `z.mant[:0]`, which L1 does not record. -/
theorem usub_refines (z x y : WDec) (hx : Opnd x) (hy : Opnd y) (hp : 1 ≤ z.prec)
    (hg : usubGuard (abs x) (abs y) = true) :
    ∃ w', W.usub z x y = .ok w' ∧ L0.WF w'.mant ∧
      (abs w' = Decimal.usub (abs z) (abs x) (abs y) ∨
        (w'.mant = [] ∧ w'.form = .zero ∧ w'.acc = Exact ∧
          abs w' = { Decimal.usub (abs z) (abs x) (abs y) with mant := 0, len := 0 })) := by
  unfold usubGuard at hg
  unfold W.usub Decimal.usub
  simp only at hg ⊢
  rw [intExp_abs x, intExp_abs y]
  generalize hex : intExp (abs x) = ex at hg ⊢
  generalize hey : intExp (abs y) = ey at hg ⊢
  -- common tail, from a successful `sub`
  have tail : ∀ (X Y : List Nat) (e : Int) (MX MY : Nat), natOf X = MX → natOf Y = MY → L0.WF X → L0.WF Y →
      Normalized X → Normalized Y → MY ≤ MX →
      ∃ w', (match L0.sub X Y with
          | .error e => (.error e : Except String WDec)
          | .ok mant =>
            if ({ z with mant := mant } : WDec).mant.length = 0 then
              .ok { ({ z with mant := mant } : WDec) with acc := Exact, form := .zero, neg := false }
            else W.dnormAndRound { z with mant := mant } (e + (mant.length : Int) * ((c_DW : Nat) : Int)) 0)
          = .ok w' ∧ L0.WF w'.mant ∧
        (abs w' = (if (MX - MY == 0) = true then { abs z with acc := Exact, form := .zero, neg := false }
            else Decimal.setNormAndRound (abs z) (MX - MY) e false) ∨
          (w'.mant = [] ∧ w'.form = .zero ∧ w'.acc = Exact ∧
            abs w' = { (if (MX - MY == 0) = true then { abs z with acc := Exact, form := .zero, neg := false }
              else Decimal.setNormAndRound (abs z) (MX - MY) e false) with mant := 0, len := 0 })) := by
    intro X Y e MX MY hvx hvy hwx hwy hnx hny hle
    obtain ⟨S, s1, s2, s3, s4⟩ := L0.sub_spec X Y hwx hwy hnx hny (by rw [hvx, hvy]; exact hle)
    rw [s1]
    simp only
    rw [hvx, hvy] at s2
    by_cases h0 : S.length = 0
    · rw [if_pos h0]
      have hS : S = [] := List.eq_nil_of_length_eq_zero h0
      subst hS
      have hM : MX - MY = 0 := by simp [natOf] at s2; omega
      refine ⟨_, rfl, WF_nil, Or.inr ⟨rfl, rfl, rfl, ?_⟩⟩
      rw [hM]
      rfl
    · rw [if_neg h0]
      have hne : S ≠ [] := by intro h; rw [h] at h0; simp at h0
      have hpos : 0 < natOf S := by
        rcases Nat.eq_zero_or_pos (natOf S) with hz | hz
        · exact absurd (natOf_eq_zero_of_Normalized s4 hz) hne
        · exact hz
      obtain ⟨w', e1, e2, e3⟩ := dnormAndRound_refines { z with mant := S }
        (e + (S.length : Int) * ((c_DW : Nat) : Int)) 0 (by omega) s3 s4 hne hp
      refine ⟨w', e1, e3, Or.inl ?_⟩
      have hM : MX - MY = natOf S := by omega
      have hne0 : ¬ ((natOf S == 0) = true) := by simp; omega
      rw [e2, abs_with_mant, setNormAndRound_irrel, zero_bne, hM, if_neg hne0]
      simp only [cDW]
      congr 1
      push_cast
      omega
  by_cases h1 : ex < ey
  · simp only [if_pos h1] at hg ⊢
    obtain ⟨s1, s2, s3⟩ := shl_opnd y.mant (ey - ex).toNat hy.wf
    exact tail x.mant _ ex _ _ rfl s1 hx.wf s2 hx.normalized s3 (by simpa using hg)
  · simp only [if_neg h1] at hg ⊢
    by_cases h2 : ex > ey
    · simp only [if_pos h2] at hg ⊢
      obtain ⟨s1, s2, s3⟩ := shl_opnd x.mant (ex - ey).toNat hx.wf
      exact tail _ y.mant ey _ _ s1 rfl s2 hy.wf s3 hy.normalized (by simpa using hg)
    · simp only [if_neg h2] at hg ⊢
      exact tail x.mant y.mant ex _ _ rfl rfl hx.wf hy.wf hx.normalized hy.normalized (by simpa using hg)

/-! ### ucmp -/

theorem natOf_rev_cons (a : Nat) (as : List Nat) :
    natOf (a :: as).reverse = natOf as.reverse + B ^ as.length * a := by
  rw [List.reverse_cons, natOf_append, natOf_single, List.length_reverse]

/-- three-way comparison with a common leading block. -/
theorem cmp_lead (a b P X Y : Nat) (hX : X < P) (hY : Y < P) :
    (if X + P * a < Y + P * b then (-1 : Int) else if X + P * a > Y + P * b then 1 else 0)
      = if a < b then -1 else if a > b then 1 else (if X < Y then -1 else if X > Y then 1 else 0) := by
  by_cases h1 : a < b
  · have : P * (a + 1) ≤ P * b := Nat.mul_le_mul_left _ h1
    rw [Nat.mul_add, Nat.mul_one] at this
    rw [if_pos h1, if_pos (by omega)]
  · rw [if_neg h1]
    by_cases h2 : a > b
    · have : P * (b + 1) ≤ P * a := Nat.mul_le_mul_left _ h2
      rw [Nat.mul_add, Nat.mul_one] at this
      rw [if_pos h2, if_neg (by omega), if_pos (by omega)]
    · rw [if_neg h2]
      have : a = b := by omega
      subst this
      by_cases h3 : X < Y
      · rw [if_pos h3, if_pos (by omega)]
      · rw [if_neg h3, if_neg (by omega)]
        by_cases h4 : X > Y
        · rw [if_pos h4, if_pos (by omega)]
        · rw [if_neg h4, if_neg (by omega)]

theorem ucmpLoop_nil_right (a : List Nat) :
    ucmpLoop a [] = if 0 < natOf a.reverse then 1 else 0 := by
  induction a with
  | nil => simp [ucmpLoop, natOf]
  | cons a as ih =>
    rw [ucmpLoop, natOf_rev_cons, ih]
    have hP := Bpow_pos as.length
    by_cases ha : a > 0
    · have : 0 < B ^ as.length * a := Nat.mul_pos hP ha
      rw [if_neg (by omega), if_pos ha, if_pos (by omega)]
    · have : a = 0 := by omega
      subst this
      rw [if_neg (by omega), if_neg (by omega), Nat.mul_zero, Nat.add_zero]

theorem ucmpLoop_nil_left (b : List Nat) :
    ucmpLoop [] b = if 0 < natOf b.reverse then -1 else 0 := by
  induction b with
  | nil => simp [ucmpLoop, natOf]
  | cons b bs ih =>
    rw [ucmpLoop, natOf_rev_cons, ih]
    have hP := Bpow_pos bs.length
    by_cases hb : 0 < b
    · have : 0 < B ^ bs.length * b := Nat.mul_pos hP hb
      rw [if_pos hb, if_pos (by omega)]
    · have : b = 0 := by omega
      subst this
      rw [if_neg (by omega), if_neg (by omega), Nat.mul_zero, Nat.add_zero]

/-- the loop of `ucmp` compares the values of the two vectors aligned at the top (the shorter one
    padded with low zero words). -/
theorem ucmpLoop_spec (a b : List Nat) (ha : L0.WF a) (hb : L0.WF b) :
    ucmpLoop a b =
      if natOf a.reverse * B ^ (b.length - a.length) < natOf b.reverse * B ^ (a.length - b.length) then -1
      else if natOf a.reverse * B ^ (b.length - a.length) > natOf b.reverse * B ^ (a.length - b.length) then 1
      else 0 := by
  induction a generalizing b with
  | nil =>
    rw [ucmpLoop_nil_left]
    simp only [List.reverse_nil, natOf_nil, Nat.zero_mul, List.length_nil, Nat.zero_sub, Nat.pow_zero,
      Nat.mul_one]
    by_cases h : 0 < natOf b.reverse
    · rw [if_pos h, if_pos h]
    · rw [if_neg h, if_neg h, if_neg (by omega)]
  | cons a as ih =>
    cases b with
    | nil =>
      rw [ucmpLoop_nil_right]
      simp only [List.reverse_nil, natOf_nil, Nat.zero_mul, List.length_nil, Nat.zero_sub, Nat.pow_zero,
        Nat.mul_one]
      by_cases h : 0 < natOf (a :: as).reverse
      · rw [if_pos h, if_neg (by omega)]
      · rw [if_neg h, if_neg (by omega)]
    | cons b bs =>
      have ⟨ha0, has⟩ := WF_cons.mp ha
      have ⟨hb0, hbs⟩ := WF_cons.mp hb
      rw [ucmpLoop, ih bs has hbs, natOf_rev_cons, natOf_rev_cons]
      simp only [List.length_cons, Nat.add_sub_add_right]
      have hA := natOf_lt (WF_reverse.mpr has)
      have hBv := natOf_lt (WF_reverse.mpr hbs)
      rw [List.length_reverse] at hA hBv
      -- scale both to L = max words
      have hPa : B ^ as.length * B ^ (bs.length - as.length) = B ^ (max as.length bs.length) := by
        rw [← Nat.pow_add]; congr 1; omega
      have hPb : B ^ bs.length * B ^ (as.length - bs.length) = B ^ (max as.length bs.length) := by
        rw [← Nat.pow_add]; congr 1; omega
      have hXlt : natOf as.reverse * B ^ (bs.length - as.length) < B ^ (max as.length bs.length) := by
        rw [← hPa]; exact Nat.mul_lt_mul_of_pos_right hA (Bpow_pos _)
      have hYlt : natOf bs.reverse * B ^ (as.length - bs.length) < B ^ (max as.length bs.length) := by
        rw [← hPb]; exact Nat.mul_lt_mul_of_pos_right hBv (Bpow_pos _)
      have eX : (natOf as.reverse + B ^ as.length * a) * B ^ (bs.length - as.length)
          = natOf as.reverse * B ^ (bs.length - as.length) + B ^ (max as.length bs.length) * a := by
        rw [← hPa]; ring
      have eY : (natOf bs.reverse + B ^ bs.length * b) * B ^ (as.length - bs.length)
          = natOf bs.reverse * B ^ (as.length - bs.length) + B ^ (max as.length bs.length) * b := by
        rw [← hPb]; ring
      rw [eX, eY]
      exact (cmp_lead a b _ _ _ hXlt hYlt).symm

theorem ucmp_refines (x y : WDec) (hx : L0.WF x.mant) (hy : L0.WF y.mant) :
    W.ucmp x y = Decimal.ucmp (abs x) (abs y) := by
  unfold W.ucmp Decimal.ucmp
  dsimp only [abs]
  have h := ucmpLoop_spec _ _ (WF_reverse.mpr hx) (WF_reverse.mpr hy)
  rw [List.reverse_reverse, List.reverse_reverse, List.length_reverse, List.length_reverse] at h
  rw [h]
  rfl

/-! ### uquo -/

theorem natOf_zeros_append (d : Nat) (x : List Nat) : natOf (zeros d ++ x) = natOf x * B ^ d := by
  rw [natOf_append, natOf_zeros, length_zeros, Nat.zero_add, Nat.mul_comm]

theorem Normalized_zeros_append (d : Nat) (x : List Nat) (hn : Normalized x) (hne : x ≠ []) :
    Normalized (zeros d ++ x) := by
  induction x using List.reverseRecOn with
  | nil => exact absurd rfl hne
  | append_singleton x' a _ =>
    rw [← List.append_assoc, Normalized_snoc]
    exact (Normalized_snoc x' a).mp hn

theorem adj_spec (x : List Nat) (ly : Nat) (d : Int) (hx : L0.WF x) (hn : Normalized x) (hne : x ≠ [])
    (hd : (1 : Int) - (x.length : Int) + (ly : Int) ≤ d) :
    ∃ A : List Nat, (if d > 0 then zeros d.toNat ++ x else x) = A
      ∧ L0.WF A ∧ Normalized A ∧ ly + 1 ≤ A.length
      ∧ (natOf A, A.length) = (if d > 0 then (natOf x * B ^ d.toNat, x.length + d.toNat)
          else (natOf x, x.length)) := by
  by_cases hd0 : d > 0
  · rw [if_pos hd0, if_pos hd0]
    refine ⟨_, rfl, WF_append.mpr ⟨WF_zeros _, hx⟩, Normalized_zeros_append _ _ hn hne, ?_, ?_⟩
    · rw [List.length_append, length_zeros]; omega
    · rw [natOf_zeros_append, List.length_append, length_zeros, Nat.add_comm]
  · rw [if_neg hd0, if_neg hd0]
    exact ⟨_, rfl, hx, hn, by omega, rfl⟩

theorem uquo_refines (z x y : WDec) (t : Thr) (hk : 1 ≤ t.kmul) (hd : 4 ≤ t.drec)
    (hx : Opnd x) (hy : Opnd y) (hp : 1 ≤ z.prec) :
    ∃ w', W.uquo z x y t = .ok w' ∧ abs w' = Decimal.uquo (abs z) (abs x) (abs y) ∧ L0.WF w'.mant := by
  unfold W.uquo Decimal.uquo
  simp only
  have hdd : ((((abs z).prec / DW + 1 : Nat) : Int) - ((abs x).len : Int) + ((abs y).len : Int))
      = ((z.prec / c_DW : Nat) : Int) + 1 - (x.mant.length : Int) + (y.mant.length : Int) := by
    simp only [abs, cDW, DW_eq]; push_cast; rfl
  rw [hdd]
  have hdge : (1 : Int) - (x.mant.length : Int) + (y.mant.length : Int)
      ≤ ((z.prec / c_DW : Nat) : Int) + 1 - (x.mant.length : Int) + (y.mant.length : Int) := by
    have : ∀ n0 : Nat, (1 : Int) - (x.mant.length : Int) + (y.mant.length : Int)
        ≤ (n0 : Int) + 1 - (x.mant.length : Int) + (y.mant.length : Int) := by intro n0; omega
    exact this _
  generalize ((z.prec / c_DW : Nat) : Int) + 1 - (x.mant.length : Int) + (y.mant.length : Int) = d at hdge ⊢
  have hA := adj_spec x.mant y.mant.length d hx.wf hx.normalized hx.ne hdge
  obtain ⟨A, hAe, hAw, hAn, hAl, hAv⟩ := hA
  rw [hAe]
  obtain ⟨q, r, hdiv, hval, hrlt, hqw, hrw, hqn, hrn⟩ :=
    L0.divFull_total t.drec t.kmul hd hk A y.mant hAw hy.wf hAn hy.normalized hy.ne
  rw [hdiv]
  simp only
  have hypos := hy.pos
  have hq : natOf q = natOf A / natOf y.mant := by
    rw [hval, Nat.mul_comm, Nat.mul_add_div hypos, Nat.div_eq_of_lt hrlt, Nat.add_zero]
  have hr : natOf r = natOf A % natOf y.mant := by
    rw [hval, Nat.mul_comm, Nat.mul_add_mod, Nat.mod_eq_of_lt hrlt]
  -- the quotient is at least 1
  have hAge : natOf y.mant ≤ natOf A := by
    have h1 := natOf_lt hy.wf
    have hAne : A ≠ [] := by intro h; rw [h] at hAl; simp at hAl
    have h2 := natOf_ge_of_Normalized hAn hAne
    have h3 : B ^ y.mant.length ≤ B ^ (A.length - 1) := Nat.pow_le_pow_right B_pos (by omega)
    omega
  have hqpos : 0 < natOf q := by rw [hq]; exact Nat.div_pos hAge hypos
  have hqne : q ≠ [] := by intro h; rw [h] at hqpos; simp [natOf] at hqpos
  have hsb : (if r.length > 0 then 1 else 0 : Nat) ≤ 1 := by split <;> omega
  obtain ⟨w', e1, e2, e3⟩ := dnormAndRound_refines { z with mant := q }
    (x.exp - y.exp - ((A.length : Int) - (y.mant.length : Int) - (q.length : Int)) * ((c_DW : Nat) : Int))
    (if r.length > 0 then 1 else 0) hsb hqw hqn hqne hp
  refine ⟨w', e1, ?_, e3⟩
  rw [e2, abs_with_mant, setNormAndRound_irrel]
  have hqlen : q.length = nwords (natOf q) := length_eq_nwords q hqw hqn
  have hsbit : ((if r.length > 0 then 1 else 0 : Nat) != 0) = (natOf r != 0) := by
    by_cases h0 : r.length > 0
    · have hrne : r ≠ [] := by intro h; rw [h] at h0; simp at h0
      have : natOf r ≠ 0 := fun hz => hrne (natOf_eq_zero_of_Normalized hrn hz)
      rw [if_pos h0]; simp [this]
    · have : r = [] := List.eq_nil_of_length_eq_zero (by omega)
      subst this; simp [natOf]
  rw [hsbit]
  -- bring the L1 side to the same names
  have hax : (abs x).mant = natOf x.mant := rfl
  have hal : (abs x).len = x.mant.length := rfl
  rw [hax, hal]
  generalize hL1 : (if d > 0 then (natOf x.mant * B ^ d.toNat, x.mant.length + d.toNat)
          else (natOf x.mant, x.mant.length)) = pr at hAv ⊢
  obtain ⟨xadj, xlen⟩ := pr
  simp only [Prod.mk.injEq] at hAv
  obtain ⟨hv1, hv2⟩ := hAv
  subst hv1 hv2
  simp only [abs, hq, hr, ← hqlen, cDW, DW_eq]
  rw [← hq]
  congr 1
  push_cast
  omega

end Decimal.W
