/-
  FINDING, formalised: `SetInt`'s float64 length estimate is one word short at
  `bits = 1137446633` (the smallest such bit length; there are ten below 2^32).

  `float64(1137446633) * log10_2` rounds to exactly 342405555.0 = 19 · 18021345, so the destination
  gets 18021345 words = 342405555 digits; but `2^1137446633 ≈ 1.0000000227·10^342405555` has
  342405556 digits.  `setNat` then returns the value modulo `10^342405555` (`setNat_value`): an
  integer of that bit length at or above `10^342405555` — e.g. `2^1137446633 − 1`, 142 MB — loses
  its leading digit silently.

  The inequality between the two 1.1-gigabit numbers is evaluated by the kernel (GMP), about 20 s
  and 1.5 GB.
-/
import Proofs.RadixInt

set_option linter.unusedVariables false
namespace Decimal.L0
open Decimal Decimal.Gen Decimal.W

theorem pow_split (a e1 k e2 e : Nat) (h : e1 * k + e2 = e) : a ^ e = (a ^ e1) ^ k * a ^ e2 := by
  rw [← Nat.pow_mul, ← Nat.pow_add, h]

theorem big_pow_lt : (10 ^ 16777216) ^ 20 * 10 ^ 6861235 < (2 ^ 16777216) ^ 67 * 2 ^ 13373161 := by
  decide +kernel

theorem setIntWords_1137446633 : setIntWords 1137446633 = 18021345 := by decide

/-- the estimate does NOT suffice at this bit length. -/
theorem setIntWords_fails : B ^ setIntWords 1137446633 < 2 ^ 1137446633 := by
  rw [setIntWords_1137446633, B_pow,
    pow_split 10 16777216 20 6861235 (19 * 18021345) (by norm_num),
    pow_split 2 16777216 67 13373161 1137446633 (by norm_num)]
  exact big_pow_lt

/-- a destination that is too short for the value loses the top of it. -/
theorem setNat_short (z x : List Nat) (hx : WFbin x) (h : B ^ z.length ≤ binOf x) :
    natOf (setNat z x) < binOf x := by
  rw [(setNat_value z x hx).1]
  exact Nat.lt_of_lt_of_le (Nat.mod_lt _ (Bpow_pos _)) h

/-- every integer of 1137446633 bits that is at least `10^342405555` (the top 2.3·10^-8 of that
    binade) is converted WRONGLY by `SetInt`'s `setNat` call: the result is smaller than the
    argument. -/
theorem setNat_setInt_wrong (junk : Nat → Nat) (x : List Nat) (hx : WFbin x)
    (hb : bitLen (binOf x) = 1137446633) (hbig : B ^ 18021345 ≤ binOf x) :
    natOf (setNat (mkBuf (setIntWords (bitLen (binOf x))) junk) x) < binOf x := by
  apply setNat_short _ _ hx
  rw [length_mkBuf, hb, setIntWords_1137446633]
  exact hbig

/-- `bitLen (2^n − 1) = n`. -/
theorem bitLen_pow_sub_one (n : Nat) (hn : 0 < n) : bitLen (2 ^ n - 1) = n := by
  obtain ⟨m, rfl⟩ : ∃ m, n = m + 1 := ⟨n - 1, by omega⟩
  have hpos : 0 < 2 ^ m := Nat.pow_pos (by omega)
  have hs : (2 : Nat) ^ (m + 1) = 2 * 2 ^ m := by rw [Nat.pow_succ, Nat.mul_comm]
  generalize hT : (2 : Nat) ^ m = T at *
  have h1 : 2 * T - 1 ≠ 0 := by omega
  unfold bitLen
  rw [hs, if_neg h1]
  have : Nat.log2 (2 * T - 1) = m := by
    rw [Nat.log2_eq_iff h1, Nat.pow_succ, hT]
    omega
  rw [this]

/-- such integers exist: with `bits = 1137446633`, `n = 18021345` and `setIntWords_fails`,
    `2^bits − 1` is one (stated for variables: the kernel cannot handle the numeral
    `2 ^ 1137446633` other than through the split product of `big_pow_lt`). -/
theorem setNat_setInt_wrong_witness (bits n : Nat) (hb : 0 < bits) (h : B ^ n < 2 ^ bits) :
    bitLen (2 ^ bits - 1) = bits ∧ B ^ n ≤ 2 ^ bits - 1 :=
  ⟨bitLen_pow_sub_one bits hb, by omega⟩

end Decimal.L0
