/-
  The two correction loops of the literal `sqrtInverse` (DecimalModel/SqrtLit.lean): partial
  correctness (`corrLoop1_spec`, `corrLoop2_spec`, `bracket_unique`) and termination with explicit
  fuel bounds (`corrLoop1_total`, `corrLoop2_total`).
-/
import Proofs.SqrtLitBase

namespace Decimal
open Spec

/-! ### Equations of the loops -/

theorem corrLoop1_zero (x s sq ulp : Dec) :
    corrLoop1 x 0 s sq ulp =
      if (mul sq s s).2 != .ok then some ((s, (mul sq s s).1, ulp), (mul sq s s).2)
      else if cmp (mul sq s s).1 x > 0 then none
      else some ((s, (mul sq s s).1, ulp), .ok) := by
  rw [corrLoop1]

theorem corrLoop1_succ (x : Dec) (f : Nat) (s sq ulp : Dec) :
    corrLoop1 x (f + 1) s sq ulp =
      if (mul sq s s).2 != .ok then some ((s, (mul sq s s).1, ulp), (mul sq s s).2)
      else if cmp (mul sq s s).1 x > 0 then
        if (sub s s (litUlp ulp s) true false).2 != .ok then
          some (((sub s s (litUlp ulp s) true false).1, (mul sq s s).1, litUlp ulp s),
            (sub s s (litUlp ulp s) true false).2)
        else corrLoop1 x f (sub s s (litUlp ulp s) true false).1 (mul sq s s).1 (litUlp ulp s)
      else some ((s, (mul sq s s).1, ulp), .ok) := by
  rw [corrLoop1]

theorem corrLoop2_succ (x : Dec) (f : Nat) (s u sq ulp : Dec) :
    corrLoop2 x (f + 1) s u sq ulp =
      let u0 := setMode (setPrec u s.prec) .ToZero
      let ulp' := litUlp ulp s
      if (add u0 s ulp').2 != .ok then some ((s, (add u0 s ulp').1, sq, ulp'), (add u0 s ulp').2)
      else if (mul sq (add u0 s ulp').1 (add u0 s ulp').1).2 != .ok then
        some ((s, (add u0 s ulp').1, (mul sq (add u0 s ulp').1 (add u0 s ulp').1).1, ulp'),
          (mul sq (add u0 s ulp').1 (add u0 s ulp').1).2)
      else if cmp (mul sq (add u0 s ulp').1 (add u0 s ulp').1).1 x > 0 then
        some ((s, (add u0 s ulp').1, (mul sq (add u0 s ulp').1 (add u0 s ulp').1).1, ulp'), .ok)
      else corrLoop2 x f (set s (add u0 s ulp').1) (add u0 s ulp').1
        (mul sq (add u0 s ulp').1 (add u0 s ulp').1).1 ulp' := by
  rw [corrLoop2]

/-! ### The order `s² ≤ x` on floats -/

/-- Value of the `p1`-digit float `(c, e)`: `c × 10^(e − p1)`. -/
def fval (p1 : Nat) (c : Nat) (e : Int) : ℚ := qval c (e - p1)

/-- `s² ≤ x`. -/
def sqLE (p1 : Nat) (x : Dec) (c : Nat) (e : Int) : Prop := fval p1 c e * fval p1 c e ≤ magVal x

theorem qval_sq (c : Nat) (i : Int) : qval (c * c) (2 * i) = qval c i * qval c i := by
  rw [two_mul, qval_mul]

theorem fval_pos {p1 c : Nat} (hc : 0 < c) (e : Int) : 0 < fval p1 c e := qval_pos hc _

theorem fval_lo {p1 c : Nat} (hp1 : 1 ≤ p1) (h : 10 ^ (p1 - 1) ≤ c) (e : Int) : (10 : ℚ) ^ (e - 1) ≤ fval p1 c e := by
  have h10 : (10 : ℚ) ≠ 0 := by norm_num
  unfold fval qval
  have : e - 1 = ((p1 - 1 : Nat) : Int) + (e - p1) := by omega
  rw [this, zpow_add₀ h10, zpow_natCast]
  apply mul_le_mul_of_nonneg_right _ (le_of_lt (ten_zpow_pos _))
  exact_mod_cast h

theorem fval_hi {p1 c : Nat} (h : c ≤ 10 ^ p1) (e : Int) : fval p1 c e ≤ (10 : ℚ) ^ e := by
  have h10 : (10 : ℚ) ≠ 0 := by norm_num
  unfold fval qval
  have : e = ((p1 : Nat) : Int) + (e - p1) := by omega
  rw [this, zpow_add₀ h10, zpow_natCast]
  have e2 : ((p1 : Nat) : Int) + (↑p1 + (e - ↑p1) - ↑p1) = (p1 : Int) + (e - p1) := by omega
  simp only [add_sub_cancel_left]
  apply mul_le_mul_of_nonneg_right _ (le_of_lt (ten_zpow_pos _))
  exact_mod_cast h

theorem fval_lt_hi {p1 c : Nat} (h : c < 10 ^ p1) (e : Int) : fval p1 c e < (10 : ℚ) ^ e := by
  have h10 : (10 : ℚ) ≠ 0 := by norm_num
  unfold fval qval
  have : (10 : ℚ) ^ e = (10 : ℚ) ^ p1 * (10 : ℚ) ^ (e - p1) := by
    rw [← zpow_natCast, ← zpow_add₀ h10]; congr 1; omega
  rw [this]
  apply mul_lt_mul_of_pos_right _ (ten_zpow_pos _)
  exact_mod_cast h

theorem sq_zpow (e : Int) : (10 : ℚ) ^ e * (10 : ℚ) ^ e = (10 : ℚ) ^ (2 * e) := by
  have h10 : (10 : ℚ) ≠ 0 := by norm_num
  rw [two_mul, zpow_add₀ h10]

/-- Below `0.1` the square is below `0.01 ≤ x`. -/
theorem sqLE_of_exp_neg {p1 c : Nat} {x : Dec} (hx : WorkX x) (hc : c ≤ 10 ^ p1) {e : Int} (he : e ≤ -1) :
    sqLE p1 x c e := by
  unfold sqLE
  have h1 := fval_hi hc e
  have h0 : 0 ≤ fval p1 c e := qval_nonneg _ _
  calc fval p1 c e * fval p1 c e ≤ (10 : ℚ) ^ e * (10 : ℚ) ^ e := mul_le_mul h1 h1 h0 (le_of_lt (ten_zpow_pos _))
    _ = (10 : ℚ) ^ (2 * e) := sq_zpow e
    _ ≤ (10 : ℚ) ^ (-2 : Int) := ten_zpow_le (by omega)
    _ ≤ magVal x := hx.bounds.1

/-- From `10` on the square is above `x < 10`. -/
theorem exp_le_of_sqLE {p1 c : Nat} {x : Dec} (hx : WorkX x) (hp1 : 1 ≤ p1) (hc : 10 ^ (p1 - 1) ≤ c) {e : Int}
    (h : sqLE p1 x c e) : e ≤ 1 := by
  by_contra hcon
  have he : 2 ≤ e := by omega
  unfold sqLE at h
  have h1 := fval_lo hp1 hc e
  have h0 : (0 : ℚ) ≤ (10 : ℚ) ^ (e - 1) := le_of_lt (ten_zpow_pos _)
  have : (10 : ℚ) ^ (1 : Int) ≤ fval p1 c e * fval p1 c e :=
    calc (10 : ℚ) ^ (1 : Int) ≤ (10 : ℚ) ^ (2 * (e - 1)) := ten_zpow_le (by omega)
      _ = (10 : ℚ) ^ (e - 1) * (10 : ℚ) ^ (e - 1) := (sq_zpow _).symm
      _ ≤ fval p1 c e * fval p1 c e := mul_le_mul h1 h1 h0 (le_trans h0 h1)
  exact absurd (lt_of_le_of_lt (le_trans this h) hx.bounds.2) (lt_irrefl _)

/-- The successor float has the value of `(c + 1, e)`. -/
theorem fval_succ {p1 : Nat} (c : Nat) (e : Int) (hp1 : 1 ≤ p1) (hc : c < 10 ^ p1) :
    fval p1 (if c + 1 < 10 ^ p1 then c + 1 else 10 ^ (p1 - 1)) (if c + 1 < 10 ^ p1 then e else e + 1)
      = fval p1 (c + 1) e := by
  by_cases h : c + 1 < 10 ^ p1
  · simp only [h, if_true]
  · simp only [h, if_false]
    have hceq : c + 1 = 10 ^ p1 := by omega
    unfold fval
    rw [hceq]
    have h1 := qval_scale' 1 (p1 - 1) (e + 1 - (p1 : Int)) e (by omega)
    have h2 := qval_scale' 1 p1 (e - (p1 : Int)) e (by omega)
    rw [Nat.one_mul] at h1 h2
    rw [h1, h2]

theorem lt_of_sq_lt {a b : ℚ} (ha : 0 ≤ a) (hb : 0 ≤ b) (h : a * a < b * b) : a < b := by
  by_contra hcon
  have : b ≤ a := not_lt.mp hcon
  exact absurd h (not_lt.mpr (mul_le_mul this this hb ha))

/-- The bracket `s² ≤ x < (s+ulp)²` determines the float. -/
theorem bracket_unique {p1 : Nat} {x : Dec} {c c0 : Nat} {e e0 : Int} (hp1 : 1 ≤ p1)
    (hc1 : 10 ^ (p1 - 1) ≤ c) (hc2 : c < 10 ^ p1) (hd1 : 10 ^ (p1 - 1) ≤ c0) (hd2 : c0 < 10 ^ p1)
    (h1 : sqLE p1 x c e) (h2 : ¬ sqLE p1 x (c + 1) e) (h3 : sqLE p1 x c0 e0) (h4 : ¬ sqLE p1 x (c0 + 1) e0) :
    c = c0 ∧ e = e0 := by
  unfold sqLE at *
  have ha : fval p1 c e < fval p1 (c0 + 1) e0 :=
    lt_of_sq_lt (qval_nonneg _ _) (qval_nonneg _ _) (lt_of_le_of_lt h1 (not_le.mp h4))
  have hb : fval p1 c0 e0 < fval p1 (c + 1) e :=
    lt_of_sq_lt (qval_nonneg _ _) (qval_nonneg _ _) (lt_of_le_of_lt h3 (not_le.mp h2))
  have hee : e = e0 := by
    by_contra hne
    rcases lt_or_gt_of_ne hne with hlt | hgt
    · -- (c+1, e) ≤ 10^e ≤ 10^(e0-1) ≤ (c0, e0)
      have := lt_of_lt_of_le hb (fval_hi (by omega : c + 1 ≤ 10 ^ p1) e)
      have h5 := lt_of_le_of_lt (fval_lo hp1 hd1 e0) this
      exact absurd (ten_zpow_le (by omega : e ≤ e0 - 1)) (not_le.mpr h5)
    · have := lt_of_lt_of_le ha (fval_hi (by omega : c0 + 1 ≤ 10 ^ p1) e0)
      have h5 := lt_of_le_of_lt (fval_lo hp1 hc1 e) this
      exact absurd (ten_zpow_le (by omega : e0 ≤ e - 1)) (not_le.mpr h5)
  subst hee
  refine ⟨?_, rfl⟩
  unfold fval qval at ha hb
  rw [mul_lt_mul_iff_of_pos_right (ten_zpow_pos _)] at ha hb
  have ha' : c < c0 + 1 := by exact_mod_cast ha
  have hb' : c0 < c + 1 := by exact_mod_cast hb
  omega

/-! ### Partial correctness of the loops -/

/-- State of `s` on entry of loop 1. -/
def Inv1 (p1 : Nat) (s : Dec) : Prop := RepZ p1 s ∨ ∃ c e, Rep p1 s c e

/-- State of `s` on entry of loop 2 (exit of loop 1): `s² ≤ x`. -/
def Inv2 (p1 : Nat) (x s : Dec) : Prop := RepZ p1 s ∨ ∃ c e, Rep p1 s c e ∧ sqLE p1 x c e

theorem ndigits_sq_le {p1 c : Nat} (hc : c ≤ 10 ^ p1) : ndigits (c * c) ≤ 2 * p1 + 1 := by
  rw [ndigits_le_iff]
  calc c * c ≤ 10 ^ p1 * 10 ^ p1 := Nat.mul_le_mul hc hc
    _ = 10 ^ (2 * p1) := by rw [← Nat.pow_add]; congr 1; omega
    _ < 10 ^ (2 * p1 + 1) := Nat.pow_lt_pow_right (by omega) (by omega)

/-- `sq.Mul(s, s).Cmp(x)` for a float. -/
theorem cmp_rep {p1 : Nat} (sq s x : Dec) (c : Nat) (e : Int) (hx : WorkX x) (hR : Rep p1 s c e)
    (hP1 : 2 * p1 + 1 ≤ sq.prec) (hP2 : sq.prec ≤ MaxPrec) :
    (mul sq s s).2 = .ok ∧ (mul sq s s).1.prec = sq.prec ∧
    (cmp (mul sq s s).1 x > 0 ↔ ¬ sqLE p1 x c e) ∧
    (cmp (mul sq s s).1 x = 0 ↔ magVal x = fval p1 c e * fval p1 c e) := by
  have hfit : ndigits (c * c) ≤ sq.prec := le_trans (ndigits_sq_le (le_of_lt hR.hi)) hP1
  obtain ⟨h1, h2, -⟩ := mul_sq_spec sq s c (e - p1) hR.fin hR.cpos hR.val (by omega) hP2 hfit
  obtain ⟨h3, h4⟩ := cmp_sq_spec sq s x c (e - p1) hx hR.fin hR.cpos hR.val (by omega) hP2 hfit
  rw [qval_sq] at h3 h4
  refine ⟨h1, h2, ?_, h4⟩
  rw [h3]; unfold sqLE fval; exact not_le.symm

theorem corrLoop1_spec {p1 P : Nat} (x : Dec) (hx : WorkX x) (hp1 : 2 ≤ p1) (hpM : p1 ≤ 2147483647)
    (hP1 : 2 * p1 + 1 ≤ P) (hP2 : P ≤ MaxPrec) :
    ∀ (fuel : Nat) (s sq ulp : Dec) (r : Dec × Dec × Dec) (o : Outcome), Inv1 p1 s → sq.prec = P →
      corrLoop1 x fuel s sq ulp = some (r, o) → o = .ok ∧ Inv2 p1 x r.1 ∧ r.2.1.prec = P ∧
        (∀ L : Int, L ≤ -1 → (s.form = .finite → L ≤ s.exp) → (r.1.form = .finite → L ≤ r.1.exp)) ∧
        (s.form = .finite → r.1.form = .finite) := by
  have hMin : MinExp = -2147483648 := rfl
  have hMP : MaxPrec = 4294967295 := rfl
  intro fuel
  induction fuel with
  | zero =>
    intro s sq ulp r o hI hsq hres
    rw [corrLoop1_zero] at hres
    rcases hI with hZ | ⟨c, e, hR⟩
    · obtain ⟨h1, h2, -, h4⟩ := mul_zero_cmp sq s x hZ.form hx (by omega)
      simp only [h1, h4, bne_self_eq_false, Bool.false_eq_true, if_false] at hres
      have : ¬ ((-1 : Int) > 0) := by omega
      simp only [this, if_false, Option.some.injEq, Prod.mk.injEq] at hres
      obtain ⟨hr, ho⟩ := hres
      subst hr
      exact ⟨ho.symm, Or.inl hZ, by rw [h2, hsq], fun L _ h => h, fun h => h⟩
    · obtain ⟨h1, h2, h3, -⟩ := cmp_rep sq s x c e hx hR (by omega) (by omega)
      simp only [h1, bne_self_eq_false, Bool.false_eq_true, if_false] at hres
      by_cases hle : sqLE p1 x c e
      · have : ¬ (cmp (mul sq s s).1 x > 0) := by rw [h3]; exact not_not.mpr hle
        simp only [this, if_false, Option.some.injEq, Prod.mk.injEq] at hres
        obtain ⟨hr, ho⟩ := hres
        subst hr
        exact ⟨ho.symm, Or.inr ⟨c, e, hR, hle⟩, by rw [h2, hsq], fun L _ h => h, fun h => h⟩
      · have : cmp (mul sq s s).1 x > 0 := h3.mpr hle
        simp only [this, if_true] at hres
        exact absurd hres (by simp)
  | succ f ih =>
    intro s sq ulp r o hI hsq hres
    rw [corrLoop1_succ] at hres
    rcases hI with hZ | ⟨c, e, hR⟩
    · obtain ⟨h1, h2, -, h4⟩ := mul_zero_cmp sq s x hZ.form hx (by omega)
      simp only [h1, h4, bne_self_eq_false, Bool.false_eq_true, if_false] at hres
      have : ¬ ((-1 : Int) > 0) := by omega
      simp only [this, if_false, Option.some.injEq, Prod.mk.injEq] at hres
      obtain ⟨hr, ho⟩ := hres
      subst hr
      exact ⟨ho.symm, Or.inl hZ, by rw [h2, hsq], fun L _ h => h, fun h => h⟩
    · obtain ⟨h1, h2, h3, -⟩ := cmp_rep sq s x c e hx hR (by omega) (by omega)
      simp only [h1, bne_self_eq_false, Bool.false_eq_true, if_false] at hres
      by_cases hle : sqLE p1 x c e
      · have : ¬ (cmp (mul sq s s).1 x > 0) := by rw [h3]; exact not_not.mpr hle
        simp only [this, if_false, Option.some.injEq, Prod.mk.injEq] at hres
        obtain ⟨hr, ho⟩ := hres
        subst hr
        exact ⟨ho.symm, Or.inr ⟨c, e, hR, hle⟩, by rw [h2, hsq], fun L _ h => h, fun h => h⟩
      · have hgt : cmp (mul sq s s).1 x > 0 := h3.mpr hle
        have he0 : 0 ≤ e := by
          by_contra hcon
          exact hle (sqLE_of_exp_neg hx (le_of_lt hR.hi) (by omega))
        obtain ⟨g1, g2⟩ := sub_ulp_rep s ulp c e hR hp1 (by omega) (by omega)
        simp only [hgt, if_true, g1, bne_self_eq_false, Bool.false_eq_true, if_false] at hres
        obtain ⟨i1, i2, i3, i4, i5⟩ := ih _ _ _ r o (Or.inr ⟨_, _, g2⟩) (by rw [h2, hsq]) hres
        refine ⟨i1, i2, i3, fun L hL _ => i4 L hL (fun _ => ?_), fun _ => i5 g2.fin.form_eq⟩
        rw [g2.exp]
        split <;> omega


theorem sqLE_congr {p1 : Nat} {x : Dec} {c c' : Nat} {e e' : Int} (h : fval p1 c e = fval p1 c' e') :
    sqLE p1 x c e ↔ sqLE p1 x c' e' := by unfold sqLE; rw [h]

theorem corrLoop2_spec {p1 P : Nat} (x : Dec) (hx : WorkX x) (hp1 : 2 ≤ p1) (hpM : p1 ≤ 2147483647)
    (hP1 : 2 * p1 + 1 ≤ P) (hP2 : P ≤ MaxPrec) :
    ∀ (fuel : Nat) (s u sq ulp : Dec) (r : Dec × Dec × Dec × Dec) (o : Outcome), Inv2 p1 x s → sq.prec = P →
      corrLoop2 x fuel s u sq ulp = some (r, o) →
      o = .ok ∧ r.2.2.1.prec = P ∧
        ∃ c e, Rep p1 r.1 c e ∧ sqLE p1 x c e ∧ ¬ sqLE p1 x (c + 1) e := by
  have hMin : MinExp = -2147483648 := rfl
  have hMax : MaxExp = 2147483647 := rfl
  have hMP : MaxPrec = 4294967295 := rfl
  intro fuel
  induction fuel with
  | zero => intro s u sq ulp r o _ _ hres; rw [corrLoop2] at hres; exact absurd hres (by simp)
  | succ f ih =>
    intro s u sq ulp r o hI hsq hres
    rw [corrLoop2_succ] at hres
    simp only at hres
    have hsp : s.prec = p1 := by
      rcases hI with hZ | ⟨c, e, hR, -⟩
      · exact hZ.prec
      · exact hR.prec
    obtain ⟨hup, hum⟩ := setPrec_setMode_attr u p1 (by omega) (by omega)
    rw [hsp] at hres
    generalize setMode (setPrec u p1) .ToZero = u0 at hup hum hres
    -- the common tail once `u' = add …` is known to be a float `(c', e')`
    have tail : ∀ (c' : Nat) (e' : Int), (add u0 s (litUlp ulp s)).2 = .ok →
        Rep p1 (add u0 s (litUlp ulp s)).1 c' e' →
        (sqLE p1 x c' e' → Inv2 p1 x (set s (add u0 s (litUlp ulp s)).1)) →
        (¬ sqLE p1 x c' e' → ∃ c e, Rep p1 s c e ∧ sqLE p1 x c e ∧ ¬ sqLE p1 x (c + 1) e) →
        o = .ok ∧ r.2.2.1.prec = P ∧ ∃ c e, Rep p1 r.1 c e ∧ sqLE p1 x c e ∧ ¬ sqLE p1 x (c + 1) e := by
      intro c' e' g1 g2 hcont hexit
      obtain ⟨h1, h2, h3, -⟩ := cmp_rep sq _ x c' e' hx g2 (by omega) (by omega)
      simp only [g1, h1, bne_self_eq_false, Bool.false_eq_true, if_false] at hres
      by_cases hle : sqLE p1 x c' e'
      · have : ¬ (cmp (mul sq (add u0 s (litUlp ulp s)).1 (add u0 s (litUlp ulp s)).1).1 x > 0) := by
          rw [h3]; exact not_not.mpr hle
        simp only [this, if_false] at hres
        exact ih _ _ _ _ r o (hcont hle) (by rw [h2, hsq]) hres
      · have : cmp (mul sq (add u0 s (litUlp ulp s)).1 (add u0 s (litUlp ulp s)).1).1 x > 0 := h3.mpr hle
        simp only [this, if_true, Option.some.injEq, Prod.mk.injEq] at hres
        obtain ⟨hr, ho⟩ := hres
        subst hr
        exact ⟨ho.symm, by simp only; rw [h2, hsq], hexit hle⟩
    rcases hI with hZ | ⟨c, e, hR, hle⟩
    · -- from zero: u = ulp, ulp² ≤ 0.01 ≤ x
      obtain ⟨g1, g2⟩ := add_zero_rep u0 s ulp hZ hup hum (by omega)
      have hsq' : sqLE p1 x (10 ^ (p1 - 1)) (1 + s.exp - p1) :=
        sqLE_of_exp_neg hx (Nat.pow_le_pow_right (by omega) (by omega)) (by have := hZ.expHi; omega)
      exact tail _ _ g1 g2
        (fun h => Or.inr ⟨_, _, set_rep s _ _ _ g2 hZ.prec hZ.mode (by omega), h⟩)
        (fun h => absurd hsq' h)
    · have he1 : e ≤ 1 := exp_le_of_sqLE hx (by omega) hR.lo hle
      by_cases hund : e + 1 < MinExp + (p1 : Int)
      · -- ulp underflows: u = s
        obtain ⟨g1, g2⟩ := add_ulp_under u0 s ulp c e hR hup hum (by omega) hund
        exact tail _ _ g1 g2
          (fun h => Or.inr ⟨_, _, set_rep s _ _ _ g2 hR.prec hR.mode (by omega), h⟩)
          (fun h => absurd hle h)
      · obtain ⟨g1, g2⟩ := add_ulp_rep u0 s ulp c e hR hup hum (by omega) (by omega) (by omega) (by omega)
        have hfv := fval_succ (p1 := p1) c e (by omega) hR.hi
        exact tail _ _ g1 g2
          (fun h => Or.inr ⟨_, _, set_rep s _ _ _ g2 hR.prec hR.mode (by omega), h⟩)
          (fun h => ⟨c, e, hR, hle, fun h' => h ((sqLE_congr hfv).mpr h')⟩)


end Decimal
