/-
  Helper lemmas for C19: the context state machine (latched ErrNaN, `Err()`, applied attributes).
  Core Lean only.
-/
import Proofs.Attr
import Proofs.Alias
import Proofs.CanonInv
import DecimalModel.Program

namespace Decimal

def Op.isCtxArith : Op → Bool
  | .cAdd .. | .cSub .. | .cMul .. | .cQuo .. | .cFma .. | .cSqrt .. | .cSet .. | .cNeg .. | .cAbs .. => true
  | _ => false

/-- The receiver index of a context operation. -/
def Op.recv : Op → Nat
  | .cAdd z .. | .cSub z .. | .cMul z .. | .cQuo z .. | .cFma z .. | .cSqrt z .. | .cSet z ..
  | .cNeg z .. | .cAbs z .. => z
  | _ => 0

theorem List.set_getD_self' (l : List Dec) (i : Nat) (d : Dec) : l.set i (l.getD i d) = l := by
  by_cases h : i < l.length
  · rw [List.getD_eq_getElem?_getD, List.getElem?_eq_getElem h]
    simp
  · exact List.set_eq_of_length_le (by omega)

theorem World.put_get_self (w : World) (i : Nat) : w.put i (w.get i) = w := by
  unfold World.put World.get
  rw [List.set_getD_self']

theorem World.get_put_self (w : World) (i : Nat) (d : Dec) (h : i < w.vars.length) :
    (w.put i d).get i = d := by
  unfold World.put World.get
  simp [List.getD_eq_getElem?_getD, h]

theorem guarded_latched (c : Ctx) (z : Dec) (op : Dec → Dec × Outcome) (h : c.err = true) :
    c.guarded z op = (z, c, .ok) := by
  simp [Ctx.guarded, h]

theorem plain_latched (c : Ctx) (z : Dec) (op : Dec → Dec) (h : c.err = true) : c.plain z op = z := by
  simp [Ctx.plain, h]

/-- A latched context turns every context operation into a no-op that reports success. -/
theorem ctx_latch_noop (w : World) (op : Op) (hop : op.isCtxArith = true) (h : w.ctx.err = true) :
    step w op = (w, .ok, false) := by
  cases op <;> simp only [Op.isCtxArith, Bool.false_eq_true] at hop
  all_goals simp only [step, guarded_latched _ _ _ h, plain_latched _ _ _ h, h, if_true, World.put_get_self]


/-! ### Latching is monotone -/

/-- Only `cErr` clears the latch. -/
theorem ctx_err_step (w : World) (op : Op) (h : w.ctx.err = true) (hne : ∀ (_ : op = .cErr), False) :
    (step w op).1.ctx.err = true := by
  cases op
  case cErr => exact absurd rfl (fun h => hne h)
  case gobDecode z bs => simp only [step]; split <;> exact h
  all_goals first
    | exact h
    | (simp only [step, guarded_latched _ _ _ h]; exact h)

def Op.isErr : Op → Bool
  | .cErr => true
  | _ => false

theorem ctx_err_monotone (ops : List Op) : ∀ (w : World), w.ctx.err = true →
    (∀ op ∈ ops, op.isErr = false) → (run w ops).ctx.err = true := by
  induction ops with
  | nil => intro w h _; exact h
  | cons op ops ih =>
    intro w h hv
    have hs := ctx_err_step w op h (fun he => by
      have := hv op List.mem_cons_self; rw [he] at this; simp [Op.isErr] at this)
    simp only [run]
    split
    · next w' m b heq => rw [heq] at hs; exact hs
    · next w' o b hne heq =>
      rw [heq] at hs
      exact ih w' hs (fun op' h' => hv op' (List.mem_cons_of_mem _ h'))

/-- First error wins: once latched, a whole sequence of context operations changes nothing. -/
theorem ctx_first_error_wins (ops : List Op) (w : World) (h : w.ctx.err = true)
    (hv : ∀ op ∈ ops, op.isCtxArith = true) : run w ops = w := by
  induction ops with
  | nil => rfl
  | cons op ops ih =>
    simp only [run, ctx_latch_noop w op (hv op List.mem_cons_self) h]
    exact ih (fun op' h' => hv op' (List.mem_cons_of_mem _ h'))

/-! ### `Err()` -/

theorem ctx_Err_step (w : World) :
    step w .cErr = ({ w with ctx := { w.ctx with err := false } }, .ok, w.ctx.err) := rfl

/-- `Err()` reports the latch exactly once. -/
theorem ctx_Err_once (w : World) :
    (step w .cErr).2.2 = w.ctx.err ∧ (step w .cErr).1.ctx.err = false ∧
      (step (step w .cErr).1 .cErr).2.2 = false ∧ (step w .cErr).1.vars = w.vars := ⟨rfl, rfl, rfl, rfl⟩

/-! ### Panics -/

theorem guarded_outcome (c : Ctx) (z : Dec) (op : Dec → Dec × Outcome) :
    (c.guarded z op).2.2 ≠ .errNaN := by
  simp only [Ctx.guarded]
  split
  · simp
  · split <;> simp

/-- ErrNaN is latched, not propagated. -/
theorem guarded_latches (c : Ctx) (z z' : Dec) (op : Dec → Dec × Outcome) (h : c.err = false)
    (hop : op (c.apply z) = (z', .errNaN)) : c.guarded z op = (z', { c with err := true }, .ok) := by
  simp [Ctx.guarded, h, hop]

theorem guarded_ok (c : Ctx) (z z' : Dec) (op : Dec → Dec × Outcome) (h : c.err = false)
    (hop : op (c.apply z) = (z', .ok)) : c.guarded z op = (z', c, .ok) := by
  simp [Ctx.guarded, h, hop]

/-- Any other panic passes through unchanged and does not latch. -/
theorem guarded_other_panic (c : Ctx) (z z' : Dec) (m : String) (op : Dec → Dec × Outcome)
    (h : c.err = false) (hop : op (c.apply z) = (z', .panicOther m)) :
    c.guarded z op = (z', c, .panicOther m) := by
  simp [Ctx.guarded, h, hop]

theorem ctx_no_panic_on_nan (w : World) (op : Op) (hop : op.isCtxArith = true) :
    (step w op).2.1 ≠ .errNaN := by
  cases op <;> simp only [Op.isCtxArith, Bool.false_eq_true] at hop
  all_goals first
    | (simp only [step]; exact guarded_outcome _ _ _)
    | (simp [step])


/-! ### The context's attributes are applied -/

theorem apply_mode (c : Ctx) (z : Dec) : (c.apply z).mode = c.mode := by
  simp only [Ctx.apply]
  split
  · rw [setPrec_mode]; rfl
  · rfl

theorem apply_prec (c : Ctx) (z : Dec) (hp1 : 1 ≤ c.prec) (hp2 : c.prec ≤ MaxPrec) :
    (c.apply z).prec = c.prec := by
  simp only [Ctx.apply]
  split
  · rw [setPrec_prec, if_neg (by omega), if_neg (by omega)]
  · next h =>
    simp only [bne_iff_ne, ne_eq, Decidable.not_not] at h
    exact h

theorem sqrt_attrs (z x : Dec) (same : Bool) (hp : z.prec ≠ 0) :
    (sqrt z x same).1.prec = z.prec ∧ (sqrt z x same).1.mode = z.mode := by
  have h0 : (z.prec == 0) = false := by simpa using hp
  simp only [sqrt, h0, Bool.false_eq_true, if_false]
  split
  · exact ⟨rfl, rfl⟩
  · split
    · exact ⟨rfl, rfl⟩
    · simp only [setMantExp_prec, setMantExp_mode, if_true, set_prec, set_mode]
      simp [hp]

/-- What a non-latched context operation leaves in the receiver's attributes. -/
theorem ctx_apply_attrs (w : World) (op : Op) (hop : op.isCtxArith = true) (h : w.ctx.err = false)
    (hp1 : 1 ≤ w.ctx.prec) (hp2 : w.ctx.prec ≤ MaxPrec) (hz : op.recv < w.vars.length) :
    ((step w op).1.get op.recv).prec = w.ctx.prec ∧ ((step w op).1.get op.recv).mode = w.ctx.mode := by
  have ap := fun z => apply_prec w.ctx z hp1 hp2
  have am := fun z => apply_mode w.ctx z
  have hne : ∀ z, (w.ctx.apply z).prec ≠ 0 := fun z => by rw [ap]; omega
  have G : ∀ (d : Dec) (c : Ctx), World.get { (w.put op.recv d) with ctx := c } op.recv = d := by
    intro d c
    exact World.get_put_self w op.recv d hz
  cases op <;> simp only [Op.isCtxArith, Bool.false_eq_true] at hop
  case cAdd z x y =>
    simp only [step, Op.recv] at G ⊢
    rw [G, guarded_fst, h]
    simp only [Bool.false_eq_true, if_false]
    rw [add_prec, add_mode, if_neg (hne _), ap, am]; exact ⟨rfl, rfl⟩
  case cSub z x y =>
    simp only [step, Op.recv] at G ⊢
    rw [G, guarded_fst, h]
    simp only [Bool.false_eq_true, if_false]
    rw [sub_prec, sub_mode, if_neg (hne _), ap, am]; exact ⟨rfl, rfl⟩
  case cMul z x y =>
    simp only [step, Op.recv] at G ⊢
    rw [G, guarded_fst, h]
    simp only [Bool.false_eq_true, if_false]
    rw [mul_prec, mul_mode, if_neg (hne _), ap, am]; exact ⟨rfl, rfl⟩
  case cQuo z x y =>
    simp only [step, Op.recv] at G ⊢
    rw [G, guarded_fst, h]
    simp only [Bool.false_eq_true, if_false]
    rw [quo_prec, quo_mode, if_neg (hne _), ap, am]; exact ⟨rfl, rfl⟩
  case cFma z x y u =>
    simp only [step, Op.recv] at G ⊢
    rw [G, guarded_fst, h]
    simp only [Bool.false_eq_true, if_false]
    rw [fma_prec, fma_mode, if_neg (hne _), ap, am]; exact ⟨rfl, rfl⟩
  case cSqrt z x =>
    simp only [step, Op.recv] at G ⊢
    rw [G, guarded_fst, h]
    simp only [Bool.false_eq_true, if_false]
    rw [(sqrt_attrs _ _ _ (hne _)).1, (sqrt_attrs _ _ _ (hne _)).2, ap, am]; exact ⟨rfl, rfl⟩
  case cSet z x =>
    simp only [step, Op.recv] at G ⊢
    have := World.get_put_self w z (if w.ctx.err = true then w.get z else w.ctx.apply (copy (w.get z) (w.get x) (x == z))) hz
    rw [this, h]
    simp only [Bool.false_eq_true, if_false]
    exact ⟨ap _, am _⟩
  case cNeg z x =>
    simp only [step, Op.recv] at G ⊢
    rw [World.get_put_self w z _ hz]
    simp only [Ctx.plain, h, Bool.false_eq_true, if_false]
    rw [neg_prec, neg_mode, if_neg (fun hh => hne _ hh.2), ap, am]; exact ⟨rfl, rfl⟩
  case cAbs z x =>
    simp only [step, Op.recv] at G ⊢
    rw [World.get_put_self w z _ hz]
    simp only [Ctx.plain, h, Bool.false_eq_true, if_false]
    rw [abs_prec, abs_mode, if_neg (fun hh => hne _ hh.2), ap, am]; exact ⟨rfl, rfl⟩


/-! ### The result is the underlying operation at the context's precision and mode -/

/-- The Decimal method a context operation wraps, as a function of the receiver's state. -/
def Op.under (w : World) : Op → Dec → Dec × Outcome
  | .cAdd z x y, za => Decimal.add za (w.get x) (w.get y) (x == z) (y == z)
  | .cSub z x y, za => Decimal.sub za (w.get x) (w.get y) (x == z) (y == z)
  | .cMul z x y, za => Decimal.mul za (w.get x) (w.get y) (x == z) (y == z)
  | .cQuo z x y, za => Decimal.quo za (w.get x) (w.get y) (x == z) (y == z)
  | .cFma z x y u, za => Decimal.fma za (w.get x) (w.get y) (w.get u) (x == z) (y == z) (u == z)
  | .cSqrt z x, za => Decimal.sqrt za (w.get x) (x == z)
  | .cNeg z x, za => (Decimal.neg za (w.get x) (x == z), .ok)
  | .cAbs z x, za => (Decimal.abs za (w.get x) (x == z), .ok)
  | _, za => (za, .ok)

def Op.isCtxWrapped : Op → Bool
  | .cAdd .. | .cSub .. | .cMul .. | .cQuo .. | .cFma .. | .cSqrt .. | .cNeg .. | .cAbs .. => true
  | _ => false

/-- A non-latched context operation stores what the wrapped method computes from the receiver
    with the context's attributes applied. -/
theorem ctx_step_result (w : World) (op : Op) (hop : op.isCtxWrapped = true) (h : w.ctx.err = false)
    (hz : op.recv < w.vars.length) :
    (step w op).1.get op.recv = (op.under w (w.ctx.apply (w.get op.recv))).1 := by
  have G : ∀ (d : Dec) (c : Ctx), World.get { (w.put op.recv d) with ctx := c } op.recv = d :=
    fun d c => World.get_put_self w op.recv d hz
  cases op <;> simp only [Op.isCtxWrapped, Bool.false_eq_true] at hop
  all_goals simp only [step, Op.recv, Op.under] at G ⊢
  all_goals first
    | (rw [G, guarded_fst, h]; rfl)
    | (simp only [Op.recv] at hz
       rw [World.get_put_self w _ _ hz]; simp only [Ctx.plain, h, Bool.false_eq_true, if_false])

/-- C19 `ctx_rounds`: any property `Q` that the wrapped method guarantees for *every* receiver
    holding the context's precision and mode (e.g. `Q d := Spec.agrees d r` with `r` the
    specification result at `ctx.prec`, `ctx.mode`: the C01 theorem of that method) holds for
    what the context operation stores — whatever precision and mode the receiver had. -/
theorem ctx_rounds (w : World) (op : Op) (hop : op.isCtxWrapped = true) (h : w.ctx.err = false)
    (hp1 : 1 ≤ w.ctx.prec) (hp2 : w.ctx.prec ≤ MaxPrec) (hz : op.recv < w.vars.length)
    (Q : Dec → Prop)
    (hcorrect : ∀ z' : Dec, z'.prec = w.ctx.prec → z'.mode = w.ctx.mode → Q (op.under w z').1) :
    Q ((step w op).1.get op.recv) := by
  rw [ctx_step_result w op hop h hz]
  exact hcorrect _ (apply_prec _ _ hp1 hp2) (apply_mode _ _)

/-- `ctx.Set(z, x)`: a copy of `x` with the context's attributes applied (rounded by `SetPrec`). -/
theorem ctx_set_result (w : World) (z x : Nat) (h : w.ctx.err = false) (hz : z < w.vars.length) :
    (step w (.cSet z x)).1.get z = w.ctx.apply (copy (w.get z) (w.get x) (x == z)) := by
  simp only [step]
  rw [World.get_put_self w _ _ hz, h]
  simp

/-- With operands distinct from the receiver the stored result is, observationally, what a
    fresh receiver carrying only the context's attributes would get: the receiver's previous
    value, precision and mode are irrelevant. -/
theorem ctx_add_fresh (w : World) (z x y : Nat) (h : w.ctx.err = false) (hp1 : 1 ≤ w.ctx.prec)
    (hp2 : w.ctx.prec ≤ MaxPrec) (hz : z < w.vars.length) (hx : x ≠ z) (hy : y ≠ z) :
    obsEq ((step w (.cAdd z x y)).1.get z)
      (add { prec := w.ctx.prec, mode := w.ctx.mode } (w.get x) (w.get y)).1 := by
  have := ctx_step_result w (.cAdd z x y) rfl h hz
  simp only [Op.recv, Op.under] at this
  rw [this, show (x == z) = false by simpa using hx, show (y == z) = false by simpa using hy]
  exact (add_congr (apply_prec _ _ hp1 hp2) (apply_mode _ _) (valEq.refl _) rfl (valEq.refl _) rfl).1

theorem ctx_sub_fresh (w : World) (z x y : Nat) (h : w.ctx.err = false) (hp1 : 1 ≤ w.ctx.prec)
    (hp2 : w.ctx.prec ≤ MaxPrec) (hz : z < w.vars.length) (hx : x ≠ z) (hy : y ≠ z) :
    obsEq ((step w (.cSub z x y)).1.get z)
      (sub { prec := w.ctx.prec, mode := w.ctx.mode } (w.get x) (w.get y)).1 := by
  have := ctx_step_result w (.cSub z x y) rfl h hz
  simp only [Op.recv, Op.under] at this
  rw [this, show (x == z) = false by simpa using hx, show (y == z) = false by simpa using hy]
  exact (sub_congr (apply_prec _ _ hp1 hp2) (apply_mode _ _) (valEq.refl _) rfl (valEq.refl _) rfl).1

theorem ctx_mul_fresh (w : World) (z x y : Nat) (h : w.ctx.err = false) (hp1 : 1 ≤ w.ctx.prec)
    (hp2 : w.ctx.prec ≤ MaxPrec) (hz : z < w.vars.length) (hx : x ≠ z) (hy : y ≠ z) :
    obsEq ((step w (.cMul z x y)).1.get z)
      (mul { prec := w.ctx.prec, mode := w.ctx.mode } (w.get x) (w.get y)).1 := by
  have := ctx_step_result w (.cMul z x y) rfl h hz
  simp only [Op.recv, Op.under] at this
  rw [this, show (x == z) = false by simpa using hx, show (y == z) = false by simpa using hy]
  exact (mul_congr (apply_prec _ _ hp1 hp2) (apply_mode _ _) (valEq.refl _) rfl (valEq.refl _) rfl).1

theorem ctx_quo_fresh (w : World) (z x y : Nat) (h : w.ctx.err = false) (hp1 : 1 ≤ w.ctx.prec)
    (hp2 : w.ctx.prec ≤ MaxPrec) (hz : z < w.vars.length) (hx : x ≠ z) (hy : y ≠ z) :
    obsEq ((step w (.cQuo z x y)).1.get z)
      (quo { prec := w.ctx.prec, mode := w.ctx.mode } (w.get x) (w.get y)).1 := by
  have := ctx_step_result w (.cQuo z x y) rfl h hz
  simp only [Op.recv, Op.under] at this
  rw [this, show (x == z) = false by simpa using hx, show (y == z) = false by simpa using hy]
  exact (quo_congr (apply_prec _ _ hp1 hp2) (apply_mode _ _) (valEq.refl _) rfl (valEq.refl _) rfl).1

theorem ctx_fma_fresh (w : World) (z x y u : Nat) (h : w.ctx.err = false) (hp1 : 1 ≤ w.ctx.prec)
    (hp2 : w.ctx.prec ≤ MaxPrec) (hz : z < w.vars.length) (hx : x ≠ z) (hy : y ≠ z) (hu : u ≠ z) :
    obsEq ((step w (.cFma z x y u)).1.get z)
      (fma { prec := w.ctx.prec, mode := w.ctx.mode } (w.get x) (w.get y) (w.get u)).1 := by
  have := ctx_step_result w (.cFma z x y u) rfl h hz
  simp only [Op.recv, Op.under] at this
  rw [this, show (x == z) = false by simpa using hx, show (y == z) = false by simpa using hy,
    show (u == z) = false by simpa using hu]
  exact (fma_congr (apply_prec _ _ hp1 hp2) (apply_mode _ _) (valEq.refl _) rfl (valEq.refl _) rfl
    (valEq.refl _) rfl).1

/-! ### In the model the wrapped methods never raise any other panic -/

theorem add_outcome (z x y : Dec) (sx sy : Bool) :
    (add z x y sx sy).2 = .ok ∨ (add z x y sx sy).2 = .errNaN := by
  simp only [add]; repeat' split
  all_goals simp
theorem sub_outcome (z x y : Dec) (sx sy : Bool) :
    (sub z x y sx sy).2 = .ok ∨ (sub z x y sx sy).2 = .errNaN := by
  simp only [sub]; repeat' split
  all_goals simp
theorem mul_outcome (z x y : Dec) (sx sy : Bool) :
    (mul z x y sx sy).2 = .ok ∨ (mul z x y sx sy).2 = .errNaN := by
  simp only [mul]; repeat' split
  all_goals simp
theorem quo_outcome (z x y : Dec) (sx sy : Bool) :
    (quo z x y sx sy).2 = .ok ∨ (quo z x y sx sy).2 = .errNaN := by
  simp only [quo]; repeat' split
  all_goals simp
theorem fma_outcome (z x y u : Dec) (sx sy su : Bool) :
    (fma z x y u sx sy su).2 = .ok ∨ (fma z x y u sx sy su).2 = .errNaN := by
  simp only [fma]; repeat' split
  all_goals first | exact mul_outcome _ _ _ _ _ | exact add_outcome _ _ _ _ _ | simp
theorem sqrt_outcome (z x : Dec) (same : Bool) :
    (sqrt z x same).2 = .ok ∨ (sqrt z x same).2 = .errNaN := by
  simp only [sqrt]; repeat' split
  all_goals simp

theorem guarded_ok_of_outcome (c : Ctx) (z : Dec) (op : Dec → Dec × Outcome)
    (h : ∀ za, (op za).2 = .ok ∨ (op za).2 = .errNaN) : (c.guarded z op).2.2 = .ok := by
  simp only [Ctx.guarded]
  split
  · rfl
  · split
    · rfl
    · rfl
    · next z' m heq =>
      have := h (c.apply z)
      rw [heq] at this
      simp at this

/-- Every context operation returns normally (no panic reaches the caller). -/
theorem ctx_ops_return_ok (w : World) (op : Op) (hop : op.isCtxArith = true) :
    (step w op).2.1 = .ok := by
  cases op <;> simp only [Op.isCtxArith, Bool.false_eq_true] at hop
  case cAdd z x y => exact guarded_ok_of_outcome _ _ _ (fun za => add_outcome _ _ _ _ _)
  case cSub z x y => exact guarded_ok_of_outcome _ _ _ (fun za => sub_outcome _ _ _ _ _)
  case cMul z x y => exact guarded_ok_of_outcome _ _ _ (fun za => mul_outcome _ _ _ _ _)
  case cQuo z x y => exact guarded_ok_of_outcome _ _ _ (fun za => quo_outcome _ _ _ _ _)
  case cFma z x y u => exact guarded_ok_of_outcome _ _ _ (fun za => fma_outcome _ _ _ _ _ _ _)
  case cSqrt z x => exact guarded_ok_of_outcome _ _ _ (fun za => sqrt_outcome _ _ _)
  all_goals rfl

/-- A context operation latches exactly when the wrapped method raises ErrNaN. -/
theorem ctx_latch_iff (w : World) (op : Op) (hop : op.isCtxWrapped = true) (h : w.ctx.err = false) :
    (step w op).1.ctx.err = true ↔ (op.under w (w.ctx.apply (w.get op.recv))).2 = .errNaN := by
  have key : ∀ (z : Dec) (f : Dec → Dec × Outcome),
      (w.ctx.guarded z f).2.1.err = true ↔ (f (w.ctx.apply z)).2 = .errNaN := by
    intro z f
    simp only [Ctx.guarded, h, Bool.false_eq_true, if_false]
    split <;> simp_all
  cases op <;> simp only [Op.isCtxWrapped, Bool.false_eq_true] at hop
  all_goals simp only [step, Op.recv, Op.under]
  all_goals first
    | exact key _ _
    | (simp; exact h)

end Decimal
