/-
  Text output read back (C11): the decimal digits of a number (`natDigits` = `Nat.repr`) as a digit
  list, the shape of `append x 'e' (-1)` as a `Lit10`, and the round trip through `parse`.
-/
import Proofs.Scan
import Proofs.Round
import DecimalModel.Text

namespace Decimal

/-! ### `Nat.repr` as a digit list -/

/-- The decimal digits of `n`, most significant first (`[0]` for 0). -/
def decDigits (n : Nat) : List Nat := (Nat.toDigits 10 n).map (fun c => c.toNat - 48)

theorem natDigits_eq (n : Nat) : natDigits n = Nat.toDigits 10 n := by
  unfold natDigits; exact Nat.toList_repr

theorem isDigit_toNat {c : Char} (h : c.isDigit = true) : 48 ≤ c.toNat ∧ c.toNat ≤ 57 := by
  simp only [Char.isDigit, Bool.and_eq_true, decide_eq_true_eq] at h
  obtain ⟨h1, h2⟩ := h
  have h1' : '0'.val ≤ c.val := h1
  rw [UInt32.le_iff_toNat_le] at h1' h2
  exact ⟨h1', h2⟩

/-- the characters written are the bytes of the digit list. -/
theorem natDigits_bytes (n : Nat) : (natDigits n).map Char.toNat = bytesOf (decDigits n) := by
  rw [natDigits_eq, decDigits, bytesOf, List.map_map]
  apply List.map_congr_left
  intro c hc
  have := isDigit_toNat (Nat.isDigit_of_mem_toDigits (by decide) (by decide) hc)
  simp only [Function.comp]
  omega

theorem decDigits_isDigits (n : Nat) : IsDigits (decDigits n) := by
  intro d hd
  simp only [decDigits, List.mem_map] at hd
  obtain ⟨c, hc, rfl⟩ := hd
  have := isDigit_toNat (Nat.isDigit_of_mem_toDigits (by decide) (by decide) hc)
  omega

/-- **the digits read back give the number.** -/
theorem ofDigits_decDigits (n : Nat) : ofDigits (decDigits n) = n := by
  have h := @Nat.ofDigitChars_ten_toDigits n
  rw [Nat.ofDigitChars_eq_foldl] at h
  rw [ofDigits, decDigits, List.foldl_map]
  have hf : (fun (a : Nat) (c : Char) => a * 10 + (c.toNat - 48)) =
      (fun (sofar : Nat) (c : Char) => 10 * sofar + (c.toNat - '0'.toNat)) := by
    funext a c
    rw [Nat.mul_comm]; rfl
  rw [hf]; exact h

theorem decDigits_ne_nil (n : Nat) : decDigits n ≠ [] := by
  simp [decDigits]

theorem decDigits_length {n : Nat} (hn : 0 < n) : (decDigits n).length = ndigits n := by
  have hl : (decDigits n).length = (Nat.toDigits 10 n).length := by simp [decDigits]
  rw [hl]
  have hpos : 0 < (Nat.toDigits 10 n).length := Nat.length_toDigits_pos
  have hnd := ndigits_pos hn
  have a := (Nat.length_toDigits_le_iff (b := 10) (n := n) (by omega) hnd).mpr (ndigits_lt_pow n)
  have b := (ndigits_le_iff n (Nat.toDigits 10 n).length).mpr
    ((Nat.length_toDigits_le_iff (b := 10) (n := n) (by omega) hpos).mp (Nat.le_refl _))
  omega

theorem decDigits_lt_ten {n : Nat} (h : n < 10) : decDigits n = [n] := by
  rw [decDigits, Nat.toDigits_of_lt_base h]
  simp [Nat.toNat_digitChar_of_lt_ten h]

theorem decDigits_ge_ten {n : Nat} (h : 10 ≤ n) : decDigits n = decDigits (n / 10) ++ [n % 10] := by
  rw [decDigits, Nat.toDigits_of_base_le (by omega) h, List.map_append, ← decDigits]
  simp [Nat.toNat_digitChar_of_lt_ten (Nat.mod_lt n (by omega : 0 < 10))]

/-! ### trailing zeros -/

theorem toDigits_mul_pow {c : Nat} (hc : 0 < c) (t : Nat) :
    Nat.toDigits 10 (c * 10 ^ t) = Nat.toDigits 10 c ++ List.replicate t '0' := by
  induction t with
  | zero => simp
  | succ t ih =>
    have h10 : 10 ≤ c * 10 ^ (t + 1) := by
      have : 0 < c * 10 ^ t := Nat.mul_pos hc (Nat.pow_pos (by omega))
      rw [Nat.pow_succ, ← Nat.mul_assoc]; omega
    rw [Nat.toDigits_of_base_le (by omega) h10]
    have h1 : c * 10 ^ (t + 1) / 10 = c * 10 ^ t := by
      rw [Nat.pow_succ, ← Nat.mul_assoc, Nat.mul_div_cancel _ (by omega)]
    have h2 : c * 10 ^ (t + 1) % 10 = 0 := by
      rw [Nat.pow_succ, ← Nat.mul_assoc, Nat.mul_mod_left]
    rw [h1, h2, ih, List.append_assoc, List.replicate_succ']
    rfl

theorem digitChar_ne_zero {d : Nat} (h0 : d ≠ 0) (h : d < 10) : Nat.digitChar d ≠ '0' := by
  intro he
  have := Nat.toNat_digitChar_of_lt_ten h
  rw [he] at this
  have h48 : '0'.toNat = 48 := rfl
  omega

theorem toDigits_last {c : Nat} (hc : c % 10 ≠ 0) :
    ∃ init ch, Nat.toDigits 10 c = init ++ [ch] ∧ ch ≠ '0' := by
  by_cases h : c < 10
  · exact ⟨[], Nat.digitChar c, by rw [Nat.toDigits_of_lt_base h]; rfl, digitChar_ne_zero (by omega) h⟩
  · exact ⟨Nat.toDigits 10 (c / 10), Nat.digitChar (c % 10), Nat.toDigits_of_base_le (by omega) (by omega),
      digitChar_ne_zero hc (Nat.mod_lt _ (by omega))⟩

theorem dropWhile_replicate_append (t : Nat) (l : List Char) :
    (List.replicate t '0' ++ l).dropWhile (· == '0') = l.dropWhile (· == '0') := by
  induction t with
  | zero => rfl
  | succ t ih => rw [List.replicate_succ, List.cons_append, List.dropWhile_cons]; simp [ih]

theorem trimRightZeros_append (init : List Char) (ch : Char) (hch : ch ≠ '0') (t : Nat) :
    trimRightZeros (init ++ [ch] ++ List.replicate t '0') = init ++ [ch] := by
  unfold trimRightZeros
  rw [List.reverse_append, List.reverse_replicate, dropWhile_replicate_append, List.reverse_append]
  simp [hch]

/-- `trimRightZeros` of the digits of `c × 10^t` (`10 ∤ c`) are the digits of `c`. -/
theorem trim_natDigits {c : Nat} (hc : c % 10 ≠ 0) (t : Nat) :
    trimRightZeros (natDigits (c * 10 ^ t)) = natDigits c := by
  have hpos : 0 < c := by omega
  obtain ⟨init, ch, h1, h2⟩ := toDigits_last hc
  rw [natDigits_eq, natDigits_eq, toDigits_mul_pow hpos, h1, trimRightZeros_append init ch h2]

theorem trailingZeros_zero_g : trailingZeros 0 = 0 := by rw [trailingZeros]; simp

theorem trailingZeros_of_mod {M : Nat} (h : M % 10 ≠ 0) : trailingZeros M = 0 := by
  rw [trailingZeros]; split
  · rfl
  · simp

theorem trailingZeros_mul_ten {M : Nat} (h : 0 < M) : trailingZeros (M * 10) = trailingZeros M + 1 := by
  rw [trailingZeros]
  rw [dif_neg (by omega), if_pos (Nat.mul_mod_left _ _), Nat.mul_div_cancel _ (by omega)]

/-- `M = c × 10^tz` with `10 ∤ c`. -/
theorem trailingZeros_spec {M : Nat} (h : 0 < M) :
    (M / 10 ^ trailingZeros M) * 10 ^ trailingZeros M = M ∧ (M / 10 ^ trailingZeros M) % 10 ≠ 0 := by
  induction M using Nat.strongRecOn with
  | _ M ih =>
    by_cases hm : M % 10 = 0
    · have hlt : M / 10 < M := Nat.div_lt_self h (by omega)
      have hpos : 0 < M / 10 := by omega
      obtain ⟨a, b⟩ := ih (M / 10) hlt hpos
      have hM : M = (M / 10) * 10 := by omega
      have htz : trailingZeros M = trailingZeros (M / 10) + 1 := by
        rw [hM] ; rw [trailingZeros_mul_ten hpos, Nat.mul_div_cancel _ (by omega)]
      have hdiv : M / 10 ^ (trailingZeros (M / 10) + 1) = M / 10 / 10 ^ trailingZeros (M / 10) := by
        rw [Nat.pow_succ, Nat.mul_comm, Nat.div_div_eq_div_mul]
      rw [htz, hdiv]
      refine ⟨?_, b⟩
      rw [Nat.pow_succ, ← Nat.mul_assoc, a]; omega
    · rw [trailingZeros_of_mod hm]; simp [hm]

theorem trailingZeros_mul_pow_g {c : Nat} (hc : c % 10 ≠ 0) (t : Nat) : trailingZeros (c * 10 ^ t) = t := by
  induction t with
  | zero => simpa using trailingZeros_of_mod hc
  | succ t ih =>
    have : 0 < c * 10 ^ t := Nat.mul_pos (by omega) (Nat.pow_pos (by omega))
    rw [Nat.pow_succ, ← Nat.mul_assoc, trailingZeros_mul_ten this, ih]

/-- the coefficient with the trailing zeros removed. -/
def oddPart (M : Nat) : Nat := M / 10 ^ trailingZeros M

theorem oddPart_mul_pow {S : Nat} (hS : 0 < S) (t : Nat) : oddPart (S * 10 ^ t) = oddPart S := by
  obtain ⟨a, b⟩ := trailingZeros_spec hS
  have h1 : S * 10 ^ t = (S / 10 ^ trailingZeros S) * 10 ^ (trailingZeros S + t) := by
    rw [Nat.pow_add, ← Nat.mul_assoc, a]
  unfold oddPart
  rw [h1, trailingZeros_mul_pow_g b, Nat.mul_div_cancel _ (Nat.pow_pos (by omega))]

/-! ### `toa` and `fmtE` -/

/-- the digits kept by `fmtE`, given the trimmed mantissa digits of `toa`. -/
theorem fmtE_of_mant (x : Dec) (fmtc : Char) (mant : List Char) (ex : Int) (n : Nat)
    (h1 : trimRightZeros (toa x).1 = mant) (h2 : (toa x).2 = ex) (hn : mant.length = n) (hpos : 0 < n) :
    fmtE x fmtc ((n : Int) - 1) =
      [mant.headD '0'] ++ (if 1 < n then '.' :: mant.tail else []) ++
        [fmtc, if ex - 1 < 0 then '-' else '+'] ++ (if (ex - 1).natAbs < 10 then ['0'] else []) ++
        natDigits (ex - 1).natAbs := by
  unfold fmtE
  rcases hx : toa x with ⟨m0, e0⟩
  rw [hx] at h1 h2
  simp only at h1 h2
  subst h2
  simp only [h1, hn]
  have hpos' : n > 0 := hpos
  simp only [hpos', if_true]
  have ht : ((n : Int) - 1).toNat = n - 1 := by omega
  have hmin : min n (n - 1 + 1) = n := by omega
  have htake : List.take n mant = mant := List.take_of_length_le (by omega)
  have htl : mant.tail.length = n - 1 := by simp [hn]
  rw [ht, hmin, htake, List.drop_one, htl, Nat.sub_self]
  have hgt : ((n : Int) - 1 > 0) = (1 < n) := by apply propext; omega
  simp only [hgt, repeatChar, List.replicate_zero, List.append_nil]
  have hint : ∀ k : Nat, intToChars (k : Int) = natDigits k := fun k => rfl
  generalize e0 - 1 = E
  by_cases hE : E < 0
  · have h3 : intToChars (-E) = natDigits E.natAbs := by
      rw [← hint]; congr 1; omega
    have h4 : (-E < 10) = (E.natAbs < 10) := propext (by omega)
    simp only [hE, if_true, h3, h4]
  · have h3 : intToChars E = natDigits E.natAbs := by
      rw [← hint]; congr 1; omega
    have h4 : (E < 10) = (E.natAbs < 10) := propext (by omega)
    simp only [hE, if_false, h3, h4]

theorem strip_spec (n M : Nat) (hM : 0 < M) : ∃ t, toa.strip n M * 10 ^ t = M ∧ 0 < toa.strip n M := by
  induction n generalizing M with
  | zero => exact ⟨0, by simp [toa.strip], by simpa [toa.strip] using hM⟩
  | succ n ih =>
    rw [toa.strip]
    by_cases h : M % B = 0
    · have hB : B = 10 ^ 19 := B_eq
      have hMB : M = M / B * B := by
        have := Nat.div_add_mod M B; rw [h, Nat.add_zero, Nat.mul_comm] at this; exact this.symm
      have hpos : 0 < M / B := by
        rcases Nat.eq_zero_or_pos (M / B) with h0 | h0
        · rw [h0, Nat.zero_mul] at hMB; omega
        · exact h0
      obtain ⟨t, ht, hp⟩ := ih (M / B) hpos
      have hc : (M % B == 0 && M != 0) = true := by simp [h]; omega
      rw [if_pos hc]
      refine ⟨t + 19, ?_, hp⟩
      rw [Nat.pow_add, ← Nat.mul_assoc, ht, ← hB]; exact hMB.symm
    · have hc : ¬ (M % B == 0 && M != 0) = true := by simp [h]
      rw [if_neg hc]
      exact ⟨0, by simp, hM⟩

theorem toa_finite (x : Dec) (hf : x.form = .finite) :
    toa x = (natDigits (toa.strip x.len x.mant), x.exp) := by
  unfold toa; simp [hf]

/-- the trimmed digits of `toa` are the digits of the mantissa without its trailing zeros. -/
theorem toa_trim (x : Dec) (hf : x.form = .finite) (hM : 0 < x.mant) :
    trimRightZeros (toa x).1 = natDigits (oddPart x.mant) ∧ (toa x).2 = x.exp := by
  rw [toa_finite x hf]
  refine ⟨?_, rfl⟩
  obtain ⟨t, ht, hp⟩ := strip_spec x.len x.mant hM
  obtain ⟨a, b⟩ := trailingZeros_spec hp
  have : oddPart x.mant = oddPart (toa.strip x.len x.mant) := by
    have := oddPart_mul_pow hp t
    rw [ht] at this; exact this
  rw [this]
  show trimRightZeros (natDigits (toa.strip x.len x.mant)) = _
  conv => lhs; rw [← a]
  exact trim_natDigits b _

/-! ### the literal written by `append x 'e' (-1)` -/

/-- `d[.ddd]e±dd`: the shortest digits of `x`, scientific. -/
def shortestLit (x : Dec) : Lit10 :=
  let ds := decDigits (oddPart x.mant)
  let e : Int := x.exp - 1
  { neg := if x.neg then some true else none,
    ip := [ds.headD 0],
    fp := if 1 < ds.length then some ds.tail else none,
    ex := some (some (decide (e < 0)), (if e.natAbs < 10 then [0] else []) ++ decDigits e.natAbs) }

set_option linter.unusedSimpArgs false

theorem append_e_eq (x : Dec) (hf : x.form = .finite) :
    append x 'e' (-1) = (if x.neg then ['-'] else []) ++ fmtE x 'e' ((minPrec x : Int) - 1) := by
  unfold append
  simp [hf]

theorem minPrec_finite_g (x : Dec) (hf : x.form = .finite) : minPrec x = x.len * 19 - trailingZeros x.mant := by
  unfold minPrec; simp [hf, DW_eq]

theorem oddPart_pos {M : Nat} (h : 0 < M) : 0 < oddPart M := by
  have := (trailingZeros_spec h).2
  unfold oddPart
  rcases Nat.eq_zero_or_pos (M / 10 ^ trailingZeros M) with h0 | h0
  · rw [h0] at this; simp at this
  · exact h0

theorem ndigits_oddPart (x : Dec) (hf : x.form = .finite) (hc : ndigits x.mant = 19 * x.len) :
    ndigits (oddPart x.mant) = minPrec x := by
  rw [minPrec_finite_g x hf, oddPart, ndigits_div_pow, hc, Nat.mul_comm]

theorem natDigits_length {n : Nat} (hn : 0 < n) : (natDigits n).length = ndigits n := by
  rw [← decDigits_length hn, natDigits_eq, decDigits, List.length_map]

theorem append_e_shortest (x : Dec) (hf : x.form = .finite) (hM : 0 < x.mant)
    (hc : ndigits x.mant = 19 * x.len) :
    (append x 'e' (-1)).map Char.toNat = (shortestLit x).render := by
  have hcp := oddPart_pos hM
  obtain ⟨h1, h2⟩ := toa_trim x hf hM
  have hlen : (natDigits (oddPart x.mant)).length = minPrec x := by
    rw [natDigits_length hcp, ndigits_oddPart x hf hc]
  have hpos : 0 < minPrec x := by rw [← ndigits_oddPart x hf hc]; exact ndigits_pos hcp
  rw [append_e_eq x hf, fmtE_of_mant x 'e' _ x.exp (minPrec x) h1 h2 hlen hpos]
  have hb := natDigits_bytes (oddPart x.mant)
  have hdl : (decDigits (oddPart x.mant)).length = minPrec x := by
    rw [decDigits_length hcp, ndigits_oddPart x hf hc]
  unfold shortestLit
  simp only [Lit10.render, renderMant, renderExp]
  cases hm : natDigits (oddPart x.mant) with
  | nil => rw [hm] at hlen; simp at hlen; omega
  | cons f rest =>
    cases hd : decDigits (oddPart x.mant) with
    | nil => exact absurd hd (decDigits_ne_nil _)
    | cons d0 tl =>
      rw [hm, hd, List.map_cons, bytesOf_cons] at hb
      injection hb with hb1 hb2
      rw [hd] at hdl
      rw [hdl]
      have hnd := natDigits_bytes (x.exp - 1).natAbs
      have hz : Char.toNat '0' = 48 := rfl
      have he : Char.toNat 'e' = 101 := rfl
      have hmi : Char.toNat '-' = 45 := rfl
      have hpl : Char.toNat '+' = 43 := rfl
      have hdt : Char.toNat '.' = 46 := rfl
      cases x.neg <;> by_cases hq : 1 < minPrec x <;> by_cases hE : x.exp - 1 < 0 <;>
        by_cases hk : (x.exp - 1).natAbs < 10 <;>
        simp [hq, hE, hk, signBytes, bytesOf_cons, bytesOf_append, bytesOf_nil, hnd, hb1, hb2, hz, he, hmi, hpl, hdt]


/-! ### the literal is well formed and denotes `x` -/

theorem headD_cons_tail (ds : List Nat) (h : ds ≠ []) :
    [ds.headD 0] ++ (if 1 < ds.length then some ds.tail else none).getD [] = ds := by
  cases ds with
  | nil => exact absurd rfl h
  | cons d tl =>
    cases tl with
    | nil => simp
    | cons d2 tl2 => simp

theorem shortestLit_digits (x : Dec) :
    (shortestLit x).ip ++ (shortestLit x).frac = decDigits (oddPart x.mant) :=
  headD_cons_tail _ (decDigits_ne_nil _)

theorem shortestLit_coef (x : Dec) : (shortestLit x).coef = oddPart x.mant := by
  rw [Lit10.coef, shortestLit_digits, ofDigits_decDigits]

theorem shortestLit_frac_length (x : Dec) :
    ((shortestLit x).frac.length : Int) = ((decDigits (oddPart x.mant)).length : Int) - 1 := by
  have h := congrArg List.length (shortestLit_digits x)
  rw [List.length_append] at h
  have : (shortestLit x).ip.length = 1 := rfl
  omega

theorem ofDigits_pad (k : Nat) : ofDigits ((if k < 10 then [0] else []) ++ decDigits k) = k := by
  rw [ofDigits_append, ofDigits_decDigits]
  split <;> simp [ofDigits]

theorem shortestLit_expVal (x : Dec) : expVal (shortestLit x).ex = x.exp - 1 := by
  simp only [shortestLit, expVal, signVal, ofDigits_pad]
  by_cases h : x.exp - 1 < 0
  · have h' : (((x.exp - 1).natAbs : Nat) : Int) = -(x.exp - 1) := by omega
    simp only [h, decide_true, if_true, h']; omega
  · have h' : (((x.exp - 1).natAbs : Nat) : Int) = x.exp - 1 := by omega
    simp only [h, decide_false, h']; simp

theorem shortestLit_exp10 (x : Dec) (hf : x.form = .finite) (hM : 0 < x.mant)
    (hc : ndigits x.mant = 19 * x.len) : (shortestLit x).exp10 = x.exp - (minPrec x : Int) := by
  rw [Lit10.exp10, shortestLit_expVal, shortestLit_frac_length, decDigits_length (oddPart_pos hM),
    ndigits_oddPart x hf hc]
  omega

theorem shortestLit_wf (x : Dec) (hlo : MinExp ≤ x.exp) (hhi : x.exp ≤ MaxExp) : (shortestLit x).WF := by
  have hds := decDigits_isDigits (oddPart x.mant)
  have hdig := shortestLit_digits x
  refine ⟨?_, ?_, ?_, ?_⟩
  · have : IsDigits ((shortestLit x).ip ++ (shortestLit x).frac) := by rw [hdig]; exact hds
    exact (IsDigits_append.mp this).1
  · have : IsDigits ((shortestLit x).ip ++ (shortestLit x).frac) := by rw [hdig]; exact hds
    exact (IsDigits_append.mp this).2
  · rw [hdig]; exact decDigits_ne_nil _
  · show ExpOk (some (some (decide (x.exp - 1 < 0)),
        (if (x.exp - 1).natAbs < 10 then [0] else []) ++ decDigits (x.exp - 1).natAbs))
    unfold ExpOk
    refine ⟨?_, ?_, ?_⟩
    · rw [IsDigits_append]
      refine ⟨?_, decDigits_isDigits _⟩
      split
      · intro d hd; simp at hd; omega
      · exact IsDigits_nil
    · intro h
      have := (List.append_eq_nil_iff.mp h).2
      exact decDigits_ne_nil _ this
    · rw [ofDigits_pad]
      have h1 : MinExp = -2147483648 := rfl
      have h2 : MaxExp = 2147483647 := rfl
      split <;> omega

/-! ### reading the text back -/

theorem pow_align (a c p dz nd tz : Nat)
    (h : a * 10 ^ (p - dz) = c * 10 ^ (p - nd) * 10 ^ (dz - p)) (hnd : nd ≤ p) :
    a * 10 ^ (nd + tz) = c * 10 ^ tz * 10 ^ dz := by
  have hpos : 0 < 10 ^ (p - dz) := Nat.pow_pos (by omega)
  apply Nat.eq_of_mul_eq_mul_right hpos
  have e1 : a * 10 ^ (nd + tz) * 10 ^ (p - dz) = (a * 10 ^ (p - dz)) * 10 ^ (nd + tz) := by
    rw [Nat.mul_assoc, Nat.mul_assoc, Nat.mul_comm (10 ^ (nd + tz))]
  rw [e1, h]
  have key : ∀ u v w : Nat, c * 10 ^ u * 10 ^ v * 10 ^ w = c * 10 ^ (u + v + w) := by
    intro u v w
    rw [Nat.mul_assoc, Nat.mul_assoc, ← Nat.pow_add, ← Nat.pow_add, Nat.add_assoc]
  rw [key, key]
  congr 2
  omega

theorem shortestLit_sign (x : Dec) : (shortestLit x).sign = x.neg := by
  simp only [Lit10.sign, shortestLit]
  cases x.neg <;> rfl

/-- **Round trip.** The text `append x 'e' (-1)` of a canonical finite `x` is parsed back (base 10 or 0)
    into a receiver of precision at least `minPrec x` as a Decimal with the same sign, exponent and
    mantissa fraction as `x`, accuracy Exact. -/
theorem parse_shortest (z x : Dec) (base : Nat) (hbase : base = 10 ∨ base = 0)
    (hf : x.form = .finite) (hM : 0 < x.mant) (hc : ndigits x.mant = 19 * x.len)
    (hlo : MinExp ≤ x.exp) (hhi : x.exp ≤ MaxExp)
    (hp : minPrec x ≤ (if z.prec = 0 then 34 else z.prec)) :
    ∃ d, parse z ((append x 'e' (-1)).map Char.toNat) base = .ok (d, 10) ∧
      d.form = .finite ∧ d.neg = x.neg ∧ d.acc = Exact ∧ d.exp = x.exp ∧
      d.mant * 10 ^ (19 * x.len) = x.mant * 10 ^ (19 * d.len) ∧
      d.prec = (if z.prec = 0 then 34 else z.prec) ∧ d.mode = z.mode := by
  have hcp := oddPart_pos hM
  have hnd := ndigits_oddPart x hf hc
  have hwf := shortestLit_wf x hlo hhi
  have hcoef := shortestLit_coef x
  have hk := shortestLit_exp10 x hf hM hc
  have hsg := shortestLit_sign x
  have he10 : (ndigits (shortestLit x).coef : Int) + (shortestLit x).exp10 = x.exp := by
    rw [hcoef, hk, hnd]; omega
  have hpl := parse_lit z (shortestLit x) hwf base hbase
  have hc0 : (shortestLit x).coef ≠ 0 := by rw [hcoef]; omega
  have hr : ¬ ((ndigits (shortestLit x).coef : Int) + (shortestLit x).exp10 < MinExp ∨
      (ndigits (shortestLit x).coef : Int) + (shortestLit x).exp10 > MaxExp) := by rw [he10]; omega
  simp only [hc0, hr, if_false] at hpl
  rw [append_e_shortest x hf hM hc]
  refine ⟨_, hpl, ?_⟩
  have hp1 : 1 ≤ (if z.prec = 0 then 34 else z.prec) := by split <;> omega
  obtain ⟨hag, hprec, hmode, hneg⟩ :=
    setNormAndRound_eq_roundInt { z with neg := (shortestLit x).sign, prec := if z.prec = 0 then 34 else z.prec }
      (shortestLit x).coef (shortestLit x).exp10 false (Nat.pos_of_ne_zero hc0) hp1 (by intro h; cases h)
  simp only at hag hprec hmode hneg
  generalize setNormAndRound { z with neg := (shortestLit x).sign, prec := if z.prec = 0 then 34 else z.prec }
      (shortestLit x).coef (shortestLit x).exp10 false = d at *
  -- the specification side: the coefficient fits, the result is exact
  have hri : Spec.roundInt z.mode (if z.prec = 0 then 34 else z.prec) (shortestLit x).sign
      (shortestLit x).coef (shortestLit x).exp10 false =
      { form := .finite, neg := x.neg,
        coef := oddPart x.mant * 10 ^ ((if z.prec = 0 then 34 else z.prec) - minPrec x),
        exp := x.exp, acc := Exact } := by
    unfold Spec.roundInt
    simp only [he10]
    rw [hcoef, hnd, hsg]
    rw [if_neg (by omega), if_pos hp, if_neg (by omega)]
  rw [hri] at hag
  unfold Spec.agrees at hag
  simp only [Bool.and_eq_true, beq_iff_eq, Bool.or_eq_true, bne_iff_ne, ne_eq] at hag
  obtain ⟨⟨⟨h1, h2⟩, h3⟩, h4⟩ := hag
  rcases h4 with h4 | ⟨h4, h5⟩
  · exact absurd h1 h4
  refine ⟨h1, h2, h3, h4, ?_, hprec, hmode⟩
  have hdr : ndigits (oddPart x.mant * 10 ^ ((if z.prec = 0 then 34 else z.prec) - minPrec x)) =
      (if z.prec = 0 then 34 else z.prec) := by
    rw [ndigits_mul_pow hcp, hnd]; omega
  rw [hdr, DW_eq] at h5
  have htz := (trailingZeros_spec hM).1
  have hmp := minPrec_finite_g x hf
  have hle : trailingZeros x.mant ≤ 19 * x.len := by
    have := ndigits_div_pow x.mant (trailingZeros x.mant)
    have h0 := ndigits_pos hcp
    unfold oddPart at h0
    omega
  have := pow_align d.mant (oddPart x.mant) (if z.prec = 0 then 34 else z.prec) (d.len * 19) (minPrec x)
    (trailingZeros x.mant) h5 hp
  have e19 : minPrec x + trailingZeros x.mant = 19 * x.len := by omega
  rw [e19] at this
  rw [this, Nat.mul_comm 19 d.len]
  congr 1

end Decimal
