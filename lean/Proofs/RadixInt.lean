/-
  Specifications of `setNat` / `decToNat` with the Go size estimates, and the word-level `SetInt`
  and `Int` (DecimalModel/Radix.lean) against the L1 model.
-/
import Proofs.Radix
import Proofs.RadixEstA
import Proofs.RadixEstD
import Proofs.Conv

set_option linter.unusedVariables false
namespace Decimal.L0
open Decimal Decimal.Gen Decimal.W

/-! ### `setNat` -/

theorem lt_pow_bitLen (n : Nat) : n < 2 ^ bitLen n := by
  unfold bitLen
  split
  · rename_i h; subst h; norm_num
  · exact Nat.lt_log2_self

theorem bitLen_eq_zero_iff (n : Nat) : bitLen n = 0 ↔ n = 0 := by
  unfold bitLen
  split <;> simp_all

/-- whatever the destination contains: the value modulo `B^len(z)`, words below `B`, no leading
    zero word. -/
theorem setNat_value (z x : List Nat) (hx : WFbin x) :
    natOf (setNat z x) = binOf x % B ^ z.length ∧ WF (setNat z x) ∧ Normalized (setNat z x) := by
  rw [setNat_eq z x hx]
  exact ⟨by rw [natOf_norm, natOf_toWords], WF_norm (WF_toWords _ _), Normalized_norm _⟩

theorem setNat_fits (z x : List Nat) (hx : WFbin x) (h : binOf x < B ^ z.length) :
    natOf (setNat z x) = binOf x := by
  rw [(setNat_value z x hx).1, Nat.mod_eq_of_lt h]

/-- the initial contents of the destination are irrelevant. -/
theorem setNat_buf (z z' x : List Nat) (hx : WFbin x) (hl : z.length = z'.length) :
    setNat z x = setNat z' x := by
  rw [setNat_eq z x hx, setNat_eq z' x hx, hl]

/-- `setNat` into a destination of the length estimated by `SetInt`. -/
theorem setNat_setInt (junk : Nat → Nat) (x : List Nat) (hx : WFbin x)
    (hb : bitLen (binOf x) ≤ 16777216) :
    natOf (setNat (mkBuf (setIntWords (bitLen (binOf x))) junk) x) = binOf x
      ∧ WF (setNat (mkBuf (setIntWords (bitLen (binOf x))) junk) x)
      ∧ Normalized (setNat (mkBuf (setIntWords (bitLen (binOf x))) junk) x) := by
  obtain ⟨h1, h2, h3⟩ := setNat_value (mkBuf (setIntWords (bitLen (binOf x))) junk) x hx
  refine ⟨?_, h2, h3⟩
  apply setNat_fits _ _ hx
  rw [length_mkBuf]
  exact Nat.lt_of_lt_of_le (lt_pow_bitLen _) (setIntWords_suffices _ hb)

/-! ### `decToNat` -/

theorem decToNat_junk (j1 j2 : Nat → Nat) (x : List Nat) (hx : WF x) :
    decToNat j1 x = decToNat j2 x := by
  rcases Nat.lt_or_ge x.length 2 with h | h
  · cases x with
    | nil => rfl
    | cons a t =>
      cases t with
      | nil => rw [decToNat_one, decToNat_one]
      | cons b t' => simp at h; omega
  · rw [decToNat_eq j1 x hx h, decToNat_eq j2 x hx h]

theorem Normalized_single {a : Nat} (h : a ≠ 0) : Normalized [a] := by
  have := (Normalized_snoc [] a).mpr h
  simpa using this

theorem decToNat_value (junk : Nat → Nat) (x : List Nat) (hx : WF x) (hd : digits x ≤ 5050000) :
    binOf (decToNat junk x) = natOf x ∧ WFbin (decToNat junk x)
      ∧ (Normalized x → Normalized (decToNat junk x)) := by
  rcases Nat.lt_or_ge x.length 2 with h | h
  · cases x with
    | nil => exact ⟨rfl, WFbin_nil, fun h => h⟩
    | cons a t =>
      cases t with
      | nil =>
        rw [decToNat_one]
        exact ⟨by rw [binOf_single, natOf_single], WFbin_of_WF hx, fun h => h⟩
      | cons b t' => simp at h; omega
  · rw [decToNat_eq junk x hx h]
    refine ⟨?_, WFbin_norm (WFbin_toWordsBin _ _), fun _ => Normalized_norm _⟩
    rw [binOf_norm, binOf_toWordsBin]
    apply Nat.mod_eq_of_lt
    exact Nat.lt_of_lt_of_le (natOf_lt_pow_digits x hx) (decToNatWords_suffices _ hd)

end Decimal.L0

namespace Decimal.W
open Decimal Decimal.L0 Decimal.Gen

/-! ### word-level `SetInt` -/

/-- `setNormAndRound` overwrites `mant` and `len`. -/
theorem setNormAndRound_congr (z z' : Dec) (M : Nat) (e : Int) (s : Bool)
    (h : { z with mant := 0, len := 0 } = { z' with mant := 0, len := 0 }) :
    setNormAndRound z M e s = setNormAndRound z' M e s := by
  obtain ⟨f, n, m, l, ex, p, mo, a⟩ := z
  obtain ⟨f', n', m', l', ex', p', mo', a'⟩ := z'
  simp only [Dec.mk.injEq] at h
  obtain ⟨h1, h2, -, -, h5, h6, h7, h8⟩ := h
  subst h1 h2 h5 h6 h7 h8
  rfl

theorem umax32_eq (a b : Nat) : umax32 a b = umax a b := by
  unfold umax32 umax
  split <;> rfl

/-- `len·19 − nlz10(top)` is the number of digits of the value. -/
theorem digits_top (m : List Nat) (hwf : L0.WF m) (hn : Normalized m) (hne : m ≠ []) :
    m.length * c_DW - nlz10 (m.getD (m.length - 1) 0) = ndigits (natOf m) := by
  have hl : 0 < m.length := List.length_pos_iff.mpr hne
  have h1 := ndigits_natOf m hwf hn hne
  have h2 := nlz10_spec _ (getD_lt m hwf (m.length - 1))
  have hc : c_DW = 19 := rfl
  rw [h1, hc]
  omega

theorem setInt_refines (z : WDec) (junk : Nat → Nat) (neg : Bool) (x : List Nat) (hx : WFbin x)
    (hb : bitLen (binOf x) ≤ 16777216) (hneg : binOf x = 0 → neg = false) :
    ∃ w', W.setInt z junk neg x = .ok w'
      ∧ W.abs w' = Decimal.setInt (W.abs z) (if neg then -(binOf x : Int) else (binOf x : Int))
      ∧ (w'.form = .finite → L0.WF w'.mant) := by
  have hbl : bitLen (binOf x) % 4294967296 = bitLen (binOf x) := Nat.mod_eq_of_lt (by omega)
  by_cases hM : binOf x = 0
  · -- SetInt(0)
    have hn := hneg hM
    subst hn
    have hb0 : bitLen (binOf x) = 0 := (bitLen_eq_zero_iff _).mpr hM
    refine ⟨{ z with acc := Exact, neg := false, form := .zero,
                     prec := if z.prec == 0 then DefaultPrec else z.prec }, ?_, ?_, ?_⟩
    · unfold W.setInt
      simp only [hb0, beq_self_eq_true, if_true]
    · simp [W.abs, Decimal.setInt, hM]
    · intro h; simp at h
  · have hMpos : 0 < binOf x := Nat.pos_of_ne_zero hM
    have hb0 : (bitLen (binOf x) == 0) = false := by
      have := (bitLen_eq_zero_iff (binOf x)).not.mpr hM
      simpa using this
    obtain ⟨hv, hwf, hnorm⟩ := setNat_setInt junk x hx hb
    have hwords : (setIntPrec (bitLen (binOf x)) + (c_DW - 1)) / c_DW = setIntWords (bitLen (binOf x)) := rfl
    generalize hmant : setNat (mkBuf (setIntWords (bitLen (binOf x))) junk) x = mant at *
    have hne : mant ≠ [] := by
      intro h; rw [h] at hv; simp [natOf] at hv; omega
    have hl : mant.length ≠ 0 := fun h => hne (List.eq_nil_of_length_eq_zero h)
    -- the L1 side
    have hX0 : ((if neg then -(binOf x : Int) else (binOf x : Int)) == 0) = false := by
      cases neg <;> simp <;> omega
    have hXneg : decide ((if neg then -(binOf x : Int) else (binOf x : Int)) < 0) = neg := by
      cases neg <;> simp
      omega
    have hXabs : (if neg then -(binOf x : Int) else (binOf x : Int)).natAbs = binOf x := by
      cases neg <;> simp
    generalize (if neg then -(binOf x : Int) else (binOf x : Int)) = X at *
    have hdig := digits_top mant hwf hnorm hne
    by_cases hp0 : z.prec = 0
    · -- the precision is chosen here
      let p := umax32 (if ndigits (binOf x) > MaxPrec then MaxPrec else ndigits (binOf x)) DefaultPrec
      have hp1 : 1 ≤ p := by
        have : ∀ a, 1 ≤ umax a DefaultPrec := by
          intro a; unfold umax DefaultPrec; split <;> omega
        show 1 ≤ umax32 _ DefaultPrec
        rw [umax32_eq]; exact this _
      obtain ⟨w', e1, e2, e3⟩ := dnormAndRound_refines
        { z with acc := Exact, neg := neg, mant := mant, prec := p }
        ((mant.length : Int) * (c_DW : Nat)) 0 (by omega) hwf hnorm hne hp1
      refine ⟨w', ?_, ?_, fun _ => e3⟩
      · unfold W.setInt
        simp only [hbl, hb0, hwords, hmant, hp0, beq_self_eq_true, if_true, if_neg hl, hdig, hv,
          Bool.false_eq_true, if_false]
        exact e1
      · rw [e2]
        unfold Decimal.setInt
        simp only [hX0, hXneg, hXabs, Bool.false_eq_true, if_false]
        have hzp : ((W.abs z).prec == 0) = true := by simp [W.abs, hp0]
        simp only [hzp, if_true]
        have he : ((mant.length : Int) * (c_DW : Nat)) - ((mant.length * 19 : Nat) : Int) = 0 := by
          have hc : c_DW = 19 := rfl
          rw [hc]; push_cast; omega
        have hs : ((0 : Nat) != 0) = false := rfl
        rw [he, hs, hv]
        apply setNormAndRound_congr
        simp [W.abs, p, umax32_eq]
    · have hp1 : 1 ≤ z.prec := by omega
      obtain ⟨w', e1, e2, e3⟩ := dnormAndRound_refines
        { z with acc := Exact, neg := neg, mant := mant }
        ((mant.length : Int) * (c_DW : Nat)) 0 (by omega) hwf hnorm hne hp1
      refine ⟨w', ?_, ?_, fun _ => e3⟩
      · unfold W.setInt
        have hzp : (z.prec == 0) = false := by simpa using hp0
        simp only [hbl, hb0, hwords, hmant, hzp, Bool.false_eq_true, if_false]
        exact e1
      · rw [e2]
        unfold Decimal.setInt
        simp only [hX0, hXneg, hXabs, Bool.false_eq_true, if_false]
        have hzp : ((W.abs z).prec == 0) = false := by simpa [W.abs] using hp0
        simp only [hzp, Bool.false_eq_true, if_false]
        have he : ((mant.length : Int) * (c_DW : Nat)) - ((mant.length * 19 : Nat) : Int) = 0 := by
          have hc : c_DW = 19 := rfl
          rw [hc]; push_cast; omega
        have hs : ((0 : Nat) != 0) = false := rfl
        rw [he, hs, hv]
        apply setNormAndRound_congr
        simp [W.abs]

/-! ### word-level `Int` -/

/-- `x.intMant()` on words: the value is the L1 `intMant`, words below `B`, normalised. -/
theorem intMant_refines (x : WDec) (hx : Opnd x) :
    natOf (W.intMant x) = Decimal.intMant (W.abs x) ∧ L0.WF (W.intMant x) ∧ Normalized (W.intMant x) := by
  have hc : c_DW = 19 := rfl
  unfold W.intMant
  simp only [hc]
  by_cases h1 : x.exp > ((x.mant.length * 19 : Nat) : Int)
  · rw [if_pos h1, intMant_of_le (W.abs x)
      (show (((W.abs x).len * 19 : Nat) : Int) ≤ (W.abs x).exp from Int.le_of_lt h1)]
    exact shl_spec _ _ hx.wf
  · rw [if_neg h1]
    by_cases h2 : x.exp < ((x.mant.length * 19 : Nat) : Int)
    · rw [if_pos h2, intMant_of_lt (W.abs x)
        (show (W.abs x).exp < (((W.abs x).len * 19 : Nat) : Int) from h2)]
      exact shr_spec _ _ hx.wf
    · rw [if_neg h2, intMant_of_le (W.abs x)
        (show (((W.abs x).len * 19 : Nat) : Int) ≤ (W.abs x).exp from by
          show ((x.mant.length * 19 : Nat) : Int) ≤ x.exp; omega)]
      have h0 : ((W.abs x).exp - (((W.abs x).len * 19 : Nat) : Int)).toNat = 0 := by
        show (x.exp - ((x.mant.length * 19 : Nat) : Int)).toNat = 0
        omega
      rw [h0, Nat.pow_zero, Nat.mul_one]
      exact ⟨rfl, hx.wf, hx.normalized⟩

/-- `x.digits()` of a normalised vector is the number of decimal digits of its value. -/
theorem digits_eq_ndigits (m : List Nat) (hwf : L0.WF m) (hn : Normalized m) :
    L0.digits m = ndigits (natOf m) := by
  by_cases hne : m = []
  · subst hne; simp [L0.digits, natOf, ndigits_zero]
  · have hl : m.length ≠ 0 := fun h => hne (List.eq_nil_of_length_eq_zero h)
    rw [ndigits_natOf m hwf hn hne]
    unfold L0.digits
    rw [if_neg hl]
    rfl

/-- `x.Int(z)` for a finite `x ≥ 1` of at most 5 050 000 integer digits: the words handed to
    `z.SetBits` are machine words without a leading zero word whose value is `⌊|x|⌋`, whatever the
    destination contained. -/
theorem intWords_refines (x : WDec) (junk : Nat → Nat) (hx : WInv x) (hf : x.form = .finite)
    (he : 0 < x.exp) (hmax : x.exp ≤ 5050000) :
    binOf (W.intWords x junk) = truncNat (W.abs x) ∧ WFbin (W.intWords x junk)
      ∧ Normalized (W.intWords x junk) := by
  have hop : Opnd x := (hx.canon hf).1
  obtain ⟨h1, h2, h3⟩ := intMant_refines x hop
  have hnd := ndigits_intMant hx.2 (show (W.abs x).form = .finite from hf) (show 0 < (W.abs x).exp from he)
  have hd : L0.digits (W.intMant x) ≤ 5050000 := by
    rw [digits_eq_ndigits _ h2 h3, h1, hnd]
    show x.exp.toNat ≤ 5050000
    omega
  obtain ⟨g1, g2, g3⟩ := decToNat_value junk (W.intMant x) h2 hd
  unfold W.intWords
  refine ⟨?_, g2, g3 h3⟩
  rw [g1, h1, truncNat_finite _ (show (W.abs x).form = .finite from hf),
    if_neg (show ¬ (W.abs x).exp ≤ 0 from by show ¬ x.exp ≤ 0; omega)]

end Decimal.W
