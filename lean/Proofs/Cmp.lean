/-
  Helper lemmas for C16: `ucmp`/`cmp` is a total preorder, and for canonical finite Decimals
  `ucmp` is the order of the exact magnitudes.  Core Lean only.
-/
import DecimalModel.Arith

namespace Decimal

/-- Three-way comparison of naturals. -/
def cmp3 (a b : Nat) : Int := if a < b then -1 else if a > b then 1 else 0

theorem cmp3_self (a : Nat) : cmp3 a a = 0 := by simp [cmp3]
theorem cmp3_antisymm (a b : Nat) : cmp3 a b = - cmp3 b a := by
  unfold cmp3; repeat' split
  all_goals omega
theorem cmp3_mul_right (a b c : Nat) (hc : 0 < c) : cmp3 (a * c) (b * c) = cmp3 a b := by
  unfold cmp3
  have h1 : a * c < b * c ↔ a < b := Nat.mul_lt_mul_right hc
  have h2 : a * c > b * c ↔ a > b := Nat.mul_lt_mul_right hc
  simp only [h1, h2]
theorem cmp3_le_trans {a b c : Nat} (h1 : cmp3 a b ≤ 0) (h2 : cmp3 b c ≤ 0) : cmp3 a c ≤ 0 := by
  unfold cmp3 at *
  repeat' split at h1
  all_goals repeat' split at h2
  all_goals repeat' split
  all_goals omega
theorem cmp3_le_iff (a b : Nat) : cmp3 a b ≤ 0 ↔ a ≤ b := by
  unfold cmp3; repeat' split
  all_goals omega
theorem cmp3_range (a b : Nat) : cmp3 a b = -1 ∨ cmp3 a b = 0 ∨ cmp3 a b = 1 := by
  unfold cmp3; repeat' split
  all_goals simp

theorem B_pos : 0 < B := by unfold B; omega
theorem Bpow_pos (k : Nat) : 0 < B ^ k := Nat.pow_pos B_pos

theorem ucmp_def (x y : Dec) :
    ucmp x y = if x.exp < y.exp then -1 else if x.exp > y.exp then 1
      else cmp3 (x.mant * B ^ (y.len - x.len)) (y.mant * B ^ (x.len - y.len)) := rfl

/-- With equal exponents `ucmp` compares the mantissas padded with low zero words to any
    common length `L`. -/
theorem ucmp_padded (x y : Dec) (L : Nat) (hx : x.len ≤ L) (hy : y.len ≤ L) (he : x.exp = y.exp) :
    ucmp x y = cmp3 (x.mant * B ^ (L - x.len)) (y.mant * B ^ (L - y.len)) := by
  rw [ucmp_def, if_neg (by omega), if_neg (by omega)]
  by_cases hl : x.len ≤ y.len
  · have e1 : x.len - y.len = 0 := by omega
    have e2 : L - x.len = (y.len - x.len) + (L - y.len) := by omega
    rw [e1, e2, Nat.pow_add, ← Nat.mul_assoc, Nat.pow_zero, Nat.mul_one,
      cmp3_mul_right _ _ _ (Bpow_pos _)]
  · have e1 : y.len - x.len = 0 := by omega
    have e2 : L - y.len = (x.len - y.len) + (L - x.len) := by omega
    rw [e1, e2, Nat.pow_add, ← Nat.mul_assoc, Nat.pow_zero, Nat.mul_one,
      cmp3_mul_right _ _ _ (Bpow_pos _)]

theorem ucmp_self (x : Dec) : ucmp x x = 0 := by
  rw [ucmp_def, if_neg (by omega), if_neg (by omega), cmp3_self]

theorem ucmp_antisymm (x y : Dec) : ucmp x y = - ucmp y x := by
  rw [ucmp_def, ucmp_def]
  by_cases h1 : x.exp < y.exp
  · rw [if_pos h1, if_neg (by omega), if_pos h1]
  · by_cases h2 : x.exp > y.exp
    · rw [if_neg h1, if_pos h2, if_pos h2]; rfl
    · rw [if_neg h1, if_neg h2, if_neg h2, if_neg h1, cmp3_antisymm]

theorem ucmp_range (x y : Dec) : ucmp x y = -1 ∨ ucmp x y = 0 ∨ ucmp x y = 1 := by
  rw [ucmp_def]; repeat' split
  · simp
  · simp
  · exact cmp3_range _ _

theorem ucmp_le_trans {x y z : Dec} (h1 : ucmp x y ≤ 0) (h2 : ucmp y z ≤ 0) : ucmp x z ≤ 0 := by
  have exy : x.exp ≤ y.exp := by
    rw [ucmp_def] at h1
    by_cases h : x.exp > y.exp
    · rw [if_neg (by omega), if_pos h] at h1; omega
    · omega
  have eyz : y.exp ≤ z.exp := by
    rw [ucmp_def] at h2
    by_cases h : y.exp > z.exp
    · rw [if_neg (by omega), if_pos h] at h2; omega
    · omega
  by_cases hlt : x.exp < z.exp
  · rw [ucmp_def, if_pos hlt]; omega
  · have e1 : x.exp = y.exp := by omega
    have e2 : y.exp = z.exp := by omega
    let L := x.len + y.len + z.len
    rw [ucmp_padded x y L (by omega) (by omega) e1] at h1
    rw [ucmp_padded y z L (by omega) (by omega) e2] at h2
    rw [ucmp_padded x z L (by omega) (by omega) (e1.trans e2)]
    exact cmp3_le_trans h1 h2


/-! ### `cmp` -/

theorem cmp_def (x y : Dec) :
    cmp x y = if ord x < ord y then -1 else if ord x > ord y then 1
      else if ord x = -1 then ucmp y x else if ord x = 1 then ucmp x y else 0 := by
  simp only [cmp, beq_iff_eq]

theorem cmp_refl (x : Dec) : cmp x x = 0 := by
  rw [cmp_def, if_neg (by omega), if_neg (by omega)]
  split
  · exact ucmp_self x
  · split
    · exact ucmp_self x
    · rfl

theorem cmp_range (x y : Dec) : cmp x y = -1 ∨ cmp x y = 0 ∨ cmp x y = 1 := by
  rw [cmp_def]; repeat' split
  all_goals first | exact ucmp_range _ _ | simp

theorem cmp_antisymm (x y : Dec) : cmp x y = - cmp y x := by
  rw [cmp_def, cmp_def]
  by_cases h1 : ord x < ord y
  · rw [if_pos h1, if_neg (by omega), if_pos h1]
  · by_cases h2 : ord x > ord y
    · rw [if_neg h1, if_pos h2, if_pos h2]; rfl
    · have he : ord y = ord x := by omega
      rw [if_neg h1, if_neg h2, if_neg h2, if_neg h1, he]
      split
      · exact ucmp_antisymm y x
      · split
        · exact ucmp_antisymm x y
        · rfl

theorem cmp_le_trans {x y z : Dec} (h1 : cmp x y ≤ 0) (h2 : cmp y z ≤ 0) : cmp x z ≤ 0 := by
  have oxy : ord x ≤ ord y := by
    rw [cmp_def] at h1
    by_cases h : ord x > ord y
    · rw [if_neg (by omega), if_pos h] at h1; omega
    · omega
  have oyz : ord y ≤ ord z := by
    rw [cmp_def] at h2
    by_cases h : ord y > ord z
    · rw [if_neg (by omega), if_pos h] at h2; omega
    · omega
  by_cases hlt : ord x < ord z
  · rw [cmp_def, if_pos hlt]; omega
  · have e1 : ord y = ord x := by omega
    have e2 : ord z = ord x := by omega
    rw [cmp_def, e1, if_neg (by omega), if_neg (by omega)] at h1
    rw [cmp_def, e1, e2, if_neg (by omega), if_neg (by omega)] at h2
    rw [cmp_def, e2, if_neg (by omega), if_neg (by omega)]
    by_cases hm : ord x = -1
    · rw [if_pos hm] at h1 h2 ⊢
      exact ucmp_le_trans h2 h1
    · rw [if_neg hm] at h1 h2 ⊢
      by_cases hp : ord x = 1
      · rw [if_pos hp] at h1 h2 ⊢
        exact ucmp_le_trans h1 h2
      · rw [if_neg hp]; omega

theorem cmp_eq_trans {x y z : Dec} (h1 : cmp x y = 0) (h2 : cmp y z = 0) : cmp x z = 0 := by
  have a : cmp x z ≤ 0 := cmp_le_trans (y := y) (by omega) (by omega)
  have h1' : cmp y x = 0 := by have := cmp_antisymm y x; omega
  have h2' : cmp z y = 0 := by have := cmp_antisymm z y; omega
  have b : cmp z x ≤ 0 := cmp_le_trans (y := y) (by omega) (by omega)
  have := cmp_antisymm x z
  omega

theorem cmp_lt_of_lt_of_le {x y z : Dec} (h1 : cmp x y = -1) (h2 : cmp y z ≤ 0) : cmp x z = -1 := by
  have a : cmp x z ≤ 0 := cmp_le_trans (by omega) h2
  rcases cmp_range x z with h | h | h
  · exact h
  · -- cmp z x = 0, so cmp y x ≤ 0, contradiction
    have hzx : cmp z x = 0 := by have := cmp_antisymm z x; omega
    have : cmp y x ≤ 0 := cmp_le_trans h2 (by omega)
    have := cmp_antisymm x y
    omega
  · omega

theorem cmp_lt_of_le_of_lt {x y z : Dec} (h1 : cmp x y ≤ 0) (h2 : cmp y z = -1) : cmp x z = -1 := by
  have a : cmp x z ≤ 0 := cmp_le_trans h1 (by omega)
  rcases cmp_range x z with h | h | h
  · exact h
  · have hzx : cmp z x = 0 := by have := cmp_antisymm z x; omega
    have : cmp z y ≤ 0 := cmp_le_trans (by omega) h1
    have := cmp_antisymm y z
    omega
  · omega

/-- `−0 = +0`: the sign of a zero is ignored. -/
theorem cmp_zero_signs (x y : Dec) (hx : x.form = .zero) (hy : y.form = .zero) : cmp x y = 0 := by
  simp [cmp, ord, hx, hy]

/-- `−Inf` is below everything but `−Inf`. -/
theorem cmp_neg_inf_lt (x y : Dec) (hx : x.form = .inf) (nx : x.neg = true)
    (hy : ¬(y.form = .inf ∧ y.neg = true)) : cmp x y = -1 := by
  have h1 : ord x = -2 := by simp [ord, hx, nx]
  have h2 : -2 < ord y := by
    unfold ord
    cases hf : y.form <;> cases hn : y.neg <;> simp_all
  rw [cmp_def, if_pos (by omega)]

/-- `+Inf` is above everything but `+Inf`. -/
theorem cmp_lt_pos_inf (x y : Dec) (hy : y.form = .inf) (ny : y.neg = false)
    (hx : ¬(x.form = .inf ∧ x.neg = false)) : cmp x y = -1 := by
  have h1 : ord y = 2 := by simp [ord, hy, ny]
  have h2 : ord x < 2 := by
    unfold ord
    cases hf : x.form <;> cases hn : x.neg <;> simp_all
  rw [cmp_def, if_pos (by omega)]

theorem cmp_inf_inf (x y : Dec) (hx : x.form = .inf) (hy : y.form = .inf) (h : x.neg = y.neg) :
    cmp x y = 0 := by
  have : ord x = ord y := by simp [ord, hx, hy, h]
  have h2 : ord y = 2 ∨ ord y = -2 := by
    unfold ord; rw [hy]; cases y.neg <;> simp
  rw [cmp_def, this, if_neg (by omega), if_neg (by omega), if_neg (by omega), if_neg (by omega)]

/-- Against a zero, `cmp` is the sign (`ord` clipped to −1, 0, 1). -/
theorem cmp_zero_right (x y : Dec) (hy : y.form = .zero) :
    cmp x y = if x.form = .zero then 0 else if x.neg then -1 else 1 := by
  have h0 : ord y = 0 := by simp [ord, hy]
  rw [cmp_def, h0]
  unfold ord
  cases hf : x.form <;> cases hn : x.neg <;> simp

theorem cmp_zero_left (x y : Dec) (hx : x.form = .zero) :
    cmp x y = if y.form = .zero then 0 else if y.neg then 1 else -1 := by
  rw [cmp_antisymm, cmp_zero_right y x hx]
  repeat' split
  all_goals rfl


/-! ### `ucmp` is the order of the exact magnitudes of canonical finite Decimals -/

/-- Canonical finite mantissa: non-empty, and the top word has a non-zero top digit, i.e.
    `ndigits mant = 19·len`. -/
def Canonical (x : Dec) : Prop :=
  0 < x.len ∧ 10 ^ (DW * x.len - 1) ≤ x.mant ∧ x.mant < 10 ^ (DW * x.len)

theorem B_eq : B = 10 ^ 19 := by rfl

theorem Bpow_eq (k : Nat) : B ^ k = 10 ^ (DW * k) := by
  rw [B_eq, ← Nat.pow_mul]; rfl

theorem ten_pow_pos_c (k : Nat) : 0 < 10 ^ k := Nat.pow_pos (by omega)

/-- Different exponents decide: `x.exp < y.exp` puts `|x|` strictly below `|y|`. -/
theorem mag_lt_of_exp_lt {x y : Dec} (cx : Canonical x) (cy : Canonical y) (d : Nat) (hd : 1 ≤ d) :
    x.mant * 10 ^ (DW * y.len) < y.mant * 10 ^ (DW * x.len + d) := by
  obtain ⟨-, -, hx⟩ := cx
  obtain ⟨ly, hy, -⟩ := cy
  have hDW : DW = 19 := rfl
  calc x.mant * 10 ^ (DW * y.len)
      < 10 ^ (DW * x.len) * 10 ^ (DW * y.len) := Nat.mul_lt_mul_of_pos_right hx (ten_pow_pos_c _)
    _ = 10 ^ (DW * x.len + DW * y.len) := (Nat.pow_add _ _ _).symm
    _ ≤ 10 ^ ((DW * y.len - 1) + (DW * x.len + d)) :=
        Nat.pow_le_pow_right (by omega) (by rw [hDW]; omega)
    _ = 10 ^ (DW * y.len - 1) * 10 ^ (DW * x.len + d) := Nat.pow_add _ _ _
    _ ≤ y.mant * 10 ^ (DW * x.len + d) := Nat.mul_le_mul_right _ hy

/-- `ucmp x y` is the three-way comparison of `|x| = x.mant·10^(x.exp − 19·x.len)` and
    `|y| = y.mant·10^(y.exp − 19·y.len)`, both scaled by `10^(19·x.len + 19·y.len − min x.exp y.exp)`. -/
theorem ucmp_spec (x y : Dec) (cx : Canonical x) (cy : Canonical y) :
    ucmp x y =
      cmp3 (x.mant * 10 ^ (DW * y.len + (x.exp - y.exp).toNat))
        (y.mant * 10 ^ (DW * x.len + (y.exp - x.exp).toNat)) := by
  by_cases h1 : x.exp < y.exp
  · have e1 : (x.exp - y.exp).toNat = 0 := by omega
    have hd : 1 ≤ (y.exp - x.exp).toNat := by omega
    have := mag_lt_of_exp_lt cx cy _ hd
    rw [ucmp_def, if_pos h1, e1, Nat.add_zero, cmp3, if_pos this]
  · by_cases h2 : x.exp > y.exp
    · have e1 : (y.exp - x.exp).toNat = 0 := by omega
      have hd : 1 ≤ (x.exp - y.exp).toNat := by omega
      have := mag_lt_of_exp_lt cy cx _ hd
      rw [ucmp_def, if_neg h1, if_pos h2, e1, Nat.add_zero, cmp3, if_neg (by omega), if_pos this]
    · have e1 : (y.exp - x.exp).toNat = 0 := by omega
      have e2 : (x.exp - y.exp).toNat = 0 := by omega
      rw [ucmp_padded x y (x.len + y.len) (by omega) (by omega) (by omega), e1, e2,
        Nat.add_zero, Nat.add_zero, Nat.add_sub_cancel_left, Nat.add_sub_cancel, Bpow_eq, Bpow_eq]

theorem ucmp_lt_of_exp_lt (x y : Dec) (h : x.exp < y.exp) : ucmp x y = -1 := by
  rw [ucmp_def, if_pos h]

end Decimal
