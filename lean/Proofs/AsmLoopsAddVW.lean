/-
  C07, assembly side, Tier C: `add10VW(z, x []Word, y Word) (c Word)`, every length.

  `addVW` is the plain carry propagation `z[i] = (x[i] + c) mod 10^19`; on well-formed input it is
  the list-level kernel `L0.add10VW` (which has the early exit "carry = 0 → copy the rest", like the
  assembly: `addVW_eq_add10VW`).  The assembly's early exits (`entry_3`, `C3`) either return at once
  when the operation is in place or hand the rest to `decCpy`.
-/
import Proofs.AsmLoops2
import DecimalModel.Vec

namespace Decimal.Asm

open Decimal.Gen (W W_eq)
open Decimal.Gen.Asm

/-! ### list-level meaning -/

/-- carry propagation: `z[i] = (x[i] + c) mod 10^19`, `c = (x[i] + c) / 10^19` -/
def addVW : List Nat → Nat → List Nat × Nat
  | [], c => ([], c)
  | x :: xs, c =>
    let r := addVW xs ((x + c) / 10000000000000000000)
    ((x + c) % 10000000000000000000 :: r.1, r.2)

theorem addVW_cons (x : Nat) (xs : List Nat) (c : Nat) :
    addVW (x :: xs) c = ((x + c) % 10000000000000000000 :: (addVW xs ((x + c) / 10000000000000000000)).1,
      (addVW xs ((x + c) / 10000000000000000000)).2) := rfl

theorem addVW_length (xs : List Nat) : ∀ c, (addVW xs c).1.length = xs.length := by
  induction xs with
  | nil => intro c; rfl
  | cons x xs ih => intro c; rw [addVW_cons]; simp only [List.length_cons, ih]

/-- without a carry nothing changes -/
theorem addVW_zero (xs : List Nat) (hxs : ∀ x, x ∈ xs → x < 10000000000000000000) : addVW xs 0 = (xs, 0) := by
  induction xs with
  | nil => rfl
  | cons x xs ih =>
    have hx := hxs x (List.mem_cons_self ..)
    have e1 : (x + 0) / 10000000000000000000 = 0 := by omega
    have e2 : (x + 0) % 10000000000000000000 = x := by omega
    rw [addVW_cons, e1, e2, ih (fun z hz => hxs z (List.mem_cons_of_mem _ hz))]

theorem addVW_carry (xs : List Nat) (hxs : ∀ x, x ∈ xs → x < 10000000000000000000) :
    ∀ c, c ≤ 1 → (addVW xs c).2 ≤ 1 := by
  induction xs with
  | nil => intro c hc; exact hc
  | cons x xs ih =>
    intro c hc
    have hx := hxs x (List.mem_cons_self ..)
    rw [addVW_cons]
    exact ih (fun z hz => hxs z (List.mem_cons_of_mem _ hz)) _ (by omega)

/-- the Go loop with its early exit computes the same thing -/
theorem add10VWtail_eq (xs : List Nat) (hxs : ∀ x, x ∈ xs → x < 10000000000000000000) :
    ∀ c, c ≤ 1 → Decimal.L0.add10VWtail xs c = addVW xs c := by
  induction xs with
  | nil => intro c _; rfl
  | cons x xs ih =>
    intro c hc
    have hx := hxs x (List.mem_cons_self ..)
    have hxs' : ∀ z, z ∈ xs → z < 10000000000000000000 := fun z hz => hxs z (List.mem_cons_of_mem _ hz)
    have hs : (x + c) % W = x + c := by simp only [W_eq]; omega
    rw [addVW_cons]
    simp only [Decimal.L0.add10VWtail, hs]
    by_cases hlt : x + c < 10000000000000000000
    · have e1 : (x + c) / 10000000000000000000 = 0 := by omega
      have e2 : (x + c) % 10000000000000000000 = x + c := by omega
      rw [if_pos (show x + c < Decimal.Gen.c_DB from hlt), e1, e2, addVW_zero xs hxs']
    · have e1 : (x + c) / 10000000000000000000 = c := by omega
      have e2 : (x + c) % 10000000000000000000 = 0 := by omega
      rw [if_neg (show ¬ x + c < Decimal.Gen.c_DB from hlt), e1, e2, ih hxs' c hc]

/-- `L0.add10VW` in terms of `addVW` -/
theorem add10VW_eq (x0 : Nat) (xs : List Nat) (y : Nat) (hx0 : x0 < 10000000000000000000)
    (hxs : ∀ x, x ∈ xs → x < 10000000000000000000) (hy : y < 10000000000000000000) :
    Decimal.L0.add10VW (x0 :: xs) y =
      ((x0 + y + 0) % 10000000000000000000 :: (addVW xs ((x0 + y + 0) / 10000000000000000000)).1,
        (addVW xs ((x0 + y + 0) / 10000000000000000000)).2) := by
  simp only [Decimal.L0.add10VW, add10WWW_g_eq x0 y 0 hx0 hy (by omega)]
  rw [add10VWtail_eq xs hxs _ (by omega)]

/-! ### the loops -/

/-- The single-step loop `L3` from index `i` on (`xs` = the words still to be processed, at least one). -/
theorem add10VW_L3_run (zp xp n : Nat) (hal : zp ≤ xp ∨ xp + 8 * n ≤ zp) :
    ∀ (xs : List Nat) (i : Nat) (s : St), xs ≠ [] → i + xs.length ≤ n →
      (∀ x, x ∈ xs → x < 10000000000000000000) → s.cx ≤ 1 → s.si = i → s.di = xs.length →
      s.dx = 10000000000000000000 → CpCtx s zp xp n → Holds s.mem xp i xs →
      ∃ s', run program (xs.length + 1) Lbl.add10VW_L3 s = some s' ∧
        s'.frame = s.frame.wr 56 (addVW xs s.cx).2 ∧ s'.trap = s.trap ∧
        Wrote s.mem s'.mem zp i (addVW xs s.cx).1 := by
  intro xs
  induction xs with
  | nil => intro i s h; exact absurd rfl h
  | cons x rest ih =>
    intro i s _ hin hxs hc hsi hdi hdx ctx hx
    have hxb : x < 10000000000000000000 := hxs x (List.mem_cons_self ..)
    have hk : (x :: rest).length = rest.length + 1 := rfl
    rw [hk] at hin hdi
    obtain ⟨c8, c10, cn60, cxw, czw⟩ := ctx
    have ax0 : (s.r8 + 8 * s.si) % W = xp + 8 * i := by rw [addr0 s.r8 xp s.si n c8 (by omega) cn60 cxw, hsi]
    have az0 : (s.r10 + 8 * s.si) % W = zp + 8 * i := by rw [addr0 s.r10 zp s.si n c10 (by omega) cn60 czw, hsi]
    obtain ⟨bcx, bmem, bdx, bsi, bdi, b8, b10, bfr, btrap, bnext⟩ :=
      blk_add10VW_L3_spec s x (by rw [ax0]; exact hx.head) hdx hxb hc (by omega) (by omega) (by omega)
    rw [az0] at bmem
    have hprog : program Lbl.add10VW_L3 s = blk_add10VW_L3 s := rfl
    rw [addVW_cons]
    cases rest with
    | nil =>
      have hnext : (program Lbl.add10VW_L3 s).2 = Next.goto Lbl.add10VW_E3 := by
        rw [hprog, bnext, if_neg (by simp only [List.length_nil] at hdi; omega)]
      obtain ⟨efr, emem, etrap, enext⟩ := blk_add10VW_E3_spec (blk_add10VW_L3 s).1
      refine ⟨(blk_add10VW_E3 (blk_add10VW_L3 s).1).1, ?_, ?_, ?_, ?_⟩
      · exact run_step hnext (by rw [hprog]; exact run_done (l := Lbl.add10VW_E3) enext)
      · rw [efr, bfr, bcx]; rfl
      · rw [etrap, btrap]
      · rw [emem, bmem]; exact Wrote.cons (Wrote.nil _ _ _)
    | cons x2 r2 =>
      have hnext : (program Lbl.add10VW_L3 s).2 = Next.goto Lbl.add10VW_L3 := by
        rw [hprog, bnext, if_pos (by simp only [List.length_cons] at hdi; omega)]
      obtain ⟨s', hrun, hfr, htrap, hw⟩ := ih (i + 1) (blk_add10VW_L3 s).1 (by intro h; cases h)
        (by omega) (fun z hz => hxs z (List.mem_cons_of_mem _ hz)) (by rw [bcx]; omega)
        (by rw [bsi, hsi]) (by rw [bdi, hdi]; omega) (by rw [bdx, hdx])
        ⟨by rw [b8, c8], by rw [b10, c10], cn60, cxw, czw⟩
        (by rw [bmem]; exact hx.tail.wr _ _ (by intro j hj; omega))
      rw [bcx] at hfr hw
      refine ⟨s', ?_, by rw [hfr, bfr], by rw [htrap, btrap], ?_⟩
      · exact run_step hnext (by rw [hprog]; exact hrun)
      · rw [bmem] at hw; exact Wrote.cons hw

/-- From `V3` on: fewer than 4 words left. -/
theorem add10VW_V3_run (zp xp n : Nat) (hal : zp ≤ xp ∨ xp + 8 * n ≤ zp)
    (xs : List Nat) (i : Nat) (s : St) (hm : xs.length < 4) (hin : i + xs.length ≤ n)
    (hxs : ∀ x, x ∈ xs → x < 10000000000000000000) (hc : s.cx ≤ 1) (hsi : s.si = i)
    (hdi : s.di = 18446744073709551616 - 4 + xs.length) (hdx : s.dx = 10000000000000000000)
    (ctx : CpCtx s zp xp n) (hx : Holds s.mem xp i xs) :
    ∃ s', run program (xs.length + 2) Lbl.add10VW_V3 s = some s' ∧
      s'.frame = s.frame.wr 56 (addVW xs s.cx).2 ∧ s'.trap = s.trap ∧
      Wrote s.mem s'.mem zp i (addVW xs s.cx).1 := by
  obtain ⟨vcx, vdx, vsi, v8, v10, vmem, vfr, vtrap, vdi, vnext⟩ := blk_add10VW_V3_spec s xs.length hm hdi
  have hprog : program Lbl.add10VW_V3 s = blk_add10VW_V3 s := rfl
  obtain ⟨c8, c10, cn60, cxw, czw⟩ := ctx
  cases xs with
  | nil =>
    have hnext : (program Lbl.add10VW_V3 s).2 = Next.goto Lbl.add10VW_E3 := by rw [hprog, vnext]; rfl
    obtain ⟨efr, emem, etrap, enext⟩ := blk_add10VW_E3_spec (blk_add10VW_V3 s).1
    refine ⟨(blk_add10VW_E3 (blk_add10VW_V3 s).1).1, ?_, ?_, ?_, ?_⟩
    · exact run_step hnext (by rw [hprog]; exact run_done (l := Lbl.add10VW_E3) enext)
    · rw [efr, vfr, vcx]; rfl
    · rw [etrap, vtrap]
    · rw [emem, vmem]; exact Wrote.nil _ _ _
  | cons x rest =>
    have hnext : (program Lbl.add10VW_V3 s).2 = Next.goto Lbl.add10VW_L3 := by
      rw [hprog, vnext, if_neg (by simp only [List.length_cons]; omega)]
    obtain ⟨s', hrun, hfr, htrap, hw⟩ := add10VW_L3_run zp xp n hal (x :: rest) i (blk_add10VW_V3 s).1
      (by intro h; cases h) hin hxs (by rw [vcx]; exact hc) (by rw [vsi, hsi]) vdi (by rw [vdx, hdx])
      ⟨by rw [v8, c8], by rw [v10, c10], cn60, cxw, czw⟩ (by rw [vmem]; exact hx)
    rw [vcx] at hfr hw
    refine ⟨s', run_step hnext (by rw [hprog]; exact hrun), by rw [hfr, vfr], by rw [htrap, vtrap], ?_⟩
    rw [vmem] at hw; exact hw

/-- No carry left and `rest` still to be delivered: return at once when in place, else `decCpy`.
    `l` is `entry_3` or `C3` (same code). -/
theorem add10VW_copy_run (zp xp n : Nat) (hal : zp ≤ xp ∨ xp + 8 * n ≤ zp)
    (rest : List Nat) (i : Nat) (s : St) (hi0 : 0 < i) (hin : i + rest.length ≤ n) (hcx : s.cx = 0) (hsi : s.si = i)
    (ctx : CpCtx s zp xp n) (hx : Holds s.mem xp i rest) :
    (s.di = rest.length →
      ∃ s', run program (rest.length + 5) Lbl.add10VW_C3 s = some s' ∧
        s'.frame = s.frame.wr 56 0 ∧ s'.trap = s.trap ∧ Wrote s.mem s'.mem zp i rest) ∧
    (4 ≤ rest.length → s.di = rest.length - 4 →
      ∃ s', run program (rest.length + 5) Lbl.add10VW_entry_3 s = some s' ∧
        s'.frame = s.frame.wr 56 0 ∧ s'.trap = s.trap ∧ Wrote s.mem s'.mem zp i rest) := by
  obtain ⟨c8, c10, cn60, cxw, czw⟩ := ctx
  have h8 : s.r8 < 18446744073709551616 := by omega
  have h10 : s.r10 < 18446744073709551616 := by omega
  constructor
  · intro hdi
    obtain ⟨kcx, kdx, ksi, kdi, k8, k10, kmem, kfr, ktrap, knext⟩ := blk_add10VW_C3_spec s h8 h10
    have hprog : program Lbl.add10VW_C3 s = blk_add10VW_C3 s := rfl
    by_cases heq : s.r8 = s.r10
    · have hnext : (program Lbl.add10VW_C3 s).2 = Next.goto Lbl.add10VW_E3 := by rw [hprog, knext, if_pos heq]
      obtain ⟨efr, emem, etrap, enext⟩ := blk_add10VW_E3_spec (blk_add10VW_C3 s).1
      refine ⟨(blk_add10VW_E3 (blk_add10VW_C3 s).1).1, ?_, ?_, ?_, ?_⟩
      · exact run_le (run_step hnext (by rw [hprog]; exact run_done (l := Lbl.add10VW_E3) enext)) (by omega)
      · rw [efr, kfr, kcx, hcx]
      · rw [etrap, ktrap]
      · rw [emem, kmem]
        have hzx : zp = xp := by omega
        rw [hzx]; exact Wrote.of_holds hx
    · have hnext : (program Lbl.add10VW_C3 s).2 = Next.goto Lbl.add10VW_C3_1 := by rw [hprog, knext, if_neg heq]
      obtain ⟨ddi, dsi, d8, d10, dmem, dfr, dtrap, dnext⟩ := blk_add10VW_C3_1_spec (blk_add10VW_C3 s).1
      have hprog1 : program Lbl.add10VW_C3_1 (blk_add10VW_C3 s).1 = blk_add10VW_C3_1 (blk_add10VW_C3 s).1 := rfl
      obtain ⟨s', hrun, hfr, htrap, hw⟩ := decCpy_run zp xp n hal rest i (blk_add10VW_C3_1 (blk_add10VW_C3 s).1).1
        hin (by rw [dsi, ksi, hsi]) (by rw [ddi, kdi, hdi])
        ⟨by rw [d8, k8, c8], by rw [d10, k10, c10], cn60, cxw, czw⟩ (by rw [dmem, kmem]; exact hx)
      refine ⟨s', ?_, by rw [hfr, dfr, kfr, kcx, hcx], by rw [htrap, dtrap, ktrap], ?_⟩
      · exact run_step hnext (by rw [hprog]; exact run_step (by rw [hprog1, dnext]) (by rw [hprog1]; exact hrun))
      · rw [dmem, kmem] at hw; exact hw
  · intro h4 hdi
    obtain ⟨kcx, kdx, ksi, kdi, k8, k10, kmem, kfr, ktrap, knext⟩ := blk_add10VW_entry_3_spec s h8 h10
    have hprog : program Lbl.add10VW_entry_3 s = blk_add10VW_entry_3 s := rfl
    by_cases heq : s.r8 = s.r10
    · have hnext : (program Lbl.add10VW_entry_3 s).2 = Next.goto Lbl.add10VW_E3 := by rw [hprog, knext, if_pos heq]
      obtain ⟨efr, emem, etrap, enext⟩ := blk_add10VW_E3_spec (blk_add10VW_entry_3 s).1
      refine ⟨(blk_add10VW_E3 (blk_add10VW_entry_3 s).1).1, ?_, ?_, ?_, ?_⟩
      · exact run_le (run_step hnext (by rw [hprog]; exact run_done (l := Lbl.add10VW_E3) enext)) (by omega)
      · rw [efr, kfr, kcx, hcx]
      · rw [etrap, ktrap]
      · rw [emem, kmem]
        have hzx : zp = xp := by omega
        rw [hzx]; exact Wrote.of_holds hx
    · have hnext : (program Lbl.add10VW_entry_3 s).2 = Next.goto Lbl.add10VW_entry_4 := by
        rw [hprog, knext, if_neg heq]
      obtain ⟨ddi, dsi, d8, d10, dmem, dfr, dtrap, dnext⟩ :=
        blk_add10VW_entry_4_spec (blk_add10VW_entry_3 s).1 rest.length h4 (by omega) (by rw [kdi, hdi])
      have hprog1 : program Lbl.add10VW_entry_4 (blk_add10VW_entry_3 s).1 =
          blk_add10VW_entry_4 (blk_add10VW_entry_3 s).1 := rfl
      obtain ⟨s', hrun, hfr, htrap, hw⟩ := decCpy_run zp xp n hal rest i
        (blk_add10VW_entry_4 (blk_add10VW_entry_3 s).1).1
        hin (by rw [dsi, ksi, hsi]) ddi
        ⟨by rw [d8, k8, c8], by rw [d10, k10, c10], cn60, cxw, czw⟩ (by rw [dmem, kmem]; exact hx)
      refine ⟨s', ?_, by rw [hfr, dfr, kfr, kcx, hcx], by rw [htrap, dtrap, ktrap], ?_⟩
      · exact run_step hnext (by rw [hprog]; exact run_step (by rw [hprog1, dnext]) (by rw [hprog1]; exact hrun))
      · rw [dmem, kmem] at hw; exact hw

/-- The 4×-unrolled loop `U3` from index `i` on (`k = xs.length ≥ 4` words left), with its early
    exit `C3` when the carry dies, followed by the tail. -/
theorem add10VW_U3_run (zp xp n : Nat) (hal : zp ≤ xp ∨ xp + 8 * n ≤ zp) :
    ∀ (k : Nat) (xs : List Nat) (i : Nat) (s : St), xs.length = k → 4 ≤ k → 0 < i → i + k ≤ n →
      (∀ x, x ∈ xs → x < 10000000000000000000) → s.cx ≤ 1 → s.si = i → s.di = k - 4 →
      s.dx = 10000000000000000000 → CpCtx s zp xp n → Holds s.mem xp i xs →
      ∃ s', run program (k + 2) Lbl.add10VW_U3 s = some s' ∧
        s'.frame = s.frame.wr 56 (addVW xs s.cx).2 ∧ s'.trap = s.trap ∧
        Wrote s.mem s'.mem zp i (addVW xs s.cx).1 := by
  intro k
  induction k using Nat.strongRecOn with
  | _ k ih =>
    intro xs i s hk h4 hi0 hin hxs hc hsi hdi hdx ctx hx
    obtain ⟨x0, x1, x2, x3, rest, rfl⟩ := list_four xs (by omega)
    have hkk : rest.length + 4 = k := by rw [← hk]; rfl
    have bx0 := hxs x0 (by simp)
    have bx1 := hxs x1 (by simp)
    have bx2 := hxs x2 (by simp)
    have bx3 := hxs x3 (by simp)
    have hxs' : ∀ z, z ∈ rest → z < 10000000000000000000 := fun z hz => hxs z (by simp [hz])
    obtain ⟨c8, c10, cn60, cxw, czw⟩ := ctx
    have hx1 := hx.tail
    have hx2 := hx1.tail
    have hx3 := hx2.tail
    have hx4 := hx3.tail
    have ax0 : (s.r8 + 8 * s.si) % W = xp + 8 * i := by rw [addr0 s.r8 xp s.si n c8 (by omega) cn60 cxw, hsi]
    have ax1 : (s.r8 + 8 * s.si + 8) % W = xp + 8 * (i + 1) := by
      rw [addrD s.r8 xp s.si n 8 1 rfl c8 (by omega) cn60 cxw, hsi]
    have ax2 : (s.r8 + 8 * s.si + 16) % W = xp + 8 * (i + 1 + 1) := by
      rw [addrD s.r8 xp s.si n 16 (1 + 1) rfl c8 (by omega) cn60 cxw, hsi, Nat.add_assoc]
    have ax3 : (s.r8 + 8 * s.si + 24) % W = xp + 8 * (i + 1 + 1 + 1) := by
      rw [addrD s.r8 xp s.si n 24 (1 + 1 + 1) rfl c8 (by omega) cn60 cxw, hsi, Nat.add_assoc, Nat.add_assoc]
    have az0 : (s.r10 + 8 * s.si) % W = zp + 8 * i := by rw [addr0 s.r10 zp s.si n c10 (by omega) cn60 czw, hsi]
    have az1 : (s.r10 + 8 * s.si + 8) % W = zp + 8 * (i + 1) := by
      rw [addrD s.r10 zp s.si n 8 1 rfl c10 (by omega) cn60 czw, hsi]
    have az2 : (s.r10 + 8 * s.si + 16) % W = zp + 8 * (i + 1 + 1) := by
      rw [addrD s.r10 zp s.si n 16 (1 + 1) rfl c10 (by omega) cn60 czw, hsi, Nat.add_assoc]
    have az3 : (s.r10 + 8 * s.si + 24) % W = zp + 8 * (i + 1 + 1 + 1) := by
      rw [addrD s.r10 zp s.si n 24 (1 + 1 + 1) rfl c10 (by omega) cn60 czw, hsi, Nat.add_assoc, Nat.add_assoc]
    have hb := blk_add10VW_U3_spec s x0 x1 x2 x3 hc hdx
      (by rw [ax0]; exact hx.head) (by rw [ax1]; exact hx1.head) (by rw [ax2]; exact hx2.head)
      (by rw [ax3]; exact hx3.head) bx0 bx1 bx2 bx3
      (by rw [ax1, az0]; omega) (by rw [ax2, az0]; omega) (by rw [ax3, az0]; omega)
      (by rw [ax2, az1]; omega) (by rw [ax3, az1]; omega) (by rw [ax3, az2]; omega) (by omega)
    simp only [] at hb
    rw [az0, az1, az2, az3] at hb
    generalize hc1 : (x0 + s.cx) / 10000000000000000000 = cc1 at hb
    generalize hc2 : (x1 + cc1) / 10000000000000000000 = cc2 at hb
    generalize hc3 : (x2 + cc2) / 10000000000000000000 = cc3 at hb
    generalize hc4 : (x3 + cc3) / 10000000000000000000 = cc4 at hb
    have hcc4 : cc4 ≤ 1 := by omega
    have hadd : addVW (x0 :: x1 :: x2 :: x3 :: rest) s.cx =
        ((x0 + s.cx) % 10000000000000000000 :: (x1 + cc1) % 10000000000000000000 ::
          (x2 + cc2) % 10000000000000000000 :: (x3 + cc3) % 10000000000000000000 :: (addVW rest cc4).1,
         (addVW rest cc4).2) := by
      rw [addVW_cons, addVW_cons, addVW_cons, addVW_cons, hc1, hc2, hc3, hc4]
    rw [hadd]
    obtain ⟨bcx, bmem, bdx, bsi, bdi, b8, b10, bfr, btrap, bnext⟩ := hb
    have hprog : program Lbl.add10VW_U3 s = blk_add10VW_U3 s := rfl
    have hrest : Holds (blk_add10VW_U3 s).1.mem xp (i + 1 + 1 + 1 + 1) rest := by
      rw [bmem]
      exact (((hx4.wr _ _ (by intro j hj; omega)).wr _ _ (by intro j hj; omega)).wr _ _
        (by intro j hj; omega)).wr _ _ (by intro j hj; omega)
    have hctx' : CpCtx (blk_add10VW_U3 s).1 zp xp n := ⟨by rw [b8, c8], by rw [b10, c10], cn60, cxw, czw⟩
    by_cases h0 : cc4 = 0
    · -- the carry died: copy (or not) the rest
      have hnext : (program Lbl.add10VW_U3 s).2 = Next.goto Lbl.add10VW_C3 := by rw [hprog, bnext, if_pos h0]
      obtain ⟨s', hrun, hfr, htrap, hw⟩ := (add10VW_copy_run zp xp n hal rest (i + 1 + 1 + 1 + 1)
        (blk_add10VW_U3 s).1 (by omega) (by omega) (by rw [bcx, h0]) (by rw [bsi, hsi]) hctx' hrest).1
        (by rw [bdi, hdi]; omega)
      rw [h0, addVW_zero rest hxs']
      refine ⟨s', ?_, by rw [hfr, bfr], by rw [htrap, btrap], ?_⟩
      · exact run_le (run_step hnext (by rw [hprog]; exact hrun)) (by omega)
      · rw [bmem] at hw
        exact Wrote.cons (Wrote.cons (Wrote.cons (Wrote.cons hw)))
    · -- carry still set: next round or the tail
      have hnext : (program Lbl.add10VW_U3 s).2 = Next.goto Lbl.add10VW_U3_1 := by rw [hprog, bnext, if_neg h0]
      obtain ⟨ucx, udx, usi, udi, u8, u10, umem, ufr, utrap, unext⟩ :=
        blk_add10VW_U3_1_spec (blk_add10VW_U3 s).1 (by rw [bdi, hdi]; omega)
      have hprog1 : program Lbl.add10VW_U3_1 (blk_add10VW_U3 s).1 = blk_add10VW_U3_1 (blk_add10VW_U3 s).1 := rfl
      have hctx'' : CpCtx (blk_add10VW_U3_1 (blk_add10VW_U3 s).1).1 zp xp n :=
        ⟨by rw [u8, b8, c8], by rw [u10, b10, c10], cn60, cxw, czw⟩
      have hcont : ∃ s', run program (rest.length + 2)
            (if 4 ≤ rest.length then Lbl.add10VW_U3 else Lbl.add10VW_V3)
            (blk_add10VW_U3_1 (blk_add10VW_U3 s).1).1 = some s' ∧
          s'.frame = (blk_add10VW_U3_1 (blk_add10VW_U3 s).1).1.frame.wr 56
            (addVW rest (blk_add10VW_U3_1 (blk_add10VW_U3 s).1).1.cx).2 ∧
          s'.trap = (blk_add10VW_U3_1 (blk_add10VW_U3 s).1).1.trap ∧
          Wrote (blk_add10VW_U3_1 (blk_add10VW_U3 s).1).1.mem s'.mem zp (i + 1 + 1 + 1 + 1)
            (addVW rest (blk_add10VW_U3_1 (blk_add10VW_U3 s).1).1.cx).1 := by
        by_cases h4' : 4 ≤ rest.length
        · rw [if_pos h4']
          exact ih rest.length (by omega) rest _ _ rfl h4' (by omega) (by omega) hxs'
            (by rw [ucx, bcx]; exact hcc4) (by rw [usi, bsi, hsi])
            (by rw [udi, bdi, hdi, if_pos (by omega)]; omega) (by rw [udx, bdx, hdx]) hctx''
            (by rw [umem]; exact hrest)
        · rw [if_neg h4']
          exact add10VW_V3_run zp xp n hal rest _ _ (by omega) (by omega) hxs'
            (by rw [ucx, bcx]; exact hcc4) (by rw [usi, bsi, hsi])
            (by rw [udi, bdi, hdi, if_neg (by omega)]; omega) (by rw [udx, bdx, hdx]) hctx''
            (by rw [umem]; exact hrest)
      obtain ⟨s', hrun, hfr, htrap, hw⟩ := hcont
      have hnext1 : (program Lbl.add10VW_U3_1 (blk_add10VW_U3 s).1).2 =
          Next.goto (if 4 ≤ rest.length then Lbl.add10VW_U3 else Lbl.add10VW_V3) := by
        rw [hprog1, unext, bdi, hdi]
        by_cases h4' : 4 ≤ rest.length
        · rw [if_pos (by omega), if_pos h4']
        · rw [if_neg (by omega), if_neg h4']
      rw [ucx, bcx] at hfr hw
      refine ⟨s', ?_, by rw [hfr, ufr, bfr], by rw [htrap, utrap, btrap], ?_⟩
      · exact run_le (run_step hnext (by rw [hprog]; exact run_step hnext1 (by rw [hprog1]; exact hrun)))
          (by omega)
      · rw [umem, bmem] at hw
        exact Wrote.cons (Wrote.cons (Wrote.cons (Wrote.cons hw)))

/-- **`add10VW`, every length.**  Frame describing `add10VW(z, x, y)` with `len(z) = len(x) = n`,
    words of `x` and `y` below `10^19`; `z` not above `x` (in particular `z = x`) or beyond its end.
    The routine returns within `n + 7` blocks with the carry of the list-level kernel `L0.add10VW` in
    its result slot and `z` holding that kernel's result; nothing else in memory changes, no trap. -/
theorem add10VW_correct (s : St) (xs : List Nat) (y zp xp : Nat)
    (hf0 : s.frame.rd 0 = zp) (hf8 : s.frame.rd 8 = xs.length) (hf24 : s.frame.rd 24 = xp)
    (hf48 : s.frame.rd 48 = y)
    (hxs : ∀ x, x ∈ xs → x < 10000000000000000000) (hy : y < 10000000000000000000)
    (hn : xs.length < 1152921504606846976)
    (hxp : xp + 8 * xs.length ≤ 18446744073709551616) (hzp : zp + 8 * xs.length ≤ 18446744073709551616)
    (hal : zp ≤ xp ∨ xp + 8 * xs.length ≤ zp)
    (hmem : ∀ j, j < xs.length → s.mem.rd (xp + 8 * j) = xs.getD j 0) :
    ∃ s', run program (xs.length + 7) Lbl.add10VW_entry s = some s' ∧
      s'.frame = s.frame.wr 56 (Decimal.L0.add10VW xs y).2 ∧ s'.trap = s.trap ∧
      (∀ j, j < xs.length → s'.mem.rd (zp + 8 * j) = (Decimal.L0.add10VW xs y).1.getD j 0) ∧
      (∀ a, (∀ j, j < xs.length → a ≠ zp + 8 * j) → s'.mem.rd a = s.mem.rd a) := by
  obtain ⟨ecx, edx, esi, e8, e10, emem, efr, etrap, edi, enext⟩ := blk_add10VW_entry_spec s xs.length hf8 (by omega)
  have hprog : program Lbl.add10VW_entry s = blk_add10VW_entry s := rfl
  cases xs with
  | nil =>
    have hnext : (program Lbl.add10VW_entry s).2 = Next.goto Lbl.add10VW_E3 := by rw [hprog, enext]; rfl
    obtain ⟨xfr, xmem, xtrap, xnext⟩ := blk_add10VW_E3_spec (blk_add10VW_entry s).1
    refine ⟨(blk_add10VW_E3 (blk_add10VW_entry s).1).1, ?_, ?_, ?_, ?_, ?_⟩
    · exact run_le (run_step hnext (by rw [hprog]; exact run_done (l := Lbl.add10VW_E3) xnext)) (by omega)
    · rw [xfr, efr, ecx, hf48]; rfl
    · rw [xtrap, etrap]
    · intro j hj; simp only [List.length_nil] at hj; omega
    · intro a _; rw [xmem, emem]
  | cons x0 rest =>
    have hk : (x0 :: rest).length = rest.length + 1 := rfl
    rw [hk] at hn hxp hzp hal edi enext
    have hx0 : x0 < 10000000000000000000 := hxs x0 (List.mem_cons_self ..)
    have hxs' : ∀ z, z ∈ rest → z < 10000000000000000000 := fun z hz => hxs z (List.mem_cons_of_mem _ hz)
    have hx : Holds s.mem xp 0 (x0 :: rest) := Holds.of_explicit hmem
    have hnext : (program Lbl.add10VW_entry s).2 = Next.goto Lbl.add10VW_entry_1 := by
      rw [hprog, enext, if_neg (by omega)]
    rw [if_neg (by omega)] at edi
    -- entry_1: the first word
    have ctx1 : CpCtx (blk_add10VW_entry s).1 zp xp (rest.length + 1) :=
      ⟨by rw [e8, hf24], by rw [e10, hf0], hn, hxp, hzp⟩
    have ax0 : ((blk_add10VW_entry s).1.r8 + 8 * (blk_add10VW_entry s).1.si) % W = xp + 8 * 0 := by
      rw [addr0 _ xp _ (rest.length + 1) ctx1.r8 (by rw [esi]; omega) hn hxp, esi]
    have az0 : ((blk_add10VW_entry s).1.r10 + 8 * (blk_add10VW_entry s).1.si) % W = zp + 8 * 0 := by
      rw [addr0 _ zp _ (rest.length + 1) ctx1.r10 (by rw [esi]; omega) hn hzp, esi]
    obtain ⟨bcx, bmem, bdx, bsi, bdi, b8, b10, bfr, btrap, bnext⟩ :=
      blk_add10VW_entry_1_spec (blk_add10VW_entry s).1 x0 (by rw [ax0, emem]; exact hx.head) edx hx0
        (by rw [ecx, hf48]; exact hy) (by rw [edi]; omega) (by rw [esi]; omega)
    rw [ecx, hf48, add10WWW_g_eq x0 y 0 hx0 hy (by omega)] at bcx bmem
    simp only [] at bcx bmem
    rw [az0, emem] at bmem
    rw [edi] at bdi bnext
    rw [esi] at bsi
    have hprog1 : program Lbl.add10VW_entry_1 (blk_add10VW_entry s).1 = blk_add10VW_entry_1 (blk_add10VW_entry s).1 := rfl
    generalize hs2 : (blk_add10VW_entry_1 (blk_add10VW_entry s).1).1 = s2 at *
    have hc0 : (x0 + y + 0) / 10000000000000000000 ≤ 1 := by omega
    have ctx2 : CpCtx s2 zp xp (rest.length + 1) := ⟨by rw [b8, ctx1.r8], by rw [b10, ctx1.r10], hn, hxp, hzp⟩
    have hrest : Holds s2.mem xp (0 + 1) rest := by
      rw [bmem]; exact hx.tail.wr _ _ (by intro j hj; omega)
    rw [add10VW_eq x0 rest y hx0 hxs' hy]
    -- the rest of the routine, from the block after entry_1
    have hcont : ∃ s', run program (rest.length + 6)
          (if rest.length + 1 - 1 < 4 then Lbl.add10VW_V3 else Lbl.add10VW_entry_2) s2 = some s' ∧
        s'.frame = s2.frame.wr 56 (addVW rest s2.cx).2 ∧ s'.trap = s2.trap ∧
        Wrote s2.mem s'.mem zp (0 + 1) (addVW rest s2.cx).1 := by
      by_cases h4 : rest.length + 1 - 1 < 4
      · rw [if_pos h4]
        obtain ⟨s', hrun, hrest'⟩ := add10VW_V3_run zp xp (rest.length + 1) hal rest (0 + 1) s2 (by omega) (by omega) hxs'
          (by rw [bcx]; exact hc0) (by rw [bsi]) (by rw [bdi, if_pos h4]; omega) (by rw [bdx, edx]) ctx2 hrest
        exact ⟨s', run_le hrun (by omega), hrest'⟩
      · rw [if_neg h4]
        obtain ⟨kcx, kdx, ksi, kdi, k8, k10, kmem, kfr, ktrap, knext⟩ := blk_add10VW_entry_2_spec s2
        have hprog2 : program Lbl.add10VW_entry_2 s2 = blk_add10VW_entry_2 s2 := rfl
        have ctx3 : CpCtx (blk_add10VW_entry_2 s2).1 zp xp (rest.length + 1) :=
          ⟨by rw [k8, ctx2.r8], by rw [k10, ctx2.r10], hn, hxp, hzp⟩
        by_cases hc : s2.cx = 0
        · have hnext2 : (program Lbl.add10VW_entry_2 s2).2 = Next.goto Lbl.add10VW_entry_3 := by
            rw [hprog2, knext, if_pos hc]
          obtain ⟨s', hrun, hfr, htrap, hw⟩ := (add10VW_copy_run zp xp (rest.length + 1) hal rest (0 + 1)
            (blk_add10VW_entry_2 s2).1 (by omega) (by omega) (by rw [kcx, hc]) (by rw [ksi, bsi]) ctx3
            (by rw [kmem]; exact hrest)).2 (by omega) (by rw [kdi, bdi, if_neg h4]; omega)
          rw [hc, addVW_zero rest hxs']
          refine ⟨s', ?_, by rw [hfr, kfr], by rw [htrap, ktrap], ?_⟩
          · exact run_step hnext2 (by rw [hprog2]; exact hrun)
          · rw [kmem] at hw; exact hw
        · have hnext2 : (program Lbl.add10VW_entry_2 s2).2 = Next.goto Lbl.add10VW_U3 := by
            rw [hprog2, knext, if_neg hc]
          obtain ⟨s', hrun, hfr, htrap, hw⟩ := add10VW_U3_run zp xp (rest.length + 1) hal rest.length rest (0 + 1)
            (blk_add10VW_entry_2 s2).1 rfl (by omega) (by omega) (by omega) hxs'
            (by rw [kcx, bcx]; exact hc0) (by rw [ksi, bsi]) (by rw [kdi, bdi, if_neg h4]; omega)
            (by rw [kdx, bdx, edx]) ctx3 (by rw [kmem]; exact hrest)
          rw [kcx] at hfr hw
          refine ⟨s', ?_, by rw [hfr, kfr], by rw [htrap, ktrap], ?_⟩
          · exact run_le (run_step hnext2 (by rw [hprog2]; exact hrun)) (by omega)
          · rw [kmem] at hw; exact hw
    obtain ⟨s', hrun, hfr, htrap, hw⟩ := hcont
    have hnext1 : (program Lbl.add10VW_entry_1 (blk_add10VW_entry s).1).2 =
        Next.goto (if rest.length + 1 - 1 < 4 then Lbl.add10VW_V3 else Lbl.add10VW_entry_2) := by
      rw [hprog1, bnext]; split <;> rfl
    rw [bcx] at hfr hw
    rw [bmem] at hw
    have hW : Wrote s.mem s'.mem zp 0
        ((x0 + y + 0) % 10000000000000000000 :: (addVW rest ((x0 + y + 0) / 10000000000000000000)).1) :=
      Wrote.cons hw
    obtain ⟨hz, ho⟩ := hW.explicit (n := rest.length + 1) (by simp only [List.length_cons, addVW_length])
    refine ⟨s', ?_, by rw [hfr, bfr, efr], by rw [htrap, btrap, etrap], hz, ho⟩
    rw [hk]
    exact run_le (run_step hnext (by rw [hprog]; exact run_step hnext1 (by rw [hprog1, hs2]; exact hrun))) (by omega)

example : ∃ xs : List Nat, ∃ y : Nat, (∀ x, x ∈ xs → x < 10000000000000000000) ∧ y < 10000000000000000000 ∧
    Decimal.L0.add10VW xs y = ([0, 0, 0, 0, 0, 5, 7], 0) :=
  ⟨[9999999999999999999, 9999999999999999999, 9999999999999999999, 9999999999999999999,
    9999999999999999999, 4, 7], 1, by decide, by decide, by decide⟩

end Decimal.Asm
