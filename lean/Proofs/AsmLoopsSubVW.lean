/-
  C07, assembly side, Tier C: `sub10VW(z, x []Word, y Word) (c Word)`, every length.

  `subVW` is the plain borrow propagation `z[i] = x[i] - c (+ 10^19 on borrow)`; it is the list-level
  kernel `L0.sub10VW` (which has the early exit "borrow = 0 → copy the rest", like the assembly:
  `sub10VW_eq`).  The assembly's early exit `C4` either returns at once when the operation is in
  place or hands the rest to `decCpy`.
-/
import Proofs.AsmLoops2
import DecimalModel.Vec

namespace Decimal.Asm

open Decimal.Gen (W W_eq)
open Decimal.Gen.Asm

/-! ### list-level meaning -/

/-- borrow propagation: `z[i] = x[i] - c (+ 10^19 if x[i] < c)`, `c = [x[i] < c]` -/
def subVW : List Nat → Nat → List Nat × Nat
  | [], c => ([], c)
  | x :: xs, c =>
    let r := subVW xs (if x < c then 1 else 0)
    ((if x < c then x + 10000000000000000000 - c else x - c) :: r.1, r.2)

theorem subVW_cons (x : Nat) (xs : List Nat) (c : Nat) :
    subVW (x :: xs) c = ((if x < c then x + 10000000000000000000 - c else x - c) ::
      (subVW xs (if x < c then 1 else 0)).1, (subVW xs (if x < c then 1 else 0)).2) := rfl

theorem subVW_length (xs : List Nat) : ∀ c, (subVW xs c).1.length = xs.length := by
  induction xs with
  | nil => intro c; rfl
  | cons x xs ih => intro c; rw [subVW_cons]; simp only [List.length_cons, ih]

/-- without a borrow nothing changes -/
theorem subVW_zero (xs : List Nat) : subVW xs 0 = (xs, 0) := by
  induction xs with
  | nil => rfl
  | cons x xs ih =>
    rw [subVW_cons, if_neg (by omega), if_neg (by omega), ih]; rfl

theorem ite_lt_B (p : Prop) [Decidable p] : (if p then 1 else 0) < 10000000000000000000 := by split <;> omega

/-- the Go loop with its early exit computes the same thing -/
theorem sub10VW_eq (xs : List Nat) (hxs : ∀ x, x ∈ xs → x < 10000000000000000000) :
    ∀ c, c < 10000000000000000000 → Decimal.L0.sub10VW xs c = subVW xs c := by
  induction xs with
  | nil => intro c _; rfl
  | cons x xs ih =>
    intro c hc
    have hx := hxs x (List.mem_cons_self ..)
    have hxs' : ∀ z, z ∈ xs → z < 10000000000000000000 := fun z hz => hxs z (List.mem_cons_of_mem _ hz)
    rw [subVW_cons]
    by_cases hlt : x < c
    · have hge : ¬ x ≥ c := by omega
      have h10 : ¬ ((1 : Nat) = 0) := by omega
      have hz : (x + W - c + Decimal.Gen.c_DB) % W = x + 10000000000000000000 - c := by
        show (x + W - c + 10000000000000000000) % W = _
        simp only [W_eq]; omega
      simp only [Decimal.L0.sub10VW, hge, if_false, h10, hz]
      rw [if_pos hlt, if_pos hlt, ih hxs' 1 (by omega)]
    · have hge : x ≥ c := by omega
      simp only [Decimal.L0.sub10VW, hge, if_true]
      rw [if_neg hlt, if_neg hlt, subVW_zero]

/-! ### the loops -/

/-- The single-step loop `L4` from index `i` on (`xs` = the words still to be processed, at least one). -/
theorem sub10VW_L4_run (zp xp n : Nat) (hal : zp ≤ xp ∨ xp + 8 * n ≤ zp) :
    ∀ (xs : List Nat) (i : Nat) (s : St), xs ≠ [] → i + xs.length ≤ n →
      (∀ x, x ∈ xs → x < 10000000000000000000) → s.cx < 10000000000000000000 → s.si = i → s.di = xs.length →
      s.dx = 10000000000000000000 → CpCtx s zp xp n → Holds s.mem xp i xs →
      ∃ s', run program (xs.length + 1) Lbl.sub10VW_L4 s = some s' ∧
        s'.frame = s.frame.wr 56 (subVW xs s.cx).2 ∧ s'.trap = s.trap ∧
        Wrote s.mem s'.mem zp i (subVW xs s.cx).1 := by
  intro xs
  induction xs with
  | nil => intro i s h; exact absurd rfl h
  | cons x rest ih =>
    intro i s _ hin hxs hc hsi hdi hdx ctx hx
    have hxb : x < 10000000000000000000 := hxs x (List.mem_cons_self ..)
    have hk : (x :: rest).length = rest.length + 1 := rfl
    rw [hk] at hin hdi
    obtain ⟨c8, c10, cn60, cxw, czw⟩ := ctx
    have ax0 : (s.r8 + 8 * s.si) % W = xp + 8 * i := by rw [addr0 s.r8 xp s.si n c8 (by omega) cn60 cxw, hsi]
    have az0 : (s.r10 + 8 * s.si) % W = zp + 8 * i := by rw [addr0 s.r10 zp s.si n c10 (by omega) cn60 czw, hsi]
    obtain ⟨bcx, bmem, bdx, bsi, bdi, b8, b10, bfr, btrap, bnext⟩ :=
      blk_sub10VW_L4_spec s x (by rw [ax0]; exact hx.head) hdx hxb hc (by omega) (by omega) (by omega)
    rw [az0] at bmem
    have hprog : program Lbl.sub10VW_L4 s = blk_sub10VW_L4 s := rfl
    rw [subVW_cons]
    cases rest with
    | nil =>
      have hnext : (program Lbl.sub10VW_L4 s).2 = Next.goto Lbl.sub10VW_E4 := by
        rw [hprog, bnext, if_neg (by simp only [List.length_nil] at hdi; omega)]
      obtain ⟨efr, emem, etrap, enext⟩ := blk_sub10VW_E4_spec (blk_sub10VW_L4 s).1
      refine ⟨(blk_sub10VW_E4 (blk_sub10VW_L4 s).1).1, ?_, ?_, ?_, ?_⟩
      · exact run_step hnext (by rw [hprog]; exact run_done (l := Lbl.sub10VW_E4) enext)
      · rw [efr, bfr, bcx]; rfl
      · rw [etrap, btrap]
      · rw [emem, bmem]; exact Wrote.cons (Wrote.nil _ _ _)
    | cons x2 r2 =>
      have hnext : (program Lbl.sub10VW_L4 s).2 = Next.goto Lbl.sub10VW_L4 := by
        rw [hprog, bnext, if_pos (by simp only [List.length_cons] at hdi; omega)]
      obtain ⟨s', hrun, hfr, htrap, hw⟩ := ih (i + 1) (blk_sub10VW_L4 s).1 (by intro h; cases h)
        (by omega) (fun z hz => hxs z (List.mem_cons_of_mem _ hz)) (by rw [bcx]; exact ite_lt_B _)
        (by rw [bsi, hsi]) (by rw [bdi, hdi]; omega) (by rw [bdx, hdx])
        ⟨by rw [b8, c8], by rw [b10, c10], cn60, cxw, czw⟩
        (by rw [bmem]; exact hx.tail.wr _ _ (by intro j hj; omega))
      rw [bcx] at hfr hw
      refine ⟨s', ?_, by rw [hfr, bfr], by rw [htrap, btrap], ?_⟩
      · exact run_step hnext (by rw [hprog]; exact hrun)
      · rw [bmem] at hw; exact Wrote.cons hw

/-- From `V4` on: fewer than 4 words left. -/
theorem sub10VW_V4_run (zp xp n : Nat) (hal : zp ≤ xp ∨ xp + 8 * n ≤ zp)
    (xs : List Nat) (i : Nat) (s : St) (hm : xs.length < 4) (hin : i + xs.length ≤ n)
    (hxs : ∀ x, x ∈ xs → x < 10000000000000000000) (hc : s.cx < 10000000000000000000) (hsi : s.si = i)
    (hdi : s.di = 18446744073709551616 - 4 + xs.length) (hdx : s.dx = 10000000000000000000)
    (ctx : CpCtx s zp xp n) (hx : Holds s.mem xp i xs) :
    ∃ s', run program (xs.length + 2) Lbl.sub10VW_V4 s = some s' ∧
      s'.frame = s.frame.wr 56 (subVW xs s.cx).2 ∧ s'.trap = s.trap ∧
      Wrote s.mem s'.mem zp i (subVW xs s.cx).1 := by
  obtain ⟨vcx, vdx, vsi, v8, v10, vmem, vfr, vtrap, vdi, vnext⟩ := blk_sub10VW_V4_spec s xs.length hm hdi
  have hprog : program Lbl.sub10VW_V4 s = blk_sub10VW_V4 s := rfl
  obtain ⟨c8, c10, cn60, cxw, czw⟩ := ctx
  cases xs with
  | nil =>
    have hnext : (program Lbl.sub10VW_V4 s).2 = Next.goto Lbl.sub10VW_E4 := by rw [hprog, vnext]; rfl
    obtain ⟨efr, emem, etrap, enext⟩ := blk_sub10VW_E4_spec (blk_sub10VW_V4 s).1
    refine ⟨(blk_sub10VW_E4 (blk_sub10VW_V4 s).1).1, ?_, ?_, ?_, ?_⟩
    · exact run_step hnext (by rw [hprog]; exact run_done (l := Lbl.sub10VW_E4) enext)
    · rw [efr, vfr, vcx]; rfl
    · rw [etrap, vtrap]
    · rw [emem, vmem]; exact Wrote.nil _ _ _
  | cons x rest =>
    have hnext : (program Lbl.sub10VW_V4 s).2 = Next.goto Lbl.sub10VW_L4 := by
      rw [hprog, vnext, if_neg (by simp only [List.length_cons]; omega)]
    obtain ⟨s', hrun, hfr, htrap, hw⟩ := sub10VW_L4_run zp xp n hal (x :: rest) i (blk_sub10VW_V4 s).1
      (by intro h; cases h) hin hxs (by rw [vcx]; exact hc) (by rw [vsi, hsi]) vdi (by rw [vdx, hdx])
      ⟨by rw [v8, c8], by rw [v10, c10], cn60, cxw, czw⟩ (by rw [vmem]; exact hx)
    rw [vcx] at hfr hw
    refine ⟨s', run_step hnext (by rw [hprog]; exact hrun), by rw [hfr, vfr], by rw [htrap, vtrap], ?_⟩
    rw [vmem] at hw; exact hw

/-- `C4`: no borrow left and `rest` still to be delivered: return at once when in place, else `decCpy`. -/
theorem sub10VW_C4_run (zp xp n : Nat) (hal : zp ≤ xp ∨ xp + 8 * n ≤ zp)
    (rest : List Nat) (i : Nat) (s : St) (hi0 : 0 < i) (hin : i + rest.length ≤ n) (hcx : s.cx = 0) (hsi : s.si = i)
    (hdi : s.di = rest.length) (ctx : CpCtx s zp xp n) (hx : Holds s.mem xp i rest) :
    ∃ s', run program (rest.length + 5) Lbl.sub10VW_C4 s = some s' ∧
      s'.frame = s.frame.wr 56 0 ∧ s'.trap = s.trap ∧ Wrote s.mem s'.mem zp i rest := by
  obtain ⟨c8, c10, cn60, cxw, czw⟩ := ctx
  have h8 : s.r8 < 18446744073709551616 := by omega
  have h10 : s.r10 < 18446744073709551616 := by omega
  obtain ⟨kcx, kdx, ksi, kdi, k8, k10, kmem, kfr, ktrap, knext⟩ := blk_sub10VW_C4_spec s h8 h10
  have hprog : program Lbl.sub10VW_C4 s = blk_sub10VW_C4 s := rfl
  by_cases heq : s.r8 = s.r10
  · have hnext : (program Lbl.sub10VW_C4 s).2 = Next.goto Lbl.sub10VW_E4 := by rw [hprog, knext, if_pos heq]
    obtain ⟨efr, emem, etrap, enext⟩ := blk_sub10VW_E4_spec (blk_sub10VW_C4 s).1
    refine ⟨(blk_sub10VW_E4 (blk_sub10VW_C4 s).1).1, ?_, ?_, ?_, ?_⟩
    · exact run_le (run_step hnext (by rw [hprog]; exact run_done (l := Lbl.sub10VW_E4) enext)) (by omega)
    · rw [efr, kfr, kcx, hcx]
    · rw [etrap, ktrap]
    · rw [emem, kmem]
      have hzx : zp = xp := by omega
      rw [hzx]; exact Wrote.of_holds hx
  · have hnext : (program Lbl.sub10VW_C4 s).2 = Next.goto Lbl.sub10VW_C4_1 := by rw [hprog, knext, if_neg heq]
    obtain ⟨ddi, dsi, d8, d10, dmem, dfr, dtrap, dnext⟩ := blk_sub10VW_C4_1_spec (blk_sub10VW_C4 s).1
    have hprog1 : program Lbl.sub10VW_C4_1 (blk_sub10VW_C4 s).1 = blk_sub10VW_C4_1 (blk_sub10VW_C4 s).1 := rfl
    obtain ⟨s', hrun, hfr, htrap, hw⟩ := decCpy_run zp xp n hal rest i (blk_sub10VW_C4_1 (blk_sub10VW_C4 s).1).1
      hin (by rw [dsi, ksi, hsi]) (by rw [ddi, kdi, hdi])
      ⟨by rw [d8, k8, c8], by rw [d10, k10, c10], cn60, cxw, czw⟩ (by rw [dmem, kmem]; exact hx)
    refine ⟨s', ?_, by rw [hfr, dfr, kfr, kcx, hcx], by rw [htrap, dtrap, ktrap], ?_⟩
    · exact run_step hnext (by rw [hprog]; exact run_step (by rw [hprog1, dnext]) (by rw [hprog1]; exact hrun))
    · rw [dmem, kmem] at hw; exact hw

/-- The 4×-unrolled loop `U4` from index `i` on (`k = xs.length ≥ 4` words left), with its early
    exit `C4` when the borrow dies, followed by the tail. -/
theorem sub10VW_U4_run (zp xp n : Nat) (hal : zp ≤ xp ∨ xp + 8 * n ≤ zp) :
    ∀ (k : Nat) (xs : List Nat) (i : Nat) (s : St), xs.length = k → 4 ≤ k → i + k ≤ n →
      (∀ x, x ∈ xs → x < 10000000000000000000) → s.cx < 10000000000000000000 → s.si = i → s.di = k - 4 →
      s.dx = 10000000000000000000 → CpCtx s zp xp n → Holds s.mem xp i xs →
      ∃ s', run program (k + 2) Lbl.sub10VW_U4 s = some s' ∧
        s'.frame = s.frame.wr 56 (subVW xs s.cx).2 ∧ s'.trap = s.trap ∧
        Wrote s.mem s'.mem zp i (subVW xs s.cx).1 := by
  intro k
  induction k using Nat.strongRecOn with
  | _ k ih =>
    intro xs i s hk h4 hin hxs hc hsi hdi hdx ctx hx
    obtain ⟨x0, x1, x2, x3, rest, rfl⟩ := list_four xs (by omega)
    have hkk : rest.length + 4 = k := by rw [← hk]; rfl
    have bx0 := hxs x0 (by simp)
    have bx1 := hxs x1 (by simp)
    have bx2 := hxs x2 (by simp)
    have bx3 := hxs x3 (by simp)
    have hxs' : ∀ z, z ∈ rest → z < 10000000000000000000 := fun z hz => hxs z (by simp [hz])
    obtain ⟨c8, c10, cn60, cxw, czw⟩ := ctx
    have hx1 := hx.tail
    have hx2 := hx1.tail
    have hx3 := hx2.tail
    have hx4 := hx3.tail
    have ax0 : (s.r8 + 8 * s.si) % W = xp + 8 * i := by rw [addr0 s.r8 xp s.si n c8 (by omega) cn60 cxw, hsi]
    have ax1 : (s.r8 + 8 * s.si + 8) % W = xp + 8 * (i + 1) := by
      rw [addrD s.r8 xp s.si n 8 1 rfl c8 (by omega) cn60 cxw, hsi]
    have ax2 : (s.r8 + 8 * s.si + 16) % W = xp + 8 * (i + 1 + 1) := by
      rw [addrD s.r8 xp s.si n 16 (1 + 1) rfl c8 (by omega) cn60 cxw, hsi, Nat.add_assoc]
    have ax3 : (s.r8 + 8 * s.si + 24) % W = xp + 8 * (i + 1 + 1 + 1) := by
      rw [addrD s.r8 xp s.si n 24 (1 + 1 + 1) rfl c8 (by omega) cn60 cxw, hsi, Nat.add_assoc, Nat.add_assoc]
    have az0 : (s.r10 + 8 * s.si) % W = zp + 8 * i := by rw [addr0 s.r10 zp s.si n c10 (by omega) cn60 czw, hsi]
    have az1 : (s.r10 + 8 * s.si + 8) % W = zp + 8 * (i + 1) := by
      rw [addrD s.r10 zp s.si n 8 1 rfl c10 (by omega) cn60 czw, hsi]
    have az2 : (s.r10 + 8 * s.si + 16) % W = zp + 8 * (i + 1 + 1) := by
      rw [addrD s.r10 zp s.si n 16 (1 + 1) rfl c10 (by omega) cn60 czw, hsi, Nat.add_assoc]
    have az3 : (s.r10 + 8 * s.si + 24) % W = zp + 8 * (i + 1 + 1 + 1) := by
      rw [addrD s.r10 zp s.si n 24 (1 + 1 + 1) rfl c10 (by omega) cn60 czw, hsi, Nat.add_assoc, Nat.add_assoc]
    have hb := blk_sub10VW_U4_spec s x0 x1 x2 x3 hc hdx
      (by rw [ax0]; exact hx.head) (by rw [ax1]; exact hx1.head) (by rw [ax2]; exact hx2.head)
      (by rw [ax3]; exact hx3.head) bx0 bx1 bx2 bx3
      (by rw [ax1, az0]; omega) (by rw [ax2, az0]; omega) (by rw [ax3, az0]; omega)
      (by rw [ax2, az1]; omega) (by rw [ax3, az1]; omega) (by rw [ax3, az2]; omega) (by omega)
    simp only [] at hb
    rw [az0, az1, az2, az3] at hb
    generalize hc1 : (if x0 < s.cx then 1 else 0) = cc1 at hb
    generalize hc2 : (if x1 < cc1 then 1 else 0) = cc2 at hb
    generalize hc3 : (if x2 < cc2 then 1 else 0) = cc3 at hb
    generalize hc4 : (if x3 < cc3 then 1 else 0) = cc4 at hb
    have hcc4 : cc4 < 10000000000000000000 := by rw [← hc4]; exact ite_lt_B _
    have hadd : subVW (x0 :: x1 :: x2 :: x3 :: rest) s.cx =
        ((if x0 < s.cx then x0 + 10000000000000000000 - s.cx else x0 - s.cx) ::
          (if x1 < cc1 then x1 + 10000000000000000000 - cc1 else x1 - cc1) ::
          (if x2 < cc2 then x2 + 10000000000000000000 - cc2 else x2 - cc2) ::
          (if x3 < cc3 then x3 + 10000000000000000000 - cc3 else x3 - cc3) :: (subVW rest cc4).1,
         (subVW rest cc4).2) := by
      rw [subVW_cons, subVW_cons, subVW_cons, subVW_cons, hc1, hc2, hc3, hc4]
    rw [hadd]
    obtain ⟨bcx, bmem, bdx, bsi, bdi, b8, b10, bfr, btrap, bnext⟩ := hb
    have hprog : program Lbl.sub10VW_U4 s = blk_sub10VW_U4 s := rfl
    have hrest : Holds (blk_sub10VW_U4 s).1.mem xp (i + 1 + 1 + 1 + 1) rest := by
      rw [bmem]
      exact (((hx4.wr _ _ (by intro j hj; omega)).wr _ _ (by intro j hj; omega)).wr _ _
        (by intro j hj; omega)).wr _ _ (by intro j hj; omega)
    have hctx' : CpCtx (blk_sub10VW_U4 s).1 zp xp n := ⟨by rw [b8, c8], by rw [b10, c10], cn60, cxw, czw⟩
    by_cases h0 : cc4 = 0
    · -- the borrow died: copy (or not) the rest
      have hnext : (program Lbl.sub10VW_U4 s).2 = Next.goto Lbl.sub10VW_C4 := by rw [hprog, bnext, if_pos h0]
      obtain ⟨s', hrun, hfr, htrap, hw⟩ := sub10VW_C4_run zp xp n hal rest (i + 1 + 1 + 1 + 1)
        (blk_sub10VW_U4 s).1 (by omega) (by omega) (by rw [bcx, h0]) (by rw [bsi, hsi])
        (by rw [bdi, hdi]; omega) hctx' hrest
      rw [h0, subVW_zero rest]
      refine ⟨s', ?_, by rw [hfr, bfr], by rw [htrap, btrap], ?_⟩
      · exact run_le (run_step hnext (by rw [hprog]; exact hrun)) (by omega)
      · rw [bmem] at hw
        exact Wrote.cons (Wrote.cons (Wrote.cons (Wrote.cons hw)))
    · -- borrow still set: next round or the tail
      have hnext : (program Lbl.sub10VW_U4 s).2 = Next.goto Lbl.sub10VW_U4_1 := by rw [hprog, bnext, if_neg h0]
      obtain ⟨ucx, udx, usi, udi, u8, u10, umem, ufr, utrap, unext⟩ :=
        blk_sub10VW_U4_1_spec (blk_sub10VW_U4 s).1 (by rw [bdi, hdi]; omega)
      have hprog1 : program Lbl.sub10VW_U4_1 (blk_sub10VW_U4 s).1 = blk_sub10VW_U4_1 (blk_sub10VW_U4 s).1 := rfl
      have hctx'' : CpCtx (blk_sub10VW_U4_1 (blk_sub10VW_U4 s).1).1 zp xp n :=
        ⟨by rw [u8, b8, c8], by rw [u10, b10, c10], cn60, cxw, czw⟩
      have hcont : ∃ s', run program (rest.length + 2)
            (if 4 ≤ rest.length then Lbl.sub10VW_U4 else Lbl.sub10VW_V4)
            (blk_sub10VW_U4_1 (blk_sub10VW_U4 s).1).1 = some s' ∧
          s'.frame = (blk_sub10VW_U4_1 (blk_sub10VW_U4 s).1).1.frame.wr 56
            (subVW rest (blk_sub10VW_U4_1 (blk_sub10VW_U4 s).1).1.cx).2 ∧
          s'.trap = (blk_sub10VW_U4_1 (blk_sub10VW_U4 s).1).1.trap ∧
          Wrote (blk_sub10VW_U4_1 (blk_sub10VW_U4 s).1).1.mem s'.mem zp (i + 1 + 1 + 1 + 1)
            (subVW rest (blk_sub10VW_U4_1 (blk_sub10VW_U4 s).1).1.cx).1 := by
        by_cases h4' : 4 ≤ rest.length
        · rw [if_pos h4']
          exact ih rest.length (by omega) rest _ _ rfl h4' (by omega) hxs'
            (by rw [ucx, bcx]; exact hcc4) (by rw [usi, bsi, hsi])
            (by rw [udi, bdi, hdi, if_pos (by omega)]; omega) (by rw [udx, bdx, hdx]) hctx''
            (by rw [umem]; exact hrest)
        · rw [if_neg h4']
          exact sub10VW_V4_run zp xp n hal rest _ _ (by omega) (by omega) hxs'
            (by rw [ucx, bcx]; exact hcc4) (by rw [usi, bsi, hsi])
            (by rw [udi, bdi, hdi, if_neg (by omega)]; omega) (by rw [udx, bdx, hdx]) hctx''
            (by rw [umem]; exact hrest)
      obtain ⟨s', hrun, hfr, htrap, hw⟩ := hcont
      have hnext1 : (program Lbl.sub10VW_U4_1 (blk_sub10VW_U4 s).1).2 =
          Next.goto (if 4 ≤ rest.length then Lbl.sub10VW_U4 else Lbl.sub10VW_V4) := by
        rw [hprog1, unext, bdi, hdi]
        by_cases h4' : 4 ≤ rest.length
        · rw [if_pos (by omega), if_pos h4']
        · rw [if_neg (by omega), if_neg h4']
      rw [ucx, bcx] at hfr hw
      refine ⟨s', ?_, by rw [hfr, ufr, bfr], by rw [htrap, utrap, btrap], ?_⟩
      · exact run_le (run_step hnext (by rw [hprog]; exact run_step hnext1 (by rw [hprog1]; exact hrun)))
          (by omega)
      · rw [umem, bmem] at hw
        exact Wrote.cons (Wrote.cons (Wrote.cons (Wrote.cons hw)))

/-- **`sub10VW`, every length.**  Frame describing `sub10VW(z, x, y)` with `len(z) = len(x) = n`,
    words of `x` and `y` below `10^19`; `z` not above `x` (in particular `z = x`) or beyond its end.
    The routine returns within `n + 3` blocks with the borrow of the list-level kernel `L0.sub10VW`
    in its result slot and `z` holding that kernel's result; nothing else in memory changes, no trap. -/
theorem sub10VW_correct (s : St) (xs : List Nat) (y zp xp : Nat)
    (hf0 : s.frame.rd 0 = zp) (hf8 : s.frame.rd 8 = xs.length) (hf24 : s.frame.rd 24 = xp)
    (hf48 : s.frame.rd 48 = y)
    (hxs : ∀ x, x ∈ xs → x < 10000000000000000000) (hy : y < 10000000000000000000)
    (hn : xs.length < 1152921504606846976)
    (hxp : xp + 8 * xs.length ≤ 18446744073709551616) (hzp : zp + 8 * xs.length ≤ 18446744073709551616)
    (hal : zp ≤ xp ∨ xp + 8 * xs.length ≤ zp)
    (hmem : ∀ j, j < xs.length → s.mem.rd (xp + 8 * j) = xs.getD j 0) :
    ∃ s', run program (xs.length + 3) Lbl.sub10VW_entry s = some s' ∧
      s'.frame = s.frame.wr 56 (Decimal.L0.sub10VW xs y).2 ∧ s'.trap = s.trap ∧
      (∀ j, j < xs.length → s'.mem.rd (zp + 8 * j) = (Decimal.L0.sub10VW xs y).1.getD j 0) ∧
      (∀ a, (∀ j, j < xs.length → a ≠ zp + 8 * j) → s'.mem.rd a = s.mem.rd a) := by
  obtain ⟨ecx, edx, esi, e8, e10, emem, efr, etrap, edi, enext⟩ := blk_sub10VW_entry_spec s xs.length hf8 (by omega)
  have hprog : program Lbl.sub10VW_entry s = blk_sub10VW_entry s := rfl
  have ctx1 : CpCtx (blk_sub10VW_entry s).1 zp xp xs.length := ⟨by rw [e8, hf24], by rw [e10, hf0], hn, hxp, hzp⟩
  have hx : Holds (blk_sub10VW_entry s).1.mem xp 0 xs := by rw [emem]; exact Holds.of_explicit hmem
  rw [sub10VW_eq xs hxs y hy]
  have hcont : ∃ s', run program (xs.length + 2)
        (if xs.length < 4 then Lbl.sub10VW_V4 else Lbl.sub10VW_U4) (blk_sub10VW_entry s).1 = some s' ∧
      s'.frame = (blk_sub10VW_entry s).1.frame.wr 56 (subVW xs (blk_sub10VW_entry s).1.cx).2 ∧
      s'.trap = (blk_sub10VW_entry s).1.trap ∧
      Wrote (blk_sub10VW_entry s).1.mem s'.mem zp 0 (subVW xs (blk_sub10VW_entry s).1.cx).1 := by
    by_cases h4 : xs.length < 4
    · rw [if_pos h4]
      exact sub10VW_V4_run zp xp xs.length hal xs 0 _ h4 (by omega) hxs (by rw [ecx, hf48]; exact hy) esi
        (by rw [edi, if_pos h4]) edx ctx1 hx
    · rw [if_neg h4]
      exact sub10VW_U4_run zp xp xs.length hal xs.length xs 0 _ rfl (by omega) (by omega) hxs
        (by rw [ecx, hf48]; exact hy) esi (by rw [edi, if_neg h4]) edx ctx1 hx
  obtain ⟨s', hrun, hfr, htrap, hw⟩ := hcont
  have hnext : (program Lbl.sub10VW_entry s).2 =
      Next.goto (if xs.length < 4 then Lbl.sub10VW_V4 else Lbl.sub10VW_U4) := by
    rw [hprog, enext]; split <;> rfl
  rw [ecx, hf48] at hfr hw
  rw [emem] at hw
  obtain ⟨hz, ho⟩ := hw.explicit (n := xs.length) (subVW_length xs y)
  exact ⟨s', run_step hnext (by rw [hprog]; exact hrun), by rw [hfr, efr], by rw [htrap, etrap], hz, ho⟩

example : ∃ xs : List Nat, ∃ y : Nat, (∀ x, x ∈ xs → x < 10000000000000000000) ∧ y < 10000000000000000000 ∧
    Decimal.L0.sub10VW xs y = ([9999999999999999998, 9999999999999999999, 9999999999999999999,
      9999999999999999999, 9999999999999999999, 3, 7], 0) :=
  ⟨[0, 0, 0, 0, 0, 4, 7], 2, by decide, by decide, by decide⟩

end Decimal.Asm
