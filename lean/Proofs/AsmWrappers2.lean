/-
  C07, assembly side: the whole-routine theorems of add10VW, sub10VW, shl10VU, shr10VU lifted to the
  Go-signature wrappers of DecimalModel/AsmRoutines.lean (`callKernel`: ABI0 frame, heap, table,
  runner, read-back), for a destination disjoint from the source (`asm_add10VW` …) and in place
  (`asm_inplace`).
-/
import Proofs.AsmWrappers
import Proofs.AsmLoopsAddVW
import Proofs.AsmLoopsSubVW
import Proofs.AsmLoopsShl
import Proofs.AsmLoopsShr

namespace Decimal.Asm

open Decimal.Gen (W W_eq)
open Decimal.Gen.Asm

/-! ### the initial state built by `callKernel` -/

/-- the table image used by the wrappers is laid out as the assembly expects -/
theorem tabMem_tab : TabAt tabMem tabBase := by
  unfold TabAt
  decide

theorem initState_sym (args : List Arg) (heap : List Nat) :
    (initState args heap).sym "pow10DivTab64" = tabBase := by
  show symTab "pow10DivTab64" = tabBase
  decide

/-- the heap does not hide the table -/
theorem initState_tab (args : List Arg) (heap : List Nat) :
    TabAt (initState args heap).mem ((initState args heap).sym "pow10DivTab64") := by
  rw [initState_sym]
  intro k hk
  obtain ⟨h1, h2, h3⟩ := tabMem_tab k hk
  have hb : tabBase = 65536 := rfl
  have hh : heapBase = 16777216 := rfl
  have e : ∀ a, a < heapBase → (initState args heap).mem.rd a = tabMem.rd a := by
    intro a ha
    show (listMem heapBase heap tabMem) a = tabMem a
    unfold listMem
    rw [if_neg (by omega)]
  rw [e _ (by omega), e _ (by omega), e _ (by omega)]
  exact ⟨h1, h2, h3⟩

/-- the argument frame of `f(z, x []Word, w Word) (c Word)` -/
theorem initState_frame (n off w : Nat) (heap : List Nat) :
    (initState [.slice 0 n, .slice off n, .word w] heap).frame.rd 0 = heapBase + 8 * 0 ∧
    (initState [.slice 0 n, .slice off n, .word w] heap).frame.rd 8 = n ∧
    (initState [.slice 0 n, .slice off n, .word w] heap).frame.rd 24 = heapBase + 8 * off ∧
    (initState [.slice 0 n, .slice off n, .word w] heap).frame.rd 48 = w ∧
    (initState [.slice 0 n, .slice off n, .word w] heap).trap = false := by
  have hfr : (initState [.slice 0 n, .slice off n, .word w] heap).frame =
      listMem 0 [heapBase + 8 * 0, n, n, heapBase + 8 * off, n, n, w] (fun _ => 0) := rfl
  rw [hfr]
  exact ⟨listMem_rd 0 _ _ 0 (by show 0 < 7; omega), listMem_rd 0 _ _ 1 (by show 1 < 7; omega),
    listMem_rd 0 _ _ 3 (by show 3 < 7; omega), listMem_rd 0 _ _ 6 (by show 6 < 7; omega), rfl⟩

theorem initState_heap (args : List Arg) (heap : List Nat) (j : Nat) (hj : j < heap.length) :
    (initState args heap).mem.rd (heapBase + 8 * j) = heap.getD j 0 :=
  listMem_rd heapBase heap tabMem j hj

/-- read-back: from the final state of the runner to the wrapper's result -/
theorem callKernel_vec (entry : Lbl) (n off w : Nat) (heap : List Nat) (res : List Nat × Nat) (fuel : Nat)
    (hfuel : fuel ≤ fuelFor heap) (hlen : n ≤ heap.length) (hres : res.1.length = n)
    (h : ∃ s', run program fuel entry (initState [.slice 0 n, .slice off n, .word w] heap) = some s' ∧
      s'.frame = (initState [.slice 0 n, .slice off n, .word w] heap).frame.wr 56 res.2 ∧
      s'.trap = (initState [.slice 0 n, .slice off n, .word w] heap).trap ∧
      (∀ j, j < n → s'.mem.rd (heapBase + 8 * 0 + 8 * j) = res.1.getD j 0)) :
    vecResult n (callKernel entry [.slice 0 n, .slice off n, .word w] 1 heap) = some res := by
  obtain ⟨s', hrun, hfr', htrap', hz⟩ := h
  unfold callKernel
  rw [run_le hrun hfuel]
  have htrap0 : (initState [.slice 0 n, .slice off n, .word w] heap).trap = false := rfl
  simp only [htrap', htrap0, Bool.false_eq_true, if_false]
  have hfl : 8 * (frameOf [.slice 0 n, .slice off n, .word w]).length = 56 := rfl
  have hres1 : readList s'.frame 56 1 = [res.2] := by
    show [s'.frame.rd (56 + 8 * 0)] = _
    rw [hfr', Mem.rd_wr_eq]
  rw [hfl, hres1]
  show some ((readList s'.mem heapBase heap.length).take n, res.2) = some res
  have hz' : (readList s'.mem heapBase heap.length).take n = res.1 := by
    apply list_eq_of_getD
    · rw [List.length_take, readList_length, hres]; omega
    · intro j hj
      rw [List.length_take, readList_length] at hj
      have hj' : j < n := by omega
      have := hz j hj'
      rw [Nat.mul_zero, Nat.add_zero] at this
      rw [List.getD_eq_getElem?_getD, List.getElem?_take_of_lt hj', ← List.getD_eq_getElem?_getD,
        readList_getD _ _ _ _ (by omega), this]
  rw [hz']

theorem zeros_length (n : Nat) : (zeros n).length = n := by simp [zeros]

/-- operand placement, destination disjoint: heap = `zeros n ++ xs`, `x` at word offset `n` -/
theorem initState_x_disjoint (args : List Arg) (xs : List Nat) (j : Nat) (hj : j < xs.length) :
    (initState args (zeros xs.length ++ xs)).mem.rd (heapBase + 8 * xs.length + 8 * j) = xs.getD j 0 := by
  rw [show heapBase + 8 * xs.length + 8 * j = heapBase + 8 * (xs.length + j) by omega,
    initState_heap _ _ _ (by rw [List.length_append, zeros_length]; omega), zeros_append_getD]

/-- operand placement, in place: heap = `xs`, `x = z` at word offset 0 -/
theorem initState_x_inplace (args : List Arg) (xs : List Nat) (j : Nat) (hj : j < xs.length) :
    (initState args xs).mem.rd (heapBase + 8 * 0 + 8 * j) = xs.getD j 0 := by
  rw [Nat.mul_zero, Nat.add_zero, initState_heap _ _ _ hj]

/-! ### length of the list-level results -/

theorem L0_add10VW_length (xs : List Nat) (y : Nat) (hxs : ∀ x, x ∈ xs → x < 10000000000000000000)
    (hy : y < 10000000000000000000) : (Decimal.L0.add10VW xs y).1.length = xs.length := by
  cases xs with
  | nil => rfl
  | cons x0 rest =>
    rw [add10VW_eq x0 rest y (hxs x0 (List.mem_cons_self ..)) (fun z hz => hxs z (List.mem_cons_of_mem _ hz)) hy]
    simp only [List.length_cons, addVW_length]

theorem L0_sub10VW_length (xs : List Nat) (y : Nat) (hxs : ∀ x, x ∈ xs → x < 10000000000000000000)
    (hy : y < 10000000000000000000) : (Decimal.L0.sub10VW xs y).1.length = xs.length := by
  rw [sub10VW_eq xs hxs y hy, subVW_length]

theorem L0_shl10VU_length (xs : List Nat) (sh : Nat) : (Decimal.L0.shl10VU xs sh).1.length = xs.length := by
  by_cases h : sh = 0
  · subst h; rfl
  · cases hrev : xs.reverse with
    | nil =>
      have : xs = [] := by simpa using hrev
      subst this; rw [shl10VU_nil]
    | cons top rest =>
      rw [shl10VU_pos xs sh top rest h hrev, shlLoop_length]
      have := congrArg List.length hrev
      rw [List.length_reverse, List.length_cons] at this
      exact this.symm

/-! ### the wrappers -/

/-- `add10VW(z, x, y)` through the Go-signature wrapper, `z` disjoint from `x`: the assembly computes
    the list-level kernel `L0.add10VW` (result vector and carry), for every length. -/
theorem asm_add10VW_eq (xs : List Nat) (y : Nat) (hxs : ∀ x, x ∈ xs → x < 10000000000000000000)
    (hy : y < 10000000000000000000) (hn : xs.length < 1000000000000000) :
    asm_add10VW xs y = some (Decimal.L0.add10VW xs y) := by
  unfold asm_add10VW
  simp only []
  have hh : heapBase = 16777216 := rfl
  obtain ⟨f0, f8, f24, f48, ft⟩ := initState_frame xs.length xs.length y (zeros xs.length ++ xs)
  obtain ⟨s', hrun, hfr, htrap, hz, -⟩ := add10VW_correct _ xs y _ _ f0 f8 f24 f48 hxs hy (by omega) (by omega)
    (by omega) (Or.inl (by omega)) (initState_x_disjoint _ xs)
  exact callKernel_vec _ _ _ _ _ _ (xs.length + 7) (by unfold fuelFor; rw [List.length_append, zeros_length]; omega)
    (by rw [List.length_append, zeros_length]; omega) (L0_add10VW_length xs y hxs hy) ⟨s', hrun, hfr, htrap, hz⟩

/-- the same in place (`z = x`) -/
theorem asm_add10VW_inplace_eq (xs : List Nat) (y : Nat) (hxs : ∀ x, x ∈ xs → x < 10000000000000000000)
    (hy : y < 10000000000000000000) (hn : xs.length < 1000000000000000) :
    asm_inplace .add10VW_entry xs [y] = some (Decimal.L0.add10VW xs y) := by
  unfold asm_inplace
  simp only []
  have hh : heapBase = 16777216 := rfl
  show vecResult xs.length (callKernel .add10VW_entry [.slice 0 xs.length, .slice 0 xs.length, .word y] 1 xs) = _
  obtain ⟨f0, f8, f24, f48, ft⟩ := initState_frame xs.length 0 y xs
  obtain ⟨s', hrun, hfr, htrap, hz, -⟩ := add10VW_correct _ xs y _ _ f0 f8 f24 f48 hxs hy (by omega) (by omega)
    (by omega) (Or.inl (Nat.le_refl _)) (initState_x_inplace _ xs)
  exact callKernel_vec _ _ _ _ _ _ (xs.length + 7) (by unfold fuelFor; omega)
    (Nat.le_refl _) (L0_add10VW_length xs y hxs hy) ⟨s', hrun, hfr, htrap, hz⟩

/-- `sub10VW(z, x, y)` through the Go-signature wrapper, `z` disjoint from `x` -/
theorem asm_sub10VW_eq (xs : List Nat) (y : Nat) (hxs : ∀ x, x ∈ xs → x < 10000000000000000000)
    (hy : y < 10000000000000000000) (hn : xs.length < 1000000000000000) :
    asm_sub10VW xs y = some (Decimal.L0.sub10VW xs y) := by
  unfold asm_sub10VW
  simp only []
  have hh : heapBase = 16777216 := rfl
  obtain ⟨f0, f8, f24, f48, ft⟩ := initState_frame xs.length xs.length y (zeros xs.length ++ xs)
  obtain ⟨s', hrun, hfr, htrap, hz, -⟩ := sub10VW_correct _ xs y _ _ f0 f8 f24 f48 hxs hy (by omega) (by omega)
    (by omega) (Or.inl (by omega)) (initState_x_disjoint _ xs)
  exact callKernel_vec _ _ _ _ _ _ (xs.length + 3) (by unfold fuelFor; rw [List.length_append, zeros_length]; omega)
    (by rw [List.length_append, zeros_length]; omega) (L0_sub10VW_length xs y hxs hy) ⟨s', hrun, hfr, htrap, hz⟩

theorem asm_sub10VW_inplace_eq (xs : List Nat) (y : Nat) (hxs : ∀ x, x ∈ xs → x < 10000000000000000000)
    (hy : y < 10000000000000000000) (hn : xs.length < 1000000000000000) :
    asm_inplace .sub10VW_entry xs [y] = some (Decimal.L0.sub10VW xs y) := by
  unfold asm_inplace
  simp only []
  have hh : heapBase = 16777216 := rfl
  show vecResult xs.length (callKernel .sub10VW_entry [.slice 0 xs.length, .slice 0 xs.length, .word y] 1 xs) = _
  obtain ⟨f0, f8, f24, f48, ft⟩ := initState_frame xs.length 0 y xs
  obtain ⟨s', hrun, hfr, htrap, hz, -⟩ := sub10VW_correct _ xs y _ _ f0 f8 f24 f48 hxs hy (by omega) (by omega)
    (by omega) (Or.inl (Nat.le_refl _)) (initState_x_inplace _ xs)
  exact callKernel_vec _ _ _ _ _ _ (xs.length + 3) (by unfold fuelFor; omega)
    (Nat.le_refl _) (L0_sub10VW_length xs y hxs hy) ⟨s', hrun, hfr, htrap, hz⟩

/-- `shl10VU(z, x, s)` through the Go-signature wrapper, `z` disjoint from `x`, every shift `0 … 18`,
    every 64-bit word -/
theorem asm_shl10VU_eq (xs : List Nat) (sh : Nat) (hsh : sh ≤ 18) (hn : xs.length < 1000000000000000) :
    asm_shl10VU xs sh = some (Decimal.L0.shl10VU xs sh) := by
  unfold asm_shl10VU
  simp only []
  have hh : heapBase = 16777216 := rfl
  have hb : tabBase = 65536 := rfl
  obtain ⟨f0, f8, f24, f48, ft⟩ := initState_frame xs.length xs.length sh (zeros xs.length ++ xs)
  obtain ⟨s', hrun, hfr, htrap, hz, -⟩ := shl10VU_correct _ xs sh _ _ f0 f8 f24 f48 hsh (initState_tab _ _)
    (by rw [initState_sym]; omega) (by omega) (by omega) (by omega) (Or.inr (by omega)) (initState_x_disjoint _ xs)
  exact callKernel_vec _ _ _ _ _ _ (xs.length + 8) (by unfold fuelFor; rw [List.length_append, zeros_length]; omega)
    (by rw [List.length_append, zeros_length]; omega) (L0_shl10VU_length xs sh) ⟨s', hrun, hfr, htrap, hz⟩

theorem asm_shl10VU_inplace_eq (xs : List Nat) (sh : Nat) (hsh : sh ≤ 18) (hn : xs.length < 1000000000000000) :
    asm_inplace .shl10VU_entry xs [sh] = some (Decimal.L0.shl10VU xs sh) := by
  unfold asm_inplace
  simp only []
  have hh : heapBase = 16777216 := rfl
  have hb : tabBase = 65536 := rfl
  show vecResult xs.length (callKernel .shl10VU_entry [.slice 0 xs.length, .slice 0 xs.length, .word sh] 1 xs) = _
  obtain ⟨f0, f8, f24, f48, ft⟩ := initState_frame xs.length 0 sh xs
  obtain ⟨s', hrun, hfr, htrap, hz, -⟩ := shl10VU_correct _ xs sh _ _ f0 f8 f24 f48 hsh (initState_tab _ _)
    (by rw [initState_sym]; omega) (by omega) (by omega) (by omega) (Or.inl (Nat.le_refl _)) (initState_x_inplace _ xs)
  exact callKernel_vec _ _ _ _ _ _ (xs.length + 8) (by unfold fuelFor; omega)
    (Nat.le_refl _) (L0_shl10VU_length xs sh) ⟨s', hrun, hfr, htrap, hz⟩

/-- `shr10VU(z, x, s)` through the Go-signature wrapper, `z` disjoint from `x`, every shift `0 … 18`,
    every 64-bit word -/
theorem asm_shr10VU_eq (xs : List Nat) (sh : Nat) (hsh : sh ≤ 18) (hn : xs.length < 1000000000000000) :
    asm_shr10VU xs sh = some (Decimal.L0.shr10VU xs sh) := by
  unfold asm_shr10VU
  simp only []
  have hh : heapBase = 16777216 := rfl
  have hb : tabBase = 65536 := rfl
  obtain ⟨f0, f8, f24, f48, ft⟩ := initState_frame xs.length xs.length sh (zeros xs.length ++ xs)
  obtain ⟨s', hrun, hfr, htrap, hz, -⟩ := shr10VU_correct _ xs sh _ _ f0 f8 f24 f48 hsh (initState_tab _ _)
    (by rw [initState_sym]; omega) (by omega) (by omega) (by omega) (Or.inl (by omega)) (initState_x_disjoint _ xs)
  exact callKernel_vec _ _ _ _ _ _ (xs.length + 8) (by unfold fuelFor; rw [List.length_append, zeros_length]; omega)
    (by rw [List.length_append, zeros_length]; omega) (shr10VU_length' xs sh) ⟨s', hrun, hfr, htrap, hz⟩

theorem asm_shr10VU_inplace_eq (xs : List Nat) (sh : Nat) (hsh : sh ≤ 18) (hn : xs.length < 1000000000000000) :
    asm_inplace .shr10VU_entry xs [sh] = some (Decimal.L0.shr10VU xs sh) := by
  unfold asm_inplace
  simp only []
  have hh : heapBase = 16777216 := rfl
  have hb : tabBase = 65536 := rfl
  show vecResult xs.length (callKernel .shr10VU_entry [.slice 0 xs.length, .slice 0 xs.length, .word sh] 1 xs) = _
  obtain ⟨f0, f8, f24, f48, ft⟩ := initState_frame xs.length 0 sh xs
  obtain ⟨s', hrun, hfr, htrap, hz, -⟩ := shr10VU_correct _ xs sh _ _ f0 f8 f24 f48 hsh (initState_tab _ _)
    (by rw [initState_sym]; omega) (by omega) (by omega) (by omega) (Or.inl (Nat.le_refl _)) (initState_x_inplace _ xs)
  exact callKernel_vec _ _ _ _ _ _ (xs.length + 8) (by unfold fuelFor; omega)
    (Nat.le_refl _) (shr10VU_length' xs sh) ⟨s', hrun, hfr, htrap, hz⟩

end Decimal.Asm
