/-
  C07, assembly side, Tier C (second part): shared infrastructure for the whole-routine theorems of
  add10VW, sub10VW, shl10VU, shr10VU and their tails decCpy / decCpyInv.

  * runner helpers (`run_le`, `run_step`, `run_done`);
  * two memory predicates, `Holds` (a vector is in memory) and `Wrote` (memory after writing a
    vector: the vector is there, every other cell is as before), with the lemmas that consume one
    store at a time (ascending: `Wrote.cons`, descending: `Wrote.snoc`);
  * the copy routines `decCpy` (ascending) and `decCpyInv` (descending), every length.
-/
import Proofs.AsmLoops

namespace Decimal.Asm

open Decimal.Gen (W W_eq)
open Decimal.Gen.Asm

/-! ### The runner -/

theorem run_le {f f' : Nat} {l : Lbl} {s s' : St} (h : run program f l s = some s') (hle : f ≤ f') :
    run program f' l s = some s' := by
  have e : f' = f + (f' - f) := by omega
  rw [e]
  exact run_mono f (f' - f) l s s' h

/-- one block that jumps to `l'`, then the rest -/
theorem run_step {f : Nat} {l l' : Lbl} {s s' : St} (hn : (program l s).2 = Next.goto l')
    (h : run program f l' (program l s).1 = some s') : run program (f + 1) l s = some s' := by
  rw [run_goto _ _ _ _ hn]; exact h

/-- a block that returns -/
theorem run_done {l : Lbl} {s : St} (hn : (program l s).2 = Next.ret) :
    run program 1 l s = some (program l s).1 := run_ret' 0 l s hn

/-! ### Vectors in memory -/

/-- the words `ws` are in memory at `p + 8*(i + j)` -/
def Holds (m : Mem) (p i : Nat) (ws : List Nat) : Prop :=
  ∀ j, j < ws.length → m.rd (p + 8 * (i + j)) = ws.getD j 0

/-- `m'` is `m` after writing `ws` at `p + 8*(i + j)`: the words are there, every other cell is unchanged -/
def Wrote (m m' : Mem) (p i : Nat) (ws : List Nat) : Prop :=
  Holds m' p i ws ∧ ∀ a, (∀ j, j < ws.length → a ≠ p + 8 * (i + j)) → m'.rd a = m.rd a

theorem Holds.nil (m : Mem) (p i : Nat) : Holds m p i [] := by
  intro j hj; simp only [List.length_nil] at hj; omega

theorem Holds.head {m : Mem} {p i x : Nat} {xs : List Nat} (h : Holds m p i (x :: xs)) :
    m.rd (p + 8 * i) = x := by
  have := h 0 (by simp only [List.length_cons]; omega)
  rw [Nat.add_zero] at this
  rw [this]; rfl

theorem Holds.tail {m : Mem} {p i x : Nat} {xs : List Nat} (h : Holds m p i (x :: xs)) :
    Holds m p (i + 1) xs := by
  intro j hj
  have := h (j + 1) (by simp only [List.length_cons]; omega)
  rw [show i + (j + 1) = i + 1 + j by omega] at this
  rw [this]; rfl

theorem Holds.cons {m : Mem} {p i x : Nat} {xs : List Nat} (h0 : m.rd (p + 8 * i) = x)
    (h : Holds m p (i + 1) xs) : Holds m p i (x :: xs) := by
  intro j hj
  cases j with
  | zero => rw [Nat.add_zero, h0]; rfl
  | succ j =>
    have := h j (by simp only [List.length_cons] at hj; omega)
    rw [show i + 1 + j = i + (j + 1) by omega] at this
    rw [this]; rfl

/-- a store outside the vector does not disturb it -/
theorem Holds.wr {m : Mem} {p i : Nat} {ws : List Nat} (h : Holds m p i ws) (a v : Nat)
    (ha : ∀ j, j < ws.length → p + 8 * (i + j) ≠ a) : Holds (m.wr a v) p i ws := by
  intro j hj
  rw [Mem.rd_wr_ne _ _ _ _ (ha j hj)]
  exact h j hj

theorem Holds.congr {m m' : Mem} {p i : Nat} {ws : List Nat} (h : Holds m p i ws)
    (he : ∀ j, j < ws.length → m'.rd (p + 8 * (i + j)) = m.rd (p + 8 * (i + j))) : Holds m' p i ws := by
  intro j hj
  rw [he j hj]; exact h j hj

theorem Wrote.nil (m : Mem) (p i : Nat) : Wrote m m p i [] :=
  ⟨Holds.nil m p i, fun _ _ => rfl⟩

/-- nothing is written, the vector is already there (in-place early exit) -/
theorem Wrote.of_holds {m : Mem} {p i : Nat} {ws : List Nat} (h : Holds m p i ws) : Wrote m m p i ws :=
  ⟨h, fun _ _ => rfl⟩

/-- ascending: a store at index `i`, then the rest from `i + 1` on -/
theorem Wrote.cons {m m' : Mem} {p i v : Nat} {ws : List Nat}
    (h : Wrote (m.wr (p + 8 * i) v) m' p (i + 1) ws) : Wrote m m' p i (v :: ws) := by
  obtain ⟨hz, ho⟩ := h
  refine ⟨?_, ?_⟩
  · apply Holds.cons _ hz
    rw [ho _ (by intro j _; omega), Mem.rd_wr_eq]
  · intro a ha
    rw [ho a (by
      intro j hj
      have := ha (j + 1) (by simp only [List.length_cons]; omega)
      rw [show i + (j + 1) = i + 1 + j by omega] at this
      exact this)]
    have h0 := ha 0 (by simp only [List.length_cons]; omega)
    rw [Nat.add_zero] at h0
    rw [Mem.rd_wr_ne _ _ _ _ h0]

theorem Wrote.mem_eq {m0 m m' : Mem} {p i : Nat} {ws : List Nat} (h : Wrote m m' p i ws) (e : m = m0) :
    Wrote m0 m' p i ws := by subst e; exact h

/-- descending (from index 0): a store at index `k = zs.length`, then the words below it -/
theorem Wrote.snoc {m m' : Mem} {p k v : Nat} {zs : List Nat} (hk : zs.length = k)
    (h : Wrote (m.wr (p + 8 * k) v) m' p 0 zs) : Wrote m m' p 0 (zs ++ [v]) := by
  obtain ⟨hz, ho⟩ := h
  refine ⟨?_, ?_⟩
  · intro j hj
    rw [List.length_append, List.length_singleton] at hj
    by_cases hjk : j < zs.length
    · rw [hz j hjk]
      simp only [List.getD_eq_getElem?_getD, List.getElem?_append_left hjk]
    · have hj' : j = k := by omega
      subst hj'
      rw [Nat.zero_add, ho _ (by intro t ht; omega), Mem.rd_wr_eq]
      simp only [List.getD_eq_getElem?_getD, ← hk, List.getElem?_concat_length, Option.getD_some]
  · intro a ha
    rw [ho a (by
      intro j hj
      exact ha j (by rw [List.length_append, List.length_singleton]; omega))]
    have h0 := ha k (by rw [List.length_append, List.length_singleton]; omega)
    rw [Nat.zero_add] at h0
    rw [Mem.rd_wr_ne _ _ _ _ h0]

/-- a most-significant-first list in memory: word `j` of `ws` is at index `ws.length - 1 - j` -/
def HoldsR (m : Mem) (p : Nat) (ws : List Nat) : Prop :=
  ∀ j, j < ws.length → m.rd (p + 8 * (ws.length - 1 - j)) = ws.getD j 0

theorem HoldsR.head {m : Mem} {p w : Nat} {ws : List Nat} (h : HoldsR m p (w :: ws)) :
    m.rd (p + 8 * ws.length) = w := by
  have := h 0 (by simp only [List.length_cons]; omega)
  rw [show (w :: ws).length - 1 - 0 = ws.length by simp only [List.length_cons]; omega] at this
  rw [this]; rfl

theorem HoldsR.tail {m : Mem} {p w : Nat} {ws : List Nat} (h : HoldsR m p (w :: ws)) : HoldsR m p ws := by
  intro j hj
  have := h (j + 1) (by simp only [List.length_cons]; omega)
  rw [show (w :: ws).length - 1 - (j + 1) = ws.length - 1 - j by simp only [List.length_cons]; omega] at this
  rw [this]; rfl

theorem HoldsR.wr {m : Mem} {p : Nat} {ws : List Nat} (h : HoldsR m p ws) (a v : Nat)
    (ha : ∀ j, j < ws.length → p + 8 * j ≠ a) : HoldsR (m.wr a v) p ws := by
  intro j hj
  rw [Mem.rd_wr_ne _ _ _ _ (ha _ (by omega))]
  exact h j hj

/-- little-endian vector in memory = its reversal, most significant first -/
theorem Holds.toR {m : Mem} {p : Nat} {xs : List Nat} (h : Holds m p 0 xs) : HoldsR m p xs.reverse := by
  intro j hj
  rw [List.length_reverse] at hj ⊢
  have := h (xs.length - 1 - j) (by omega)
  rw [Nat.zero_add] at this
  rw [this]
  simp only [List.getD_eq_getElem?_getD]
  rw [List.getElem?_reverse hj]

theorem HoldsR.toL {m : Mem} {p : Nat} {ws : List Nat} (h : HoldsR m p ws) : Holds m p 0 ws.reverse := by
  intro j hj
  rw [List.length_reverse] at hj
  have := h (ws.length - 1 - j) (by omega)
  rw [show ws.length - 1 - (ws.length - 1 - j) = j by omega] at this
  rw [Nat.zero_add, this]
  simp only [List.getD_eq_getElem?_getD]
  rw [List.getElem?_reverse hj]

end Decimal.Asm

namespace Decimal.Asm

open Decimal.Gen (W W_eq)
open Decimal.Gen.Asm

/-! ### decCpy: copy `DI` words from `R8[SI…]` to `R10[SI…]`, ascending -/

/-- registers and bounds shared by the copy loops and the `VW` loops -/
structure CpCtx (s : St) (zp xp n : Nat) : Prop where
  r8 : s.r8 = xp
  r10 : s.r10 = zp
  n60 : n < 1152921504606846976
  xw : xp + 8 * n ≤ 18446744073709551616
  zw : zp + 8 * n ≤ 18446744073709551616

theorem addr0 (b p i n : Nat) (hb : b = p) (hi : i < n) (hn : n < 1152921504606846976)
    (hw : p + 8 * n ≤ 18446744073709551616) : (b + 8 * i) % W = p + 8 * i := by
  subst hb; simp only [W_eq]; omega

theorem addrD (b p i n d t : Nat) (hd : d = 8 * t) (hb : b = p) (hi : i + t < n) (hn : n < 1152921504606846976)
    (hw : p + 8 * n ≤ 18446744073709551616) : (b + 8 * i + d) % W = p + 8 * (i + t) := by
  subst hb; subst hd; simp only [W_eq]; omega

/-- the single-word loop `CLoop` -/
theorem decCpy_CLoop_run (zp xp n : Nat) (hal : zp ≤ xp ∨ xp + 8 * n ≤ zp) :
    ∀ (xs : List Nat) (i : Nat) (s : St), xs ≠ [] → i + xs.length ≤ n → s.si = i → s.di = xs.length →
      CpCtx s zp xp n → Holds s.mem xp i xs →
      ∃ s', run program (xs.length + 1) Lbl.decCpy_CLoop s = some s' ∧ s'.frame = s.frame ∧
        s'.trap = s.trap ∧ Wrote s.mem s'.mem zp i xs := by
  intro xs
  induction xs with
  | nil => intro i s h; exact absurd rfl h
  | cons x rest ih =>
    intro i s _ hin hsi hdi ctx hx
    have hk : (x :: rest).length = rest.length + 1 := rfl
    rw [hk] at hin hdi
    obtain ⟨c8, c10, cn60, cxw, czw⟩ := ctx
    obtain ⟨bmem, bsi, bdi, b8, b10, bfr, btrap, bnext⟩ :=
      blk_decCpy_CLoop_spec s (by omega) (by omega) (by omega)
    rw [addr0 s.r10 zp s.si n c10 (by omega) cn60 czw, addr0 s.r8 xp s.si n c8 (by omega) cn60 cxw,
      hsi, hx.head] at bmem
    have hprog : program Lbl.decCpy_CLoop s = blk_decCpy_CLoop s := rfl
    cases rest with
    | nil =>
      have hnext : (program Lbl.decCpy_CLoop s).2 = Next.goto Lbl.decCpy_CE := by
        rw [hprog, bnext, if_neg (by simp only [List.length_nil] at hdi; omega)]
      refine ⟨(blk_decCpy_CLoop s).1, ?_, bfr, btrap, ?_⟩
      · exact run_step hnext (run_done (l := Lbl.decCpy_CE) rfl)
      · rw [bmem]; exact Wrote.cons (Wrote.nil _ _ _)
    | cons x2 r2 =>
      have hnext : (program Lbl.decCpy_CLoop s).2 = Next.goto Lbl.decCpy_CLoop := by
        rw [hprog, bnext, if_pos (by simp only [List.length_cons] at hdi; omega)]
      obtain ⟨s', hrun, hfr, htrap, hw⟩ := ih (i + 1) (blk_decCpy_CLoop s).1 (by intro h; cases h)
        (by omega) (by rw [bsi, hsi]) (by rw [bdi, hdi]; omega)
        ⟨by rw [b8, c8], by rw [b10, c10], cn60, cxw, czw⟩
        (by rw [bmem]; exact hx.tail.wr _ _ (by intro j hj; omega))
      refine ⟨s', ?_, by rw [hfr, bfr], by rw [htrap, btrap], ?_⟩
      · exact run_step hnext (by rw [hprog]; exact hrun)
      · rw [bmem] at hw; exact Wrote.cons hw

/-- from `CV` on: fewer than 4 words left -/
theorem decCpy_CV_run (zp xp n : Nat) (hal : zp ≤ xp ∨ xp + 8 * n ≤ zp)
    (xs : List Nat) (i : Nat) (s : St) (hm : xs.length < 4) (hin : i + xs.length ≤ n) (hsi : s.si = i)
    (hdi : s.di = 18446744073709551616 - 4 + xs.length) (ctx : CpCtx s zp xp n) (hx : Holds s.mem xp i xs) :
    ∃ s', run program (xs.length + 2) Lbl.decCpy_CV s = some s' ∧ s'.frame = s.frame ∧
      s'.trap = s.trap ∧ Wrote s.mem s'.mem zp i xs := by
  obtain ⟨vdi, vsi, v8, v10, vmem, vfr, vtrap, vnext⟩ := blk_decCpy_CV_spec s xs.length hm hdi
  have hprog : program Lbl.decCpy_CV s = blk_decCpy_CV s := rfl
  obtain ⟨c8, c10, cn60, cxw, czw⟩ := ctx
  cases xs with
  | nil =>
    have hnext : (program Lbl.decCpy_CV s).2 = Next.goto Lbl.decCpy_CE := by rw [hprog, vnext]; rfl
    refine ⟨(blk_decCpy_CV s).1, run_step hnext (run_done (l := Lbl.decCpy_CE) rfl), vfr, vtrap, ?_⟩
    rw [vmem]; exact Wrote.nil _ _ _
  | cons x rest =>
    have hnext : (program Lbl.decCpy_CV s).2 = Next.goto Lbl.decCpy_CLoop := by
      rw [hprog, vnext, if_neg (by simp only [List.length_cons]; omega)]
    obtain ⟨s', hrun, hfr, htrap, hw⟩ := decCpy_CLoop_run zp xp n hal (x :: rest) i (blk_decCpy_CV s).1
      (by intro h; cases h) hin (by rw [vsi, hsi]) vdi ⟨by rw [v8, c8], by rw [v10, c10], cn60, cxw, czw⟩
      (by rw [vmem]; exact hx)
    refine ⟨s', run_step hnext (by rw [hprog]; exact hrun), by rw [hfr, vfr], by rw [htrap, vtrap], ?_⟩
    rw [vmem] at hw; exact hw

/-- the 4×-unrolled loop `CU` (at least 4 words left), then the tail -/
theorem decCpy_CU_run (zp xp n : Nat) (hal : zp ≤ xp ∨ xp + 8 * n ≤ zp) :
    ∀ (k : Nat) (xs : List Nat) (i : Nat) (s : St), xs.length = k → 4 ≤ k → i + k ≤ n → s.si = i →
      s.di = k - 4 → CpCtx s zp xp n → Holds s.mem xp i xs →
      ∃ s', run program (k + 2) Lbl.decCpy_CU s = some s' ∧ s'.frame = s.frame ∧
        s'.trap = s.trap ∧ Wrote s.mem s'.mem zp i xs := by
  intro k
  induction k using Nat.strongRecOn with
  | _ k ih =>
    intro xs i s hk h4 hin hsi hdi ctx hx
    obtain ⟨x0, x1, x2, x3, rest, rfl⟩ := list_four xs (by omega)
    have hkk : rest.length + 4 = k := by rw [← hk]; rfl
    obtain ⟨c8, c10, cn60, cxw, czw⟩ := ctx
    obtain ⟨bmem, bsi, bdi, b8, b10, bfr, btrap, bnext⟩ := blk_decCpy_CU_spec s (by omega) (by omega)
    have hx1 := hx.tail
    have hx2 := hx1.tail
    have hx3 := hx2.tail
    have hx4 := hx3.tail
    rw [addr0 s.r10 zp s.si n c10 (by omega) cn60 czw, addr0 s.r8 xp s.si n c8 (by omega) cn60 cxw,
      addrD s.r10 zp s.si n 8 1 rfl c10 (by omega) cn60 czw, addrD s.r8 xp s.si n 8 1 rfl c8 (by omega) cn60 cxw,
      addrD s.r10 zp s.si n 16 (1 + 1) rfl c10 (by omega) cn60 czw,
      addrD s.r8 xp s.si n 16 (1 + 1) rfl c8 (by omega) cn60 cxw,
      addrD s.r10 zp s.si n 24 (1 + 1 + 1) rfl c10 (by omega) cn60 czw,
      addrD s.r8 xp s.si n 24 (1 + 1 + 1) rfl c8 (by omega) cn60 cxw,
      hsi, ← Nat.add_assoc, ← Nat.add_assoc, ← Nat.add_assoc, hx.head, hx1.head, hx2.head, hx3.head] at bmem
    have hprog : program Lbl.decCpy_CU s = blk_decCpy_CU s := rfl
    have hrest : Holds (blk_decCpy_CU s).1.mem xp (i + 1 + 1 + 1 + 1) rest := by
      rw [bmem]
      exact (((hx4.wr _ _ (by intro j hj; omega)).wr _ _ (by intro j hj; omega)).wr _ _
        (by intro j hj; omega)).wr _ _ (by intro j hj; omega)
    have hctx' : CpCtx (blk_decCpy_CU s).1 zp xp n := ⟨by rw [b8, c8], by rw [b10, c10], cn60, cxw, czw⟩
    have hcont : ∃ s', run program (rest.length + 2)
          (if 4 ≤ rest.length then Lbl.decCpy_CU else Lbl.decCpy_CV) (blk_decCpy_CU s).1 = some s' ∧
        s'.frame = (blk_decCpy_CU s).1.frame ∧ s'.trap = (blk_decCpy_CU s).1.trap ∧
        Wrote (blk_decCpy_CU s).1.mem s'.mem zp (i + 1 + 1 + 1 + 1) rest := by
      by_cases h4' : 4 ≤ rest.length
      · rw [if_pos h4']
        exact ih rest.length (by omega) rest _ _ rfl h4' (by omega) (by rw [bsi, hsi])
          (by rw [bdi, hdi, if_pos (by omega)]; omega) hctx' hrest
      · rw [if_neg h4']
        exact decCpy_CV_run zp xp n hal rest _ _ (by omega) (by omega) (by rw [bsi, hsi])
          (by rw [bdi, hdi, if_neg (by omega)]; omega) hctx' hrest
    obtain ⟨s', hrun, hfr, htrap, hw⟩ := hcont
    have hnext : (program Lbl.decCpy_CU s).2 =
        Next.goto (if 4 ≤ rest.length then Lbl.decCpy_CU else Lbl.decCpy_CV) := by
      rw [hprog, bnext, hdi]
      by_cases h4' : 4 ≤ rest.length
      · rw [if_pos (by omega), if_pos h4']
      · rw [if_neg (by omega), if_neg h4']
    refine ⟨s', ?_, by rw [hfr, bfr], by rw [htrap, btrap], ?_⟩
    · exact run_le (run_step hnext (by rw [hprog]; exact hrun)) (by omega)
    · rw [bmem] at hw
      exact Wrote.cons (Wrote.cons (Wrote.cons (Wrote.cons hw)))

/-- **`decCpy`, every length**: `DI = xs.length` words from `x[i…]` to `z[i…]`; `z` not above `x`
    (in particular `z = x`) or beyond its end. -/
theorem decCpy_run (zp xp n : Nat) (hal : zp ≤ xp ∨ xp + 8 * n ≤ zp)
    (xs : List Nat) (i : Nat) (s : St) (hin : i + xs.length ≤ n) (hsi : s.si = i) (hdi : s.di = xs.length)
    (ctx : CpCtx s zp xp n) (hx : Holds s.mem xp i xs) :
    ∃ s', run program (xs.length + 3) Lbl.decCpy_entry s = some s' ∧ s'.frame = s.frame ∧
      s'.trap = s.trap ∧ Wrote s.mem s'.mem zp i xs := by
  have cn60 := ctx.n60
  obtain ⟨edi, esi, e8, e10, emem, efr, etrap, enext⟩ := blk_decCpy_entry_spec s (by omega)
  have hprog : program Lbl.decCpy_entry s = blk_decCpy_entry s := rfl
  have hctx' : CpCtx (blk_decCpy_entry s).1 zp xp n :=
    ⟨by rw [e8, ctx.r8], by rw [e10, ctx.r10], ctx.n60, ctx.xw, ctx.zw⟩
  by_cases h4 : xs.length < 4
  · have hnext : (program Lbl.decCpy_entry s).2 = Next.goto Lbl.decCpy_CV := by
      rw [hprog, enext, hdi, if_pos h4]
    obtain ⟨s', hrun, hfr, htrap, hw⟩ := decCpy_CV_run zp xp n hal xs i (blk_decCpy_entry s).1 h4 hin
      (by rw [esi, hsi]) (by rw [edi, hdi, if_pos h4]) hctx' (by rw [emem]; exact hx)
    refine ⟨s', run_step hnext (by rw [hprog]; exact hrun), by rw [hfr, efr], by rw [htrap, etrap], ?_⟩
    rw [emem] at hw; exact hw
  · have hnext : (program Lbl.decCpy_entry s).2 = Next.goto Lbl.decCpy_CU := by
      rw [hprog, enext, hdi, if_neg h4]
    obtain ⟨s', hrun, hfr, htrap, hw⟩ := decCpy_CU_run zp xp n hal xs.length xs i (blk_decCpy_entry s).1 rfl
      (by omega) hin (by rw [esi, hsi]) (by rw [edi, hdi, if_neg h4]) hctx' (by rw [emem]; exact hx)
    refine ⟨s', run_step hnext (by rw [hprog]; exact hrun), by rw [hfr, efr], by rw [htrap, etrap], ?_⟩
    rw [emem] at hw; exact hw

end Decimal.Asm

namespace Decimal.Asm

open Decimal.Gen (W W_eq)
open Decimal.Gen.Asm

/-- descending: the upper words `hi` are written first, then the words `zs` below them -/
theorem Wrote.below {m m1 m' : Mem} {p i : Nat} {zs hi : List Nat}
    (h1 : Wrote m m1 p (i + zs.length) hi) (h2 : Wrote m1 m' p i zs) : Wrote m m' p i (zs ++ hi) := by
  obtain ⟨hz1, ho1⟩ := h1
  obtain ⟨hz2, ho2⟩ := h2
  refine ⟨?_, ?_⟩
  · intro j hj
    rw [List.length_append] at hj
    by_cases hjk : j < zs.length
    · rw [hz2 j hjk]
      simp only [List.getD_eq_getElem?_getD, List.getElem?_append_left hjk]
    · have e : j = zs.length + (j - zs.length) := by omega
      rw [ho2 _ (by intro t ht; omega)]
      have := hz1 (j - zs.length) (by omega)
      rw [show i + zs.length + (j - zs.length) = i + j by omega] at this
      rw [this]
      simp only [List.getD_eq_getElem?_getD]
      rw [List.getElem?_append_right (by omega)]
  · intro a ha
    rw [ho2 a (by intro j hj; exact ha j (by rw [List.length_append]; omega)),
      ho1 a (by
        intro j hj
        have := ha (zs.length + j) (by rw [List.length_append]; omega)
        rw [show i + (zs.length + j) = i + zs.length + j by omega] at this
        exact this)]

/-! ### decCpyInv: copy `SI` words from `R8` to `R10`, from high to low addresses -/

/-- the single-word loop `CLoop`; `ws` are the words still to be copied, most significant first -/
theorem decCpyInv_CLoop_run (zp xp n : Nat) (hal : xp ≤ zp ∨ zp + 8 * n ≤ xp) :
    ∀ (ws : List Nat) (s : St), ws ≠ [] → ws.length ≤ n → s.si = ws.length - 1 →
      CpCtx s zp xp n → HoldsR s.mem xp ws →
      ∃ s', run program (ws.length + 1) Lbl.decCpyInv_CLoop s = some s' ∧ s'.frame = s.frame ∧
        s'.trap = s.trap ∧ Wrote s.mem s'.mem zp 0 ws.reverse := by
  intro ws
  induction ws with
  | nil => intro s h; exact absurd rfl h
  | cons w rest ih =>
    intro s _ hin hsi ctx hx
    have hk : (w :: rest).length = rest.length + 1 := rfl
    rw [hk] at hin hsi
    have hsi' : s.si = rest.length := by omega
    obtain ⟨c8, c10, cn60, cxw, czw⟩ := ctx
    obtain ⟨bmem, bsi, b8, b10, bfr, btrap, bnext⟩ := blk_decCpyInv_CLoop_spec s (by omega)
    rw [addr0 s.r10 zp s.si n c10 (by omega) cn60 czw, addr0 s.r8 xp s.si n c8 (by omega) cn60 cxw,
      hsi', hx.head] at bmem
    have hprog : program Lbl.decCpyInv_CLoop s = blk_decCpyInv_CLoop s := rfl
    have hw1 : Wrote s.mem (blk_decCpyInv_CLoop s).1.mem zp (0 + rest.reverse.length) [w] := by
      rw [bmem, List.length_reverse, Nat.zero_add]; exact Wrote.cons (Wrote.nil _ _ _)
    rw [List.reverse_cons]
    cases rest with
    | nil =>
      have hnext : (program Lbl.decCpyInv_CLoop s).2 = Next.goto Lbl.decCpyInv_CE := by
        rw [hprog, bnext, if_neg (by simp only [List.length_nil] at hsi'; omega)]
      refine ⟨(blk_decCpyInv_CLoop s).1, ?_, bfr, btrap, ?_⟩
      · exact run_step hnext (run_done (l := Lbl.decCpyInv_CE) rfl)
      · exact Wrote.below hw1 (Wrote.nil _ _ _)
    | cons x2 r2 =>
      have hnext : (program Lbl.decCpyInv_CLoop s).2 = Next.goto Lbl.decCpyInv_CLoop := by
        rw [hprog, bnext, if_pos (by simp only [List.length_cons] at hsi'; omega)]
      obtain ⟨s', hrun, hfr, htrap, hw⟩ := ih (blk_decCpyInv_CLoop s).1 (by intro h; cases h)
        (by omega) (by rw [bsi, hsi', if_pos (by simp only [List.length_cons]; omega)])
        ⟨by rw [b8, c8], by rw [b10, c10], cn60, cxw, czw⟩
        (by rw [bmem]; exact hx.tail.wr _ _ (by intro j hj; omega))
      refine ⟨s', ?_, by rw [hfr, bfr], by rw [htrap, btrap], ?_⟩
      · exact run_step hnext (by rw [hprog]; exact hrun)
      · exact Wrote.below hw1 hw

/-- from `CV` on: fewer than 4 words left -/
theorem decCpyInv_CV_run (zp xp n : Nat) (hal : xp ≤ zp ∨ zp + 8 * n ≤ xp)
    (ws : List Nat) (s : St) (hm : ws.length < 4) (hin : ws.length ≤ n)
    (hsi : s.si = 18446744073709551616 - 4 + ws.length) (ctx : CpCtx s zp xp n) (hx : HoldsR s.mem xp ws) :
    ∃ s', run program (ws.length + 2) Lbl.decCpyInv_CV s = some s' ∧ s'.frame = s.frame ∧
      s'.trap = s.trap ∧ Wrote s.mem s'.mem zp 0 ws.reverse := by
  obtain ⟨vsi, v8, v10, vmem, vfr, vtrap, vnext⟩ := blk_decCpyInv_CV_spec s ws.length hm hsi
  have hprog : program Lbl.decCpyInv_CV s = blk_decCpyInv_CV s := rfl
  obtain ⟨c8, c10, cn60, cxw, czw⟩ := ctx
  cases ws with
  | nil =>
    have hnext : (program Lbl.decCpyInv_CV s).2 = Next.goto Lbl.decCpyInv_CE := by rw [hprog, vnext]; rfl
    refine ⟨(blk_decCpyInv_CV s).1, run_step hnext (run_done (l := Lbl.decCpyInv_CE) rfl), vfr, vtrap, ?_⟩
    rw [vmem]; exact Wrote.nil _ _ _
  | cons w rest =>
    have hnext : (program Lbl.decCpyInv_CV s).2 = Next.goto Lbl.decCpyInv_CLoop := by
      rw [hprog, vnext, if_neg (by simp only [List.length_cons]; omega)]
    obtain ⟨s', hrun, hfr, htrap, hw⟩ := decCpyInv_CLoop_run zp xp n hal (w :: rest) (blk_decCpyInv_CV s).1
      (by intro h; cases h) hin (by rw [vsi, if_neg (by simp only [List.length_cons]; omega)])
      ⟨by rw [v8, c8], by rw [v10, c10], cn60, cxw, czw⟩ (by rw [vmem]; exact hx)
    refine ⟨s', run_step hnext (by rw [hprog]; exact hrun), by rw [hfr, vfr], by rw [htrap, vtrap], ?_⟩
    rw [vmem] at hw; exact hw

/-- the 4×-unrolled loop `CU` (at least 4 words left), then the tail -/
theorem decCpyInv_CU_run (zp xp n : Nat) (hal : xp ≤ zp ∨ zp + 8 * n ≤ xp) :
    ∀ (k : Nat) (ws : List Nat) (s : St), ws.length = k → 4 ≤ k → k ≤ n → s.si = k - 4 →
      CpCtx s zp xp n → HoldsR s.mem xp ws →
      ∃ s', run program (k + 2) Lbl.decCpyInv_CU s = some s' ∧ s'.frame = s.frame ∧
        s'.trap = s.trap ∧ Wrote s.mem s'.mem zp 0 ws.reverse := by
  intro k
  induction k using Nat.strongRecOn with
  | _ k ih =>
    intro ws s hk h4 hin hsi ctx hx
    obtain ⟨w0, w1, w2, w3, rest, rfl⟩ := list_four ws (by omega)
    have hkk : rest.length + 4 = k := by rw [← hk]; rfl
    have hsi' : s.si = rest.length := by omega
    obtain ⟨c8, c10, cn60, cxw, czw⟩ := ctx
    obtain ⟨bmem, bsi, b8, b10, bfr, btrap, bnext⟩ := blk_decCpyInv_CU_spec s (by omega)
    have hx1 := hx.tail
    have hx2 := hx1.tail
    have hx3 := hx2.tail
    have hx4 := hx3.tail
    have e0 := hx.head
    have e1 := hx1.head
    have e2 := hx2.head
    have e3 := hx3.head
    simp only [List.length_cons] at e0 e1 e2
    rw [addr0 s.r10 zp s.si n c10 (by omega) cn60 czw, addr0 s.r8 xp s.si n c8 (by omega) cn60 cxw,
      addrD s.r10 zp s.si n 8 1 rfl c10 (by omega) cn60 czw, addrD s.r8 xp s.si n 8 1 rfl c8 (by omega) cn60 cxw,
      addrD s.r10 zp s.si n 16 (1 + 1) rfl c10 (by omega) cn60 czw,
      addrD s.r8 xp s.si n 16 (1 + 1) rfl c8 (by omega) cn60 cxw,
      addrD s.r10 zp s.si n 24 (1 + 1 + 1) rfl c10 (by omega) cn60 czw,
      addrD s.r8 xp s.si n 24 (1 + 1 + 1) rfl c8 (by omega) cn60 cxw,
      hsi', ← Nat.add_assoc, ← Nat.add_assoc, ← Nat.add_assoc, e0, e1, e2, e3] at bmem
    have hprog : program Lbl.decCpyInv_CU s = blk_decCpyInv_CU s := rfl
    have hrest : HoldsR (blk_decCpyInv_CU s).1.mem xp rest := by
      rw [bmem]
      exact (((hx4.wr _ _ (by intro j hj; omega)).wr _ _ (by intro j hj; omega)).wr _ _
        (by intro j hj; omega)).wr _ _ (by intro j hj; omega)
    have hctx' : CpCtx (blk_decCpyInv_CU s).1 zp xp n := ⟨by rw [b8, c8], by rw [b10, c10], cn60, cxw, czw⟩
    have hcont : ∃ s', run program (rest.length + 2)
          (if 4 ≤ rest.length then Lbl.decCpyInv_CU else Lbl.decCpyInv_CV) (blk_decCpyInv_CU s).1 = some s' ∧
        s'.frame = (blk_decCpyInv_CU s).1.frame ∧ s'.trap = (blk_decCpyInv_CU s).1.trap ∧
        Wrote (blk_decCpyInv_CU s).1.mem s'.mem zp 0 rest.reverse := by
      by_cases h4' : 4 ≤ rest.length
      · rw [if_pos h4']
        exact ih rest.length (by omega) rest _ rfl h4' (by omega)
          (by rw [bsi, hsi', if_pos h4']) hctx' hrest
      · rw [if_neg h4']
        exact decCpyInv_CV_run zp xp n hal rest _ (by omega) (by omega)
          (by rw [bsi, hsi', if_neg h4']) hctx' hrest
    obtain ⟨s', hrun, hfr, htrap, hw⟩ := hcont
    have hnext : (program Lbl.decCpyInv_CU s).2 =
        Next.goto (if 4 ≤ rest.length then Lbl.decCpyInv_CU else Lbl.decCpyInv_CV) := by
      rw [hprog, bnext, hsi']
      split <;> rfl
    have hw1 : Wrote s.mem (blk_decCpyInv_CU s).1.mem zp (0 + rest.reverse.length) [w3, w2, w1, w0] := by
      rw [bmem, List.length_reverse, Nat.zero_add]
      exact Wrote.cons (Wrote.cons (Wrote.cons (Wrote.cons (Wrote.nil _ _ _))))
    have hrev : (w0 :: w1 :: w2 :: w3 :: rest).reverse = rest.reverse ++ [w3, w2, w1, w0] := by
      simp only [List.reverse_cons, List.append_assoc, List.cons_append, List.nil_append]
    refine ⟨s', ?_, by rw [hfr, bfr], by rw [htrap, btrap], ?_⟩
    · exact run_le (run_step hnext (by rw [hprog]; exact hrun)) (by omega)
    · rw [hrev]; exact Wrote.below hw1 hw

/-- **`decCpyInv`, every length**: `SI = ws.length` words from `x[0…]` to `z[0…]`, highest first
    (`ws` lists them in that order); `z` not below `x` (in particular `z = x`) or entirely before it. -/
theorem decCpyInv_run (zp xp n : Nat) (hal : xp ≤ zp ∨ zp + 8 * n ≤ xp)
    (ws : List Nat) (s : St) (hin : ws.length ≤ n) (hsi : s.si = ws.length)
    (ctx : CpCtx s zp xp n) (hx : HoldsR s.mem xp ws) :
    ∃ s', run program (ws.length + 3) Lbl.decCpyInv_entry s = some s' ∧ s'.frame = s.frame ∧
      s'.trap = s.trap ∧ Wrote s.mem s'.mem zp 0 ws.reverse := by
  have cn60 := ctx.n60
  obtain ⟨esi, e8, e10, emem, efr, etrap, enext⟩ := blk_decCpyInv_entry_spec s (by omega)
  have hprog : program Lbl.decCpyInv_entry s = blk_decCpyInv_entry s := rfl
  have hctx' : CpCtx (blk_decCpyInv_entry s).1 zp xp n :=
    ⟨by rw [e8, ctx.r8], by rw [e10, ctx.r10], ctx.n60, ctx.xw, ctx.zw⟩
  by_cases h4 : ws.length < 4
  · have hnext : (program Lbl.decCpyInv_entry s).2 = Next.goto Lbl.decCpyInv_CV := by
      rw [hprog, enext, hsi, if_pos h4]
    obtain ⟨s', hrun, hfr, htrap, hw⟩ := decCpyInv_CV_run zp xp n hal ws (blk_decCpyInv_entry s).1 h4 hin
      (by rw [esi, hsi, if_pos h4]) hctx' (by rw [emem]; exact hx)
    refine ⟨s', run_step hnext (by rw [hprog]; exact hrun), by rw [hfr, efr], by rw [htrap, etrap], ?_⟩
    rw [emem] at hw; exact hw
  · have hnext : (program Lbl.decCpyInv_entry s).2 = Next.goto Lbl.decCpyInv_CU := by
      rw [hprog, enext, hsi, if_neg h4]
    obtain ⟨s', hrun, hfr, htrap, hw⟩ := decCpyInv_CU_run zp xp n hal ws.length ws (blk_decCpyInv_entry s).1 rfl
      (by omega) hin (by rw [esi, hsi, if_neg h4]) hctx' (by rw [emem]; exact hx)
    refine ⟨s', run_step hnext (by rw [hprog]; exact hrun), by rw [hfr, efr], by rw [htrap, etrap], ?_⟩
    rw [emem] at hw; exact hw

end Decimal.Asm

namespace Decimal.Asm

/-- the explicit form used in the statements of the whole-routine theorems -/
theorem Wrote.explicit {m m' : Mem} {p n : Nat} {ws : List Nat} (h : Wrote m m' p 0 ws) (hl : ws.length = n) :
    (∀ j, j < n → m'.rd (p + 8 * j) = ws.getD j 0) ∧
    (∀ a, (∀ j, j < n → a ≠ p + 8 * j) → m'.rd a = m.rd a) := by
  subst hl
  obtain ⟨hz, ho⟩ := h
  refine ⟨?_, ?_⟩
  · intro j hj
    have := hz j hj
    rw [Nat.zero_add] at this
    exact this
  · intro a ha
    exact ho a (by intro j hj; rw [Nat.zero_add]; exact ha j hj)

theorem Holds.of_explicit {m : Mem} {p : Nat} {ws : List Nat}
    (h : ∀ j, j < ws.length → m.rd (p + 8 * j) = ws.getD j 0) : Holds m p 0 ws := by
  intro j hj
  rw [Nat.zero_add]; exact h j hj

end Decimal.Asm
