/-
  Sanity of the binary specification `DecimalModel/Spec/Binary.lean`:
  `floorLog2` brackets its argument between consecutive powers of two, and `nearestBin`
  returns the nearest point of the format's grid (ties to even), with the sign of the error in
  `acc`, the identity on representable values, and the overflow flag exactly from the IEEE
  threshold `2^emax − 2^(emax−p)/2` on.

  Everything is stated over `ℚ` with integer powers `(2:ℚ)^e`; `pow2Rat e = 2^e`
  (`pow2Rat_eq_zpow`) links it to the executable definitions.
-/
import Proofs.RoundProps
import DecimalModel.Spec.Binary

namespace Decimal
open Spec

/-! ### Powers of two -/

theorem pow2Rat_eq_zpow (e : Int) : pow2Rat e = (2 : ℚ) ^ e := by
  unfold pow2Rat
  split
  · rename_i h
    obtain ⟨n, rfl⟩ := Int.eq_ofNat_of_zero_le h
    simp
  · rename_i h
    obtain ⟨n, hn⟩ := Int.eq_ofNat_of_zero_le (show 0 ≤ -e by omega)
    have : e = -(n : Int) := by omega
    subst this
    simp

theorem two_zpow_pos (e : Int) : (0 : ℚ) < (2 : ℚ) ^ e := zpow_pos (by norm_num) e

theorem two_zpow_succ (e : Int) : (2 : ℚ) ^ (e + 1) = 2 * (2 : ℚ) ^ e := by
  rw [zpow_add₀ (by norm_num : (2 : ℚ) ≠ 0), zpow_one, mul_comm]

theorem two_zpow_le {a b : Int} (h : a ≤ b) : (2 : ℚ) ^ a ≤ (2 : ℚ) ^ b :=
  zpow_le_zpow_right₀ (by norm_num) h

theorem two_zpow_lt {a b : Int} (h : a < b) : (2 : ℚ) ^ a < (2 : ℚ) ^ b :=
  zpow_lt_zpow_right₀ (by norm_num) h

/-- `2^a · 2^(b − a) = 2^b`. -/
theorem two_zpow_split (a b : Int) : (2 : ℚ) ^ a * (2 : ℚ) ^ (b - a) = (2 : ℚ) ^ b := by
  rw [← zpow_add₀ (by norm_num : (2 : ℚ) ≠ 0)]
  congr 1; ring

theorem log2_cast_bounds {a : Nat} (ha : 0 < a) :
    (2 : ℚ) ^ Nat.log2 a ≤ (a : ℚ) ∧ (a : ℚ) < (2 : ℚ) ^ (Nat.log2 a + 1) := by
  constructor
  · exact_mod_cast Nat.log2_self_le (by omega : a ≠ 0)
  · exact_mod_cast (Nat.lt_log2_self : a < 2 ^ (a.log2 + 1))

/-! ### `floorLog2` -/

/-- `2^⌊log2 q⌋ ≤ q < 2^(⌊log2 q⌋+1)`. -/
theorem floorLog2_bounds {q : ℚ} (hq : 0 < q) :
    (2 : ℚ) ^ floorLog2 q ≤ q ∧ q < (2 : ℚ) ^ (floorLog2 q + 1) := by
  have hnum : 0 < q.num := Rat.num_pos.mpr hq
  have hden : 0 < q.den := q.den_pos
  obtain ⟨a, ha⟩ := Int.eq_ofNat_of_zero_le (le_of_lt hnum)
  have hapos : 0 < a := by omega
  have hqa : q = (a : ℚ) / (q.den : ℚ) := by
    have := Rat.num_div_den q
    rw [ha, Int.cast_natCast] at this
    exact this.symm
  have hna : q.num.natAbs = a := by omega
  obtain ⟨ha1, ha2⟩ := log2_cast_bounds hapos
  obtain ⟨hb1, hb2⟩ := log2_cast_bounds hden
  unfold floorLog2
  simp only [hna, pow2Rat_eq_zpow]
  generalize q.den = b at *
  have hbpos : (0 : ℚ) < b := by exact_mod_cast hden
  have h2 : (2 : ℚ) ≠ 0 := by norm_num
  have hlow : (2 : ℚ) ^ ((Nat.log2 a : Int) - Nat.log2 b - 1) < q := by
    have : ((Nat.log2 a : Int) - Nat.log2 b - 1) = ((Nat.log2 a : Nat) : Int) - ((Nat.log2 b + 1 : Nat) : Int) := by
      push_cast; ring
    rw [this, zpow_sub₀ h2, zpow_natCast, zpow_natCast, hqa, div_lt_div_iff₀ (by positivity) hbpos]
    calc (2 : ℚ) ^ Nat.log2 a * b < 2 ^ Nat.log2 a * 2 ^ (Nat.log2 b + 1) :=
          mul_lt_mul_of_pos_left hb2 (by positivity)
      _ ≤ a * 2 ^ (Nat.log2 b + 1) := mul_le_mul_of_nonneg_right ha1 (by positivity)
  have hhigh : q < (2 : ℚ) ^ ((Nat.log2 a : Int) - Nat.log2 b + 1) := by
    have : ((Nat.log2 a : Int) - Nat.log2 b + 1) = ((Nat.log2 a + 1 : Nat) : Int) - ((Nat.log2 b : Nat) : Int) := by
      push_cast; ring
    rw [this, zpow_sub₀ h2, zpow_natCast, zpow_natCast, hqa, div_lt_div_iff₀ hbpos (by positivity)]
    calc (a : ℚ) * 2 ^ Nat.log2 b < 2 ^ (Nat.log2 a + 1) * 2 ^ Nat.log2 b :=
          mul_lt_mul_of_pos_right ha2 (by positivity)
      _ ≤ 2 ^ (Nat.log2 a + 1) * b := mul_le_mul_of_nonneg_left hb1 (by positivity)
  split
  · rename_i h
    rw [sub_add_cancel]
    exact ⟨le_of_lt hlow, h⟩
  · rename_i h
    exact ⟨not_lt.mp h, hhigh⟩

/-- The statement in the specification's own vocabulary. -/
theorem floorLog2_spec {q : ℚ} (hq : 0 < q) :
    pow2Rat (floorLog2 q) ≤ q ∧ q < pow2Rat (floorLog2 q + 1) := by
  rw [pow2Rat_eq_zpow, pow2Rat_eq_zpow]
  exact floorLog2_bounds hq

theorem floorLog2_unique {q : ℚ} (hq : 0 < q) (e : Int)
    (h1 : (2 : ℚ) ^ e ≤ q) (h2 : q < (2 : ℚ) ^ (e + 1)) : floorLog2 q = e := by
  obtain ⟨b1, b2⟩ := floorLog2_bounds hq
  have h : (1 : ℚ) < 2 := by norm_num
  have c1 := (zpow_lt_zpow_iff_right₀ h).mp (lt_of_le_of_lt h1 b2)
  have c2 := (zpow_lt_zpow_iff_right₀ h).mp (lt_of_le_of_lt b1 h2)
  omega

/-! ### `nearestBin`: the pieces -/

/-- The unit exponent `u` chosen by `nearestBin`: `p` bits below `2^(⌊log2 q⌋+1)`, but not below
    the subnormal unit `2^(emin−(p−1))`. -/
def binUnit (p : Nat) (emin : Int) (q : ℚ) : Int :=
  if floorLog2 q < emin then emin - (p - 1 : Nat) else floorLog2 q - (p - 1 : Nat)

/-- Round-half-even increment decision. -/
def binUp (lo : Nat) (frac : ℚ) : Bool :=
  decide (frac > 1/2) || (decide (frac = 1/2) && lo % 2 == 1)

/-- `q` in units of `2^u`. -/
def binScaled (p : Nat) (emin : Int) (q : ℚ) : ℚ := q / pow2Rat (binUnit p emin q)

def binLo (p : Nat) (emin : Int) (q : ℚ) : Nat := (binScaled p emin q).floor.toNat

def binFrac (p : Nat) (emin : Int) (q : ℚ) : ℚ := binScaled p emin q - (binLo p emin q : ℚ)

/-- The number of units of the nearest grid point (before the overflow test). -/
def binUnits (p : Nat) (emin : Int) (q : ℚ) : Nat :=
  if binUp (binLo p emin q) (binFrac p emin q) then binLo p emin q + 1 else binLo p emin q

def binAcc (p : Nat) (emin : Int) (q : ℚ) : Int :=
  if binFrac p emin q == 0 then 0 else if binUp (binLo p emin q) (binFrac p emin q) then 1 else -1

/-- The rounded value before the overflow test. -/
def binValue (p : Nat) (emin : Int) (q : ℚ) : ℚ :=
  (binUnits p emin q : ℚ) * (2 : ℚ) ^ binUnit p emin q

theorem nearestBin_of_overflow (p : Nat) (emin emax : Int) (q : ℚ)
    (h : binValue p emin q ≥ (2 : ℚ) ^ emax) :
    (nearestBin p emin emax q).inf = true ∧ (nearestBin p emin emax q).n = 0 ∧
    (nearestBin p emin emax q).u = 0 ∧ (nearestBin p emin emax q).acc = 1 := by
  unfold binValue at h
  rw [← pow2Rat_eq_zpow, ← pow2Rat_eq_zpow] at h
  have : nearestBin p emin emax q =
      { inf := true, n := 0, u := 0, acc := 1,
        distMid := if binFrac p emin q ≥ 1/2 then binFrac p emin q - 1/2 else 1/2 - binFrac p emin q,
        distRep := if binFrac p emin q ≥ 1/2 then 1 - binFrac p emin q else binFrac p emin q } :=
    if_pos h
  rw [this]
  exact ⟨rfl, rfl, rfl, rfl⟩

theorem nearestBin_of_inrange (p : Nat) (emin emax : Int) (q : ℚ)
    (h : binValue p emin q < (2 : ℚ) ^ emax) :
    (nearestBin p emin emax q).inf = false ∧ (nearestBin p emin emax q).n = binUnits p emin q ∧
    (nearestBin p emin emax q).u = binUnit p emin q ∧
    (nearestBin p emin emax q).acc = binAcc p emin q := by
  unfold binValue at h
  rw [← pow2Rat_eq_zpow, ← pow2Rat_eq_zpow] at h
  have : nearestBin p emin emax q =
      { inf := false, n := binUnits p emin q, u := binUnit p emin q, acc := binAcc p emin q,
        distMid := if binFrac p emin q ≥ 1/2 then binFrac p emin q - 1/2 else 1/2 - binFrac p emin q,
        distRep := if binFrac p emin q ≥ 1/2 then 1 - binFrac p emin q else binFrac p emin q } :=
    if_neg (not_le.mpr h)
  rw [this]
  exact ⟨rfl, rfl, rfl, rfl⟩

/-- The overflow flag is raised exactly when the rounded value reaches `2^emax`. -/
theorem nearestBin_inf_iff_value (p : Nat) (emin emax : Int) (q : ℚ) :
    (nearestBin p emin emax q).inf = true ↔ (2 : ℚ) ^ emax ≤ binValue p emin q := by
  by_cases h : binValue p emin q ≥ (2 : ℚ) ^ emax
  · exact ⟨fun _ => h, fun _ => (nearestBin_of_overflow p emin emax q h).1⟩
  · have := (nearestBin_of_inrange p emin emax q (not_le.mp h)).1
    rw [this]
    exact ⟨fun h' => absurd h' (by decide), fun h' => absurd h' h⟩

theorem nearestBin_fields (p : Nat) (emin emax : Int) (q : ℚ)
    (h : (nearestBin p emin emax q).inf = false) :
    (nearestBin p emin emax q).n = binUnits p emin q ∧
    (nearestBin p emin emax q).u = binUnit p emin q ∧
    (nearestBin p emin emax q).acc = binAcc p emin q ∧
    binValue p emin q < (2 : ℚ) ^ emax := by
  have hv : binValue p emin q < (2 : ℚ) ^ emax := by
    by_contra hc
    rw [(nearestBin_of_overflow p emin emax q (not_lt.mp hc)).1] at h
    cases h
  obtain ⟨-, a, b, c⟩ := nearestBin_of_inrange p emin emax q hv
  exact ⟨a, b, c, hv⟩

theorem binUp_of_gt {lo : Nat} {frac : ℚ} (h : frac > 1/2) : binUp lo frac = true := by
  unfold binUp; rw [decide_eq_true h]; rfl

theorem binUp_of_lt {lo : Nat} {frac : ℚ} (h : frac < 1/2) : binUp lo frac = false := by
  unfold binUp
  rw [decide_eq_false (not_lt.mpr (le_of_lt h)), decide_eq_false (ne_of_lt h)]; rfl

theorem binUp_of_half {lo : Nat} {frac : ℚ} (h : frac = 1/2) : binUp lo frac = (lo % 2 == 1) := by
  unfold binUp
  rw [decide_eq_false (not_lt.mpr (le_of_eq h)), decide_eq_true h]; rfl

/-- Round-half-even on `lo + frac`, `0 ≤ frac < 1`: distance at most one half, ties to even, and
    the sign of the error. -/
theorem halfEven_char (lo : Nat) (frac : ℚ) (h0 : 0 ≤ frac) (h1 : frac < 1) :
    let n : Nat := if binUp lo frac then lo + 1 else lo
    let a : Int := if frac == 0 then 0 else if binUp lo frac then 1 else -1
    |(n : ℚ) - ((lo : ℚ) + frac)| ≤ 1/2 ∧
    (|(n : ℚ) - ((lo : ℚ) + frac)| = 1/2 → n % 2 = 0) ∧
    (a = 0 ↔ (n : ℚ) = (lo : ℚ) + frac) ∧ (a = 1 ↔ (lo : ℚ) + frac < (n : ℚ)) ∧
    (a = -1 ↔ (n : ℚ) < (lo : ℚ) + frac) := by
  intro n a
  have hneq : ∀ {x : ℚ}, 0 < x → (x == 0) = false := by
    intro x hx; rw [beq_eq_false_iff_ne]; exact ne_of_gt hx
  have accUp : ∀ {v w : ℚ}, w < v →
      (((1 : Int) = 0 ↔ v = w) ∧ ((1 : Int) = 1 ↔ w < v) ∧ ((1 : Int) = -1 ↔ v < w)) := by
    intro v w h
    exact ⟨⟨fun h' => absurd h' (by decide), fun h' => (by exfalso; linarith)⟩, ⟨fun _ => h, fun _ => rfl⟩,
      ⟨fun h' => absurd h' (by decide), fun h' => (by exfalso; linarith)⟩⟩
  have accDn : ∀ {v w : ℚ}, v < w →
      (((-1 : Int) = 0 ↔ v = w) ∧ ((-1 : Int) = 1 ↔ w < v) ∧ ((-1 : Int) = -1 ↔ v < w)) := by
    intro v w h
    exact ⟨⟨fun h' => absurd h' (by decide), fun h' => (by exfalso; linarith)⟩,
      ⟨fun h' => absurd h' (by decide), fun h' => (by exfalso; linarith)⟩, ⟨fun _ => h, fun _ => rfl⟩⟩
  have nUp : binUp lo frac = true → (n : ℚ) = (lo : ℚ) + 1 ∧ n = lo + 1 := by
    intro h
    have : n = lo + 1 := by simp only [n, h, if_true]
    exact ⟨by rw [this]; push_cast; ring, this⟩
  have nDn : binUp lo frac = false → (n : ℚ) = (lo : ℚ) ∧ n = lo := by
    intro h
    have : n = lo := by simp only [n, h, Bool.false_eq_true, if_false]
    exact ⟨by rw [this], this⟩
  by_cases hgt : frac > 1/2
  · have hup := binUp_of_gt (lo := lo) hgt
    obtain ⟨hn, -⟩ := nUp hup
    have ha : a = 1 := by simp only [a, hup, hneq (by linarith : 0 < frac), Bool.false_eq_true, if_false, if_true]
    have hd : (n : ℚ) - ((lo : ℚ) + frac) = 1 - frac := by rw [hn]; ring
    rw [hd, ha]
    refine ⟨by rw [abs_le]; constructor <;> linarith, ?_, accUp (by rw [hn]; linarith)⟩
    intro h; rw [abs_of_pos (by linarith)] at h; exfalso; linarith
  · by_cases heq : frac = 1/2
    · have hfpos : 0 < frac := by rw [heq]; norm_num
      by_cases hodd : lo % 2 = 1
      · have hup : binUp lo frac = true := by rw [binUp_of_half heq, hodd]; rfl
        obtain ⟨hn, hn'⟩ := nUp hup
        have ha : a = 1 := by simp only [a, hup, hneq hfpos, Bool.false_eq_true, if_false, if_true]
        have hd : (n : ℚ) - ((lo : ℚ) + frac) = 1/2 := by rw [hn, heq]; ring
        rw [hd, ha]
        exact ⟨by rw [abs_of_pos (by norm_num)], fun _ => by omega, accUp (by rw [hn]; linarith)⟩
      · have hup : binUp lo frac = false := by
          rw [binUp_of_half heq]
          have : lo % 2 = 0 := by omega
          rw [this]; rfl
        obtain ⟨hn, hn'⟩ := nDn hup
        have ha : a = -1 := by simp only [a, hup, hneq hfpos, Bool.false_eq_true, if_false]
        have hd : (n : ℚ) - ((lo : ℚ) + frac) = -(1/2) := by rw [hn, heq]; ring
        rw [hd, ha]
        exact ⟨by rw [abs_neg, abs_of_pos (by norm_num)], fun _ => by omega,
          accDn (by rw [hn]; linarith)⟩
    · have hlt : frac < 1/2 := lt_of_le_of_ne (not_lt.mp hgt) heq
      have hup := binUp_of_lt (lo := lo) hlt
      obtain ⟨hn, -⟩ := nDn hup
      have hd : (n : ℚ) - ((lo : ℚ) + frac) = -frac := by rw [hn]; ring
      rw [hd]
      refine ⟨by rw [abs_neg, abs_of_nonneg h0]; linarith,
        fun h => by rw [abs_neg, abs_of_nonneg h0] at h; exfalso; linarith, ?_⟩
      by_cases hz : frac = 0
      · have ha : a = 0 := by simp only [a, hz, beq_self_eq_true, if_true]
        rw [ha, hn, hz]
        exact ⟨⟨fun _ => by ring, fun _ => rfl⟩,
          ⟨fun h' => absurd h' (by decide), fun h' => (by exfalso; linarith)⟩,
          ⟨fun h' => absurd h' (by decide), fun h' => (by exfalso; linarith)⟩⟩
      · have hpos : 0 < frac := lt_of_le_of_ne h0 (Ne.symm hz)
        have ha : a = -1 := by simp only [a, hup, hneq hpos, Bool.false_eq_true, if_false]
        rw [ha]
        exact accDn (by rw [hn]; linarith)

/-! ### The scaled magnitude `t = q / 2^u` -/

theorem binScaled_eq (p : Nat) (emin : Int) (q : ℚ) :
    binScaled p emin q = q / (2 : ℚ) ^ binUnit p emin q := by
  unfold binScaled; rw [pow2Rat_eq_zpow]

theorem binScaled_mul (p : Nat) (emin : Int) (q : ℚ) :
    binScaled p emin q * (2 : ℚ) ^ binUnit p emin q = q := by
  rw [binScaled_eq, div_mul_cancel₀ _ (ne_of_gt (two_zpow_pos _))]

theorem binScaled_pos {q : ℚ} (hq : 0 < q) (p : Nat) (emin : Int) : 0 < binScaled p emin q := by
  rw [binScaled_eq]; exact div_pos hq (two_zpow_pos _)

theorem binLo_bounds {q : ℚ} (hq : 0 < q) (p : Nat) (emin : Int) :
    (binLo p emin q : ℚ) ≤ binScaled p emin q ∧ binScaled p emin q < (binLo p emin q : ℚ) + 1 :=
  floor_toNat_bounds (le_of_lt (binScaled_pos hq p emin))

theorem binFrac_bounds {q : ℚ} (hq : 0 < q) (p : Nat) (emin : Int) :
    0 ≤ binFrac p emin q ∧ binFrac p emin q < 1 := by
  obtain ⟨a, b⟩ := binLo_bounds hq p emin
  unfold binFrac
  constructor <;> linarith

theorem binLo_add_frac (p : Nat) (emin : Int) (q : ℚ) :
    (binLo p emin q : ℚ) + binFrac p emin q = binScaled p emin q := by
  unfold binFrac; ring

/-- error of the rounded value, in units -/
theorem binValue_sub (p : Nat) (emin : Int) (q : ℚ) :
    binValue p emin q - q =
      ((binUnits p emin q : ℚ) - binScaled p emin q) * (2 : ℚ) ^ binUnit p emin q := by
  have := binScaled_mul p emin q
  unfold binValue
  rw [sub_mul, this]

/-- The scaled magnitude of a normal `q` has exactly `p` bits; a subnormal one fewer. -/
theorem binScaled_range {q : ℚ} (hq : 0 < q) (p : Nat) (hp : 1 ≤ p) (emin : Int) :
    (emin ≤ floorLog2 q →
      ((2 ^ (p - 1) : Nat) : ℚ) ≤ binScaled p emin q ∧ binScaled p emin q < ((2 ^ p : Nat) : ℚ)) ∧
    (floorLog2 q < emin → binScaled p emin q < ((2 ^ (p - 1) : Nat) : ℚ)) := by
  obtain ⟨b1, b2⟩ := floorLog2_bounds hq
  have h2 : (2 : ℚ) ≠ 0 := by norm_num
  have hc1 : ((2 ^ (p - 1) : Nat) : ℚ) = (2 : ℚ) ^ (((p - 1 : Nat) : Int)) := by
    rw [zpow_natCast]; push_cast; rfl
  have hc2 : ((2 ^ p : Nat) : ℚ) = (2 : ℚ) ^ (((p - 1 : Nat) : Int) + 1) := by
    have : (((p - 1 : Nat) : Int) + 1) = ((p : Nat) : Int) := by omega
    rw [this, zpow_natCast]; push_cast; rfl
  constructor
  · intro he
    have hu : binUnit p emin q = floorLog2 q - ((p - 1 : Nat) : Int) := by
      unfold binUnit; rw [if_neg (by omega)]
    rw [binScaled_eq, hu, hc1, hc2, le_div_iff₀ (two_zpow_pos _), div_lt_iff₀ (two_zpow_pos _),
      ← zpow_add₀ h2, ← zpow_add₀ h2]
    have e1 : ((p - 1 : Nat) : Int) + (floorLog2 q - ((p - 1 : Nat) : Int)) = floorLog2 q := by ring
    have e2 : ((p - 1 : Nat) : Int) + 1 + (floorLog2 q - ((p - 1 : Nat) : Int)) = floorLog2 q + 1 := by
      ring
    rw [e1, e2]
    exact ⟨b1, b2⟩
  · intro he
    have hu : binUnit p emin q = emin - ((p - 1 : Nat) : Int) := by
      unfold binUnit; rw [if_pos he]
    rw [binScaled_eq, hu, hc1, div_lt_iff₀ (two_zpow_pos _), ← zpow_add₀ h2]
    have e1 : ((p - 1 : Nat) : Int) + (emin - ((p - 1 : Nat) : Int)) = emin := by ring
    rw [e1]
    exact lt_of_lt_of_le b2 (two_zpow_le (by omega))

/-- `lo ≤ t < lo + 1` with natural bounds on `t` transfers to `lo`. -/
theorem nat_lt_of_cast_le_lt {lo N : Nat} {t : ℚ} (h1 : (lo : ℚ) ≤ t) (h2 : t < (N : ℚ)) : lo < N := by
  have : (lo : ℚ) < (N : ℚ) := lt_of_le_of_lt h1 h2
  exact_mod_cast this

theorem nat_le_of_cast_lt_succ {lo N : Nat} {t : ℚ} (h1 : (N : ℚ) ≤ t) (h2 : t < (lo : ℚ) + 1) :
    N ≤ lo := by
  have : (N : ℚ) < ((lo + 1 : Nat) : ℚ) := by push_cast; exact lt_of_le_of_lt h1 h2
  have : N < lo + 1 := by exact_mod_cast this
  omega

theorem binUnits_ge_lo (p : Nat) (emin : Int) (q : ℚ) : binLo p emin q ≤ binUnits p emin q := by
  unfold binUnits; split <;> omega

theorem binUnits_le_lo (p : Nat) (emin : Int) (q : ℚ) : binUnits p emin q ≤ binLo p emin q + 1 := by
  unfold binUnits; split <;> omega

/-- Number of units: at most `2^p` (`= 2^p` only after a carry out of the top binade), at least
    `2^(p−1)` for a normal `q`, at most `2^(p−1)` for a subnormal one. -/
theorem binUnits_range {q : ℚ} (hq : 0 < q) (p : Nat) (hp : 1 ≤ p) (emin : Int) :
    binUnits p emin q ≤ 2 ^ p ∧ (emin ≤ floorLog2 q → 2 ^ (p - 1) ≤ binUnits p emin q) ∧
    (floorLog2 q < emin → binUnits p emin q ≤ 2 ^ (p - 1)) := by
  obtain ⟨r1, r2⟩ := binScaled_range hq p hp emin
  obtain ⟨l1, l2⟩ := binLo_bounds hq p emin
  have g := binUnits_ge_lo p emin q
  have l := binUnits_le_lo p emin q
  have hpp : 2 ^ (p - 1) ≤ 2 ^ p := Nat.pow_le_pow_right (by omega) (by omega)
  refine ⟨?_, ?_, ?_⟩
  · by_cases he : emin ≤ floorLog2 q
    · have := nat_lt_of_cast_le_lt l1 (r1 he).2; omega
    · have := nat_lt_of_cast_le_lt l1 (r2 (by omega)); omega
  · intro he
    have := nat_le_of_cast_lt_succ (r1 he).1 l2; omega
  · intro he
    have := nat_lt_of_cast_le_lt l1 (r2 he); omega

/-! ### `nearestBin`: final statements -/

section final
variable (p : Nat) (emin emax : Int) (q : ℚ)

/-- The unit exponent of a finite result. -/
theorem nearestBin_unit (h : (nearestBin p emin emax q).inf = false) :
    (nearestBin p emin emax q).u =
      (if floorLog2 q < emin then emin else floorLog2 q) - ((p - 1 : Nat) : Int) := by
  rw [(nearestBin_fields p emin emax q h).2.1]
  unfold binUnit; split <;> rfl

/-- The result is a point of the format's grid: at most `2^p` units (`2^p` itself only after a
    carry), at least `2^(p−1)` for a normal `q`, the unit not below the subnormal unit, the value
    below `2^emax`. -/
theorem nearestBin_grid (hq : 0 < q) (hp : 1 ≤ p) (h : (nearestBin p emin emax q).inf = false) :
    (nearestBin p emin emax q).n ≤ 2 ^ p ∧
    (emin ≤ floorLog2 q → 2 ^ (p - 1) ≤ (nearestBin p emin emax q).n) ∧
    (floorLog2 q < emin → (nearestBin p emin emax q).n ≤ 2 ^ (p - 1)) ∧
    emin - ((p - 1 : Nat) : Int) ≤ (nearestBin p emin emax q).u ∧
    ((nearestBin p emin emax q).n : ℚ) * (2 : ℚ) ^ (nearestBin p emin emax q).u < (2 : ℚ) ^ emax := by
  obtain ⟨hn, hu, -, hv⟩ := nearestBin_fields p emin emax q h
  obtain ⟨a, b, c⟩ := binUnits_range hq p hp emin
  rw [hn, hu]
  refine ⟨a, b, c, ?_, hv⟩
  unfold binUnit; split <;> omega

/-- Nearest: the error is at most half a unit. -/
theorem nearestBin_nearest (hq : 0 < q) (h : (nearestBin p emin emax q).inf = false) :
    |q - ((nearestBin p emin emax q).n : ℚ) * (2 : ℚ) ^ (nearestBin p emin emax q).u|
      ≤ (2 : ℚ) ^ (nearestBin p emin emax q).u / 2 := by
  obtain ⟨hn, hu, -, -⟩ := nearestBin_fields p emin emax q h
  obtain ⟨f0, f1⟩ := binFrac_bounds hq p emin
  have hc := (halfEven_char (binLo p emin q) (binFrac p emin q) f0 f1).1
  rw [binLo_add_frac] at hc
  have hv := binValue_sub p emin q
  unfold binValue at hv
  rw [hn, hu, abs_sub_comm, hv, abs_mul, abs_of_pos (two_zpow_pos _)]
  have : |(binUnits p emin q : ℚ) - binScaled p emin q| ≤ 1 / 2 := hc
  calc |(binUnits p emin q : ℚ) - binScaled p emin q| * (2 : ℚ) ^ binUnit p emin q
      ≤ 1 / 2 * (2 : ℚ) ^ binUnit p emin q :=
        mul_le_mul_of_nonneg_right this (le_of_lt (two_zpow_pos _))
    _ = (2 : ℚ) ^ binUnit p emin q / 2 := by ring

/-- Ties go to the even number of units. -/
theorem nearestBin_tie_even (hq : 0 < q) (h : (nearestBin p emin emax q).inf = false)
    (htie : |q - ((nearestBin p emin emax q).n : ℚ) * (2 : ℚ) ^ (nearestBin p emin emax q).u|
      = (2 : ℚ) ^ (nearestBin p emin emax q).u / 2) :
    (nearestBin p emin emax q).n % 2 = 0 := by
  obtain ⟨hn, hu, -, -⟩ := nearestBin_fields p emin emax q h
  obtain ⟨f0, f1⟩ := binFrac_bounds hq p emin
  have hc := (halfEven_char (binLo p emin q) (binFrac p emin q) f0 f1).2.1
  rw [binLo_add_frac] at hc
  have hv := binValue_sub p emin q
  unfold binValue at hv
  rw [hn, hu, abs_sub_comm, hv, abs_mul, abs_of_pos (two_zpow_pos _)] at htie
  rw [hn]
  apply hc
  have hpos := two_zpow_pos (binUnit p emin q)
  have : |(binUnits p emin q : ℚ) - binScaled p emin q| * (2 : ℚ) ^ binUnit p emin q
      = 1 / 2 * (2 : ℚ) ^ binUnit p emin q := by rw [htie]; ring
  exact mul_right_cancel₀ (ne_of_gt hpos) this

/-- `acc` is the sign of (value − q). -/
theorem nearestBin_acc (hq : 0 < q) (h : (nearestBin p emin emax q).inf = false) :
    let v := ((nearestBin p emin emax q).n : ℚ) * (2 : ℚ) ^ (nearestBin p emin emax q).u
    ((nearestBin p emin emax q).acc = 0 ↔ v = q) ∧ ((nearestBin p emin emax q).acc = 1 ↔ q < v) ∧
      ((nearestBin p emin emax q).acc = -1 ↔ v < q) := by
  intro v
  obtain ⟨hn, hu, ha, -⟩ := nearestBin_fields p emin emax q h
  obtain ⟨f0, f1⟩ := binFrac_bounds hq p emin
  obtain ⟨-, -, c0, c1, c2⟩ := halfEven_char (binLo p emin q) (binFrac p emin q) f0 f1
  rw [binLo_add_frac] at c0 c1 c2
  have hv := binValue_sub p emin q
  have hvv : v = binValue p emin q := by simp only [v, hn, hu]; rfl
  have hpos := two_zpow_pos (binUnit p emin q)
  rw [ha, hvv]
  have c0' : binAcc p emin q = 0 ↔ (binUnits p emin q : ℚ) = binScaled p emin q := c0
  have c1' : binAcc p emin q = 1 ↔ binScaled p emin q < (binUnits p emin q : ℚ) := c1
  have c2' : binAcc p emin q = -1 ↔ (binUnits p emin q : ℚ) < binScaled p emin q := c2
  rw [c0', c1', c2']
  refine ⟨?_, ?_, ?_⟩
  · constructor
    · intro e; rw [e, sub_self, zero_mul] at hv; linarith
    · intro e
      rw [e, sub_self] at hv
      have := (mul_eq_zero.mp hv.symm).resolve_right (ne_of_gt hpos)
      linarith
  · constructor
    · intro e
      have : 0 < binValue p emin q - q := by rw [hv]; exact mul_pos (by linarith) hpos
      linarith
    · intro e
      have : 0 < ((binUnits p emin q : ℚ) - binScaled p emin q) * (2 : ℚ) ^ binUnit p emin q := by
        rw [← hv]; linarith
      have := (pos_iff_pos_of_mul_pos this).mpr hpos
      linarith
  · constructor
    · intro e
      have : binValue p emin q - q < 0 := by rw [hv]; exact mul_neg_of_neg_of_pos (by linarith) hpos
      linarith
    · intro e
      have h3 : ((binUnits p emin q : ℚ) - binScaled p emin q) * (2 : ℚ) ^ binUnit p emin q < 0 := by
        rw [← hv]; linarith
      by_contra hc
      have : 0 ≤ ((binUnits p emin q : ℚ) - binScaled p emin q) * (2 : ℚ) ^ binUnit p emin q :=
        mul_nonneg (by linarith) (le_of_lt hpos)
      linarith

/-- An overflowed result is flagged as rounded up. -/
theorem nearestBin_inf_acc (h : (nearestBin p emin emax q).inf = true) :
    (nearestBin p emin emax q).acc = 1 ∧ (nearestBin p emin emax q).n = 0 := by
  have hv := (nearestBin_inf_iff_value p emin emax q).mp h
  obtain ⟨-, a, -, c⟩ := nearestBin_of_overflow p emin emax q hv
  exact ⟨c, a⟩

theorem natpow_cast (k : Nat) : ((2 ^ k : Nat) : ℚ) = (2 : ℚ) ^ (k : Int) := by
  rw [zpow_natCast]; push_cast; rfl

/-- Representable values are fixed points: if `q = n₀ × 2^u₀` with `n₀ < 2^p`, `u₀` not below the
    subnormal unit and `q < 2^emax`, the result is exactly `q` with `acc = 0`. -/
theorem nearest_id_on_grid (hp : 1 ≤ p) (n0 : Nat) (u0 : Int) (hn0 : 0 < n0) (hn1 : n0 < 2 ^ p)
    (hu0 : emin - ((p - 1 : Nat) : Int) ≤ u0) (hq : q = (n0 : ℚ) * (2 : ℚ) ^ u0)
    (hmax : q < (2 : ℚ) ^ emax) :
    (nearestBin p emin emax q).inf = false ∧
    ((nearestBin p emin emax q).n : ℚ) * (2 : ℚ) ^ (nearestBin p emin emax q).u = q ∧
    (nearestBin p emin emax q).acc = 0 := by
  have h2 : (2 : ℚ) ≠ 0 := by norm_num
  have hn0q : (0 : ℚ) < (n0 : ℚ) := by exact_mod_cast hn0
  have hqpos : 0 < q := by rw [hq]; exact mul_pos hn0q (two_zpow_pos _)
  obtain ⟨b1, b2⟩ := floorLog2_bounds hqpos
  -- the chosen unit is not coarser than `2^u₀`
  have hu : binUnit p emin q ≤ u0 := by
    unfold binUnit
    split
    · exact hu0
    · have hlt : q < (2 : ℚ) ^ ((p : Int) + u0) := by
        rw [hq, zpow_add₀ h2, ← natpow_cast]
        exact mul_lt_mul_of_pos_right (by exact_mod_cast hn1) (two_zpow_pos _)
      have := (zpow_lt_zpow_iff_right₀ (by norm_num : (1 : ℚ) < 2)).mp (lt_of_le_of_lt b1 hlt)
      omega
  obtain ⟨k, hk⟩ := Int.eq_ofNat_of_zero_le (show 0 ≤ u0 - binUnit p emin q by omega)
  -- so `t` is the natural number `n₀ · 2^k`
  have ht : binScaled p emin q = ((n0 * 2 ^ k : Nat) : ℚ) := by
    rw [binScaled_eq]
    generalize binUnit p emin q = U at hk
    rw [hq, mul_div_assoc, ← zpow_sub₀ h2, hk]
    push_cast; rw [zpow_natCast]
  have hlo : binLo p emin q = n0 * 2 ^ k := by
    unfold binLo
    have hfl : (((n0 * 2 ^ k : Nat) : ℚ)).floor = ((n0 * 2 ^ k : Nat) : Int) := by
      rw [← Int.cast_natCast, Rat.floor_intCast]
    rw [ht, hfl]; rfl
  have hfr : binFrac p emin q = 0 := by
    unfold binFrac; rw [hlo, ht, sub_self]
  have hup : binUp (binLo p emin q) (binFrac p emin q) = false := by
    rw [hfr]; exact binUp_of_lt (by norm_num)
  have hun : binUnits p emin q = n0 * 2 ^ k := by
    unfold binUnits; rw [hup, hlo]; rfl
  have hval : binValue p emin q = q := by
    unfold binValue; rw [hun, ← ht, binScaled_mul]
  obtain ⟨a, b, c, d⟩ := nearestBin_of_inrange p emin emax q (by rw [hval]; exact hmax)
  refine ⟨a, ?_, ?_⟩
  · rw [b, c]; exact hval
  · rw [d]; unfold binAcc; rw [hfr]; rfl

/-- Overflow happens exactly from the IEEE threshold on: `q ≥ 2^emax − ½·2^(emax−p)` (the midpoint
    between the largest finite value and `2^emax`; it rounds up because `2^p − 1` is odd). -/
theorem nearestBin_inf_iff (hq : 0 < q) (hp : 1 ≤ p) (hem : emin < emax) :
    (nearestBin p emin emax q).inf = true ↔
      (2 : ℚ) ^ emax - (2 : ℚ) ^ (emax - (p : Int)) / 2 ≤ q := by
  rw [nearestBin_inf_iff_value]
  have h2 : (2 : ℚ) ≠ 0 := by norm_num
  obtain ⟨b1, b2⟩ := floorLog2_bounds hq
  obtain ⟨ur, un, us⟩ := binUnits_range hq p hp emin
  obtain ⟨l1, l2⟩ := binLo_bounds hq p emin
  have hP : ((2 ^ p : Nat) : ℚ) * (2 : ℚ) ^ (emax - (p : Int)) = (2 : ℚ) ^ emax := by
    rw [natpow_cast]; exact two_zpow_split _ _
  have hPpos : (0 : ℚ) < (2 : ℚ) ^ (emax - (p : Int)) := two_zpow_pos _
  have hpm : ((p - 1 : Nat) : Int) = (p : Int) - 1 := by omega
  -- the top binade
  have top : floorLog2 q = emax - 1 →
      binUnit p emin q = emax - (p : Int) ∧
      (((2 ^ p : Nat) : ℚ) - 1 / 2 ≤ binScaled p emin q ↔
        (2 : ℚ) ^ emax - (2 : ℚ) ^ (emax - (p : Int)) / 2 ≤ q) := by
    intro he
    have hu : binUnit p emin q = emax - (p : Int) := by
      unfold binUnit; rw [if_neg (by omega), he, hpm]; ring
    refine ⟨hu, ?_⟩
    rw [binScaled_eq, hu, le_div_iff₀ hPpos, sub_mul, hP]
    constructor <;> intro h <;> linarith
  constructor
  · -- value reaches 2^emax → q is at or above the threshold
    intro hv
    by_contra hlt
    have hlt := not_le.mp hlt
    have hqmax : q < (2 : ℚ) ^ emax := by linarith [two_zpow_pos (emax - (p : Int))]
    have he : floorLog2 q < emax :=
      (zpow_lt_zpow_iff_right₀ (by norm_num : (1 : ℚ) < 2)).mp (lt_of_le_of_lt b1 hqmax)
    have hcontra : binValue p emin q < (2 : ℚ) ^ emax := by
      unfold binValue
      by_cases hsub : floorLog2 q < emin
      · have hu : binUnit p emin q = emin - ((p - 1 : Nat) : Int) := by
          unfold binUnit; rw [if_pos hsub]
        have hn : (binUnits p emin q : ℚ) ≤ ((2 ^ (p - 1) : Nat) : ℚ) := by exact_mod_cast us hsub
        calc (binUnits p emin q : ℚ) * (2 : ℚ) ^ binUnit p emin q
            ≤ ((2 ^ (p - 1) : Nat) : ℚ) * (2 : ℚ) ^ binUnit p emin q :=
              mul_le_mul_of_nonneg_right hn (le_of_lt (two_zpow_pos _))
          _ = (2 : ℚ) ^ emin := by rw [hu, natpow_cast]; exact two_zpow_split _ _
          _ < (2 : ℚ) ^ emax := two_zpow_lt hem
      · by_cases htop : floorLog2 q = emax - 1
        · obtain ⟨hu, hiff⟩ := top htop
          have htl : binScaled p emin q < ((2 ^ p : Nat) : ℚ) - 1 / 2 := by
            by_contra hc; exact absurd (hiff.mp (not_lt.mp hc)) (not_le.mpr hlt)
          have hlo : binLo p emin q < 2 ^ p := nat_lt_of_cast_le_lt l1 (by linarith)
          have hn : binUnits p emin q < 2 ^ p := by
            by_cases hl : binLo p emin q + 1 < 2 ^ p
            · have := binUnits_le_lo p emin q; omega
            · have hle : binLo p emin q = 2 ^ p - 1 := by omega
              have hpos : 0 < 2 ^ p := Nat.pow_pos (by omega)
              have hloq : (binLo p emin q : ℚ) = ((2 ^ p : Nat) : ℚ) - 1 := by
                rw [hle, Nat.cast_sub (by omega)]; simp
              have hf : binFrac p emin q < 1 / 2 := by
                unfold binFrac; rw [hloq]; linarith
              unfold binUnits
              rw [binUp_of_lt hf]
              simpa using hlo
          have hn' : (binUnits p emin q : ℚ) < ((2 ^ p : Nat) : ℚ) := by exact_mod_cast hn
          calc (binUnits p emin q : ℚ) * (2 : ℚ) ^ binUnit p emin q
              < ((2 ^ p : Nat) : ℚ) * (2 : ℚ) ^ binUnit p emin q :=
                mul_lt_mul_of_pos_right hn' (two_zpow_pos _)
            _ = (2 : ℚ) ^ emax := by rw [hu]; exact hP
        · have hu : binUnit p emin q = floorLog2 q - ((p - 1 : Nat) : Int) := by
            unfold binUnit; rw [if_neg hsub]
          have hn : (binUnits p emin q : ℚ) ≤ ((2 ^ p : Nat) : ℚ) := by exact_mod_cast ur
          calc (binUnits p emin q : ℚ) * (2 : ℚ) ^ binUnit p emin q
              ≤ ((2 ^ p : Nat) : ℚ) * (2 : ℚ) ^ binUnit p emin q :=
                mul_le_mul_of_nonneg_right hn (le_of_lt (two_zpow_pos _))
            _ = (2 : ℚ) ^ (floorLog2 q + 1) := by
                rw [hu, natpow_cast, ← zpow_add₀ h2]; congr 1; rw [hpm]; ring
            _ < (2 : ℚ) ^ emax := two_zpow_lt (by omega)
    linarith
  · -- q at or above the threshold → the value reaches 2^emax
    intro hge
    unfold binValue
    by_cases hbig : (2 : ℚ) ^ emax ≤ q
    · have he : emax ≤ floorLog2 q := by
        have := (zpow_lt_zpow_iff_right₀ (by norm_num : (1 : ℚ) < 2)).mp (lt_of_le_of_lt hbig b2)
        omega
      have hu : binUnit p emin q = floorLog2 q - ((p - 1 : Nat) : Int) := by
        unfold binUnit; rw [if_neg (by omega)]
      have hn : ((2 ^ (p - 1) : Nat) : ℚ) ≤ (binUnits p emin q : ℚ) := by
        exact_mod_cast un (by omega)
      calc (2 : ℚ) ^ emax ≤ (2 : ℚ) ^ floorLog2 q := two_zpow_le he
        _ = ((2 ^ (p - 1) : Nat) : ℚ) * (2 : ℚ) ^ binUnit p emin q := by
            rw [hu, natpow_cast]; exact (two_zpow_split _ _).symm
        _ ≤ (binUnits p emin q : ℚ) * (2 : ℚ) ^ binUnit p emin q :=
            mul_le_mul_of_nonneg_right hn (le_of_lt (two_zpow_pos _))
    · have hbig := not_le.mp hbig
      -- threshold ≥ 2^(emax-1)
      have hthr : (2 : ℚ) ^ (emax - 1) ≤ q := by
        have e1 : (2 : ℚ) ^ emax = 2 * (2 : ℚ) ^ (emax - 1) := by
          rw [← two_zpow_succ]; congr 1; ring
        have e2 : (2 : ℚ) ^ (emax - (p : Int)) ≤ (2 : ℚ) ^ (emax - 1) := two_zpow_le (by omega)
        have := two_zpow_pos (emax - 1)
        linarith
      have htop : floorLog2 q = emax - 1 :=
        floorLog2_unique hq _ hthr (by rw [sub_add_cancel]; exact hbig)
      obtain ⟨hu, hiff⟩ := top htop
      have htl := hiff.mpr hge
      have htu : binScaled p emin q < ((2 ^ p : Nat) : ℚ) := by
        rw [binScaled_eq, hu, div_lt_iff₀ hPpos, hP]; exact hbig
      have hpos : 0 < 2 ^ p := Nat.pow_pos (by omega)
      have hlo1 : binLo p emin q < 2 ^ p := nat_lt_of_cast_le_lt l1 htu
      have hlo2 : 2 ^ p - 1 ≤ binLo p emin q := by
        apply nat_le_of_cast_lt_succ (t := binScaled p emin q - 1 / 2)
        · rw [Nat.cast_sub (by omega), Nat.cast_one]; linarith
        · linarith
      have hle : binLo p emin q = 2 ^ p - 1 := by omega
      have hloq : (binLo p emin q : ℚ) = ((2 ^ p : Nat) : ℚ) - 1 := by
        rw [hle, Nat.cast_sub (by omega)]; simp
      have hodd : binLo p emin q % 2 = 1 := by
        have : 2 ^ p = 2 * 2 ^ (p - 1) := by
          rw [← Nat.pow_succ']; congr 1; omega
        omega
      have hf : 1 / 2 ≤ binFrac p emin q := by
        unfold binFrac; rw [hloq]; linarith
      have hup : binUp (binLo p emin q) (binFrac p emin q) = true := by
        rcases lt_or_eq_of_le hf with h | h
        · exact binUp_of_gt h
        · rw [binUp_of_half h.symm, hodd]; rfl
      have hn : binUnits p emin q = 2 ^ p := by
        unfold binUnits; rw [hup, hle]; simp only [if_true]; omega
      rw [hn, hu, hP]

end final

end Decimal
