/-
  The radix-conversion loops of dec.go (DecimalModel/Radix.lean) against arithmetic.

  * `divWVW_spec`: `divWVW_g` is division of the base-2^64 number by a word;
  * `setNatLoop_eq` / `setNat_eq`: `z.setNat(x)` writes EVERY word of the destination: the result is
    `norm (toWords (binOf x) len(z))`, the `len(z)` low base-10^19 words of the value — the initial
    contents of `z` do not occur;
  * `shrWordRev_spec`, `decToNatLoop_eq`, `decToNat_eq`: the same for `decToNat`;
  * `natOf_lt_pow_digits`: a word vector is below `10^(x.digits())` (normalised or not).
-/
import DecimalModel.Radix
import Proofs.RefineBridge
import Mathlib.Tactic.Ring
import Mathlib.Tactic.LinearCombination

set_option linter.unusedVariables false
namespace Decimal.L0
open Decimal Decimal.Gen Decimal.W

/-! ### base 2^64 vectors -/

theorem W_pos : 0 < W := by rw [W_eq]; omega
theorem Wpow_pos (n : Nat) : 0 < W ^ n := Nat.pow_pos W_pos

theorem WFbin_nil : WFbin [] := fun _ h => nomatch h

theorem WFbin_cons {a : Nat} {x : List Nat} : WFbin (a :: x) ↔ a < 18446744073709551616 ∧ WFbin x := by
  constructor
  · intro h
    exact ⟨h a (List.mem_cons_self ..), fun w hw => h w (List.mem_cons_of_mem _ hw)⟩
  · intro ⟨ha, hx⟩ w hw
    rcases List.mem_cons.mp hw with h | h
    · rw [h]; exact ha
    · exact hx w h

theorem WFbin_append {x y : List Nat} : WFbin (x ++ y) ↔ WFbin x ∧ WFbin y := by
  constructor
  · intro h
    exact ⟨fun w hw => h w (List.mem_append_left _ hw), fun w hw => h w (List.mem_append_right _ hw)⟩
  · intro ⟨hx, hy⟩ w hw
    rcases List.mem_append.mp hw with h | h
    · exact hx w h
    · exact hy w h

theorem WFbin_single {a : Nat} : WFbin [a] ↔ a < 18446744073709551616 := by
  rw [WFbin_cons]; exact ⟨fun h => h.1, fun h => ⟨h, WFbin_nil⟩⟩

theorem WFbin_reverse {x : List Nat} : WFbin x.reverse ↔ WFbin x := by
  constructor
  · intro h w hw; exact h w (List.mem_reverse.mpr hw)
  · intro h w hw; exact h w (List.mem_reverse.mp hw)

/-- decimal words are machine words. -/
theorem WFbin_of_WF {x : List Nat} (h : WF x) : WFbin x := fun w hw => by
  have := h w hw; omega

theorem binOf_nil : binOf [] = 0 := rfl
theorem binOf_cons (a : Nat) (x : List Nat) : binOf (a :: x) = a + W * binOf x := rfl
theorem binOf_single (a : Nat) : binOf [a] = a := by simp [binOf]

theorem binOf_append (x y : List Nat) : binOf (x ++ y) = binOf x + W ^ x.length * binOf y := by
  induction x with
  | nil => simp [binOf]
  | cons a x ih =>
    simp only [List.cons_append, binOf_cons, ih, List.length_cons, pow_succ]
    ring

theorem binOf_lt {x : List Nat} (h : WFbin x) : binOf x < W ^ x.length := by
  induction x with
  | nil => simp [binOf]
  | cons a x ih =>
    have ⟨ha, hx⟩ := WFbin_cons.mp h
    have := ih hx
    rw [binOf_cons, List.length_cons, pow_succ]
    have hW := W_eq
    have : W * (binOf x + 1) ≤ W * W ^ x.length := Nat.mul_le_mul_left _ (by omega)
    have e : W ^ x.length * W = W * W ^ x.length := Nat.mul_comm _ _
    rw [e]
    have : W * (binOf x + 1) = W * binOf x + W := by ring
    omega

/-- the `n` low base-2^64 words of `M`. -/
def toWordsBin (M : Nat) : Nat → List Nat
  | 0 => []
  | n + 1 => (M % W) :: toWordsBin (M / W) n

theorem length_toWordsBin (M n : Nat) : (toWordsBin M n).length = n := by
  induction n generalizing M with
  | zero => rfl
  | succ n ih => simp [toWordsBin, ih]

theorem WFbin_toWordsBin (M n : Nat) : WFbin (toWordsBin M n) := by
  induction n generalizing M with
  | zero => exact WFbin_nil
  | succ n ih =>
    rw [toWordsBin]
    exact WFbin_cons.mpr ⟨by rw [← W_eq]; exact Nat.mod_lt _ W_pos, ih _⟩

theorem binOf_toWordsBin (M n : Nat) : binOf (toWordsBin M n) = M % W ^ n := by
  induction n generalizing M with
  | zero => simp [toWordsBin, binOf, Nat.mod_one]
  | succ n ih =>
    rw [toWordsBin, binOf_cons, ih, Nat.pow_succ, Nat.mul_comm (W ^ n) W, Nat.mod_mul]

/-- `norm` on binary vectors: same value, no leading zero word, words unchanged. -/
theorem binOf_norm (z : List Nat) : binOf (norm z) = binOf z := by
  induction z using List.reverseRecOn with
  | nil => rfl
  | append_singleton z a ih =>
    rw [norm_snoc]
    split
    · rename_i h; subst h
      rw [ih, binOf_append]; simp [binOf]
    · rfl

theorem WFbin_norm {z : List Nat} (h : WFbin z) : WFbin (norm z) := by
  induction z using List.reverseRecOn with
  | nil => exact h
  | append_singleton z a ih =>
    rw [norm_snoc]
    split
    · exact ih (WFbin_append.mp h).1
    · exact h

/-! ### `divWVW_g` -/

theorem divWVWrev_spec (x : List Nat) (y r : Nat) (hx : WFbin x) (hy0 : 0 < y)
    (hy : y ≤ 18446744073709551616) (hr : r < y) :
    binOf (divWVWrev x y r).1 * y + (divWVWrev x y r).2 = r * W ^ x.length + binOf x.reverse
      ∧ (divWVWrev x y r).2 < y ∧ WFbin (divWVWrev x y r).1
      ∧ (divWVWrev x y r).1.length = x.length := by
  induction x generalizing r with
  | nil => simp [divWVWrev, binOf, WFbin_nil, hr]
  | cons a x ih =>
    have ⟨ha, hx'⟩ := WFbin_cons.mp hx
    have hr1 : (r * W + a) % y < y := Nat.mod_lt _ hy0
    obtain ⟨h1, h2, h3, h4⟩ := ih _ hx' hr1
    -- the quotient word fits (bits.Div does not panic): r < y
    have hq : (r * W + a) / y < 18446744073709551616 := by
      rw [Nat.div_lt_iff_lt_mul hy0, W_eq]
      have : (r + 1) * 18446744073709551616 ≤ y * 18446744073709551616 := Nat.mul_le_mul_right _ (by omega)
      have e : 18446744073709551616 * y = y * 18446744073709551616 := Nat.mul_comm _ _
      omega
    have hw : divWW_g r a y = ((r * W + a) / y, (r * W + a) % y) := rfl
    simp only [divWVWrev, hw]
    refine ⟨?_, h2, WFbin_append.mpr ⟨h3, WFbin_single.mpr hq⟩, by simp [h4]⟩
    simp only [List.reverse_cons, binOf_append, binOf_single, List.length_cons, pow_succ, h4,
      List.length_reverse]
    have hdm : (r * W + a) % y + y * ((r * W + a) / y) = r * W + a := Nat.mod_add_div _ _
    -- (`ring` on the definition `W` makes the kernel unfold the literal: generalise it first)
    generalize W = V at *
    linear_combination h1 + V ^ x.length * hdm

theorem divWVW_spec (x : List Nat) (y : Nat) (hx : WFbin x) (hy0 : 0 < y)
    (hy : y ≤ 18446744073709551616) :
    binOf (divWVW x 0 y).1 = binOf x / y ∧ (divWVW x 0 y).2 = binOf x % y
      ∧ WFbin (divWVW x 0 y).1 ∧ (divWVW x 0 y).1.length = x.length := by
  have h := divWVWrev_spec x.reverse y 0 (WFbin_reverse.mpr hx) hy0 hy hy0
  simp only [List.reverse_reverse, Nat.zero_mul, Nat.zero_add, List.length_reverse] at h
  obtain ⟨h1, h2, h3, h4⟩ := h
  unfold divWVW
  refine ⟨?_, ?_, h3, h4⟩
  · have : binOf x / y = binOf (divWVWrev x.reverse y 0).1 := by
      rw [← h1, Nat.mul_comm, Nat.mul_add_div hy0, Nat.div_eq_of_lt h2, Nat.add_zero]
    exact this.symm
  · rw [← h1, Nat.mul_comm, Nat.mul_add_mod, Nat.mod_eq_of_lt h2]

/-! ### `setNat` -/

theorem take_set_succ (z : List Nat) (i r : Nat) (hi : i < z.length) :
    (z.set i r).take (i + 1) = z.take i ++ [r] := by
  induction z generalizing i with
  | nil => simp at hi
  | cons a z ih =>
    cases i with
    | zero => simp
    | succ j =>
      simp only [List.length_cons, Nat.add_lt_add_iff_right] at hi
      simp [ih j hi]

theorem drop_set_succ (z : List Nat) (i r k : Nat) :
    (z.set i r).drop (i + 1 + k) = z.drop (i + 1 + k) := by
  rw [List.drop_set]; simp; omega

/-- the loop of `setNat` overwrites the words `i … i+k-1` with the `k` low decimal words of `b`. -/
theorem setNatLoop_eq (k i : Nat) (b z : List Nat) (hb : WFbin b) (hik : i + k ≤ z.length) :
    setNatLoop k i b z = z.take i ++ toWords (binOf b) k ++ z.drop (i + k) := by
  induction k generalizing i b z with
  | zero => simp [setNatLoop, toWords]
  | succ k ih =>
    obtain ⟨h1, h2, h3, h4⟩ := divWVW_spec b c_DB hb (by decide) (by decide)
    have hi : i < z.length := by omega
    simp only [setNatLoop]
    rw [ih (i + 1) _ _ h3 (by simp; omega), take_set_succ z i _ hi, h1, h2]
    have hd : (z.set i (binOf b % c_DB)).drop (i + 1 + k) = z.drop (i + (k + 1)) := by
      rw [drop_set_succ]; congr 1; omega
    rw [hd, toWords]
    have hB : c_DB = B := rfl
    simp [hB]

/-- `z.setNat(x)` = the `len(z)` low base-10^19 words of the value of `x`, normalised. -/
theorem setNat_eq (z x : List Nat) (hx : WFbin x) :
    setNat z x = norm (toWords (binOf x) z.length) := by
  show norm (setNatLoop z.length 0 x z) = _
  rw [setNatLoop_eq z.length 0 x z hx (by omega)]
  simp

/-! ### `decToNat` -/

theorem shrWordRev_spec (x : List Nat) (r : Nat) (hx : WF x) (hr : r < 18446744073709551616) :
    natOf (shrWordRev x r).1 * W + (shrWordRev x r).2 = r * B ^ x.length + natOf x.reverse
      ∧ (shrWordRev x r).2 < 18446744073709551616 ∧ WF (shrWordRev x r).1
      ∧ (shrWordRev x r).1.length = x.length := by
  induction x generalizing r with
  | nil => simp [shrWordRev, natOf, WF_nil, hr]
  | cons a x ih =>
    have ⟨ha, hx'⟩ := WF_cons.mp hx
    have hw := mulAddWWW_g_eq r c_DB a (by rw [W_eq]; exact hr) (by decide) (by rw [W_eq]; omega)
    have hlo : (r * c_DB + a) % W < 18446744073709551616 := by
      have := Nat.mod_lt (r * c_DB + a) W_pos
      rw [W_eq] at this; exact this
    obtain ⟨h1, h2, h3, h4⟩ := ih _ hx' hlo
    have hB : c_DB = 10000000000000000000 := rfl
    -- the high word is a decimal word: r·B + a < 2^64·B
    have hq : (r * c_DB + a) / W < 10000000000000000000 := by
      rw [Nat.div_lt_iff_lt_mul W_pos, W_eq, hB]
      omega
    simp only [shrWordRev, hw]
    refine ⟨?_, h2, WF_append.mpr ⟨h3, WF_single.mpr hq⟩, by simp [h4]⟩
    simp only [List.reverse_cons, natOf_append, natOf_single, List.length_cons, pow_succ, h4,
      List.length_reverse]
    have hdm : (r * c_DB + a) % W + W * ((r * c_DB + a) / W) = r * c_DB + a := Nat.mod_add_div _ _
    have hBB : B = c_DB := rfl
    rw [hBB] at h1 ⊢
    generalize W = V at *
    generalize c_DB = D at *
    linear_combination h1 + D ^ x.length * hdm

/-- one pass of the inner loop: quotient and remainder of the division by 2^64. -/
theorem shrWord_spec (x : List Nat) (hx : WF x) :
    natOf (shrWordRev x.reverse 0).1 = natOf x / W ∧ (shrWordRev x.reverse 0).2 = natOf x % W
      ∧ WF (shrWordRev x.reverse 0).1 := by
  have h := shrWordRev_spec x.reverse 0 (WF_reverse.mpr hx) (by omega)
  simp only [List.reverse_reverse, Nat.zero_mul, Nat.zero_add] at h
  obtain ⟨h1, h2, h3, h4⟩ := h
  have h2' : (shrWordRev x.reverse 0).2 < W := by rw [W_eq]; exact h2
  refine ⟨?_, ?_, h3⟩
  · have : natOf x / W = natOf (shrWordRev x.reverse 0).1 := by
      rw [← h1, Nat.mul_comm, Nat.mul_add_div W_pos, Nat.div_eq_of_lt h2', Nat.add_zero]
    exact this.symm
  · rw [← h1, Nat.mul_comm, Nat.mul_add_mod, Nat.mod_eq_of_lt h2']

/-- the outer loop of `decToNat` overwrites the words `i … i+k-1` with the `k` low binary words. -/
theorem decToNatLoop_eq (k i : Nat) (zz z : List Nat) (hzz : WF zz) (hik : i + k ≤ z.length) :
    decToNatLoop k i zz z = z.take i ++ toWordsBin (natOf zz) k ++ z.drop (i + k) := by
  induction k generalizing i zz z with
  | zero => simp [decToNatLoop, toWordsBin]
  | succ k ih =>
    obtain ⟨h1, h2, h3⟩ := shrWord_spec zz hzz
    have hi : i < z.length := by omega
    simp only [decToNatLoop]
    rw [ih (i + 1) _ _ (WF_norm h3) (by simp; omega), take_set_succ z i _ hi, natOf_norm, h1, h2]
    have hd : (z.set i (natOf zz % W)).drop (i + 1 + k) = z.drop (i + (k + 1)) := by
      rw [drop_set_succ]; congr 1; omega
    rw [hd, toWordsBin]
    simp

theorem length_mkBuf (n : Nat) (junk : Nat → Nat) : (mkBuf n junk).length = n := by
  simp [mkBuf]

/-- `decToNat(z, x)` for two words and more = the estimated number of low binary words of the
    value, normalised. -/
theorem decToNat_eq (junk : Nat → Nat) (x : List Nat) (hx : WF x) (hl : 2 ≤ x.length) :
    decToNat junk x = norm (toWordsBin (natOf x) (decToNatWords (digits x))) := by
  unfold decToNat
  rw [if_neg (by omega), if_neg (by omega)]
  simp only []
  generalize decToNatWords (digits x) = N
  rw [length_mkBuf, decToNatLoop_eq N 0 x _ hx (by rw [length_mkBuf]; omega), List.take_zero,
    List.nil_append, Nat.zero_add, List.drop_eq_nil_of_le (Nat.le_of_eq (length_mkBuf _ _)),
    List.append_nil]

theorem decToNat_one (junk : Nat → Nat) (a : Nat) : decToNat junk [a] = [a] := by
  simp [decToNat, mkBuf]

theorem decToNat_nil (junk : Nat → Nat) : decToNat junk [] = [] := rfl

/-! ### `digits` bounds the value -/

theorem natOf_lt_pow_digits (x : List Nat) (hx : WF x) : natOf x < 10 ^ digits x := by
  induction x using List.reverseRecOn with
  | nil => simp [digits, natOf]
  | append_singleton z a _ =>
    have ⟨hz, ha⟩ := WF_append.mp hx
    have ha := WF_single.mp ha
    have hzl := natOf_lt hz
    unfold digits
    rw [if_neg (by simp)]
    have hg : (z ++ [a]).getD ((z ++ [a]).length - 1) 0 = a := by
      simp [List.getD_eq_getElem?_getD]
    rw [hg, natOf_append, natOf_single]
    have hlen : (z ++ [a]).length - 1 = z.length := by simp
    rw [hlen, Nat.pow_add]
    have hP : B ^ z.length = 10 ^ (z.length * c_DW) := by
      rw [B_pow, Nat.mul_comm]; rfl
    rw [hP] at hzl ⊢
    have hdd : decDigits a = decDigits64 a := rfl
    rw [hdd]
    have hlt : a < 10 ^ decDigits64 a := by
      rcases Nat.eq_zero_or_pos a with h0 | h0
      · subst h0; rw [decDigits64_zero]; norm_num
      · exact (decDigits64_spec a (by rw [W_eq]; omega) h0).2
    generalize (10 : Nat) ^ (z.length * c_DW) = P at *
    generalize (10 : Nat) ^ decDigits64 a = D at *
    have : P * (a + 1) ≤ P * D := Nat.mul_le_mul_left _ hlt
    have e : P * (a + 1) = P * a + P := by ring
    omega

end Decimal.L0
